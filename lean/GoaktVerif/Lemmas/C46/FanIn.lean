/-
C46 lemmas, part 2: Merge and Concat forward the sub-values in arrival order, whatever the
demand pattern, and signal completion only after everything that arrived has been delivered.
-/
import GoaktVerif.Model.C46
import GoaktVerif.Lemmas.C46.Interleave

namespace GoaktVerif.C46
open GoaktVerif.Model.C45 (Val)
open GoaktVerif.Model.C46

/-- ghost record of a run: sub-values handled, elements sent, streamComplete sent, cancel handled -/
structure Trace where
  arr : List Tagged := []
  sent : List Tagged := []
  completed : Bool := false
  cancelled : Bool := false

def Trace.add (t : Trace) (ev : JEv) (o : JOut) : Trace :=
  { arr := match ev with | .value slot v => t.arr ++ [(slot, v)] | _ => t.arr,
    sent := t.sent ++ o.elems,
    completed := t.completed || o.complete,
    cancelled := t.cancelled || (match ev with | .cancel => true | _ => false) }

/-! ### Merge -/

def mergeRun : MergeSt × Trace → List JEv → MergeSt × Trace
  | st, [] => st
  | (s, t), ev :: evs =>
    if s.alive then let r := mergeStep s ev; mergeRun (r.1, t.add ev r.2) evs
    else mergeRun (s, t) evs

theorem merge_tryFlush_spec (s : MergeSt) :
    (s.tryFlush).2.1 ++ (s.tryFlush).1.buf = s.buf ∧
    ((s.tryFlush).2.2 = true → (s.tryFlush).1.buf = [] ∧ (s.tryFlush).1.alive = false) ∧
    ((s.tryFlush).2.2 = false → (s.tryFlush).1.alive = s.alive) := by
  unfold MergeSt.tryFlush
  dsimp only
  split
  · rename_i h
    simp only [Bool.and_eq_true, decide_eq_true_eq] at h
    refine ⟨List.take_append_drop _ _, fun _ => ⟨List.isEmpty_iff.mp h.2, rfl⟩, fun h2 => by simp at h2⟩
  · exact ⟨List.take_append_drop _ _, fun h2 => by simp at h2, fun _ => rfl⟩

structure MergeInv (s : MergeSt) (t : Trace) : Prop where
  order : t.sent ++ s.buf = t.arr
  alive : s.alive = true → t.completed = false
  drained : t.completed = true → t.cancelled = false → s.buf = []

/-- the state after the stageWire (handled first, once) -/
theorem MergeInv.init (n : Nat) :
    MergeInv (mergeStep { n := n } .wire).1 (({} : Trace).add .wire (mergeStep { n := n } .wire).2) := by
  simp only [mergeStep]
  split
  · exact ⟨rfl, fun h1 => by simp at h1, fun _ _ => rfl⟩
  · exact ⟨rfl, fun _ => rfl, fun h1 => by simp [Trace.add] at h1⟩

theorem MergeInv.step {s : MergeSt} {t : Trace} (h : MergeInv s t) (ha : s.alive = true) (ev : JEv)
    (hw : ∀ (_ : ev = .wire), False) :
    MergeInv (mergeStep s ev).1 (t.add ev (mergeStep s ev).2) := by
  have hc := h.alive ha
  cases ev with
  | wire => exact (hw rfl).elim
  | req k =>
    obtain ⟨h1, h2, h3⟩ := merge_tryFlush_spec { s with demand := s.demand + k }
    simp only [mergeStep]
    refine ⟨?_, ?_, ?_⟩
    · simp only [Trace.add, List.append_assoc, h1]; exact h.order
    · intro hal
      cases hf : ({ s with demand := s.demand + k } : MergeSt).tryFlush.2.2 with
      | true => have := (h2 hf).2; rw [this] at hal; simp at hal
      | false => simp [Trace.add, hc, hf]
    · intro hcomp _
      cases hf : ({ s with demand := s.demand + k } : MergeSt).tryFlush.2.2 with
      | true => exact (h2 hf).1
      | false => simp [Trace.add, hc, hf] at hcomp
  | value slot v =>
    obtain ⟨h1, h2, h3⟩ := merge_tryFlush_spec { s with buf := s.buf ++ [(slot, v)] }
    simp only [mergeStep]
    refine ⟨?_, ?_, ?_⟩
    · simp only [Trace.add, List.append_assoc, h1]; rw [← List.append_assoc, h.order]
    · intro hal
      cases hf : ({ s with buf := s.buf ++ [(slot, v)] } : MergeSt).tryFlush.2.2 with
      | true => have := (h2 hf).2; rw [this] at hal; simp at hal
      | false => simp [Trace.add, hc, hf]
    · intro hcomp _
      cases hf : ({ s with buf := s.buf ++ [(slot, v)] } : MergeSt).tryFlush.2.2 with
      | true => exact (h2 hf).1
      | false => simp [Trace.add, hc, hf] at hcomp
  | done slot =>
    obtain ⟨h1, h2, h3⟩ := merge_tryFlush_spec { s with doneCount := s.doneCount + 1 }
    simp only [mergeStep]
    refine ⟨?_, ?_, ?_⟩
    · simp only [Trace.add, List.append_assoc, h1]; exact h.order
    · intro hal
      cases hf : ({ s with doneCount := s.doneCount + 1 } : MergeSt).tryFlush.2.2 with
      | true => have := (h2 hf).2; rw [this] at hal; simp at hal
      | false => simp [Trace.add, hc, hf]
    · intro hcomp _
      cases hf : ({ s with doneCount := s.doneCount + 1 } : MergeSt).tryFlush.2.2 with
      | true => exact (h2 hf).1
      | false => simp [Trace.add, hc, hf] at hcomp
  | cancel =>
    simp only [mergeStep]
    exact ⟨by simpa [Trace.add] using h.order, fun h1 => by simp at h1, fun _ h2 => by simp [Trace.add] at h2⟩

def noWire (evs : List JEv) : Prop := ∀ ev ∈ evs, ∀ (_ : ev = .wire), False

theorem mergeRun_inv (s : MergeSt) (t : Trace) (evs : List JEv) (h : MergeInv s t) (hw : noWire evs) :
    MergeInv (mergeRun (s, t) evs).1 (mergeRun (s, t) evs).2 := by
  induction evs generalizing s t with
  | nil => exact h
  | cons ev evs ih =>
    have hw' : noWire evs := fun e he => hw e (by simp [he])
    simp only [mergeRun]
    by_cases ha : s.alive = true
    · simp only [ha, if_true]
      exact ih _ _ (h.step ha ev (hw ev (by simp))) hw'
    · simp only [ha]; exact ih _ _ h hw'

/-- the initial configuration of a Merge over `n` sub-sources: the stageWire has been handled -/
def mergeInit (n : Nat) : MergeSt × Trace :=
  ((mergeStep { n := n } .wire).1, ({} : Trace).add .wire (mergeStep { n := n } .wire).2)

/-- MERGE, for every sequence of requests / sub-values / sub-dones / cancels after the wire:
    what was sent is a prefix of the arrival order; a completion not caused by a cancel comes only after
    every arrived element was sent, and the output is then an interleaving of the per-source arrival sequences. -/
theorem merge_correct (n : Nat) (evs : List JEv) (hw : noWire evs) :
    let r := mergeRun (mergeInit n) evs
    r.2.sent <+: r.2.arr ∧
    (r.2.completed = true → r.2.cancelled = false → r.2.sent = r.2.arr) ∧
    ((∀ p ∈ r.2.arr, p.1 < n) → r.2.completed = true → r.2.cancelled = false →
      Spec.C46.Interleave (projs n r.2.arr) (r.2.sent.map (·.2))) := by
  have h : MergeInv (mergeRun (mergeInit n) evs).1 (mergeRun (mergeInit n) evs).2 :=
    mergeRun_inv _ _ evs (MergeInv.init n) hw
  refine ⟨?_, ?_, ?_⟩
  · rw [← h.order]; exact List.prefix_append _ _
  · intro hc hk
    have := h.drained hc hk
    have ho := h.order
    rw [this] at ho
    simpa using ho
  · intro htags hc hk
    have hb := h.drained hc hk
    have ho := h.order
    rw [hb] at ho
    simp only [List.append_nil] at ho
    rw [show (mergeRun (mergeInit n) evs).2.sent = (mergeRun (mergeInit n) evs).2.arr from ho]
    exact interleave_projs n _ htags

/-! ### Concat -/

def concatRun : ConcatSt × Trace → List JEv → ConcatSt × Trace
  | st, [] => st
  | (s, t), ev :: evs =>
    if s.alive then let r := concatStep s ev; concatRun (r.1, t.add ev r.2) evs
    else concatRun (s, t) evs

theorem concat_tryFlush_spec (s : ConcatSt) :
    (s.tryFlush).2.1 ++ (s.tryFlush).1.buf = s.buf ∧
    ((s.tryFlush).2.2 = true → (s.tryFlush).1.buf = [] ∧ (s.tryFlush).1.alive = false) ∧
    ((s.tryFlush).2.2 = false → (s.tryFlush).1.alive = s.alive) := by
  unfold ConcatSt.tryFlush
  dsimp only
  split
  · rename_i h
    simp only [Bool.and_eq_true] at h
    refine ⟨List.take_append_drop _ _, fun _ => ⟨List.isEmpty_iff.mp h.2, rfl⟩, fun h2 => by simp at h2⟩
  · exact ⟨List.take_append_drop _ _, fun h2 => by simp at h2, fun _ => rfl⟩

structure ConcatInv (s : ConcatSt) (t : Trace) : Prop where
  order : t.sent ++ s.buf = t.arr
  alive : s.alive = true → t.completed = false
  drained : t.completed = true → t.cancelled = false → s.buf = []

theorem ConcatInv.init (n : Nat) :
    ConcatInv (concatStep { n := n } .wire).1 (({} : Trace).add .wire (concatStep { n := n } .wire).2) := by
  simp only [concatStep]
  split
  · exact ⟨rfl, fun h1 => by simp at h1, fun _ _ => rfl⟩
  · exact ⟨rfl, fun _ => rfl, fun h1 => by simp [Trace.add] at h1⟩

theorem ConcatInv.flushed {s s0 : ConcatSt} {t : Trace} (h : ConcatInv s t) (ha : s.alive = true)
    (ev : JEv) (extra : List Tagged)
    (hb : s0.buf = s.buf ++ extra) (_hal : s0.alive = s.alive)
    (harr : (t.add ev ⟨s0.tryFlush.2.1, s0.tryFlush.2.2⟩).arr = t.arr ++ extra)
    (_hcan : (t.add ev ⟨s0.tryFlush.2.1, s0.tryFlush.2.2⟩).cancelled = t.cancelled) :
    ConcatInv s0.tryFlush.1 (t.add ev ⟨s0.tryFlush.2.1, s0.tryFlush.2.2⟩) := by
  have hc := h.alive ha
  obtain ⟨h1, h2, h3⟩ := concat_tryFlush_spec s0
  refine ⟨?_, ?_, ?_⟩
  · rw [harr]
    simp only [Trace.add, List.append_assoc, h1, hb]
    rw [← List.append_assoc, h.order]
  · intro hal2
    cases hf : s0.tryFlush.2.2 with
    | true => have := (h2 hf).2; rw [this] at hal2; simp at hal2
    | false => simp [Trace.add, hc]
  · intro hcomp _
    cases hf : s0.tryFlush.2.2 with
    | true => exact (h2 hf).1
    | false => simp [Trace.add, hc, hf] at hcomp

theorem ConcatInv.step {s : ConcatSt} {t : Trace} (h : ConcatInv s t) (ha : s.alive = true) (ev : JEv)
    (hw : ∀ (_ : ev = .wire), False) :
    ConcatInv (concatStep s ev).1 (t.add ev (concatStep s ev).2) := by
  have hc := h.alive ha
  cases ev with
  | wire => exact (hw rfl).elim
  | req k =>
    simp only [concatStep]
    exact h.flushed ha (.req k) [] (by simp) rfl (by simp [Trace.add]) (by simp [Trace.add])
  | value slot v =>
    simp only [concatStep]
    exact h.flushed ha (.value slot v) [(slot, v)] rfl rfl (by simp [Trace.add]) (by simp [Trace.add])
  | done slot =>
    simp only [concatStep]
    split
    · exact ⟨by simpa [Trace.add] using h.order, fun _ => by simpa [Trace.add] using hc,
        fun h1 => by simp [Trace.add, hc] at h1⟩
    · exact h.flushed ha (.done slot) [] (by simp) rfl (by simp [Trace.add]) (by simp [Trace.add])
  | cancel =>
    simp only [concatStep]
    exact ⟨by simpa [Trace.add] using h.order, fun h1 => by simp at h1, fun _ h2 => by simp [Trace.add] at h2⟩

theorem concatRun_inv (s : ConcatSt) (t : Trace) (evs : List JEv) (h : ConcatInv s t) (hw : noWire evs) :
    ConcatInv (concatRun (s, t) evs).1 (concatRun (s, t) evs).2 := by
  induction evs generalizing s t with
  | nil => exact h
  | cons ev evs ih =>
    have hw' : noWire evs := fun e he => hw e (by simp [he])
    simp only [concatRun]
    by_cases ha : s.alive = true
    · simp only [ha, if_true]
      exact ih _ _ (h.step ha ev (hw ev (by simp))) hw'
    · simp only [ha]; exact ih _ _ h hw'

def concatInit (n : Nat) : ConcatSt × Trace :=
  ((concatStep { n := n } .wire).1, ({} : Trace).add .wire (concatStep { n := n } .wire).2)

/-- CONCAT, for every message sequence after the wire: elements are forwarded in arrival order and a
    completion not caused by a cancel comes only after all of them were sent.  (Sub-source i+1 is
    materialized only when sub-source i has reported done, so arrivals come source by source: the
    arrival order IS the sources one after another.) -/
theorem concat_correct (n : Nat) (evs : List JEv) (hw : noWire evs) :
    let r := concatRun (concatInit n) evs
    r.2.sent <+: r.2.arr ∧ (r.2.completed = true → r.2.cancelled = false → r.2.sent = r.2.arr) := by
  have h : ConcatInv (concatRun (concatInit n) evs).1 (concatRun (concatInit n) evs).2 :=
    concatRun_inv _ _ evs (ConcatInv.init n) hw
  refine ⟨?_, ?_⟩
  · rw [← h.order]; exact List.prefix_append _ _
  · intro hc hk
    have := h.drained hc hk
    have ho := h.order
    rw [this] at ho
    simpa using ho

end GoaktVerif.C46

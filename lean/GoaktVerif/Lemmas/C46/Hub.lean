/-
C46 lemmas, part 3: the fan-out hubs (Broadcast, Balance, Partition) on traces without slot
cancellation: which slot is sent which element, for every order of demand signals and elements.
-/
import GoaktVerif.Model.C46
import GoaktVerif.Lemmas.C46.Interleave

namespace GoaktVerif.C46
open GoaktVerif.Model.C45 (Val Down)
open GoaktVerif.Model.C46

/-- ghost record of a hub run: elements handled, (slot, element) pairs sent, and whether streamComplete was sent to a slot -/
structure HTrace where
  ins : List Val := []
  sent : List (Nat × Val) := []
  completed : Bool := false

def elemsTo (l : List (Nat × Down)) : List (Nat × Val) :=
  l.filterMap fun p => match p.2 with | .elem v => some (p.1, v) | _ => none

def HTrace.add (t : HTrace) (ev : HEv) (o : HOut) : HTrace :=
  { ins := match ev with | .elem v => t.ins ++ [v] | _ => t.ins,
    sent := t.sent ++ elemsTo o.toSlots,
    completed := t.completed || o.toSlots.any (fun p => p.2 == Down.complete) }

def hubRun (k : HubKind) : HubSt × HTrace → List HEv → HubSt × HTrace
  | st, [] => st
  | (s, t), ev :: evs =>
    if s.alive then let r := hubStep k s ev; hubRun k (r.1, t.add ev r.2) evs
    else hubRun k (s, t) evs

def noCancel (evs : List HEv) : Prop := ∀ ev ∈ evs, ∀ slot, ev = .slotCancel slot → False

theorem maybePull_keeps (k : HubKind) (s : HubSt) :
    (s.maybePull k).1.live = s.live ∧ (s.maybePull k).1.n = s.n ∧ (s.maybePull k).1.alive = s.alive := by
  unfold HubSt.maybePull
  dsimp only
  repeat' split
  all_goals simp

/-- all slots live -/
def AllLive (s : HubSt) : Prop := s.live = List.replicate s.n true

theorem liveSlots_allLive {s : HubSt} (h : AllLive s) : liveSlots s = List.range s.n := by
  unfold liveSlots
  apply List.filter_eq_self.mpr
  intro i hi
  have hi' : i < s.n := List.mem_range.mp hi
  rw [h]
  simp [List.getD_eq_getElem?_getD, hi']

@[simp] theorem maybePull_live (k : HubKind) (s : HubSt) : (s.maybePull k).1.live = s.live := (maybePull_keeps k s).1
@[simp] theorem maybePull_n' (k : HubKind) (s : HubSt) : (s.maybePull k).1.n = s.n := (maybePull_keeps k s).2.1

theorem drain_keeps (f : Nat) (s : HubSt) :
    (drain f s).1.live = s.live ∧ (drain f s).1.n = s.n ∧ (drain f s).1.alive = s.alive := by
  induction f generalizing s with
  | zero => exact ⟨rfl, rfl, rfl⟩
  | succ f ih =>
    simp only [drain]
    split
    · exact ⟨rfl, rfl, rfl⟩
    · split
      · exact ⟨rfl, rfl, rfl⟩
      · rename_i c _
        obtain ⟨h1, h2, h3⟩ := ih { s with buf := _, demand := decr s.demand c, next := (c + 1) % s.n }
        exact ⟨h1, h2, h3⟩

@[simp] theorem drain_live (s : HubSt) : s.drain.1.live = s.live := (drain_keeps _ s).1
@[simp] theorem drain_n (s : HubSt) : s.drain.1.n = s.n := (drain_keeps _ s).2.1

/-- a step that is not a slotCancel keeps every slot live and `n` unchanged -/
theorem hubStep_keeps (k : HubKind) (s : HubSt) (ev : HEv) (hc : ∀ slot, ev = .slotCancel slot → False) :
    (hubStep k s ev).1.live = s.live ∧ (hubStep k s ev).1.n = s.n := by
  cases ev with
  | wire => exact ⟨rfl, rfl⟩
  | slotDemand slot n =>
    simp only [hubStep]
    split
    · split <;> simp
    · simp
  | elem v =>
    cases k with
    | broadcast => simp [hubStep]
    | balance => simp [hubStep]
    | partition m =>
      simp only [hubStep]
      split <;> (split <;> simp)
  | complete => simp only [hubStep]; split <;> exact ⟨rfl, rfl⟩
  | error e => exact ⟨rfl, rfl⟩
  | slotCancel slot => exact (hc slot rfl).elim

theorem hubStep_allLive (k : HubKind) (s : HubSt) (ev : HEv) (h : AllLive s)
    (hc : ∀ slot, ev = .slotCancel slot → False) :
    AllLive (hubStep k s ev).1 ∧ (hubStep k s ev).1.n = s.n := by
  obtain ⟨h1, h2⟩ := hubStep_keeps k s ev hc
  unfold AllLive at *
  rw [h1, h2]; exact ⟨h, rfl⟩

/-! ### Broadcast: every slot is sent every element, in order -/

theorem proj_append {α : Type} (a b : List (Nat × α)) (i : Nat) : proj (a ++ b) i = proj a i ++ proj b i := by
  simp [proj]

theorem proj_fanout (n : Nat) (v : Val) (i : Nat) (hi : i < n) :
    proj ((List.range n).map fun j => (j, v)) i = [v] := by
  induction n with
  | zero => omega
  | succ n ih =>
    rw [List.range_succ, List.map_append, proj_append]
    by_cases h : i < n
    · rw [ih h]; have : ¬ n = i := by omega
      simp [proj, this]
    · have : i = n := by omega
      subst this
      have : proj ((List.range i).map fun j => (j, v)) i = [] := by
        simp [proj]
        intro a ha; omega
      rw [this]
      simp [proj]

theorem elemsTo_map_elem (l : List Nat) (v : Val) :
    elemsTo (l.map fun i => (i, Down.elem v)) = l.map fun i => (i, v) := by
  induction l with
  | nil => rfl
  | cons a l ih => simp [elemsTo] at ih ⊢; exact ih

theorem elemsTo_complete (l : List Nat) : elemsTo (l.map fun i => (i, Down.complete)) = [] := by
  induction l with
  | nil => rfl
  | cons a l ih => simpa [elemsTo] using ih

theorem elemsTo_error (l : List Nat) (e : GoaktVerif.Model.C45.Err) : elemsTo (l.map fun i => (i, Down.error e)) = [] := by
  induction l with
  | nil => rfl
  | cons a l ih => simpa [elemsTo] using ih

/-- events other than elements leave the record of a Broadcast / Partition hub unchanged -/
theorem add_other (k : HubKind) (hk : k ≠ .balance) (s : HubSt) (t : HTrace) (ev : HEv)
    (he : ∀ v, ev ≠ .elem v) :
    (t.add ev (hubStep k s ev).2).sent = t.sent ∧ (t.add ev (hubStep k s ev).2).ins = t.ins := by
  cases ev with
  | elem v => exact absurd rfl (he v)
  | wire => simp [HTrace.add, hubStep, elemsTo]
  | slotDemand slot n => simp [HTrace.add, hubStep, hk, elemsTo]
  | complete =>
    have : (k = HubKind.balance && !s.buf.isEmpty) = false := by simp [hk]
    simp [HTrace.add, hubStep, this, elemsTo_complete]
  | error e => simp [HTrace.add, hubStep, elemsTo_error]
  | slotCancel slot =>
    simp only [HTrace.add, hubStep]
    split <;> simp [elemsTo]

structure BcInv (n : Nat) (s : HubSt) (t : HTrace) : Prop where
  live : AllLive s
  size : s.n = n
  all : ∀ i, i < n → proj t.sent i = t.ins

theorem BcInv.step {n : Nat} {s : HubSt} {t : HTrace} (h : BcInv n s t) (ev : HEv)
    (hc : ∀ slot, ev = .slotCancel slot → False) :
    BcInv n (hubStep .broadcast s ev).1 (t.add ev (hubStep .broadcast s ev).2) := by
  obtain ⟨hl, hn⟩ := hubStep_allLive .broadcast s ev h.live hc
  refine ⟨hl, by rw [hn, h.size], ?_⟩
  cases ev with
  | elem v =>
    intro i hi
    have hls : liveSlots { s with pending := s.pending - 1 } = List.range n := by
      have : AllLive { s with pending := s.pending - 1 } := h.live
      rw [liveSlots_allLive this]; simp [h.size]
    simp only [HTrace.add, hubStep, hls, elemsTo_map_elem, proj_append, proj_fanout n v i hi, h.all i hi]
  | wire => intro i hi; obtain ⟨h1, h2⟩ := add_other .broadcast (by simp) s t .wire (by simp); rw [h1, h2]; exact h.all i hi
  | slotDemand slot k =>
    intro i hi; obtain ⟨h1, h2⟩ := add_other .broadcast (by simp) s t (.slotDemand slot k) (by simp); rw [h1, h2]; exact h.all i hi
  | complete => intro i hi; obtain ⟨h1, h2⟩ := add_other .broadcast (by simp) s t .complete (by simp); rw [h1, h2]; exact h.all i hi
  | error e => intro i hi; obtain ⟨h1, h2⟩ := add_other .broadcast (by simp) s t (.error e) (by simp); rw [h1, h2]; exact h.all i hi
  | slotCancel slot => exact (hc slot rfl).elim

/-! ### Partition: slot i is sent exactly the elements whose selector is i -/

def sel (m : Nat) : Val → Nat
  | .int x => (x.emod m).toNat
  | _ => 0

structure PtInv (n m : Nat) (s : HubSt) (t : HTrace) : Prop where
  live : AllLive s
  size : s.n = n
  ints : ∀ v ∈ t.ins, ∃ x, v = Val.int x
  all : ∀ i, i < n → proj t.sent i = t.ins.filter (fun v => sel m v = i)

theorem PtInv.step {n m : Nat} {s : HubSt} {t : HTrace} (h : PtInv n m s t) (ev : HEv)
    (hc : ∀ slot, ev = .slotCancel slot → False) (hint : ∀ v, ev = .elem v → ∃ x, v = Val.int x) :
    PtInv n m (hubStep (.partition m) s ev).1 (t.add ev (hubStep (.partition m) s ev).2) := by
  obtain ⟨hl, hn⟩ := hubStep_allLive (.partition m) s ev h.live hc
  cases ev with
  | elem v =>
    obtain ⟨x, rfl⟩ := hint v rfl
    refine ⟨hl, by rw [hn, h.size], ?_, ?_⟩
    · intro w hw
      simp only [HTrace.add, List.mem_append, List.mem_singleton] at hw
      rcases hw with hw | rfl
      · exact h.ints w hw
      · exact ⟨x, rfl⟩
    · intro i hi
      have hlive : ∀ j, j < n → s.live.getD j false = true := by
        intro j hj
        rw [h.live]; simp [List.getD_eq_getElem?_getD, h.size, hj]
      simp only [HTrace.add, hubStep]
      by_cases hs : (x.emod m).toNat < n
      · have h1 : ((x.emod m).toNat < s.n && s.live.getD (x.emod m).toNat false) = true := by
          have := hlive _ hs
          simp only [List.getD_eq_getElem?_getD] at this
          simp [h.size, hs, this]
        simp only [h1, if_true, List.filter_append, proj_append, h.all i hi]
        by_cases hxi : (x.emod m).toNat = i
        · simp [elemsTo, proj, sel, hxi]
        · simp [elemsTo, proj, sel, hxi]
      · have h1 : ((x.emod m).toNat < s.n && s.live.getD (x.emod m).toNat false) = false := by
          simp [h.size, hs]
        have hxi : ¬ (x.emod m).toNat = i := by omega
        simp only [h1, Bool.false_eq_true, if_false, List.filter_append, proj_append, h.all i hi]
        simp [elemsTo, proj, sel, hxi]
  | wire =>
    obtain ⟨h1, h2⟩ := add_other (.partition m) (by simp) s t .wire (by simp)
    exact ⟨hl, by rw [hn, h.size], by rw [h2]; exact h.ints, by rw [h1, h2]; exact h.all⟩
  | slotDemand slot k =>
    obtain ⟨h1, h2⟩ := add_other (.partition m) (by simp) s t (.slotDemand slot k) (by simp)
    exact ⟨hl, by rw [hn, h.size], by rw [h2]; exact h.ints, by rw [h1, h2]; exact h.all⟩
  | complete =>
    obtain ⟨h1, h2⟩ := add_other (.partition m) (by simp) s t .complete (by simp)
    exact ⟨hl, by rw [hn, h.size], by rw [h2]; exact h.ints, by rw [h1, h2]; exact h.all⟩
  | error e =>
    obtain ⟨h1, h2⟩ := add_other (.partition m) (by simp) s t (.error e) (by simp)
    exact ⟨hl, by rw [hn, h.size], by rw [h2]; exact h.ints, by rw [h1, h2]; exact h.all⟩
  | slotCancel slot => exact (hc slot rfl).elim

/-! ### Balance (after fix 61853f2): every element is sent to exactly one slot, in arrival order,
possibly later; completion is propagated only after the buffer has drained -/

theorem chooseSlot_lt {s : HubSt} {c : Nat} (h : chooseSlot s = some c) : c < s.n := by
  unfold chooseSlot at h
  have hm := List.mem_of_find?_eq_some h
  simp only [List.mem_map, List.mem_range] at hm
  obtain ⟨i, hi, rfl⟩ := hm
  exact Nat.mod_lt _ (by omega)

/-- what `drain` sends: a prefix of the buffer, each element to one slot in range -/
theorem drain_spec (f : Nat) (s : HubSt) :
    (elemsTo (drain f s).2).map (·.2) ++ (drain f s).1.buf = s.buf ∧
    (∀ p ∈ elemsTo (drain f s).2, p.1 < s.n) ∧
    ((drain f s).2.any (fun p => p.2 == Down.complete) = false) ∧
    (drain f s).1.upDone = s.upDone := by
  induction f generalizing s with
  | zero => simp [drain, elemsTo]
  | succ f ih =>
    simp only [drain]
    cases hb : s.buf with
    | nil => simp [elemsTo, hb]
    | cons v rest =>
      simp only
      cases hch : chooseSlot s with
      | none => simp [elemsTo, hb]
      | some c =>
        simp only
        obtain ⟨h1, h2, h3, h4⟩ := ih { s with buf := rest, demand := decr s.demand c, next := (c + 1) % s.n }
        have hc := chooseSlot_lt hch
        refine ⟨?_, ?_, ?_, h4⟩
        · simp only [elemsTo, List.filterMap_cons, List.map_cons, List.cons_append]
          congr 1
        · intro p hp
          simp only [elemsTo, List.filterMap_cons, List.mem_cons] at hp
          rcases hp with rfl | hp
          · exact hc
          · exact h2 p hp
        · simp only [List.any_cons, Bool.or_eq_false_iff]
          exact ⟨by simp, h3⟩

structure BlInv (n : Nat) (s : HubSt) (t : HTrace) : Prop where
  size : s.n = n
  tags : ∀ p ∈ t.sent, p.1 < n
  order : t.sent.map (·.2) ++ s.buf = t.ins
  done : t.completed = true → s.buf = []
  live : s.alive = true → t.completed = false

theorem maybePull_buf (k : HubKind) (s : HubSt) : (s.maybePull k).1.buf = s.buf ∧ (s.maybePull k).1.n = s.n := by
  unfold HubSt.maybePull
  dsimp only
  repeat' split
  all_goals simp

theorem any_complete_map_elem (l : List (Nat × Down)) (h : l.any (fun p => p.2 == Down.complete) = false)
    (m : List Nat) : (l ++ m.map fun i => (i, Down.complete)).any (fun p => p.2 == Down.complete) = !m.isEmpty := by
  rw [List.any_append, h]
  cases m <;> simp

theorem BlInv.step {n : Nat} {s : HubSt} {t : HTrace} (h : BlInv n s t) (hal : s.alive = true) (ev : HEv) :
    BlInv n (hubStep .balance s ev).1 (t.add ev (hubStep .balance s ev).2) := by
  have ha := h.live hal
  cases ev with
  | wire => exact ⟨h.size, by simpa [HTrace.add, hubStep, elemsTo] using h.tags,
      by simpa [HTrace.add, hubStep, elemsTo] using h.order, by simp [HTrace.add, hubStep, ha],
      fun _ => by simp [HTrace.add, hubStep, ha]⟩
  | slotDemand slot k =>
    simp only [hubStep, if_true]
    obtain ⟨h1, h2, h3, h4⟩ := drain_spec ({ s with demand := s.demand.modify slot (· + k) } : HubSt).buf.length
      { s with demand := s.demand.modify slot (· + k) }
    split
    · rename_i hfin
      simp only [Bool.and_eq_true] at hfin
      have hbe := List.isEmpty_iff.mp hfin.2
      refine ⟨by simp [h.size], ?_, ?_, fun _ => hbe, fun h1 => by simp at h1⟩
      · intro p hp
        simp only [HTrace.add, elemsTo, List.filterMap_append, List.mem_append] at hp
        rcases hp with hp | hp | hp
        · exact h.tags p hp
        · have := h2 p hp; simpa [h.size] using this
        · rw [← elemsTo] at hp; rw [elemsTo_complete] at hp; simp at hp
      · simp only [HTrace.add, elemsTo, List.filterMap_append, List.map_append]
        rw [← elemsTo, ← elemsTo, elemsTo_complete]
        simp only [List.map_nil, List.append_nil]
        have := h.order
        rw [List.append_assoc]
        change List.map (·.2) t.sent ++ (List.map (·.2) (elemsTo (HubSt.drain _).2) ++ (HubSt.drain _).1.buf) = t.ins
        unfold HubSt.drain
        rw [h1]; exact this
    · obtain ⟨hb, hn⟩ := maybePull_buf .balance ({ s with demand := s.demand.modify slot (· + k) } : HubSt).drain.1
      refine ⟨by rw [hn]; simp [h.size], ?_, ?_, ?_, ?_⟩
      rotate_left 2
      · intro hc
        simp only [HTrace.add, ha, Bool.false_or] at hc
        unfold HubSt.drain at hc
        rw [h3] at hc; simp at hc
      · intro _
        simp only [HTrace.add, ha, Bool.false_or]
        unfold HubSt.drain
        exact h3
      · intro p hp
        simp only [HTrace.add, List.mem_append] at hp
        rcases hp with hp | hp
        · exact h.tags p hp
        · have := h2 p hp; simpa [h.size] using this
      · simp only [HTrace.add, List.map_append, hb]
        rw [List.append_assoc]
        unfold HubSt.drain
        rw [h1]; exact h.order
  | elem v =>
    simp only [hubStep]
    obtain ⟨h1, h2, h3, h4⟩ := drain_spec ({ s with pending := s.pending - 1, buf := s.buf ++ [v] } : HubSt).buf.length
      { s with pending := s.pending - 1, buf := s.buf ++ [v] }
    obtain ⟨hb, hn⟩ := maybePull_buf .balance ({ s with pending := s.pending - 1, buf := s.buf ++ [v] } : HubSt).drain.1
    refine ⟨by rw [hn]; simp [h.size], ?_, ?_, ?_, ?_⟩
    rotate_left 2
    · intro hc
      simp only [HTrace.add, ha, Bool.false_or] at hc
      unfold HubSt.drain at hc
      rw [h3] at hc; simp at hc
    · intro _
      simp only [HTrace.add, ha, Bool.false_or]
      unfold HubSt.drain
      exact h3
    · intro p hp
      simp only [HTrace.add, List.mem_append] at hp
      rcases hp with hp | hp
      · exact h.tags p hp
      · have := h2 p hp; simpa [h.size] using this
    · simp only [HTrace.add, List.map_append, hb]
      rw [List.append_assoc]
      unfold HubSt.drain
      rw [h1, ← List.append_assoc, h.order]
  | complete =>
    simp only [hubStep, Bool.true_and]
    split
    · exact ⟨h.size, by simpa [HTrace.add, elemsTo] using h.tags, by simpa [HTrace.add, elemsTo] using h.order,
        by simp [HTrace.add, ha], fun _ => by simp [HTrace.add, ha]⟩
    · rename_i hne
      have hbe : s.buf = [] := by
        cases hb : s.buf with
        | nil => rfl
        | cons a l => simp [hb] at hne
      refine ⟨h.size, ?_, ?_, fun _ => hbe, fun h1 => by simp at h1⟩
      · intro p hp; simp only [HTrace.add, elemsTo_complete, List.append_nil] at hp; exact h.tags p hp
      · simp only [HTrace.add, elemsTo_complete, List.append_nil]; exact h.order
  | error e =>
    refine ⟨h.size, ?_, ?_, ?_, fun h1 => by simp [hubStep] at h1⟩
    · intro p hp; simp only [HTrace.add, hubStep, elemsTo_error, List.append_nil] at hp; exact h.tags p hp
    · simp only [HTrace.add, hubStep, elemsTo_error, List.append_nil]; exact h.order
    · intro hc
      simp only [HTrace.add, hubStep, ha, Bool.false_or, List.any_map] at hc
      simp at hc
  | slotCancel slot =>
    simp only [hubStep]
    split
    · exact ⟨h.size, by simpa [HTrace.add, elemsTo] using h.tags, by simpa [HTrace.add, elemsTo] using h.order,
        by simp [HTrace.add, ha], fun _ => by simp [HTrace.add, ha]⟩
    · obtain ⟨hb, hn⟩ := maybePull_buf .balance { s with live := s.live.set slot false, cancelled := s.cancelled + 1 }
      exact ⟨by rw [hn]; exact h.size, by simpa [HTrace.add, elemsTo] using h.tags,
        by simpa [HTrace.add, elemsTo, hb] using h.order, by simp [HTrace.add, ha], fun _ => by simp [HTrace.add, ha]⟩

end GoaktVerif.C46

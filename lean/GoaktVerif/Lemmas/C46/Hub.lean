/-
C46 lemmas, part 3: the fan-out hubs (Broadcast, Balance, Partition) on traces without slot
cancellation: which slot is sent which element, for every order of demand signals and elements.
-/
import GoaktVerif.Model.C46
import GoaktVerif.Lemmas.C46.Interleave

namespace GoaktVerif.C46
open GoaktVerif.Model.C45 (Val Down)
open GoaktVerif.Model.C46

/-- ghost record of a hub run: elements handled, (slot, element) pairs sent, and whether some element found no slot -/
structure HTrace where
  ins : List Val := []
  sent : List (Nat × Val) := []
  dropped : Bool := false

def elemsTo (l : List (Nat × Down)) : List (Nat × Val) :=
  l.filterMap fun p => match p.2 with | .elem v => some (p.1, v) | _ => none

def HTrace.add (t : HTrace) (ev : HEv) (o : HOut) : HTrace :=
  match ev with
  | .elem v => { ins := t.ins ++ [v], sent := t.sent ++ elemsTo o.toSlots,
                 dropped := t.dropped || (elemsTo o.toSlots).isEmpty }
  | _ => t

def hubRun (k : HubKind) : HubSt × HTrace → List HEv → HubSt × HTrace
  | st, [] => st
  | (s, t), ev :: evs =>
    if s.alive then let r := hubStep k s ev; hubRun k (r.1, t.add ev r.2) evs
    else hubRun k (s, t) evs

def noCancel (evs : List HEv) : Prop := ∀ ev ∈ evs, ∀ slot, ev = .slotCancel slot → False

theorem maybePull_keeps (k : HubKind) (s : HubSt) :
    (s.maybePull k).1.live = s.live ∧ (s.maybePull k).1.n = s.n ∧ (s.maybePull k).1.alive = s.alive := by
  unfold HubSt.maybePull
  dsimp only
  repeat' split
  all_goals simp

/-- all slots live -/
def AllLive (s : HubSt) : Prop := s.live = List.replicate s.n true

theorem liveSlots_allLive {s : HubSt} (h : AllLive s) : liveSlots s = List.range s.n := by
  unfold liveSlots
  apply List.filter_eq_self.mpr
  intro i hi
  have hi' : i < s.n := List.mem_range.mp hi
  rw [h]
  simp [List.getD_eq_getElem?_getD, hi']

@[simp] theorem maybePull_live (k : HubKind) (s : HubSt) : (s.maybePull k).1.live = s.live := (maybePull_keeps k s).1
@[simp] theorem maybePull_n' (k : HubKind) (s : HubSt) : (s.maybePull k).1.n = s.n := (maybePull_keeps k s).2.1

/-- a step that is not a slotCancel keeps every slot live and `n` unchanged -/
theorem hubStep_keeps (k : HubKind) (s : HubSt) (ev : HEv) (hc : ∀ slot, ev = .slotCancel slot → False) :
    (hubStep k s ev).1.live = s.live ∧ (hubStep k s ev).1.n = s.n := by
  cases ev with
  | wire => exact ⟨rfl, rfl⟩
  | slotDemand slot n => simp [hubStep]
  | elem v =>
    cases k with
    | broadcast => simp [hubStep]
    | balance =>
      simp only [hubStep]
      split <;> simp
    | partition m =>
      simp only [hubStep]
      split <;> (split <;> simp)
  | complete => exact ⟨rfl, rfl⟩
  | error e => exact ⟨rfl, rfl⟩
  | slotCancel slot => exact (hc slot rfl).elim

theorem hubStep_allLive (k : HubKind) (s : HubSt) (ev : HEv) (h : AllLive s)
    (hc : ∀ slot, ev = .slotCancel slot → False) :
    AllLive (hubStep k s ev).1 ∧ (hubStep k s ev).1.n = s.n := by
  obtain ⟨h1, h2⟩ := hubStep_keeps k s ev hc
  unfold AllLive at *
  rw [h1, h2]; exact ⟨h, rfl⟩

/-! ### Broadcast: every slot is sent every element, in order -/

theorem proj_append {α : Type} (a b : List (Nat × α)) (i : Nat) : proj (a ++ b) i = proj a i ++ proj b i := by
  simp [proj]

theorem proj_fanout (n : Nat) (v : Val) (i : Nat) (hi : i < n) :
    proj ((List.range n).map fun j => (j, v)) i = [v] := by
  induction n with
  | zero => omega
  | succ n ih =>
    rw [List.range_succ, List.map_append, proj_append]
    by_cases h : i < n
    · rw [ih h]; have : ¬ n = i := by omega
      simp [proj, this]
    · have : i = n := by omega
      subst this
      have : proj ((List.range i).map fun j => (j, v)) i = [] := by
        simp [proj]
        intro a ha; omega
      rw [this]
      simp [proj]

theorem elemsTo_map_elem (l : List Nat) (v : Val) :
    elemsTo (l.map fun i => (i, Down.elem v)) = l.map fun i => (i, v) := by
  induction l with
  | nil => rfl
  | cons a l ih => simp [elemsTo] at ih ⊢; exact ih

structure BcInv (n : Nat) (s : HubSt) (t : HTrace) : Prop where
  live : AllLive s
  size : s.n = n
  all : ∀ i, i < n → proj t.sent i = t.ins

theorem BcInv.step {n : Nat} {s : HubSt} {t : HTrace} (h : BcInv n s t) (ev : HEv)
    (hc : ∀ slot, ev = .slotCancel slot → False) :
    BcInv n (hubStep .broadcast s ev).1 (t.add ev (hubStep .broadcast s ev).2) := by
  obtain ⟨hl, hn⟩ := hubStep_allLive .broadcast s ev h.live hc
  refine ⟨hl, by rw [hn, h.size], ?_⟩
  cases ev with
  | elem v =>
    intro i hi
    have hls : liveSlots { s with pending := s.pending - 1 } = List.range n := by
      have : AllLive { s with pending := s.pending - 1 } := h.live
      rw [liveSlots_allLive this]; simp [h.size]
    simp only [HTrace.add, hubStep, hls, elemsTo_map_elem, proj_append, proj_fanout n v i hi, h.all i hi]
  | wire => exact h.all
  | slotDemand slot k => exact h.all
  | complete => exact h.all
  | error e => exact h.all
  | slotCancel slot => exact (hc slot rfl).elim

/-! ### Partition: slot i is sent exactly the elements whose selector is i -/

def sel (m : Nat) : Val → Nat
  | .int x => (x.emod m).toNat
  | _ => 0

structure PtInv (n m : Nat) (s : HubSt) (t : HTrace) : Prop where
  live : AllLive s
  size : s.n = n
  ints : ∀ v ∈ t.ins, ∃ x, v = Val.int x
  all : ∀ i, i < n → proj t.sent i = t.ins.filter (fun v => sel m v = i)

theorem PtInv.step {n m : Nat} {s : HubSt} {t : HTrace} (h : PtInv n m s t) (ev : HEv)
    (hc : ∀ slot, ev = .slotCancel slot → False) (hint : ∀ v, ev = .elem v → ∃ x, v = Val.int x) :
    PtInv n m (hubStep (.partition m) s ev).1 (t.add ev (hubStep (.partition m) s ev).2) := by
  obtain ⟨hl, hn⟩ := hubStep_allLive (.partition m) s ev h.live hc
  cases ev with
  | elem v =>
    obtain ⟨x, rfl⟩ := hint v rfl
    refine ⟨hl, by rw [hn, h.size], ?_, ?_⟩
    · intro w hw
      simp only [HTrace.add, List.mem_append, List.mem_singleton] at hw
      rcases hw with hw | rfl
      · exact h.ints w hw
      · exact ⟨x, rfl⟩
    · intro i hi
      have hlive : ∀ j, j < n → s.live.getD j false = true := by
        intro j hj
        rw [h.live]; simp [List.getD_eq_getElem?_getD, h.size, hj]
      simp only [HTrace.add, hubStep]
      by_cases hs : (x.emod m).toNat < n
      · have h1 : ((x.emod m).toNat < s.n && s.live.getD (x.emod m).toNat false) = true := by
          have := hlive _ hs
          simp only [List.getD_eq_getElem?_getD] at this
          simp [h.size, hs, this]
        simp only [h1, if_true, List.filter_append, proj_append, h.all i hi]
        by_cases hxi : (x.emod m).toNat = i
        · simp [elemsTo, proj, sel, hxi]
        · simp [elemsTo, proj, sel, hxi]
      · have h1 : ((x.emod m).toNat < s.n && s.live.getD (x.emod m).toNat false) = false := by
          simp [h.size, hs]
        have hxi : ¬ (x.emod m).toNat = i := by omega
        simp only [h1, Bool.false_eq_true, if_false, List.filter_append, proj_append, h.all i hi]
        simp [elemsTo, proj, sel, hxi]
  | wire => exact ⟨hl, by rw [hn, h.size], h.ints, h.all⟩
  | slotDemand slot k => exact ⟨hl, by rw [hn, h.size], h.ints, h.all⟩
  | complete => exact ⟨hl, by rw [hn, h.size], h.ints, h.all⟩
  | error e => exact ⟨hl, by rw [hn, h.size], h.ints, h.all⟩
  | slotCancel slot => exact (hc slot rfl).elim

/-! ### Balance: every element goes to exactly one slot — unless no slot has demand (then to none) -/

theorem chooseSlot_lt {s : HubSt} {c : Nat} (h : chooseSlot s = some c) : c < s.n := by
  unfold chooseSlot at h
  have hm := List.mem_of_find?_eq_some h
  simp only [List.mem_map, List.mem_range] at hm
  obtain ⟨i, hi, rfl⟩ := hm
  exact Nat.mod_lt _ (by omega)

structure BlInv (n : Nat) (s : HubSt) (t : HTrace) : Prop where
  size : s.n = n
  tags : ∀ p ∈ t.sent, p.1 < n
  exact : t.dropped = false → t.sent.map (·.2) = t.ins

theorem maybePull_n (k : HubKind) (s : HubSt) : (s.maybePull k).1.n = s.n := (maybePull_keeps k s).2.1

theorem BlInv.step {n : Nat} {s : HubSt} {t : HTrace} (h : BlInv n s t) (ev : HEv) :
    BlInv n (hubStep .balance s ev).1 (t.add ev (hubStep .balance s ev).2) := by
  cases ev with
  | elem v =>
    simp only [hubStep]
    cases hch : chooseSlot { s with pending := s.pending - 1 } with
    | some c =>
      have hcn : c < n := by have := chooseSlot_lt hch; simpa [h.size] using this
      simp only
      refine ⟨by rw [maybePull_n]; exact h.size, ?_, ?_⟩
      · intro p hp
        simp only [HTrace.add, elemsTo, List.filterMap_cons, List.filterMap_nil, List.mem_append,
          List.mem_singleton] at hp
        rcases hp with hp | rfl
        · exact h.tags p hp
        · exact hcn
      · intro hd
        simp only [HTrace.add, elemsTo, List.filterMap_cons, List.filterMap_nil, Bool.or_eq_false_iff] at hd
        simp [HTrace.add, elemsTo, h.exact hd.1]
    | none =>
      simp only
      refine ⟨by rw [maybePull_n]; exact h.size, ?_, ?_⟩
      · intro p hp
        simp only [HTrace.add, elemsTo, List.filterMap_nil, List.append_nil] at hp
        exact h.tags p hp
      · intro hd
        simp [HTrace.add, elemsTo] at hd
  | wire => exact ⟨h.size, h.tags, h.exact⟩
  | slotDemand slot k => exact ⟨by simp only [hubStep]; rw [maybePull_n]; exact h.size, h.tags, h.exact⟩
  | complete => exact ⟨h.size, h.tags, h.exact⟩
  | error e => exact ⟨h.size, h.tags, h.exact⟩
  | slotCancel slot =>
    simp only [hubStep]
    split
    · exact ⟨h.size, h.tags, h.exact⟩
    · exact ⟨by rw [maybePull_n]; exact h.size, h.tags, h.exact⟩

end GoaktVerif.C46

/-
C46 lemmas, part 1: interleavings.  The certificate checker is sound; a list of tagged values is an
interleaving of its per-tag projections.
-/
import GoaktVerif.Spec.C46

namespace GoaktVerif.C46
open GoaktVerif.Spec.C46

/-- a certificate accepted by `checkWitness` proves `Interleave` -/
theorem checkWitness_sound {α : Type} [DecidableEq α] (srcs : List (List α)) (out : List α) (w : List Nat)
    (h : checkWitness srcs out w = true) : Interleave srcs out := by
  induction out generalizing srcs w with
  | nil =>
    cases w with
    | nil =>
      simp only [checkWitness, List.all_eq_true] at h
      exact .nil (fun s hs => List.isEmpty_iff.mp (h s hs))
    | cons i w => simp [checkWitness] at h
  | cons x out ih =>
    cases w with
    | nil => simp [checkWitness] at h
    | cons i w =>
      simp only [checkWitness] at h
      cases hs : srcs[i]? with
      | none => simp [hs] at h
      | some l =>
        cases l with
        | nil => simp [hs] at h
        | cons y rest =>
          simp only [hs, Bool.and_eq_true, beq_iff_eq] at h
          obtain ⟨hxy, hrest⟩ := h
          subst hxy
          exact .cons i x rest hs (ih _ _ hrest)

/-- the decision procedure only answers `true` with a checked certificate -/
theorem isInterleaving_sound {α : Type} [DecidableEq α] (srcs : List (List α)) (out : List α)
    (h : isInterleaving srcs out = true) : Interleave srcs out := by
  unfold isInterleaving at h
  cases hw : findWitness srcs out with
  | none => simp [hw] at h
  | some w => rw [hw] at h; exact checkWitness_sound srcs out w h

/-- projection of a tagged list on one tag -/
def proj {α : Type} (l : List (Nat × α)) (i : Nat) : List α := (l.filter (·.1 = i)).map (·.2)

/-- the per-tag projections, for tags `0..n-1` -/
def projs {α : Type} (n : Nat) (l : List (Nat × α)) : List (List α) := (List.range n).map (proj l)

theorem projs_getElem? {α : Type} (n : Nat) (l : List (Nat × α)) (i : Nat) (hi : i < n) :
    (projs n l)[i]? = some (proj l i) := by
  simp [projs, hi]

theorem projs_cons_set {α : Type} (n : Nat) (t : Nat) (x : α) (l : List (Nat × α)) (ht : t < n) :
    (projs n ((t, x) :: l)).set t (proj l t) = projs n l := by
  apply List.ext_getElem?
  intro j
  by_cases hj : j < n
  · by_cases hjt : j = t
    · subst hjt; simp [projs, hj]
    · have : ¬ t = j := fun h => hjt h.symm
      simp [projs, hj, List.getElem?_set, this, proj, List.filter_cons, this]
  · simp [projs, hj, List.getElem?_set]

/-- any tagged list is an interleaving of its projections (tags in range) -/
theorem interleave_projs {α : Type} (n : Nat) (l : List (Nat × α)) (h : ∀ p ∈ l, p.1 < n) :
    Interleave (projs n l) (l.map (·.2)) := by
  induction l with
  | nil =>
    apply Interleave.nil
    intro s hs
    simp [projs, proj] at hs
    obtain ⟨_, _, rfl⟩ := hs
    rfl
  | cons p l ih =>
    obtain ⟨t, x⟩ := p
    have ht : t < n := h (t, x) (by simp)
    have hl : ∀ p ∈ l, p.1 < n := fun p hp => h p (by simp [hp])
    simp only [List.map_cons]
    apply Interleave.cons t x (proj l t)
    · rw [projs_getElem? n _ t ht]; simp [proj, List.filter_cons]
    · rw [projs_cons_set n t x l ht]; exact ih hl

end GoaktVerif.C46

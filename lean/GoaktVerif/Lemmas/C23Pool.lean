import GoaktVerif.Model.C23
/-
Frame pool sizing (frame_pool.go): bucketIndex picks the smallest power-of-two bucket that holds
the request, Get never slices beyond the pooled buffer, Put finds the bucket Get used.
-/
namespace GoaktVerif.C23
open GoaktVerif.Model.C23

theorem bitLen_zero : bitLen 0 = 0 := by rw [bitLen]; simp

theorem bitLen_pos {v : Nat} (h : v ≠ 0) : bitLen v = bitLen (v / 2) + 1 := by
  rw [bitLen]; simp [h]

/-- `v < 2^(bitLen v)` -/
theorem lt_two_pow_bitLen (v : Nat) : v < 2 ^ bitLen v := by
  induction v using Nat.strongRecOn with
  | ind v ih =>
    by_cases h : v = 0
    · subst h; rw [bitLen_zero]; decide
    · rw [bitLen_pos h, Nat.pow_succ]
      have := ih (v / 2) (by omega)
      omega

/-- for `v > 0`: `2^(bitLen v − 1) ≤ v` -/
theorem two_pow_bitLen_le {v : Nat} (h : v ≠ 0) : 2 ^ (bitLen v - 1) ≤ v := by
  induction v using Nat.strongRecOn with
  | ind v ih =>
    rw [bitLen_pos h]
    simp only [Nat.add_sub_cancel]
    by_cases h2 : v / 2 = 0
    · rw [h2, bitLen_zero]; simp; omega
    · have := ih (v / 2) (by omega) h2
      rw [bitLen_pos h2] at this ⊢
      simp only [Nat.add_sub_cancel] at this
      rw [Nat.pow_succ]
      omega

theorem bitLen_two_pow (k : Nat) : bitLen (2 ^ k) = k + 1 := by
  induction k with
  | zero => rw [bitLen_pos (by decide)]; simp [bitLen_zero]
  | succ n ih =>
    have hne : 2 ^ (n + 1) ≠ 0 := by have := Nat.two_pow_pos (n + 1); omega
    rw [bitLen_pos hne]
    have : 2 ^ (n + 1) / 2 = 2 ^ n := by rw [Nat.pow_succ]; omega
    rw [this, ih]

theorem shift_lt_bitLen {m n : Nat} (h : 2 ^ m < n) : m < bitLen (n - 1) := by
  rcases Nat.lt_or_ge m (bitLen (n - 1)) with hlt | hge
  · exact hlt
  · have h1 := lt_two_pow_bitLen (n - 1)
    have h2 : 2 ^ bitLen (n - 1) ≤ 2 ^ m := Nat.pow_le_pow_right (by decide) hge
    omega

theorem bucketIndex_le (p : PoolCfg) (n : Int) : bucketIndex p n ≤ p.numBuckets := by
  unfold bucketIndex
  split
  · omega
  · simp only []
    split <;> omega

/-- a pooled request fits in its bucket: `(*bp)[:n]` is in range -/
theorem bucketIndex_fits (p : PoolCfg) (n : Nat) (h : bucketIndex p n < p.numBuckets) :
    n ≤ 2 ^ (p.minBucketShift + bucketIndex p n) := by
  unfold bucketIndex at h ⊢
  split
  · rename_i hle
    simp only [Nat.add_zero]
    exact_mod_cast hle
  · rename_i hgt
    rw [if_neg hgt] at h
    simp only [] at h ⊢
    have hgt' : 2 ^ p.minBucketShift < n := by
      have : ¬ ((n : Int) ≤ ((2 ^ p.minBucketShift : Nat) : Int)) := by simpa using hgt
      omega
    have hn1 : ((n : Int) - 1).toNat = n - 1 := by omega
    rw [hn1] at h ⊢
    have hlt := lt_two_pow_bitLen (n - 1)
    have hge : p.minBucketShift < bitLen (n - 1) := shift_lt_bitLen hgt'
    split at h
    · omega
    · rename_i hidx
      rw [if_neg hidx]
      have : p.minBucketShift + ((bitLen (n - 1) : Int) - (p.minBucketShift : Int)).toNat = bitLen (n - 1) := by omega
      rw [this]
      omega

/-- it is the SMALLEST bucket: the next smaller one does not hold `n` -/
theorem bucketIndex_smallest (p : PoolCfg) (n : Nat) (h0 : 0 < bucketIndex p n) :
    2 ^ (p.minBucketShift + bucketIndex p n - 1) < n := by
  unfold bucketIndex at h0 ⊢
  split
  · rename_i hle; rw [if_pos hle] at h0; omega
  · rename_i hgt
    rw [if_neg hgt] at h0
    simp only [] at h0 ⊢
    have hgt' : 2 ^ p.minBucketShift < n := by
      have : ¬ ((n : Int) ≤ ((2 ^ p.minBucketShift : Nat) : Int)) := by simpa using hgt
      omega
    have hn1 : ((n : Int) - 1).toNat = n - 1 := by omega
    rw [hn1] at h0 ⊢
    have hne : n - 1 ≠ 0 := by have := Nat.two_pow_pos p.minBucketShift; omega
    have hle := two_pow_bitLen_le hne
    have hlt := lt_two_pow_bitLen (n - 1)
    have hge : p.minBucketShift < bitLen (n - 1) := shift_lt_bitLen hgt'
    split
    · rename_i hidx
      -- oversized: idx ≥ numBuckets, the result is numBuckets
      have : p.minBucketShift + p.numBuckets - 1 ≤ bitLen (n - 1) - 1 := by omega
      have := Nat.pow_le_pow_right (n := 2) (by decide) this
      omega
    · have : p.minBucketShift + ((bitLen (n - 1) : Int) - (p.minBucketShift : Int)).toNat - 1 = bitLen (n - 1) - 1 := by omega
      rw [this]
      omega

/-- `FramePool.Get(n)` never panics for `n ≥ 0` and returns exactly `n` bytes in a buffer of capacity ≥ n -/
theorem poolGet_ok (p : PoolCfg) (n : Nat) : ∃ cap, poolGet p n = .ok (n, cap) ∧ n ≤ cap ∧ cap = poolCap p n := by
  unfold poolGet
  rw [if_neg (by omega)]
  simp only [Int.toNat_natCast]
  have hfit : n ≤ poolCap p n := by
    unfold poolCap
    simp only []
    split
    · omega
    · exact bucketIndex_fits p n (by omega)
  rw [if_pos hfit]
  exact ⟨_, rfl, hfit, rfl⟩

/-- pooled buffers waste less than half: for requests above the smallest bucket `cap < 2n` -/
theorem poolCap_lt_double (p : PoolCfg) (n : Nat) (h : 2 ^ p.minBucketShift < n) : poolCap p n < 2 * n := by
  unfold poolCap
  simp only []
  have hpos := Nat.two_pow_pos p.minBucketShift
  split
  · omega
  · rename_i hlt
    have h0 : 0 < bucketIndex p n := by
      unfold bucketIndex
      have : ¬ ((n : Int) ≤ 2 ^ p.minBucketShift) := by
        have : ((2 ^ p.minBucketShift : Nat) : Int) < n := by exact_mod_cast h
        simpa using this
      rw [if_neg this]
      simp only []
      have hn1 : ((n : Int) - 1).toNat = n - 1 := by omega
      rw [hn1]
      have hlt' := lt_two_pow_bitLen (n - 1)
      have hge : p.minBucketShift < bitLen (n - 1) := shift_lt_bitLen h
      split <;> omega
    have := bucketIndex_smallest p n h0
    have e : p.minBucketShift + bucketIndex p n = (p.minBucketShift + bucketIndex p n - 1) + 1 := by omega
    rw [e, Nat.pow_succ]
    omega

/-- `Put` files a buffer obtained from bucket `i` back under bucket `i` -/
theorem bucketIndexExact_bucket (p : PoolCfg) (i : Nat) (h : i < p.numBuckets) :
    bucketIndexExact p (2 ^ (p.minBucketShift + i)) = i := by
  unfold bucketIndexExact
  have hpos := Nat.two_pow_pos (p.minBucketShift + i)
  have hand : 2 ^ (p.minBucketShift + i) &&& (2 ^ (p.minBucketShift + i) - 1) = 0 := by
    rw [Nat.and_two_pow_sub_one_eq_mod]; simp
  rw [if_neg (by simp only [hand]; omega)]
  simp only [bitLen_two_pow, Nat.add_sub_cancel]
  rw [if_neg (by omega)]
  omega

/-- `Put` never files a buffer under a bucket index outside the pool array -/
theorem bucketIndexExact_range (p : PoolCfg) (c : Nat) :
    bucketIndexExact p c = -1 ∨ (0 ≤ bucketIndexExact p c ∧ bucketIndexExact p c < p.numBuckets) := by
  unfold bucketIndexExact
  split
  · exact Or.inl rfl
  · simp only []
    split
    · exact Or.inl rfl
    · right; omega

end GoaktVerif.C23

import GoaktVerif.Lemmas.C15Rest

/-
C15 — `Mode.fixed`: the worker's steps (`Deq`, `CAS:responseClosed`, `Send`), deadlines, every action, and the
initial configuration.
-/
set_option linter.unusedSimpArgs false
set_option linter.unusedVariables false

namespace GoaktVerif.C15
open GoaktVerif.Model.C15

/-- a thread that is at a worker site is the (only) worker -/
theorem no_other_worker {c : Cfg} {own} (h : FInv c own) {tid : Nat} {t : Thread} (ht : c.threads[tid]? = some t)
    (hcur : t.cur = some .handle) {j : Nat} {tj : Thread} (hne : j ≠ tid) (hj : c.threads[j]? = some tj) :
    ∀ i k, tj.pc ≠ some (.hCas i k) ∧ tj.pc ≠ some (.hSend i k) := by
  intro i k
  have hoj := (h.thr j tj hj).1
  constructor <;> intro e <;> simp only [ThreadOk, e] at hoj <;>
    exact hne (h.single j tid tj t hj ht (Or.inl hoj.1) (Or.inl hcur))

theorem finv_deq {c : Cfg} {own : ChanId → ReqId} {tid : Nat} {t : Thread}
    (h : FInv c own) (ht : c.threads[tid]? = some t) (hpc : t.pc = some .hDeq) :
    FInv (upd (exec c t .hDeq).1 tid (exec c t .hDeq).2) own := by
  have hm := h.g.mode
  have hlt : tid < c.threads.length := (List.getElem?_eq_some_iff.mp ht).1
  have hok := h.thr tid t ht
  have hcur : t.cur = some .handle := by have := hok.1; simpa [ThreadOk, hpc] using this
  simp only [exec]
  cases hmb : c.mbox with
  | nil =>
    simp only
    apply finv_finish (ca := c) hcur _ hlt
    apply finv_same h ht
    · refine ⟨by simp [ThreadOk, done], ?_⟩
      intro k' v' hmem
      simp only [done, List.mem_cons] at hmem
      rcases hmem with e | e
      · injection e with e1 _; cases e1
      · exact hok.2 k' v' e
    · right; simp [buildCtx, done]
    · right; simp [selChan, done]
    · exact responderish_done
  | cons i rest =>
    have hi_mem : i ∈ c.mbox := by rw [hmb]; simp
    obtain ⟨ch, k, hp⟩ := h.g.mbox_ok i hi_mem
    have hmsg : (ctxOf c i).msg = some k := by rw [hp.1]
    simp only [hmsg]
    have hnd := h.g.lin
    rw [hmb] at hnd
    have hfacts : i ∉ c.ctxPool ∧ i ∉ rest ∧ i ≠ c.sentinel ∧ c.sentinel ∉ c.ctxPool ∧ c.sentinel ∉ rest ∧
        (c.ctxPool ++ [c.sentinel] ++ rest ++ [i]).Nodup := by
      simp only [List.nodup_append, List.mem_append, List.mem_singleton, List.nodup_cons, List.not_mem_nil,
        List.nodup_nil, List.mem_cons] at hnd ⊢
      grind
    obtain ⟨hi_pool, hi_rest, hi_sent, hs_pool, hs_rest, hnd'⟩ := hfacts
    let c2 : Cfg := { modCtx c c.sentinel (fun x => { x with response := none, msg := none }) with
      ctxPool := c.ctxPool ++ [c.sentinel], sentinel := i, mbox := rest }
    have ectx : ∀ j, j ≠ c.sentinel → ctxOf c2 j = ctxOf c j := fun j hj => ctxOf_modCtx_ne c c.sentinel j _ hj
    have esent : (ctxOf c2 c.sentinel).response = none := by
      show (ctxOf (modCtx c c.sentinel _) c.sentinel).response = none
      rw [ctxOf_modCtx_self c c.sentinel _ h.g.b_sent]
    have rest_ne : ∀ j ∈ rest, j ≠ c.sentinel := fun j hj e => hs_rest (e ▸ hj)
    have rest_mem : ∀ j ∈ rest, j ∈ c.mbox := fun j hj => by rw [hmb]; exact List.mem_cons_of_mem _ hj
    have hg : GInv c2 own := by
      refine ⟨hm, ?bs, ?bm, ?bc, h.g.b_hpool, ?br, ?li, h.g.val, h.g.pool_empty, h.g.pool_nodup, ?mo, ?md⟩
      case bs => show i < (c.ctxs.modify _ _).length; simpa using h.g.b_mbox i hi_mem
      case bm => intro j hj; show j < (c.ctxs.modify _ _).length; simpa using h.g.b_mbox j (rest_mem j hj)
      case bc =>
        intro j hj
        show j < (c.ctxs.modify _ _).length
        have hj' : j ∈ c.ctxPool ++ [c.sentinel] := hj
        rcases List.mem_append.mp hj' with h1 | h1
        · simpa using h.g.b_cpool j h1
        · simp at h1; subst h1; simpa using h.g.b_sent
      case br =>
        intro j x hx
        by_cases hjs : j = c.sentinel
        · subst hjs; rw [esent] at hx; cases hx
        · rw [ectx j hjs] at hx; exact h.g.b_resp j x hx
      case li => exact hnd'
      case mo =>
        intro j hj
        obtain ⟨x, k', hp'⟩ := h.g.mbox_ok j (rest_mem j hj)
        exact ⟨x, k', hp'.transfer (ectx j (rest_ne j hj)) rfl rfl hp'.2.2.2⟩
      case md =>
        intro a b ha hb hab
        rw [ectx a (rest_ne a ha), ectx b (rest_ne b hb)]
        exact h.g.mbox_dist a b (rest_mem a ha) (rest_mem b hb) hab
    apply finv_update (c1 := c2) h rfl ht hg
    · intro j tj hne hj
      have hnw := no_other_worker h ht hcur hne hj
      apply (h.thr j tj hj).1.transfer
      · intro i' h1 h2 h3 h4 _
        refine ⟨by show i' < (c.ctxs.modify _ _).length; simpa using h1, ?_, ?_, ?_⟩
        · show i' ∉ c.ctxPool ++ [c.sentinel]
          simp [h2, h4]
        · exact fun hx => h3 (rest_mem i' hx)
        · exact fun e => h3 (e ▸ hi_mem)
      · intro x h1 h2 _; exact ⟨rfl, h1, h2⟩
      · intro i' k' cl x hor _ _ _
        rcases hor with e | e
        · exact absurd e (hnw i' k').1
        · exact absurd e (hnw i' k').2
    · refine ⟨?_, hok.2⟩
      unfold ThreadOk
      dsimp only
      refine ⟨hcur, rfl, ch, hp.transfer (ectx i hi_sent) rfl rfl hp.2.2.2, ?_⟩
      intro j hj
      rw [ectx j (rest_ne j hj)]
      have hji : j ≠ i := fun e => hi_rest (e ▸ hj)
      have := h.g.mbox_dist j i (rest_mem j hj) hi_mem hji
      rw [hp.1] at this
      exact this
    · intro i' hb; simp [buildCtx] at hb
    · intro x hs; simp [selChan] at hs
    · intro hr; rcases hr with hr | hr
      · left; exact hr
      · right; exact hr

theorem finv_cas {c : Cfg} {own : ChanId → ReqId} {tid : Nat} {t : Thread} {i : CtxId} {k : ReqId}
    (h : FInv c own) (ht : c.threads[tid]? = some t) (hpc : t.pc = some (.hCas i k)) :
    FInv (upd (exec c t (.hCas i k)).1 tid (exec c t (.hCas i k)).2) own := by
  have hm := h.g.mode
  have hok := h.thr tid t ht
  have hT := hok.1
  simp only [ThreadOk, hpc] at hT
  obtain ⟨hcur, hsent, ch, hp, hdist⟩ := hT
  have hcl : (ctxOf c i).closed = false := by rw [hp.1]
  simp only [exec, hcl]
  simp only [Bool.false_eq_true, if_false]
  have hilt : i < c.ctxs.length := hsent ▸ h.g.b_sent
  have hi_mbox : i ∉ c.mbox := by
    have hnd := h.g.lin
    rw [← hsent] at hnd
    simp only [List.nodup_append, List.mem_append, List.mem_singleton, List.nodup_cons, List.not_mem_nil,
      List.nodup_nil] at hnd
    grind
  have ectx : ∀ j, j ≠ i → ctxOf (modCtx c i (fun x => { x with closed := true })) j = ctxOf c j :=
    fun j hj => ctxOf_modCtx_ne c i j _ hj
  have ei : ctxOf (modCtx c i (fun x => { x with closed := true })) i = { closed := true, response := some ch, msg := some k } := by
    rw [ctxOf_modCtx_self c i _ hilt, hp.1]
  have mb_ne : ∀ j ∈ c.mbox, j ≠ i := fun j hj e => hi_mbox (e ▸ hj)
  apply finv_update (c1 := modCtx c i (fun x => { x with closed := true })) h rfl ht
  · refine ⟨hm, ?bs, ?bm, ?bc, h.g.b_hpool, ?br, h.g.lin, h.g.val, h.g.pool_empty, h.g.pool_nodup, ?mo, ?md⟩
    case bs => show c.sentinel < (c.ctxs.modify _ _).length; simpa using h.g.b_sent
    case bm => intro j hj; show j < (c.ctxs.modify _ _).length; simpa using h.g.b_mbox j hj
    case bc => intro j hj; show j < (c.ctxs.modify _ _).length; simpa using h.g.b_cpool j hj
    case br =>
      intro j x hx
      by_cases hji : j = i
      · subst hji; rw [ei] at hx; simp at hx; subst hx; exact h.g.b_resp j ch (by rw [hp.1])
      · rw [ectx j hji] at hx; exact h.g.b_resp j x hx
    case mo =>
      intro j hj
      obtain ⟨x, k', hp'⟩ := h.g.mbox_ok j hj
      exact ⟨x, k', hp'.transfer (ectx j (mb_ne j hj)) rfl rfl hp'.2.2.2⟩
    case md =>
      intro a b ha hb hab
      rw [ectx a (mb_ne a ha), ectx b (mb_ne b hb)]; exact h.g.mbox_dist a b ha hb hab
  · intro j tj hne hj
    have hnw := no_other_worker h ht hcur hne hj
    apply (h.thr j tj hj).1.transfer
    · intro i' h1 h2 h3 h4 _
      exact ⟨by show i' < (c.ctxs.modify _ _).length; simpa using h1, h2, h3, h4⟩
    · intro x h1 h2 _; exact ⟨rfl, h1, h2⟩
    · intro i' k' cl x hor _ _ _
      rcases hor with e | e
      · exact absurd e (hnw i' k').1
      · exact absurd e (hnw i' k').2
  · refine ⟨?_, hok.2⟩
    unfold ThreadOk
    dsimp only
    refine ⟨hcur, hsent, ch, ⟨ei, hp.2.1, hp.2.2.1, hp.2.2.2⟩, ?_⟩
    intro j hj
    rw [ectx j (mb_ne j hj)]; exact hdist j hj
  · intro i' hb; simp [buildCtx] at hb
  · intro x hs; simp [selChan] at hs
  · intro hr; rcases hr with hr | hr
    · left; exact hr
    · right; exact hr

theorem finv_send {c : Cfg} {own : ChanId → ReqId} {tid : Nat} {t : Thread} {i : CtxId} {k : ReqId}
    (h : FInv c own) (ht : c.threads[tid]? = some t) (hpc : t.pc = some (.hSend i k)) :
    FInv (upd (exec c t (.hSend i k)).1 tid (exec c t (.hSend i k)).2) own := by
  have hm := h.g.mode
  have hlt : tid < c.threads.length := (List.getElem?_eq_some_iff.mp ht).1
  have hok := h.thr tid t ht
  have hT := hok.1
  simp only [ThreadOk, hpc] at hT
  obtain ⟨hcur, hsent, ch, hp, hdist⟩ := hT
  have hresp : (ctxOf c i).response = some ch := by rw [hp.1]
  have hchlt : ch < c.chans.length := h.g.b_resp i ch hresp
  simp only [exec, hresp, hp.2.2.1, Option.isNone_none, if_true]
  apply finv_finish (ca := { setChan c ch (some k) with log := Ev.respDone k :: (setChan c ch (some k)).log }) hcur _
    (by simpa [setChan] using hlt)
  have hca : ∀ x, chanOf ({ setChan c ch (some k) with log := Ev.respDone k :: (setChan c ch (some k)).log } : Cfg) x =
      if x = ch then some k else chanOf c x := by
    intro x
    show chanOf (setChan c ch (some k)) x = _
    by_cases hx : x = ch
    · subst hx; rw [chanOf_setChan_self _ _ _ hchlt]; simp
    · rw [chanOf_setChan_ne _ _ _ _ hx]; simp [hx]
  have mb_ch : ∀ j x k', j ∈ c.mbox → Pending c own j false x k' → x ≠ ch := by
    intro j x k' hj hp' e
    subst e
    exact hdist j hj (by rw [hp'.1])
  apply finv_update (c1 := { setChan c ch (some k) with log := Ev.respDone k :: (setChan c ch (some k)).log }) h rfl ht
  · refine ⟨hm, h.g.b_sent, h.g.b_mbox, h.g.b_cpool, ?bh, ?br, h.g.lin, ?va, ?pe, h.g.pool_nodup, ?mo, h.g.mbox_dist⟩
    case bh => intro x hx; show x < (c.chans.set ch (some k)).length; simpa using h.g.b_hpool x hx
    case br => intro j x hx; show x < (c.chans.set ch (some k)).length; simpa using h.g.b_resp j x hx
    case va =>
      intro x w hx
      rw [hca] at hx
      by_cases hxc : x = ch
      · simp [hxc] at hx; subst hx; rw [hxc]; exact hp.2.1
      · simp [hxc] at hx; exact h.g.val x w hx
    case pe =>
      intro x hx
      rw [hca]
      have : x ≠ ch := fun e => hp.2.2.2 (e ▸ hx)
      simp [this]; exact h.g.pool_empty x hx
    case mo =>
      intro j hj
      obtain ⟨x, k', hp'⟩ := h.g.mbox_ok j hj
      have := mb_ch j x k' hj hp'
      exact ⟨x, k', hp'.transfer rfl rfl (by rw [hca]; simp [this]) hp'.2.2.2⟩
  · intro j tj hne hj
    have hnw := no_other_worker h ht hcur hne hj
    apply (h.thr j tj hj).1.transfer
    · intro i' h1 h2 h3 h4 _; exact ⟨h1, h2, h3, h4⟩
    · intro x h1 h2 _; exact ⟨rfl, by show x < (c.chans.set ch (some k)).length; simpa using h1, h2⟩
    · intro i' k' cl x hor _ _ _
      rcases hor with e | e
      · exact absurd e (hnw i' k').1
      · exact absurd e (hnw i' k').2
  · refine ⟨by simp [ThreadOk, done], ?_⟩
    intro k' v' hmem
    simp only [done, List.mem_cons] at hmem
    rcases hmem with e | e
    · injection e with e1 _; cases e1
    · exact hok.2 k' v' e
  · intro i' hb; simp [buildCtx, done] at hb
  · intro x hs; simp [selChan, done] at hs
  · exact responderish_done

end GoaktVerif.C15

/-
C47: the call-level model of breaker.go simulates the spec state machine (Spec/C47), operation by
operation.
-/
import GoaktVerif.Lemmas.C47Ring

namespace GoaktVerif.C47
open GoaktVerif.Model.C47 GoaktVerif.Spec.C47

def stS : St → SSt
  | .closed => .closed
  | .opened => .opened
  | .halfOpen => .halfOpen

/-- sane options (what `Sanitize`/`Validate` guarantee) -/
def ConfOk (cf : Conf) : Prop := 0 < cf.q ∧ 1 ≤ cf.minReq ∧ 0 < cf.bucketNanos ∧ 1 ≤ cf.num ∧ 1 ≤ cf.hmax

instance (cf : Conf) : Decidable (ConfOk cf) := by unfold ConfOk; infer_instance

/-- breaker ~ spec breaker -/
structure BRel (cf : Conf) (b : Br) (sb : SBr) : Prop where
  st : stS b.state = sb.state
  ou : b.openUntil = sb.openUntil
  sem : b.sem = sb.probes
  win : RW cf.num b.w sb.win

theorem brel_new (cf : Conf) (h : ConfOk cf) (t0 : Int) : BRel cf (Br.new cf t0) (SBr.new (toSConf cf) t0) :=
  ⟨rfl, rfl, rfl, rw_new cf.num t0 h.2.2.2.1⟩

theorem trySem_sim (cf : Conf) (b : Br) (sb : SBr) (h : BRel cf b sb) :
    (trySem cf b).1 = (if sb.probes < cf.hmax then (true, true) else (false, false)) ∧
    BRel cf (trySem cf b).2 (if sb.probes < cf.hmax then { sb with probes := sb.probes + 1 } else sb) := by
  unfold trySem
  rw [h.sem]
  by_cases hc : sb.probes < cf.hmax
  · simp only [hc, if_true]
    exact ⟨trivial, ⟨h.st, h.ou, rfl, h.win⟩⟩
  · simp only [hc, if_false]
    exact ⟨trivial, h⟩

theorem tryAcquire_sim (cf : Conf) (now : Int) (b : Br) (sb : SBr) (h : BRel cf b sb) :
    (tryAcquire cf now b).1 = (sb.acquire (toSConf cf) now).1 ∧
    BRel cf (tryAcquire cf now b).2 (sb.acquire (toSConf cf) now).2 := by
  obtain ⟨sst, sou, spr, swin⟩ := sb
  have hst : stS b.state = sst := h.st
  have hou : b.openUntil = sou := h.ou
  unfold tryAcquire SBr.acquire
  cases hs : b.state with
  | closed =>
    rw [hs] at hst
    subst hst
    simp only [stS]
    exact ⟨trivial, h⟩
  | opened =>
    rw [hs] at hst
    subst hst
    simp only [stS]
    unfold openToHalfOpen afterOpenCheck
    simp only [hs, ne_eq, not_true_eq_false, if_false, hou]
    by_cases hlt : now < sou
    · simp only [hlt, if_true]; exact ⟨trivial, h⟩
    · simp only [hlt, if_false]
      have hb' : BRel cf { b with w := b.w.hardReset now, state := .halfOpen }
          ⟨.halfOpen, sou, spr, ⟨swin.q.map (fun _ => (0, 0)), now⟩⟩ :=
        ⟨rfl, h.ou, h.sem, rw_hardReset cf.num now b.w swin h.win⟩
      have := trySem_sim cf _ _ hb'
      simp only [toSConf, hou] at this ⊢
      by_cases hc : spr < cf.hmax
      · simp only [hc, if_true] at this ⊢; exact this
      · simp only [hc, if_false] at this ⊢; exact this
  | halfOpen =>
    rw [hs] at hst
    subst hst
    simp only [stS]
    have := trySem_sim cf b _ h
    simp only [toSConf] at this ⊢
    by_cases hc : spr < cf.hmax
    · simp only [hc, if_true] at this ⊢; exact this
    · simp only [hc, if_false] at this ⊢; exact this

/-- `record` and `SBr.observe` written over the already-counted windows -/
def recordDecide (cf : Conf) (now : Int) (b1 : Br) (t : Nat × Nat) : Br :=
  if !enough cf t then b1
  else if tripped cf t then transitionTo cf now .opened b1
  else halfOpenToClosed now b1

def observeDecide (cf : SConf) (now : Int) (b1 : SBr) : SBr :=
  let s := sumS b1.win.q
  let f := sumF b1.win.q
  if s + f < cf.minReq then b1
  else if rateReached cf s f then
    (if b1.state = .opened then b1 else { b1 with state := .opened, openUntil := now + cf.openTimeout })
  else if b1.state = .halfOpen then { b1 with state := .closed, win := ⟨b1.win.q.map (fun _ => (0, 0)), now⟩ }
  else b1

theorem record_eq (cf : Conf) (now : Int) (success : Bool) (b : Br) :
    record cf now success b =
      recordDecide cf now
        (if success then { b with w := (b.w.add cf now success).1, lastSuccess := now }
         else { b with w := (b.w.add cf now success).1, lastFailure := now })
        (b.w.add cf now success).2 := rfl

theorem observe_eq (cf : SConf) (now : Int) (success : Bool) (sb : SBr) :
    sb.observe cf now success =
      observeDecide cf now { sb with win := { (sb.win.advance cf now) with q := bump success (sb.win.advance cf now).q } } := rfl

theorem decide_sim (cf : Conf) (now : Int) (b1 : Br) (sb1 : SBr) (h : BRel cf b1 sb1) :
    BRel cf (recordDecide cf now b1 b1.w.totals) (observeDecide (toSConf cf) now sb1) := by
  obtain ⟨sst, sou, spr, swin⟩ := sb1
  have hst : stS b1.state = sst := h.st
  have hwin : RW cf.num b1.w swin := h.win
  have htot : b1.w.totals = (sumS swin.q, sumF swin.q) := by
    rw [totals_eq, hwin.totS, hwin.totF]; rfl
  unfold recordDecide observeDecide
  rw [htot]
  simp only [enough, tripped, rateReached, toSConf]
  by_cases hen : sumS swin.q + sumF swin.q < cf.minReq
  · have : ¬ cf.minReq ≤ sumS swin.q + sumF swin.q := by omega
    simp only [hen, this, if_true, decide_false, Bool.not_false]
    exact h
  · have hge : cf.minReq ≤ sumS swin.q + sumF swin.q := by omega
    simp only [hen, hge, if_false, decide_true, Bool.not_true, Bool.false_eq_true]
    by_cases htr : cf.p * (sumS swin.q + sumF swin.q) ≤ sumF swin.q * cf.q
    · have htr' : sumF swin.q * cf.q ≥ cf.p * (sumS swin.q + sumF swin.q) := htr
      simp only [htr, decide_true, if_true]
      unfold transitionTo
      cases hs : b1.state with
      | opened =>
        rw [hs] at hst; subst hst
        simp only [stS, if_true]; exact h
      | closed =>
        rw [hs] at hst; subst hst
        simp only [stS, reduceCtorEq, if_false]
        exact ⟨rfl, rfl, h.sem, h.win⟩
      | halfOpen =>
        rw [hs] at hst; subst hst
        simp only [stS, reduceCtorEq, if_false]
        exact ⟨rfl, rfl, h.sem, h.win⟩
    · have htr' : ¬ sumF swin.q * cf.q ≥ cf.p * (sumS swin.q + sumF swin.q) := htr
      simp only [htr, decide_false, Bool.false_eq_true, if_false]
      unfold halfOpenToClosed
      cases hs : b1.state with
      | halfOpen =>
        rw [hs] at hst; subst hst
        simp only [stS, ne_eq, not_true_eq_false, if_false, if_true]
        exact ⟨rfl, h.ou, h.sem, rw_hardReset cf.num now b1.w swin hwin⟩
      | closed =>
        rw [hs] at hst; subst hst
        simp only [stS, ne_eq, reduceCtorEq, not_false_eq_true, if_true, if_false]; exact h
      | opened =>
        rw [hs] at hst; subst hst
        simp only [stS, ne_eq, reduceCtorEq, not_false_eq_true, if_true, if_false]; exact h

theorem record_sim (cf : Conf) (hok : ConfOk cf) (now : Int) (success : Bool) (b : Br) (sb : SBr) (h : BRel cf b sb) :
    BRel cf (record cf now success b) (sb.observe (toSConf cf) now success) := by
  have hw1 := rw_advance cf hok.2.2.1 now b.w sb.win h.win
  have hw2 := rw_bump cf.num success _ _ hw1
  rw [record_eq, observe_eq]
  have hadd2 : (b.w.add cf now success).2 = (b.w.add cf now success).1.totals := rfl
  rw [hadd2]
  cases success with
  | true =>
    simp only [if_true]
    have hrel : BRel cf { b with w := (b.w.add cf now true).1, lastSuccess := now }
        { sb with win := { (sb.win.advance (toSConf cf) now) with q := bump true (sb.win.advance (toSConf cf) now).q } } :=
      ⟨h.st, h.ou, h.sem, hw2⟩
    exact decide_sim cf now _ _ hrel
  | false =>
    simp only [Bool.false_eq_true, if_false]
    have hrel : BRel cf { b with w := (b.w.add cf now false).1, lastFailure := now }
        { sb with win := { (sb.win.advance (toSConf cf) now) with q := bump false (sb.win.advance (toSConf cf) now).q } } :=
      ⟨h.st, h.ou, h.sem, hw2⟩
    exact decide_sim cf now _ _ hrel

theorem finish_sim (cf : Conf) (hok : ConfOk cf) (now : Int) (o : Outcome) (tok : Bool) (b : Br) (sb : SBr)
    (h : BRel cf b sb) :
    BRel cf (finish cf now o tok b)
      (sb.finish (toSConf cf) now (match o with | .ok => some true | .fail => some false | .cancel => none) tok) := by
  have hrel : ∀ (b1 : Br) (sb1 : SBr), BRel cf b1 sb1 →
      BRel cf (if tok = true then release b1 else b1) (if tok = true then { sb1 with probes := sb1.probes - 1 } else sb1) := by
    intro b1 sb1 h1
    cases tok
    · simpa using h1
    · simp only [if_true]
      exact ⟨h1.st, h1.ou, by simp only [release, h1.sem], h1.win⟩
  unfold finish SBr.finish
  cases o
  · exact hrel _ _ (record_sim cf hok now true b sb h)
  · exact hrel _ _ (record_sim cf hok now false b sb h)
  · exact hrel _ _ h

theorem metrics_sim (cf : Conf) (hok : ConfOk cf) (now : Int) (b : Br) (sb : SBr) (h : BRel cf b sb) :
    BRel cf (metrics cf now b).1 { sb with win := sb.win.advance (toSConf cf) now } ∧
    (metrics cf now b).2 = (sumS (sb.win.advance (toSConf cf) now).q, sumF (sb.win.advance (toSConf cf) now).q) := by
  have hw1 := rw_advance cf hok.2.2.1 now b.w sb.win h.win
  unfold metrics BW.snapshot
  refine ⟨⟨h.st, h.ou, h.sem, hw1⟩, ?_⟩
  simp only
  rw [totals_eq, hw1.totS, hw1.totF]; rfl

end GoaktVerif.C47

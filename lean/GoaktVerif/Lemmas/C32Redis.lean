/-
C32 — accounting facts about `redistribute` in the form C33 composes them. Core Lean only.
-/
import GoaktVerif.Lemmas.C32Alloc
import GoaktVerif.Lemmas.C32Grains

namespace GoaktVerif.C32
open GoaktVerif.Model.C32

theorem redistribute_fields (requests : List Request) (survivors : List (List Role)) (leaderRoles : List Role) :
    let st := (reassignByRole requests survivors leaderRoles).1
    (redistribute requests survivors leaderRoles).actorShares = st.shares
    ∧ (redistribute requests survivors leaderRoles).leaderActors = st.leader
    ∧ (redistribute requests survivors leaderRoles).failedActors = st.failed := by
  simp only [redistribute]
  split <;> simp

/-- what C33's accounting needs from a redistribution: aligned share lists, every unsent actor in
    exactly one of {a survivor share, the leader share, the failure record}, every unsent grain in
    exactly one of {a survivor share, the leader's grains} -/
theorem redistribute_accounting (requests : List Request) (survivors : List (List Role)) (leaderRoles : List Role) :
    let r := redistribute requests survivors leaderRoles
    r.actorShares.length = survivors.length
    ∧ (requestActors requests).Perm (r.actorShares.flatten ++ r.leaderActors ++ r.failedActors)
    ∧ (r.grainShares.flatten ++ r.leaderGrains).Perm (requestGrains requests)
    ∧ (survivors ≠ [] → r.grainShares.length = survivors.length)
    ∧ (survivors = [] → r.grainShares = []) := by
  intro r
  have inv := reassignInv_run survivors leaderRoles (requestActors requests)
  obtain ⟨hf1, hf2, hf3⟩ := redistribute_fields requests survivors leaderRoles
  have hst : (reassignByRole requests survivors leaderRoles).1 =
      (requestActors requests).foldl (reassignStep survivors leaderRoles) (reassignInit survivors.length) := rfl
  rw [hst] at hf1 hf2 hf3
  refine ⟨?_, ?_, ?_, ?_, ?_⟩
  · show (redistribute requests survivors leaderRoles).actorShares.length = _
    rw [hf1]; exact inv.len_shares
  · have h3 := perm_three (fun a : Actor => eligibleSomewhere survivors a.role)
      (leaderOnly survivors leaderRoles) (nobody survivors leaderRoles)
      (by
        intro a
        simp only [leaderOnly, nobody]
        cases eligibleSomewhere survivors a.role <;> cases eligibleForRole leaderRoles a.role <;> simp)
      (requestActors requests)
    refine h3.trans ?_
    show List.Perm _ ((redistribute requests survivors leaderRoles).actorShares.flatten ++
      (redistribute requests survivors leaderRoles).leaderActors ++ (redistribute requests survivors leaderRoles).failedActors)
    rw [hf1, hf2, hf3, inv.leader_eq, inv.failed_eq]
    exact List.Perm.append_right _ (List.Perm.append_right _ inv.placed_perm.symm)
  · show ((redistribute requests survivors leaderRoles).grainShares.flatten ++
      (redistribute requests survivors leaderRoles).leaderGrains).Perm (requestGrains requests)
    simp only [redistribute, reassignByRole]
    split
    · simp only [List.flatten_nil, List.nil_append]; exact List.Perm.refl _
    · rename_i hne
      have hk : 0 < survivors.length := Nat.pos_of_ne_zero hne
      have := rrLoop_perm survivors.length hk (requestGrains requests) 0 (List.replicate survivors.length [])
        (by simp)
      simpa using this
  · intro hne
    have hl : survivors.length ≠ 0 := by
      intro h; exact hne (List.eq_nil_of_length_eq_zero h)
    show (redistribute requests survivors leaderRoles).grainShares.length = _
    simp only [redistribute, hl, ↓reduceIte, rrLoop_length, List.length_replicate]
  · intro he
    show (redistribute requests survivors leaderRoles).grainShares = []
    subst he
    simp [redistribute]

end GoaktVerif.C32

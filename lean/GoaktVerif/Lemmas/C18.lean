/-
C18 helper lemmas: the inductive invariant of the dead-letter machine.
-/
import GoaktVerif.Model.C18
import GoaktVerif.Spec.C18

namespace GoaktVerif.C18
open GoaktVerif.Model.C18 GoaktVerif.Spec.C18

/-- dead letters sitting in a mailbox of the dead-letter actor -/
def pendBox (b : List Cmd) : List DL := b.filterMap (fun c => match c with | .send d => some d | _ => none)

/-- dead letters the queued failed batches will produce -/
def pendFq (fq : List (List BatchMsg)) : List DL := fq.flatMap (fun b => b.filterMap batchDL)

/-- the events of the property's universe: drops of every cause, drain-goroutine and dead-letter-actor steps, count
    requests.  Excluded are only the two dead-letter-actor commands that are no traffic: `PublishDeadletters`
    (nothing in goakt sends it) and a restart of the dead-letter actor (re-runs `handlePostStart`).
    Since fix f8d2f6b a hand-off to a full fan-out queue is no longer excluded: it is dead-lettered inline. -/
def okEv (_s : Sys) : Ev → Bool
  | .publishAll => false
  | .restartDL => false
  | _ => true

def guarded : Sys → List Ev → Bool
  | _, [] => true
  | s, e :: es => okEv s e && guarded (step s e) es

structure Inv (s : Sys) (exp : List DL) : Prop where
  up1 : s.dlRunning = true
  up2 : s.guardianRunning = true
  up3 : s.shuttingDown = false
  owed : ∀ d, (s.published ++ pendBox s.sysBox ++ pendFq s.fq).count d = exp.count d
  cnt : s.counter = s.published.length
  per : ∀ r, lookupN s.per r = tally s.published r
  sysOnlySend : ∀ c ∈ s.sysBox, ∃ d, c = .send d
  userOnlyCount : ∀ c ∈ s.userBox, ∃ a, c = .count a

theorem pendBox_append (a b : List Cmd) : pendBox (a ++ b) = pendBox a ++ pendBox b := by
  simp [pendBox, List.filterMap_append]

theorem pendBox_sends (l : List DL) : pendBox (l.map Cmd.send) = l := by
  induction l with
  | nil => rfl
  | cons d l ih => simp [pendBox] at ih ⊢; exact ih

theorem pendFq_append (a b : List (List BatchMsg)) : pendFq (a ++ b) = pendFq a ++ pendFq b := by
  simp [pendFq, List.flatMap_append]

theorem lookupN_bump (l : List (Addr × Nat)) (a r : Addr) :
    lookupN (bump l a) r = lookupN l r + (if a = r then 1 else 0) := by
  induction l with
  | nil =>
    by_cases h : a = r <;> simp [bump, lookupN, h]
  | cons x l ih =>
    obtain ⟨b, n⟩ := x
    unfold bump
    by_cases hb : b = a
    · subst hb
      by_cases h : b = r <;> simp [lookupN, h]
    · simp only [hb, if_false]
      by_cases h : b = r
      · subst h
        have : ¬ a = b := fun e => hb e.symm
        simp [lookupN, this]
      · simp [lookupN, h, ih]

theorem tally_append (p : List DL) (d : DL) (r : Addr) :
    tally (p ++ [d]) r = tally p r + (if d.receiver = r then 1 else 0) := by
  unfold tally
  by_cases h : d.receiver = r <;> simp [List.filter_append, h]

/-- with the dead-letter actor and the guardian up, unpacking a batch appends exactly its well-formed messages -/
theorem foldl_drainMsg (b : List BatchMsg) (s : Sys) (h1 : s.dlRunning = true) (h2 : s.guardianRunning = true) :
    b.foldl drainMsg s = { s with sysBox := s.sysBox ++ (b.filterMap batchDL).map Cmd.send } := by
  induction b generalizing s with
  | nil => simp
  | cons m b ih =>
    simp only [List.foldl_cons]
    obtain ⟨rcv, pl, sd⟩ := m
    cases rcv with
    | none =>
      have : drainMsg s ⟨none, pl, sd⟩ = s := by simp [drainMsg]
      rw [this, ih s h1 h2]
      simp [List.filterMap_cons, show batchDL ⟨none, pl, sd⟩ = none from rfl]
    | some r =>
      cases pl with
      | none =>
        have : drainMsg s ⟨some r, none, sd⟩ = s := by simp [drainMsg]
        rw [this, ih s h1 h2]
        simp [List.filterMap_cons, show batchDL ⟨some r, none, sd⟩ = none from rfl]
      | some p =>
        have hd : drainMsg s ⟨some r, some p, sd⟩ =
            { s with sysBox := s.sysBox ++ [Cmd.send ⟨p, senderOf sd, r, .batch⟩] } := by
          cases sd <;> simp [drainMsg, remoteDL, tellDL, h1, h2, senderOf]
        rw [hd, ih _ (by simpa using h1) (by simpa using h2)]
        simp [List.filterMap_cons, show batchDL ⟨some r, some p, sd⟩ = some ⟨p, senderOf sd, r, .batch⟩ from rfl,
              List.append_assoc]

theorem inv_push (s : Sys) (exp : List DL) (d0 : DL) (hi : Inv s exp) :
    Inv { s with sysBox := s.sysBox ++ [Cmd.send d0] } (exp ++ [d0]) := by
  obtain ⟨u1, u2, u3, owed, cnt, per, hs, hu⟩ := hi
  refine ⟨u1, u2, u3, ?_, cnt, per, ?_, hu⟩
  · intro d
    have := owed d
    simp [pendBox_append, pendBox, List.count_cons] at this ⊢
    omega
  · intro c' hc'
    simp at hc'
    rcases hc' with hc' | hc'
    · exact hs c' hc'
    · exact ⟨_, hc'⟩

theorem inv_pushes (s : Sys) (exp : List DL) (l : List DL) (hi : Inv s exp) :
    Inv { s with sysBox := s.sysBox ++ l.map Cmd.send } (exp ++ l) := by
  obtain ⟨u1, u2, u3, owed, cnt, per, hs, hu⟩ := hi
  refine ⟨u1, u2, u3, ?_, cnt, per, ?_, hu⟩
  · intro d
    have := owed d
    simp [pendBox_append, pendBox_sends] at this ⊢
    omega
  · intro c' hc'
    simp at hc'
    rcases hc' with hc' | ⟨d, _, hd⟩
    · exact hs c' hc'
    · exact ⟨d, hd.symm⟩

theorem inv_step (s : Sys) (exp : List DL) (e : Ev) (hi : Inv s exp) (hok : okEv s e = true) :
    Inv (step s e) (exp ++ expectedOf e) := by
  obtain ⟨u1, u2, u3, owed, cnt, per, hs, hu⟩ := hi
  cases e with
  | localDrop h k sd r m c =>
    cases h with
    | false => exact ⟨u1, u2, u3, by simpa [step, localDrop, expectedOf] using owed, cnt, per, hs, hu⟩
    | true =>
      cases k with
      | user =>
        have hst : step s (.localDrop true .user sd r m c) =
            { s with sysBox := s.sysBox ++ [Cmd.send ⟨m, senderOf sd, r, c⟩] } := by
          cases sd <;> simp [step, localDrop, tellDL, u1, senderOf, noSender]
        rw [hst]
        exact inv_push s exp _ ⟨u1, u2, u3, owed, cnt, per, hs, hu⟩
      | postStart => exact ⟨u1, u2, u3, by simpa [step, localDrop, expectedOf] using owed, cnt, per, hs, hu⟩
      | terminated => exact ⟨u1, u2, u3, by simpa [step, localDrop, expectedOf] using owed, cnt, per, hs, hu⟩
      | sendDeadletter => exact ⟨u1, u2, u3, by simpa [step, localDrop, expectedOf] using owed, cnt, per, hs, hu⟩
  | remoteDrop sd r p c =>
    cases p with
    | none => exact ⟨u1, u2, u3, by simpa [step, remoteDrop, expectedOf] using owed, cnt, per, hs, hu⟩
    | some m =>
      cases r with
      | none => exact ⟨u1, u2, u3, by simpa [step, remoteDrop, expectedOf] using owed, cnt, per, hs, hu⟩
      | some r =>
        have hst : step s (.remoteDrop sd (some r) (some m) c) =
            { s with sysBox := s.sysBox ++ [Cmd.send ⟨m, senderOf sd, r, c⟩] } := by
          cases sd <;> simp [step, remoteDrop, remoteDL, tellDL, u1, u2, senderOf, noSender]
        rw [hst]
        exact inv_push s exp _ ⟨u1, u2, u3, owed, cnt, per, hs, hu⟩
  | batchFail ms =>
    by_cases hfull : s.fqCap ≤ s.fq.length
    · -- queue full: `publishCoalescedFailure` inline
      have hst : step s (.batchFail ms) = { s with sysBox := s.sysBox ++ (ms.filterMap batchDL).map Cmd.send } := by
        simp [step, batchFail, u3, hfull, foldl_drainMsg ms s u1 u2]
      rw [hst]
      exact inv_pushes s exp _ ⟨u1, u2, u3, owed, cnt, per, hs, hu⟩
    · have hlt : ¬ (s.fqCap ≤ s.fq.length) := hfull
      refine ⟨by simpa [step, batchFail, u3, hlt] using u1, by simpa [step, batchFail, u3, hlt] using u2,
              by simpa [step, batchFail, u3, hlt] using u3, ?_, by simpa [step, batchFail, u3, hlt] using cnt,
              by simpa [step, batchFail, u3, hlt] using per, by simpa [step, batchFail, u3, hlt] using hs,
              by simpa [step, batchFail, u3, hlt] using hu⟩
      intro d
      have := owed d
      simp [step, batchFail, u3, hlt, expectedOf, pendFq_append, pendFq] at this ⊢
      omega
  | drain =>
    cases hfq : s.fq with
    | nil =>
      have hst : step s .drain = s := by simp [step, drain, hfq]
      rw [hst]
      exact ⟨u1, u2, u3, by simpa [expectedOf] using owed, cnt, per, hs, hu⟩
    | cons b rest =>
      have hfold := foldl_drainMsg b { s with fq := rest } (by simpa using u1) (by simpa using u2)
      have hstep : step s .drain = { s with fq := rest, sysBox := s.sysBox ++ (b.filterMap batchDL).map Cmd.send } := by
        simp [step, drain, hfq, hfold]
      rw [hstep]
      refine ⟨u1, u2, u3, ?_, cnt, per, ?_, hu⟩
      · intro d
        have := owed d
        simp [hfq, pendFq, pendBox_append, pendBox_sends, expectedOf] at this ⊢
        omega
      · intro c' hc'
        simp at hc'
        rcases hc' with hc' | ⟨d, _, hd⟩
        · exact hs c' hc'
        · exact ⟨d, hd.symm⟩
  | dlStep =>
    cases hsb : s.sysBox with
    | cons c rest =>
      obtain ⟨d0, hd0⟩ := hs c (by simp [hsb])
      subst hd0
      have hstep : step s .dlStep = { s with sysBox := rest, counter := s.counter + 1, published := s.published ++ [d0],
                                             letters := setLetter s.letters d0.receiver d0, per := bump s.per d0.receiver } := by
        simp [step, dlStep, hsb, handle]
      rw [hstep]
      refine ⟨u1, u2, u3, ?_, by simp [cnt], ?_, ?_, hu⟩
      · intro d
        have := owed d
        simp [hsb, pendBox, expectedOf] at this ⊢
        omega
      · intro r
        simp only [lookupN_bump, tally_append, per r]
      · intro c' hc'
        exact hs c' (by simp [hsb]; exact Or.inr hc')
    | nil =>
      cases hub : s.userBox with
      | nil =>
        have hst : step s .dlStep = s := by simp [step, dlStep, hsb, hub]
        rw [hst]
        exact ⟨u1, u2, u3, by simpa [expectedOf] using owed, cnt, per, hs, hu⟩
      | cons c rest =>
        obtain ⟨a, ha⟩ := hu c (by simp [hub])
        subst ha
        have hu' : ∀ c ∈ rest, ∃ a, c = Cmd.count a := fun c' hc' => hu c' (by simp [hub]; exact Or.inr hc')
        cases a with
        | none =>
          refine ⟨by simpa [step, dlStep, hsb, hub, handle] using u1, by simpa [step, dlStep, hsb, hub, handle] using u2,
                  by simpa [step, dlStep, hsb, hub, handle] using u3, ?_, by simpa [step, dlStep, hsb, hub, handle] using cnt,
                  by simpa [step, dlStep, hsb, hub, handle] using per, by simp [step, dlStep, hsb, hub, handle],
                  by simpa [step, dlStep, hsb, hub, handle] using hu'⟩
          intro d
          have := owed d
          simpa [step, dlStep, hsb, hub, handle, expectedOf, pendBox] using this
        | some a =>
          refine ⟨by simpa [step, dlStep, hsb, hub, handle] using u1, by simpa [step, dlStep, hsb, hub, handle] using u2,
                  by simpa [step, dlStep, hsb, hub, handle] using u3, ?_, by simpa [step, dlStep, hsb, hub, handle] using cnt,
                  by simpa [step, dlStep, hsb, hub, handle] using per, by simp [step, dlStep, hsb, hub, handle],
                  by simpa [step, dlStep, hsb, hub, handle] using hu'⟩
          intro d
          have := owed d
          simpa [step, dlStep, hsb, hub, handle, expectedOf, pendBox] using this
  | askCount a =>
    refine ⟨by simpa [step, u1] using u1, by simpa [step, u1] using u2, by simpa [step, u1] using u3, ?_,
            by simpa [step, u1] using cnt, by simpa [step, u1] using per, by simpa [step, u1] using hs, ?_⟩
    · intro d
      have := owed d
      simpa [step, u1, expectedOf] using this
    · intro c hc
      simp [step, u1] at hc
      rcases hc with hc | hc
      · exact hu c hc
      · exact ⟨a, hc⟩
  | publishAll => simp [okEv] at hok
  | restartDL => simp [okEv] at hok

theorem inv_run (evs : List Ev) (s : Sys) (exp : List DL) (hi : Inv s exp) (hg : guarded s evs = true) :
    Inv (run s evs) (exp ++ expected evs) := by
  induction evs generalizing s exp with
  | nil => simpa [run, expected] using hi
  | cons e es ih =>
    simp only [guarded, Bool.and_eq_true] at hg
    have h1 := inv_step s exp e hi hg.1
    have h2 := ih (step s e) (exp ++ expectedOf e) h1 hg.2
    simpa [run, expected, List.append_assoc] using h2

end GoaktVerif.C18

/-
C34 helper lemmas, part 4: the judge's predicate (`Spec.C34.verdict`, the oracle that is evaluated
on the implementation's output) never flags the MODEL's run on a history that satisfies the guard.
The monitor's blocked sets are simulated by the model's two filters.
-/
import GoaktVerif.Lemmas.C34c

namespace GoaktVerif.C34
open GoaktVerif.Model.C34 GoaktVerif.Spec.C34

/-! ### what `renderStep` contains -/

theorem mem_renderNode (x : Obs) (n : Node) (e : Ev) :
    x ∈ renderNode n e ↔
      (x.node = n ∧ ((x.isLeft = true ∧ e.left = some x.ts) ∨ (x.isLeft = false ∧ e.join = some x.ts))) := by
  obtain ⟨il, nd, ts⟩ := x
  cases hl : e.left <;> cases hj : e.join <;> simp [renderNode, hl, hj] <;> grind

theorem mem_renderStep (x : Obs) (U : List Node) (o : Node → Ev) :
    x ∈ renderStep U o ↔
      (x.node ∈ U ∧ ((x.isLeft = true ∧ (o x.node).left = some x.ts) ∨ (x.isLeft = false ∧ (o x.node).join = some x.ts))) := by
  simp only [renderStep, List.mem_flatMap, mem_renderNode]
  constructor
  · rintro ⟨n, hn, rfl, h⟩; exact ⟨hn, h⟩
  · rintro ⟨hn, h⟩; exact ⟨x.node, hn, rfl, h⟩

theorem lefts_render (U : List Node) (o : Node → Ev) :
    leftsOf (renderStep U o) = U.filter (fun n => (o n).left.isSome) := by
  unfold leftsOf
  induction U with
  | nil => simp [renderStep]
  | cons a U ih =>
    simp only [renderStep, List.flatMap_cons, List.filter_append, List.map_append] at ih ⊢
    rw [ih]
    cases hl : (o a).left <;> cases hj : (o a).join <;> simp [renderNode, hl, hj]

theorem joins_render (U : List Node) (o : Node → Ev) :
    joinsOf (renderStep U o) = U.filter (fun n => (o n).join.isSome) := by
  unfold joinsOf
  induction U with
  | nil => simp [renderStep]
  | cons a U ih =>
    simp only [renderStep, List.flatMap_cons, List.filter_append, List.map_append] at ih ⊢
    rw [ih]
    cases hl : (o a).left <;> cases hj : (o a).join <;> simp [renderNode, hl, hj]

theorem mem_lefts (U : List Node) (o : Node → Ev) (n : Node) :
    n ∈ leftsOf (renderStep U o) ↔ n ∈ U ∧ (o n).left.isSome = true := by
  rw [lefts_render]; simp

theorem mem_joins (U : List Node) (o : Node → Ev) (n : Node) :
    n ∈ joinsOf (renderStep U o) ↔ n ∈ U ∧ (o n).join.isSome = true := by
  rw [joins_render]; simp

/-! ### the gate predicate only looks at the history up to the step -/

theorem gateOK_prefix (pre : List Op) (op : Op) (rest : List Op) (n : Node) (t : Nat)
    (ht : t ≤ pre.length + 1) :
    gateOK (pre ++ op :: rest) pre.length n t = gateOK (pre ++ [op]) pre.length n t := by
  have e : pre ++ op :: rest = (pre ++ [op]) ++ rest := by simp
  have h1 : (pre ++ op :: rest)[pre.length]? = (pre ++ [op])[pre.length]? := by simp
  have h2 : covAt (pre ++ op :: rest) n t = covAt (pre ++ [op]) n t := by
    rw [e]; exact covAt_append _ _ _ _ (by simpa using ht)
  have h3 : ∀ c, coveredBy (pre ++ op :: rest) pre.length c = coveredBy (pre ++ [op]) pre.length c := by
    intro c
    simp only [coveredBy]
    rw [e, List.take_append_of_le_length (by simp), List.take_of_length_le (by simp)]
  simp only [gateOK, h1, h2, h3]

/-! ### simulation of the monitor by the filters -/

structure Sim (U : List Node) (b : Blocked) (s : St) : Prop where
  l : ∀ n ∈ b.l, (s.loc n).leftF = true
  j : ∀ n ∈ b.j, (s.loc n).joinF = true ∧ n ∈ U

theorem unblock_l_sub (b : Blocked) (op : Op) (n : Node) (h : n ∈ (unblock b op).l) : n ∈ b.l := by
  cases op <;> simp [unblock] at h ⊢ <;> first | exact h | exact h.1

theorem unblock_j_sub (b : Blocked) (op : Op) (n : Node) (h : n ∈ (unblock b op).j) :
    n ∈ b.j ∧ isLeftOf op n = false := by
  cases op <;> simp [unblock, isLeftOf] at h ⊢ <;> first | exact h | (constructor; exact h.1; intro e; exact h.2 e.symm)

theorem step_ok (U : List Node) (hU : U.Nodup) (pre : List Op) (op : Op) (rest : List Op)
    (hg : guard (pre ++ op :: rest) = true) (b : Blocked) (hs : Sim U b (after pre)) :
    stepVerdict (pre ++ op :: rest) pre.length b op
        (renderStep U (step (after pre) (pre.length + 1) op).2) = none ∧
    Sim U (stepBlocked b op (renderStep U (step (after pre) (pre.length + 1) op).2)) (after (pre ++ [op])) := by
  have hgp : guard (pre ++ [op]) = true := by
    have e : pre ++ op :: rest = (pre ++ [op]) ++ rest := by simp
    rw [e] at hg; exact guard_prefix _ _ hg
  have hi := Inv_after pre
  -- abbreviations
  generalize ho : (step (after pre) (pre.length + 1) op).2 = o
  have hoL : ∀ n t, (o n).left = some t → (evAt pre op n).left = some t := by
    intro n t h; simpa [evAt, ho] using h
  have hoJ : ∀ n t, (o n).join = some t → (evAt pre op n).join = some t := by
    intro n t h; simpa [evAt, ho] using h
  have hon : ∀ n, o n = (stepL (after pre).g (pre.length + 1) op (fireOf (after pre) op) n ((after pre).loc n)).2 := by
    intro n; rw [← ho]; rfl
  have hafter : ∀ n, (after (pre ++ [op])).loc n =
      (stepL (after pre).g (pre.length + 1) op (fireOf (after pre) op) n ((after pre).loc n)).1 := by
    intro n; rw [after_snoc]; rfl
  -- (1) the local node is not reported
  have hselfJ : (o self).join = none := by
    have := self_never_joined pre op; simpa [evAt, ho] using this
  have hselfL : (o self).left = none := by
    have := self_never_left pre op; simpa [evAt, ho] using this
  have h1 : (renderStep U o).any (·.node == self) = false := by
    rw [List.any_eq_false]
    intro x hx
    rw [mem_renderStep] at hx
    intro hn
    have hn' : x.node = self := by simpa using hn
    rw [hn'] at hx
    rcases hx.2 with ⟨_, h⟩ | ⟨_, h⟩
    · rw [hselfL] at h; cases h
    · rw [hselfJ] at h; cases h
  -- (2) no duplicates inside a step
  have h2 : (leftsOf (renderStep U o)).Nodup := by rw [lefts_render]; exact hU.filter _
  have h3 : (joinsOf (renderStep U o)).Nodup := by rw [joins_render]; exact hU.filter _
  -- (3) a reported NodeLeft is not blocked
  have h4 : (leftsOf (renderStep U o)).any
      (fun n => (unblock b op).l.contains n && !(joinsOf (renderStep U o)).contains n) = false := by
    rw [List.any_eq_false]
    intro n hn hc
    rw [mem_lefts] at hn
    obtain ⟨t, ht⟩ := Option.isSome_iff_exists.mp hn.2
    rw [hon] at ht
    have hf := (stepL_left_emit _ _ _ _ _ _ t ht).1
    simp only [Bool.and_eq_true, List.contains_iff_mem] at hc
    have := hs.l n (unblock_l_sub b op n (by simpa using hc.1))
    rw [hf] at this; cases this
  -- (4) a reported NodeJoined is not blocked unless NodeLeft is reported in the same step
  have h5 : (joinsOf (renderStep U o)).any
      (fun n => (unblock b op).j.contains n && !(leftsOf (renderStep U o)).contains n) = false := by
    rw [List.any_eq_false]
    intro n hn hc
    rw [mem_joins] at hn
    simp only [Bool.and_eq_true, Bool.not_eq_true', List.contains_iff_mem] at hc
    obtain ⟨hbj, hop⟩ := unblock_j_sub b op n (by simpa using hc.1)
    have hnl : (o n).left = none := by
      cases h : (o n).left with
      | none => rfl
      | some t =>
        exfalso
        have : n ∈ leftsOf (renderStep U o) := (mem_lefts U o n).mpr ⟨hn.1, by rw [h]; rfl⟩
        have hc2 := hc.2
        simp [this] at hc2
    rw [hon] at hnl
    have := (stepL_joinF_keep _ _ _ _ _ _ (hi.linv n) (hs.j n hbj).1 hop hnl).2
    rw [← hon] at this
    rw [this] at hn; simp at hn
  -- (5) the gate
  have h6 : ((renderStep U o).filter (·.isLeft)).find?
      (fun e => !gateOK (pre ++ op :: rest) pre.length e.node e.ts) = none := by
    rw [List.find?_eq_none]
    intro x hx
    rw [List.mem_filter, mem_renderStep] at hx
    rcases hx.1.2 with ⟨_, hl⟩ | ⟨hf, _⟩
    · have hev := hoL _ _ hl
      obtain ⟨_, hle, _⟩ := emitted_left_ts pre op x.node x.ts hev
      rw [gateOK_prefix _ _ _ _ _ hle]
      have := gate_step hi (CovInv_after pre (guard_prefix _ _ hgp)) op (guard_split pre op rest hg) x.node x.ts hev
      simp [this]
    · rw [hf] at hx; simp at hx
  refine ⟨?_, ?_⟩
  · simp only [stepVerdict, h1, h2, h3, h4, h5, h6]
    simp
  · constructor
    · intro n hn
      simp only [stepBlocked, List.mem_filter, List.mem_append] at hn
      rw [hafter]
      rcases hn.1 with h | h
      · exact stepL_leftF_mono _ _ _ _ _ _ (hs.l n (unblock_l_sub b op n h))
      · rw [mem_lefts] at h
        obtain ⟨t, ht⟩ := Option.isSome_iff_exists.mp h.2
        rw [hon] at ht
        exact (stepL_left_emit _ _ _ _ _ _ t ht).2
    · intro n hn
      simp only [stepBlocked, List.mem_filter, List.mem_append, Bool.not_eq_true', List.contains_iff_mem] at hn
      rw [hafter]
      rcases hn.1 with h | h
      · obtain ⟨hbj, hop⟩ := unblock_j_sub b op n h
        have hnU := (hs.j n hbj).2
        have hnl : (o n).left = none := by
          cases h' : (o n).left with
          | none => rfl
          | some t =>
            exfalso
            have : n ∈ leftsOf (renderStep U o) := (mem_lefts U o n).mpr ⟨hnU, by rw [h']; rfl⟩
            have hc2 := hn.2
            simp [this] at hc2
        rw [hon] at hnl
        exact ⟨(stepL_joinF_keep _ _ _ _ _ _ (hi.linv n) (hs.j n hbj).1 hop hnl).1, hnU⟩
      · rw [mem_joins] at h
        obtain ⟨t, ht⟩ := Option.isSome_iff_exists.mp h.2
        rw [hon] at ht
        exact ⟨stepL_join_emit _ _ _ _ _ _ t ht, h.1⟩

theorem verdictFrom_ok (U : List Node) (hU : U.Nodup) (h : List Op) (hg : guard h = true) :
    ∀ (ops pre : List Op) (b : Blocked), h = pre ++ ops → Sim U b (after pre) →
      verdictFrom h pre.length b ops ((runFrom pre.length (after pre) ops).1.map (renderStep U)) = none := by
  intro ops
  induction ops with
  | nil => intro pre b _ _; simp [runFrom, verdictFrom]
  | cons op ops ih =>
    intro pre b hh hs
    subst hh
    obtain ⟨hv, hs'⟩ := step_ok U hU pre op ops hg b hs
    simp only [runFrom, List.map_cons, verdictFrom, hv]
    have := ih (pre ++ [op]) _ (by simp) hs'
    rw [after_snoc] at this
    simpa using this

theorem run_length (k : Nat) (s : St) (h : List Op) : (runFrom k s h).1.length = h.length := by
  induction h generalizing k s with
  | nil => simp [runFrom]
  | cons x xs ih => simp [runFrom, ih]

end GoaktVerif.C34

/-
C17 helper lemmas: interleavings, the reached set, the depth-first order.
-/
import GoaktVerif.Model.C17

namespace GoaktVerif.C17
open GoaktVerif.Model.C17

theorem interleave_perm {α : Type} {a b out : List α} (h : Interleave a b out) : out.Perm (a ++ b) := by
  induction h with
  | nil => exact List.Perm.refl _
  | left _ ih => exact List.Perm.cons _ ih
  | right _ ih =>
    rename_i x a b out _
    exact (List.Perm.cons x ih).trans (List.perm_middle.symm)

theorem interleave_sub_left {α : Type} {a b out : List α} (h : Interleave a b out) : a.Sublist out := by
  induction h with
  | nil => exact List.Sublist.refl _
  | left _ ih => exact List.Sublist.cons_cons _ ih
  | right _ ih => exact List.Sublist.cons _ ih

theorem interleave_sub_right {α : Type} {a b out : List α} (h : Interleave a b out) : b.Sublist out := by
  induction h with
  | nil => exact List.Sublist.refl _
  | left _ ih => exact List.Sublist.cons _ ih
  | right _ ih => exact List.Sublist.cons_cons _ ih

/-- every possible teardown order is a permutation of the actors the teardown reaches -/
theorem stops_perm {f : F} {out : List Nat} (h : Stops f out) : out.Perm (visited f) := by
  induction h with
  | nil => exact List.Perm.refl _
  | skip _ ih => simpa [visited] using ih
  | node hk hs hi ihk ihs =>
    have := interleave_perm hi
    simp only [visited]
    refine this.trans ?_
    exact List.Perm.append (List.Perm.append ihk (List.Perm.refl _)) ihs

theorem stops_children_first {f : F} {out : List Nat} (h : Stops f out) :
    ∀ c p, Below f c p → [c, p].Sublist out := by
  induction h with
  | nil => intro c p hb; cases hb
  | skip _ ih =>
    intro c p hb
    cases hb with
    | inSibs hb' => exact ih c p hb'
  | node hk hs hi ihk ihs =>
    rename_i id kids sibs lk ls out
    intro c p hb
    cases hb with
    | here hc =>
      have hmem : c ∈ lk := (stops_perm hk).mem_iff.mpr hc
      have h1 : [c].Sublist lk := List.singleton_sublist.mpr hmem
      have h2 : [c, id].Sublist (lk ++ [id]) := List.Sublist.append h1 (List.Sublist.refl [id])
      exact h2.trans (interleave_sub_left hi)
    | inKids hb' =>
      exact ((ihk c p hb').trans (List.sublist_append_left lk [id])).trans (interleave_sub_left hi)
    | inSibs hb' => exact (ihs c p hb').trans (interleave_sub_right hi)


theorem visited_running {f : F} (h : closed f = true) : (visited f).Perm (runningIds f) := by
  induction f with
  | nil => exact List.Perm.refl _
  | cons id r kids sibs ihk ihs =>
    cases r with
    | false =>
      simp only [closed, Bool.and_eq_true, List.isEmpty_iff] at h
      simp only [visited, runningIds, h.1.1]
      simpa using ihs h.2
    | true =>
      simp only [closed, Bool.and_eq_true] at h
      simp only [visited, runningIds, if_true]
      have h1 := ihk h.1
      have h2 := ihs h.2
      refine List.Perm.append ?_ h2
      exact (List.perm_append_comm).trans (List.Perm.append (List.Perm.refl [id]) h1)

theorem runningIds_sub_ids (f : F) : ∀ x, x ∈ runningIds f → x ∈ ids f := by
  induction f with
  | nil => intro x hx; simp [runningIds] at hx
  | cons id r kids sibs ihk ihs =>
    intro x hx
    simp only [runningIds, List.mem_append] at hx
    simp only [ids, List.mem_cons, List.mem_append]
    rcases hx with (hx | hx) | hx
    · cases r <;> simp_all
    · exact Or.inr (Or.inl (ihk x hx))
    · exact Or.inr (Or.inr (ihs x hx))

theorem runningIds_nodup {f : F} (h : (ids f).Nodup) : (runningIds f).Nodup := by
  induction f with
  | nil => simp [runningIds]
  | cons id r kids sibs ihk ihs =>
    simp only [ids, List.nodup_cons, List.nodup_append, List.mem_append, not_or] at h
    obtain ⟨⟨hnk, hns⟩, hk, hs, hdis⟩ := h
    simp only [runningIds]
    refine List.nodup_append.mpr ⟨List.nodup_append.mpr ⟨by cases r <;> simp, ihk hk, ?_⟩, ihs hs, ?_⟩
    · intro a ha b hb
      cases r <;> simp at ha
      subst ha
      intro e; subst e
      exact hnk (runningIds_sub_ids kids _ hb)
    · intro a ha b hb
      simp only [List.mem_append] at ha
      rcases ha with ha | ha
      · cases r <;> simp at ha
        subst ha
        intro e; subst e
        exact hns (runningIds_sub_ids sibs _ hb)
      · exact hdis a (runningIds_sub_ids kids a ha) b (runningIds_sub_ids sibs b hb)

/-- the relation is inhabited for every forest: the depth-first order is a possible teardown -/
theorem interleave_append {α : Type} (a b : List α) : Interleave a b (a ++ b) := by
  induction a with
  | nil =>
    induction b with
    | nil => exact Interleave.nil
    | cons x b ih => exact Interleave.right ih
  | cons x a ih => exact Interleave.left ih

theorem stops_dfs (f : F) : Stops f (dfs f) := by
  induction f with
  | nil => exact Stops.nil
  | cons id r kids sibs ihk ihs =>
    cases r with
    | false => exact Stops.skip ihs
    | true => exact Stops.node ihk ihs (interleave_append _ _)

end GoaktVerif.C17

import GoaktVerif.Model.C20.Queue

/-
C20 — the linearization log agrees with what the operations return (both modes, every schedule):
the events thread `tid` has in the log are exactly the events implied by the results of its completed
operations, followed by those of its operation in progress.  All lists here are LATEST FIRST, like `Cfg.lin` and
`Thread.hist`.
-/
set_option linter.unusedSimpArgs false
set_option linter.unusedVariables false

namespace GoaktVerif.C20
open GoaktVerif.Model.C20.Queue

def evsOf (tid : Nat) (lin : List (Nat × Ev)) : List Ev := (lin.filter (·.1 == tid)).map (·.2)

/-- events of the dequeues an `Iterator` loop has already completed -/
def contEvs : Cont → List Ev
  | .plain => []
  | .iter _ acc => acc.map (fun v => Ev.deq (some v))

/-- events of the operation in progress -/
def pendEvs (t : Thread) : List Ev :=
  match t.pc with
  | some (.enqSwing ..) | some .enqAdd =>
    match t.cur with
    | some (.enq v) => [.enq v]
    | some (.sig v) => [.enq v]
    | _ => []
  | some (.deqLoadHead k) => contEvs k
  | some (.deqLoadNext k _) => contEvs k
  | some (.deqCas k _ _) => contEvs k
  | some (.deqAdd k r) => .deq r :: contEvs k
  | _ => []

/-- events implied by a completed operation and its result -/
def opEvs : Op × Res → List Ev
  | (.enq v, .ok) => [.enq v]
  | (.sig v, .ok) => [.enq v]
  | (_, .val r) => [.deq r]
  | (_, .items l sawNil) => (if sawNil then [Ev.deq none] else []) ++ l.reverse.map (fun v => Ev.deq (some v))
  | _ => []

def expected (t : Thread) : List Ev := pendEvs t ++ t.hist.flatMap opEvs

/-- the operation in progress is the one the program counter belongs to (as far as the events need it) -/
def CurOk (t : Thread) : Prop :=
  (t.pc.isSome → t.cur.isSome) ∧
  match t.pc with
  | some (.enqLoadTail _ v) => t.cur = some (.enq v) ∨ t.cur = some (.sig v)
  | some (.enqLoadNext _ v _) => t.cur = some (.enq v) ∨ t.cur = some (.sig v)
  | some (.enqHelp _ v _ _) => t.cur = some (.enq v) ∨ t.cur = some (.sig v)
  | some (.enqLink _ v _) => t.cur = some (.enq v) ∨ t.cur = some (.sig v)
  | some (.enqSwing ..) => ∃ v, t.cur = some (.enq v) ∨ t.cur = some (.sig v)
  | some .enqAdd => ∃ v, t.cur = some (.enq v) ∨ t.cur = some (.sig v)
  | some (.sigActive v) => t.cur = some (.sig v)
  | some .shut => t.cur = some .shut
  | _ => True

structure Agree (c : Cfg) : Prop where
  evs : ∀ (tid : Nat) t, c.threads[tid]? = some t → evsOf tid c.lin = expected t
  cur : ∀ (tid : Nat) t, c.threads[tid]? = some t → CurOk t

/-! ### starting / finishing -/

theorem getItem_threads (c : Cfg) (pick v) : (getItem c pick v).2.threads = c.threads ∧ (getItem c pick v).2.lin = c.lin := by
  unfold getItem
  split
  · split <;> exact ⟨rfl, rfl⟩
  · exact ⟨rfl, rfl⟩

/-- `startNext`: no event, nothing pending, history unchanged -/
theorem startNext_spec (c : Cfg) (t : Thread) (pick : Option Nat) :
    (startNext c t pick).1.threads = c.threads ∧ (startNext c t pick).1.lin = c.lin ∧
    pendEvs (startNext c t pick).2 = [] ∧ (startNext c t pick).2.hist = t.hist ∧ CurOk (startNext c t pick).2 := by
  unfold startNext
  cases t.prog with
  | nil => exact ⟨rfl, rfl, rfl, rfl, by simp [CurOk]⟩
  | cons op rest =>
    cases op with
    | enq v =>
      have := getItem_threads c pick v
      exact ⟨this.1, this.2, rfl, rfl, by simp [CurOk]⟩
    | deq => exact ⟨rfl, rfl, rfl, rfl, by simp [CurOk]⟩
    | len => exact ⟨rfl, rfl, rfl, rfl, by simp [CurOk]⟩
    | emp => exact ⟨rfl, rfl, rfl, rfl, by simp [CurOk]⟩
    | sig v => exact ⟨rfl, rfl, rfl, rfl, by simp [CurOk]⟩
    | iter => exact ⟨rfl, rfl, rfl, rfl, by simp [CurOk]⟩
    | shut => exact ⟨rfl, rfl, rfl, rfl, by simp [CurOk]⟩

/-- `finishOp` with result `r` of the operation `op` in progress -/
theorem finishOp_spec (c : Cfg) (t : Thread) (r : Res) (pick : Option Nat) (op : Op) (hc : t.cur = some op) :
    (finishOp c t r pick).1.threads = c.threads ∧ (finishOp c t r pick).1.lin = c.lin ∧
    expected (finishOp c t r pick).2 = opEvs (op, r) ++ t.hist.flatMap opEvs ∧ CurOk (finishOp c t r pick).2 := by
  have e : finishOp c t r pick = startNext c { t with hist := (op, r) :: t.hist } pick := by
    unfold finishOp
    split
    · rename_i op' heq; rw [hc] at heq; cases heq; rfl
    · rename_i heq; rw [hc] at heq; cases heq
  rw [e]
  obtain ⟨h1, h2, h3, h4, h5⟩ := startNext_spec c { t with hist := (op, r) :: t.hist } pick
  refine ⟨h1, h2, ?_, h5⟩
  unfold expected
  rw [h3, h4]
  simp [List.flatMap_cons]

/-! ### one step -/

theorem evsOf_cons_self (tid : Nat) (e : Ev) (lin) : evsOf tid ((tid, e) :: lin) = e :: evsOf tid lin := by
  simp [evsOf]

theorem evsOf_cons_ne (tid j : Nat) (e : Ev) (lin) (h : j ≠ tid) : evsOf j ((tid, e) :: lin) = evsOf j lin := by
  have : ¬ tid = j := fun x => h x.symm
  simp [evsOf, this]

/-- what one step of thread `tid` (record `t`, at `pc`) does to the log and to its own record -/
structure StepOut (c : Cfg) (tid : Nat) (t : Thread) (c' : Cfg) (t' : Thread) : Prop where
  threads : c'.threads = c.threads
  lin : ∃ es : List Ev, c'.lin = es.map (tid, ·) ++ c.lin ∧ expected t' = es ++ expected t
  cur : CurOk t'

theorem stepOut_same {c tid t t'} (he : expected t' = expected t) (hc : CurOk t') : StepOut c tid t c t' :=
  ⟨rfl, ⟨[], by simp, by simp [he]⟩, hc⟩

theorem agree_of_stepOut {c c' : Cfg} {tid : Nat} {t t' : Thread} (h : Agree c) (ht : c.threads[tid]? = some t)
    (o : StepOut c tid t c' t') : Agree { c' with threads := c'.threads.set tid t' } := by
  obtain ⟨es, hl, he⟩ := o.lin
  have hlt : tid < c.threads.length := (List.getElem?_eq_some_iff.mp ht).1
  have key : ∀ (j : Nat), evsOf j c'.lin = if j = tid then es ++ evsOf tid c.lin else evsOf j c.lin := by
    intro j
    rw [hl]
    clear hl he
    induction es with
    | nil => by_cases e : j = tid <;> simp [e]
    | cons e es ih =>
      by_cases hj : j = tid
      · subst hj
        simp only [List.map_cons, List.cons_append, evsOf_cons_self, if_true] at ih ⊢
        rw [ih]
      · simp only [List.map_cons, List.cons_append, hj, if_false] at ih ⊢
        rw [evsOf_cons_ne tid j e _ hj, ih]
  constructor
  · intro j tj hj
    simp only [o.threads, List.getElem?_set] at hj
    show evsOf j c'.lin = expected tj
    rw [key j]
    by_cases e : tid = j
    · subst e
      simp [hlt] at hj; subst hj
      simp only [if_true]
      rw [he, h.evs tid t ht]
    · simp only [e, if_false] at hj
      have : ¬ j = tid := fun x => e x.symm
      simp only [this, if_false]
      exact h.evs j tj hj
  · intro j tj hj
    simp only [o.threads, List.getElem?_set] at hj
    by_cases e : tid = j
    · subst e; simp [hlt] at hj; subst hj; exact o.cur
    · simp only [e, if_false] at hj; exact h.cur j tj hj

/-- finishing with result `r`, having logged the events `es` (latest first) in this step -/
theorem stepOut_finish {c ca : Cfg} {tid : Nat} {t : Thread} (r : Res) (pick : Option Nat) (op : Op) (es : List Ev)
    (hc : t.cur = some op) (hth : ca.threads = c.threads) (hl : ca.lin = es.map (tid, ·) ++ c.lin)
    (he : opEvs (op, r) = es ++ pendEvs t) :
    StepOut c tid t (finishOp ca t r pick).1 (finishOp ca t r pick).2 := by
  obtain ⟨h1, h2, h3, h4⟩ := finishOp_spec ca t r pick op hc
  refine ⟨by rw [h1, hth], ⟨es, by rw [h2, hl], ?_⟩, h4⟩
  rw [h3, he]
  simp [expected]

theorem stepOut_ret {c ca : Cfg} {tid : Nat} {t : Thread} (k : Cont) (r : Option Val) (pick : Option Nat) (op : Op) (es : List Ev)
    (hc : t.cur = some op) (hth : ca.threads = c.threads) (hl : ca.lin = es.map (tid, ·) ++ c.lin)
    (hp : Ev.deq r :: contEvs k = es ++ pendEvs t) :
    StepOut c tid t (ret ca t k r pick).1 (ret ca t k r pick).2 := by
  unfold ret
  cases k with
  | plain =>
    apply stepOut_finish _ pick op es hc hth hl
    simpa [opEvs, contEvs] using hp
  | iter rem acc =>
    cases r with
    | none =>
      apply stepOut_finish _ pick op es hc hth hl
      rw [← hp]
      simp [opEvs, contEvs]
    | some v =>
      simp only
      split
      · apply stepOut_finish _ pick op es hc hth hl
        rw [← hp]
        simp [opEvs, contEvs]
      · refine ⟨hth, ⟨es, hl, ?_⟩, ?_⟩
        · have e1 : pendEvs { t with pc := some (.deqLoadHead (.iter (rem - 1) (v :: acc))) } =
              Ev.deq (some v) :: contEvs (.iter rem acc) := rfl
          show pendEvs { t with pc := some (.deqLoadHead (.iter (rem - 1) (v :: acc))) } ++ t.hist.flatMap opEvs =
            es ++ (pendEvs t ++ t.hist.flatMap opEvs)
          rw [e1, hp, List.append_assoc]
        · refine ⟨by intro _; rw [hc]; rfl, by simp⟩

theorem agree_step {c : Cfg} (h : Agree c) (pick : Option Nat) (tid : Nat) : Agree (stepP pick c tid) := by
  cases ht : c.threads[tid]? with
  | none => simpa [stepP, ht] using h
  | some t =>
    cases hpc : t.pc with
    | none => simpa [stepP, ht, hpc] using h
    | some pc =>
      have hcur := h.cur tid t ht
      have hsome : t.cur.isSome := hcur.1 (by rw [hpc]; rfl)
      obtain ⟨op, hop⟩ := Option.isSome_iff_exists.mp hsome
      have hcur2 := hcur.2
      simp only [stepP, ht, hpc]
      apply agree_of_stepOut h ht
      cases pc with
      | enqLoadTail n v =>
        simp only [hpc] at hcur2
        simp only [exec]
        exact stepOut_same (by simp [expected, pendEvs, hpc]) ⟨fun _ => hsome, by simpa using hcur2⟩
      | enqLoadNext n v tl =>
        simp only [hpc] at hcur2
        simp only [exec]
        split <;> exact stepOut_same (by simp [expected, pendEvs, hpc]) ⟨fun _ => hsome, by simpa using hcur2⟩
      | enqHelp n v tl x =>
        simp only [hpc] at hcur2
        simp only [exec]
        refine ⟨by split <;> rfl, ⟨[], by split <;> simp, by simp [expected, pendEvs, hpc]⟩, ⟨fun _ => hsome, by simpa using hcur2⟩⟩
      | enqLink n v tl =>
        simp only [hpc] at hcur2
        simp only [exec]
        split
        · refine ⟨rfl, ⟨[.enq v], by simp [logEv, setNext], ?_⟩, ⟨fun _ => hsome, ⟨v, hcur2⟩⟩⟩
          rcases hcur2 with e | e <;> simp [expected, pendEvs, hpc, e]
        · exact stepOut_same (by simp [expected, pendEvs, hpc]) ⟨fun _ => hsome, by simpa using hcur2⟩
      | enqSwing n tl =>
        simp only [hpc] at hcur2
        simp only [exec]
        refine ⟨by split <;> rfl, ⟨[], by split <;> simp, by simp [expected, pendEvs, hpc]⟩, ⟨fun _ => hsome, by simpa using hcur2⟩⟩
      | enqAdd =>
        simp only [hpc] at hcur2
        simp only [exec]
        obtain ⟨v, hv⟩ := hcur2
        rcases hv with e | e
        · exact stepOut_finish .ok pick (.enq v) [] e rfl (by simp) (by simp [opEvs, pendEvs, hpc, e])
        · exact stepOut_finish .ok pick (.sig v) [] e rfl (by simp) (by simp [opEvs, pendEvs, hpc, e])
      | deqLoadHead k =>
        simp only [exec]
        exact stepOut_same (by simp [expected, pendEvs, hpc]) ⟨fun _ => hsome, by simp⟩
      | deqLoadNext k hd =>
        simp only [exec]
        split
        · exact stepOut_ret k none pick op [.deq none] hop rfl (by simp [logEv]) (by simp [pendEvs, hpc])
        · exact stepOut_same (by simp [expected, pendEvs, hpc]) ⟨fun _ => hsome, by simp⟩
      | deqCas k hd x =>
        simp only [exec]
        split
        · refine ⟨by cases c.mode <;> rfl, ⟨[.deq (valOf c x)], by cases c.mode <;> simp [logEv, setVal, setNext], ?_⟩,
            ⟨fun _ => hsome, by simp⟩⟩
          simp [expected, pendEvs, hpc]
        · exact stepOut_same (by simp [expected, pendEvs, hpc]) ⟨fun _ => hsome, by simp⟩
      | deqAdd k r =>
        simp only [exec]
        exact stepOut_ret k r pick op [] hop rfl (by simp) (by simp [pendEvs, hpc])
      | len =>
        simp only [exec]
        exact stepOut_finish _ pick op [] hop rfl (by simp) (by simp [opEvs, pendEvs, hpc])
      | emp =>
        simp only [exec]
        exact stepOut_finish _ pick op [] hop rfl (by simp) (by simp [opEvs, pendEvs, hpc])
      | sigActive v =>
        simp only [hpc] at hcur2
        simp only [exec]
        split
        · have := getItem_threads c pick v
          refine ⟨this.1, ⟨[], by simp [this.2], by simp [expected, pendEvs, hpc]⟩, ⟨fun _ => hsome, by simp [hcur2]⟩⟩
        · exact stepOut_finish .dropped pick (.sig v) [] hcur2 rfl (by simp) (by simp [opEvs, pendEvs, hpc])
      | itLen =>
        simp only [exec]
        split
        · exact stepOut_finish _ pick op [] hop rfl (by simp) (by simp [opEvs, pendEvs, hpc])
        · split
          · exact stepOut_finish _ pick op [] hop rfl (by simp) (by simp [opEvs, pendEvs, hpc])
          · exact stepOut_same (by simp [expected, pendEvs, hpc, contEvs]) ⟨fun _ => hsome, by simp⟩
      | shut =>
        simp only [hpc] at hcur2
        simp only [exec]
        exact stepOut_finish .ok pick .shut [] hcur2 rfl (by simp) (by simp [opEvs, pendEvs, hpc])

/-! ### initial configuration and runs -/

theorem agree_spawn (ps : List (List Op)) : ∀ (c : Cfg), c.lin = [] → Agree c →
    (spawn c ps).lin = [] ∧ Agree (spawn c ps) := by
  induction ps with
  | nil => intro c hl h; exact ⟨hl, h⟩
  | cons p ps ih =>
    intro c hl h
    show (spawn { (startNext c { pc := none, cur := none, prog := p, hist := [] } none).1 with
      threads := (startNext c { pc := none, cur := none, prog := p, hist := [] } none).1.threads ++
        [(startNext c { pc := none, cur := none, prog := p, hist := [] } none).2] } ps).lin = [] ∧ _
    obtain ⟨h1, h2, h3, h4, h5⟩ := startNext_spec c { pc := none, cur := none, prog := p, hist := [] } none
    apply ih
    · show (startNext c _ none).1.lin = []
      rw [h2, hl]
    · constructor
      · intro j tj hj
        show evsOf j (startNext c _ none).1.lin = expected tj
        rw [h2, hl]
        simp only [h1, List.getElem?_append] at hj
        split at hj
        · have := h.evs j tj hj; rw [hl] at this; exact this
        · have : tj = (startNext c { pc := none, cur := none, prog := p, hist := [] } none).2 := by
            cases hx : ([(startNext c { pc := none, cur := none, prog := p, hist := [] } none).2] : List Thread)[j - c.threads.length]? with
            | none => rw [hx] at hj; cases hj
            | some y =>
              rw [hx] at hj; cases hj
              have := List.mem_of_getElem? hx
              simpa using this
          subst this
          simp [evsOf, expected, h3, h4]
      · intro j tj hj
        simp only [h1, List.getElem?_append] at hj
        split at hj
        · exact h.cur j tj hj
        · have : tj = (startNext c { pc := none, cur := none, prog := p, hist := [] } none).2 := by
            cases hx : ([(startNext c { pc := none, cur := none, prog := p, hist := [] } none).2] : List Thread)[j - c.threads.length]? with
            | none => rw [hx] at hj; cases hj
            | some y =>
              rw [hx] at hj; cases hj
              have := List.mem_of_getElem? hx
              simpa using this
          subst this
          exact h5

theorem agree_init (mode : Mode) (progs : List (List Op)) : Agree (init mode progs) := by
  have : Agree (empty mode) := ⟨by intro j tj hj; simp [empty] at hj, by intro j tj hj; simp [empty] at hj⟩
  exact (agree_spawn progs (empty mode) rfl this).2

theorem agree_runP (s : List (Nat × Option Nat)) : ∀ (c : Cfg), Agree c → Agree (runP c s) := by
  induction s with
  | nil => intro c h; exact h
  | cons a s ih =>
    intro c h
    obtain ⟨tid, pick⟩ := a
    exact ih _ (agree_step h pick tid)

end GoaktVerif.C20

/-
C12 helper lemmas for the "PostStop exactly once" clause: PostStop runs again for an actor only
through a stop of an actor that is no longer running (`postStop a false` events).
-/
import GoaktVerif.Lemmas.C12Top

namespace GoaktVerif.C12
open GoaktVerif.Model.C12 GoaktVerif.Model.C12.State

def isPostStop : Ev → Bool
  | .postStop _ _ => true
  | _ => false

/-- PostStop runs of actor `a` on a running actor / on an actor that had already stopped -/
def liveStops (log : List Ev) (a : Nat) : Nat := log.count (.postStop a true)
def deadStops (log : List Ev) (a : Nat) : Nat := log.count (.postStop a false)

/-- `t` differs from `s` by nothing that concerns stopping: same PostStop counters, same running
    flags, no new postStop events -/
def FrameO (s t : State) : Prop :=
  (∀ a, (t.actors a).postStops = (s.actors a).postStops ∧ (t.actors a).running = (s.actors a).running) ∧
  ∃ l, t.log = l ++ s.log ∧ ∀ e ∈ l, isPostStop e = false

theorem FrameO.refl (s : State) : FrameO s s := ⟨fun _ => ⟨rfl, rfl⟩, [], rfl, by simp⟩

theorem FrameO.trans {s t u : State} (h1 : FrameO s t) (h2 : FrameO t u) : FrameO s u := by
  obtain ⟨a1, l1, e1, p1⟩ := h1
  obtain ⟨a2, l2, e2, p2⟩ := h2
  refine ⟨fun a => ⟨(a2 a).1.trans (a1 a).1, (a2 a).2.trans (a1 a).2⟩, l2 ++ l1, by rw [e2, e1, List.append_assoc], ?_⟩
  intro e he
  rcases List.mem_append.mp he with h | h
  · exact p2 e h
  · exact p1 e h

theorem FrameO.of_eq {s t : State} (ha : t.actors = s.actors) (hl : t.log = s.log) : FrameO s t :=
  ⟨fun a => by rw [ha]; exact ⟨rfl, rfl⟩, [], by simpa using hl, by simp⟩

theorem SameCore.frameO {s t : State} (h : SameCore s t) : FrameO s t := FrameO.of_eq h.actors h.log

/-- an actor update that keeps the PostStop counter and the running flag -/
theorem frameO_setA (s : State) (a : Nat) (f : Actor → Actor)
    (h : (f (s.actors a)).postStops = (s.actors a).postStops ∧ (f (s.actors a)).running = (s.actors a).running) :
    FrameO s (s.setA a f) := by
  refine ⟨fun b => ?_, [], rfl, by simp⟩
  by_cases hb : b = a
  · subst hb; simpa [setA, upd] using h
  · simp [setA, upd, hb]

theorem frameO_emit (s : State) (e : Ev) (h : isPostStop e = false) : FrameO s (s.emit e) :=
  ⟨fun _ => ⟨rfl, rfl⟩, [e], rfl, by simpa using h⟩

theorem frameO_setE (s : State) (g : Nat) (f : Entry → Entry) : FrameO s (s.setE g f) := FrameO.of_eq rfl rfl
theorem frameO_signal (s : State) (g : Nat) : FrameO s (s.signal g) := FrameO.of_eq rfl rfl
theorem frameO_refresh (s : State) (g : Nat) : FrameO s (s.refresh g) := FrameO.of_eq rfl rfl
theorem frameO_setIdx (s : State) (g : Nat) (v : Int) : FrameO s (s.setIdx g v) := FrameO.of_eq rfl rfl
theorem frameO_delEntry (s : State) (a : Nat) : FrameO s (s.delEntry a) := FrameO.of_eq rfl rfl
theorem frameO_hpush (s : State) (g : Nat) : FrameO s (s.hpush g) := (sameCore_hpush s g).frameO
theorem frameO_hpop (s : State) : FrameO s s.hpop := (sameCore_hpop s).frameO
theorem frameO_hfix (s : State) (i : Int) : FrameO s (s.hfix i) := (sameCore_hfix s i).frameO
theorem frameO_hremove (s : State) (i : Int) : FrameO s (s.hremove i) := (sameCore_hremove s i).frameO
theorem frameO_dropFromHeap (s : State) (g : Nat) : FrameO s (s.dropFromHeap g) := (sameCore_dropFromHeap s g).frameO

theorem frameO_regTarget (s : State) (a : Nat) : FrameO s (s.regTarget a).1 := by
  unfold regTarget
  split
  · exact FrameO.of_eq rfl rfl
  · exact frameO_dropFromHeap _ _

theorem frameO_regFinish (s : State) (a g : Nat) (st : Strat) : FrameO s (s.regFinish a g st) := by
  unfold regFinish
  cases st with
  | time T => exact (((frameO_setE _ _ _).trans (frameO_setE _ _ _)).trans (frameO_refresh _ _)).trans (frameO_hpush _ _)
  | count n => exact (frameO_setE _ _ _).trans (frameO_setE _ _ _)
  | longLived => exact (frameO_setE _ _ _).trans (frameO_delEntry _ _)

theorem frameO_register (s : State) (a : Nat) (st : Strat) : FrameO s (s.register a st) :=
  (frameO_regTarget s a).trans (frameO_regFinish _ _ _ _)

theorem frameO_unregister (s : State) (a : Nat) : FrameO s (s.unregister a) := by
  unfold unregister
  split
  · exact FrameO.refl s
  · exact (frameO_dropFromHeap _ _).trans (frameO_delEntry _ _)

theorem frameO_mpause (s : State) (a : Nat) : FrameO s (s.mpause a) := by
  unfold mpause
  split
  · exact FrameO.refl s
  · split
    · exact FrameO.refl s
    · exact (frameO_setE _ _ _).trans (frameO_dropFromHeap _ _)

theorem frameO_resumeEntry (s : State) (g : Nat) : FrameO s (s.resumeEntry g) := by
  unfold resumeEntry
  dsimp only
  split
  · exact ((frameO_setE _ _ _).trans (frameO_refresh _ _)).trans (frameO_hpush _ _)
  · split
    · exact ((frameO_setE _ _ _).trans (frameO_setE _ _ _)).trans (frameO_signal _ _)
    · exact frameO_setE _ _ _

theorem frameO_mresumeS (s : State) (a : Nat) : FrameO s (s.mresumeS a) := by
  unfold mresumeS
  split
  · exact FrameO.refl s
  · split
    · exact FrameO.refl s
    · exact frameO_resumeEntry _ _

theorem frameO_mtouch (s : State) (a : Nat) : FrameO s (s.mtouch a) := by
  unfold mtouch
  split
  · exact FrameO.refl s
  · split
    · exact FrameO.refl s
    · split
      · exact FrameO.refl s
      · exact (frameO_refresh _ _).trans (frameO_hfix _ _)

theorem frameO_mproc (s : State) (a : Nat) : FrameO s (s.mproc a) := by
  unfold mproc
  cases hE : s.entries a with
  | none => exact FrameO.refl s
  | some g =>
    dsimp only
    split
    · exact FrameO.refl s
    · split
      · exact FrameO.refl s
      · have he : FrameO s ((s.setE g fun e => { e with pending := true }).emit
            (.crossed a g (s.actors a).processed (s.objs g).baseline (s.objs g).maxMessages)) :=
          (frameO_setE _ _ _).trans (frameO_emit _ _ rfl)
        split
        · exact he
        · exact (he.trans (frameO_setE _ _ _)).trans (frameO_signal _ _)

theorem frameO_markActivity (s : State) (a : Nat) : FrameO s (s.markActivity a) := by
  unfold markActivity
  dsimp only
  split
  · exact ((frameO_setA _ _ _ ⟨rfl, rfl⟩).trans (frameO_setA _ _ _ ⟨rfl, rfl⟩)).trans (frameO_mtouch _ _)
  · exact frameO_setA _ _ _ ⟨rfl, rfl⟩

theorem frameO_recordProcessed (s : State) (a : Nat) : FrameO s (s.recordProcessed a) := by
  unfold recordProcessed
  dsimp only
  split
  · exact (frameO_setA _ _ _ ⟨rfl, rfl⟩).trans (frameO_mproc _ _)
  · exact frameO_setA _ _ _ ⟨rfl, rfl⟩

theorem frameO_startPassivation (s : State) (a : Nat) : FrameO s (s.startPassivation a) := by
  unfold startPassivation
  split
  · exact FrameO.refl s
  · exact frameO_register _ _ _

theorem frameO_pausePassivation (s : State) (a : Nat) : FrameO s (s.pausePassivation a) :=
  (frameO_mpause _ _).trans (frameO_setA _ _ _ ⟨rfl, rfl⟩)

theorem frameO_resumePassivation (s : State) (a : Nat) : FrameO s (s.resumePassivation a) := by
  unfold resumePassivation
  split
  · dsimp only
    split
    · exact (frameO_setA _ _ _ ⟨rfl, rfl⟩).trans (frameO_mresumeS _ _)
    · exact ((frameO_setA _ _ _ ⟨rfl, rfl⟩).trans (frameO_mresumeS _ _)).trans (frameO_startPassivation _ _)
  · exact frameO_startPassivation _ _

theorem frameO_suspend (s : State) (a : Nat) : FrameO s (s.suspend a) :=
  (frameO_setA _ _ _ ⟨rfl, rfl⟩).trans (frameO_pausePassivation _ _)

theorem frameO_reinstate (s : State) (a : Nat) : FrameO s (s.reinstate a) := by
  unfold reinstate
  split
  · exact FrameO.refl s
  · exact ((frameO_setA _ _ _ ⟨rfl, rfl⟩).trans (frameO_markActivity _ _)).trans (frameO_resumePassivation _ _)

/-! ### the invariant -/

/-- PostStop counter = number of postStop events; a stop of a RUNNING actor happened at most once,
    and after any stop the actor is not running (nothing in the model restarts an actor) -/
def InvO (s : State) : Prop :=
  ∀ a, (s.actors a).postStops = liveStops s.log a + deadStops s.log a ∧ liveStops s.log a ≤ 1 ∧
    (1 ≤ liveStops s.log a + deadStops s.log a → (s.actors a).running = false)

theorem count_append_frame (l : List Ev) (log : List Ev) (e : Ev) (he : isPostStop e = true)
    (h : ∀ x ∈ l, isPostStop x = false) : (l ++ log).count e = log.count e := by
  rw [List.count_append]
  have : l.count e = 0 := by
    apply List.count_eq_zero.mpr
    intro hm
    have := h e hm
    rw [he] at this
    exact absurd this (by decide)
  omega

theorem FrameO.inv {s t : State} (h : FrameO s t) (hi : InvO s) : InvO t := by
  obtain ⟨ha, l, hl, hp⟩ := h
  intro a
  have h1 : liveStops t.log a = liveStops s.log a := by
    simp only [liveStops, hl]; exact count_append_frame l s.log _ rfl hp
  have h2 : deadStops t.log a = deadStops s.log a := by
    simp only [deadStops, hl]; exact count_append_frame l s.log _ rfl hp
  rw [h1, h2, (ha a).1, (ha a).2]
  exact hi a

theorem doStopS_log (s : State) (a : Nat) : (s.doStopS a).log = .postStop a (s.actors a).running :: s.log := rfl

theorem doStopS_actor_self (s : State) (a : Nat) :
    ((s.doStopS a).actors a).postStops = (s.actors a).postStops + 1 ∧ ((s.doStopS a).actors a).running = false := by
  simp [doStopS, setA, emit, upd, resetActor]

theorem doStopS_actor_other (s : State) (a b : Nat) (h : b ≠ a) : (s.doStopS a).actors b = s.actors b := by
  simp [doStopS, setA, emit, upd, h]

theorem inv_doStopS (s : State) (a : Nat) (hi : InvO s) : InvO (s.doStopS a) := by
  intro b
  have hb := hi b
  by_cases hba : b = a
  · subst hba
    have hs := doStopS_actor_self s b
    rw [hs.1, hs.2, doStopS_log]
    cases hr : (s.actors b).running
    · have h1 : liveStops (Ev.postStop b false :: s.log) b = liveStops s.log b := by
        simp [liveStops]
      have h2 : deadStops (Ev.postStop b false :: s.log) b = deadStops s.log b + 1 := by
        simp [deadStops]
      rw [h1, h2]
      refine ⟨by omega, hb.2.1, fun _ => rfl⟩
    · have h0 : liveStops s.log b + deadStops s.log b = 0 := by
        rcases Nat.eq_zero_or_pos (liveStops s.log b + deadStops s.log b) with h | h
        · exact h
        · have := hb.2.2 h
          rw [hr] at this
          exact absurd this (by decide)
      have h1 : liveStops (Ev.postStop b true :: s.log) b = liveStops s.log b + 1 := by
        simp [liveStops]
      have h2 : deadStops (Ev.postStop b true :: s.log) b = deadStops s.log b := by
        simp [deadStops]
      rw [h1, h2]
      refine ⟨by omega, by omega, fun _ => rfl⟩
  · rw [doStopS_actor_other s a b hba, doStopS_log]
    have h1 : ∀ r, liveStops (Ev.postStop a r :: s.log) b = liveStops s.log b := by
      intro r; simp [liveStops, Ne.symm hba]
    have h2 : ∀ r, deadStops (Ev.postStop a r :: s.log) b = deadStops s.log b := by
      intro r; simp [deadStops, Ne.symm hba]
    rw [h1, h2]
    exact hb

theorem inv_tryS (s : State) (a : Nat) (src : Src) (hi : InvO s) : InvO (s.tryS a src) := by
  unfold tryS
  dsimp only
  split
  · split
    · exact ((frameO_setA _ _ _ ⟨rfl, rfl⟩).trans (frameO_emit _ _ rfl)).inv hi
    · exact (frameO_emit _ _ rfl).inv hi
  · exact (frameO_emit _ _ rfl).inv (inv_doStopS _ _ ((frameO_unregister _ _).inv hi))

theorem inv_shutdown (s : State) (a : Nat) (hi : InvO s) : InvO (s.shutdown a) := by
  unfold shutdown
  split
  · exact hi
  · exact inv_doStopS _ _ (((frameO_setA _ _ _ ⟨rfl, rfl⟩).trans (frameO_unregister _ _)).inv hi)

theorem inv_sstep (s : State) (o : SOp) (hi : InvO s) : InvO (sstep s o).1 := by
  cases o <;> simp only [sstep]
  case act a => exact (frameO_markActivity _ _).inv hi
  case recd a => exact (frameO_recordProcessed _ _).inv hi
  case pause a => exact (frameO_pausePassivation _ _).inv hi
  case resume a => exact (frameO_resumePassivation _ _).inv hi
  case susp a => exact (frameO_suspend _ _).inv hi
  case reinst a => exact (frameO_reinstate _ _).inv hi
  case stop a => exact inv_shutdown _ _ hi
  case mreg a => exact (frameO_register _ _ _).inv hi
  case munreg a => exact (frameO_unregister _ _).inv hi
  case mpause a => exact (frameO_mpause _ _).inv hi
  case mresume a => exact (frameO_mresumeS _ _).inv hi
  case mtouch a => exact (frameO_mtouch _ _).inv hi
  case mproc a => exact (frameO_mproc _ _).inv hi
  case try_ a => exact inv_tryS _ _ _ hi
  case sysstop b => exact (FrameO.of_eq (s := s) rfl rfl).inv hi
  case flagstop a b => exact (frameO_setA _ _ _ ⟨rfl, rfl⟩).inv hi
  case deliver a => split; exact ((frameO_markActivity _ _).trans (frameO_recordProcessed _ _)).inv hi; exact hi
  case pauseMsg a => split; exact (frameO_pausePassivation _ _).inv hi; exact hi
  case resumeMsg a => split; exact (frameO_resumePassivation _ _).inv hi; exact hi
  case fail a => split; exact (frameO_suspend _ _).inv hi; exact hi
  case reinstateApi a => split; exact (frameO_reinstate _ _).inv hi; exact hi

theorem inv_srun (s : State) (os : List SOp) (hi : InvO s) : InvO (srun s os) := by
  induction os generalizing s with
  | nil => exact hi
  | cons o os ih => exact ih _ (inv_sstep s o hi)

theorem inv_passivateS (s : State) (g : Nat) (src : Src) (pre post : List SOp) (hi : InvO s) :
    InvO (passivateS s g src pre post) :=
  inv_srun _ _ (inv_tryS _ _ _ (inv_srun _ _ hi))

theorem frameO_nextEntry (f : Nat) (s : State) : FrameO s (nextEntry f s).1 := by
  fun_induction nextEntry f s with
  | case1 => exact FrameO.refl _
  | case2 => exact FrameO.refl _
  | case3 => exact (frameO_hremove _ _).trans (frameO_setIdx _ _ _)
  | case4 f s g _ hq hp hh ih => exact ((frameO_hremove _ _).trans (frameO_setIdx _ _ _)).trans ih
  | case5 => exact FrameO.refl _
  | case6 => exact FrameO.refl _

theorem frameO_popHead (s : State) (g : Nat) : FrameO s (s.popHead g) := by
  unfold popHead
  exact ((frameO_emit _ _ rfl).trans (frameO_hpop _)).trans (frameO_setIdx _ _ _)

theorem inv_trigger (f : Nat) (s : State) (g : Nat) (pre post : List SOp) (hi : InvO s) :
    InvO (trigger f s g pre post) := by
  fun_induction trigger f s g pre post with
  | case1 => exact hi
  | case2 => exact hi
  | case3 => exact hi
  | case4 s => exact (FrameO.of_eq (s := s) rfl rfl).inv hi
  | case5 s g pre post h _ hq hh hd f a t ht =>
    exact inv_passivateS _ _ _ _ _ ((frameO_popHead s g).inv hi)
  | case6 s g pre post h _ hq hh hd f a t ht hb =>
    exact (frameO_delEntry _ _).inv (inv_passivateS _ _ _ _ _ ((frameO_popHead s g).inv hi))
  | case7 s g pre post h _ hq hh hd f a t ht hb hp =>
    exact inv_passivateS _ _ _ _ _ ((frameO_popHead s g).inv hi)
  | case8 s g pre post h _ hq hh hd f a t ht hb hp hx ih =>
    exact ih (((frameO_refresh _ _).trans (frameO_hpush _ _)).inv (inv_passivateS _ _ _ _ _ ((frameO_popHead s g).inv hi)))
  | case9 s g pre post h _ hq hh hd f a t ht hb hp hx ih =>
    exact ih (inv_passivateS _ _ _ _ _ ((frameO_popHead s g).inv hi))

theorem inv_processMessageEntry (s : State) (g : Nat) (pre post : List SOp) (hi : InvO s) :
    InvO (processMessageEntry s g pre post) := by
  unfold processMessageEntry
  dsimp only
  have ht : InvO ((passivateS (s.emit (.countFire (s.objs g).actor g)) g .count pre post).setE g
      fun e => { e with enqueued := false }) :=
    (frameO_setE _ _ _).inv (inv_passivateS _ _ _ _ _ ((frameO_emit _ _ rfl).inv hi))
  split
  · exact hi
  · split
    · exact (frameO_setE _ _ _).inv hi
    · split
      · exact ht
      · split
        · exact ((frameO_delEntry _ _).trans (frameO_setE _ _ _)).inv ht
        · split
          · exact ht
          · split
            · exact ((frameO_setE _ _ _).trans (frameO_signal _ _)).inv ht
            · exact ht

theorem inv_step (s : State) (o : Op) (hi : InvO s) : InvO (step s o) := by
  unfold step
  split
  · exact hi
  · cases o with
    | adv d => exact (FrameO.of_eq (s := s) rfl rfl).inv hi
    | simple o => exact inv_sstep _ _ hi
    | tick pre post =>
      simp only [tickStep]
      split
      · exact (frameO_nextEntry _ _).inv hi
      · exact inv_trigger _ _ _ _ _ ((frameO_nextEntry _ _).inv hi)
    | drain pre post =>
      simp only [drainStep]
      split
      · exact hi
      · exact inv_processMessageEntry _ _ _ _ ((FrameO.of_eq (s := s) rfl rfl).inv hi)

theorem inv_run (s : State) (os : List Op) (hi : InvO s) : InvO (run s os) := by
  induction os generalizing s with
  | nil => exact hi
  | cons o os ih => exact ih _ (inv_step s o hi)

/-- nothing has been stopped yet -/
def NoStops (s : State) : Prop := (∀ e ∈ s.log, isPostStop e = false) ∧ ∀ a, (s.actors a).postStops = 0

theorem FrameO.noStops {s t : State} (h : FrameO s t) (hn : NoStops s) : NoStops t := by
  obtain ⟨ha, l, hl, hp⟩ := h
  refine ⟨?_, fun a => by rw [(ha a).1]; exact hn.2 a⟩
  intro e he
  rw [hl] at he
  rcases List.mem_append.mp he with h | h
  · exact hp e h
  · exact hn.1 e h

theorem noStops_spawnAll (s : State) (cfg : List (Strat × Bool)) (hn : NoStops s) : NoStops (spawnAll s cfg) := by
  induction cfg generalizing s with
  | nil => exact hn
  | cons c cfg ih =>
    obtain ⟨st, fail⟩ := c
    unfold spawnAll
    apply ih
    apply (frameO_startPassivation _ _).noStops
    refine ⟨hn.1, fun a => ?_⟩
    by_cases h : a = s.nA
    · simp [upd, h]
    · simpa [upd, h] using hn.2 a

theorem NoStops.inv {s : State} (hn : NoStops s) : InvO s := by
  intro a
  have h1 : liveStops s.log a = 0 := by
    apply List.count_eq_zero.mpr
    intro hm; have := hn.1 _ hm; simp [isPostStop] at this
  have h2 : deadStops s.log a = 0 := by
    apply List.count_eq_zero.mpr
    intro hm; have := hn.1 _ hm; simp [isPostStop] at this
  rw [h1, h2, hn.2 a]
  exact ⟨rfl, by omega, by omega⟩

/-- for every configuration and EVERY op sequence: the PostStop counter of an actor is the number of
    its postStop events, at most one of them hit a running actor, and a stopped actor stays stopped -/
theorem invO_reachable (cfg : List (Strat × Bool)) (ops : List Op) : InvO (run (init cfg) ops) :=
  inv_run _ _ (noStops_spawnAll _ _ ⟨by simp [], fun _ => rfl⟩).inv

/-- with the running check in `tryPassivation` (and `Shutdown`'s own) no stop ever reaches a stopped
    actor: there is no `postStop a false` event in any run -/
theorem no_dead_stops (cfg : List (Strat × Bool)) (ops : List Op) (a : Nat) :
    Ev.postStop a false ∉ (run (init cfg) ops).log := by
  intro h
  have := log_sound cfg ops _ h
  simp [evOK] at this

end GoaktVerif.C12

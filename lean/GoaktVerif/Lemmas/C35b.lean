/-
C35 helper lemmas, part 2: the loop returns (fuel is never exhausted) and each of the two masks
stays inside its own window.
-/
import GoaktVerif.Lemmas.C35

namespace GoaktVerif.C35
open GoaktVerif.Model.C35 GoaktVerif.Spec.C35

variable (cfg : Cfg) (callerDl : Option Nat) (deadline : Nat) (ctxDone : Bool)
  (res : Nat → Res) (d : Nat → Nat)

/-! ### termination -/

/-- time left for the pinned-endpoint mask, plus one minimal backoff while any is left -/
def budgetP (minB deadline now : Nat) : Nat := if now < deadline then deadline - now + minB else 0

/-- the same for the not-found mask -/
def budgetN (cfg : Cfg) (callerDl : Option Nat) (now : Nat) (nfDl : Option Nat) : Nat :=
  if now < nfDeadlineOf cfg callerDl now nfDl then nfDeadlineOf cfg callerDl now nfDl - now + cfg.minB else 0

theorem budgetP_pos {minB deadline now : Nat} (h : now < deadline) :
    budgetP minB deadline now = deadline - now + minB := by simp [budgetP, h]
theorem budgetP_zero {minB deadline now : Nat} (h : deadline ≤ now) :
    budgetP minB deadline now = 0 := by simp [budgetP]; omega

/-- `budgetN` in terms of the deadline value -/
def budgetOf (minB nd now : Nat) : Nat := if now < nd then nd - now + minB else 0
theorem budgetOf_pos {minB nd now : Nat} (h : now < nd) : budgetOf minB nd now = nd - now + minB := by
  simp [budgetOf, h]
theorem budgetOf_zero {minB nd now : Nat} (h : nd ≤ now) : budgetOf minB nd now = 0 := by
  simp [budgetOf]; omega
theorem budgetN_eq (now : Nat) (nfDl : Option Nat) :
    budgetN cfg callerDl now nfDl = budgetOf cfg.minB (nfDeadlineOf cfg callerDl now nfDl) now := rfl

theorem budgetOf_mono {minB nd nd' now now' : Nat} (h : now ≤ now') (hd : nd' - now' ≤ nd - now) :
    budgetOf minB nd' now' ≤ budgetOf minB nd now := by
  by_cases h1 : now' < nd'
  · rw [budgetOf_pos h1]
    by_cases h2 : now < nd
    · rw [budgetOf_pos h2]; omega
    · omega
  · rw [budgetOf_zero (by omega)]; omega

theorem budgetN_le (now : Nat) (nfDl : Option Nat) (h : nfDl = none) :
    budgetN cfg callerDl now nfDl ≤ cfg.nfWindow + cfg.minB := by
  subst h
  have := optMin_le_left (now + cfg.nfWindow) callerDl
  rw [budgetN_eq]
  simp only [nfDeadlineOf]
  by_cases h1 : now < optMin (now + cfg.nfWindow) callerDl
  · rw [budgetOf_pos h1]; omega
  · rw [budgetOf_zero (by omega)]; omega

theorem budgetN_mono (now now' : Nat) (nfDl : Option Nat) (h : now ≤ now') :
    budgetN cfg callerDl now' nfDl ≤ budgetN cfg callerDl now nfDl := by
  rw [budgetN_eq, budgetN_eq]
  apply budgetOf_mono h
  cases nfDl with
  | some x => simp only [nfDeadlineOf]; omega
  | none =>
    cases callerDl with
    | none => simp only [nfDeadlineOf, optMin]; omega
    | some c => simp only [nfDeadlineOf, optMin]; omega

theorem loop_returns (hm : 0 < cfg.minB) (hmm : cfg.minB ≤ cfg.maxB) :
    ∀ (fuel i now backoff : Nat) (nfDl : Option Nat) (acc : List Sleep) (rec : Bool),
      cfg.minB ≤ backoff →
      budgetP cfg.minB deadline now + budgetN cfg callerDl now nfDl + cfg.minB ≤ fuel * cfg.minB →
      (loop cfg callerDl deadline ctxDone res d fuel i now backoff nfDl acc rec).out ≠ .outOfFuel := by
  intro fuel
  induction fuel with
  | zero => intro i now backoff nfDl acc rec _ h; simp at h; omega
  | succ fuel ih =>
    intro i now backoff nfDl acc rec hb hf
    rw [Nat.succ_mul] at hf
    simp only [loop]
    split
    · simp
    · simp
    · simp
    · split
      · simp
      · rename_i hcond
        have hlt : now < deadline := by omega
        apply ih
        · omega
        · have h1 := budgetN_mono cfg callerDl now (now + min backoff (deadline - now) + d (i + 1)) nfDl (by omega)
          have h2 : budgetP cfg.minB deadline (now + min backoff (deadline - now) + d (i + 1)) + cfg.minB
              ≤ budgetP cfg.minB deadline now := by
            rw [budgetP_pos hlt]
            by_cases h3 : now + min backoff (deadline - now) + d (i + 1) < deadline
            · rw [budgetP_pos h3]; omega
            · rw [budgetP_zero (by omega)]; omega
          omega
    · split
      · simp
      · rename_i hcond
        have hlt : now < nfDeadlineOf cfg callerDl now nfDl := by omega
        apply ih
        · omega
        · have h2 : budgetP cfg.minB deadline (now + min backoff (nfDeadlineOf cfg callerDl now nfDl - now) + d (i + 1))
              ≤ budgetP cfg.minB deadline now := by
            by_cases h3 : now + min backoff (nfDeadlineOf cfg callerDl now nfDl - now) + d (i + 1) < deadline
            · rw [budgetP_pos h3, budgetP_pos (by omega)]; omega
            · rw [budgetP_zero (by omega)]; omega
          have h1 : budgetN cfg callerDl (now + min backoff (nfDeadlineOf cfg callerDl now nfDl - now) + d (i + 1))
                (some (nfDeadlineOf cfg callerDl now nfDl)) + cfg.minB ≤ budgetN cfg callerDl now nfDl := by
            rw [budgetN_eq, budgetN_eq, budgetOf_pos hlt]
            have hs : ∀ n x, nfDeadlineOf cfg callerDl n (some x) = x := fun _ _ => rfl
            rw [hs]
            generalize nfDeadlineOf cfg callerDl now nfDl = nd at *
            by_cases h3 : now + min backoff (nd - now) + d (i + 1) < nd
            · rw [budgetOf_pos h3]; omega
            · rw [budgetOf_zero (by omega)]; omega
          omega

theorem fuelFor_enough (hm : 0 < cfg.minB) (x : Nat) (hx : x ≤ cfg.window + cfg.nfWindow) :
    x + 3 * cfg.minB ≤ fuelFor cfg * cfg.minB := by
  unfold fuelFor
  have h1 := Nat.div_add_mod (cfg.window + cfg.nfWindow) cfg.minB
  have h2 := Nat.mod_lt (cfg.window + cfg.nfWindow) hm
  rw [Nat.add_mul, Nat.mul_comm ((cfg.window + cfg.nfWindow) / cfg.minB) cfg.minB]
  omega

/-! ### each mask stays inside its own window -/

def pSum (l : List Sleep) : Nat := totalSleep (l.filter (·.pinned))
def nSum (l : List Sleep) : Nat := totalSleep (l.filter (! ·.pinned))

theorem pSum_reverse (l : List Sleep) : pSum l.reverse = pSum l := by
  simp [pSum, List.filter_reverse, totalSleep_reverse]
theorem nSum_reverse (l : List Sleep) : nSum l.reverse = nSum l := by
  simp [nSum, List.filter_reverse, totalSleep_reverse]

theorem totalSleep_split (l : List Sleep) : totalSleep l = pSum l + nSum l := by
  induction l with
  | nil => simp [pSum, nSum, totalSleep]
  | cons s rest ih =>
    cases hp : s.pinned <;> simp [pSum, nSum, totalSleep, List.filter_cons, hp] at ih ⊢ <;> omega

theorem pSum_cons_p (a b : Nat) (l : List Sleep) : pSum (⟨a, b, true⟩ :: l) = b + pSum l := by
  simp [pSum, totalSleep]
theorem pSum_cons_n (a b : Nat) (l : List Sleep) : pSum (⟨a, b, false⟩ :: l) = pSum l := by
  simp [pSum]
theorem nSum_cons_p (a b : Nat) (l : List Sleep) : nSum (⟨a, b, true⟩ :: l) = nSum l := by
  simp [nSum]
theorem nSum_cons_n (a b : Nat) (l : List Sleep) : nSum (⟨a, b, false⟩ :: l) = b + nSum l := by
  simp [nSum, totalSleep]

/-- waiting on a pinned endpoint happens inside [start, deadline]; waiting on a failed resolution
    happens inside a window of length nfWindow -/
def WindowOK (cfg : Cfg) (start deadline : Nat) (r : Run) : Prop :=
  pSum r.sleeps + start ≤ deadline ∧ nSum r.sleeps ≤ cfg.nfWindow

theorem loop_window (start : Nat) (hsd : start ≤ deadline) :
    ∀ (fuel i now backoff : Nat) (nfDl : Option Nat) (acc : List Sleep) (rec : Bool),
      start ≤ now → pSum acc + start ≤ min now deadline →
      (nfDl = none → nSum acc = 0) →
      (∀ D, nfDl = some D → nSum acc + D ≤ min now D + cfg.nfWindow) →
      WindowOK cfg start deadline (loop cfg callerDl deadline ctxDone res d fuel i now backoff nfDl acc rec) := by
  intro fuel
  have exit : ∀ (i now : Nat) (nfDl : Option Nat) (acc : List Sleep) (rec : Bool) (o : Outcome),
      pSum acc + start ≤ min now deadline → (nfDl = none → nSum acc = 0) →
      (∀ D, nfDl = some D → nSum acc + D ≤ min now D + cfg.nfWindow) →
      WindowOK cfg start deadline (Run.mk (i + 1) acc.reverse rec o) := by
    intro i now nfDl acc rec o hp hn0 hn1
    simp only [WindowOK, pSum_reverse, nSum_reverse]
    refine ⟨by omega, ?_⟩
    cases nfDl with
    | none => rw [hn0 rfl]; omega
    | some D => have := hn1 D rfl; omega
  induction fuel with
  | zero => intro i now backoff nfDl acc rec _ hp hn0 hn1; simpa [loop] using exit i now nfDl acc rec _ hp hn0 hn1
  | succ fuel ih =>
    intro i now backoff nfDl acc rec hs hp hn0 hn1
    simp only [loop]
    split
    · exact exit i now nfDl acc rec _ hp hn0 hn1
    · exact exit i now nfDl acc rec _ hp hn0 hn1
    · exact exit i now nfDl acc rec _ hp hn0 hn1
    · split
      · exact exit i now nfDl acc true _ hp hn0 hn1
      · rename_i hcond
        apply ih
        · omega
        · rw [pSum_cons_p]; omega
        · intro h; rw [nSum_cons_p]; exact hn0 h
        · intro D hD
          have := hn1 D hD
          rw [nSum_cons_p]; omega
    · split
      · exact exit i now nfDl acc true _ hp hn0 hn1
      · rename_i hcond
        apply ih
        · omega
        · rw [pSum_cons_n]; omega
        · intro h; cases h
        · intro D hD
          cases hD
          rw [nSum_cons_n]
          cases nfDl with
          | some D' =>
            have := hn1 D' rfl
            simp only [nfDeadlineOf] at this hcond ⊢
            omega
          | none =>
            have h0 := hn0 rfl
            have hle := optMin_le_left (now + cfg.nfWindow) callerDl
            simp only [nfDeadlineOf] at h0 hcond ⊢
            omega

end GoaktVerif.C35

/-
C10 — lemmas: the log under environment steps and under the `freeWatchers` walk.
-/
import GoaktVerif.Model.C10
import GoaktVerif.Lemmas.C09.Delete

set_option linter.unusedSimpArgs false

namespace GoaktVerif.Model.C10
open GoaktVerif.Model.C09

@[simp] theorem env_log (s : Sys) (e : Env) : (e.apply s).log = s.log := by
  cases e with
  | watch w x => rfl
  | unwatch w x => rfl
  | setRunning a b => cases b <;> rfl
  | setSuspended a b => cases b <;> rfl

@[simp] theorem envs_log (es : List Env) (s : Sys) : (applyEnvs s es).log = s.log := by
  induction es generalizing s with
  | nil => rfl
  | cons e es ih => simp [applyEnvs, List.foldl_cons] at ih ⊢; rw [ih]; simp

theorem notify_log (p : Nat) (s : Sys) (x : Pid) :
    (Sys.notify p s x).log = if s.isRunning x.id then s.log ++ [Ev.terminated x.id p] else s.log := by
  unfold Sys.notify
  split <;> rfl

theorem count_append (l : List Ev) (e : Ev) (w p : Nat) :
    terminatedCount (l ++ [e]) w p = terminatedCount l w p + (if e = Ev.terminated w p then 1 else 0) := by
  unfold terminatedCount
  simp only [List.filter_append, List.length_append, List.filter_cons, List.filter_nil]
  by_cases h : e = Ev.terminated w p
  · simp [h]
  · have : (e == Ev.terminated w p) = false := by simpa using h
    simp [h, this]

theorem runningAtTurn_none (p w : Nat) (ws : List Pid) (envs : List (List Env)) (s : Sys)
    (h : w ∉ ws.map (·.id)) : runningAtTurn p w ws envs s = none := by
  induction ws generalizing envs s with
  | nil => rfl
  | cons x ws ih =>
    simp only [List.map_cons, List.mem_cons, not_or] at h
    simp only [runningAtTurn]
    have : ¬ x.id = w := fun e => h.1 e.symm
    simp only [this, if_false]
    exact ih _ _ h.2

/-- 1 when the walk found the watcher running at its turn -/
def hit : Option Bool → Nat
  | some true => 1
  | _ => 0

/-- the walk sends `Terminated(p)` to `w` exactly when `w` is in the snapshot and was found running at its
    turn; nothing the environment does in between changes that -/
theorem notifyAll_count (p w : Nat) (ws : List Pid) (envs : List (List Env)) (s : Sys)
    (hnd : (ws.map (·.id)).Nodup) :
    terminatedCount (notifyAll p ws envs s).log w p
      = terminatedCount s.log w p + hit (runningAtTurn p w ws envs s) := by
  induction ws generalizing envs s with
  | nil => simp [notifyAll, runningAtTurn, hit]
  | cons x ws ih =>
    simp only [List.map_cons, List.nodup_cons] at hnd
    simp only [notifyAll, runningAtTurn]
    have hlog : (applyEnvs s (envs.headD [])).log = s.log := envs_log _ _
    generalize applyEnvs s (envs.headD []) = s1 at hlog ⊢
    rw [ih _ _ hnd.2, notify_log, hlog]
    by_cases hx : x.id = w
    · subst hx
      simp only [runningAtTurn_none p x.id ws _ _ hnd.1, if_true]
      by_cases hr : s1.isRunning x.id = true
      · simp [hr, count_append, hit]
      · have : s1.isRunning x.id = false := by simpa using hr
        simp [this, hit]
    · simp only [hx, if_false]
      by_cases hr : s1.isRunning x.id = true
      · simp only [hr, if_true, count_append]
        have : ¬ (Ev.terminated x.id p = Ev.terminated w p) := by
          intro h; injection h with h1 _; exact hx h1
        simp [this]
      · simp [hr]

theorem mem_aget {α : Type} (l : List (Nat × α)) (e : Nat × α) (hk : (akeys l).Nodup) (he : e ∈ l) :
    aget e.1 l = some e.2 := by
  induction l with
  | nil => simp at he
  | cons f l ih =>
    simp only [akeys, List.map_cons, List.nodup_cons] at hk
    rcases List.mem_cons.mp he with rfl | he'
    · simp [aget_cons]
    · have hne : ¬ f.1 = e.1 := by
        intro h'
        apply hk.1
        rw [h']
        exact List.mem_map_of_mem (f := (·.1)) he'
      simp only [aget_cons, hne, if_false]
      exact ih hk.2 he'

/-- every node's `watchers` is a map (distinct keys) -/
def WatchersNodup (t : Tree) : Prop := ∀ k n, aget k t.pids = some n → (akeys n.watchers).Nodup

theorem watchers_snapshot_nodup (t : Tree) (p : Nat) (ws : List Pid) (h : WF t) (hn : WatchersNodup t)
    (hs : t.watchers p = some ws) : (ws.map (·.id)).Nodup := by
  unfold Tree.watchers at hs
  split at hs
  · simp at hs
  · obtain ⟨n, hn0, rfl⟩ := Option.map_eq_some_iff.mp hs
    have hk := hn p n hn0
    have hv := h.wval p n
    -- the stored PID under key k has id k, so the ids of the values are the keys
    have : (n.watchers.map (·.2)).map (·.id) = akeys n.watchers := by
      simp only [akeys, List.map_map]
      apply List.map_congr_left
      intro e he
      simp only [Function.comp]
      -- e ∈ n.watchers, keys nodup ⇒ aget e.1 = some e.2
      have hget : aget e.1 n.watchers = some e.2 := mem_aget n.watchers e hk he
      exact hv e.1 e.2 hn0 hget
    rw [this]
    exact hk

end GoaktVerif.Model.C10

namespace GoaktVerif.Model.C10
open GoaktVerif.Model.C09

theorem wn_modNode (t : Tree) (id : Nat) (f : Node → Node)
    (hf : ∀ n, (akeys n.watchers).Nodup → (akeys (f n).watchers).Nodup) (h : WatchersNodup t) :
    WatchersNodup (t.modNode id f) := by
  intro k n hk
  rw [aget_modNode] at hk
  split at hk
  · obtain ⟨n0, hn0, rfl⟩ := Option.map_eq_some_iff.mp hk
    exact hf n0 (h k n0 hn0)
  · exact h k n hk

theorem wn_same (f : Node → Node) (hf : ∀ n, (f n).watchers = n.watchers) :
    ∀ n, (akeys n.watchers).Nodup → (akeys (f n).watchers).Nodup := fun n h => by rw [hf]; exact h

theorem wn_removeWatcher (t : Tree) (e w : Pid) (h : WatchersNodup t) : WatchersNodup (t.removeWatcher e w) := by
  unfold Tree.removeWatcher
  apply wn_modNode
  · intro n hn; exact nodup_adel _ _ hn
  · exact wn_modNode _ _ _ (wn_same _ (fun _ => rfl)) h

theorem wn_removeDescendant (t : Tree) (a c : Nat) (h : WatchersNodup t) : WatchersNodup (t.removeDescendant a c) :=
  wn_modNode _ _ _ (wn_same _ (fun _ => rfl)) h

theorem wn_addWatcher (t : Tree) (p w : Pid) (h : WatchersNodup t) : WatchersNodup (t.addWatcher p w) := by
  unfold Tree.addWatcher
  split
  · exact h
  split
  · exact h
  apply wn_modNode
  · exact wn_same _ (fun _ => rfl)
  · exact wn_modNode _ _ _ (fun n hn => nodup_aset _ _ _ hn) h

theorem wn_attach (t : Tree) (a p : Pid) (h : WatchersNodup t) : WatchersNodup (t.attach a p).1 := by
  unfold Tree.attach
  split
  · exact h
  split
  · exact h
  split
  · exact h
  split
  · exact h
  apply wn_modNode
  · exact fun n hn => nodup_aset _ _ _ hn
  apply wn_modNode
  · exact wn_same _ (fun _ => rfl)
  apply wn_modNode
  · exact wn_same _ (fun _ => rfl)
  apply wn_modNode
  · exact wn_same _ (fun _ => rfl)
  exact h

theorem wn_addRoot (t : Tree) (p : Pid) (h : WatchersNodup t) : WatchersNodup (t.addRoot p).1 := by
  unfold Tree.addRoot
  split
  · exact h
  split
  · exact h
  split
  · exact h
  intro k n hk
  simp only [aget_aset] at hk
  split at hk
  · simp only [Option.some.injEq] at hk; subst hk; simp [akeys]
  · exact h k n hk

theorem wn_addNode (t : Tree) (a p : Pid) (h : WatchersNodup t) : WatchersNodup (t.addNode a p).1 := by
  unfold Tree.addNode
  split
  · exact h
  split
  · exact h
  split
  · exact h
  intro k n hk
  simp only [aget_aset] at hk
  split at hk
  · simp only [Option.some.injEq] at hk; subst hk; simp [akeys]
  · have h2 : WatchersNodup ((t.modNode a.id (Node.setDesc p.id t.next)).modNode a.id (Node.setWatchee p.id p)) := by
      apply wn_modNode
      · exact wn_same _ (fun _ => rfl)
      apply wn_modNode
      · exact wn_same _ (fun _ => rfl)
      exact h
    exact h2 k n hk

theorem wn_removeNode (t : Tree) (p : Ptr) (h : WatchersNodup t) : WatchersNodup (t.removeNode p) := by
  cases hl : t.live p with
  | none => rw [removeNode_of_dead t p hl]; exact h
  | some n =>
    intro k m hk
    rw [aget_removeNode t p n hl] at hk
    split at hk
    · simp at hk
    · obtain ⟨m0, hm0, rfl⟩ := Option.map_eq_some_iff.mp hk
      rw [scrub_watchers]
      split
      · exact nodup_adel _ _ (h k m0 hm0)
      · exact h k m0 hm0

theorem wn_foldl (l : List Ptr) (t : Tree) (h : WatchersNodup t) : WatchersNodup (l.foldl Tree.removeNode t) := by
  induction l generalizing t with
  | nil => exact h
  | cons q l ih => exact ih _ (wn_removeNode t q h)

theorem wn_deleteNode (t : Tree) (p : Pid) (h : WatchersNodup t) : WatchersNodup (t.deleteNode p) := by
  unfold Tree.deleteNode
  split
  · exact h
  split
  · exact h
  · exact wn_foldl _ t h

theorem wn_step (t : Tree) (o : Op) (h : WatchersNodup t) : WatchersNodup (t.step o).1 := by
  cases o with
  | addRoot p => exact wn_addRoot t p h
  | addNode a p => exact wn_addNode t a p h
  | attach a p => exact wn_attach t a p h
  | addOrAttach a p =>
    simp only [Tree.step, Tree.addOrAttach]
    split
    · exact h
    split
    · exact wn_attach t a p h
    · exact wn_addNode t a p h
  | addWatcher p w => exact wn_addWatcher t p w h
  | removeWatcher e w => exact wn_removeWatcher t e w h
  | removeDescendant a c => exact wn_removeDescendant t a c h
  | deleteNode p => exact wn_deleteNode t p h
  | reset => intro k n hk; simp [Tree.step, Tree.reset, Tree.empty] at hk

theorem wn_run (ops : List Op) (t : Tree) (h : WatchersNodup t) : WatchersNodup (t.run ops) := by
  induction ops generalizing t with
  | nil => exact h
  | cons o ops ih => exact ih _ (wn_step t o h)

theorem wn_empty : WatchersNodup Tree.empty := by
  intro k n hk; simp [Tree.empty] at hk

end GoaktVerif.Model.C10

/-
C06 helper lemmas: the inductive invariant behind `C06_partial`.
-/
import GoaktVerif.Model.C06

namespace GoaktVerif.C06
open GoaktVerif.Model.C06 GoaktVerif.Spec.C06

/-! ### the ghost monitor is the monitor of the ghost log (all schedules) -/

theorem emit_mon (c : Cfg) (e : Ev) (h : c.mon = monOf c.log) : (emit c e).mon = monOf (emit c e).log := by
  simp [emit, monOf, h]

theorem csStep_mon (c : Cfg) (h : Holder) (hm : c.mon = monOf c.log) :
    (csStep c h).mon = monOf (csStep c h).log := by
  unfold csStep
  split <;> (try split) <;> (try split) <;> simp_all [emit, monOf, resetFlags]

theorem step_mon (c : Cfg) (a : Nat) (hm : c.mon = monOf c.log) : (step c a).mon = monOf (step c a).log := by
  cases a with
  | zero =>
    simp only [step, wStep]
    split
    · split <;> simp_all
    · simp_all
    · split
      · simp_all
      · split
        · split <;> simp_all [emit, monOf]
        · simp_all
    · simp_all [emit, monOf]
    · split <;> simp_all [acquire]
    · split
      · exact hm
      · rename_i h _
        split
        · have := csStep_mon c h hm
          split <;> simp_all
        · exact hm
  | succ k =>
    simp only [step, tStep]
    split
    all_goals (try (simp only [setT]))
    · exact hm
    · split <;> simp_all
    · split <;> simp_all
    · split <;> simp_all
    · split <;> simp_all [acquire]
    · split
      · exact hm
      · rename_i h _
        split
        · have := csStep_mon c h hm
          split <;> simp_all [setT]
        · exact hm
    · split <;> simp_all
    · split <;> simp_all
    · split <;> simp_all
    · split <;> simp_all
    · simp_all
    · simp_all [emit, monOf]
    · simp_all [emit, monOf]
    · simp_all

theorem run_mon (c : Cfg) (s : List Nat) (hm : c.mon = monOf c.log) : (run c s).mon = monOf (run c s).log := by
  induction s generalizing c with
  | nil => exact hm
  | cons a s ih => exact ih _ (step_mon c a hm)

end GoaktVerif.C06

/-
C48: what each public operation of the TTL map does to the invariant and to the abstraction.
-/
import GoaktVerif.Lemmas.C48

namespace GoaktVerif.C48
open GoaktVerif.Model.C48

/-- the value a lookup yields from an abstract entry when the clock reads `now` -/
def liveVal (now : Int) : Option (Int × Int) → Option Int
  | some (v, e) => if now < e then some v else none
  | none => none

/-- `a` is `b`, or `a` is absent and `b` is an entry that is expired at `now` -/
def DropsExpired (now : Int) (a b : Option (Int × Int)) : Prop :=
  a = b ∨ (a = none ∧ ∃ v e, b = some (v, e) ∧ e ≤ now)

theorem DropsExpired.refl (now : Int) (a : Option (Int × Int)) : DropsExpired now a a := Or.inl rfl

/-! ### Set -/

/-- the first half of `Set` (before evict/compact): insert or refresh in place -/
def setCore (now : Int) (k : Nat) (v : Int) (s : TTL) : TTL :=
  match s.items.find k with
  | some idx => { s with order := s.order.modify idx (fun e => { e with val := v, exp := now + s.ttl }) }
  | none => { s with items := s.items.put k s.order.length, order := s.order ++ [⟨k, v, now + s.ttl⟩] }

theorem set_eq (now : Int) (k : Nat) (v : Int) (s : TTL) :
    Model.C48.set now k v s = maybeCompact (evict now (setCore now k v s)) := by
  unfold Model.C48.set setCore
  cases s.items.find k <;> rfl

theorem setCore_ttl (now : Int) (k : Nat) (v : Int) (s : TTL) : (setCore now k v s).ttl = s.ttl := by
  unfold setCore; cases s.items.find k <;> rfl

theorem setCore_spec (now : Int) (k : Nat) (v : Int) (s : TTL) (hi : Inv s) :
    Inv (setCore now k v s) ∧
    ∀ k', abs (setCore now k v s) k' = if k' = k then some (v, now + s.ttl) else abs s k' := by
  unfold setCore
  cases hf : s.items.find k with
  | some idx =>
    obtain ⟨hle, e, he, hke⟩ := hi.slot k idx hf
    simp only
    constructor
    · refine ⟨hi.nodup, by simpa using hi.head_le, ?_⟩
      intro k0 i h0
      obtain ⟨hle0, e0, he0, hk0⟩ := hi.slot k0 i h0
      refine ⟨hle0, ?_⟩
      by_cases hii : idx = i
      · subst hii
        rw [List.getElem?_modify_eq, he0]
        exact ⟨_, rfl, hk0⟩
      · rw [List.getElem?_modify_ne _ _ hii]
        exact ⟨e0, he0, hk0⟩
    · intro k'
      simp only [abs]
      by_cases hk : k' = k
      · subst hk
        simp only [hf, List.getElem?_modify_eq, if_true, he]
        rfl
      · simp only [hk, if_false]
        cases hf' : s.items.find k' with
        | none => rfl
        | some i =>
          have hne : idx ≠ i := by
            intro heq; subst heq
            exact hk (slot_inj hi.slot hf' hf)
          simp only [List.getElem?_modify_ne _ _ hne]
  | none =>
    simp only
    constructor
    · refine ⟨nodup_put _ _ hi.nodup, by simp only [List.length_append, List.length_singleton]; have := hi.head_le; omega, ?_⟩
      intro k0 i h0
      simp only at h0 ⊢
      rw [find_put] at h0
      by_cases hk : k0 = k
      · simp only [hk, if_true, Option.some.injEq] at h0
        subst h0
        refine ⟨hi.head_le, ⟨k, v, now + s.ttl⟩, by simp, hk.symm⟩
      · simp only [hk, if_false] at h0
        obtain ⟨hle0, e0, he0, hk0⟩ := hi.slot k0 i h0
        refine ⟨hle0, e0, ?_, hk0⟩
        have hlt : i < s.order.length := by
          rcases Nat.lt_or_ge i s.order.length with h | h
          · exact h
          · rw [List.getElem?_eq_none h] at he0; cases he0
        rw [List.getElem?_append_left hlt]; exact he0
    · intro k'
      simp only [abs, find_put]
      by_cases hk : k' = k
      · simp [hk]
      · simp only [hk, if_false]
        cases hf' : s.items.find k' with
        | none => rfl
        | some i =>
          obtain ⟨_, e0, he0, _⟩ := hi.slot k' i hf'
          have hlt : i < s.order.length := by
            rcases Nat.lt_or_ge i s.order.length with h | h
            · exact h
            · rw [List.getElem?_eq_none h] at he0; cases he0
          simp only [List.getElem?_append_left hlt]

/-- `Set`: invariant kept; afterwards every key is what a plain map update gives, except that
    entries already expired at `now` may have been dropped (never a live one, never a revival) -/
theorem set_spec (now : Int) (k : Nat) (v : Int) (s : TTL) (hi : Inv s) :
    Inv (Model.C48.set now k v s) ∧ (Model.C48.set now k v s).ttl = s.ttl ∧
    ∀ k', DropsExpired now (abs (Model.C48.set now k v s) k') (if k' = k then some (v, now + s.ttl) else abs s k') := by
  rw [set_eq]
  obtain ⟨hi1, ha1⟩ := setCore_spec now k v s hi
  have hi2 := inv_evict now _ hi1
  obtain ⟨hi3, ha3⟩ := compact_spec _ hi2
  refine ⟨hi3, by rw [maybeCompact_ttl, evict_ttl, setCore_ttl], ?_⟩
  intro k'
  rw [ha3 k', ← ha1 k']
  exact abs_evict now _ hi1 k'

/-! ### Get -/

theorem get_spec (now : Int) (k : Nat) (s : TTL) (hi : Inv s) :
    Inv (Model.C48.get now k s).2 ∧ (Model.C48.get now k s).2.ttl = s.ttl ∧
    (Model.C48.get now k s).1 = liveVal now (abs s k) ∧
    ∀ k', DropsExpired now (abs (Model.C48.get now k s).2 k') (abs s k') := by
  unfold Model.C48.get
  cases hf : s.items.find k with
  | none =>
    simp only
    exact ⟨hi, trivial, by simp [abs, hf, liveVal], fun _ => Or.inl rfl⟩
  | some idx =>
    obtain ⟨hle, e, he, hke⟩ := hi.slot k idx hf
    simp only [he]
    by_cases hl : now < e.exp
    · simp only [hl, if_true]
      exact ⟨hi, trivial, by simp [abs, hf, he, liveVal, hl], fun _ => Or.inl rfl⟩
    · simp only [hl, if_false]
      refine ⟨⟨nodup_del _ hi.nodup, hi.head_le, ?_⟩, trivial, by simp [abs, hf, he, liveVal, hl], ?_⟩
      · intro k0 i h0
        simp only at h0
        rw [find_del] at h0
        split at h0
        · cases h0
        · exact hi.slot k0 i h0
      · intro k'
        simp only [abs, find_del]
        by_cases hk : k' = k
        · subst hk
          right
          simp only [if_true, hf, he, Option.map_some]
          exact ⟨trivial, e.val, e.exp, rfl, by omega⟩
        · left; simp only [hk, if_false]

/-! ### Delete, Reset -/

theorem delete_spec (k : Nat) (s : TTL) (hi : Inv s) :
    Inv (delete k s) ∧ (delete k s).ttl = s.ttl ∧
    ∀ k', abs (delete k s) k' = if k' = k then none else abs s k' := by
  unfold delete
  refine ⟨⟨nodup_del _ hi.nodup, hi.head_le, ?_⟩, rfl, ?_⟩
  · intro k0 i h0
    simp only at h0
    rw [find_del] at h0
    split at h0
    · cases h0
    · exact hi.slot k0 i h0
  · intro k'
    simp only [abs, find_del]
    by_cases hk : k' = k <;> simp [hk]

theorem reset_spec (s : TTL) :
    Inv (reset s) ∧ (reset s).ttl = s.ttl ∧ ∀ k', abs (reset s) k' = none := by
  unfold reset
  refine ⟨⟨by simp [Keys], by simp, ?_⟩, rfl, ?_⟩
  · intro k i h; simp [Items.find] at h
  · intro k'; simp [abs, Items.find]

/-! ### ActiveLen -/

theorem find_filter {m : Items} (hn : (Keys m).Nodup) (p : Nat × Nat → Bool) (k : Nat) :
    Items.find (m.filter p) k = match m.find k with
      | some i => if p (k, i) then some i else none
      | none => none := by
  have hn' : (Keys (m.filter p)).Nodup := by
    simp only [Keys]
    exact List.Nodup.sublist (List.Sublist.map _ List.filter_sublist) hn
  cases hf : m.find k with
  | none =>
    simp only
    cases hf' : Items.find (m.filter p) k with
    | none => rfl
    | some j =>
      have := find_of_mem hn (List.mem_filter.mp (mem_of_find hf')).1
      rw [hf] at this; cases this
  | some i =>
    simp only
    by_cases hp : p (k, i) = true
    · simp only [hp, if_true]
      exact find_of_mem hn' (List.mem_filter.mpr ⟨mem_of_find hf, hp⟩)
    · simp only [hp]
      cases hf' : Items.find (m.filter p) k with
      | none => rfl
      | some j =>
        have hm := List.mem_filter.mp (mem_of_find hf')
        have := find_of_mem hn hm.1
        rw [hf] at this
        cases this
        exact absurd hm.2 hp

theorem activeLen_spec (now : Int) (s : TTL) (hi : Inv s) :
    Inv (activeLen now s).2 ∧ (activeLen now s).2.ttl = s.ttl ∧
    (∀ k', DropsExpired now (abs (activeLen now s).2 k') (abs s k')) ∧
    (∀ k', (liveVal now (abs (activeLen now s).2 k')) = liveVal now (abs s k')) := by
  unfold activeLen
  simp only
  have hfind := find_filter hi.nodup (liveSlot now s.order)
  have habs : ∀ k', DropsExpired now (abs { s with items := s.items.filter (liveSlot now s.order) } k') (abs s k') := by
    intro k'
    simp only [abs, hfind k']
    cases hf : s.items.find k' with
    | none => exact Or.inl rfl
    | some i =>
      obtain ⟨_, e, he, _⟩ := hi.slot k' i hf
      simp only [liveSlot, he]
      by_cases hl : now < e.exp
      · left; simp [hl, he]
      · right; simp only [hl, decide_false, Bool.false_eq_true, if_false, Option.map_some]
        exact ⟨trivial, e.val, e.exp, rfl, by omega⟩
  refine ⟨⟨?_, hi.head_le, ?_⟩, trivial, habs, ?_⟩
  · simp only [Keys]
    exact List.Nodup.sublist (List.Sublist.map _ List.filter_sublist) hi.nodup
  · intro k0 i h0
    simp only at h0
    rw [hfind] at h0
    cases hf : s.items.find k0 with
    | none => rw [hf] at h0; cases h0
    | some j =>
      rw [hf] at h0
      simp only at h0
      split at h0
      · cases h0; exact hi.slot k0 _ hf
      · cases h0
  · intro k'
    rcases habs k' with h | ⟨h, v, e, hb, hle⟩
    · rw [h]
    · rw [h, hb]
      simp only [liveVal]
      have : ¬ now < e := by omega
      simp [this]

end GoaktVerif.C48

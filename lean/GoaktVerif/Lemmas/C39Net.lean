/-
C39, generic part 2: the replication invariant.  For one key and a value type whose operations
satisfy `Laws` (merge is the join of cores; every allowed mutator is a DELTA-MUTATOR: the new core
is the join of the old core and of the shipped delta's core), every replica's stored core is the
join of the deltas it has seen — in the network of `Model/C39.lean`, built from the replicator
handlers of `Model/C41.lean`.
-/
import GoaktVerif.Lemmas.C39
import GoaktVerif.Lemmas.C41
import GoaktVerif.Model.C39

namespace GoaktVerif.C39
open GoaktVerif.Model.C41 GoaktVerif.Model.C39 GoaktVerif.C41

variable {V C : Type}

/-- what the generic theorem needs of a CRDT type (`Ok` = the states that occur: right type,
    no pending delta, well-formed core; `Mut f s` = `f` is an allowed Modify closure at state `s`) -/
structure Laws (ops : Ops V) (wire : V → Option V) (init : V) (S : Semi C) (core : V → C)
    (Ok : V → Prop) (Mut : (V → V) → V → Prop) : Prop where
  ok_wf : ∀ v, Ok v → S.WF (core v)
  ok_init : Ok init
  core_init : core init = S.bot
  merge_ok : ∀ a b, Ok a → Ok b → Ok (ops.merge a b) ∧ core (ops.merge a b) = S.join (core a) (core b)
  /-- delta-mutator law: the update ships a delta that encodes, and stored core = old core ⊔ delta core -/
  upd_some : ∀ f s d, Mut f s → Ok s → ops.delta (f s) = some d →
    ∃ d', wire d = some d' ∧ Ok d' ∧ Ok (ops.reset (f s)) ∧ core (ops.reset (f s)) = S.join (core s) (core d')
  upd_none : ∀ f s, Mut f s → Ok s → ops.delta (f s) = none → Ok (ops.reset (f s)) ∧ core (ops.reset (f s)) = core s
  /-- a stored value survives the codec with its core (anti-entropy full states) -/
  wire_ok : ∀ v v', Ok v → wire v = some v' → Ok v' ∧ core v' = core v

section
variable (ops : Ops V) (wire : V → Option V) (init : V) (S : Semi C) (core : V → C)
  (Ok : V → Prop) (Mut : (V → V) → V → Prop) (k dt : Nat)

/-- core of logged delta `j` -/
def coreAt (log : List (DeltaMsg V)) (j : Nat) : C :=
  match log[j]? with
  | some d => core d.data
  | none => S.bot

/-- ghost: the deltas seen by each replica, in arrival order (own deltas included) -/
def arrUpd (w : FNet V) (arr : Nat → List Nat) (i : Nat) (w' : FNet V) : Nat → List Nat :=
  fun x => if x = i ∧ w'.log.length > w.log.length then arr x ++ [w.log.length] else arr x

def arrDlv (w : FNet V) (arr : Nat → List Nat) (i j : Nat) : Nat → List Nat :=
  fun x => match w.log[j]? with
    | some d => if x = i ∧ d.origin ≠ i then arr x ++ [j] else arr x
    | none => arr x

/-- ghost: a full state (one that exists and encodes) carries everything its sender has seen -/
def arrSync (w : FNet V) (arr : Nat → List Nat) (i i' : Nat) : Nat → List Nat :=
  fun x => if x = i ∧ ((aget (w.reps i').store k).bind wire).isSome then arr x ++ arr i' else arr x

/-- reachable (network, seen-lists): updates of key `k` by allowed mutators, deliveries of any
    logged delta to any replica in any order, any number of times, full-state merges between any
    two replicas at any time -/
inductive Reach : FNet V → (Nat → List Nat) → Prop where
  | init : Reach FNet.init (fun _ => [])
  | upd (w arr) (i : Nat) (f : V → V) : Reach w arr → Mut f ((aget (w.reps i).store k).getD init) →
      Reach (w.step ops wire (.upd i k dt init f)) (arrUpd w arr i (w.step ops wire (.upd i k dt init f)))
  | dlv (w arr) (i j : Nat) : Reach w arr → Reach (w.step ops wire (.dlv i j)) (arrDlv w arr i j)
  | sync (w arr) (i i' : Nat) : Reach w arr → Reach (w.step ops wire (.sync i i' k dt)) (arrSync wire k w arr i i')

structure Inv (w : FNet V) (arr : Nat → List Nat) : Prop where
  ids : ∀ i, (w.reps i).nodeID = i ∧ (w.reps i).tombs = []
  logok : ∀ j d, w.log[j]? = some d → Ok d.data ∧ d.key = k ∧ j ∈ arr d.origin
  bound : ∀ i, ∀ j ∈ arr i, j < w.log.length
  val : ∀ i, match aget (w.reps i).store k with
    | none => arr i = []
    | some v => Ok v ∧ core v = J S ((arr i).map (coreAt S core w.log))

end

variable {ops : Ops V} {wire : V → Option V} {init : V} {S : Semi C} {core : V → C}
  {Ok : V → Prop} {Mut : (V → V) → V → Prop} {k dt : Nat}

theorem coreAt_append (log extra : List (DeltaMsg V)) (j : Nat) (h : j < log.length) :
    coreAt S core (log ++ extra) j = coreAt S core log j := by
  unfold coreAt
  rw [List.getElem?_append_left h]

theorem map_coreAt_append (log extra : List (DeltaMsg V)) (l : List Nat) (h : ∀ j ∈ l, j < log.length) :
    l.map (coreAt S core (log ++ extra)) = l.map (coreAt S core log) := by
  apply List.map_congr_left
  intro j hj
  exact coreAt_append log extra j (h j hj)

theorem J_snoc (l : List C) (x : C) (hl : ∀ y ∈ l, S.WF y) (hx : S.WF x) :
    J S (l ++ [x]) = S.join (J S l) x := by
  rw [J_append S l [x] hl (by intro y hy; simp at hy; subst hy; exact hx)]
  congr 1
  simp [J, S.bot_join x hx]

/-- the update handler on a replica without tombstones -/
theorem update_store (r : Rep V) (f : V → V) (h : r.tombs = []) :
    let res := Model.C41.step ops r (.update k dt init f)
    let cur := (aget r.store k).getD init
    res.1.nodeID = r.nodeID ∧ res.1.tombs = [] ∧ aget res.1.store k = some (ops.reset (f cur))
    ∧ res.2 = (match ops.delta (f cur) with
        | some d => [Out.pubDelta ⟨r.nodeID, k, dt, d⟩]
        | none => []) ++ [Out.ack] := by
  simp only [Model.C41.step, handleUpdate, h, ahas, aget, List.lookup, Option.isSome_none, Bool.false_eq_true,
    ↓reduceIte]
  refine ⟨trivial, trivial, ?_, rfl⟩
  have := aget_aset r.store k (ops.reset (f ((List.lookup k r.store).getD init))) k
  simpa [aget] using this

theorem delta_store (r : Rep V) (d : DeltaMsg V) (h : r.tombs = []) (hk : d.key = k) :
    let r' := (Model.C41.step ops r (.delta d)).1
    r'.nodeID = r.nodeID ∧ r'.tombs = [] ∧
    aget r'.store k = (if d.origin = r.nodeID then aget r.store k else
      some (match aget r.store k with
        | none => d.data
        | some c => ops.merge c d.data)) := by
  simp only [Model.C41.step, handleDelta]
  split
  · exact ⟨rfl, h, rfl⟩
  · subst hk
    simp only [absorb, h, ahas, aget, List.lookup, Option.isSome_none, Bool.false_eq_true, ↓reduceIte]
    cases hs : List.lookup d.key r.store with
    | none =>
      refine ⟨rfl, rfl, ?_⟩
      have := aget_aset r.store d.key d.data d.key
      simpa [aget] using this
    | some c =>
      refine ⟨rfl, rfl, ?_⟩
      have := aget_aset r.store d.key (ops.merge c d.data) d.key
      simpa [aget] using this

theorem inv_init (L : Laws ops wire init S core Ok Mut) :
    Inv S core Ok k (FNet.init : FNet V) (fun _ => []) where
  ids := fun i => ⟨rfl, rfl⟩
  logok := by intro j d h; simp [FNet.init] at h
  bound := by intro i j h; cases h
  val := by intro i; simp [FNet.init, Rep.init, aget]

theorem wf_map (w : FNet V) (arr : Nat → List Nat) (L : Laws ops wire init S core Ok Mut)
    (h : Inv S core Ok k w arr) (i : Nat) : ∀ y ∈ (arr i).map (coreAt S core w.log), S.WF y := by
  intro y hy
  obtain ⟨j, hj, rfl⟩ := List.mem_map.mp hy
  have hb := h.bound i j hj
  unfold coreAt
  have : w.log[j]? = some w.log[j] := List.getElem?_eq_getElem hb
  rw [this]
  exact L.ok_wf _ (h.logok j _ this).1

theorem inv_upd (L : Laws ops wire init S core Ok Mut) (w : FNet V) (arr : Nat → List Nat)
    (h : Inv S core Ok k w arr) (i : Nat) (f : V → V)
    (hm : Mut f ((aget (w.reps i).store k).getD init)) :
    Inv S core Ok k (w.step ops wire (.upd i k dt init f)) (arrUpd w arr i (w.step ops wire (.upd i k dt init f))) := by
  have hu := update_store (ops := ops) (k := k) (dt := dt) (init := init) (w.reps i) f (h.ids i).2
  simp only at hu
  obtain ⟨hid, htomb, hstore, hout⟩ := hu
  -- the current value and what is known about it
  have hcur : Ok ((aget (w.reps i).store k).getD init) ∧
      core ((aget (w.reps i).store k).getD init) = J S ((arr i).map (coreAt S core w.log)) := by
    have hv := h.val i
    cases hs : aget (w.reps i).store k with
    | none => rw [hs] at hv; simp only at hv; simp [hv, L.ok_init, L.core_init, J]
    | some v => rw [hs] at hv; simpa using hv
  have hreps : ∀ x, (w.step ops wire (.upd i k dt init f)).reps x
      = if x = i then (Model.C41.step ops (w.reps i) (.update k dt init f)).1 else w.reps x := by
    intro x; simp [FNet.step, setRep]
  cases hd : ops.delta (f ((aget (w.reps i).store k).getD init)) with
  | none =>
    have hlog : (w.step ops wire (.upd i k dt init f)).log = w.log := by
      simp [FNet.step, hout, hd, onWire]
    obtain ⟨hok, hcore⟩ := L.upd_none f _ hm hcur.1 hd
    have harr : arrUpd w arr i (w.step ops wire (.upd i k dt init f)) = arr := by
      funext x; simp [arrUpd, hlog]
    rw [harr]
    refine ⟨?_, ?_, ?_, ?_⟩
    · intro x
      rw [hreps]
      by_cases hx : x = i
      · subst hx; simp [hid, htomb, (h.ids x).1]
      · simpa [hx] using h.ids x
    · intro j d hj; rw [hlog] at hj; exact h.logok j d hj
    · intro x j hj; rw [hlog]; exact h.bound x j hj
    · intro x
      rw [hreps, hlog]
      by_cases hx : x = i
      · subst hx
        simp only [↓reduceIte, hstore]
        exact ⟨hok, hcore.trans hcur.2⟩
      · simp only [hx, ↓reduceIte]
        exact h.val x
  | some d =>
    obtain ⟨d', hw, hokd, hok, hcore⟩ := L.upd_some f _ d hm hcur.1 hd
    have hlog : (w.step ops wire (.upd i k dt init f)).log = w.log ++ [⟨(w.reps i).nodeID, k, dt, d'⟩] := by
      simp [FNet.step, hout, hd, onWire, hw]
    have hlen : (w.step ops wire (.upd i k dt init f)).log.length > w.log.length := by rw [hlog]; simp
    have harr : ∀ x, arrUpd w arr i (w.step ops wire (.upd i k dt init f)) x
        = if x = i then arr x ++ [w.log.length] else arr x := by
      intro x; simp [arrUpd, hlen]
    refine ⟨?_, ?_, ?_, ?_⟩
    · intro x
      rw [hreps]
      by_cases hx : x = i
      · subst hx; simp [hid, htomb, (h.ids x).1]
      · simpa [hx] using h.ids x
    · intro j e hj
      rw [hlog] at hj
      by_cases hjl : j < w.log.length
      · rw [List.getElem?_append_left hjl] at hj
        obtain ⟨a, b, c⟩ := h.logok j e hj
        refine ⟨a, b, ?_⟩
        rw [harr]; split
        · exact List.mem_append_left _ (by simpa [*] using c)
        · exact c
      · have hjeq : j = w.log.length := by
          have := (List.getElem?_eq_some_iff.mp hj).1
          simp at this; omega
        subst hjeq
        simp at hj
        subst hj
        refine ⟨hokd, rfl, ?_⟩
        rw [harr]; simp [(h.ids i).1]
    · intro x j hj
      rw [hlog, harr] at *
      simp only [List.length_append, List.length_singleton]
      split at hj
      · rcases List.mem_append.mp hj with hj | hj
        · have := h.bound x j hj; omega
        · simp at hj; omega
      · have := h.bound x j hj; omega
    · intro x
      rw [harr, hlog, hreps]
      by_cases hx : x = i
      · subst hx
        simp only [↓reduceIte, hstore]
        refine ⟨hok, ?_⟩
        rw [List.map_append, map_coreAt_append _ _ _ (h.bound x)]
        have hnew : coreAt S core (w.log ++ [⟨(w.reps x).nodeID, k, dt, d'⟩]) w.log.length = core d' := by
          simp [coreAt]
        rw [List.map_singleton, hnew, J_snoc _ _ (wf_map w arr L h x) (L.ok_wf _ hokd), hcore, hcur.2]
      · have hv := h.val x
        simp only [hx, ↓reduceIte]
        cases hs : aget (w.reps x).store k with
        | none => rw [hs] at hv; simpa using hv
        | some v =>
          rw [hs] at hv
          simp only at hv ⊢
          rw [map_coreAt_append _ _ _ (h.bound x)]
          exact hv

theorem inv_dlv (L : Laws ops wire init S core Ok Mut) (w : FNet V) (arr : Nat → List Nat)
    (h : Inv S core Ok k w arr) (i j : Nat) :
    Inv S core Ok k (w.step ops wire (.dlv i j)) (arrDlv w arr i j) := by
  cases hj : w.log[j]? with
  | none =>
    have h1 : w.step ops wire (.dlv i j) = w := by simp [FNet.step, hj]
    have h2 : arrDlv w arr i j = arr := by funext x; simp [arrDlv, hj]
    rw [h1, h2]; exact h
  | some d =>
    obtain ⟨hokd, hkey, horig⟩ := h.logok j d hj
    have hds := delta_store (ops := ops) (k := k) (w.reps i) d (h.ids i).2 hkey
    simp only at hds
    obtain ⟨hid, htomb, hstore⟩ := hds
    have hlog : (w.step ops wire (.dlv i j)).log = w.log := by simp [FNet.step, hj]
    have hreps : ∀ x, (w.step ops wire (.dlv i j)).reps x
        = if x = i then (Model.C41.step ops (w.reps i) (.delta d)).1 else w.reps x := by
      intro x; simp [FNet.step, hj, setRep]
    have harr : ∀ x, arrDlv w arr i j x = if x = i ∧ d.origin ≠ i then arr x ++ [j] else arr x := by
      intro x; simp [arrDlv, hj]
    have hjb : j < w.log.length := (List.getElem?_eq_some_iff.mp hj).1
    refine ⟨?_, ?_, ?_, ?_⟩
    · intro x
      rw [hreps]
      by_cases hx : x = i
      · subst hx; simp [hid, htomb, (h.ids x).1]
      · simpa [hx] using h.ids x
    · intro j' e hj'
      rw [hlog] at hj'
      obtain ⟨a, b, c⟩ := h.logok j' e hj'
      refine ⟨a, b, ?_⟩
      rw [harr]; split
      · exact List.mem_append_left _ c
      · exact c
    · intro x j' hj'
      rw [hlog]
      rw [harr] at hj'
      split at hj'
      · rcases List.mem_append.mp hj' with hj' | hj'
        · exact h.bound x j' hj'
        · simp at hj'; omega
      · exact h.bound x j' hj'
    · intro x
      rw [hreps, harr, hlog]
      by_cases hx : x = i
      · subst hx
        simp only [↓reduceIte, true_and, hstore, (h.ids x).1]
        have hv := h.val x
        by_cases ho : d.origin = x
        · simp only [ho, ↓reduceIte, ne_eq, not_true_eq_false]
          exact hv
        · simp only [ho, ↓reduceIte, ne_eq, not_false_eq_true]
          have hcj : coreAt S core w.log j = core d.data := by simp [coreAt, hj]
          cases hs : aget (w.reps x).store k with
          | none =>
            rw [hs] at hv
            simp only at hv ⊢
            refine ⟨hokd, ?_⟩
            simp [hv, hcj, J, S.bot_join _ (L.ok_wf _ hokd)]
          | some c =>
            rw [hs] at hv
            simp only at hv ⊢
            obtain ⟨hm1, hm2⟩ := L.merge_ok c d.data hv.1 hokd
            refine ⟨hm1, ?_⟩
            rw [List.map_append, List.map_singleton, hcj,
              J_snoc _ _ (wf_map w arr L h x) (L.ok_wf _ hokd), hm2, hv.2]
      · simp only [hx, false_and, ↓reduceIte]
        exact h.val x

/-- handleFullState with one entry for key `k` on a replica without tombstones -/
theorem full_store (r : Rep V) (v : V) (h : r.tombs = []) :
    let r' := (Model.C41.step ops r (.fullState [(k, dt, v)])).1
    r'.nodeID = r.nodeID ∧ r'.tombs = [] ∧
    aget r'.store k = some (match aget r.store k with
        | none => v
        | some c => ops.merge c v) := by
  simp only [Model.C41.step, List.foldl_cons, List.foldl_nil, absorb, h, ahas, aget, List.lookup,
    Option.isSome_none, Bool.false_eq_true, ↓reduceIte]
  cases hs : List.lookup k r.store with
  | none =>
    refine ⟨rfl, rfl, ?_⟩
    have := aget_aset r.store k v k
    simpa [aget] using this
  | some c =>
    refine ⟨rfl, rfl, ?_⟩
    have := aget_aset r.store k (ops.merge c v) k
    simpa [aget] using this

theorem inv_sync (L : Laws ops wire init S core Ok Mut) (w : FNet V) (arr : Nat → List Nat)
    (h : Inv S core Ok k w arr) (i i' : Nat) :
    Inv S core Ok k (w.step ops wire (.sync i i' k dt)) (arrSync wire k w arr i i') := by
  cases hs' : aget (w.reps i').store k with
  | none =>
    have h1 : w.step ops wire (.sync i i' k dt) = w := by simp [FNet.step, hs']
    have h2 : arrSync wire k w arr i i' = arr := by funext x; simp [arrSync, hs']
    rw [h1, h2]; exact h
  | some v =>
    have hvi := h.val i'
    rw [hs'] at hvi
    simp only at hvi
    cases hw : wire v with
    | none =>
      have h1 : w.step ops wire (.sync i i' k dt) = w := by simp [FNet.step, hs', hw]
      have h2 : arrSync wire k w arr i i' = arr := by funext x; simp [arrSync, hs', hw]
      rw [h1, h2]; exact h
    | some v' =>
    obtain ⟨hokv', hcv'⟩ := L.wire_ok v v' hvi.1 hw
    have hfs := full_store (ops := ops) (k := k) (dt := dt) (w.reps i) v' (h.ids i).2
    simp only at hfs
    obtain ⟨hid, htomb, hstore⟩ := hfs
    have hlog : (w.step ops wire (.sync i i' k dt)).log = w.log := by simp [FNet.step, hs', hw]
    have hreps : ∀ x, (w.step ops wire (.sync i i' k dt)).reps x
        = if x = i then (Model.C41.step ops (w.reps i) (.fullState [(k, dt, v')])).1 else w.reps x := by
      intro x; simp [FNet.step, hs', hw, setRep]
    have harr : ∀ x, arrSync wire k w arr i i' x = if x = i then arr x ++ arr i' else arr x := by
      intro x; simp [arrSync, hs', hw]
    refine ⟨?_, ?_, ?_, ?_⟩
    · intro x
      rw [hreps]
      by_cases hx : x = i
      · subst hx; simp [hid, htomb, (h.ids x).1]
      · simpa [hx] using h.ids x
    · intro j e hj
      rw [hlog] at hj
      obtain ⟨a, b, c⟩ := h.logok j e hj
      refine ⟨a, b, ?_⟩
      rw [harr]; split
      · exact List.mem_append_left _ c
      · exact c
    · intro x j hj
      rw [hlog]
      rw [harr] at hj
      split at hj
      · rcases List.mem_append.mp hj with hj | hj
        · exact h.bound x j hj
        · exact h.bound i' j hj
      · exact h.bound x j hj
    · intro x
      rw [hreps, harr, hlog]
      by_cases hx : x = i
      · subst hx
        simp only [↓reduceIte, hstore]
        have hv := h.val x
        have hJ' : core v' = J S ((arr i').map (coreAt S core w.log)) := hcv'.trans hvi.2
        cases hs : aget (w.reps x).store k with
        | none =>
          rw [hs] at hv
          simp only at hv ⊢
          refine ⟨hokv', ?_⟩
          rw [hv, List.nil_append]; exact hJ'
        | some c =>
          rw [hs] at hv
          simp only at hv ⊢
          obtain ⟨hm1, hm2⟩ := L.merge_ok c v' hv.1 hokv'
          refine ⟨hm1, ?_⟩
          rw [List.map_append, J_append S _ _ (wf_map w arr L h x) (wf_map w arr L h i'), hm2, hv.2, hJ']
      · simp only [hx, ↓reduceIte]
        exact h.val x

theorem reach_inv (L : Laws ops wire init S core Ok Mut) (w : FNet V) (arr : Nat → List Nat)
    (h : Reach ops wire init Mut k dt w arr) : Inv S core Ok k w arr := by
  induction h with
  | init => exact inv_init L
  | upd w arr i f _ hm ih => exact inv_upd L w arr ih i f hm
  | dlv w arr i j _ ih => exact inv_dlv L w arr ih i j
  | sync w arr i i' _ ih => exact inv_sync L w arr ih i i'

end GoaktVerif.C39

/-
C47: invariants of the ATOMIC-level interleaving model (`Model.C47.fstep`), valid for every
schedule, any number of threads, any clock behaviour.
-/
import GoaktVerif.Model.C47

namespace GoaktVerif.C47
open GoaktVerif.Model.C47

/-- does a thread at this pc hold a half-open token -/
def holds : Pc → Nat
  | .running tok => if tok then 1 else 0
  | .recEval tok _ => if tok then 1 else 0
  | .recToClosed tok => if tok then 1 else 0
  | .rel tok => if tok then 1 else 0
  | _ => 0

def tokens (pcs : List Pc) : Nat := (pcs.map holds).sum

theorem tokens_set (pcs : List Pc) (tid : Nat) (pc pc' : Pc) (h : pcs[tid]? = some pc) :
    tokens (pcs.set tid pc') + holds pc = tokens pcs + holds pc' := by
  induction pcs generalizing tid with
  | nil => simp at h
  | cons a rest ih =>
    cases tid with
    | zero =>
      simp only [List.getElem?_cons_zero, Option.some.injEq] at h
      subst h
      simp only [tokens, List.set_cons_zero, List.map_cons, List.sum_cons]
      omega
    | succ t =>
      simp only [List.getElem?_cons_succ] at h
      have := ih t h
      simp only [tokens, List.set_cons_succ, List.map_cons, List.sum_cons] at this ⊢
      omega

theorem holds_le_tokens (pcs : List Pc) (tid : Nat) (pc : Pc) (h : pcs[tid]? = some pc) :
    holds pc ≤ tokens pcs := by
  induction pcs generalizing tid with
  | nil => simp at h
  | cons a rest ih =>
    cases tid with
    | zero =>
      simp only [List.getElem?_cons_zero, Option.some.injEq] at h
      subst h
      simp only [tokens, List.map_cons, List.sum_cons]; omega
    | succ t =>
      simp only [List.getElem?_cons_succ] at h
      have := ih t h
      simp only [tokens, List.map_cons, List.sum_cons] at this ⊢; omega

theorem transitionTo_sem (cf : Conf) (now : Int) (t : St) (b : Br) : (transitionTo cf now t b).sem = b.sem := by
  unfold transitionTo
  split
  · rfl
  · cases t <;> rfl

theorem openToHalfOpen_sem (now : Int) (b : Br) : (openToHalfOpen now b).2.sem = b.sem := by
  unfold openToHalfOpen; split
  · rfl
  · split <;> rfl

theorem halfOpenToClosed_sem (now : Int) (b : Br) : (halfOpenToClosed now b).sem = b.sem := by
  unfold halfOpenToClosed; split <;> rfl

/-- semaphore accounting of one atomic step -/
theorem pcStep_sem (cf : Conf) (now : Int) (b b' : Br) (o : Outcome) (pc pc' : Pc)
    (h : pcStep cf now b o pc = some (b', pc')) (hle : b.sem ≤ cf.hmax) (hh : holds pc ≤ b.sem) :
    b'.sem + holds pc = b.sem + holds pc' ∧ b'.sem ≤ cf.hmax := by
  cases pc with
  | idle =>
    simp only [pcStep] at h
    cases hs : b.state <;> simp only [hs, Option.some.injEq, Prod.mk.injEq] at h <;>
      (obtain ⟨rfl, rfl⟩ := h; simp [holds, hle])
  | acqOpen =>
    simp only [pcStep] at h
    have hsem := openToHalfOpen_sem now b
    cases hr : (openToHalfOpen now b).1 <;> simp only [hr, Option.some.injEq, Prod.mk.injEq] at h <;>
      (obtain ⟨rfl, rfl⟩ := h; simp [holds, hsem, hle])
  | acqSem =>
    simp only [pcStep, trySem] at h
    by_cases hc : b.sem < cf.hmax
    · simp only [hc, if_true, Option.some.injEq, Prod.mk.injEq] at h
      obtain ⟨rfl, rfl⟩ := h
      have h0 : holds Pc.acqSem = 0 := rfl
      have h1 : holds (Pc.running true) = 1 := rfl
      rw [h0, h1]; exact ⟨by simp only, by simp only; omega⟩
    · simp only [hc, if_false, Bool.false_eq_true, Option.some.injEq, Prod.mk.injEq] at h
      obtain ⟨rfl, rfl⟩ := h
      simp [holds, hle]
  | running tok =>
    simp only [pcStep] at h
    cases o <;> simp only [Option.some.injEq, Prod.mk.injEq] at h <;>
      (obtain ⟨rfl, rfl⟩ := h; simp [holds, hle])
  | recEval tok t =>
    simp only [pcStep] at h
    split at h
    · simp only [Option.some.injEq, Prod.mk.injEq] at h; obtain ⟨rfl, rfl⟩ := h; simp [holds, hle]
    · split at h <;>
        (simp only [Option.some.injEq, Prod.mk.injEq] at h; obtain ⟨rfl, rfl⟩ := h; simp [holds, transitionTo_sem, hle])
  | recToClosed tok =>
    simp only [pcStep, Option.some.injEq, Prod.mk.injEq] at h
    obtain ⟨rfl, rfl⟩ := h
    simp [holds, halfOpenToClosed_sem, hle]
  | rel tok =>
    simp only [pcStep, Option.some.injEq, Prod.mk.injEq] at h
    obtain ⟨rfl, rfl⟩ := h
    cases tok
    · simp [holds, hle]
    · simp only [holds, if_true, release] at hh ⊢
      exact ⟨by omega, by omega⟩
  | done a => simp [pcStep] at h

/-- reachable configurations of the atomic-level system -/
inductive FReach (cf : Conf) (s0 : FSys) : FSys → Prop where
  | init : FReach cf s0 s0
  | step {s s' : FSys} (l : FLabel) : FReach cf s0 s → fstep cf s l = some s' → FReach cf s0 s'

/-- the semaphore invariant: tokens in the channel = threads holding one, never above capacity -/
def SemInv (cf : Conf) (s : FSys) : Prop := s.b.sem = tokens s.pcs ∧ s.b.sem ≤ cf.hmax

theorem semInv_step (cf : Conf) (s s' : FSys) (l : FLabel) (hi : SemInv cf s) (h : fstep cf s l = some s') :
    SemInv cf s' := by
  cases l with
  | tick d => simp only [fstep, Option.some.injEq] at h; subst h; exact hi
  | thr tid o =>
    simp only [fstep] at h
    cases hp : s.pcs[tid]? with
    | none => simp [hp] at h
    | some pc =>
      simp only [hp] at h
      cases hst : pcStep cf s.now s.b o pc with
      | none => simp [hst] at h
      | some r =>
        obtain ⟨b', pc'⟩ := r
        simp only [hst, Option.some.injEq] at h
        subst h
        have hh : holds pc ≤ s.b.sem := by rw [hi.1]; exact holds_le_tokens _ _ _ hp
        obtain ⟨h1, h2⟩ := pcStep_sem cf s.now s.b b' o pc pc' hst hi.2 hh
        have h3 := tokens_set s.pcs tid pc pc' hp
        refine ⟨?_, h2⟩
        simp only
        have := hi.1
        omega

theorem semInv_new (cf : Conf) (t0 : Int) (n : Nat) : SemInv cf (FSys.new cf t0 n) := by
  refine ⟨?_, Nat.zero_le _⟩
  simp only [FSys.new, Br.new, tokens]
  induction n with
  | zero => rfl
  | succ n ih => simp only [List.replicate_succ, List.map_cons, List.sum_cons, holds]; omega

theorem semInv_reach (cf : Conf) (t0 : Int) (n : Nat) (s : FSys)
    (h : FReach cf (FSys.new cf t0 n) s) : SemInv cf s := by
  induction h with
  | init => exact semInv_new cf t0 n
  | step l _ hs ih => exact semInv_step cf _ _ l ih hs

end GoaktVerif.C47

/-
C30 — the invariant is inductive over every step, holds initially, and implies the property.
-/
import GoaktVerif.Lemmas.C30Step

namespace GoaktVerif.C30
open GoaktVerif.Model.C30

theorem get_set {ts : List Thread} {i j : Nat} {a t' : Thread} (h : (ts.set i a)[j]? = some t') :
    (j = i ∧ t' = a) ∨ (j ≠ i ∧ ts[j]? = some t') := by
  rw [List.getElem?_set] at h
  by_cases e : i = j
  · rw [if_pos e] at h
    split at h
    · injection h with h; exact Or.inl ⟨e.symm, h.symm⟩
    · cases h
  · rw [if_neg e] at h
    exact Or.inr ⟨fun x => e x.symm, h⟩

/-- replacing thread `tid` (of node `m`) after a step whose effect is framed for `m` -/
theorem inv_replace (c : Cfg) (tid : Nat) (t t2 : Thread) (sh' : Sh) (h : Inv c) (ht : c.threads[tid]? = some t)
    (hnode : t2.node = t.node) (hf : Frame t.node c.sh sh') (hni : NodeInv sh' t.node) (hl : Loc sh' t.node t2.pc) :
    Inv { sh := sh', threads := c.threads.set tid t2 } := by
  have old : ∀ (i : Nat) (ti : Thread), (c.threads.set tid t2)[i]? = some ti →
      ∃ ti0, c.threads[i]? = some ti0 ∧ ti0.node = ti.node := by
    intro i ti hi
    rcases get_set hi with ⟨e1, e2⟩ | ⟨_, e2⟩
    · subst e1; subst e2; exact ⟨t, ht, hnode.symm⟩
    · exact ⟨ti, e2, rfl⟩
  refine ⟨?_, ?_, ?_⟩
  · intro n
    by_cases e : n = t.node
    · subst e; exact hni
    · exact nodeinv_frame (h.node n) e hf
  · intro j t' hj
    rcases get_set hj with ⟨_, e2⟩ | ⟨e1, e2⟩
    · subst e2; rw [hnode]; exact hl
    · have hne : t'.node ≠ t.node := by
        intro e
        exact e1 (h.seq j tid t' t e2 ht e)
      exact loc_frame (h.loc j t' e2) hne hf
  · intro i j ti tj hi hj e
    obtain ⟨ti0, a1, a2⟩ := old i ti hi
    obtain ⟨tj0, b1, b2⟩ := old j tj hj
    exact h.seq i j ti0 tj0 a1 b1 (by rw [a2, b2, e])

theorem step_none {fix : Bool} {c : Cfg} {tid : Nat} (ht : c.threads[tid]? = none) : step fix c tid = c := by
  simp [step, stepL, ht]

theorem step_done {fix : Bool} {c : Cfg} {tid : Nat} {t : Thread} (ht : c.threads[tid]? = some t) (hpc : t.pc = none) :
    step fix c tid = c := by
  simp [step, stepL, ht, hpc]

theorem step_pre {fix : Bool} {c : Cfg} {tid : Nat} {t : Thread} {pc : PC} (ht : c.threads[tid]? = some t)
    (hpc : t.pc = some pc) (hpre : t.pre = true) :
    step fix c tid = { c with threads := c.threads.set tid { t with pre := false } } := by
  simp [step, stepL, ht, hpc, hpre]

theorem step_exec {fix : Bool} {c : Cfg} {tid : Nat} {t : Thread} {pc : PC} (ht : c.threads[tid]? = some t)
    (hpc : t.pc = some pc) (hpre : t.pre = false) :
    step fix c tid = { sh := (exec fix c.sh t pc).1, threads := c.threads.set tid (exec fix c.sh t pc).2 } := by
  simp [step, stepL, ht, hpc, hpre]

/-- THE INDUCTIVE STEP: every step of every thread preserves the invariant, provided the code is
repaired (`fix`) or the step is not the lost-claim branch -/
theorem inv_step (fix : Bool) (c : Cfg) (tid : Nat) (h : Inv c)
    (hg : fix = true ∨ lostClaim c tid = false) : Inv (step fix c tid) := by
  cases ht : c.threads[tid]? with
  | none => rw [step_none ht]; exact h
  | some t =>
    cases hpc : t.pc with
    | none => rw [step_done ht hpc]; exact h
    | some pc =>
      cases hpre : t.pre with
      | true =>
        rw [step_pre ht hpc hpre]
        exact inv_replace c tid t { t with pre := false } c.sh h ht rfl
          (frame_of_eq rfl rfl rfl (Or.inl rfl)) (h.node t.node) (h.loc tid t ht)
      | false =>
        rw [step_exec ht hpc hpre]
        have hl : Loc c.sh t.node (some pc) := by rw [← hpc]; exact h.loc tid t ht
        have hg' : fix = true ∨ (∀ p, pc = .claimGet p → c.sh.reg ≠ none) := by
          rcases hg with e | e
          · exact Or.inl e
          · refine Or.inr ?_
            intro p hp hr
            simp [lostClaim, ht, hpc, hp, hpre, hr] at e
        obtain ⟨hf, hni, hl'⟩ := exec_local fix c.sh t pc (h.node t.node) hl hg'
        exact inv_replace c tid t (exec fix c.sh t pc).2 (exec fix c.sh t pc).1 h ht (exec_node _ _ _ _) hf hni hl'

/-! ### consequences of the invariant -/

theorem inv_named {sh : Sh} (h : ∀ n, NodeInv sh n) (q : ProcId) (hq : q < sh.nprocs) (hh : (sh.procs q).hook = true) :
    sh.reg = some (sh.procs q).node :=
  ((h _).1 q ((h _).2 q hq rfl hh)).2.2

theorem inv_unique {sh : Sh} (h : ∀ n, NodeInv sh n) (q1 q2 : ProcId) (h1 : q1 < sh.nprocs) (h2 : q2 < sh.nprocs)
    (hh1 : (sh.procs q1).hook = true) (hh2 : (sh.procs q2).hook = true) : q1 = q2 := by
  have r1 := inv_named h q1 h1 hh1
  have r2 := inv_named h q2 h2 hh2
  have e : (sh.procs q1).node = (sh.procs q2).node := by
    rw [r1] at r2; injection r2
  have t1 := (h _).2 q1 h1 rfl hh1
  have t2 := (h _).2 q2 h2 rfl hh2
  rw [e, t2] at t1
  injection t1 with t1
  exact t1.symm

theorem filter_le_one {α : Type} (P : α → Bool) : ∀ (l : List α), l.Nodup →
    (∀ a b, a ∈ l → b ∈ l → P a = true → P b = true → a = b) → (l.filter P).length ≤ 1
  | [], _, _ => by simp
  | x :: l, hnd, hu => by
    have hnd' := (List.nodup_cons.mp hnd)
    have ih := filter_le_one P l hnd'.2 (fun a b ha hb => hu a b (List.mem_cons_of_mem _ ha) (List.mem_cons_of_mem _ hb))
    by_cases hx : P x = true
    · have : l.filter P = [] := by
        apply List.filter_eq_nil_iff.mpr
        intro a ha hpa
        have := hu x a (List.mem_cons_self) (List.mem_cons_of_mem _ ha) hx hpa
        subst this
        exact hnd'.1 ha
      rw [List.filter_cons_of_pos hx, this]; simp
    · rw [List.filter_cons_of_neg hx]; exact ih

theorem active_le_one {sh : Sh} (h : ∀ n, NodeInv sh n) : activeCount sh ≤ 1 := by
  unfold activeCount
  apply filter_le_one _ _ List.nodup_range
  intro a b ha hb pa pb
  exact inv_unique h a b (List.mem_range.mp ha) (List.mem_range.mp hb) pa pb

/-! ### initial configurations -/

def distinct : List Nat → Bool
  | [] => true
  | a :: l => !l.contains a && distinct l

theorem distinct_idx : ∀ (l : List Nat), distinct l = true → ∀ (i j : Nat) (a : Nat), l[i]? = some a → l[j]? = some a → i = j
  | [], _, i, j, a, hi, _ => by simp at hi
  | x :: l, hd, i, j, a, hi, hj => by
    simp only [distinct, Bool.and_eq_true, Bool.not_eq_true', List.contains_eq_mem, decide_eq_false_iff_not] at hd
    have mem : ∀ k, l[k]? = some a → a ∈ l := fun k hk => List.mem_of_getElem? hk
    cases i with
    | zero =>
      cases j with
      | zero => rfl
      | succ j =>
        simp at hi; subst hi
        exact absurd (mem j (by simpa using hj)) hd.1
    | succ i =>
      cases j with
      | zero =>
        simp at hj; subst hj
        exact absurd (mem i (by simpa using hi)) hd.1
      | succ j =>
        have := distinct_idx l hd.2 i j a (by simpa using hi) (by simpa using hj)
        rw [this]

theorem mkThread_node (n : Node) (prog : List Op) : (mkThread n prog).node = n := by
  unfold mkThread; split <;> rfl

theorem mkThread_loc (sh : Sh) (n : Node) (prog : List Op) : Loc sh n (mkThread n prog).pc := by
  unfold mkThread; split <;> exact True.intro

theorem inv_init (nn : Nat) (thr : List (Node × List Op)) (hd : distinct (thr.map Prod.fst) = true) :
    Inv (init nn thr) := by
  refine ⟨?_, ?_, ?_⟩
  · intro n
    constructor
    · intro p hp; cases hp
    · intro q hq; exact absurd hq (Nat.not_lt_zero _)
  · intro tid t ht
    simp only [init, List.getElem?_map, Option.map_eq_some_iff] at ht
    obtain ⟨⟨n, prog⟩, _, e⟩ := ht
    subst e
    rw [mkThread_node]
    exact mkThread_loc _ _ _
  · intro i j ti tj hi hj e
    simp only [init, List.getElem?_map, Option.map_eq_some_iff] at hi hj
    obtain ⟨⟨n1, p1⟩, a1, e1⟩ := hi
    obtain ⟨⟨n2, p2⟩, a2, e2⟩ := hj
    subst e1; subst e2
    rw [mkThread_node, mkThread_node] at e
    subst e
    apply distinct_idx _ hd i j n1
    · rw [List.getElem?_map, a1]; rfl
    · rw [List.getElem?_map, a2]; rfl

end GoaktVerif.C30

import GoaktVerif.Lemmas.C15Build

/-
C15 — `Mode.fixed`: the concrete steps (build, the caller's select, the worker's dequeue / CAS / send, deadlines).
-/
set_option linter.unusedSimpArgs false
set_option linter.unusedVariables false

namespace GoaktVerif.C15
open GoaktVerif.Model.C15

theorem step_eq (c : Cfg) (tid : Nat) (t : Thread) (pc : PC) (ht : c.threads[tid]? = some t) (hpc : t.pc = some pc) :
    step c tid = upd (exec c t pc).1 tid (exec c t pc).2 := by
  simp only [step, ht, hpc, upd]

theorem modCtx_mode (c i f) : (modCtx c i f).mode = c.mode := rfl
theorem modCtx_chanPool (c i f) : (modCtx c i f).chanPool = c.chanPool := rfl

/-! ### build -/

theorem finv_build {c : Cfg} {own : ChanId → ReqId} {tid : Nat} {t : Thread} {i : CtxId} {k : ReqId}
    (h : FInv c own) (ht : c.threads[tid]? = some t) (hpc : t.pc = some (.askBuild i k)) :
    ∃ own1, FInv (upd (exec c t (.askBuild i k)).1 tid (exec c t (.askBuild i k)).2) own1 := by
  have hm := h.g.mode
  have hT := (h.thr tid t ht).1
  simp only [ThreadOk, hpc] at hT
  obtain ⟨_, hi_lt, _, _, _⟩ := hT
  have two : ∀ (ch : ChanId) (j : CtxId) (l : List Ctx), l = c.ctxs →
      ((l.modify i (fun x => { x with closed := false })).modify i
        (fun x => { x with response := some ch, msg := some k })).getD j { closed := false, response := none, msg := none } =
      if j = i then { closed := false, response := some ch, msg := some k } else ctxOf c j := by
    intro ch j l hl
    subst hl
    by_cases hji : j = i
    · subst hji
      simp [List.getD_eq_getElem?_getD, List.getElem?_modify, hi_lt]
    · have : ¬ i = j := fun e => hji e.symm
      simp [ctxOf, List.getD_eq_getElem?_getD, List.getElem?_modify, this, hji]
  cases hpool : c.chanPool with
  | nil =>
    have hg := getChan_fixed_nil (modCtx c i (fun x => { x with closed := false })) hm hpool
    simp only [exec, hg]
    refine ⟨ownSet own c.chans.length k, ?_⟩
    apply finv_build_abs h ht hpc
    case e_mode => rfl
    case e_thr => rfl
    case e_len => simp [modCtx]
    case e_cpool => rfl
    case e_sent => rfl
    case e_mbox => rfl
    case e_ctx_i =>
      show (List.getD _ i _) = _
      have := two c.chans.length i c.ctxs rfl
      simpa [modCtx] using this
    case e_ctx =>
      intro j hj
      show (List.getD _ j _) = _
      have := two c.chans.length j c.ctxs rfl
      simpa [modCtx, hj] using this
    case e_chan => intro x; exact chanOf_allocChan c x
    case e_clen =>
      show c.chans.length ≤ (c.chans ++ [none]).length
      simp
    case e_chlt =>
      show c.chans.length < (c.chans ++ [none]).length
      simp
    case e_empty =>
      show chanOf c c.chans.length = none
      simp [chanOf]
    case e_pool =>
      intro x hx
      have : x ∈ c.chanPool := hx
      rw [hpool] at this; cases this
    case e_pnd =>
      show c.chanPool.Nodup
      exact h.g.pool_nodup
    case e_new => right; exact Nat.le_refl _
  | cons ch rest =>
    have hg := getChan_fixed_cons (modCtx c i (fun x => { x with closed := false })) ch rest hm hpool
    simp only [exec, hg]
    have hnd := h.g.pool_nodup
    rw [hpool] at hnd
    refine ⟨ownSet own ch k, ?_⟩
    apply finv_build_abs h ht hpc
    case e_mode => rfl
    case e_thr => rfl
    case e_len => simp [modCtx]
    case e_cpool => rfl
    case e_sent => rfl
    case e_mbox => rfl
    case e_ctx_i =>
      show (List.getD _ i _) = _
      have := two ch i c.ctxs rfl
      simpa [modCtx] using this
    case e_ctx =>
      intro j hj
      show (List.getD _ j _) = _
      have := two ch j c.ctxs rfl
      simpa [modCtx, hj] using this
    case e_chan => intro x; rfl
    case e_clen => exact Nat.le_refl _
    case e_chlt => exact h.g.b_hpool ch (by rw [hpool]; simp)
    case e_empty => exact h.g.pool_empty ch (by rw [hpool]; simp)
    case e_pool =>
      intro x hx
      have hx' : x ∈ rest := hx
      refine ⟨by rw [hpool]; exact List.mem_cons_of_mem _ hx', ?_⟩
      intro e; subst e
      exact (List.nodup_cons.mp hnd).1 hx'
    case e_pnd => exact (List.nodup_cons.mp hnd).2
    case e_new => left; rw [hpool]; simp

/-! ### a thread that only changes its own record (no heap change) -/

theorem finv_same {c : Cfg} {own : ChanId → ReqId} {tid : Nat} {t t' : Thread}
    (h : FInv c own) (ht : c.threads[tid]? = some t)
    (hnew : ThreadOk c own t' ∧ histOk t')
    (hb : buildCtx t' = buildCtx t ∨ buildCtx t' = none) (hs : selChan t' = selChan t ∨ selChan t' = none)
    (hr : responderish t' → responderish t) : FInv (upd c tid t') own := by
  apply finv_update h rfl ht h.g (fun j tj _ hj => (h.thr j tj hj).1) hnew
  · intro i hi; rcases hb with e | e
    · left; rw [← e]; exact hi
    · rw [e] at hi; cases hi
  · intro ch hi; rcases hs with e | e
    · left; rw [← e]; exact hi
    · rw [e] at hi; cases hi
  · exact hr

theorem responderish_done {t : Thread} {op r} : responderish (done t op r) → responderish t := fun h => h

/-! ### the caller's select -/

theorem close_fixed_reply (c : Cfg) (t : Thread) (i : CtxId) (ch : ChanId) (v : ReqId) (hm : c.mode = .fixed) :
    close c t i ch (.reply v) = finishOp { setChan c ch none with chanPool := c.chanPool ++ [ch] } t (.reply v) := by
  unfold close; rw [hm]

theorem close_fixed_timeout (c : Cfg) (t : Thread) (i : CtxId) (ch : ChanId) (hm : c.mode = .fixed) :
    close c t i ch .timeout = finishOp c t .timeout := by
  unfold close; rw [hm]

theorem afterSelect_fixed (c : Cfg) (t : Thread) (i : CtxId) (ch : ChanId) (r : Res) (hm : c.mode = .fixed) :
    afterSelect c t i ch r = close c t i ch r := by
  unfold afterSelect; rw [hm]

theorem finv_select {c : Cfg} {own : ChanId → ReqId} {tid : Nat} {t : Thread} {i : CtxId} {ch : ChanId} {k : ReqId}
    (h : FInv c own) (ht : c.threads[tid]? = some t) (hpc : t.pc = some (.askSelect i ch k)) :
    FInv (upd (exec c t (.askSelect i ch k)).1 tid (exec c t (.askSelect i ch k)).2) own := by
  have hm := h.g.mode
  have hlt : tid < c.threads.length := (List.getElem?_eq_some_iff.mp ht).1
  have hok := h.thr tid t ht
  have hT := hok.1
  simp only [ThreadOk, hpc] at hT
  obtain ⟨hcur, hown, hchlt, hchpool⟩ := hT
  simp only [exec]
  cases hv : chanOf c ch with
  | some v =>
    have hvk : v = k := by rw [← hown]; exact (h.g.val ch v hv).symm
    simp only [afterSelect_fixed _ t i ch _ (show (setChan c ch none).mode = .fixed from hm),
      close_fixed_reply _ t i ch v (show (setChan c ch none).mode = .fixed from hm)]
    -- the heap after draining and pooling the channel
    have hca : ∀ x, chanOf ({ setChan (setChan c ch none) ch none with
        chanPool := (setChan c ch none).chanPool ++ [ch] } : Cfg) x = if x = ch then none else chanOf c x := by
      intro x
      show chanOf (setChan (setChan c ch none) ch none) x = _
      by_cases hx : x = ch
      · subst hx
        rw [chanOf_setChan_self _ _ _ (by simp [setChan]; exact hchlt)]; simp
      · rw [chanOf_setChan_ne _ _ _ _ hx, chanOf_setChan_ne _ _ _ _ hx]; simp [hx]
    apply finv_finish hcur _ (by simpa [setChan] using hlt)
    have pend_ne : ∀ j cl x k', Pending c own j cl x k' → x ≠ ch := by
      intro j cl x k' hp e; subst e; rw [hp.2.2.1] at hv; cases hv
    have pend_tr : ∀ j cl x k', Pending c own j cl x k' →
        Pending ({ setChan (setChan c ch none) ch none with chanPool := (setChan c ch none).chanPool ++ [ch] } : Cfg) own j cl x k' := by
      intro j cl x k' hp
      have hx := pend_ne j cl x k' hp
      refine hp.transfer rfl rfl (by rw [hca]; simp [hx]) ?_
      show x ∉ c.chanPool ++ [ch]
      simp [hp.2.2.2, hx]
    apply finv_update (c1 := { setChan (setChan c ch none) ch none with chanPool := (setChan c ch none).chanPool ++ [ch] })
      h rfl ht
    · refine ⟨hm, h.g.b_sent, h.g.b_mbox, h.g.b_cpool, ?bh, ?br, h.g.lin, ?va, ?pe, ?pn, ?mo, h.g.mbox_dist⟩
      case br =>
        intro i' x hx
        have := h.g.b_resp i' x hx
        show x < ((c.chans.set ch none).set ch none).length
        simpa using this
      case bh =>
        intro x hx
        have hx' : x ∈ c.chanPool ++ [ch] := hx
        show x < (c.chans.set ch none |>.set ch none).length
        simp only [List.length_set]
        rcases List.mem_append.mp hx' with h1 | h1
        · exact h.g.b_hpool x h1
        · simp at h1; subst h1; exact hchlt
      case va =>
        intro x w hx
        rw [hca] at hx
        by_cases hxc : x = ch
        · simp [hxc] at hx
        · simp [hxc] at hx; exact h.g.val x w hx
      case pe =>
        intro x hx
        have hx' : x ∈ c.chanPool ++ [ch] := hx
        rw [hca]
        by_cases hxc : x = ch
        · simp [hxc]
        · simp [hxc]
          rcases List.mem_append.mp hx' with h1 | h1
          · exact h.g.pool_empty x h1
          · simp at h1; exact absurd h1 hxc
      case pn =>
        show (c.chanPool ++ [ch]).Nodup
        apply List.nodup_append.mpr
        refine ⟨h.g.pool_nodup, by simp, ?_⟩
        intro a ha b hb; simp at hb; subst hb
        exact fun e => hchpool (e ▸ ha)
      case mo =>
        intro j hj
        obtain ⟨x, k', hp⟩ := h.g.mbox_ok j hj
        exact ⟨x, k', pend_tr j false x k' hp⟩
    · intro j tj hne hj
      apply (h.thr j tj hj).1.transfer
      · intro i' h1 h2 h3 h4 _; exact ⟨h1, h2, h3, h4⟩
      · intro x h1 h2 hs
        have hxc : x ≠ ch := by
          intro e; subst e
          exact h.sel_dist j tid tj t x hne hj ht hs (by simp [selChan, hpc])
        refine ⟨rfl, by show x < (c.chans.set ch none |>.set ch none).length; simpa using h1, ?_⟩
        show x ∉ c.chanPool ++ [ch]
        simp [h2, hxc]
      · intro i' k' cl x _ h1 h2 h3
        exact ⟨h1, pend_tr i' cl x k' h2, h3⟩
    · refine ⟨by simp [ThreadOk, done], ?_⟩
      intro k' v' hmem
      simp only [done, List.mem_cons] at hmem
      rcases hmem with e | e
      · injection e with e1 e2; injection e1 with e1; injection e2 with e2; rw [e1, e2]; exact hvk
      · exact hok.2 k' v' e
    · intro i' hb; simp [buildCtx, done] at hb
    · intro x hs; simp [selChan, done] at hs
    · exact responderish_done
  | none =>
    simp only
    split
    · simp only [afterSelect_fixed _ t i ch _ (show ({ c with log := Ev.timedOut k :: c.log } : Cfg).mode = .fixed from hm),
        close_fixed_timeout _ t i ch (show ({ c with log := Ev.timedOut k :: c.log } : Cfg).mode = .fixed from hm)]
      apply finv_finish (ca := { c with log := Ev.timedOut k :: c.log }) hcur _ hlt
      apply finv_update (c1 := { c with log := Ev.timedOut k :: c.log }) h rfl ht
      · exact ⟨hm, h.g.b_sent, h.g.b_mbox, h.g.b_cpool, h.g.b_hpool, h.g.b_resp, h.g.lin, h.g.val, h.g.pool_empty,
          h.g.pool_nodup, h.g.mbox_ok, h.g.mbox_dist⟩
      · intro j tj _ hj; exact (h.thr j tj hj).1
      · refine ⟨by simp [ThreadOk, done], ?_⟩
        intro k' v' hmem
        simp only [done, List.mem_cons] at hmem
        rcases hmem with e | e
        · injection e with _ e2; cases e2
        · exact hok.2 k' v' e
      · intro i' hb; simp [buildCtx, done] at hb
      · intro x hs; simp [selChan, done] at hs
      · exact responderish_done
    · exact finv_same h ht hok (Or.inl rfl) (Or.inl rfl) (fun x => x)

end GoaktVerif.C15

import GoaktVerif.Model.C20.Queue
import GoaktVerif.Spec.C20

/-
C20 — basic facts used by the queue theorems: the FIFO replay, heap reads after heap writes, and linked chains.
-/
set_option linter.unusedSimpArgs false

namespace GoaktVerif.C20
open GoaktVerif.Model.C20 GoaktVerif.Model.C20.Queue
open GoaktVerif.Spec.C20 (replay enqVals deqVals legal)

/-! ### FIFO replay -/

theorem replay_append (es fs : List Queue.Ev) (q : List Nat) :
    replay (es ++ fs) q = (replay es q).bind (replay fs) := by
  induction es generalizing q with
  | nil => simp [replay]
  | cons e es ih =>
    cases e with
    | enq v => simp [replay, ih]
    | deq r =>
      cases r with
      | none =>
        simp only [List.cons_append, replay]
        split
        · exact ih q
        · simp
      | some v =>
        cases q with
        | nil => simp [replay]
        | cons x q' =>
          simp only [List.cons_append, replay]
          split
          · exact ih q'
          · simp

/-- In a FIFO history nothing is lost, duplicated or reordered: what was there plus what was enqueued is what
was dequeued followed by what is left. -/
theorem replay_conservation (es : List Queue.Ev) (q0 q : List Nat) (h : replay es q0 = some q) :
    q0 ++ enqVals es = deqVals es ++ q := by
  induction es generalizing q0 with
  | nil => simp [replay] at h; simp [enqVals, deqVals, h]
  | cons e es ih =>
    cases e with
    | enq v =>
      simp only [replay] at h
      have := ih _ h
      simp [enqVals, deqVals] at this ⊢
      exact this
    | deq r =>
      cases r with
      | none =>
        simp only [replay] at h
        split at h
        · simpa [enqVals, deqVals] using ih _ h
        · cases h
      | some v =>
        cases q0 with
        | nil => simp [replay] at h
        | cons x q' =>
          simp only [replay] at h
          split at h
          · rename_i hx
            subst hx
            have := ih _ h
            simp [enqVals, deqVals, this]
          · cases h

/-! ### heap reads after heap writes -/

theorem nextOf_setNext_self (c : Cfg) (i : NodeId) (x : Option NodeId) (h : i < c.nodes.length) :
    nextOf (setNext c i x) i = x := by
  simp [nextOf, setNext, List.getElem?_modify, h]

theorem nextOf_setNext_ne (c : Cfg) (i j : NodeId) (x : Option NodeId) (h : j ≠ i) :
    nextOf (setNext c i x) j = nextOf c j := by
  simp only [nextOf, setNext, List.getElem?_modify]
  have : ¬ i = j := fun e => h e.symm
  simp [this]

theorem valOf_setNext (c : Cfg) (i j : NodeId) (x : Option NodeId) : valOf (setNext c i x) j = valOf c j := by
  simp only [valOf, setNext, List.getElem?_modify]
  by_cases h : i = j
  · subst h; cases c.nodes[i]? <;> simp
  · simp [h]

theorem nextOf_setVal (c : Cfg) (i j : NodeId) (x : Option Val) : nextOf (setVal c i x) j = nextOf c j := by
  simp only [nextOf, setVal, List.getElem?_modify]
  by_cases h : i = j
  · subst h; cases c.nodes[i]? <;> simp
  · simp [h]

theorem valOf_setVal_self (c : Cfg) (i : NodeId) (x : Option Val) (h : i < c.nodes.length) :
    valOf (setVal c i x) i = x := by
  simp [valOf, setVal, List.getElem?_modify, h]

theorem valOf_setVal_ne (c : Cfg) (i j : NodeId) (x : Option Val) (h : j ≠ i) :
    valOf (setVal c i x) j = valOf c j := by
  simp only [valOf, setVal, List.getElem?_modify]
  have : ¬ i = j := fun e => h e.symm
  simp [this]

theorem length_setNext (c : Cfg) (i x) : (setNext c i x).nodes.length = c.nodes.length := by simp [setNext]
theorem length_setVal (c : Cfg) (i x) : (setVal c i x).nodes.length = c.nodes.length := by simp [setVal]

/-- allocation of a node -/
def alloc (c : Cfg) (nd : Node) : Cfg := { c with nodes := c.nodes ++ [nd] }

theorem nextOf_alloc_old (c : Cfg) (nd : Node) (j : NodeId) (h : j < c.nodes.length) :
    nextOf (alloc c nd) j = nextOf c j := by
  simp [nextOf, alloc, List.getElem?_append_left h]

theorem valOf_alloc_old (c : Cfg) (nd : Node) (j : NodeId) (h : j < c.nodes.length) :
    valOf (alloc c nd) j = valOf c j := by
  simp [valOf, alloc, List.getElem?_append_left h]

theorem nextOf_alloc_new (c : Cfg) (nd : Node) : nextOf (alloc c nd) c.nodes.length = nd.next := by
  simp [nextOf, alloc]

theorem valOf_alloc_new (c : Cfg) (nd : Node) : valOf (alloc c nd) c.nodes.length = nd.val := by
  simp [valOf, alloc]

theorem nextOf_some_lt (c : Cfg) (i x : NodeId) (h : nextOf c i = some x) : i < c.nodes.length := by
  unfold nextOf at h
  cases hi : c.nodes[i]? with
  | none => simp [hi] at h
  | some nd => exact (List.getElem?_eq_some_iff.mp hi).1

/-! ### linked chains -/

/-- consecutive nodes are linked by `next`, and the last one has `next = nil` -/
def Linked (c : Cfg) : List NodeId → Prop
  | [] => True
  | [i] => nextOf c i = none
  | i :: j :: rest => nextOf c i = some j ∧ Linked c (j :: rest)

theorem Linked.tail {c : Cfg} {i : NodeId} {l : List NodeId} (h : Linked c (i :: l)) : Linked c l := by
  cases l with
  | nil => trivial
  | cons j rest => exact h.2

/-- a node of the chain whose `next` is nil is the last one -/
theorem Linked.last_of_none {c : Cfg} : ∀ {l : List NodeId} {i : NodeId}, Linked c l → i ∈ l → nextOf c i = none →
    l.getLast? = some i
  | [], _, _, hm, _ => by cases hm
  | [a], i, _, hm, _ => by simp at hm; simp [hm]
  | a :: b :: rest, i, hl, hm, hn => by
    cases hm with
    | head => rw [hl.1] at hn; cases hn
    | tail _ hm' =>
      have := Linked.last_of_none (l := b :: rest) hl.2 hm' hn
      simpa [List.getLast?_cons_cons] using this

/-- the successor of a node of the chain is in the chain, right behind it -/
theorem Linked.split_of_some {c : Cfg} : ∀ {l : List NodeId} {i x : NodeId}, Linked c l → i ∈ l → nextOf c i = some x →
    ∃ l1 l2, l = l1 ++ i :: x :: l2
  | [], _, _, _, hm, _ => by cases hm
  | [a], i, x, hl, hm, hn => by
    simp at hm; subst hm
    simp only [Linked] at hl
    rw [hl] at hn; cases hn
  | a :: b :: rest, i, x, hl, hm, hn => by
    cases hm with
    | head =>
      rw [hl.1] at hn
      cases hn
      exact ⟨[], rest, rfl⟩
    | tail _ hm' =>
      obtain ⟨l1, l2, e⟩ := Linked.split_of_some (l := b :: rest) hl.2 hm' hn
      exact ⟨a :: l1, l2, by simp [e]⟩

theorem Linked.mem_of_some {c : Cfg} {l : List NodeId} {i x : NodeId} (hl : Linked c l) (hm : i ∈ l)
    (hn : nextOf c i = some x) : x ∈ l := by
  obtain ⟨l1, l2, e⟩ := hl.split_of_some hm hn
  subst e; simp

/-- frame: a chain stays linked when the `next` of its nodes is unchanged -/
theorem Linked.frame {c c' : Cfg} : ∀ {l : List NodeId}, Linked c l → (∀ i ∈ l, nextOf c' i = nextOf c i) → Linked c' l
  | [], _, _ => trivial
  | [a], hl, hf => by simp only [Linked] at hl ⊢; rw [hf a (by simp)]; exact hl
  | a :: b :: rest, hl, hf => by
    refine ⟨by rw [hf a (by simp)]; exact hl.1, ?_⟩
    exact Linked.frame (l := b :: rest) hl.2 (fun i hi => hf i (List.mem_cons_of_mem _ hi))

/-- appending a node behind the last one -/
theorem Linked.append {c c' : Cfg} : ∀ {l : List NodeId} {t n : NodeId}, Linked c l → l.getLast? = some t →
    (∀ i ∈ l, i ≠ t → nextOf c' i = nextOf c i) → nextOf c' t = some n → nextOf c' n = none → Linked c' (l ++ [n])
  | [], _, _, _, hlast, _, _, _ => by simp at hlast
  | [a], t, n, _, hlast, _, ht, hn => by
    simp at hlast; subst hlast
    exact ⟨ht, hn⟩
  | a :: b :: rest, t, n, hl, hlast, hf, ht, hn => by
    have hlast' : (b :: rest).getLast? = some t := by simpa [List.getLast?_cons_cons] using hlast
    by_cases hat : a = t
    · -- then t would have a successor in the old heap, but it is the last node: its next is nil … unless the
      -- chain revisits t; we only need the link from a, which is t's new link only if b = n.  Avoided by
      -- requiring distinctness at the call site: here we derive it from `nextOf c' t = some n`.
      subst hat
      refine ⟨?_, Linked.append (l := b :: rest) hl.2 hlast' (fun i hi hne => hf i (List.mem_cons_of_mem _ hi) hne) ht hn⟩
      -- a = t is also the last element of b :: rest, hence in it; its old next is none by `last_of_none`'s
      -- converse: the last node of a linked list has next = nil
      exfalso
      have : nextOf c a = none := by
        have hl2 := hl.2
        clear hf ht hn hl
        -- last element of a linked non-empty list has no successor
        revert hl2 hlast'
        generalize b :: rest = m
        intro hlast' hl2
        induction m with
        | nil => simp at hlast'
        | cons p ps ih =>
          cases ps with
          | nil => simp at hlast'; subst hlast'; exact hl2
          | cons q qs => exact ih (by simpa [List.getLast?_cons_cons] using hlast') hl2.2
      rw [hl.1] at this
      cases this
    · refine ⟨by rw [hf a (by simp) hat]; exact hl.1, ?_⟩
      exact Linked.append (l := b :: rest) hl.2 hlast' (fun i hi hne => hf i (List.mem_cons_of_mem _ hi) hne) ht hn

/-- the last node of a linked chain has `next = nil` -/
theorem Linked.none_of_last {c : Cfg} : ∀ {l : List NodeId} {t : NodeId}, Linked c l → l.getLast? = some t → nextOf c t = none
  | [], _, _, h => by simp at h
  | [a], t, hl, h => by simp at h; subst h; exact hl
  | a :: b :: rest, t, hl, h =>
    Linked.none_of_last (l := b :: rest) hl.2 (by simpa [List.getLast?_cons_cons] using h)

end GoaktVerif.C20

/-
C25 helper lemmas: fixed-width integers and the shared frame.
-/
import GoaktVerif.Model.C25

namespace GoaktVerif.C25
open GoaktVerif.Model.C25

theorem be32_length (n : Nat) : (be32 n).length = 4 := rfl

theorem be32_wf (n : Nat) : ∀ b ∈ be32 n, b < 256 := by
  intro b hb
  simp only [be32, List.mem_cons, List.not_mem_nil, or_false] at hb
  omega

theorem rd32_be32_append (n : Nat) (rest : Bytes) : rd32 (be32 n ++ rest) = n % 4294967296 := by
  simp only [be32, List.cons_append, List.nil_append, rd32]
  omega

theorem rd32_be32 (n : Nat) (h : n < 4294967296) (rest : Bytes) : rd32 (be32 n ++ rest) = n := by
  rw [rd32_be32_append]; omega

theorem drop4_be32 (n : Nat) (rest : Bytes) : (be32 n ++ rest).drop 4 = rest := by
  simp [be32]

theorem be64_length (n : Nat) : (be64 n).length = 8 := rfl

theorem rd64_be64 (n : Nat) (rest : Bytes) : rd64 (be64 n ++ rest) = n % 18446744073709551616 := by
  unfold rd64 be64
  rw [List.append_assoc, rd32_be32_append, drop4_be32, rd32_be32_append]
  omega

theorem toI64_toU64 (i : Int) (h1 : -9223372036854775808 ≤ i) (h2 : i < 9223372036854775808) :
    toI64 (toU64 i) = i := by
  unfold toI64 toU64
  simp only
  split <;> omega

theorem frame_length (n p : Bytes) : (frame n p).length = 8 + n.length + p.length := by
  simp [frame, be32]; omega

theorem frame_drop8 (n p : Bytes) : (frame n p).drop 8 = n ++ p := by
  simp [frame, be32]

theorem frame_drop4 (n p : Bytes) : (frame n p).drop 4 = be32 n.length ++ (n ++ p) := by
  simp [frame, be32]

theorem frame_rd32 (n p : Bytes) (h : 8 + n.length + p.length < 4294967296) :
    rd32 (frame n p) = 8 + n.length + p.length := by
  unfold frame
  rw [List.append_assoc, List.append_assoc, rd32_be32 _ h]

theorem frame_nameLen (n p : Bytes) (h : 8 + n.length + p.length < 4294967296) :
    rd32 ((frame n p).drop 4) = n.length := by
  rw [frame_drop4, rd32_be32 _ (by omega)]

/-- decoding a frame gives back exactly the name and the payload (sizes that fit the uint32 header) -/
theorem unframe_frame (n p : Bytes) (h : 8 + n.length + p.length < 4294967296) :
    unframe (frame n p) = some (n, p) := by
  unfold unframe
  simp only [frame_length, frame_rd32 n p h, frame_nameLen n p h, frame_drop8]
  have h1 : ¬ (8 + n.length + p.length < 8) := by omega
  have h3 : ¬ (8 + n.length > 8 + n.length + p.length) := by omega
  have h4 : (frame n p).drop (8 + n.length) = p := by
    rw [← List.drop_drop, frame_drop8]; simp
  simp [h1, h3, h4]

theorem frameTypeName_frame (n p : Bytes) (h : 8 + n.length + p.length < 4294967296) (hn : n ≠ []) :
    frameTypeName (frame n p) = some n := by
  unfold frameTypeName
  simp only [frame_length, frame_rd32 n p h, frame_nameLen n p h, frame_drop8]
  have h1 : ¬ (8 + n.length + p.length < 8) := by omega
  have h2 : n.length ≠ 0 := by
    intro h0; exact hn (List.eq_nil_of_length_eq_zero h0)
  have h3 : ¬ (8 + n.length > 8 + n.length + p.length) := by omega
  simp [h1, h2, h3]

/-- `frameTypeName` succeeds exactly on frames `unframe` accepts with a non-empty name, with the same name -/
theorem frameTypeName_eq_unframe (d : Bytes) :
    frameTypeName d = (match unframe d with
      | some (n, _) => if rd32 (d.drop 4) = 0 then none else some n
      | none => none) := by
  unfold frameTypeName unframe
  by_cases h8 : d.length < 8
  · simp [h8]
  · simp only [h8, if_false]
    by_cases ht : d.length < rd32 d ∨ rd32 d < 8
    · rcases ht with ht | ht <;> simp [ht]
    · have : ¬ d.length < rd32 d := fun h => ht (Or.inl h)
      have : ¬ rd32 d < 8 := fun h => ht (Or.inr h)
      by_cases hz : rd32 (d.drop 4) = 0 <;> by_cases hn : 8 + rd32 (d.drop 4) > rd32 d <;> simp [*]

end GoaktVerif.C25

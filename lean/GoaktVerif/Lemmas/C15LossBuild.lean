import GoaktVerif.Lemmas.C15LossStep

/-
C15 — `Mode.fixed`, the no-loss clause: the build step and the send step.
-/
set_option linter.unusedSimpArgs false
set_option linter.unusedVariables false

namespace GoaktVerif.C15
open GoaktVerif.Model.C15

/-- two different threads have no request id in common -/
theorem ids_disjoint {c : Cfg} (n : NInv c) {j1 j2 : Nat} {t1 t2 : Thread} (hne : j1 ≠ j2)
    (h1 : c.threads[j1]? = some t1) (h2 : c.threads[j2]? = some t2) {k : ReqId} (k1 : k ∈ ids t1) (k2 : k ∈ ids t2) : False :=
  nodup_flatMap_disjoint ids c.threads n.ids j1 j2 t1 t2 k hne h1 h2 k1 k2

/-- a pending context is in the mailbox or is the sentinel -/
theorem pending_place {c own} (hf : FInv c own) {j : CtxId} (hj : j ∈ pending c) : j ∈ c.mbox ∨ j = c.sentinel := by
  rcases List.mem_append.mp hj with h | h
  · exact Or.inl h
  · obtain ⟨x, tx, hx, hm⟩ := (mem_flatMap_get c.threads hd j).mp h
    exact Or.inr (hd_worker hf hx j hm).1

theorem ninv_build_abs {c c4 : Cfg} {own : ChanId → ReqId} {tid : Nat} {t : Thread} {i : CtxId} {k : ReqId} {ch : ChanId}
    (hf : FInv c own) (n : NInv c) (ht : c.threads[tid]? = some t) (hpc : t.pc = some (.askBuild i k))
    (e_thr : c4.threads = c.threads) (e_mbox : c4.mbox = c.mbox ++ [i]) (e_log : c4.log = c.log)
    (e_ctx_i : ctxOf c4 i = { closed := false, response := some ch, msg := some k })
    (e_ctx : ∀ j, j ≠ i → ctxOf c4 j = ctxOf c j)
    (e_chan : ∀ x, chanOf c4 x = chanOf c x) :
    NInv (upd c4 tid { t with pc := some (.askSelect i ch k) }) := by
  have hT := (hf.thr tid t ht).1
  simp only [ThreadOk, hpc] at hT
  obtain ⟨hcur, _, _, hi_mbox, hi_sent⟩ := hT
  let t' : Thread := { t with pc := some (.askSelect i ch k) }
  have hk_ub : k ∈ ub t := by simp [ub, hpc]
  have hk_unb : k ∈ unbuilt c := self_unbuilt ht hk_ub
  have hk_rd : ¬ rd c k := n.unb k hk_unb
  have hk_ids : k ∈ ids t := by simp [ids, curIds, hcur]
  have hk_prog : k ∉ progIds t := by
    -- `ids t = k :: progIds t` has no duplicates
    have hnd : (ids t).Nodup := by
      have := n.ids
      have hsub : (ids t).Sublist (allIds c) := by
        obtain ⟨hlt, he⟩ := List.getElem?_eq_some_iff.mp ht
        have e : c.threads = c.threads.take tid ++ t :: c.threads.drop (tid + 1) := by
          rw [← he]; simp
        show (ids t).Sublist (c.threads.flatMap ids)
        rw [e]
        simp only [List.flatMap_append, List.flatMap_cons]
        exact (List.sublist_append_left _ _).trans (List.sublist_append_right _ _)
      exact hsub.nodup this
    simp only [ids, curIds, hcur, List.singleton_append, List.nodup_cons] at hnd
    exact hnd.1
  have rd_eq : ∀ x, rd (upd c4 tid t') x ↔ rd c x := by intro x; show Ev.respDone x ∈ c4.log ↔ _; rw [e_log]; rfl
  have ub_t' : ∀ x, x ∈ ub t' ↔ x ∈ progIds t := by
    intro x
    have : progIds t' = progIds t := rfl
    simp [ub, t', this]
  have hun : ∀ x, x ∈ unbuilt (upd c4 tid t') → x ∈ unbuilt c ∧ x ≠ k := by
    intro x hx
    rcases (mem_unbuilt_upd e_thr ht x).mp hx with h1 | h1
    · have := (ub_t' x).mp h1
      exact ⟨self_unbuilt ht (List.mem_append_left _ this), fun e => hk_prog (e ▸ this)⟩
    · refine ⟨others_unbuilt h1, ?_⟩
      obtain ⟨j, tj, hne, hj, hxj⟩ := h1
      intro e; subst e
      exact ids_disjoint n hne hj ht (ub_sub_ids hf hj _ hxj) hk_ids
  have hwa : ∀ i2 ch2 k2, (i2, ch2, k2) ∈ waiting (upd c4 tid t') →
      (i2 = i ∧ ch2 = ch ∧ k2 = k) ∨ ((i2, ch2, k2) ∈ waiting c ∧ k2 ≠ k) := by
    intro i2 ch2 k2 hx
    rcases (mem_waiting_upd e_thr ht (i2, ch2, k2)).mp hx with h1 | h1
    · left; simpa [sl, t'] using h1
    · right
      refine ⟨others_waiting h1, ?_⟩
      obtain ⟨j, tj, hne, hj, hxj⟩ := h1
      intro e; subst e
      exact ids_disjoint n hne hj ht (sl_ids hf hj _ _ _ hxj).1 hk_ids
  have hpe : ∀ j, j ∈ pending (upd c4 tid t') ↔ j = i ∨ j ∈ pending c := by
    intro j
    rw [pending_upd e_thr ht, pending_self ht, e_mbox]
    have h1 : hd t' = [] := by simp [hd, t']
    have h2 : hd t = [] := by simp [hd, hpc]
    rw [h1, h2]
    simp only [List.mem_append, List.mem_singleton, List.not_mem_nil, false_or]
    constructor
    · rintro ((h | h) | h)
      · exact Or.inr (Or.inl h)
      · exact Or.inl h
      · exact Or.inr (Or.inr h)
    · rintro (h | h | h)
      · exact Or.inl (Or.inr h)
      · exact Or.inl (Or.inl h)
      · exact Or.inr h
  have old_ne : ∀ j, j ∈ pending c → j ≠ i := by
    intro j hj e
    subst e
    rcases pending_place hf hj with h | h
    · exact hi_mbox h
    · exact hi_sent h
  have ctx_old : ∀ j, j ∈ pending c → ctxOf (upd c4 tid t') j = ctxOf c j := fun j hj => e_ctx j (old_ne j hj)
  have ctx_i : ctxOf (upd c4 tid t') i = { closed := false, response := some ch, msg := some k } := e_ctx_i
  refine ⟨?_, ?_, ?_, ?_, ?_, ?_⟩
  · show ((c4.threads.set tid t').flatMap ids).Nodup
    rw [e_thr]
    exact nodup_flatMap_set c.threads tid t t' ids ht (List.Sublist.refl _) n.ids
  · show noLossLog c4.log = true
    rw [e_log]; exact n.noloss
  · intro x hx hr
    exact n.unb x (hun x hx).1 ((rd_eq x).mp hr)
  · intro j x hj hm
    rcases (hpe j).mp hj with rfl | hj'
    · rw [ctx_i] at hm
      simp at hm; subst hm
      refine ⟨fun hr => hk_rd ((rd_eq _).mp hr), fun hu => (hun _ hu).2 rfl, ?_⟩
      intro i2 ch2 hw
      rcases hwa i2 ch2 _ hw with ⟨e, _, _⟩ | ⟨_, hne⟩
      · exact e
      · exact absurd rfl hne
    · rw [ctx_old j hj'] at hm
      obtain ⟨p1, p2, p3⟩ := n.pend j x hj' hm
      refine ⟨fun hr => p1 ((rd_eq _).mp hr), fun hu => p2 (hun _ hu).1, ?_⟩
      intro i2 ch2 hw
      rcases hwa i2 ch2 x hw with ⟨_, _, e⟩ | ⟨hw', _⟩
      · exact absurd (e ▸ hk_unb) p2
      · exact p3 i2 ch2 hw'
  · intro i2 ch2 k2 hw
    rcases hwa i2 ch2 k2 hw with ⟨rfl, rfl, rfl⟩ | ⟨hw', _⟩
    · refine ⟨fun hr => absurd ((rd_eq _).mp hr) hk_rd, fun _ => ?_⟩
      rw [ctx_i]
      exact ⟨rfl, rfl, (hpe _).mpr (Or.inl rfl)⟩
    · obtain ⟨s1, s2⟩ := n.sel i2 ch2 k2 hw'
      refine ⟨fun hr => ?_, fun hr => ?_⟩
      · show chanOf c4 ch2 = some k2
        rw [e_chan]; exact s1 ((rd_eq _).mp hr)
      · obtain ⟨q1, q2, q3⟩ := s2 (fun x => hr ((rd_eq _).mpr x))
        rw [ctx_old i2 q3]
        exact ⟨q1, q2, (hpe _).mpr (Or.inr q3)⟩
  · intro j1 j2 x h1 h2 m1 m2
    rcases (hpe j1).mp h1 with rfl | h1' <;> rcases (hpe j2).mp h2 with rfl | h2'
    · rfl
    · rw [ctx_i] at m1; simp at m1; subst m1
      rw [ctx_old j2 h2'] at m2
      exact absurd hk_unb (n.pend j2 _ h2' m2).2.1
    · rw [ctx_i] at m2; simp at m2; subst m2
      rw [ctx_old j1 h1'] at m1
      exact absurd hk_unb (n.pend j1 _ h1' m1).2.1
    · rw [ctx_old j1 h1'] at m1
      rw [ctx_old j2 h2'] at m2
      exact n.dist j1 j2 x h1' h2' m1 m2

end GoaktVerif.C15

/-
Helper lemmas for C32 (list surgery, the least-loaded scan, fold invariants). Core Lean only.
-/
import GoaktVerif.Model.C32

namespace GoaktVerif.C32
open GoaktVerif.Model.C32

/-! ### fold induction with the processed prefix made explicit -/

theorem foldl_inv {σ α : Type} (step : σ → α → σ) (P : σ → List α → Prop)
    (hs : ∀ st pre a, P st pre → P (step st a) (pre ++ [a])) :
    ∀ (l pre : List α) (st : σ), P st pre → P (l.foldl step st) (pre ++ l) := by
  intro l
  induction l with
  | nil => intro pre st h; simpa using h
  | cons a l ih =>
    intro pre st h
    have := ih (pre ++ [a]) (step st a) (hs st pre a h)
    simpa [List.foldl_cons, List.append_assoc] using this

theorem foldl_inv0 {σ α : Type} (step : σ → α → σ) (P : σ → List α → Prop) (init : σ)
    (h0 : P init [])
    (hs : ∀ st pre a, P st pre → P (step st a) (pre ++ [a])) (l : List α) :
    P (l.foldl step init) l := by
  simpa using foldl_inv step P hs l [] init h0

/-! ### three-way split -/

theorem perm_three {α : Type} (p q r : α → Bool)
    (h : ∀ a, (p a = true ∧ q a = false ∧ r a = false) ∨ (p a = false ∧ q a = true ∧ r a = false)
      ∨ (p a = false ∧ q a = false ∧ r a = true)) (l : List α) :
    l.Perm (l.filter p ++ l.filter q ++ l.filter r) := by
  induction l with
  | nil => simp
  | cons a l ih =>
    rcases h a with ⟨hp, hq, hr⟩ | ⟨hp, hq, hr⟩ | ⟨hp, hq, hr⟩
    · simp only [List.filter_cons, hp, hq, hr, ↓reduceIte, Bool.false_eq_true, List.cons_append]
      exact List.Perm.cons a ih
    · simp only [List.filter_cons, hp, hq, hr, ↓reduceIte, Bool.false_eq_true]
      refine (List.Perm.cons a ih).trans ?_
      rw [List.append_assoc, List.append_assoc]
      refine List.perm_middle.symm.trans ?_
      simp
    · simp only [List.filter_cons, hp, hq, hr, ↓reduceIte, Bool.false_eq_true]
      refine (List.Perm.cons a ih).trans ?_
      exact List.perm_middle.symm

/-! ### appendAt / incAt -/

theorem appendAt_length {α : Type} (ss : List (List α)) (i : Nat) (a : α) :
    (appendAt ss i a).length = ss.length := by
  induction ss generalizing i with
  | nil => rfl
  | cons s ss ih => cases i <;> simp [appendAt, ih]

theorem incAt_length (l : List Nat) (i : Nat) : (incAt l i).length = l.length := by
  induction l generalizing i with
  | nil => rfl
  | cons x xs ih => cases i <;> simp [incAt, ih]

theorem appendAt_getD {α : Type} (ss : List (List α)) (i j : Nat) (a : α) :
    (appendAt ss i a).getD j [] =
      if j = i ∧ i < ss.length then ss.getD i [] ++ [a] else ss.getD j [] := by
  induction ss generalizing i j with
  | nil => simp [appendAt]
  | cons s ss ih =>
    cases i with
    | zero =>
      cases j with
      | zero => simp [appendAt]
      | succ j => simp [appendAt]
    | succ i =>
      cases j with
      | zero => simp [appendAt]
      | succ j =>
        simp only [appendAt, List.getD_cons_succ, ih, List.length_cons]
        simp only [Nat.add_lt_add_iff_right, Nat.add_right_cancel_iff]

theorem incAt_getD (l : List Nat) (i j : Nat) :
    (incAt l i).getD j 0 = if j = i ∧ i < l.length then l.getD i 0 + 1 else l.getD j 0 := by
  induction l generalizing i j with
  | nil => simp [incAt]
  | cons x xs ih =>
    cases i with
    | zero =>
      cases j with
      | zero => simp [incAt]
      | succ j => simp [incAt]
    | succ i =>
      cases j with
      | zero => simp [incAt]
      | succ j =>
        simp only [incAt, List.getD_cons_succ, ih, List.length_cons]
        simp only [Nat.add_lt_add_iff_right, Nat.add_right_cancel_iff]

theorem appendAt_flatten_perm {α : Type} (ss : List (List α)) (i : Nat) (a : α) (h : i < ss.length) :
    (appendAt ss i a).flatten.Perm (ss.flatten ++ [a]) := by
  induction ss generalizing i with
  | nil => simp at h
  | cons s ss ih =>
    cases i with
    | zero =>
      simp only [appendAt, List.flatten_cons, List.append_assoc]
      exact List.Perm.append_left s List.perm_append_comm
    | succ i =>
      have h' : i < ss.length := by simpa using h
      simp only [appendAt, List.flatten_cons, List.append_assoc]
      exact List.Perm.append_left s (ih i h')

theorem mem_appendAt_getD {α : Type} (ss : List (List α)) (i j : Nat) (a b : α)
    (h : b ∈ ss.getD j []) : b ∈ (appendAt ss i a).getD j [] := by
  rw [appendAt_getD]
  split
  · rename_i hc; rw [← hc.1]; exact List.mem_append_left _ h
  · exact h

theorem getD_replicate_nil {α : Type} (n j : Nat) : (List.replicate n ([] : List α)).getD j [] = [] := by
  induction n generalizing j with
  | zero => simp
  | succ n ih =>
    cases j with
    | zero => simp [List.replicate_succ]
    | succ j => rw [List.replicate_succ, List.getD_cons_succ]; exact ih j

theorem flatten_replicate_nil {α : Type} (n : Nat) : (List.replicate n ([] : List α)).flatten = [] := by
  induction n with
  | zero => rfl
  | succ n ih => simp [List.replicate_succ, ih]

theorem getD_map_length {α : Type} (ss : List (List α)) (j : Nat) :
    (ss.map List.length).getD j 0 = (ss.getD j []).length := by
  induction ss generalizing j with
  | nil => simp
  | cons s ss ih =>
    cases j with
    | zero => simp
    | succ j => rw [List.map_cons, List.getD_cons_succ, List.getD_cons_succ]; exact ih j

theorem headD_append_flatten_tail {α : Type} (ss : List (List α)) :
    ss.headD [] ++ (ss.drop 1).flatten = ss.flatten := by
  cases ss <;> simp

/-! ### the least-loaded scan -/

/-- what the scan over the first `k` targets returns: the lowest index among the least loaded
    eligible ones, or `none` when no target among them is eligible -/
def FirstMin (targets : List (List Role)) (loads : List Nat) (role : Role) (k : Nat) : Option Nat → Prop
  | none => ∀ j, j < k → eligibleForRole (targets.getD j []) role = false
  | some i => i < k ∧ eligibleForRole (targets.getD i []) role = true ∧
      ∀ j, j < k → eligibleForRole (targets.getD j []) role = true →
        loads.getD i 0 < loads.getD j 0 ∨ (loads.getD i 0 = loads.getD j 0 ∧ i ≤ j)

theorem pickUpTo_spec (targets : List (List Role)) (loads : List Nat) (role : Role) (k : Nat) :
    FirstMin targets loads role k (pickUpTo targets loads role k) := by
  induction k with
  | zero => intro j hj; omega
  | succ k ih =>
    simp only [pickUpTo, better]
    cases he : eligibleForRole (targets.getD k []) role with
    | false =>
      simp only [Bool.not_false, ↓reduceIte]
      cases hp : pickUpTo targets loads role k with
      | none =>
        rw [hp] at ih
        intro j hj
        by_cases hjk : j = k
        · subst hjk; exact he
        · exact ih j (by omega)
      | some b =>
        rw [hp] at ih
        obtain ⟨hb, hbe, hmin⟩ := ih
        refine ⟨by omega, hbe, ?_⟩
        intro j hj hje
        by_cases hjk : j = k
        · subst hjk; rw [he] at hje; cases hje
        · exact hmin j (by omega) hje
    | true =>
      simp only [Bool.not_true, Bool.false_eq_true, ↓reduceIte]
      cases hp : pickUpTo targets loads role k with
      | none =>
        rw [hp] at ih
        refine ⟨by omega, he, ?_⟩
        intro j hj hje
        by_cases hjk : j = k
        · subst hjk; right; exact ⟨rfl, Nat.le_refl _⟩
        · have := ih j (by omega); rw [this] at hje; cases hje
      | some b =>
        rw [hp] at ih
        obtain ⟨hb, hbe, hmin⟩ := ih
        by_cases hlt : loads.getD k 0 < loads.getD b 0
        · simp only [hlt, ↓reduceIte]
          refine ⟨by omega, he, ?_⟩
          intro j hj hje
          by_cases hjk : j = k
          · subst hjk; right; exact ⟨rfl, Nat.le_refl _⟩
          · rcases hmin j (by omega) hje with h | ⟨h, _⟩
            · left; omega
            · left; omega
        · simp only [hlt, ↓reduceIte]
          refine ⟨by omega, hbe, ?_⟩
          intro j hj hje
          by_cases hjk : j = k
          · subst hjk
            by_cases heq : loads.getD b 0 = loads.getD j 0
            · right; exact ⟨heq, by omega⟩
            · left; omega
          · exact hmin j (by omega) hje

theorem any_eligible_iff (targets : List (List Role)) (role : Role) :
    targets.any (fun t => eligibleForRole t role) = true ↔
      ∃ j, j < targets.length ∧ eligibleForRole (targets.getD j []) role = true := by
  induction targets with
  | nil => simp
  | cons t ts ih =>
    simp only [List.any_cons, Bool.or_eq_true, ih, List.length_cons]
    constructor
    · rintro (h | ⟨j, hj, he⟩)
      · exact ⟨0, by omega, by simpa using h⟩
      · exact ⟨j + 1, by omega, by simpa using he⟩
    · rintro ⟨j, hj, he⟩
      cases j with
      | zero => left; simpa using he
      | succ j => right; exact ⟨j, by omega, by simpa using he⟩

theorem pickTarget_none_iff (targets : List (List Role)) (loads : List Nat) (role : Role) :
    pickTarget targets loads role = none ↔ targets.any (fun t => eligibleForRole t role) = false := by
  have hs := pickUpTo_spec targets loads role targets.length
  unfold pickTarget
  constructor
  · intro h
    rw [h] at hs
    cases ha : targets.any (fun t => eligibleForRole t role) with
    | false => rfl
    | true =>
      obtain ⟨j, hj, he⟩ := (any_eligible_iff targets role).1 ha
      rw [hs j hj] at he; cases he
  · intro h
    cases hp : pickUpTo targets loads role targets.length with
    | none => rfl
    | some i =>
      rw [hp] at hs
      have : targets.any (fun t => eligibleForRole t role) = true :=
        (any_eligible_iff targets role).2 ⟨i, hs.1, hs.2.1⟩
      rw [h] at this; cases this

end GoaktVerif.C32

/-
C47: the ring buffer of bucket.go refines the queue-shaped rolling window of Spec/C47.
-/
import GoaktVerif.Model.C47
import GoaktVerif.Spec.C47

namespace GoaktVerif.C47
open GoaktVerif.Model.C47 GoaktVerif.Spec.C47

/-! ### sums -/

def sumBy (f : Nat × Nat → Nat) (l : List (Nat × Nat)) : Nat := (l.map f).sum

theorem foldl_totals (l : List (Nat × Nat)) (acc : Nat × Nat) :
    l.foldl (fun acc b => (acc.1 + b.1, acc.2 + b.2)) acc
      = (acc.1 + sumBy Prod.fst l, acc.2 + sumBy Prod.snd l) := by
  induction l generalizing acc with
  | nil => simp [sumBy]
  | cons a rest ih =>
    simp only [List.foldl_cons, ih, sumBy, List.map_cons, List.sum_cons]
    ext <;> simp only <;> omega

theorem totals_eq (w : BW) : w.totals = (sumBy Prod.fst w.buf, sumBy Prod.snd w.buf) := by
  simp [BW.totals, foldl_totals]

theorem sumS_eq (q : List (Nat × Nat)) : sumS q = sumBy Prod.fst q := rfl
theorem sumF_eq (q : List (Nat × Nat)) : sumF q = sumBy Prod.snd q := rfl

theorem sumBy_set (f : Nat × Nat → Nat) (l : List (Nat × Nat)) (i : Nat) (x y : Nat × Nat)
    (h : l[i]? = some y) : sumBy f (l.set i x) + f y = sumBy f l + f x := by
  induction l generalizing i with
  | nil => simp at h
  | cons a rest ih =>
    cases i with
    | zero =>
      simp only [List.getElem?_cons_zero, Option.some.injEq] at h
      subst h
      simp only [sumBy, List.set_cons_zero, List.map_cons, List.sum_cons]; omega
    | succ i =>
      simp only [List.getElem?_cons_succ] at h
      have := ih i h
      simp only [sumBy, List.set_cons_succ, List.map_cons, List.sum_cons] at this ⊢; omega

theorem sumBy_modify (f : Nat × Nat → Nat) (g : Nat × Nat → Nat × Nat) (l : List (Nat × Nat)) (i : Nat)
    (y : Nat × Nat) (h : l[i]? = some y) : sumBy f (l.modify i g) + f y = sumBy f l + f (g y) := by
  induction l generalizing i with
  | nil => simp at h
  | cons a rest ih =>
    cases i with
    | zero =>
      simp only [List.getElem?_cons_zero, Option.some.injEq] at h
      subst h
      simp only [sumBy, List.modify_zero_cons, List.map_cons, List.sum_cons]; omega
    | succ i =>
      simp only [List.getElem?_cons_succ] at h
      have := ih i h
      simp only [sumBy, List.modify_succ_cons, List.map_cons, List.sum_cons] at this ⊢; omega

theorem sumBy_dropLast (f : Nat × Nat → Nat) (q : List (Nat × Nat)) (h : q ≠ []) :
    sumBy f q.dropLast + f (q.getLast h) = sumBy f q := by
  have := List.dropLast_concat_getLast h
  conv => rhs; rw [← this]
  simp [sumBy, List.sum_append_nat]

theorem sumBy_map_zero (f : Nat × Nat → Nat) (hf : f (0, 0) = 0) (l : List (Nat × Nat)) :
    sumBy f (l.map (fun _ => (0, 0))) = 0 := by
  induction l with
  | nil => rfl
  | cons a rest ih => simp only [sumBy, List.map_cons, List.sum_cons] at ih ⊢; omega

/-! ### the positional correspondence -/

/-- index in the ring of the bucket that is `j` buckets old -/
def slot (cursor num j : Nat) : Nat := if j ≤ cursor then cursor - j else cursor + num - j

theorem succ_mod {cursor num : Nat} (h : cursor < num) :
    (cursor + 1) % num = if cursor + 1 < num then cursor + 1 else 0 := by
  split
  · rename_i h1; exact Nat.mod_eq_of_lt h1
  · rename_i h1
    have : cursor + 1 = num := by omega
    rw [this, Nat.mod_self]

/-- ring ~ queue -/
structure RW (num : Nat) (w : BW) (sw : SWin) : Prop where
  lenB : w.buf.length = num
  lenQ : sw.q.length = num
  cur : w.cursor < num
  lu : w.lastUpdate = sw.lastUpdate
  pos : ∀ j, j < num → sw.q[j]? = w.buf[slot w.cursor num j]?
  totS : sumBy Prod.fst w.buf = sumBy Prod.fst sw.q
  totF : sumBy Prod.snd w.buf = sumBy Prod.snd sw.q

theorem rw_new (num : Nat) (now : Int) (h : 1 ≤ num) : RW num (BW.new num now) (SWin.fresh num now) := by
  refine ⟨by simp [BW.new], by simp [SWin.fresh], by simp only [BW.new]; omega, rfl, ?_, rfl, rfl⟩
  intro j hj
  have hs : slot 0 num j < num := by unfold slot; split <;> omega
  simp only [BW.new, SWin.fresh]
  rw [List.getElem?_replicate, List.getElem?_replicate]
  simp [hj, hs]

/-- one rotation of the ring = one shift of the queue -/
theorem rw_rotate1 (num : Nat) (bn : Int) (w : BW) (sw : SWin) (h : RW num w sw) :
    RW num ⟨w.buf.set ((w.cursor + 1) % num) (0, 0), (w.cursor + 1) % num, w.lastUpdate + bn⟩
      ⟨shift1 sw.q, sw.lastUpdate + bn⟩ := by
  have hnum : 1 ≤ num := by have := h.cur; omega
  have hc := succ_mod h.cur
  generalize hcdef : (w.cursor + 1) % num = c at hc ⊢
  have hclt : c < num := by rw [hc]; split <;> omega
  have hq : sw.q ≠ [] := by intro hq; have := h.lenQ; rw [hq] at this; simp at this; omega
  -- the oldest bucket of the queue sits in slot c
  have hlast : w.buf[c]? = some (sw.q.getLast hq) := by
    have := h.pos (num - 1) (by omega)
    rw [List.getLast_eq_getElem hq]
    have hidx : sw.q.length - 1 = num - 1 := by rw [h.lenQ]
    have hs : slot w.cursor num (num - 1) = c := by
      unfold slot; rw [hc]; have := h.cur; split <;> split <;> omega
    rw [hs] at this
    rw [← this]
    simp only [hidx]
    rw [List.getElem?_eq_getElem (by rw [h.lenQ]; omega)]
  refine ⟨by simp [h.lenB], by simp [shift1, h.lenQ]; omega, hclt, by simp [h.lu], ?_, ?_, ?_⟩
  · intro j hj
    cases j with
    | zero =>
      have : slot c num 0 = c := by simp [slot]
      simp only [this, shift1, List.getElem?_cons_zero]
      rw [List.getElem?_set_self (by rw [h.lenB]; exact hclt)]
    | succ j =>
      simp only [shift1, List.getElem?_cons_succ]
      rw [List.getElem?_dropLast]
      have hj' : j < sw.q.length - 1 := by rw [h.lenQ]; omega
      simp only [hj', if_true]
      rw [h.pos j (by omega)]
      have hs : slot c num (j + 1) = slot w.cursor num j := by
        unfold slot; rw [hc]; have := h.cur; split <;> split <;> split <;> omega
      have hne : c ≠ slot c num (j + 1) := by
        unfold slot; split <;> omega
      rw [List.getElem?_set_ne hne, hs]
  · have h1 := sumBy_set Prod.fst w.buf c (0, 0) _ hlast
    have h2 := sumBy_dropLast Prod.fst sw.q hq
    have h3 := h.totS
    simp only [shift1, sumBy, List.map_cons, List.sum_cons] at h1 h2 h3 ⊢
    omega
  · have h1 := sumBy_set Prod.snd w.buf c (0, 0) _ hlast
    have h2 := sumBy_dropLast Prod.snd sw.q hq
    have h3 := h.totF
    simp only [shift1, sumBy, List.map_cons, List.sum_cons] at h1 h2 h3 ⊢
    omega

theorem rw_rotate (num : Nat) (bn : Int) (n : Nat) : ∀ (w : BW) (sw : SWin), RW num w sw →
    RW num (BW.rotate num bn n w) ⟨shiftN n sw.q, sw.lastUpdate + n * bn⟩ := by
  induction n with
  | zero => intro w sw h; simpa [BW.rotate, shiftN] using h
  | succ n ih =>
    intro w sw h
    have h1 := rw_rotate1 num bn w sw h
    have h2 := ih _ _ h1
    simp only [BW.rotate, shiftN]
    have : sw.lastUpdate + bn + (n : Int) * bn = sw.lastUpdate + ((n + 1 : Nat) : Int) * bn := by
      rw [Int.natCast_add, Int.add_mul]; omega
    rw [← this]
    exact h2

theorem rw_hardReset (num : Nat) (now : Int) (w : BW) (sw : SWin) (h : RW num w sw) :
    RW num (w.hardReset now) ⟨sw.q.map (fun _ => (0, 0)), now⟩ := by
  have hnum : 1 ≤ num := by have := h.cur; omega
  refine ⟨by simp [BW.hardReset, h.lenB], by simp [h.lenQ], by simp only [BW.hardReset]; omega, rfl, ?_, ?_, ?_⟩
  · intro j hj
    have hs : slot 0 num j < num := by unfold slot; split <;> omega
    simp only [BW.hardReset, List.getElem?_map]
    rw [List.getElem?_eq_getElem (by rw [h.lenQ]; exact hj), List.getElem?_eq_getElem (by rw [h.lenB]; exact hs)]
    rfl
  · simp only [BW.hardReset]; rw [sumBy_map_zero _ rfl, sumBy_map_zero _ rfl]
  · simp only [BW.hardReset]; rw [sumBy_map_zero _ rfl, sumBy_map_zero _ rfl]

/-- the configuration as the spec sees it -/
def toSConf (cf : Conf) : SConf := ⟨cf.p, cf.q, cf.minReq, cf.openTimeout, cf.bucketNanos, cf.num, cf.hmax⟩

/-- `advanceLocked` = `SWin.advance` -/
theorem rw_advance (cf : Conf) (hbn : 0 < cf.bucketNanos) (now : Int) (w : BW) (sw : SWin) (h : RW cf.num w sw) :
    RW cf.num (w.advance cf now) (sw.advance (toSConf cf) now) := by
  unfold BW.advance SWin.advance
  simp only [toSConf, h.lu]
  by_cases h1 : now - sw.lastUpdate < cf.bucketNanos
  · simp only [h1, if_true]; exact h
  · simp only [h1, if_false]
    have hnn : 0 ≤ now - sw.lastUpdate := by omega
    rw [Int.tdiv_eq_ediv_of_nonneg hnn]
    by_cases h2 : (now - sw.lastUpdate) / cf.bucketNanos ≥ (cf.num : Int)
    · simp only [h2, if_true]; exact rw_hardReset cf.num now w sw h
    · simp only [h2, if_false]
      have hpos : 0 ≤ (now - sw.lastUpdate) / cf.bucketNanos := Int.ediv_nonneg hnn (by omega)
      have := rw_rotate cf.num cf.bucketNanos ((now - sw.lastUpdate) / cf.bucketNanos).toNat w sw h
      rw [Int.toNat_of_nonneg hpos] at this
      exact this

/-- counting an outcome in the current bucket = bumping the head of the queue -/
theorem rw_bump (num : Nat) (success : Bool) (w : BW) (sw : SWin) (h : RW num w sw) :
    RW num { w with buf := w.buf.modify w.cursor (bumpBucket success) } { sw with q := bump success sw.q } := by
  have hq : ∃ a rest, sw.q = a :: rest := by
    cases hq : sw.q with
    | nil => have := h.lenQ; rw [hq] at this; have := h.cur; simp at *; omega
    | cons a rest => exact ⟨a, rest, rfl⟩
  obtain ⟨a, rest, hq⟩ := hq
  have h0 := h.pos 0 (by have := h.cur; omega)
  have hs0 : slot w.cursor num 0 = w.cursor := by simp [slot]
  rw [hs0, hq] at h0
  simp only [List.getElem?_cons_zero] at h0
  have hbump : bump success (a :: rest) = bumpBucket success a :: rest := by
    simp only [bump, bumpBucket]
  refine ⟨by simp [h.lenB], by rw [hq, hbump]; simpa [hq] using h.lenQ, h.cur, h.lu, ?_, ?_, ?_⟩
  · intro j hj
    simp only [hq, hbump]
    cases j with
    | zero =>
      rw [hs0]
      simp only [List.getElem?_cons_zero, List.getElem?_modify_eq, ← h0]
      rfl
    | succ j =>
      have hne : w.cursor ≠ slot w.cursor num (j + 1) := by
        unfold slot; have := h.cur; split <;> omega
      rw [List.getElem?_modify_ne _ _ hne]
      have := h.pos (j + 1) hj
      rw [hq] at this
      exact this
  · have h1 := sumBy_modify Prod.fst (bumpBucket success) w.buf w.cursor a h0.symm
    have h3 := h.totS
    simp only [hq, hbump, sumBy, List.map_cons, List.sum_cons] at h1 h3 ⊢
    omega
  · have h1 := sumBy_modify Prod.snd (bumpBucket success) w.buf w.cursor a h0.symm
    have h3 := h.totF
    simp only [hq, hbump, sumBy, List.map_cons, List.sum_cons] at h1 h3 ⊢
    omega

end GoaktVerif.C47

/-
Helper lemmas for the concurrent layer of C14 (Model/C14/Conc.lean): heap well-formedness,
the chain walk, the inductive invariant, the refinement step and the length accounting.
-/
import GoaktVerif.Model.C14.Conc

namespace GoaktVerif.C14.Conc
open GoaktVerif.Model.C14.Conc

/-- every `next` points to an older (smaller) address: the chain is acyclic and immutable -/
def HeapWF (heap : List Node) : Prop :=
  ∀ (a : Nat) (nd : Node), heap[a]? = some nd → ∀ j, nd.next = some j → j < a

def PtrOK (heap : List Node) (o : Option Nat) : Prop := ∀ a, o = some a → a < heap.length

theorem chain_none (heap : List Node) (f : Nat) : chain heap f none = [] := by
  cases f <;> rfl

theorem chain_append (heap : List Node) (nd : Node) (hw : HeapWF heap) (f : Nat) (o : Option Nat)
    (ho : PtrOK heap o) : chain (heap ++ [nd]) f o = chain heap f o := by
  induction f generalizing o with
  | zero => rfl
  | succ f ih =>
    cases o with
    | none => rfl
    | some a =>
      have ha := ho a rfl
      simp only [chain, List.getElem?_append_left ha]
      cases hx : heap[a]? with
      | none => rfl
      | some x =>
        simp only
        congr 1
        apply ih
        intro j hj
        have := hw a x hx j hj
        omega

theorem chain_fuel (heap : List Node) (hw : HeapWF heap) (f f' a : Nat) (h1 : a < f) (h2 : a < f') :
    chain heap f (some a) = chain heap f' (some a) := by
  induction f generalizing a f' with
  | zero => omega
  | succ f ih =>
    cases f' with
    | zero => omega
    | succ f' =>
      simp only [chain]
      cases hx : heap[a]? with
      | none => rfl
      | some x =>
        simp only
        congr 1
        cases hn : x.next with
        | none => rw [chain_none, chain_none]
        | some j =>
          have := hw a x hx j hn
          exact ih f' j (by omega) (by omega)

def ThrOK (heap : List Node) (t : Thread) : Prop :=
  match t.pc with
  | some (.pushCAS _ o) => PtrOK heap o
  | some (.popNext a) => a < heap.length
  | some (.popCAS a n) => a < heap.length ∧ n = nextAt heap a
  | _ => True

structure Inv (c : Cfg) : Prop where
  heap : HeapWF c.heap
  top : PtrOK c.heap c.top
  thr : ∀ t ∈ c.threads, ThrOK c.heap t

theorem startNext_ok (heap : List Node) (t : Thread) : ThrOK heap (startNext t) := by
  unfold startNext
  cases t.todo with
  | nil => simp [ThrOK]
  | cons op r => cases op <;> simp [ThrOK, pcOf]

theorem finish_ok (heap : List Node) (t : Thread) (r : Res) : ThrOK heap (finish t r) := startNext_ok heap _

theorem heapWF_append (heap : List Node) (b : Nat) (o : Option Nat) (hw : HeapWF heap) (ho : PtrOK heap o) :
    HeapWF (heap ++ [⟨b, o⟩]) := by
  intro a nd ha j hj
  by_cases hlt : a < heap.length
  · rw [List.getElem?_append_left hlt] at ha
    exact hw a nd ha j hj
  · have hge : heap.length ≤ a := by omega
    rw [List.getElem?_append_right hge] at ha
    have h0 : a - heap.length = 0 := by
      cases hk : a - heap.length with
      | zero => rfl
      | succ k => rw [hk] at ha; simp at ha
    rw [h0] at ha
    simp at ha
    subst ha
    have := ho j hj
    omega

theorem nextAt_append (heap : List Node) (nd : Node) (a : Nat) (ha : a < heap.length) :
    nextAt (heap ++ [nd]) a = nextAt heap a := by
  simp [nextAt, List.getElem?_append_left ha]

theorem thrOK_append (heap : List Node) (nd : Node) (t : Thread) (h : ThrOK heap t) : ThrOK (heap ++ [nd]) t := by
  unfold ThrOK at *
  split at h <;> simp_all [PtrOK]
  · intro a ha; have := h a ha; omega
  · omega
  · rename_i a n
    exact ⟨by omega, by rw [nextAt_append _ _ _ h.1]⟩

theorem nextAt_ok (heap : List Node) (hw : HeapWF heap) (a : Nat) (ha : a < heap.length) : PtrOK heap (nextAt heap a) := by
  intro j hj
  unfold nextAt at hj
  cases hx : heap[a]? with
  | none => simp [hx] at hj
  | some x =>
    simp [hx] at hj
    have := hw a x hx j hj
    omega

/-- shared part after `exec` keeps the invariant, and the stepping thread's new local state is consistent with it -/
theorem exec_inv (c : Cfg) (t : Thread) (pc : Pc) (hi : Inv c) (ht : ThrOK c.heap { t with pc := some pc }) :
    HeapWF (exec c t pc).2.2.1 ∧ PtrOK (exec c t pc).2.2.1 (exec c t pc).1
    ∧ ThrOK (exec c t pc).2.2.1 (exec c t pc).2.2.2
    ∧ (∀ u, ThrOK c.heap u → ThrOK (exec c t pc).2.2.1 u) := by
  obtain ⟨hw, htop, _⟩ := hi
  cases pc with
  | pushLoad b => exact ⟨hw, htop, by simpa [exec, ThrOK] using htop, fun u hu => hu⟩
  | pushCAS b old =>
    simp only [exec]
    split
    · have ho : PtrOK c.heap old := by simpa [ThrOK] using ht
      refine ⟨heapWF_append _ _ _ hw ho, ?_, by simp [ThrOK], fun u hu => thrOK_append _ _ u hu⟩
      intro a ha; simp at ha; subst ha; simp
    · exact ⟨hw, htop, by simp [ThrOK], fun u hu => hu⟩
  | pushAdd => exact ⟨hw, htop, finish_ok _ _ _, fun u hu => hu⟩
  | popLoad =>
    simp only [exec]
    cases hx : c.top with
    | none => exact ⟨hw, by simpa [hx] using htop, finish_ok _ _ _, fun u hu => hu⟩
    | some a => exact ⟨hw, by simpa [hx] using htop, by simpa [ThrOK] using htop a hx, fun u hu => hu⟩
  | popNext a =>
    have ha : a < c.heap.length := by simpa [ThrOK] using ht
    exact ⟨hw, htop, by simp [exec, ThrOK, ha], fun u hu => hu⟩
  | popCAS a n =>
    have ha : a < c.heap.length ∧ n = nextAt c.heap a := by simpa [ThrOK] using ht
    simp only [exec]
    split
    · exact ⟨hw, by rw [ha.2]; exact nextAt_ok _ hw a ha.1, by simp [ThrOK], fun u hu => hu⟩
    · exact ⟨hw, htop, by simp [ThrOK], fun u hu => hu⟩
  | popAdd v => exact ⟨hw, htop, finish_ok _ _ _, fun u hu => hu⟩
  | peekLoad => exact ⟨hw, htop, finish_ok _ _ _, fun u hu => hu⟩
  | lenLoad => exact ⟨hw, htop, finish_ok _ _ _, fun u hu => hu⟩
  | resetTop => exact ⟨hw, by intro a ha; simp [exec] at ha, by simp [exec, ThrOK], fun u hu => hu⟩
  | resetLen => exact ⟨hw, htop, finish_ok _ _ _, fun u hu => hu⟩

theorem inv_init (progs : List (List Op)) : Inv (init progs) := by
  refine ⟨?_, ?_, ?_⟩
  · intro a nd ha; simp [init] at ha
  · intro a ha; simp [init] at ha
  · intro t ht
    simp only [init, List.mem_map] at ht
    obtain ⟨p, _, rfl⟩ := ht
    exact startNext_ok _ _

theorem inv_step (c : Cfg) (tid : Nat) (hi : Inv c) : Inv (step c tid) := by
  unfold step
  cases hth : c.threads[tid]? with
  | none => exact hi
  | some t =>
    simp only
    cases hpc : t.pc with
    | none => exact hi
    | some pc =>
      simp only
      have hmem : t ∈ c.threads := List.mem_of_getElem? hth
      have ht : ThrOK c.heap { t with pc := some pc } := by
        have := hi.thr t hmem
        simpa [ThrOK, hpc] using this
      obtain ⟨h1, h2, h3, h4⟩ := exec_inv c t pc hi ht
      refine ⟨h1, h2, ?_⟩
      intro u hu
      rcases List.mem_or_eq_of_mem_set hu with hu | rfl
      · exact h4 u (hi.thr u hu)
      · exact h3

theorem inv_run (c : Cfg) (sched : List Nat) (hi : Inv c) : Inv (run c sched) := by
  induction sched generalizing c with
  | nil => exact hi
  | cons t ts ih => exact ih _ (inv_step c t hi)

/-! ### refinement: effect of one step on the abstract stack -/

def absOf (top : Option Nat) (heap : List Node) : List Nat := chain heap heap.length top

/-- the sequential-stack operation a step performs (its linearization point), if any -/
def effect (c : Cfg) : Pc → List Nat → List Nat
  | .pushCAS b old => if c.top = old then (b :: ·) else id
  | .popCAS a _ => if c.top = some a then List.tail else id
  | .resetTop => fun _ => []
  | _ => id

theorem abs_pop (c : Cfg) (hi : Inv c) (a : Nat) (htop : c.top = some a) :
    abs c = valAt c.heap a :: absOf (nextAt c.heap a) c.heap := by
  have ha := hi.top a htop
  unfold abs absOf
  rw [htop]
  cases hL : c.heap.length with
  | zero => omega
  | succ L =>
    simp only [chain]
    cases hx : c.heap[a]? with
    | none =>
      have : c.heap[a]? ≠ none := by simp [List.getElem?_eq_none_iff]; omega
      exact absurd hx this
    | some x =>
      simp only [valAt, nextAt, hx, Option.map_some, Option.getD_some, Option.bind_some]
      congr 1
      cases hn : x.next with
      | none => rw [chain_none, chain_none]
      | some j =>
        have := hi.heap a x hx j hn
        exact chain_fuel _ hi.heap _ _ j (by omega) (by omega)

theorem abs_exec (c : Cfg) (t : Thread) (pc : Pc) (hi : Inv c) (ht : ThrOK c.heap { t with pc := some pc }) :
    absOf (exec c t pc).1 (exec c t pc).2.2.1 = effect c pc (abs c) := by
  cases pc with
  | pushCAS b old =>
    simp only [exec, effect]
    split
    · rename_i h
      simp only [absOf, List.length_append, List.length_singleton, chain]
      rw [List.getElem?_append_right (Nat.le_refl _)]
      simp only [Nat.sub_self, List.getElem?_cons_zero]
      congr 1
      rw [chain_append _ _ hi.heap _ _ (by simpa [ThrOK] using ht)]
      unfold abs; rw [h]
    · rfl
  | popCAS a n =>
    have ha : a < c.heap.length ∧ n = nextAt c.heap a := by simpa [ThrOK] using ht
    simp only [exec, effect]
    split
    · rename_i h
      rw [abs_pop c hi a h, ha.2]; rfl
    · rfl
  | resetTop => simp [exec, effect, absOf, chain_none]
  | popLoad =>
    simp only [exec, effect]
    cases h : c.top <;> simp [absOf, abs, h]
  | pushLoad b => rfl
  | pushAdd => rfl
  | popNext a => rfl
  | popAdd v => rfl
  | peekLoad => rfl
  | lenLoad => rfl
  | resetLen => rfl

/-! ### length accounting -/

/-- +1: the push already linked its node but has not counted it yet; -1: the pop already unlinked
    its node but has not discounted it yet -/
def pendPc : Pc → Int
  | .pushAdd => 1
  | .popAdd _ => -1
  | _ => 0

def pend (t : Thread) : Int :=
  match t.pc with
  | some pc => pendPc pc
  | none => 0

def pendSum (ts : List Thread) : Int := (ts.map pend).sum

theorem pendSum_set (ts : List Thread) (i : Nat) (x y : Thread) (h : ts[i]? = some x) :
    pendSum (ts.set i y) = pendSum ts - pend x + pend y := by
  induction ts generalizing i with
  | nil => simp at h
  | cons z zs ih =>
    cases i with
    | zero =>
      simp at h; subst h
      simp [pendSum]; omega
    | succ i =>
      simp at h
      have := ih i h
      simp only [pendSum, List.set_cons_succ, List.map_cons, List.sum_cons] at this ⊢
      omega

theorem pend_startNext (t : Thread) : pend (startNext t) = 0 := by
  unfold startNext
  cases t.todo with
  | nil => rfl
  | cons op r => cases op <;> rfl

theorem pend_finish (t : Thread) (r : Res) : pend (finish t r) = 0 := pend_startNext _

/-- no thread will ever run Reset -/
def NoResetT (t : Thread) : Prop := Op.reset ∉ t.todo ∧ t.pc ≠ some .resetTop ∧ t.pc ≠ some .resetLen

theorem noReset_startNext (t : Thread) (h : Op.reset ∉ t.todo) : NoResetT (startNext t) := by
  unfold startNext
  cases hd : t.todo with
  | nil => simp [NoResetT]
  | cons op r =>
    rw [hd] at h
    have h1 : op ≠ .reset := fun e => h (by simp [e])
    have h2 : Op.reset ∉ r := fun e => h (by simp [e])
    refine ⟨h2, ?_, ?_⟩ <;> cases op <;> simp_all [pcOf]

theorem exec_noReset (c : Cfg) (t : Thread) (pc : Pc) (h : Op.reset ∉ t.todo) (h1 : pc ≠ .resetTop) (h2 : pc ≠ .resetLen) :
    NoResetT (exec c t pc).2.2.2 := by
  cases pc with
  | resetTop => exact absurd rfl h1
  | resetLen => exact absurd rfl h2
  | pushCAS b old => simp only [exec]; split <;> exact ⟨h, by simp, by simp⟩
  | popCAS a n => simp only [exec]; split <;> exact ⟨h, by simp, by simp⟩
  | popLoad =>
    simp only [exec]
    cases c.top with
    | none => exact noReset_startNext _ h
    | some a => exact ⟨h, by simp, by simp⟩
  | pushLoad b => exact ⟨h, by simp [exec], by simp [exec]⟩
  | popNext a => exact ⟨h, by simp [exec], by simp [exec]⟩
  | pushAdd => exact noReset_startNext _ h
  | popAdd v => exact noReset_startNext _ h
  | peekLoad => exact noReset_startNext _ h
  | lenLoad => exact noReset_startNext _ h

/-- the change of `length`, of the stepping thread's pending count and of the depth balance out -/
theorem len_exec (c : Cfg) (t : Thread) (pc : Pc) (hi : Inv c) (ht : ThrOK c.heap { t with pc := some pc })
    (hpc : t.pc = some pc) (h1 : pc ≠ .resetTop) (h2 : pc ≠ .resetLen) :
    (exec c t pc).2.1 + pend (exec c t pc).2.2.2 - ((absOf (exec c t pc).1 (exec c t pc).2.2.1).length : Int)
      = c.length + pend t - ((abs c).length : Int) := by
  have habs := abs_exec c t pc hi ht
  rw [habs]
  have hp : pend t = pendPc pc := by simp [pend, hpc]
  rw [hp]
  cases pc with
  | resetTop => exact absurd rfl h1
  | resetLen => exact absurd rfl h2
  | pushCAS b old =>
    simp only [exec, effect]
    split <;> simp [pend, pendPc]
    omega
  | popCAS a n =>
    simp only [exec, effect]
    split
    · rename_i h
      rw [abs_pop c hi a h]
      simp [pend, pendPc]
      omega
    · simp [pend, pendPc]
  | popLoad =>
    simp only [exec, effect]
    cases c.top with
    | none => simp [pend_finish, pendPc]
    | some a => simp [pend, pendPc]
  | pushLoad b => simp [exec, effect, pend, pendPc]
  | popNext a => simp [exec, effect, pend, pendPc]
  | pushAdd => simp [exec, effect, pend_finish, pendPc] <;> omega
  | popAdd v => simp [exec, effect, pend_finish, pendPc] <;> omega
  | peekLoad => simp [exec, effect, pend_finish, pendPc]
  | lenLoad => simp [exec, effect, pend_finish, pendPc]

end GoaktVerif.C14.Conc

/-
C21 helper lemmas: the ring's sort + search + map lookup computes the successor vnode.
-/
import GoaktVerif.Model.C21
import GoaktVerif.Spec.C21
namespace GoaktVerif.C21L
open GoaktVerif.Model.C21 GoaktVerif.Spec.C21

theorem isSucc_unique {hs : List Nat} {h x x' : Nat} (a : IsSucc hs h x) (b : IsSucc hs h x') : x = x' := by
  obtain ⟨ax, a1, a2⟩ := a
  obtain ⟨bx, b1, b2⟩ := b
  by_cases e : ∃ y ∈ hs, h ≤ y
  · have ha := a1 e; have hb := b1 e
    have := ha.2 x' bx hb.1
    have := hb.2 x ax ha.1
    omega
  · have := a2 e x' bx
    have := b2 e x ax
    omega

theorem isSucc_congr {hs hs' : List Nat} (hm : ∀ y, y ∈ hs ↔ y ∈ hs') {h x : Nat} :
    IsSucc hs h x ↔ IsSucc hs' h x := by
  unfold IsSucc
  have e : (∃ y ∈ hs, h ≤ y) ↔ (∃ y ∈ hs', h ≤ y) :=
    ⟨fun ⟨y, a, b⟩ => ⟨y, (hm y).mp a, b⟩, fun ⟨y, a, b⟩ => ⟨y, (hm y).mpr a, b⟩⟩
  constructor
  · rintro ⟨a, b, c⟩
    refine ⟨(hm x).mp a, fun ex => ⟨(b (e.mpr ex)).1, fun y hy hle => (b (e.mpr ex)).2 y ((hm y).mpr hy) hle⟩,
      fun nex y hy => c (fun ex => nex (e.mp ex)) y ((hm y).mpr hy)⟩
  · rintro ⟨a, b, c⟩
    refine ⟨(hm x).mpr a, fun ex => ⟨(b (e.mp ex)).1, fun y hy hle => (b (e.mp ex)).2 y ((hm y).mp hy) hle⟩,
      fun nex y hy => c (fun ex => nex (e.mpr ex)) y ((hm y).mp hy)⟩

/-- restricting the ring to a subset that still contains the successor keeps the successor -/
theorem isSucc_subset {hs hs' : List Nat} (hsub : ∀ y, y ∈ hs' → y ∈ hs) {h x : Nat}
    (a : IsSucc hs h x) (hx : x ∈ hs') : IsSucc hs' h x := by
  obtain ⟨ax, a1, a2⟩ := a
  refine ⟨hx, ?_, ?_⟩
  · rintro ⟨y, hy, hle⟩
    have := a1 ⟨y, hsub y hy, hle⟩
    exact ⟨this.1, fun z hz hzle => this.2 z (hsub z hz) hzle⟩
  · intro nex y hy
    by_cases e : ∃ y ∈ hs, h ≤ y
    · exact absurd ⟨x, hx, (a1 e).1⟩ nex
    · exact a2 e y (hsub y hy)

/-- on a sorted non-empty slice, `search` + wrap-to-0 selects the successor -/
theorem search_isSucc (keys : List Nat) (hsorted : keys.Pairwise (· ≤ ·)) (h : Nat) (hne : keys ≠ []) :
    ∃ k, keys[(if search keys h ≥ keys.length then 0 else search keys h)]? = some k ∧ IsSucc keys h k := by
  have hlen : 0 < keys.length := List.length_pos_iff.mpr hne
  unfold search
  generalize hS : List.findIdx (fun k => decide (h ≤ k)) keys = S
  by_cases hfound : S < keys.length
  · have hidx : (if S ≥ keys.length then 0 else S) = S := by
      rw [if_neg (by omega)]
    rw [hidx]
    refine ⟨keys[S], by simp [hfound], ?_⟩
    have hp : h ≤ keys[S] := by
      subst hS
      have := List.findIdx_getElem (p := fun k => decide (h ≤ k)) (xs := keys) (w := hfound)
      simpa using this
    refine ⟨List.getElem_mem _, fun _ => ⟨hp, ?_⟩, fun nex => absurd ⟨_, List.getElem_mem _, hp⟩ nex⟩
    intro y hy hle
    obtain ⟨j, hj, rfl⟩ := List.getElem_of_mem hy
    by_cases hjlt : j < S
    · subst hS
      have := List.not_of_lt_findIdx (p := fun k => decide (h ≤ k)) (xs := keys) hjlt
      simp at this
      omega
    · by_cases hje : j = S
      · subst hje; exact Nat.le_refl _
      · exact (List.pairwise_iff_getElem.mp hsorted) _ _ hfound hj (by omega)
  · have hall : ∀ x ∈ keys, ¬ h ≤ x := by
      have : S = keys.length := by
        have := List.findIdx_le_length (p := fun k => decide (h ≤ k)) (xs := keys)
        omega
      have := List.findIdx_eq_length.mp (hS.trans this)
      intro x hx; simpa using this x hx
    have hidx : (if S ≥ keys.length then 0 else S) = 0 := by
      rw [if_pos (by omega)]
    rw [hidx]
    refine ⟨keys[0], by simp [hlen], List.getElem_mem _, ?_, ?_⟩
    · rintro ⟨y, hy, hle⟩; exact absurd hle (hall y hy)
    · intro _ y hy
      obtain ⟨j, hj, rfl⟩ := List.getElem_of_mem hy
      by_cases hj0 : j = 0
      · subst hj0; exact Nat.le_refl _
      · exact (List.pairwise_iff_getElem.mp hsorted) _ _ hlen hj (by omega)

theorem insertSorted_perm (a : Nat) (l : List Nat) : (insertSorted a l).Perm (a :: l) := by
  induction l with
  | nil => exact List.Perm.refl _
  | cons b bs ih =>
    simp only [insertSorted]
    split
    · exact List.Perm.refl _
    · exact (List.Perm.cons b ih).trans (List.Perm.swap a b bs)

theorem sortKeys_perm (l : List Nat) : (sortKeys l).Perm l := by
  induction l with
  | nil => exact List.Perm.refl _
  | cons a as ih => exact (insertSorted_perm a _).trans (List.Perm.cons a ih)

theorem insertSorted_sorted (a : Nat) (l : List Nat) (h : l.Pairwise (· ≤ ·)) :
    (insertSorted a l).Pairwise (· ≤ ·) := by
  induction l with
  | nil => simp [insertSorted]
  | cons b bs ih =>
    simp only [insertSorted]
    have hb := List.pairwise_cons.mp h
    split
    · rename_i hab
      refine List.pairwise_cons.mpr ⟨?_, h⟩
      intro y hy
      rcases List.mem_cons.mp hy with rfl | hy'
      · exact hab
      · exact Nat.le_trans hab (hb.1 y hy')
    · rename_i hab
      refine List.pairwise_cons.mpr ⟨?_, ih hb.2⟩
      intro y hy
      have : y ∈ a :: bs := (insertSorted_perm a bs).mem_iff.mp hy
      rcases List.mem_cons.mp this with rfl | hy'
      · omega
      · exact hb.1 y hy'

theorem sortKeys_sorted (l : List Nat) : (sortKeys l).Pairwise (· ≤ ·) := by
  induction l with
  | nil => simp [sortKeys]
  | cons a as ih => exact insertSorted_sorted a _ ih

theorem sorted_keys (vnodes : List VNode) : (Ring.set vnodes).keys.Pairwise (· ≤ ·) :=
  sortKeys_sorted _

theorem mem_keys (vnodes : List VNode) (y : Nat) : y ∈ (Ring.set vnodes).keys ↔ y ∈ vnodes.map (·.1) :=
  (sortKeys_perm _).mem_iff

/-- the ring returns the owner (map entry) of the successor hash of the key -/
theorem lookup_spec (vnodes : List VNode) (h : Nat) (hne : vnodes ≠ []) :
    ∃ k, IsSucc (vnodes.map (·.1)) h k ∧ (Ring.set vnodes).lookup h = mapGet vnodes k := by
  have hkne : (Ring.set vnodes).keys ≠ [] := by
    intro e
    cases vnodes with
    | nil => exact hne rfl
    | cons v vs =>
      have := (mem_keys (v :: vs) v.1).mpr (by simp)
      rw [e] at this; exact absurd this (by simp)
  obtain ⟨k, hk, hs⟩ := search_isSucc _ (sorted_keys vnodes) h hkne
  refine ⟨k, (isSucc_congr (mem_keys vnodes)).mp hs, ?_⟩
  unfold Ring.lookup
  have : (Ring.set vnodes).keys.isEmpty = false := by
    cases hk' : (Ring.set vnodes).keys with
    | nil => exact absurd hk' hkne
    | cons _ _ => rfl
  simp only [this, Bool.false_eq_true, if_false, hk]
  rfl

theorem mapGet_none (V : List VNode) (h : Nat) (hn : h ∉ V.map (·.1)) : mapGet V h = none := by
  induction V with
  | nil => rfl
  | cons v vs ih =>
    obtain ⟨k, m⟩ := v
    simp only [List.map_cons, List.mem_cons, not_or] at hn
    simp only [mapGet, ih hn.2]
    rw [if_neg (fun e => hn.1 e.symm)]

/-- with pairwise distinct hashes the map entry of a vnode's hash is that vnode's member -/
theorem mapGet_of_mem (V : List VNode) (hnd : (V.map (·.1)).Nodup) (k m : Nat) (hm : (k, m) ∈ V) :
    mapGet V k = some m := by
  induction V with
  | nil => exact absurd hm (by simp)
  | cons v vs ih =>
    obtain ⟨k0, m0⟩ := v
    simp only [List.map_cons, List.nodup_cons] at hnd
    rcases List.mem_cons.mp hm with e | hin
    · cases e
      simp only [mapGet, mapGet_none vs k hnd.1, if_true]
    · simp only [mapGet, ih hnd.2 hin]

theorem mapGet_mem (V : List VNode) (k m : Nat) (h : mapGet V k = some m) : (k, m) ∈ V := by
  induction V with
  | nil => simp [mapGet] at h
  | cons v vs ih =>
    obtain ⟨k0, m0⟩ := v
    simp only [mapGet] at h
    split at h
    · rename_i m' hm'
      cases h
      exact List.mem_cons_of_mem _ (ih hm')
    · split at h
      · rename_i e; cases h; subst e; exact List.mem_cons_self
      · cases h

end GoaktVerif.C21L

/-
Helper lemmas for C48 (TTL map): association-list facts, the representation invariant `Inv`,
the abstraction function `abs`, and what `evict` / `maybeCompact` do to them.
-/
import GoaktVerif.Model.C48

namespace GoaktVerif.C48
open GoaktVerif.Model.C48

/-! ### the Go map as an association list -/

theorem find_del (m : Items) (k k' : Nat) :
    (Items.del m k).find k' = if k' = k then none else m.find k' := by
  induction m with
  | nil => simp [Items.del, Items.find]
  | cons p rest ih =>
    obtain ⟨a, i⟩ := p
    simp only [Items.del] at ih ⊢
    by_cases ha : a = k
    · subst ha
      simp only [List.filter, ne_eq, not_true_eq_false, decide_false]
      rw [ih]
      by_cases hk : k' = a
      · simp [hk]
      · have : ¬ a = k' := fun h => hk h.symm
        simp [hk, Items.find, this]
    · simp only [List.filter, ne_eq, ha, not_false_eq_true, decide_true, Items.find]
      rw [ih]
      by_cases hk : k' = k
      · subst hk; simp [ha]
      · simp [hk]

theorem find_put (m : Items) (k i k' : Nat) :
    (Items.put m k i).find k' = if k' = k then some i else m.find k' := by
  simp only [Items.put, Items.find, find_del]
  by_cases hk : k' = k
  · subst hk; simp
  · have : ¬ k = k' := fun h => hk h.symm
    simp [hk, this]

def Keys (m : Items) : List Nat := m.map Prod.fst

theorem find_eq_none_iff (m : Items) (k : Nat) : m.find k = none ↔ k ∉ Keys m := by
  induction m with
  | nil => simp [Items.find, Keys]
  | cons p rest ih =>
    obtain ⟨a, i⟩ := p
    simp only [Items.find, Keys, List.map_cons, List.mem_cons, not_or] at ih ⊢
    by_cases ha : a = k
    · simp [ha]
    · have : ¬ k = a := fun h => ha h.symm
      simp [ha, this, ih]

theorem mem_of_find {m : Items} {k i : Nat} (h : m.find k = some i) : (k, i) ∈ m := by
  induction m with
  | nil => simp [Items.find] at h
  | cons p rest ih =>
    obtain ⟨a, j⟩ := p
    simp only [Items.find] at h
    by_cases ha : a = k
    · simp only [ha, if_true, Option.some.injEq] at h
      simp [ha, h]
    · simp only [ha, if_false] at h
      exact List.mem_cons_of_mem _ (ih h)

theorem find_of_mem {m : Items} {k i : Nat} (hn : (Keys m).Nodup) (h : (k, i) ∈ m) :
    m.find k = some i := by
  induction m with
  | nil => simp at h
  | cons p rest ih =>
    obtain ⟨a, j⟩ := p
    simp only [Keys, List.map_cons, List.nodup_cons] at hn
    simp only [Items.find]
    rcases List.mem_cons.mp h with heq | hmem
    · cases heq; simp
    · have : a ≠ k := by
        intro hak
        apply hn.1
        subst hak
        exact List.mem_map.mpr ⟨(a, i), hmem, rfl⟩
      simp only [this, if_false]
      exact ih hn.2 hmem

theorem keys_del_sublist (m : Items) (k : Nat) : (Keys (Items.del m k)).Sublist (Keys m) := by
  simp only [Keys, Items.del]
  exact List.Sublist.map _ List.filter_sublist

theorem nodup_del {m : Items} (k : Nat) (h : (Keys m).Nodup) : (Keys (Items.del m k)).Nodup :=
  List.Nodup.sublist (keys_del_sublist m k) h

theorem nodup_put {m : Items} (k i : Nat) (h : (Keys m).Nodup) : (Keys (Items.put m k i)).Nodup := by
  simp only [Items.put, Keys, List.map_cons, List.nodup_cons]
  refine ⟨?_, nodup_del k h⟩
  have := (find_eq_none_iff (Items.del m k) k).mp (by simp [find_del])
  exact this

theorem length_del_le (m : Items) (k : Nat) : (Items.del m k).length ≤ m.length :=
  List.length_filter_le _ _

/-! ### invariant and abstraction -/

/-- the slot condition: every mapped key points at a slot at or after `head` holding that key -/
def SlotOK (head : Nat) (order : List Entry) (it : Items) : Prop :=
  ∀ k i, it.find k = some i → head ≤ i ∧ ∃ e, order[i]? = some e ∧ e.key = k

structure Inv (s : TTL) : Prop where
  nodup : (Keys s.items).Nodup
  head_le : s.head ≤ s.order.length
  slot : SlotOK s.head s.order s.items

/-- abstraction function: key ↦ (value, expireAt) of the slot its index points at -/
def abs (s : TTL) (k : Nat) : Option (Int × Int) :=
  match s.items.find k with
  | some i => (s.order[i]?).map (fun e => (e.val, e.exp))
  | none => none

theorem inv_new (ttl : Int) : Inv (TTL.new ttl) :=
  ⟨by simp [TTL.new, Keys], by simp [TTL.new], by intro k i h; simp [TTL.new, Items.find] at h⟩

theorem abs_new (ttl : Int) (k : Nat) : abs (TTL.new ttl) k = none := by
  simp [abs, TTL.new, Items.find]

/-- injectivity: two keys cannot share an index -/
theorem slot_inj {head : Nat} {order : List Entry} {it : Items} (h : SlotOK head order it)
    {k k' i : Nat} (h1 : it.find k = some i) (h2 : it.find k' = some i) : k = k' := by
  obtain ⟨_, e, he, hk⟩ := h k i h1
  obtain ⟨_, e', he', hk'⟩ := h k' i h2
  rw [he] at he'
  cases he'
  rw [← hk, ← hk']

/-! ### evict -/

theorem drop_cons_getElem? {α} {l : List α} {h : Nat} {e : α} {rest : List α}
    (hd : l.drop h = e :: rest) : l[h]? = some e ∧ l.drop (h + 1) = rest := by
  constructor
  · have : (l.drop h)[0]? = some e := by rw [hd]; rfl
    simpa using this
  · have : (l.drop h).drop 1 = rest := by rw [hd]; rfl
    rw [List.drop_drop] at this
    exact this

/-- What the eviction loop does, for any starting head `h` with `l = order[h:]`:
    the head only moves forward over EXPIRED slots, a mapping survives unchanged or is dropped,
    and it is dropped only if its slot is expired at `now`. -/
theorem evictGo_spec (now : Int) (order : List Entry) :
    ∀ (l : List Entry) (h : Nat) (it : Items), order.drop h = l → h ≤ order.length →
      (Keys it).Nodup → SlotOK h order it →
      let r := evictGo now l h it
      h ≤ r.1 ∧ r.1 ≤ order.length ∧ (Keys r.2).Nodup ∧ SlotOK r.1 order r.2 ∧
      (∀ k i, r.2.find k = some i → it.find k = some i) ∧
      (∀ k i, it.find k = some i → r.2.find k = some i ∨
          (r.2.find k = none ∧ ∃ e, order[i]? = some e ∧ e.exp ≤ now)) ∧
      r.2.length ≤ it.length := by
  intro l
  induction l with
  | nil =>
    intro h it _ hh hn hs
    simp only [evictGo]
    exact ⟨Nat.le_refl _, hh, hn, hs, fun _ _ x => x, fun _ _ x => Or.inl x, Nat.le_refl _⟩
  | cons e rest ih =>
    intro h it hd hh hn hs
    obtain ⟨he, hrest⟩ := drop_cons_getElem? hd
    simp only [evictGo]
    by_cases hlive : now < e.exp
    · simp only [hlive, if_true]
      exact ⟨Nat.le_refl _, hh, hn, hs, fun _ _ x => x, fun _ _ x => Or.inl x, Nat.le_refl _⟩
    · simp only [hlive, if_false]
      have hlt : h < order.length := by
        rcases Nat.lt_or_ge h order.length with h1 | h1
        · exact h1
        · rw [List.getElem?_eq_none h1] at he; cases he
      -- the item map after this iteration
      generalize hit' : (if it.find e.key = some h then Items.del it e.key else it) = it'
      have hsub : ∀ k i, it'.find k = some i → it.find k = some i := by
        intro k i hk
        rw [← hit'] at hk
        split at hk
        · rw [find_del] at hk
          split at hk
          · cases hk
          · exact hk
        · exact hk
      have hn' : (Keys it').Nodup := by
        rw [← hit']; split
        · exact nodup_del _ hn
        · exact hn
      have hlen' : it'.length ≤ it.length := by
        rw [← hit']; split
        · exact length_del_le _ _
        · exact Nat.le_refl _
      have hs' : SlotOK (h + 1) order it' := by
        intro k i hk
        have hk0 := hsub k i hk
        obtain ⟨hle, e', he', hkey⟩ := hs k i hk0
        refine ⟨?_, e', he', hkey⟩
        rcases Nat.lt_or_ge h i with h1 | h1
        · exact h1
        · have hih : i = h := Nat.le_antisymm h1 hle
          subst hih
          rw [he] at he'
          cases he'
          -- then k = e.key and the mapping was deleted
          rw [← hit', ← hkey] at hk
          rw [← hkey] at hk0
          simp only [hk0, if_true, find_del] at hk
          cases hk
      have hdrop : ∀ k i, it.find k = some i → it'.find k = some i ∨
          (it'.find k = none ∧ ∃ e0, order[i]? = some e0 ∧ e0.exp ≤ now) := by
        intro k i hk
        rw [← hit']
        by_cases hc : it.find e.key = some h
        · simp only [hc, if_true, find_del]
          by_cases hke : k = e.key
          · right
            subst hke
            rw [hc] at hk
            cases hk
            exact ⟨by simp, e, he, by omega⟩
          · left; simp [hke, hk]
        · simp only [hc, if_false]; exact Or.inl hk
      obtain ⟨r1, r2, r3, r4, r5, r6, r7⟩ := ih (h + 1) it' hrest hlt hn' hs'
      refine ⟨by omega, r2, r3, r4, fun k i hk => hsub k i (r5 k i hk), ?_, by omega⟩
      intro k i hk
      rcases hdrop k i hk with h1 | ⟨h1, h2⟩
      · exact r6 k i h1
      · right
        refine ⟨?_, h2⟩
        cases hf : (evictGo now rest (h + 1) it').2.find k with
        | none => rfl
        | some j => have := r5 k j hf; rw [h1] at this; cases this

theorem inv_evict (now : Int) (s : TTL) (hi : Inv s) : Inv (evict now s) := by
  obtain ⟨_, r2, r3, r4, _, _, _⟩ := evictGo_spec now s.order _ s.head s.items rfl hi.head_le hi.nodup hi.slot
  exact ⟨r3, r2, r4⟩

/-- eviction never loses a live entry and never revives anything: the abstraction changes only
    by dropping entries whose deadline has passed -/
theorem abs_evict (now : Int) (s : TTL) (hi : Inv s) (k : Nat) :
    abs (evict now s) k = abs s k ∨
    (abs (evict now s) k = none ∧ ∃ v e, abs s k = some (v, e) ∧ e ≤ now) := by
  obtain ⟨_, _, _, _, r5, r6, _⟩ := evictGo_spec now s.order _ s.head s.items rfl hi.head_le hi.nodup hi.slot
  simp only [abs, evict]
  cases hf : s.items.find k with
  | none =>
    left
    cases hf' : (evictGo now (List.drop s.head s.order) s.head s.items).2.find k with
    | none => rfl
    | some j => have := r5 k j hf'; rw [hf] at this; cases this
  | some i =>
    rcases r6 k i hf with h1 | ⟨h1, e, he, hexp⟩
    · left; simp only [h1]
    · right; simp only [h1, he, Option.map_some]
      exact ⟨trivial, e.val, e.exp, rfl, hexp⟩

theorem evict_order (now : Int) (s : TTL) : (evict now s).order = s.order := rfl
theorem evict_ttl (now : Int) (s : TTL) : (evict now s).ttl = s.ttl := rfl

/-! ### maybeCompact -/

/-- slow path: exactly the slots that are the live mapping of their key are kept -/
theorem mem_compactSlow (it : Items) : ∀ (l : List Entry) (i : Nat) (e : Entry),
    e ∈ compactSlow it l i ↔ ∃ j, l[j]? = some e ∧ it.find e.key = some (i + j) := by
  intro l
  induction l with
  | nil => intro i e; simp [compactSlow]
  | cons a rest ih =>
    intro i e
    simp only [compactSlow]
    constructor
    · intro hm
      by_cases hc : it.find a.key = some i
      · simp only [hc, if_true, List.mem_cons] at hm
        rcases hm with rfl | hm
        · exact ⟨0, by simp, by simpa using hc⟩
        · obtain ⟨j, h1, h2⟩ := (ih (i + 1) e).mp hm
          exact ⟨j + 1, by simpa using h1, by rw [h2]; congr 1; omega⟩
      · simp only [hc, if_false] at hm
        obtain ⟨j, h1, h2⟩ := (ih (i + 1) e).mp hm
        exact ⟨j + 1, by simpa using h1, by rw [h2]; congr 1; omega⟩
    · rintro ⟨j, h1, h2⟩
      cases j with
      | zero =>
        simp only [List.getElem?_cons_zero, Option.some.injEq] at h1
        subst h1
        simp only [Nat.add_zero] at h2
        simp [h2]
      | succ j =>
        simp only [List.getElem?_cons_succ] at h1
        have : e ∈ compactSlow it rest (i + 1) :=
          (ih (i + 1) e).mpr ⟨j, h1, by rw [h2]; congr 1; omega⟩
        split
        · exact List.mem_cons_of_mem _ this
        · exact this

theorem compactSlow_keys_nodup (it : Items) : ∀ (l : List Entry) (i : Nat),
    ((compactSlow it l i).map Entry.key).Nodup := by
  intro l
  induction l with
  | nil => intro i; simp [compactSlow]
  | cons a rest ih =>
    intro i
    simp only [compactSlow]
    split
    · rename_i hc
      simp only [List.map_cons, List.nodup_cons]
      refine ⟨?_, ih (i + 1)⟩
      intro hm
      obtain ⟨e, he, hk⟩ := List.mem_map.mp hm
      obtain ⟨j, _, h2⟩ := (mem_compactSlow it rest (i + 1) e).mp he
      rw [hk, hc] at h2
      simp only [Option.some.injEq] at h2
      omega
    · exact ih (i + 1)

/-- when every slot of the region is a live mapping the slow path keeps everything -/
theorem compactSlow_all (it : Items) : ∀ (l : List Entry) (i : Nat),
    (∀ j e, l[j]? = some e → it.find e.key = some (i + j)) → compactSlow it l i = l := by
  intro l
  induction l with
  | nil => intro i _; rfl
  | cons a rest ih =>
    intro i h
    simp only [compactSlow]
    have h0 := h 0 a (by simp)
    simp only [Nat.add_zero] at h0
    simp only [h0, if_true]
    congr 1
    apply ih
    intro j e he
    have := h (j + 1) e (by simpa using he)
    rw [this]; congr 1; omega

/-- `reindex`: a key of the list gets (one of) its position(s); other keys are untouched -/
theorem find_reindex_notin : ∀ (l : List Entry) (p : Nat) (it : Items) (k : Nat),
    k ∉ l.map Entry.key → (reindex l p it).find k = it.find k := by
  intro l
  induction l with
  | nil => intro p it k _; rfl
  | cons a rest ih =>
    intro p it k hk
    simp only [List.map_cons, List.mem_cons, not_or] at hk
    simp only [reindex]
    rw [ih (p + 1) _ k hk.2, find_put]
    simp [hk.1]

theorem find_reindex_in : ∀ (l : List Entry) (p : Nat) (it : Items),
    (l.map Entry.key).Nodup → ∀ q e, l[q]? = some e → (reindex l p it).find e.key = some (p + q) := by
  intro l
  induction l with
  | nil => intro p it _ q e h; simp at h
  | cons a rest ih =>
    intro p it hn q e h
    simp only [List.map_cons, List.nodup_cons] at hn
    simp only [reindex]
    cases q with
    | zero =>
      simp only [List.getElem?_cons_zero, Option.some.injEq] at h
      subst h
      rw [find_reindex_notin rest (p + 1) _ a.key hn.1, find_put]
      simp
    | succ q =>
      simp only [List.getElem?_cons_succ] at h
      rw [ih (p + 1) _ hn.2 q e h]
      congr 1; omega

theorem nodup_reindex : ∀ (l : List Entry) (p : Nat) (it : Items),
    (Keys it).Nodup → (Keys (reindex l p it)).Nodup := by
  intro l
  induction l with
  | nil => intro p it h; exact h
  | cons a rest ih => intro p it h; exact ih (p + 1) _ (nodup_put _ _ h)

/-- pigeonhole: `n` distinct numbers inside `[a, a+n)` are all of them -/
theorem pigeon (idxs : List Nat) (a n : Nat) (hn : idxs.Nodup) (hr : ∀ x ∈ idxs, a ≤ x ∧ x < a + n)
    (hl : n ≤ idxs.length) : ∀ j, a ≤ j → j < a + n → j ∈ idxs := by
  intro j h1 h2
  refine Classical.byContradiction fun hj => ?_
  have hsub : idxs ⊆ (List.range' a n).erase j := by
    intro x hx
    have := hr x hx
    have hxj : x ≠ j := fun h => hj (h ▸ hx)
    exact (List.mem_erase_of_ne hxj).mpr (List.mem_range'_1.mpr ⟨this.1, this.2⟩)
  have hle := List.Nodup.length_le_of_subset hn hsub
  have hmem : j ∈ List.range' a n := List.mem_range'_1.mpr ⟨h1, h2⟩
  rw [List.length_erase] at hle
  simp only [hmem, if_true, List.length_range'] at hle
  omega

/-- the fast-path test is sound: if `len(items)` equals the size of the region then every slot
    of the region is the live mapping of its key -/
theorem region_full (s : TTL) (hi : Inv s) (hfull : s.items.length = s.order.length - s.head) :
    ∀ j e, (s.order.drop s.head)[j]? = some e → s.items.find e.key = some (s.head + j) := by
  intro j e he
  rw [List.getElem?_drop] at he
  have hjlt : s.head + j < s.order.length := by
    rcases Nat.lt_or_ge (s.head + j) s.order.length with h | h
    · exact h
    · rw [List.getElem?_eq_none h] at he; cases he
  have hnodup : (s.items.map Prod.snd).Nodup := by
    have hni : s.items.Nodup := by
      have := hi.nodup
      simp only [Keys, List.nodup_iff_pairwise_ne, List.pairwise_map] at this
      rw [List.nodup_iff_pairwise_ne]
      exact this.imp (fun h heq => h (by rw [heq]))
    rw [List.nodup_iff_pairwise_ne] at hni ⊢
    rw [List.pairwise_map]
    refine hni.imp_of_mem ?_
    intro p1 p2 hp1 hp2 hne heq
    apply hne
    obtain ⟨k1, i1⟩ := p1
    obtain ⟨k2, i2⟩ := p2
    simp only at heq
    subst heq
    have f1 := find_of_mem hi.nodup hp1
    have f2 := find_of_mem hi.nodup hp2
    rw [slot_inj hi.slot f1 f2]
  have hrange : ∀ x ∈ s.items.map Prod.snd, s.head ≤ x ∧ x < s.head + (s.order.length - s.head) := by
    intro x hx
    obtain ⟨⟨k, i⟩, hp, rfl⟩ := List.mem_map.mp hx
    have f := find_of_mem hi.nodup hp
    obtain ⟨h1, e', he', _⟩ := hi.slot k i f
    refine ⟨h1, ?_⟩
    simp only
    rcases Nat.lt_or_ge i s.order.length with h | h
    · omega
    · rw [List.getElem?_eq_none h] at he'; cases he'
  have hmem := pigeon _ s.head (s.order.length - s.head) hnodup hrange (by simp [hfull])
    (s.head + j) (by omega) (by omega)
  obtain ⟨⟨k, i⟩, hp, hpi⟩ := List.mem_map.mp hmem
  simp only at hpi
  subst hpi
  have f := find_of_mem hi.nodup hp
  obtain ⟨_, e', he', hk⟩ := hi.slot k _ f
  rw [he] at he'
  cases he'
  rw [hk]; exact f

/-- under the invariant the fast path and the slow path keep the same slots -/
theorem kept_eq_slow (s : TTL) (hi : Inv s) :
    (if s.items.length = s.order.length - s.head then s.order.drop s.head
      else compactSlow s.items (s.order.drop s.head) s.head)
    = compactSlow s.items (s.order.drop s.head) s.head := by
  split
  · rename_i hfull
    exact (compactSlow_all s.items _ s.head (region_full s hi hfull)).symm
  · rfl

theorem maybeCompact_ttl (s : TTL) : (maybeCompact s).ttl = s.ttl := by
  unfold maybeCompact; split <;> rfl

/-- compaction preserves the invariant and does not change the abstraction at all -/
theorem compact_spec (s : TTL) (hi : Inv s) :
    Inv (maybeCompact s) ∧ ∀ k, abs (maybeCompact s) k = abs s k := by
  unfold maybeCompact
  split
  · exact ⟨hi, fun _ => rfl⟩
  · simp only [kept_eq_slow s hi]
    generalize hkept : compactSlow s.items (s.order.drop s.head) s.head = kept
    have hkn : (kept.map Entry.key).Nodup := by rw [← hkept]; exact compactSlow_keys_nodup _ _ _
    have hmem : ∀ e, e ∈ kept ↔ ∃ j, (s.order.drop s.head)[j]? = some e ∧ s.items.find e.key = some (s.head + j) := by
      intro e; rw [← hkept]; exact mem_compactSlow _ _ _ _
    -- every mapped key has its slot in `kept`
    have hin : ∀ k i, s.items.find k = some i → ∃ e, s.order[i]? = some e ∧ e.key = k ∧ e ∈ kept := by
      intro k i hf
      obtain ⟨hle, e, he, hk⟩ := hi.slot k i hf
      refine ⟨e, he, hk, (hmem e).mpr ⟨i - s.head, ?_, ?_⟩⟩
      · rw [List.getElem?_drop]
        have : s.head + (i - s.head) = i := by omega
        rw [this]; exact he
      · rw [hk, hf]; congr 1; omega
    have hnone : ∀ k, s.items.find k = none → (reindex kept 0 s.items).find k = none := by
      intro k hf
      rw [find_reindex_notin kept 0 s.items k, hf]
      intro hm
      obtain ⟨e, he, hk⟩ := List.mem_map.mp hm
      obtain ⟨j, _, h2⟩ := (hmem e).mp he
      rw [hk, hf] at h2; cases h2
    constructor
    · refine ⟨nodup_reindex _ _ _ hi.nodup, Nat.zero_le _, ?_⟩
      intro k q hq
      refine ⟨Nat.zero_le _, ?_⟩
      simp only at hq ⊢
      by_cases hk : k ∈ kept.map Entry.key
      · obtain ⟨e, he, hke⟩ := List.mem_map.mp hk
        obtain ⟨q', hq'⟩ := List.getElem?_of_mem he
        have := find_reindex_in kept 0 s.items hkn q' e hq'
        rw [hke, hq] at this
        simp only [Nat.zero_add, Option.some.injEq] at this
        subst this
        exact ⟨e, hq', hke⟩
      · rw [find_reindex_notin kept 0 s.items k hk] at hq
        obtain ⟨e, _, hke, hek⟩ := hin k q hq
        exact absurd (List.mem_map.mpr ⟨e, hek, hke⟩) hk
    · intro k
      simp only [abs]
      cases hf : s.items.find k with
      | none => rw [hnone k hf]
      | some i =>
        obtain ⟨e, he, hke, hek⟩ := hin k i hf
        obtain ⟨q, hq⟩ := List.getElem?_of_mem hek
        have := find_reindex_in kept 0 s.items hkn q e hq
        rw [hke] at this
        simp only [Nat.zero_add] at this
        simp only [this, hq, he]

end GoaktVerif.C48

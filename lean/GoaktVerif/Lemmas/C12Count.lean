/-
C12 helper lemmas for the message-count clause: every passivation attempt of the message-count path
(`countFire`) is preceded by a `crossed` event of the same entry, i.e. by a MessageProcessed call that
found processed ≥ baseline + maxMessages (`C12_count_threshold`).
-/
import GoaktVerif.Lemmas.C12

namespace GoaktVerif.C12
open GoaktVerif.Model.C12 GoaktVerif.Model.C12.State

def Crossed (log : List Ev) (g : Nat) : Prop := ∃ a p b m, Ev.crossed a g p b m ∈ log

def isFire : Ev → Bool
  | .countFire _ _ => true
  | _ => false

theorem Crossed.mono {log : List Ev} {g : Nat} (l : List Ev) (h : Crossed log g) : Crossed (l ++ log) g := by
  obtain ⟨a, p, b, m, hm⟩ := h
  exact ⟨a, p, b, m, List.mem_append_right _ hm⟩

/-- nothing is put on the trigger channel, and no entry becomes pending, without a crossing -/
structure FrameC (s t : State) : Prop where
  log : ∃ l, t.log = l ++ s.log ∧ ∀ e ∈ l, isFire e = false
  chan : ∀ g ∈ t.chan, g ∈ s.chan ∨ (s.objs g).pending = true ∨ Crossed t.log g
  pend : ∀ g, (t.objs g).pending = true → (s.objs g).pending = true ∨ Crossed t.log g

theorem FrameC.refl (s : State) : FrameC s s :=
  ⟨⟨[], rfl, by simp⟩, fun _ h => Or.inl h, fun _ h => Or.inl h⟩

theorem FrameC.trans {s t u : State} (h1 : FrameC s t) (h2 : FrameC t u) : FrameC s u := by
  obtain ⟨l1, e1, p1⟩ := h1.log
  obtain ⟨l2, e2, p2⟩ := h2.log
  have mono : ∀ g, Crossed t.log g → Crossed u.log g := fun g h => by rw [e2]; exact h.mono l2
  have pend : ∀ g, (t.objs g).pending = true → (s.objs g).pending = true ∨ Crossed u.log g := fun g h =>
    (h1.pend g h).imp id (mono g)
  refine ⟨⟨l2 ++ l1, by rw [e2, e1, List.append_assoc], ?_⟩, ?_, ?_⟩
  · intro e he
    rcases List.mem_append.mp he with h | h
    · exact p2 e h
    · exact p1 e h
  · intro g hg
    rcases h2.chan g hg with h | h | h
    · rcases h1.chan g h with h' | h' | h'
      · exact Or.inl h'
      · exact Or.inr (Or.inl h')
      · exact Or.inr (Or.inr (mono g h'))
    · exact Or.inr (pend g h)
    · exact Or.inr (Or.inr h)
  · intro g hg
    rcases h2.pend g hg with h | h
    · exact pend g h
    · exact Or.inr h

theorem FrameC.of_eq {s t : State} (hl : t.log = s.log) (hc : t.chan = s.chan) (ho : t.objs = s.objs) : FrameC s t :=
  ⟨⟨[], by simpa using hl, by simp⟩, fun g h => Or.inl (hc ▸ h), fun g h => Or.inl (ho ▸ h)⟩

theorem SameCore.frameC {s t : State} (h : SameCore s t) : FrameC s t := FrameC.of_eq h.log h.chan h.objs

theorem frameC_setA (s : State) (a : Nat) (f : Actor → Actor) : FrameC s (s.setA a f) := FrameC.of_eq rfl rfl rfl

/-- an entry update that does not set `pending` -/
theorem frameC_setE (s : State) (g : Nat) (f : Entry → Entry)
    (h : (f (s.objs g)).pending = true → (s.objs g).pending = true) : FrameC s (s.setE g f) := by
  refine ⟨⟨[], rfl, by simp⟩, fun _ hx => Or.inl hx, fun x hx => Or.inl ?_⟩
  by_cases hxg : x = g
  · subst hxg; exact h (by simpa [setE, upd] using hx)
  · simpa [setE, upd, hxg] using hx

theorem frameC_emit (s : State) (e : Ev) (h : isFire e = false) : FrameC s (s.emit e) :=
  ⟨⟨[e], rfl, by simpa using h⟩, fun _ hx => Or.inl hx, fun _ hx => Or.inl hx⟩

/-- signalling an entry that is pending -/
theorem frameC_signal (s : State) (g : Nat) (h : (s.objs g).pending = true) : FrameC s (s.signal g) := by
  refine ⟨⟨[], rfl, by simp⟩, fun x hx => ?_, fun _ hx => Or.inl hx⟩
  simp only [signal, List.mem_append, List.mem_singleton] at hx
  rcases hx with hx | rfl
  · exact Or.inl hx
  · exact Or.inr (Or.inl h)

/-- `MessageProcessed` reaching the threshold: pending is set together with the crossing event -/
theorem frameC_crossing (s : State) (a g : Nat) (p b m : Int) :
    FrameC s ((s.setE g fun e => { e with pending := true }).emit (.crossed a g p b m)) := by
  refine ⟨⟨[.crossed a g p b m], rfl, by simp [isFire]⟩, fun _ hx => Or.inl hx, fun x hx => ?_⟩
  by_cases hxg : x = g
  · subst hxg; exact Or.inr ⟨a, p, b, m, by simp [emit]⟩
  · left; simpa [emit, setE, upd, hxg] using hx

theorem frameC_refresh (s : State) (g : Nat) : FrameC s (s.refresh g) := by
  unfold refresh
  exact frameC_setE _ _ _ (fun h => h)
theorem frameC_setIdx (s : State) (g : Nat) (v : Int) : FrameC s (s.setIdx g v) := FrameC.of_eq rfl rfl rfl
theorem frameC_delEntry (s : State) (a : Nat) : FrameC s (s.delEntry a) := FrameC.of_eq rfl rfl rfl
theorem frameC_hpush (s : State) (g : Nat) : FrameC s (s.hpush g) := (sameCore_hpush s g).frameC
theorem frameC_hpop (s : State) : FrameC s s.hpop := (sameCore_hpop s).frameC
theorem frameC_hfix (s : State) (i : Int) : FrameC s (s.hfix i) := (sameCore_hfix s i).frameC
theorem frameC_hremove (s : State) (i : Int) : FrameC s (s.hremove i) := (sameCore_hremove s i).frameC
theorem frameC_dropFromHeap (s : State) (g : Nat) : FrameC s (s.dropFromHeap g) := (sameCore_dropFromHeap s g).frameC

theorem frameC_allocEntry (s : State) (a : Nat) : FrameC s (s.allocEntry a) := by
  refine ⟨⟨[], rfl, by simp⟩, fun _ hx => Or.inl hx, fun x hx => Or.inl ?_⟩
  by_cases hx' : x = s.nE
  · subst hx'; simp [allocEntry, upd] at hx
  · simpa [allocEntry, upd, hx'] using hx

theorem frameC_regTarget (s : State) (a : Nat) : FrameC s (s.regTarget a).1 := by
  unfold regTarget
  split
  · exact frameC_allocEntry _ _
  · exact frameC_dropFromHeap _ _

theorem frameC_regFinish (s : State) (a g : Nat) (st : Strat) : FrameC s (s.regFinish a g st) := by
  unfold regFinish
  cases st with
  | time T => exact (((frameC_setE _ _ _ (by intro h; simp at h)).trans (frameC_setE _ _ _ (fun h => h))).trans (frameC_refresh _ _)).trans (frameC_hpush _ _)
  | count n => exact (frameC_setE _ _ _ (by intro h; simp at h)).trans (frameC_setE _ _ _ (fun h => h))
  | longLived => exact (frameC_setE _ _ _ (by intro h; simp at h)).trans (frameC_delEntry _ _)

theorem frameC_register (s : State) (a : Nat) (st : Strat) : FrameC s (s.register a st) :=
  (frameC_regTarget s a).trans (frameC_regFinish _ _ _ _)

theorem frameC_unregister (s : State) (a : Nat) : FrameC s (s.unregister a) := by
  unfold unregister
  split
  · exact FrameC.refl s
  · exact (frameC_dropFromHeap _ _).trans (frameC_delEntry _ _)

theorem frameC_mpause (s : State) (a : Nat) : FrameC s (s.mpause a) := by
  unfold mpause
  split
  · exact FrameC.refl s
  · split
    · exact FrameC.refl s
    · exact (frameC_setE _ _ _ (fun h => h)).trans (frameC_dropFromHeap _ _)

theorem frameC_resumeEntry (s : State) (g : Nat) : FrameC s (s.resumeEntry g) := by
  unfold resumeEntry
  dsimp only
  split
  · exact ((frameC_setE _ _ _ (fun h => h)).trans (frameC_refresh _ _)).trans (frameC_hpush _ _)
  · split
    · rename_i _ hp
      simp only [Bool.and_eq_true] at hp
      refine ((frameC_setE _ _ _ (fun h => h)).trans (frameC_setE _ _ _ (fun h => h))).trans (frameC_signal _ _ ?_)
      simpa [setE, upd] using hp.1
    · exact frameC_setE _ _ _ (fun h => h)

theorem frameC_mresumeS (s : State) (a : Nat) : FrameC s (s.mresumeS a) := by
  unfold mresumeS
  split
  · exact FrameC.refl s
  · split
    · exact FrameC.refl s
    · exact frameC_resumeEntry _ _

theorem frameC_mtouch (s : State) (a : Nat) : FrameC s (s.mtouch a) := by
  unfold mtouch
  split
  · exact FrameC.refl s
  · split
    · exact FrameC.refl s
    · split
      · exact FrameC.refl s
      · exact (frameC_refresh _ _).trans (frameC_hfix _ _)

theorem frameC_mproc (s : State) (a : Nat) : FrameC s (s.mproc a) := by
  unfold mproc
  cases hE : s.entries a with
  | none => exact FrameC.refl s
  | some g =>
    dsimp only
    split
    · exact FrameC.refl s
    · split
      · exact FrameC.refl s
      · have he : FrameC s ((s.setE g fun e => { e with pending := true }).emit
            (.crossed a g (s.actors a).processed (s.objs g).baseline (s.objs g).maxMessages)) :=
          frameC_crossing _ _ _ _ _ _
        split
        · exact he
        · refine (he.trans (frameC_setE _ _ _ (fun h => h))).trans (frameC_signal _ _ ?_)
          simp [setE, emit, upd]

theorem frameC_markActivity (s : State) (a : Nat) : FrameC s (s.markActivity a) := by
  unfold markActivity
  dsimp only
  split
  · exact ((frameC_setA _ _ _).trans (frameC_setA _ _ _)).trans (frameC_mtouch _ _)
  · exact frameC_setA _ _ _

theorem frameC_recordProcessed (s : State) (a : Nat) : FrameC s (s.recordProcessed a) := by
  unfold recordProcessed
  dsimp only
  split
  · exact (frameC_setA _ _ _).trans (frameC_mproc _ _)
  · exact frameC_setA _ _ _

theorem frameC_startPassivation (s : State) (a : Nat) : FrameC s (s.startPassivation a) := by
  unfold startPassivation
  split
  · exact FrameC.refl s
  · exact frameC_register _ _ _

theorem frameC_pausePassivation (s : State) (a : Nat) : FrameC s (s.pausePassivation a) :=
  (frameC_mpause _ _).trans (frameC_setA _ _ _)

theorem frameC_resumePassivation (s : State) (a : Nat) : FrameC s (s.resumePassivation a) := by
  unfold resumePassivation
  split
  · dsimp only
    split
    · exact (frameC_setA _ _ _).trans (frameC_mresumeS _ _)
    · exact ((frameC_setA _ _ _).trans (frameC_mresumeS _ _)).trans (frameC_startPassivation _ _)
  · exact frameC_startPassivation _ _

theorem frameC_suspend (s : State) (a : Nat) : FrameC s (s.suspend a) :=
  (frameC_setA _ _ _).trans (frameC_pausePassivation _ _)

theorem frameC_reinstate (s : State) (a : Nat) : FrameC s (s.reinstate a) := by
  unfold reinstate
  split
  · exact FrameC.refl s
  · exact ((frameC_setA _ _ _).trans (frameC_markActivity _ _)).trans (frameC_resumePassivation _ _)


theorem frameC_doStopS (s : State) (a : Nat) : FrameC s (s.doStopS a) :=
  (frameC_emit _ _ rfl).trans (frameC_setA _ _ _)

theorem frameC_tryS (s : State) (a : Nat) (src : Src) : FrameC s (s.tryS a src) := by
  unfold tryS
  dsimp only
  split
  · split
    · exact (frameC_setA _ _ _).trans (frameC_emit _ _ rfl)
    · exact frameC_emit _ _ rfl
  · exact ((frameC_unregister _ _).trans (frameC_doStopS _ _)).trans (frameC_emit _ _ rfl)

theorem frameC_shutdown (s : State) (a : Nat) : FrameC s (s.shutdown a) := by
  unfold shutdown
  split
  · exact FrameC.refl s
  · exact ((frameC_setA _ _ _).trans (frameC_unregister _ _)).trans (frameC_doStopS _ _)

theorem frameC_sstep (s : State) (o : SOp) : FrameC s (sstep s o).1 := by
  cases o <;> simp only [sstep]
  case act a => exact frameC_markActivity _ _
  case recd a => exact frameC_recordProcessed _ _
  case pause a => exact frameC_pausePassivation _ _
  case resume a => exact frameC_resumePassivation _ _
  case susp a => exact frameC_suspend _ _
  case reinst a => exact frameC_reinstate _ _
  case stop a => exact frameC_shutdown _ _
  case mreg a => exact frameC_register _ _ _
  case munreg a => exact frameC_unregister _ _
  case mpause a => exact frameC_mpause _ _
  case mresume a => exact frameC_mresumeS _ _
  case mtouch a => exact frameC_mtouch _ _
  case mproc a => exact frameC_mproc _ _
  case try_ a => exact frameC_tryS _ _ _
  case sysstop b => exact FrameC.of_eq rfl rfl rfl
  case flagstop a b => exact frameC_setA _ _ _
  case deliver a => split; exact (frameC_markActivity _ _).trans (frameC_recordProcessed _ _); exact FrameC.refl s
  case pauseMsg a => split; exact frameC_pausePassivation _ _; exact FrameC.refl s
  case resumeMsg a => split; exact frameC_resumePassivation _ _; exact FrameC.refl s
  case fail a => split; exact frameC_suspend _ _; exact FrameC.refl s
  case reinstateApi a => split; exact frameC_reinstate _ _; exact FrameC.refl s

theorem frameC_srun (s : State) (os : List SOp) : FrameC s (srun s os) := by
  induction os generalizing s with
  | nil => exact FrameC.refl s
  | cons o os ih => exact (frameC_sstep s o).trans (ih _)

theorem frameC_passivateS (s : State) (g : Nat) (src : Src) (pre post : List SOp) :
    FrameC s (passivateS s g src pre post) :=
  ((frameC_srun _ _).trans (frameC_tryS _ _ _)).trans (frameC_srun _ _)

theorem frameC_nextEntry (f : Nat) (s : State) : FrameC s (nextEntry f s).1 := by
  fun_induction nextEntry f s with
  | case1 => exact FrameC.refl _
  | case2 => exact FrameC.refl _
  | case3 => exact (frameC_hremove _ _).trans (frameC_setIdx _ _ _)
  | case4 f s g _ hq hp hh ih => exact ((frameC_hremove _ _).trans (frameC_setIdx _ _ _)).trans ih
  | case5 => exact FrameC.refl _
  | case6 => exact FrameC.refl _

theorem frameC_popHead (s : State) (g : Nat) : FrameC s (s.popHead g) := by
  unfold popHead
  exact ((frameC_emit _ _ rfl).trans (frameC_hpop _)).trans (frameC_setIdx _ _ _)

theorem frameC_trigger (f : Nat) (s : State) (g : Nat) (pre post : List SOp) : FrameC s (trigger f s g pre post) := by
  fun_induction trigger f s g pre post with
  | case1 => exact FrameC.refl _
  | case2 => exact FrameC.refl _
  | case3 => exact FrameC.refl _
  | case4 => exact FrameC.of_eq rfl rfl rfl
  | case5 s g pre post h _ hq hh hd f a t ht =>
    exact (frameC_popHead s g).trans (frameC_passivateS _ _ _ _ _)
  | case6 s g pre post h _ hq hh hd f a t ht hb =>
    exact ((frameC_popHead s g).trans (frameC_passivateS _ _ _ _ _)).trans (frameC_delEntry _ _)
  | case7 s g pre post h _ hq hh hd f a t ht hb hp =>
    exact (frameC_popHead s g).trans (frameC_passivateS _ _ _ _ _)
  | case8 s g pre post h _ hq hh hd f a t ht hb hp hx ih =>
    exact ((((frameC_popHead s g).trans (frameC_passivateS _ _ _ _ _)).trans (frameC_refresh _ _)).trans (frameC_hpush _ _)).trans ih
  | case9 s g pre post h _ hq hh hd f a t ht hb hp hx ih =>
    exact ((frameC_popHead s g).trans (frameC_passivateS _ _ _ _ _)).trans ih

theorem frameC_tickStep (s : State) (pre post : List SOp) : FrameC s (tickStep s pre post) := by
  unfold tickStep
  split
  · exact frameC_nextEntry _ _
  · exact (frameC_nextEntry _ _).trans (frameC_trigger _ _ _ _ _)

/-! ### the invariant -/

/-- everything on the trigger channel, every pending entry and every count-path attempt so far goes
    back to a crossing of the threshold by that very entry -/
structure CInv (s : State) : Prop where
  chan : ∀ g ∈ s.chan, Crossed s.log g
  pend : ∀ g, (s.objs g).pending = true → Crossed s.log g
  fire : ∀ a g, Ev.countFire a g ∈ s.log → Crossed s.log g

theorem FrameC.cinv {s t : State} (h : FrameC s t) (hi : CInv s) : CInv t := by
  obtain ⟨l, hl, hp⟩ := h.log
  have mono : ∀ g, Crossed s.log g → Crossed t.log g := fun g hc => by rw [hl]; exact hc.mono l
  refine ⟨fun g hg => ?_, fun g hg => ?_, fun a g hm => ?_⟩
  · rcases h.chan g hg with h' | h' | h'
    · exact mono g (hi.chan g h')
    · exact mono g (hi.pend g h')
    · exact h'
  · rcases h.pend g hg with h' | h'
    · exact mono g (hi.pend g h')
    · exact h'
  · rw [hl] at hm
    rcases List.mem_append.mp hm with h' | h'
    · have := hp _ h'; simp [isFire] at this
    · exact mono g (hi.fire a g h')

/-- emitting `countFire` for an entry that has crossed -/
theorem cinv_fire (s : State) (a g : Nat) (hi : CInv s) (hg : Crossed s.log g) : CInv (s.emit (.countFire a g)) := by
  have mono : ∀ x, Crossed s.log x → Crossed (s.emit (.countFire a g)).log x := fun x hc => hc.mono [_]
  refine ⟨fun x hx => mono x (hi.chan x hx), fun x hx => mono x (hi.pend x hx), fun a' g' hm => ?_⟩
  simp only [emit, List.mem_cons] at hm
  rcases hm with heq | hm
  · cases heq; exact mono g hg
  · exact mono g' (hi.fire a' g' hm)

theorem cinv_processMessageEntry (s : State) (g : Nat) (pre post : List SOp) (hi : CInv s) (hg : Crossed s.log g) :
    CInv (processMessageEntry s g pre post) := by
  unfold processMessageEntry
  dsimp only
  have ht : CInv ((passivateS (s.emit (.countFire (s.objs g).actor g)) g .count pre post).setE g
      fun e => { e with enqueued := false }) :=
    ((frameC_passivateS _ _ _ _ _).trans (frameC_setE _ _ _ (fun h => h))).cinv (cinv_fire s _ g hi hg)
  split
  · exact hi
  · split
    · exact (frameC_setE _ _ _ (fun h => h)).cinv hi
    · split
      · exact ht
      · split
        · exact ((frameC_delEntry _ _).trans (frameC_setE _ _ _ (by intro h; simp at h))).cinv ht
        · split
          · exact ht
          · split
            · rename_i hp
              simp only [Bool.and_eq_true] at hp
              refine ((frameC_setE _ _ _ (fun h => h)).trans (frameC_signal _ _ ?_)).cinv ht
              simpa [setE, upd] using hp.1
            · exact ht

theorem cinv_drainStep (s : State) (pre post : List SOp) (hi : CInv s) : CInv (drainStep s pre post) := by
  unfold drainStep
  split
  · exact hi
  · rename_i g rest hc
    have hg : Crossed s.log g := hi.chan g (by rw [hc]; simp)
    have hi' : CInv { s with chan := rest } :=
      ⟨fun x hx => hi.chan x (by rw [hc]; exact List.mem_cons_of_mem _ hx), hi.pend, hi.fire⟩
    exact cinv_processMessageEntry _ g pre post hi' hg

theorem cinv_step (s : State) (o : Op) (hi : CInv s) : CInv (step s o) := by
  unfold step
  split
  · exact hi
  · cases o with
    | adv d => exact ⟨hi.chan, hi.pend, hi.fire⟩
    | simple o => exact (frameC_sstep _ _).cinv hi
    | tick pre post => exact (frameC_tickStep _ _ _).cinv hi
    | drain pre post => exact cinv_drainStep _ _ _ hi

theorem cinv_run (s : State) (os : List Op) (hi : CInv s) : CInv (run s os) := by
  induction os generalizing s with
  | nil => exact hi
  | cons o os ih => exact ih _ (cinv_step s o hi)

theorem cinv_spawnAll (s : State) (cfg : List (Strat × Bool)) (hi : CInv s) : CInv (spawnAll s cfg) := by
  induction cfg generalizing s with
  | nil => exact hi
  | cons c cfg ih =>
    obtain ⟨st, fail⟩ := c
    unfold spawnAll
    apply ih
    apply (frameC_startPassivation _ _).cinv
    exact ⟨hi.chan, hi.pend, hi.fire⟩

theorem cinv_reachable (cfg : List (Strat × Bool)) (ops : List Op) : CInv (run (init cfg) ops) :=
  cinv_run _ _ (cinv_spawnAll _ _ ⟨by simp, by simp, by simp⟩)

end GoaktVerif.C12

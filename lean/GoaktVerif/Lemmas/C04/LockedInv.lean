/-
C04 — `UnboundedPriorityMailBox` (repaired code: `length` is updated inside the critical section):
mutual exclusion of the critical section and exactness of the counter, for all schedules.
-/
import GoaktVerif.Model.C04.All
import GoaktVerif.Lemmas.C04.CoreLemmas
import GoaktVerif.Lemmas.C04.HeapCorrect

namespace GoaktVerif.C04.LockedInv
open GoaktVerif.Model.C04

abbrev LA (lt : Nat → Nat → Bool) : Algo := Locked.algo lt
abbrev Th := Thread Locked.PC

/-- the thread is inside the critical section (parked at `Add:length`, holding the lock) -/
def atCrit : Option Locked.PC → Bool
  | some .enq2 => true
  | some (.deq3 _) => true
  | _ => false

/-- what the counter must be, given where the lock holder (if any) is -/
def counterOK (s : Locked.Sh) : Option Locked.PC → Prop
  | some .enq2 => s.locked = true ∧ s.length + 1 = s.heap.length
  | some (.deq3 _) => s.locked = true ∧ s.length = s.heap.length + 1
  | _ => True

structure Inv {lt : Nat → Nat → Bool} (c : Cfg (LA lt)) : Prop where
  free : c.sh.locked = false → c.sh.length = c.sh.heap.length
  crit : ∀ (i : Nat) (t : Th), c.threads[i]? = some t → counterOK c.sh t.pc
  uniq : ∀ (i j : Nat) (ti tj : Th), c.threads[i]? = some ti → c.threads[j]? = some tj →
    atCrit ti.pc = true → atCrit tj.pc = true → i = j
  held : c.sh.locked = true → ∃ (i : Nat) (t : Th), c.threads[i]? = some t ∧ atCrit t.pc = true

theorem push_length {lt : Nat → Nat → Bool} (xs : List Nat) (x : Nat) : (Heap.push lt xs x).length = xs.length + 1 := by
  have := (GoaktVerif.C04.Heap.push_perm (lt := lt) xs x).length_eq
  simpa using this

theorem pop_length {lt : Nat → Nat → Bool} (xs : List Nat) (x : Nat) (rest : List Nat) (h : Heap.pop lt xs = some (x, rest)) :
    rest.length + 1 = xs.length := by
  have := (GoaktVerif.C04.Heap.pop_perm xs x rest h).length_eq
  simpa using this

theorem get_set_self' {α} {l : List α} {i : Nat} {t t' : α} (h : l[i]? = some t) : (l.set i t')[i]? = some t' := by
  have hl : i < l.length := by
    rcases Nat.lt_or_ge i l.length with h' | h'
    · exact h'
    · rw [List.getElem?_eq_none h'] at h; cases h
  simp [hl]

theorem get_set_ne' {α} {l : List α} {i j : Nat} {t' : α} (h : i ≠ j) : (l.set i t')[j]? = l[j]? := by
  simp [h]

theorem finish_not_crit {lt : Nat → Nat → Bool} (t : Th) (r : Res) (now : Nat) :
    atCrit (t.finish (LA lt) r now).pc = false ∧ ∀ s, counterOK s (t.finish (LA lt) r now).pc := by
  unfold Thread.finish
  cases t.prog with
  | nil => exact ⟨rfl, fun _ => trivial⟩
  | cons op rest => cases op <;> exact ⟨rfl, fun _ => trivial⟩

/-- generic re-establishment after thread `tid` moved to `t'` and the shared state to `s'` -/
theorem Inv.update {lt : Nat → Nat → Bool} {c : Cfg (LA lt)} {tid : Nat} {t t' : Th} {s' : Locked.Sh} {clk : Nat}
    (hI : Inv c) (ht : c.threads[tid]? = some t)
    (hfree : s'.locked = false → s'.length = s'.heap.length)
    (hself : counterOK s' t'.pc)
    (hothers : ∀ (i : Nat) (ti : Th), i ≠ tid → c.threads[i]? = some ti → counterOK s' ti.pc)
    (huniq : atCrit t'.pc = true → ∀ (i : Nat) (ti : Th), i ≠ tid → c.threads[i]? = some ti → atCrit ti.pc = false)
    (hheld : s'.locked = true → atCrit t'.pc = true ∨ ∃ (i : Nat) (ti : Th), i ≠ tid ∧ c.threads[i]? = some ti ∧ atCrit ti.pc = true) :
    Inv ({ sh := s', threads := c.threads.set tid t', clock := clk } : Cfg (LA lt)) where
  free := hfree
  crit := by
    intro i ti hi
    change (c.threads.set tid t')[i]? = some ti at hi
    by_cases e : i = tid
    · subst e; rw [get_set_self' ht] at hi; injection hi with hi; subst hi; exact hself
    · rw [get_set_ne' (Ne.symm e)] at hi; exact hothers i ti e hi
  uniq := by
    intro i j ti tj hi hj hci hcj
    change (c.threads.set tid t')[i]? = some ti at hi
    change (c.threads.set tid t')[j]? = some tj at hj
    by_cases e1 : i = tid <;> by_cases e2 : j = tid
    · rw [e1, e2]
    · subst e1
      rw [get_set_self' ht] at hi; injection hi with hi; subst hi
      rw [get_set_ne' (Ne.symm e2)] at hj
      have := huniq hci j tj e2 hj; rw [this] at hcj; cases hcj
    · subst e2
      rw [get_set_self' ht] at hj; injection hj with hj; subst hj
      rw [get_set_ne' (Ne.symm e1)] at hi
      have := huniq hcj i ti e1 hi; rw [this] at hci; cases hci
    · rw [get_set_ne' (Ne.symm e1)] at hi; rw [get_set_ne' (Ne.symm e2)] at hj
      exact hI.uniq i j ti tj hi hj hci hcj
  held := by
    intro hl
    rcases hheld hl with h | ⟨i, ti, hi, hti, hc⟩
    · exact ⟨tid, t', by change (c.threads.set tid t')[tid]? = some t'; exact get_set_self' ht, h⟩
    · exact ⟨i, ti, by change (c.threads.set tid t')[i]? = some ti; rw [get_set_ne' (Ne.symm hi)]; exact hti, hc⟩

abbrev c_locked_and (s : Locked.Sh) : Prop := s.locked = true ∧ s.length + 1 = s.heap.length
abbrev c_locked_and2 (s : Locked.Sh) : Prop := s.locked = true ∧ s.length = s.heap.length + 1

theorem atCrit_of_counter {s : Locked.Sh} {pc : Option Locked.PC} (h : counterOK s pc) (hc : atCrit pc = true) : s.locked = true := by
  cases pc with
  | none => cases hc
  | some pc =>
    cases pc with
    | enq2 => exact (show c_locked_and s from h).1
    | deq3 v => exact (show c_locked_and2 s from h).1
    | _ => cases hc

/-- a thread that is not in the critical section puts no constraint on the counter -/
theorem counter_of_not_crit (s : Locked.Sh) {pc : Option Locked.PC} (h : atCrit pc = false) : counterOK s pc := by
  cases pc with
  | none => trivial
  | some pc => cases pc <;> first | trivial | cases h

theorem inv_step {lt : Nat → Nat → Bool} (c : Cfg (LA lt)) (tid : Nat) (hI : Inv c) : Inv (stepCfg c tid) := by
  unfold stepCfg
  split
  · exact hI
  · next t ht =>
    split
    · exact hI
    · next pc hpc =>
      have hself := hI.crit tid t ht
      -- no other thread is in the critical section when the lock is free
      have nobody : c.sh.locked = false → ∀ (i : Nat) (ti : Th), c.threads[i]? = some ti → atCrit ti.pc = false := by
        intro hl i ti hi
        cases hc : atCrit ti.pc with
        | false => rfl
        | true => have := atCrit_of_counter (hI.crit i ti hi) hc; rw [hl] at this; cases this
      -- when `tid` holds the lock nobody else does
      have alone : atCrit t.pc = true → ∀ (i : Nat) (ti : Th), i ≠ tid → c.threads[i]? = some ti → atCrit ti.pc = false := by
        intro hc i ti hi hti
        cases hci : atCrit ti.pc with
        | false => rfl
        | true => exact absurd (hI.uniq i tid ti t hti ht hci hc) hi
      have keepOthers : ∀ (s' : Locked.Sh), (∀ (i : Nat) (ti : Th), i ≠ tid → c.threads[i]? = some ti → atCrit ti.pc = false) →
          ∀ (i : Nat) (ti : Th), i ≠ tid → c.threads[i]? = some ti → counterOK s' ti.pc :=
        fun s' h i ti hi hti => counter_of_not_crit s' (h i ti hi hti)
      cases pc with
      | enq1 v =>
        show Inv ({ sh := (Locked.exec lt c.sh (.enq1 v)).1, threads := c.threads.set tid (t.advance (LA lt) c.clock (Locked.exec lt c.sh (.enq1 v)).2), clock := _ } : Cfg (LA lt))
        simp only [Locked.exec]
        cases hl : c.sh.locked with
        | true =>
          simp only [↓reduceIte, Thread.advance]
          refine Inv.update hI ht hI.free ?_ (fun i ti _ hi => hI.crit i ti hi) (by intro h; cases h) ?_
          · trivial
          · intro h
            obtain ⟨i, ti, hi, hc⟩ := hI.held h
            right
            refine ⟨i, ti, ?_, hi, hc⟩
            intro e; subst e; rw [ht] at hi; injection hi with hi; subst hi; rw [hpc] at hc; cases hc
        | false =>
          simp only [Bool.false_eq_true, ↓reduceIte, Thread.advance]
          have hf := hI.free hl
          refine Inv.update hI ht (by intro h; cases h) ?_ (keepOthers _ (fun i ti _ hi => nobody hl i ti hi))
            (fun _ i ti _ hi => nobody hl i ti hi) (fun _ => Or.inl rfl)
          exact ⟨rfl, by simp [push_length, hf]⟩
      | enq2 =>
        show Inv ({ sh := (Locked.exec lt c.sh .enq2).1, threads := c.threads.set tid (t.advance (LA lt) c.clock (Locked.exec lt c.sh .enq2).2), clock := _ } : Cfg (LA lt))
        rw [hpc] at hself
        have hs : c.sh.locked = true ∧ c.sh.length + 1 = c.sh.heap.length := hself
        have hal := alone (by rw [hpc]; rfl)
        simp only [Locked.exec, Thread.advance]
        have hfin := finish_not_crit (lt := lt) t .ok c.clock
        refine Inv.update hI ht ?_ (hfin.2 _) (keepOthers _ hal) (by intro h; rw [hfin.1] at h; cases h) (by intro h; cases h)
        intro _; simp only; omega
      | deq1 =>
        show Inv ({ sh := (Locked.exec lt c.sh .deq1).1, threads := c.threads.set tid (t.advance (LA lt) c.clock (Locked.exec lt c.sh .deq1).2), clock := _ } : Cfg (LA lt))
        simp only [Locked.exec]
        have keep : ∀ (t' : Th) (clk : Nat), atCrit t'.pc = false → Inv ({ sh := c.sh, threads := c.threads.set tid t', clock := clk } : Cfg (LA lt)) := by
          intro t' clk hnc
          refine Inv.update hI ht hI.free (counter_of_not_crit _ hnc) (fun i ti _ hi => hI.crit i ti hi) (by intro h; rw [hnc] at h; cases h) ?_
          intro h
          obtain ⟨i, ti, hi, hc⟩ := hI.held h
          right
          refine ⟨i, ti, ?_, hi, hc⟩
          intro e; subst e; rw [ht] at hi; injection hi with hi; subst hi; rw [hpc] at hc; cases hc
        split
        · simp only [Thread.advance]; exact keep _ _ (finish_not_crit (lt := lt) t .none c.clock).1
        · simp only [Thread.advance]; exact keep _ _ rfl
      | deq2 =>
        show Inv ({ sh := (Locked.exec lt c.sh .deq2).1, threads := c.threads.set tid (t.advance (LA lt) c.clock (Locked.exec lt c.sh .deq2).2), clock := _ } : Cfg (LA lt))
        simp only [Locked.exec]
        have keep : ∀ (t' : Th) (clk : Nat), atCrit t'.pc = false → Inv ({ sh := c.sh, threads := c.threads.set tid t', clock := clk } : Cfg (LA lt)) := by
          intro t' clk hnc
          refine Inv.update hI ht hI.free (counter_of_not_crit _ hnc) (fun i ti _ hi => hI.crit i ti hi) (by intro h; rw [hnc] at h; cases h) ?_
          intro h
          obtain ⟨i, ti, hi, hc⟩ := hI.held h
          right
          refine ⟨i, ti, ?_, hi, hc⟩
          intro e; subst e; rw [ht] at hi; injection hi with hi; subst hi; rw [hpc] at hc; cases hc
        cases hl : c.sh.locked with
        | true => simp only [↓reduceIte, Thread.advance]; exact keep _ _ rfl
        | false =>
          simp only [Bool.false_eq_true, ↓reduceIte]
          have hf := hI.free hl
          split
          · next x rest hp =>
            simp only [Thread.advance]
            refine Inv.update hI ht (by intro h; cases h) ?_ (keepOthers _ (fun i ti _ hi => nobody hl i ti hi))
              (fun _ i ti _ hi => nobody hl i ti hi) (fun _ => Or.inl rfl)
            refine ⟨rfl, ?_⟩
            have := pop_length _ x rest hp
            simp only; omega
          · simp only [Thread.advance]
            exact keep _ _ (finish_not_crit (lt := lt) t .none c.clock).1
      | deq3 v =>
        show Inv ({ sh := (Locked.exec lt c.sh (.deq3 v)).1, threads := c.threads.set tid (t.advance (LA lt) c.clock (Locked.exec lt c.sh (.deq3 v)).2), clock := _ } : Cfg (LA lt))
        rw [hpc] at hself
        have hs : c.sh.locked = true ∧ c.sh.length = c.sh.heap.length + 1 := hself
        have hal := alone (by rw [hpc]; rfl)
        simp only [Locked.exec, Thread.advance]
        have hfin := finish_not_crit (lt := lt) t (.val v) c.clock
        refine Inv.update hI ht ?_ (hfin.2 _) (keepOthers _ hal) (by intro h; rw [hfin.1] at h; cases h) (by intro h; cases h)
        intro _; simp only; omega
      | len1 =>
        show Inv ({ sh := (Locked.exec lt c.sh .len1).1, threads := c.threads.set tid (t.advance (LA lt) c.clock (Locked.exec lt c.sh .len1).2), clock := _ } : Cfg (LA lt))
        simp only [Locked.exec, Thread.advance]
        have hfin := finish_not_crit (lt := lt) t (.num c.sh.length) c.clock
        refine Inv.update hI ht hI.free (hfin.2 _) (fun i ti _ hi => hI.crit i ti hi) (by intro h; rw [hfin.1] at h; cases h) ?_
        intro h
        obtain ⟨i, ti, hi, hc⟩ := hI.held h
        right
        refine ⟨i, ti, ?_, hi, hc⟩
        intro e; subst e; rw [ht] at hi; injection hi with hi; subst hi; rw [hpc] at hc; cases hc
      | emp1 =>
        show Inv ({ sh := (Locked.exec lt c.sh .emp1).1, threads := c.threads.set tid (t.advance (LA lt) c.clock (Locked.exec lt c.sh .emp1).2), clock := _ } : Cfg (LA lt))
        simp only [Locked.exec, Thread.advance]
        have hfin := finish_not_crit (lt := lt) t (.bool (c.sh.length == 0)) c.clock
        refine Inv.update hI ht hI.free (hfin.2 _) (fun i ti _ hi => hI.crit i ti hi) (by intro h; rw [hfin.1] at h; cases h) ?_
        intro h
        obtain ⟨i, ti, hi, hc⟩ := hI.held h
        right
        refine ⟨i, ti, ?_, hi, hc⟩
        intro e; subst e; rw [ht] at hi; injection hi with hi; subst hi; rw [hpc] at hc; cases hc

theorem inv_init {lt : Nat → Nat → Bool} (progs : List (List Op)) : Inv (initCfg (LA lt) Locked.init progs) where
  free := by intro _; rfl
  crit := by
    intro i t hi
    cases hpc : t.pc with
    | none => trivial
    | some pc =>
      obtain ⟨op, e⟩ := spawn_pc_start (A := LA lt) progs 0 i t pc hi hpc
      subst e; cases op <;> trivial
  uniq := by
    intro i j ti tj hi _ hci _
    cases hpc : ti.pc with
    | none => rw [hpc] at hci; cases hci
    | some pc =>
      obtain ⟨op, e⟩ := spawn_pc_start (A := LA lt) progs 0 i ti pc hi hpc
      subst e; rw [hpc] at hci; cases op <;> cases hci
  held := by intro h; cases h

theorem inv_reach {lt : Nat → Nat → Bool} (progs : List (List Op)) :
    ∀ c, Reach (LA lt) (initCfg (LA lt) Locked.init progs) c → Inv c := by
  intro c hr
  induction hr with
  | init => exact inv_init progs
  | @step c tid _ ih => exact inv_step c tid ih

/-- when the counter reads 0 the heap holds nothing, except possibly the single message of an Enqueue
that is still inside its critical section (it has not returned) -/
theorem zero_means_empty {lt : Nat → Nat → Bool} {c : Cfg (LA lt)} (hI : Inv c) (h0 : c.sh.length = 0) :
    c.sh.heap = [] ∨ (c.sh.heap.length = 1 ∧ ∃ (i : Nat) (t : Th), c.threads[i]? = some t ∧ t.pc = some .enq2) := by
  cases hl : c.sh.locked with
  | false =>
    left
    have := hI.free hl
    rw [h0] at this
    exact List.eq_nil_of_length_eq_zero (by omega)
  | true =>
    obtain ⟨i, t, hi, hc⟩ := hI.held hl
    have hco := hI.crit i t hi
    cases hpc : t.pc with
    | none => rw [hpc] at hc; cases hc
    | some pc =>
      rw [hpc] at hc hco
      cases pc with
      | enq2 =>
        have hs : c.sh.locked = true ∧ c.sh.length + 1 = c.sh.heap.length := hco
        exact Or.inr ⟨by omega, i, t, hi, hpc⟩
      | deq3 v =>
        have hs : c.sh.locked = true ∧ c.sh.length = c.sh.heap.length + 1 := hco
        omega
      | _ => cases hc

end GoaktVerif.C04.LockedInv

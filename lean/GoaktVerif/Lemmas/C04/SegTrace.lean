/-
C04 — `UnboundedSegmentedMailbox`: values.  Slot `idx` of the segment at list position `ord` is global
position `ord * segSize + idx`.  Reservations (`Add:writeIdx` returning an index below `segSize`) are
handed out in exactly this order, the message of the k-th reservation is stored into position k, and
the consumer's k-th successful dequeue returns the message of position k.  Hence, for every run:
the values returned by Dequeue = a prefix of the reservation sequence (exactly-once, FIFO).
-/
import GoaktVerif.Lemmas.C04.SegChain4

namespace GoaktVerif.C04.SegInv
open GoaktVerif.Model.C04 GoaktVerif.Model.C04.Segmented

abbrev Cf := Cfg Segmented.algo

def pos (s : Sh) (g idx : Nat) : Nat := (s.segs g).ord * s.segSize + idx

/-- positions consumed so far -/
def consumed (s : Sh) : Nat := (s.segs s.head).ord * s.segSize + (s.segs s.head).deqIdx

/-- the value reserved by this step, if it is an `Add:writeIdx` that gets a slot -/
def evS (s : Sh) : PC → List Nat
  | .e2 v g => if (s.segs g).writeIdx < s.segSize then [v] else []
  | _ => []

def stepEvS (c : Cf) (tid : Nat) : List Nat :=
  match c.threads[tid]? with
  | some t => match t.pc with
    | some pc => evS c.sh pc
    | none => []
  | none => []

def resvTrace (c : Cf) : List Nat → List Nat
  | [] => []
  | t :: ts => stepEvS c t ++ resvTrace (stepCfg c t) ts

def resVal (d : Done) : Option Nat :=
  match d.res with
  | .val v => some v
  | _ => none

def pcDeq : Option PC → List Nat
  | some (.d5 _ _ v) => [v]
  | some (.d6 _ _ v) => [v]
  | some (.d7 v) => [v]
  | _ => []

/-- the consumer has taken a value out of a slot but not yet advanced `deqIdx` -/
def inflight : Option PC → Nat
  | some (.d5 _ _ _) => 1
  | some (.d6 _ _ _) => 1
  | _ => 0

def deqdT (t : Th) : List Nat := t.hist.reverse.filterMap resVal ++ pcDeq t.pc

structure TR (ct : Nat) (c : Cf) (resv : List Nat) : Prop where
  len : resv.length = (c.sh.segs c.sh.last).ord * c.sh.segSize + min (c.sh.segs c.sh.last).writeIdx c.sh.segSize
  data : ∀ g idx, (c.sh.segs g).linked = true → idx < c.sh.segSize → consumed c.sh ≤ pos c.sh g idx →
    pos c.sh g idx < resv.length → (c.sh.segs g).data idx = none ∨ (c.sh.segs g).data idx = resv[pos c.sh g idx]?
  store : ∀ (i : Nat) (t : Th) (v g idx : Nat), c.threads[i]? = some t → t.pc = some (.e3 v g idx) →
    resv[pos c.sh g idx]? = some v
  bound : ∀ (t : Th), c.threads[ct]? = some t → consumed c.sh + inflight t.pc ≤ resv.length
  deqd : ∀ (t : Th), c.threads[ct]? = some t → deqdT t = resv.take (consumed c.sh + inflight t.pc)

theorem stepCfg_eqS {c : Cf} {tid : Nat} {t : Th} {pc : PC} (ht : c.threads[tid]? = some t) (hpc : t.pc = some pc) :
    stepCfg c tid = { sh := (exec c.sh pc).1, threads := c.threads.set tid (t.advance algo c.clock (exec c.sh pc).2),
                      clock := tick (A := algo) t c.clock (exec c.sh pc).2 } := by
  unfold stepCfg
  simp only [ht, hpc]

theorem get_self {α} {l : List α} {i : Nat} {t t' : α} (h : l[i]? = some t) : (l.set i t')[i]? = some t' := by
  have hl : i < l.length := by
    rcases Nat.lt_or_ge i l.length with h' | h'
    · exact h'
    · rw [List.getElem?_eq_none h'] at h; cases h
  simp [hl]

theorem get_ne {α} {l : List α} {i j : Nat} {t' : α} (h : i ≠ j) : (l.set i t')[j]? = l[j]? := by
  simp [h]

theorem hist_finishS (t : Th) (r : Res) (now : Nat) :
    (t.finish algo r now).hist = { op := t.cur.getD .len, res := r, inv := t.started, ret := now + 1 } :: t.hist := by
  unfold Thread.finish; cases t.prog <;> rfl

theorem finish_pcDeq (t : Th) (r : Res) (now : Nat) :
    pcDeq (t.finish algo r now).pc = [] ∧ inflight (t.finish algo r now).pc = 0 ∧
    ∀ v g idx, (t.finish algo r now).pc ≠ some (.e3 v g idx) := by
  rcases finish_pc' t r now with h | ⟨op, _, h⟩
  · rw [h]; exact ⟨rfl, rfl, fun _ _ _ e => by cases e⟩
  · rw [h]; cases op <;> exact ⟨rfl, rfl, fun _ _ _ e => by simp [start] at e⟩

def valList : Res → List Nat
  | .val v => [v]
  | _ => []

theorem deqdT_finishS (t : Th) (r : Res) (now : Nat) :
    deqdT (t.finish algo r now) = t.hist.reverse.filterMap resVal ++ valList r := by
  unfold deqdT
  rw [(finish_pcDeq t r now).1, hist_finishS]
  cases r <;> simp [resVal, valList, List.filterMap_append]

/-- generic preservation: the shared fields the invariant reads are unchanged, the stepping thread does
not enter `Store:data`, and its dequeued list and in-flight count are unchanged -/
theorem tr_keep {ct tid : Nat} {c : Cf} {resv : List Nat} {t t' : Th} {s' : Sh} {clk : Nat}
    (hT : TR ct c resv) (ht : c.threads[tid]? = some t)
    (hS : s'.segSize = c.sh.segSize) (hl : s'.last = c.sh.last) (hh : s'.head = c.sh.head)
    (hf : ∀ j, (s'.segs j).linked = (c.sh.segs j).linked ∧ (s'.segs j).ord = (c.sh.segs j).ord ∧
      (s'.segs j).data = (c.sh.segs j).data ∧ (s'.segs j).deqIdx = (c.sh.segs j).deqIdx)
    (hw : min (s'.segs c.sh.last).writeIdx c.sh.segSize = min (c.sh.segs c.sh.last).writeIdx c.sh.segSize)
    (h3 : ∀ v g idx, t'.pc = some (.e3 v g idx) → t.pc = some (.e3 v g idx))
    (hd : deqdT t' = deqdT t) (hi : inflight t'.pc = inflight t.pc) :
    TR ct ({ sh := s', threads := c.threads.set tid t', clock := clk } : Cf) resv := by
  have hpos : ∀ g idx, pos s' g idx = pos c.sh g idx := by intro g idx; unfold pos; rw [(hf g).2.1, hS]
  have hcons : consumed s' = consumed c.sh := by unfold consumed; rw [hh, (hf _).2.1, (hf _).2.2.2, hS]
  refine ⟨?_, ?_, ?_, ?_, ?_⟩
  · show resv.length = (s'.segs s'.last).ord * s'.segSize + min (s'.segs s'.last).writeIdx s'.segSize
    rw [hl, (hf _).2.1, hS, hw]; exact hT.len
  · intro g idx a b c1 d
    change (s'.segs g).linked = true at a
    change idx < s'.segSize at b
    change consumed s' ≤ pos s' g idx at c1
    change pos s' g idx < resv.length at d
    show (s'.segs g).data idx = none ∨ (s'.segs g).data idx = resv[pos s' g idx]?
    rw [(hf g).1] at a; rw [hS] at b; rw [hcons, hpos] at c1; rw [hpos] at d
    rw [(hf g).2.2.1, hpos]; exact hT.data g idx a b c1 d
  · intro i ti v g idx hi' hpc
    change (c.threads.set tid t')[i]? = some ti at hi'
    show resv[pos s' g idx]? = some v
    rw [hpos]
    by_cases e : i = tid
    · subst e; rw [get_self ht] at hi'; injection hi' with hi'; subst hi'
      exact hT.store i t v g idx ht (h3 v g idx hpc)
    · rw [get_ne (Ne.symm e)] at hi'; exact hT.store i ti v g idx hi' hpc
  · intro tc hc
    change (c.threads.set tid t')[ct]? = some tc at hc
    show consumed s' + inflight tc.pc ≤ resv.length
    rw [hcons]
    by_cases e : ct = tid
    · subst e; rw [get_self ht] at hc; injection hc with hc; subst hc; rw [hi]; exact hT.bound t ht
    · rw [get_ne (Ne.symm e)] at hc; exact hT.bound tc hc
  · intro tc hc
    change (c.threads.set tid t')[ct]? = some tc at hc
    show deqdT tc = resv.take (consumed s' + inflight tc.pc)
    rw [hcons]
    by_cases e : ct = tid
    · subst e; rw [get_self ht] at hc; injection hc with hc; subst hc; rw [hd, hi]; exact hT.deqd t ht
    · rw [get_ne (Ne.symm e)] at hc; exact hT.deqd tc hc

end GoaktVerif.C04.SegInv

/-
C04 — `UnboundedSegmentedMailbox`: Owicki–Gries obligations for the slot discipline.
-/
import GoaktVerif.Lemmas.C04.SegInv

namespace GoaktVerif.C04.SegInv
open GoaktVerif.Model.C04 GoaktVerif.Model.C04.Segmented

/-- a step that changes neither `deqIdx`, `head`, `data` nor `segSize` and only lets `writeIdx` grow
keeps every thread's promises -/
theorem J_mono {ct j : Nat} {s s' : Sh} {tj : Th} (hJ : J ct j s tj)
    (hS : s'.segSize = s.segSize) (hH : s'.head = s.head)
    (hD : ∀ g, (s'.segs g).deqIdx = (s.segs g).deqIdx)
    (hW : ∀ g, (s.segs g).writeIdx ≤ (s'.segs g).writeIdx)
    (hA : ∀ g i, (s'.segs g).data i = (s.segs g).data i) : J ct j s' tj where
  e3 := by
    intro v g idx h
    obtain ⟨a, b, c, d⟩ := hJ.e3 v g idx h
    exact ⟨by rw [hS]; exact a, Nat.lt_of_lt_of_le b (hW g), by rw [hD]; exact c, by rw [hA]; exact d⟩
  d2 := by intro seg h; rw [hH]; exact hJ.d2 seg h
  d3 := by
    intro seg enq h
    obtain ⟨a, b, c⟩ := hJ.d3 seg enq h
    exact ⟨by rw [hH]; exact a, by rw [hS]; exact b, Nat.le_trans c (hW seg)⟩
  d4 := by
    intro seg deq h
    obtain ⟨a, b, c, d⟩ := hJ.d4 seg deq h
    exact ⟨by rw [hH]; exact a, by rw [hD]; exact b, by rw [hS]; exact c, Nat.lt_of_lt_of_le d (hW seg)⟩
  d5 := by
    intro seg deq v h
    obtain ⟨a, b, c, d, e⟩ := hJ.d5 seg deq v h
    exact ⟨by rw [hH]; exact a, by rw [hD]; exact b, by rw [hS]; exact c, Nat.lt_of_lt_of_le d (hW seg), by rw [hA]; exact e⟩
  d6 := by
    intro seg deq v h
    obtain ⟨a, b, c, d⟩ := hJ.d6 seg deq v h
    exact ⟨by rw [hH]; exact a, by rw [hD]; exact b, by rw [hS]; exact c, Nat.lt_of_lt_of_le d (hW seg)⟩
  d8 := by
    intro seg h
    obtain ⟨a, b⟩ := hJ.d8 seg h
    exact ⟨by rw [hH]; exact a, by rw [hD, hS]; exact b⟩
  d9 := by
    intro seg nx h
    obtain ⟨a, b⟩ := hJ.d9 seg nx h
    exact ⟨by rw [hH]; exact a, by rw [hD, hS]; exact b⟩
  cons := hJ.cons

theorem P_mono {s s' : Sh} (hP : P s) (hS : s'.segSize = s.segSize)
    (hD : ∀ g, (s'.segs g).deqIdx = (s.segs g).deqIdx)
    (hW : ∀ g, (s'.segs g).writeIdx = (s.segs g).writeIdx)
    (hA : ∀ g i, (s'.segs g).data i = (s.segs g).data i) : P s' where
  deqLe := by intro g; rw [hD, hW, hS]; exact hP.deqLe g
  unres := by intro g i h; rw [hA]; exact hP.unres g i (by rw [← hW]; exact h)

/-! effects of the `upd` steps on the fields -/

theorem upd_field {s : Sh} {t : Nat} {f : Seg → Seg} (g : Nat) :
    (s.upd t f).segs g = if g = t then f (s.segs t) else s.segs g := by simp [Sh.upd]

theorem P_upd {s : Sh} {t : Nat} {f : Seg → Seg} (hP : P s)
    (hd : (f (s.segs t)).deqIdx ≤ s.segSize ∧ (f (s.segs t)).deqIdx ≤ (f (s.segs t)).writeIdx)
    (hu : ∀ i, (f (s.segs t)).writeIdx ≤ i → (f (s.segs t)).data i = none) : P (s.upd t f) where
  deqLe := by
    intro g
    rw [upd_field g]
    split
    · exact hd
    · exact hP.deqLe g
  unres := by
    intro g i h
    rw [upd_field g] at h ⊢
    split
    · next e => rw [if_pos e] at h; exact hu i h
    · next e => rw [if_neg e] at h; exact hP.unres g i h

/-- the stepping thread re-establishes `P` and its own `J` -/
theorem seg_hstep (ct : Nat) (s : Sh) (i : Nat) (t : Th) (pc : PC) (now : Nat) (hP : P s) (hJ : J ct i s t)
    (hpc : t.pc = some pc) :
    P (exec s pc).1 ∧ J ct i (exec s pc).1 (t.advance algo now (exec s pc).2) := by
  have hcons : i ≠ ct → Op.deq ∉ t.prog := fun hi => (hJ.cons hi).2
  cases pc with
  | e1 v =>
    refine ⟨hP, ?_⟩
    simp only [exec, Thread.advance]
    refine J_goto _ hcons ?_ ?_ ?_ ?_ ?_ ?_ ?_ ?_ (fun _ => rfl)
    all_goals (intros; rename_i e; cases e)
  | e2 v g =>
    have hdl := hP.deqLe g
    have hP' : P (s.upd g fun x => { x with writeIdx := x.writeIdx + 1 }) := by
      refine P_upd hP ⟨hdl.1, by show (s.segs g).deqIdx ≤ (s.segs g).writeIdx + 1; omega⟩ ?_
      intro k hk
      change (s.segs g).writeIdx + 1 ≤ k at hk
      exact hP.unres g k (by omega)
    simp only [exec]
    split
    · next hlt =>
      refine ⟨hP', ?_⟩
      simp only [Thread.advance]
      refine J_goto _ hcons ?_ ?_ ?_ ?_ ?_ ?_ ?_ ?_ (fun _ => rfl)
      · intro v' g' idx e
        injection e with _ e2 e3; subst e2; subst e3
        rw [upd_same]
        refine ⟨hlt, by show (s.segs g).writeIdx < (s.segs g).writeIdx + 1; omega, hdl.2, ?_⟩
        exact hP.unres g _ (Nat.le_refl _)
      all_goals (intros; rename_i e; cases e)
    · refine ⟨hP', ?_⟩
      simp only [Thread.advance]
      refine J_goto _ hcons ?_ ?_ ?_ ?_ ?_ ?_ ?_ ?_ (fun _ => rfl)
      all_goals (intros; rename_i e; cases e)
  | e3 v g idx =>
    obtain ⟨h1, h2, h3, h4⟩ := hJ.e3 v g idx hpc
    have hdl := hP.deqLe g
    refine ⟨?_, ?_⟩
    · simp only [exec]
      refine P_upd hP hdl ?_
      intro k hk
      change (s.segs g).writeIdx ≤ k at hk
      show (if k = idx then some v else (s.segs g).data k) = none
      rw [if_neg (by omega)]
      exact hP.unres g k hk
    · simp only [exec, Thread.advance]
      refine J_goto _ hcons ?_ ?_ ?_ ?_ ?_ ?_ ?_ ?_ (fun _ => rfl)
      all_goals (intros; rename_i e; cases e)
  | e4 v =>
    simp only [exec, Thread.advance]
    exact ⟨P_mono hP rfl (fun _ => rfl) (fun _ => rfl) (fun _ _ => rfl), J_finish .ok now hcons⟩
  | e5 v g =>
    simp only [exec]
    split
    · refine ⟨hP, ?_⟩
      simp only [Thread.advance]
      refine J_goto _ hcons ?_ ?_ ?_ ?_ ?_ ?_ ?_ ?_ (fun _ => rfl)
      all_goals (intros; rename_i e; cases e)
    · refine ⟨P_mono hP rfl (fun _ => rfl) (fun _ => rfl) (fun _ _ => rfl), ?_⟩
      simp only [Thread.advance]
      refine J_goto _ hcons ?_ ?_ ?_ ?_ ?_ ?_ ?_ ?_ (fun _ => rfl)
      all_goals (intros; rename_i e; cases e)
  | e6 v g g' =>
    simp only [exec]
    split
    · refine ⟨?_, ?_⟩
      · exact P_mono hP rfl (fun j => (link_fields s g g' j).2.1) (fun j => (link_fields s g g' j).1)
          (fun j k => by rw [(link_fields s g g' j).2.2])
      simp only [Thread.advance]
      refine J_goto _ hcons ?_ ?_ ?_ ?_ ?_ ?_ ?_ ?_ (fun _ => rfl)
      all_goals (intros; rename_i e; cases e)
    · refine ⟨hP, ?_⟩
      simp only [Thread.advance]
      refine J_goto _ hcons ?_ ?_ ?_ ?_ ?_ ?_ ?_ ?_ (fun _ => rfl)
      all_goals (intros; rename_i e; cases e)
  | e7 v g g' =>
    simp only [exec, Thread.advance]
    refine ⟨?_, ?_⟩
    · split
      · exact P_mono hP rfl (fun _ => rfl) (fun _ => rfl) (fun _ _ => rfl)
      · exact hP
    · split
      · refine J_goto _ hcons ?_ ?_ ?_ ?_ ?_ ?_ ?_ ?_ (fun _ => rfl)
        all_goals (intros; rename_i e; cases e)
      · refine J_goto _ hcons ?_ ?_ ?_ ?_ ?_ ?_ ?_ ?_ (fun _ => rfl)
        all_goals (intros; rename_i e; cases e)
  | e9 v g g' =>
    simp only [exec, Thread.advance]
    refine ⟨?_, ?_⟩
    · split
      · exact P_mono hP rfl (fun _ => rfl) (fun _ => rfl) (fun _ _ => rfl)
      · exact hP
    · split
      · refine J_goto _ hcons ?_ ?_ ?_ ?_ ?_ ?_ ?_ ?_ (fun _ => rfl)
        all_goals (intros; rename_i e; cases e)
      · refine J_goto _ hcons ?_ ?_ ?_ ?_ ?_ ?_ ?_ ?_ (fun _ => rfl)
        all_goals (intros; rename_i e; cases e)
  | d1 =>
    have hi : i = ct := is_consumer hJ hpc rfl
    refine ⟨hP, ?_⟩
    simp only [exec, Thread.advance]
    refine J_goto _ hcons ?_ ?_ ?_ ?_ ?_ ?_ ?_ ?_ (fun h => absurd hi h)
    · intros; rename_i e; cases e
    · intro seg e; injection e with e; exact e.symm
    all_goals (intros; rename_i e; cases e)
  | d2 seg =>
    have hi : i = ct := is_consumer hJ hpc rfl
    have hh := hJ.d2 seg hpc
    refine ⟨hP, ?_⟩
    simp only [exec, Thread.advance]
    refine J_goto _ hcons ?_ ?_ ?_ ?_ ?_ ?_ ?_ ?_ (fun h => absurd hi h)
    · intros; rename_i e; cases e
    · intros; rename_i e; cases e
    · intro seg' enq e; injection e with e1 e2; subst e1; subst e2
      exact ⟨hh, Nat.min_le_right _ _, Nat.min_le_left _ _⟩
    all_goals (intros; rename_i e; cases e)
  | d3 seg enq =>
    have hi : i = ct := is_consumer hJ hpc rfl
    obtain ⟨hh, he1, he2⟩ := hJ.d3 seg enq hpc
    have hdl := hP.deqLe seg
    simp only [exec]
    split
    · next hlt =>
      refine ⟨hP, ?_⟩
      simp only [Thread.advance]
      refine J_goto _ hcons ?_ ?_ ?_ ?_ ?_ ?_ ?_ ?_ (fun h => absurd hi h)
      · intros; rename_i e; cases e
      · intros; rename_i e; cases e
      · intros; rename_i e; cases e
      · intro seg' deq e; injection e with e1 e2; subst e1; subst e2
        exact ⟨hh, rfl, by omega, by omega⟩
      all_goals (intros; rename_i e; cases e)
    · split
      · exact ⟨hP, J_finish .none now hcons⟩
      · refine ⟨hP, ?_⟩
        simp only [Thread.advance]
        refine J_goto _ hcons ?_ ?_ ?_ ?_ ?_ ?_ ?_ ?_ (fun h => absurd hi h)
        · intros; rename_i e; cases e
        · intros; rename_i e; cases e
        · intros; rename_i e; cases e
        · intros; rename_i e; cases e
        · intros; rename_i e; cases e
        · intros; rename_i e; cases e
        · intro seg' e; injection e with e; subst e
          exact ⟨hh, by omega⟩
        · intros; rename_i e; cases e
  | d4 seg deq =>
    have hi : i = ct := is_consumer hJ hpc rfl
    obtain ⟨hh, h1, h2, h3⟩ := hJ.d4 seg deq hpc
    simp only [exec]
    split
    · exact ⟨hP, J_finish .none now hcons⟩
    · next v hv =>
      refine ⟨hP, ?_⟩
      simp only [Thread.advance]
      refine J_goto _ hcons ?_ ?_ ?_ ?_ ?_ ?_ ?_ ?_ (fun h => absurd hi h)
      · intros; rename_i e; cases e
      · intros; rename_i e; cases e
      · intros; rename_i e; cases e
      · intros; rename_i e; cases e
      · intro seg' deq' v' e; injection e with e1 e2 e3; subst e1; subst e2; subst e3
        exact ⟨hh, h1, h2, h3, hv⟩
      all_goals (intros; rename_i e; cases e)
  | d5 seg deq v =>
    have hi : i = ct := is_consumer hJ hpc rfl
    obtain ⟨hh, h1, h2, h3, _⟩ := hJ.d5 seg deq v hpc
    refine ⟨?_, ?_⟩
    · simp only [exec]
      refine P_upd hP (hP.deqLe seg) ?_
      intro k hk
      change (s.segs seg).writeIdx ≤ k at hk
      show (if k = deq then none else (s.segs seg).data k) = none
      split
      · rfl
      · exact hP.unres seg k hk
    · simp only [exec, Thread.advance]
      refine J_goto _ hcons ?_ ?_ ?_ ?_ ?_ ?_ ?_ ?_ (fun h => absurd hi h)
      · intros; rename_i e; cases e
      · intros; rename_i e; cases e
      · intros; rename_i e; cases e
      · intros; rename_i e; cases e
      · intros; rename_i e; cases e
      · intro seg' deq' v' e; injection e with e1 e2 e3; subst e1; subst e2; subst e3
        rw [upd_same]
        exact ⟨hh, h1, h2, h3⟩
      all_goals (intros; rename_i e; cases e)
  | d6 seg deq v =>
    have hi : i = ct := is_consumer hJ hpc rfl
    obtain ⟨hh, h1, h2, h3⟩ := hJ.d6 seg deq v hpc
    refine ⟨?_, ?_⟩
    · simp only [exec]
      refine P_upd hP ⟨by show deq + 1 ≤ s.segSize; omega, by show deq + 1 ≤ (s.segs seg).writeIdx; omega⟩ ?_
      intro k hk
      exact hP.unres seg k hk
    · simp only [exec, Thread.advance]
      refine J_goto _ hcons ?_ ?_ ?_ ?_ ?_ ?_ ?_ ?_ (fun h => absurd hi h)
      all_goals (intros; rename_i e; cases e)
  | d7 v =>
    simp only [exec, Thread.advance]
    exact ⟨P_mono hP rfl (fun _ => rfl) (fun _ => rfl) (fun _ _ => rfl), J_finish (.val v) now hcons⟩
  | d8 seg =>
    have hi : i = ct := is_consumer hJ hpc rfl
    obtain ⟨hh, h1⟩ := hJ.d8 seg hpc
    simp only [exec]
    split
    · exact ⟨hP, J_finish .none now hcons⟩
    · refine ⟨hP, ?_⟩
      simp only [Thread.advance]
      refine J_goto _ hcons ?_ ?_ ?_ ?_ ?_ ?_ ?_ ?_ (fun h => absurd hi h)
      · intros; rename_i e; cases e
      · intros; rename_i e; cases e
      · intros; rename_i e; cases e
      · intros; rename_i e; cases e
      · intros; rename_i e; cases e
      · intros; rename_i e; cases e
      · intros; rename_i e; cases e
      · intro seg' nx' e; injection e with e1 e2; subst e1; subst e2
        exact ⟨hh, h1⟩
  | d9 seg nx =>
    have hi : i = ct := is_consumer hJ hpc rfl
    refine ⟨P_mono hP rfl (fun _ => rfl) (fun _ => rfl) (fun _ _ => rfl), ?_⟩
    simp only [exec, Thread.advance]
    refine J_goto _ hcons ?_ ?_ ?_ ?_ ?_ ?_ ?_ ?_ (fun h => absurd hi h)
    · intros; rename_i e; cases e
    · intro seg' e; injection e with e; exact e.symm
    all_goals (intros; rename_i e; cases e)
  | m1 =>
    refine ⟨hP, ?_⟩
    simp only [exec, Thread.advance]
    refine J_goto _ hcons ?_ ?_ ?_ ?_ ?_ ?_ ?_ ?_ (fun _ => rfl)
    all_goals (intros; rename_i e; cases e)
  | m2 seg =>
    refine ⟨hP, ?_⟩
    simp only [exec, Thread.advance]
    refine J_goto _ hcons ?_ ?_ ?_ ?_ ?_ ?_ ?_ ?_ (fun _ => rfl)
    all_goals (intros; rename_i e; cases e)
  | m3 seg enq =>
    simp only [exec]
    split
    · exact ⟨hP, J_finish _ now hcons⟩
    · refine ⟨hP, ?_⟩
      simp only [Thread.advance]
      refine J_goto _ hcons ?_ ?_ ?_ ?_ ?_ ?_ ?_ ?_ (fun _ => rfl)
      all_goals (intros; rename_i e; cases e)
  | m4 seg => simp only [exec, Thread.advance]; exact ⟨hP, J_finish _ now hcons⟩
  | l1 => simp only [exec, Thread.advance]; exact ⟨hP, J_finish _ now hcons⟩

end GoaktVerif.C04.SegInv

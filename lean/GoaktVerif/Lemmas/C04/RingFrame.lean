/-
C04 — `NonBlockingBoundedMailbox`: non-interference (the other threads' promises survive a step)
and the final reachability theorem.
-/
import GoaktVerif.Lemmas.C04.RingOG

namespace GoaktVerif.C04.RingInv
open GoaktVerif.Model.C04 GoaktVerif.Model.C04.Ring

/-- M1 seen by another thread: `enqPos` grows, nothing else it looks at changes -/
theorem J_frame_reserve {ct j : Nat} {s : Sh} {tj : Th} (v : Nat) (hJ : J ct j s tj) :
    J ct j (({ s with enqPos := s.enqPos + 1 } : Sh).setCtx (s.enqPos % s.size) (some v)) tj where
  enq2 := by intro v' pos h; have := hJ.enq2 v' pos h; show pos ≤ s.enqPos + 1; omega
  enq3 := by
    intro v' pos h
    have := (hJ.enq3 v' pos h).1
    refine ⟨by show pos ≤ s.enqPos + 1; omega, ?_⟩
    intro e; change pos = s.enqPos + 1 at e; omega
  enq4 := by
    intro v' pos h
    obtain ⟨h1, h2, h3⟩ := hJ.enq4 v' pos h
    exact ⟨h1, by show pos < s.enqPos + 1; omega, h3⟩
  deq2 := hJ.deq2
  deq3 := hJ.deq3
  deq4 := hJ.deq4
  idle := hJ.idle
  cons := hJ.cons

/-- M2 seen by another thread -/
theorem J_frame_publish {ct j : Nat} {s : Sh} {tj : Th} (hP : P s) (pos : Nat)
    (h1 : s.deqPos ≤ pos) (h2 : pos < s.enqPos) (h3 : s.seq (pos % s.size) = pos)
    (hK : ∀ v' p', tj.pc = some (.enq4 v' p') → pos ≠ p') (hJ : J ct j s tj) :
    J ct j (s.setSeq (pos % s.size) (pos + 1)) tj := by
  have hz : 0 < s.size := by have := hP.size2; omega
  have hrd := rel_le s
  have hle2 := hP.le2
  have hr := (P_publish hP pos h1 h2).1
  refine ⟨hJ.enq2, ?_, ?_, hJ.deq2, ?_, ?_, ?_, hJ.cons⟩
  · intro v' p h
    obtain ⟨ha, hb⟩ := hJ.enq3 v' p h
    refine ⟨ha, ?_⟩
    intro e
    have hold := hb e
    change p = s.enqPos at e
    show (s.setSeq (pos % s.size) (pos + 1)).seq (p % s.size) = p
    have hne : p % s.size ≠ pos % s.size := by
      intro e'; rw [e', h3] at hold; omega
    rw [setSeq_other s _ hne]; exact hold
  · intro v' p h
    obtain ⟨ha, hb, hc⟩ := hJ.enq4 v' p h
    refine ⟨ha, hb, ?_⟩
    show (s.setSeq (pos % s.size) (pos + 1)).seq (p % s.size) = p
    have hne : p % s.size ≠ pos % s.size := by
      intro e'
      have := mod_inj hz (a := rel s) (p := p) (q := pos) (by omega) (by omega) (by omega) (by omega) e'
      exact hK v' p h this.symm
    rw [setSeq_other s _ hne]; exact hc
  · intro p h
    obtain ⟨ha, hb⟩ := hJ.deq3 p h
    refine ⟨ha, ?_⟩
    show (s.setSeq (pos % s.size) (pos + 1)).seq (p % s.size) = p + 1
    have hne : p % s.size ≠ pos % s.size := by
      intro e'
      have := mod_inj hz (a := rel s) (p := p) (q := pos) (by omega) (by omega) (by omega) (by omega) e'
      rw [this, h3] at hb; omega
    rw [setSeq_other s _ hne]; exact hb
  · intro p msg h
    obtain ⟨ha, hb⟩ := hJ.deq4 p msg h
    exact ⟨ha, by rw [hr]; exact hb⟩
  · intro hi h; rw [hr]; exact hJ.idle hi h

/-- M3 seen by a producer (the stepping thread is the consumer) -/
theorem J_frame_claim {ct j : Nat} {s : Sh} {tj : Th} (hj : j ≠ ct) (hpub : s.seq (s.deqPos % s.size) = s.deqPos + 1)
    (hJ : J ct j s tj) :
    J ct j (({ s with deqPos := s.deqPos + 1 } : Sh).setCtx (s.deqPos % s.size) none) tj := by
  have nd := (hJ.cons hj).1
  refine ⟨hJ.enq2, hJ.enq3, ?_, ?_, ?_, ?_, fun h => absurd h hj, hJ.cons⟩
  · intro v' p h
    obtain ⟨ha, hb, hc⟩ := hJ.enq4 v' p h
    refine ⟨?_, hb, hc⟩
    show s.deqPos + 1 ≤ p
    have : p ≠ s.deqPos := by
      intro e; rw [e, hpub] at hc; omega
    omega
  · intro p h; have := nd _ h; cases this
  · intro p h; have := nd _ h; cases this
  · intro p msg h; have := nd _ h; cases this

/-- M4 seen by a producer (the stepping thread is the consumer) -/
theorem J_frame_release {ct j : Nat} {s : Sh} {tj : Th} (hP : P s) (hj : j ≠ ct) (pos : Nat) (hd : pos + 1 = s.deqPos)
    (hrel : rel s = pos) (hJ : J ct j s tj) : J ct j (s.setSeq (pos % s.size) (pos + s.size)) tj := by
  have nd := (hJ.cons hj).1
  have hz : 0 < s.size := by have := hP.size2; omega
  have hle2 := hP.le2
  refine ⟨hJ.enq2, ?_, ?_, ?_, ?_, ?_, fun h => absurd h hj, hJ.cons⟩
  · intro v' p h
    obtain ⟨ha, hb⟩ := hJ.enq3 v' p h
    refine ⟨ha, ?_⟩
    intro e
    change p = s.enqPos at e
    show (s.setSeq (pos % s.size) (pos + s.size)).seq (p % s.size) = p
    by_cases hs : p % s.size = pos % s.size
    · rw [hs, setSeq_same]
      have hp1 : s.deqPos ≤ p := by rw [e]; exact hP.le1
      have : p = pos + s.size := by
        have hq : (pos + s.size) % s.size = pos % s.size := by simp
        exact mod_inj hz (a := pos + 1) (p := p) (q := pos + s.size) (by omega) (by omega) (by omega) (by omega) (by rw [hq]; exact hs)
      omega
    · rw [setSeq_other s _ hs]; exact hb e
  · intro v' p h
    obtain ⟨ha, hb, hc⟩ := hJ.enq4 v' p h
    refine ⟨ha, hb, ?_⟩
    show (s.setSeq (pos % s.size) (pos + s.size)).seq (p % s.size) = p
    have hne : p % s.size ≠ pos % s.size := by
      intro e'
      have := mod_inj hz (a := pos) (p := p) (q := pos) (by omega) (by omega) (by omega) (by omega) e'
      omega
    rw [setSeq_other s _ hne]; exact hc
  · intro p h; have := nd _ h; cases this
  · intro p h; have := nd _ h; cases this
  · intro p msg h; have := nd _ h; cases this

/-- non-interference: thread `i` takes a step, thread `j ≠ i` keeps its promises -/
theorem ring_hframe (ct : Nat) (s : Sh) (i j : Nat) (ti tj : Th) (pc : PC) (hij : i ≠ j) (hP : P s)
    (hJi : J ct i s ti) (hJj : J ct j s tj) (hK : K ti tj) (hpc : ti.pc = some pc) : J ct j (exec s pc).1 tj := by
  cases pc with
  | enq3 v pos =>
    simp only [exec]
    split
    · next he => rw [← he]; exact J_frame_reserve v hJj
    · exact hJj
  | enq4 v pos =>
    obtain ⟨h1, h2, h3⟩ := hJi.enq4 v pos hpc
    simp only [exec]
    exact J_frame_publish hP pos h1 h2 h3 (fun v' p' h => hK v pos v' p' hpc h) hJj
  | deq3 pos =>
    have hi : i = ct := is_consumer hJi hpc rfl
    obtain ⟨hd, hpub⟩ := hJi.deq3 pos hpc
    simp only [exec]
    split
    · rw [hd]; exact J_frame_claim (by rw [← hi]; exact Ne.symm hij) (by rw [← hd]; exact hpub) hJj
    · exact hJj
  | deq4 pos msg =>
    have hi : i = ct := is_consumer hJi hpc rfl
    obtain ⟨hd, hrel⟩ := hJi.deq4 pos msg hpc
    simp only [exec]
    exact J_frame_release hP (by rw [← hi]; exact Ne.symm hij) pos hd hrel hJj
  | enq2 v pos => simp only [exec]; split <;> (try split) <;> exact hJj
  | deq2 pos => simp only [exec]; split <;> (try split) <;> exact hJj
  | _ => exact hJj

/-- `K` is kept: a thread arrives at `enq4` only through its own successful CAS on `enqPos`, and every
position held by another producer is below `enqPos` -/
theorem ring_hK (ct : Nat) (s : Sh) (i j : Nat) (ti tj : Th) (pc : PC) (now : Nat) (_hij : i ≠ j) (_hP : P s)
    (_hJi : J ct i s ti) (hJj : J ct j s tj) (_hK : K ti tj) (hpc : ti.pc = some pc) :
    K (ti.advance algo now (exec s pc).2) tj ∧ K tj (ti.advance algo now (exec s pc).2) := by
  have key : ∀ v p, (ti.advance algo now (exec s pc).2).pc = some (.enq4 v p) → p = s.enqPos := by
    intro v p h
    cases hnx : (exec s pc).2 with
    | ret r =>
      rw [hnx] at h
      rcases finish_pc' ti r now with h' | ⟨op, _, h'⟩
      · simp only [Thread.advance] at h; rw [h'] at h; cases h
      · simp only [Thread.advance] at h; rw [h'] at h; cases op <;> simp [start] at h
    | goto pc' =>
      rw [hnx] at h
      simp only [Thread.advance, Option.some.injEq] at h
      subst h
      cases pc with
      | enq3 v0 pos =>
        simp only [exec] at hnx
        split at hnx
        · next he => simp only [Next.goto.injEq, PC.enq4.injEq] at hnx; omega
        · simp at hnx
      | enq2 v0 pos => simp only [exec] at hnx; split at hnx <;> (try split at hnx) <;> simp at hnx
      | deq2 pos => simp only [exec] at hnx; split at hnx <;> (try split at hnx) <;> simp at hnx
      | deq3 pos => simp only [exec] at hnx; split at hnx <;> simp at hnx
      | deq4 pos msg => simp only [exec] at hnx; split at hnx <;> simp at hnx
      | _ => simp [exec] at hnx
  refine ⟨?_, ?_⟩
  · intro v p v' p' h1 h2
    have := key v p h1
    have := (hJj.enq4 v' p' h2).2.1
    omega
  · intro v' p' v p h2 h1
    have := key v p h1
    have := (hJj.enq4 v' p' h2).2.1
    omega

end GoaktVerif.C04.RingInv

/-
C04 — UnboundedFairMailbox: the counting identity, for all schedules on which no message is consumed
before it is counted.

`length = Σ_k pending_k + #{threads between Add:length(+1) and Add:pending(+1)} − #{threads between
Add:length(−1) and Add:pending(−1)}` holds as long as finalizeSender's `remaining < 0` branch is not
taken (`noNeg`: the consumer's `Add:pending(−1)` finds `pending ≥ 1`).  On those runs `pending ≥ 0`
for every sender, so at the nil-branch re-check `pending_k > 0` implies `length > 0`: the `guardMiss`
step of FairInv is impossible and the activation invariant holds without exception.
The hypothesis is exactly what the code as it is violates (F9: uncounted consumption).
-/
import GoaktVerif.Lemmas.C04.FairInv

namespace GoaktVerif.C04.FairInv
open GoaktVerif.Model.C04 GoaktVerif.Model.C04.Fair

abbrev Th := Thread PC

/-! ### sums over sender keys -/

def sumP : Nat → Sh → Int
  | 0, _ => 0
  | K + 1, s => sumP K s + (s.boxes K).pending

theorem sumP_congr (K : Nat) (s s' : Sh) (h : ∀ k, k < K → (s'.boxes k).pending = (s.boxes k).pending) :
    sumP K s' = sumP K s := by
  induction K with
  | zero => rfl
  | succ K ih =>
    simp only [sumP]
    rw [ih (fun k hk => h k (Nat.lt_succ_of_lt hk)), h K (Nat.lt_succ_self K)]

theorem sumP_upd (K : Nat) (s s' : Sh) (k : Nat) (d : Int) (hk : k < K)
    (hsame : ∀ j, j ≠ k → (s'.boxes j).pending = (s.boxes j).pending)
    (hd : (s'.boxes k).pending = (s.boxes k).pending + d) : sumP K s' = sumP K s + d := by
  induction K with
  | zero => exact absurd hk (Nat.not_lt_zero _)
  | succ K ih =>
    simp only [sumP]
    by_cases e : k = K
    · subst e
      rw [sumP_congr k s s' (fun j hj => hsame j (Nat.ne_of_lt hj)), hd]; omega
    · have hlt : k < K := by omega
      rw [ih hlt, hsame K (fun e' => e e'.symm)]; omega

theorem sumP_nonneg (K : Nat) (s : Sh) (h : ∀ j, 0 ≤ (s.boxes j).pending) : 0 ≤ sumP K s := by
  induction K with
  | zero => exact Int.le_refl 0
  | succ K ih => simp only [sumP]; have := h K; omega

theorem sumP_ge (K : Nat) (s : Sh) (k : Nat) (hk : k < K) (h : ∀ j, 0 ≤ (s.boxes j).pending) :
    (s.boxes k).pending ≤ sumP K s := by
  induction K with
  | zero => exact absurd hk (Nat.not_lt_zero _)
  | succ K ih =>
    simp only [sumP]
    by_cases e : k = K
    · subst e; have := sumP_nonneg k s h; omega
    · have := ih (by omega); have := h K; omega

/-- senders from `K` on have `pending = 0` -/
def Supp (s : Sh) (K : Nat) : Prop := ∀ k, K ≤ k → (s.boxes k).pending = 0

theorem sumP_extend (s : Sh) (K K' : Nat) (h : Supp s K) (hle : K ≤ K') : sumP K' s = sumP K s := by
  induction K' with
  | zero => have : K = 0 := by omega
            subst this; rfl
  | succ K' ih =>
    by_cases e : K = K' + 1
    · subst e; rfl
    · have hle' : K ≤ K' := by omega
      simp only [sumP]
      rw [ih hle', h K' hle']; omega

/-! ### effect of one step on `pending`, `length`, and the stepping thread's contribution -/

def pendAfter (s : Sh) (pc : PC) (k : Nat) : Int :=
  match pc with
  | .f5 k' _ => if k = k' then (s.boxes k).pending + 1 else (s.boxes k).pending
  | .j2 k' _ => if k = k' then (s.boxes k).pending - 1 else (s.boxes k).pending
  | .j3 k' _ => if k = k' then 0 else (s.boxes k).pending
  | _ => (s.boxes k).pending

theorem updBox_pending_of (s : Sh) (k' : Nat) (f : Box → Box) (k : Nat) (hf : ∀ b, (f b).pending = b.pending) :
    ((s.updBox k' f).boxes k).pending = (s.boxes k).pending := by
  by_cases hk : k = k'
  · subst hk; rw [updBox_same, hf]
  · rw [updBox_ne _ _ _ _ hk]

theorem exec_pending (s : Sh) (pc : PC) (k : Nat) : ((exec s pc).1.boxes k).pending = pendAfter s pc k := by
  cases pc with
  | ub k' first upc =>
    have hs : (exec s (.ub k' first upc)).1 = s.updBox k' (fun b => b.ubStep upc) := by
      simp only [exec]
      split <;> rfl
    rw [hs]; exact updBox_pending_of _ _ _ _ (fun _ => rfl)
  | f5 k' v =>
    simp only [exec, pendAfter]
    by_cases hk : k = k'
    · subst hk; simp [updBox_same]
    · simp [updBox_ne _ _ _ _ hk, hk]
  | f6 k' =>
    simp only [exec, pendAfter]
    split
    · rw [activate_boxes]; exact updBox_pending_of _ _ _ _ (fun _ => rfl)
    · rfl
  | i1 k' => simp only [exec, pendAfter]; exact updBox_pending_of _ _ _ _ (fun _ => rfl)
  | i4 k' =>
    simp only [exec, pendAfter]
    split
    · rw [activate_boxes]; exact updBox_pending_of _ _ _ _ (fun _ => rfl)
    · rfl
  | j2 k' n =>
    simp only [exec, pendAfter]
    by_cases hk : k = k'
    · subst hk
      simp only [if_true]
      split
      · rw [activate_boxes, updBox_same]
      · split <;> rw [updBox_same]
    · simp only [if_neg hk]
      split
      · rw [activate_boxes, updBox_ne _ _ _ _ hk]
      · split <;> rw [updBox_ne _ _ _ _ hk]
  | j3 k' n =>
    simp only [exec, pendAfter]
    by_cases hk : k = k'
    · subst hk; simp [updBox_same]
    · simp [updBox_ne _ _ _ _ hk, hk]
  | j4 k' n => simp only [exec, pendAfter]; exact updBox_pending_of _ _ _ _ (fun _ => rfl)
  | j6 k' n =>
    simp only [exec, pendAfter]
    split
    · rw [activate_boxes]; exact updBox_pending_of _ _ _ _ (fun _ => rfl)
    · rfl
  | g2 hd => simp only [exec, pendAfter]; split <;> rfl
  | g6 hd v => simp only [exec, pendAfter]; split <;> simp [poolPut_boxes, Sh.setAVal]
  | f4 k' v => rfl
  | a1 k' n r => rfl
  | a2 k' n r => rfl
  | a3 k' n r => rfl
  | a4 n prev r => rfl
  | g1 => rfl
  | g3 hd nx => rfl
  | g4 hd nx => rfl
  | g5 hd v => rfl
  | i2 k' => rfl
  | i3 k' => rfl
  | j1 k' n => rfl
  | j5 k' n => rfl
  | l1 e => rfl

theorem poolGet_length (s : Sh) : s.poolGet.1.length = s.length := by
  unfold Sh.poolGet
  split
  · rfl
  · split <;> rfl

theorem poolPut_length (s : Sh) (x : Nat) : (s.poolPut x).length = s.length := by
  unfold Sh.poolPut
  split <;> rfl

theorem activate_length (s : Sh) (k : Nat) (r : Res) : (activate s k r).1.length = s.length := by
  simp [activate, poolGet_length]

def lenAfter (s : Sh) : PC → Int
  | .f4 _ _ => s.length + 1
  | .j1 _ _ => s.length - 1
  | _ => s.length

theorem exec_length (s : Sh) (pc : PC) : (exec s pc).1.length = lenAfter s pc := by
  cases pc with
  | ub k' first upc =>
    simp only [exec, lenAfter]
    split <;> rfl
  | f6 k' =>
    simp only [exec, lenAfter]
    split
    · rw [activate_length]; rfl
    · rfl
  | i4 k' =>
    simp only [exec, lenAfter]
    split
    · rw [activate_length]; rfl
    · rfl
  | j2 k' n =>
    simp only [exec, lenAfter]
    split
    · rw [activate_length]; rfl
    · split <;> rfl
  | j6 k' n =>
    simp only [exec, lenAfter]
    split
    · rw [activate_length]; rfl
    · rfl
  | g2 hd => simp only [exec, lenAfter]; split <;> rfl
  | g6 hd v => simp only [exec, lenAfter]; split <;> simp [poolPut_length, Sh.setAVal]
  | f4 k' v => rfl
  | f5 k' v => rfl
  | a1 k' n r => rfl
  | a2 k' n r => rfl
  | a3 k' n r => rfl
  | a4 n prev r => rfl
  | g1 => rfl
  | g3 hd nx => rfl
  | g4 hd nx => rfl
  | g5 hd v => rfl
  | i1 k' => rfl
  | i2 k' => rfl
  | i3 k' => rfl
  | j1 k' n => rfl
  | j3 k' n => rfl
  | j4 k' n => rfl
  | j5 k' n => rfl
  | l1 e => rfl

/-- +1: the thread has added to `length` and not yet to `pending`; −1: it has subtracted from `length`
and not yet from `pending` -/
def contribPC : PC → Int
  | .f5 _ _ => 1
  | .j2 _ _ => -1
  | _ => 0

def nextContrib : Next PC → Int
  | .goto pc => contribPC pc
  | .ret _ => 0

def nextAfter : PC → Int
  | .f4 _ _ => 1
  | .j1 _ _ => -1
  | _ => 0

theorem exec_next_contrib (s : Sh) (pc : PC) : nextContrib (exec s pc).2 = nextAfter pc := by
  cases pc with
  | ub k' first upc =>
    simp only [exec, nextAfter]
    split
    · rfl
    · rfl
    · rfl
    · cases first <;> rfl
  | f5 k' v => rfl
  | f6 k' =>
    simp only [exec, nextAfter]
    split <;> rfl
  | i3 k' =>
    simp only [exec, nextAfter]
    split <;> rfl
  | i4 k' =>
    simp only [exec, nextAfter]
    split <;> rfl
  | j2 k' n =>
    simp only [exec, nextAfter]
    split
    · rfl
    · split <;> rfl
  | j6 k' n =>
    simp only [exec, nextAfter]
    split <;> rfl
  | g2 hd => simp only [exec, nextAfter]; split <;> rfl
  | g6 hd v => simp only [exec, nextAfter]; split <;> rfl
  | f4 k' v => rfl
  | a1 k' n r => rfl
  | a2 k' n r => rfl
  | a3 k' n r => rfl
  | a4 n prev r => rfl
  | g1 => rfl
  | g3 hd nx => rfl
  | g4 hd nx => rfl
  | g5 hd v => rfl
  | i1 k' => rfl
  | i2 k' => rfl
  | j1 k' n => rfl
  | j3 k' n => rfl
  | j4 k' n => rfl
  | j5 k' n => rfl
  | l1 e => rfl

/-- the steps excluded by the hypothesis: finalizeSender's `remaining < 0` branch, and the decrement that
leads to it (a message consumed before it was counted) -/
def noNeg (s : Sh) : PC → Bool
  | .j2 k _ => decide (1 ≤ (s.boxes k).pending)
  | .j3 _ _ => false
  | _ => true

/-- the sender key whose `pending` the step writes -/
def keyOf : PC → Nat
  | .f5 k _ => k
  | .j2 k _ => k
  | _ => 0

theorem balance (K : Nat) (s : Sh) (pc : PC) (hk : keyOf pc < K) (hn : noNeg s pc = true) :
    (exec s pc).1.length - sumP K (exec s pc).1 - nextContrib (exec s pc).2 =
      s.length - sumP K s - contribPC pc := by
  have hL := exec_length s pc
  have hN := exec_next_contrib s pc
  have hsame : (∀ k, pendAfter s pc k = (s.boxes k).pending) → sumP K (exec s pc).1 = sumP K s := fun h =>
    sumP_congr K s _ (fun k _ => by rw [exec_pending]; exact h k)
  cases pc with
  | f5 k' v =>
    have hS := sumP_upd K s (exec s (.f5 k' v)).1 k' 1 hk
      (fun j hj => by rw [exec_pending]; simp [pendAfter, hj])
      (by rw [exec_pending]; simp [pendAfter])
    rw [hL, hN, hS]; simp only [lenAfter, nextAfter, contribPC]; omega
  | j2 k' n =>
    have hS := sumP_upd K s (exec s (.j2 k' n)).1 k' (-1) hk
      (fun j hj => by rw [exec_pending]; simp [pendAfter, hj])
      (by rw [exec_pending]; simp [pendAfter]; omega)
    rw [hL, hN, hS]; simp only [lenAfter, nextAfter, contribPC]; omega
  | j3 k' n => simp [noNeg] at hn
  | f4 k' v => rw [hL, hN, hsame (fun _ => rfl)]; simp only [lenAfter, nextAfter, contribPC]; omega
  | j1 k' n => rw [hL, hN, hsame (fun _ => rfl)]; simp only [lenAfter, nextAfter, contribPC]; omega
  | ub k' first upc => rw [hL, hN, hsame (fun _ => rfl)]; simp only [lenAfter, nextAfter, contribPC]
  | f6 k' => rw [hL, hN, hsame (fun _ => rfl)]; simp only [lenAfter, nextAfter, contribPC]
  | a1 k' n r => rw [hL, hN, hsame (fun _ => rfl)]; simp only [lenAfter, nextAfter, contribPC]
  | a2 k' n r => rw [hL, hN, hsame (fun _ => rfl)]; simp only [lenAfter, nextAfter, contribPC]
  | a3 k' n r => rw [hL, hN, hsame (fun _ => rfl)]; simp only [lenAfter, nextAfter, contribPC]
  | a4 n prev r => rw [hL, hN, hsame (fun _ => rfl)]; simp only [lenAfter, nextAfter, contribPC]
  | g1 => rw [hL, hN, hsame (fun _ => rfl)]; simp only [lenAfter, nextAfter, contribPC]
  | g2 hd => rw [hL, hN, hsame (fun _ => rfl)]; simp only [lenAfter, nextAfter, contribPC]
  | g3 hd nx => rw [hL, hN, hsame (fun _ => rfl)]; simp only [lenAfter, nextAfter, contribPC]
  | g4 hd nx => rw [hL, hN, hsame (fun _ => rfl)]; simp only [lenAfter, nextAfter, contribPC]
  | g5 hd v => rw [hL, hN, hsame (fun _ => rfl)]; simp only [lenAfter, nextAfter, contribPC]
  | g6 hd v => rw [hL, hN, hsame (fun _ => rfl)]; simp only [lenAfter, nextAfter, contribPC]
  | i1 k' => rw [hL, hN, hsame (fun _ => rfl)]; simp only [lenAfter, nextAfter, contribPC]
  | i2 k' => rw [hL, hN, hsame (fun _ => rfl)]; simp only [lenAfter, nextAfter, contribPC]
  | i3 k' => rw [hL, hN, hsame (fun _ => rfl)]; simp only [lenAfter, nextAfter, contribPC]
  | i4 k' => rw [hL, hN, hsame (fun _ => rfl)]; simp only [lenAfter, nextAfter, contribPC]
  | j4 k' n => rw [hL, hN, hsame (fun _ => rfl)]; simp only [lenAfter, nextAfter, contribPC]
  | j5 k' n => rw [hL, hN, hsame (fun _ => rfl)]; simp only [lenAfter, nextAfter, contribPC]
  | j6 k' n => rw [hL, hN, hsame (fun _ => rfl)]; simp only [lenAfter, nextAfter, contribPC]
  | l1 e => rw [hL, hN, hsame (fun _ => rfl)]; simp only [lenAfter, nextAfter, contribPC]

/-- `pending` stays non-negative on the steps the hypothesis allows -/
theorem nonneg_step (s : Sh) (pc : PC) (hn : noNeg s pc = true) (h : ∀ k, 0 ≤ (s.boxes k).pending) :
    ∀ k, 0 ≤ ((exec s pc).1.boxes k).pending := by
  intro k
  rw [exec_pending]
  have hk := h k
  cases pc with
  | f5 k' v => simp only [pendAfter]; split <;> omega
  | j2 k' n =>
    simp only [pendAfter]
    split
    · next e => subst e; simp [noNeg] at hn; omega
    · exact hk
  | j3 k' n => simp [noNeg] at hn
  | _ => exact hk

theorem supp_step (s : Sh) (pc : PC) (K : Nat) (hk : keyOf pc < K) (hn : noNeg s pc = true) (h : Supp s K) :
    Supp (exec s pc).1 K := by
  intro k hle
  rw [exec_pending]
  have h0 := h k hle
  cases pc with
  | f5 k' v =>
    simp only [pendAfter]
    have : k ≠ k' := by simp only [keyOf] at hk; omega
    rw [if_neg this]; exact h0
  | j2 k' n =>
    simp only [pendAfter]
    have : k ≠ k' := by simp only [keyOf] at hk; omega
    rw [if_neg this]; exact h0
  | j3 k' n => simp [noNeg] at hn
  | _ => exact h0

/-! ### threads -/

def contrib (t : Th) : Int :=
  match t.pc with
  | some pc => contribPC pc
  | none => 0

def cnt : List Th → Int
  | [] => 0
  | t :: ts => contrib t + cnt ts

theorem cnt_set (ts : List Th) (i : Nat) (t t' : Th) (h : ts[i]? = some t) :
    cnt (ts.set i t') = cnt ts - contrib t + contrib t' := by
  induction ts generalizing i with
  | nil => simp at h
  | cons a as ih =>
    cases i with
    | zero =>
      simp only [List.getElem?_cons_zero, Option.some.injEq] at h
      subst h
      simp only [List.set_cons_zero, cnt]; omega
    | succ i =>
      simp only [List.getElem?_cons_succ] at h
      simp only [List.set_cons_succ, cnt, ih i h]; omega

theorem cnt_nonneg (ts : List Th) (h : ∀ (i : Nat) (t : Th), ts[i]? = some t → 0 ≤ contrib t) : 0 ≤ cnt ts := by
  induction ts with
  | nil => exact Int.le_refl 0
  | cons a as ih =>
    simp only [cnt]
    have h0 := h 0 a (by simp)
    have := ih (fun i t hi => h (i + 1) t (by simpa using hi))
    omega

theorem contribPC_start (op : Op) : contribPC (start op) = 0 := by
  cases op <;> rfl

theorem contrib_advance (t : Th) (now : Nat) (nx : Next PC) :
    contrib (t.advance Fair.algo now nx) = nextContrib nx := by
  cases nx with
  | goto pc => rfl
  | ret r =>
    simp only [Thread.advance, nextContrib, Thread.finish, contrib]
    cases t.prog with
    | nil => rfl
    | cons op rest => exact contribPC_start op

/-! ### producers never stand at a consumer site -/

/-- sites of Enqueue / Len -/
def prodPC : PC → Bool
  | .ub _ _ (.enq1 _) => true
  | .ub _ _ (.enq2 _) => true
  | .ub _ _ (.enq3 _ _) => true
  | .f4 _ _ => true
  | .f5 _ _ => true
  | .f6 _ => true
  | .a1 _ _ .ok => true
  | .a2 _ _ .ok => true
  | .a3 _ _ .ok => true
  | .a4 _ _ .ok => true
  | .l1 false => true
  | _ => false

def prodOp : Op → Bool
  | .enq _ _ => true
  | .len => true
  | _ => false

theorem prodPC_start (op : Op) (h : prodOp op = true) : prodPC (start op) = true := by
  cases op <;> simp [prodOp] at h <;> rfl

theorem prodPC_step (s : Sh) (pc pc' : PC) (h : prodPC pc = true) (hx : (exec s pc).2 = .goto pc') :
    prodPC pc' = true := by
  cases pc with
  | ub k' first upc =>
    cases upc with
    | enq1 v => simp only [exec, Unbounded.exec] at hx; injection hx with hx; subst hx; rfl
    | enq2 v => simp only [exec, Unbounded.exec] at hx; injection hx with hx; subst hx; rfl
    | enq3 v prev =>
      simp only [exec, Unbounded.exec] at hx
      split at hx
      · injection hx with hx; subst hx; rfl
      · cases hx
    | _ => simp [prodPC] at h
  | f4 k' v => simp only [exec] at hx; injection hx with hx; subst hx; rfl
  | f5 k' v => simp only [exec] at hx; injection hx with hx; subst hx; rfl
  | f6 k' =>
    simp only [exec] at hx
    split at hx
    · simp only [activate] at hx; injection hx with hx; subst hx; rfl
    · cases hx
  | a1 k' n r =>
    cases r <;> simp [prodPC] at h
    simp only [exec] at hx; injection hx with hx; subst hx; rfl
  | a2 k' n r =>
    cases r <;> simp [prodPC] at h
    simp only [exec] at hx; injection hx with hx; subst hx; rfl
  | a3 k' n r =>
    cases r <;> simp [prodPC] at h
    simp only [exec] at hx; injection hx with hx; subst hx; rfl
  | a4 n prev r => simp only [exec] at hx; cases hx
  | l1 e => simp only [exec] at hx; cases hx
  | _ => simp [prodPC] at h

theorem contribPC_prod (pc : PC) (h : prodPC pc = true) : 0 ≤ contribPC pc := by
  cases pc <;> simp [prodPC] at h <;> simp [contribPC]

/-- thread `i` other than the consumer `ct`: at an Enqueue/Len site, with only Enqueue/Len ahead -/
def ProdT (ct i : Nat) (t : Th) : Prop :=
  i ≠ ct → (∀ pc, t.pc = some pc → prodPC pc = true) ∧ (∀ op ∈ t.prog, prodOp op = true)

/-- usage: only thread `ct` calls Dequeue / IsEmpty -/
def FairWF (ct : Nat) (progs : List (List Op)) : Prop :=
  ∀ (i : Nat) (p : List Op), progs[i]? = some p → i ≠ ct → ∀ op ∈ p, prodOp op = true

theorem prodT_mk (ct i : Nat) (p : List Op) (n : Nat) (h : i ≠ ct → ∀ op ∈ p, prodOp op = true) :
    ProdT ct i (mkThread Fair.algo p n) := by
  intro hi
  have hp := h hi
  unfold mkThread
  cases p with
  | nil =>
    refine ⟨fun pc e => ?_, fun op ho => ?_⟩
    · simp at e
    · simp at ho
  | cons op rest =>
    refine ⟨fun pc e => ?_, fun o ho => hp o (List.mem_cons_of_mem _ ho)⟩
    simp only [Option.some.injEq] at e
    subst e
    exact prodPC_start op (hp op (by simp))

theorem prodT_advance (ct i : Nat) (s : Sh) (t : Th) (pc : PC) (now : Nat) (h : ProdT ct i t) (hpc : t.pc = some pc) :
    ProdT ct i (t.advance Fair.algo now (exec s pc).2) := by
  intro hi
  obtain ⟨h1, h2⟩ := h hi
  cases hx : (exec s pc).2 with
  | goto pc' =>
    refine ⟨fun q e => ?_, h2⟩
    simp only [Thread.advance, Option.some.injEq] at e
    subst e
    exact prodPC_step s pc _ (h1 pc hpc) hx
  | ret r =>
    simp only [Thread.advance, Thread.finish]
    cases hp : t.prog with
    | nil =>
      refine ⟨fun q e => ?_, fun op ho => ?_⟩
      · simp at e
      · simp at ho
    | cons op rest =>
      refine ⟨fun q e => ?_, fun o ho => h2 o (by rw [hp]; exact List.mem_cons_of_mem _ ho)⟩
      simp only [Option.some.injEq] at e
      subst e
      exact prodPC_start op (h2 op (by rw [hp]; simp))

/-! ### the runs the hypothesis allows -/

/-- reachable without consuming a message before it is counted -/
inductive ReachNU (c0 : Cfg Fair.algo) : Cfg Fair.algo → Prop where
  | init : ReachNU c0 c0
  | step {c : Cfg Fair.algo} (tid : Nat) : ReachNU c0 c →
      (∀ (t : Th) (pc : PC), c.threads[tid]? = some t → t.pc = some pc → noNeg c.sh pc = true) →
      ReachNU c0 (stepCfg c tid)

/-- the counting identity, non-negative counters, and the producer/consumer separation -/
structure CountInv (ct : Nat) (c : Cfg Fair.algo) : Prop where
  ident : ∃ K, Supp c.sh K ∧ c.sh.length = sumP K c.sh + cnt c.threads
  nonneg : ∀ k, 0 ≤ (c.sh.boxes k).pending
  prod : ∀ (i : Nat) (t : Th), c.threads[i]? = some t → ProdT ct i t

theorem cnt_spawn_zero : ∀ (progs : List (List Op)) (n : Nat), cnt (spawn Fair.algo progs n).1 = 0
  | [], _ => rfl
  | p :: ps, n => by
    simp only [spawn, cnt, cnt_spawn_zero ps]
    cases p with
    | nil => rfl
    | cons op rest => simp only [mkThread, contrib]; rw [contribPC_start]; rfl

theorem countInv_init (ct : Nat) (progs : List (List Op)) (wf : FairWF ct progs) :
    CountInv ct (initCfg Fair.algo Fair.init progs) := by
  refine ⟨⟨0, fun k _ => rfl, ?_⟩, fun k => Int.le_refl 0, ?_⟩
  · show (0 : Int) = sumP 0 _ + cnt (spawn Fair.algo progs 0).1
    rw [cnt_spawn_zero]; rfl
  · intro i t hi
    obtain ⟨p, n, hp, e⟩ := spawn_get' Fair.algo progs 0 i t hi
    subst e
    exact prodT_mk ct i p n (fun hne => wf i p hp hne)

theorem countInv_step (ct : Nat) (c : Cfg Fair.algo) (tid : Nat) (h : CountInv ct c)
    (hn : ∀ (t : Th) (pc : PC), c.threads[tid]? = some t → t.pc = some pc → noNeg c.sh pc = true) :
    CountInv ct (stepCfg c tid) := by
  unfold stepCfg
  split
  · exact h
  · next t ht =>
    split
    · exact h
    · next pc hpc =>
      have hnn := hn t pc ht hpc
      obtain ⟨K, hsupp, hid⟩ := h.ident
      refine ⟨?_, nonneg_step c.sh pc hnn h.nonneg, ?_⟩
      · -- identity, with the bound enlarged to cover the key written by this step
        let K' := max K (keyOf pc + 1)
        have hK' : keyOf pc < K' := by simp only [K']; omega
        have hle : K ≤ K' := by simp only [K']; omega
        have hsupp' : Supp c.sh K' := fun k hk => hsupp k (by omega)
        have hid' : c.sh.length = sumP K' c.sh + cnt c.threads := by
          rw [sumP_extend c.sh K K' hsupp hle]; exact hid
        refine ⟨K', supp_step c.sh pc K' hK' hnn hsupp', ?_⟩
        have hb := balance K' c.sh pc hK' hnn
        have hc := cnt_set c.threads tid t (t.advance Fair.algo c.clock (exec c.sh pc).2) ht
        rw [contrib_advance] at hc
        have hct : contrib t = contribPC pc := by simp only [contrib, hpc]
        show (exec c.sh pc).1.length = sumP K' (exec c.sh pc).1 +
          cnt (c.threads.set tid (t.advance Fair.algo c.clock (exec c.sh pc).2))
        rw [hc, hct]; omega
      · intro i ti hi
        change (c.threads.set tid (t.advance Fair.algo c.clock (exec c.sh pc).2))[i]? = some ti at hi
        by_cases e : i = tid
        · subst e
          have hlen : i < c.threads.length := by
            rcases Nat.lt_or_ge i c.threads.length with h' | h'
            · exact h'
            · rw [List.getElem?_eq_none h'] at ht; cases ht
          simp only [List.getElem?_set, hlen, ↓reduceIte, Option.some.injEq] at hi
          subst hi
          exact prodT_advance ct i c.sh t pc c.clock (h.prod i t ht) hpc
        · rw [List.getElem?_set_ne (Ne.symm e)] at hi
          exact h.prod i ti hi

theorem countInv_reach (ct : Nat) (progs : List (List Op)) (wf : FairWF ct progs) (c : Cfg Fair.algo)
    (h : ReachNU (initCfg Fair.algo Fair.init progs) c) : CountInv ct c := by
  induction h with
  | init => exact countInv_init ct progs wf
  | step tid _ hn ih => exact countInv_step ct _ tid ih hn

/-- with the counting identity, the re-check cannot miss: `pending_k > 0` implies `length > 0` there -/
theorem no_guardMiss (ct : Nat) (c : Cfg Fair.algo) (h : CountInv ct c) (tid : Nat) (t : Th) (pc : PC)
    (ht : c.threads[tid]? = some t) (hpc : t.pc = some pc) : guardMiss c.sh pc = false := by
  cases pc with
  | i3 k =>
    simp only [guardMiss]
    by_cases hp : (c.sh.boxes k).pending > 0
    · -- every thread contributes ≥ 0: producers by their sites, the consumer because it stands at `i3`
      have hcn : 0 ≤ cnt c.threads := by
        apply cnt_nonneg
        intro i ti hi
        by_cases e : i = tid
        · subst e
          rw [ht] at hi; injection hi with hi; subst hi
          simp only [contrib, hpc, contribPC]; exact Int.le_refl 0
        · by_cases e2 : i = ct
          · -- the consumer index: then `tid ≠ ct` would be a producer at `i3`, impossible
            subst e2
            have := (h.prod tid t ht (fun e' => e e'.symm)).1 _ hpc
            simp [prodPC] at this
          · simp only [contrib]
            cases hq : ti.pc with
            | none => exact Int.le_refl 0
            | some q => exact contribPC_prod q ((h.prod i ti hi e2).1 q hq)
      obtain ⟨K, hsupp, hid⟩ := h.ident
      have hkK : k < K := by
        rcases Nat.lt_or_ge k K with h' | h'
        · exact h'
        · have := hsupp k h'; omega
      have := sumP_ge K c.sh k hkK h.nonneg
      have hl : c.sh.length > 0 := by omega
      simp [hl]
    · simp [hp]
  | _ => rfl

theorem reachNU_reachNM (ct : Nat) (progs : List (List Op)) (wf : FairWF ct progs) (c : Cfg Fair.algo)
    (h : ReachNU (initCfg Fair.algo Fair.init progs) c) : ReachNM (initCfg Fair.algo Fair.init progs) c := by
  induction h with
  | init => exact ReachNM.init
  | @step c tid hr _ ih =>
    exact ReachNM.step tid ih (fun t pc ht hpc => no_guardMiss ct c (countInv_reach ct progs wf c hr) tid t pc ht hpc)

/-! ### the hypothesis is checkable on a concrete run -/

def stepOK (c : Cfg Fair.algo) (tid : Nat) : Bool :=
  match c.threads[tid]? with
  | some t =>
    match t.pc with
    | some pc => noNeg c.sh pc
    | none => true
  | none => true

/-- every step of the schedule is one the hypothesis allows -/
def runNU (c : Cfg Fair.algo) : List Nat → Bool
  | [] => true
  | t :: ts => stepOK c t && runNU (stepCfg c t) ts

theorem reachNU_run (c0 c : Cfg Fair.algo) (h : ReachNU c0 c) (s : List Nat) (hs : runNU c s = true) :
    ReachNU c0 (runSched c s) := by
  induction s generalizing c with
  | nil => exact h
  | cons t ts ih =>
    simp only [runNU, Bool.and_eq_true] at hs
    refine ih (stepCfg c t) (ReachNU.step t h ?_) hs.2
    intro th pc hth hpc
    have := hs.1
    simp only [stepOK, hth, hpc] at this
    exact this

end GoaktVerif.C04.FairInv

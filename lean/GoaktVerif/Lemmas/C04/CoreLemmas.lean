/-
C04 — generic facts about the thread frame (Model/C04/Core.lean).
-/
import GoaktVerif.Model.C04.Core

namespace GoaktVerif.C04
open GoaktVerif.Model.C04

theorem stepCfg_sh_cases {A : Algo} (c : Cfg A) (tid : Nat) :
    (stepCfg c tid).sh = c.sh ∨ ∃ pc, (stepCfg c tid).sh = (A.exec c.sh pc).1 := by
  unfold stepCfg
  split
  · exact Or.inl rfl
  · split
    · exact Or.inl rfl
    · next pc _ => exact Or.inr ⟨pc, rfl⟩

/-- a property of the shared state that every atomic step preserves holds in every reachable
configuration — for all programs, any number of threads, all schedules -/
theorem reach_sh_inv {A : Algo} {c0 : Cfg A} (P : A.Sh → Prop) (h0 : P c0.sh)
    (hstep : ∀ s pc, P s → P (A.exec s pc).1) : ∀ c, Reach A c0 c → P c.sh := by
  intro c hr
  induction hr with
  | init => exact h0
  | @step c tid _ ih =>
    rcases stepCfg_sh_cases c tid with h | ⟨pc, h⟩
    · rw [h]; exact ih
    · rw [h]; exact hstep _ pc ih

theorem finish_pc_start {A : Algo} (t : Thread A.PC) (r : Res) (now : Nat) (pc : A.PC)
    (h : (t.finish A r now).pc = some pc) : ∃ op, pc = A.start op := by
  unfold Thread.finish at h
  cases hp : t.prog with
  | nil => simp [hp] at h
  | cons op rest => simp only [hp, Option.some.injEq] at h; exact ⟨op, h.symm⟩

theorem mkThread_pc_start {A : Algo} (p : List Op) (k : Nat) (pc : A.PC)
    (h : (mkThread A p k).pc = some pc) : ∃ op, pc = A.start op := by
  unfold mkThread at h
  cases p with
  | nil => simp at h
  | cons op rest => simp only [Option.some.injEq] at h; exact ⟨op, h.symm⟩

theorem spawn_pc_start {A : Algo} : ∀ (progs : List (List Op)) (n i : Nat) (t : Thread A.PC) (pc : A.PC),
    (spawn A progs n).1[i]? = some t → t.pc = some pc → ∃ op, pc = A.start op
  | [], _, _, _, _, h, _ => by simp [spawn] at h
  | p :: ps, n, 0, t, pc, h, hpc => by
    simp only [spawn, List.getElem?_cons_zero, Option.some.injEq] at h
    subst h; exact mkThread_pc_start p _ pc hpc
  | p :: ps, n, i + 1, t, pc, h, hpc => by
    simp only [spawn, List.getElem?_cons_succ] at h
    exact spawn_pc_start ps _ i t pc h hpc

/-- invariants that also constrain the threads' locals: `P` on the shared state, `Q` on every
program counter (with its locals); both are established initially and preserved by every step -/
theorem reach_inv2 {A : Algo} {sh0 : A.Sh} {progs : List (List Op)} (P : A.Sh → Prop) (Q : A.PC → Prop)
    (h0 : P sh0) (hq0 : ∀ op, Q (A.start op))
    (hstep : ∀ s pc, P s → Q pc → P (A.exec s pc).1 ∧ ∀ pc', (A.exec s pc).2 = .goto pc' → Q pc') :
    ∀ c, Reach A (initCfg A sh0 progs) c →
      P c.sh ∧ ∀ (i : Nat) (t : Thread A.PC) (pc : A.PC), c.threads[i]? = some t → t.pc = some pc → Q pc := by
  intro c hr
  induction hr with
  | init =>
    refine ⟨h0, ?_⟩
    intro i t pc hi hpc
    obtain ⟨op, e⟩ := spawn_pc_start progs 0 i t pc hi hpc
    rw [e]; exact hq0 op
  | @step c tid _ ih =>
    obtain ⟨ihP, ihQ⟩ := ih
    unfold stepCfg
    split
    · exact ⟨ihP, ihQ⟩
    · next t ht =>
      split
      · exact ⟨ihP, ihQ⟩
      · next pc hpc =>
        have hs := hstep c.sh pc ihP (ihQ tid t pc ht hpc)
        refine ⟨hs.1, ?_⟩
        intro i ti pci hi hpci
        by_cases e : i = tid
        · subst e
          have hlen : i < c.threads.length := by
            rcases Nat.lt_or_ge i c.threads.length with h' | h'
            · exact h'
            · rw [List.getElem?_eq_none h'] at ht; cases ht
          simp only [List.getElem?_set, hlen, ↓reduceIte, Option.some.injEq] at hi
          subst hi
          cases hnx : (A.exec c.sh pc).2 with
          | goto pc' =>
            rw [hnx] at hpci
            simp only [Thread.advance, Option.some.injEq] at hpci
            subst hpci
            exact hs.2 _ hnx
          | ret r =>
            rw [hnx] at hpci
            obtain ⟨op, e⟩ := finish_pc_start t r c.clock pci hpci
            rw [e]; exact hq0 op
        · have : (c.threads.set tid (t.advance A c.clock (A.exec c.sh pc).2))[i]? = c.threads[i]? := by
            simp [List.getElem?_set, Ne.symm e]
          rw [this] at hi
          exact ihQ i ti pci hi hpci

end GoaktVerif.C04

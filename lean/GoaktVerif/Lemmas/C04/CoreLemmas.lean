/-
C04 — generic facts about the thread frame (Model/C04/Core.lean).
-/
import GoaktVerif.Model.C04.Core

namespace GoaktVerif.C04
open GoaktVerif.Model.C04

theorem stepCfg_sh_cases {A : Algo} (c : Cfg A) (tid : Nat) :
    (stepCfg c tid).sh = c.sh ∨ ∃ pc, (stepCfg c tid).sh = (A.exec c.sh pc).1 := by
  unfold stepCfg
  split
  · exact Or.inl rfl
  · split
    · exact Or.inl rfl
    · next pc _ => exact Or.inr ⟨pc, rfl⟩

/-- a property of the shared state that every atomic step preserves holds in every reachable
configuration — for all programs, any number of threads, all schedules -/
theorem reach_sh_inv {A : Algo} {c0 : Cfg A} (P : A.Sh → Prop) (h0 : P c0.sh)
    (hstep : ∀ s pc, P s → P (A.exec s pc).1) : ∀ c, Reach A c0 c → P c.sh := by
  intro c hr
  induction hr with
  | init => exact h0
  | @step c tid _ ih =>
    rcases stepCfg_sh_cases c tid with h | ⟨pc, h⟩
    · rw [h]; exact ih
    · rw [h]; exact hstep _ pc ih

theorem finish_pc_start {A : Algo} (t : Thread A.PC) (r : Res) (now : Nat) (pc : A.PC)
    (h : (t.finish A r now).pc = some pc) : ∃ op, pc = A.start op := by
  unfold Thread.finish at h
  cases hp : t.prog with
  | nil => simp [hp] at h
  | cons op rest => simp only [hp, Option.some.injEq] at h; exact ⟨op, h.symm⟩

theorem mkThread_pc_start {A : Algo} (p : List Op) (k : Nat) (pc : A.PC)
    (h : (mkThread A p k).pc = some pc) : ∃ op, pc = A.start op := by
  unfold mkThread at h
  cases p with
  | nil => simp at h
  | cons op rest => simp only [Option.some.injEq] at h; exact ⟨op, h.symm⟩

theorem spawn_pc_start {A : Algo} : ∀ (progs : List (List Op)) (n i : Nat) (t : Thread A.PC) (pc : A.PC),
    (spawn A progs n).1[i]? = some t → t.pc = some pc → ∃ op, pc = A.start op
  | [], _, _, _, _, h, _ => by simp [spawn] at h
  | p :: ps, n, 0, t, pc, h, hpc => by
    simp only [spawn, List.getElem?_cons_zero, Option.some.injEq] at h
    subst h; exact mkThread_pc_start p _ pc hpc
  | p :: ps, n, i + 1, t, pc, h, hpc => by
    simp only [spawn, List.getElem?_cons_succ] at h
    exact spawn_pc_start ps _ i t pc h hpc

/-- invariants that also constrain the threads' locals: `P` on the shared state, `Q` on every
program counter (with its locals); both are established initially and preserved by every step -/
theorem reach_inv2 {A : Algo} {sh0 : A.Sh} {progs : List (List Op)} (P : A.Sh → Prop) (Q : A.PC → Prop)
    (h0 : P sh0) (hq0 : ∀ op, Q (A.start op))
    (hstep : ∀ s pc, P s → Q pc → P (A.exec s pc).1 ∧ ∀ pc', (A.exec s pc).2 = .goto pc' → Q pc') :
    ∀ c, Reach A (initCfg A sh0 progs) c →
      P c.sh ∧ ∀ (i : Nat) (t : Thread A.PC) (pc : A.PC), c.threads[i]? = some t → t.pc = some pc → Q pc := by
  intro c hr
  induction hr with
  | init =>
    refine ⟨h0, ?_⟩
    intro i t pc hi hpc
    obtain ⟨op, e⟩ := spawn_pc_start progs 0 i t pc hi hpc
    rw [e]; exact hq0 op
  | @step c tid _ ih =>
    obtain ⟨ihP, ihQ⟩ := ih
    unfold stepCfg
    split
    · exact ⟨ihP, ihQ⟩
    · next t ht =>
      split
      · exact ⟨ihP, ihQ⟩
      · next pc hpc =>
        have hs := hstep c.sh pc ihP (ihQ tid t pc ht hpc)
        refine ⟨hs.1, ?_⟩
        intro i ti pci hi hpci
        by_cases e : i = tid
        · subst e
          have hlen : i < c.threads.length := by
            rcases Nat.lt_or_ge i c.threads.length with h' | h'
            · exact h'
            · rw [List.getElem?_eq_none h'] at ht; cases ht
          simp only [List.getElem?_set, hlen, ↓reduceIte, Option.some.injEq] at hi
          subst hi
          cases hnx : (A.exec c.sh pc).2 with
          | goto pc' =>
            rw [hnx] at hpci
            simp only [Thread.advance, Option.some.injEq] at hpci
            subst hpci
            exact hs.2 _ hnx
          | ret r =>
            rw [hnx] at hpci
            obtain ⟨op, e⟩ := finish_pc_start t r c.clock pci hpci
            rw [e]; exact hq0 op
        · have : (c.threads.set tid (t.advance A c.clock (A.exec c.sh pc).2))[i]? = c.threads[i]? := by
            simp [List.getElem?_set, Ne.symm e]
          rw [this] at hi
          exact ihQ i ti pci hi hpci

theorem spawn_get' (A : Algo) : ∀ (progs : List (List Op)) (n i : Nat) (t : Thread A.PC),
    (spawn A progs n).1[i]? = some t → ∃ p k, progs[i]? = some p ∧ t = mkThread A p k
  | [], _, _, _, h => by simp [spawn] at h
  | p :: ps, n, 0, t, h => by
    simp only [spawn, List.getElem?_cons_zero, Option.some.injEq] at h
    exact ⟨p, _, by simp, h.symm⟩
  | p :: ps, n, i + 1, t, h => by
    simp only [spawn, List.getElem?_cons_succ] at h
    obtain ⟨q, k, hq, ht⟩ := spawn_get' A ps _ i t h
    exact ⟨q, k, by simpa using hq, ht⟩

/-- Owicki–Gries style invariants: `P` on the shared state, `J i` on thread `i` relative to the shared
state (its program counter, locals and remaining program), `K` between two different threads.
Obligations: initial; the stepping thread re-establishes `P` and its own `J`; the other threads'
`J` is not interfered with; `K` is kept.  Conclusion: all three hold in every reachable
configuration — all programs, any number of threads, all schedules. -/
theorem reach_og {A : Algo} {sh0 : A.Sh} {progs : List (List Op)}
    (P : A.Sh → Prop) (J : Nat → A.Sh → Thread A.PC → Prop) (K : Thread A.PC → Thread A.PC → Prop)
    (h0 : P sh0)
    (hj0 : ∀ (i : Nat) (p : List Op) (k : Nat), progs[i]? = some p → J i sh0 (mkThread A p k))
    (hk0 : ∀ (p q : List Op) (k k' : Nat), K (mkThread A p k) (mkThread A q k'))
    (hstep : ∀ (s : A.Sh) (i : Nat) (t : Thread A.PC) (pc : A.PC) (now : Nat), P s → J i s t → t.pc = some pc →
        P (A.exec s pc).1 ∧ J i (A.exec s pc).1 (t.advance A now (A.exec s pc).2))
    (hframe : ∀ (s : A.Sh) (i j : Nat) (ti tj : Thread A.PC) (pc : A.PC), i ≠ j → P s → J i s ti → J j s tj →
        K ti tj → ti.pc = some pc → J j (A.exec s pc).1 tj)
    (hK : ∀ (s : A.Sh) (i j : Nat) (ti tj : Thread A.PC) (pc : A.PC) (now : Nat), i ≠ j → P s → J i s ti → J j s tj →
        K ti tj → ti.pc = some pc →
        K (ti.advance A now (A.exec s pc).2) tj ∧ K tj (ti.advance A now (A.exec s pc).2)) :
    ∀ c, Reach A (initCfg A sh0 progs) c →
      P c.sh ∧ (∀ (i : Nat) (t : Thread A.PC), c.threads[i]? = some t → J i c.sh t) ∧
      (∀ (i j : Nat) (ti tj : Thread A.PC), i ≠ j → c.threads[i]? = some ti → c.threads[j]? = some tj → K ti tj) := by
  intro c hr
  induction hr with
  | init =>
    refine ⟨h0, ?_, ?_⟩
    · intro i t hi
      obtain ⟨p, k, hp, e⟩ := spawn_get' A progs 0 i t hi
      subst e; exact hj0 i p k hp
    · intro i j ti tj _ hi hj
      obtain ⟨p, k, _, e⟩ := spawn_get' A progs 0 i ti hi
      obtain ⟨q, k', _, e'⟩ := spawn_get' A progs 0 j tj hj
      subst e; subst e'; exact hk0 p q k k'
  | @step c tid _ ih =>
    obtain ⟨ihP, ihJ, ihK⟩ := ih
    unfold stepCfg
    split
    · exact ⟨ihP, ihJ, ihK⟩
    · next t ht =>
      split
      · exact ⟨ihP, ihJ, ihK⟩
      · next pc hpc =>
        have hlen : tid < c.threads.length := by
          rcases Nat.lt_or_ge tid c.threads.length with h' | h'
          · exact h'
          · rw [List.getElem?_eq_none h'] at ht; cases ht
        have hs := hstep c.sh tid t pc c.clock ihP (ihJ tid t ht) hpc
        have gself : (c.threads.set tid (t.advance A c.clock (A.exec c.sh pc).2))[tid]? = some (t.advance A c.clock (A.exec c.sh pc).2) := by
          simp [hlen]
        have gne : ∀ i, i ≠ tid → (c.threads.set tid (t.advance A c.clock (A.exec c.sh pc).2))[i]? = c.threads[i]? := by
          intro i hi; simp [List.getElem?_set, Ne.symm hi]
        refine ⟨hs.1, ?_, ?_⟩
        · intro i ti hi
          change (c.threads.set tid (t.advance A c.clock (A.exec c.sh pc).2))[i]? = some ti at hi
          by_cases e : i = tid
          · subst e; rw [gself] at hi; injection hi with hi; subst hi; exact hs.2
          · rw [gne i e] at hi
            exact hframe c.sh tid i t ti pc (Ne.symm e) ihP (ihJ tid t ht) (ihJ i ti hi) (ihK tid i t ti (Ne.symm e) ht hi) hpc
        · intro i j ti tj hij hi hj
          change (c.threads.set tid (t.advance A c.clock (A.exec c.sh pc).2))[i]? = some ti at hi
          change (c.threads.set tid (t.advance A c.clock (A.exec c.sh pc).2))[j]? = some tj at hj
          by_cases e1 : i = tid
          · subst e1
            rw [gself] at hi; injection hi with hi; subst hi
            rw [gne j (Ne.symm hij)] at hj
            exact (hK c.sh i j t tj pc c.clock hij ihP (ihJ i t ht) (ihJ j tj hj) (ihK i j t tj hij ht hj) hpc).1
          · rw [gne i e1] at hi
            by_cases e2 : j = tid
            · subst e2
              rw [gself] at hj; injection hj with hj; subst hj
              exact (hK c.sh j i t ti pc c.clock (Ne.symm hij) ihP (ihJ j t ht) (ihJ i ti hi) (ihK j i t ti (Ne.symm hij) ht hi) hpc).2
            · rw [gne j e2] at hj
              exact ihK i j ti tj hij hi hj

/-- the same with an initial `K` that may depend on which programs the two threads run (ownership of
message ids).  Owicki–Gries style invariants: `P` on the shared state, `J i` on thread `i` relative to the shared
state (its program counter, locals and remaining program), `K` between two different threads.
Obligations: initial; the stepping thread re-establishes `P` and its own `J`; the other threads'
`J` is not interfered with; `K` is kept.  Conclusion: all three hold in every reachable
configuration — all programs, any number of threads, all schedules. -/
theorem reach_og2 {A : Algo} {sh0 : A.Sh} {progs : List (List Op)}
    (P : A.Sh → Prop) (J : Nat → A.Sh → Thread A.PC → Prop) (K : Thread A.PC → Thread A.PC → Prop)
    (h0 : P sh0)
    (hj0 : ∀ (i : Nat) (p : List Op) (k : Nat), progs[i]? = some p → J i sh0 (mkThread A p k))
    (hk0 : ∀ (i j : Nat) (p q : List Op) (k k' : Nat), i ≠ j → progs[i]? = some p → progs[j]? = some q →
        K (mkThread A p k) (mkThread A q k'))
    (hstep : ∀ (s : A.Sh) (i : Nat) (t : Thread A.PC) (pc : A.PC) (now : Nat), P s → J i s t → t.pc = some pc →
        P (A.exec s pc).1 ∧ J i (A.exec s pc).1 (t.advance A now (A.exec s pc).2))
    (hframe : ∀ (s : A.Sh) (i j : Nat) (ti tj : Thread A.PC) (pc : A.PC), i ≠ j → P s → J i s ti → J j s tj →
        K ti tj → ti.pc = some pc → J j (A.exec s pc).1 tj)
    (hK : ∀ (s : A.Sh) (i j : Nat) (ti tj : Thread A.PC) (pc : A.PC) (now : Nat), i ≠ j → P s → J i s ti → J j s tj →
        K ti tj → ti.pc = some pc →
        K (ti.advance A now (A.exec s pc).2) tj ∧ K tj (ti.advance A now (A.exec s pc).2)) :
    ∀ c, Reach A (initCfg A sh0 progs) c →
      P c.sh ∧ (∀ (i : Nat) (t : Thread A.PC), c.threads[i]? = some t → J i c.sh t) ∧
      (∀ (i j : Nat) (ti tj : Thread A.PC), i ≠ j → c.threads[i]? = some ti → c.threads[j]? = some tj → K ti tj) := by
  intro c hr
  induction hr with
  | init =>
    refine ⟨h0, ?_, ?_⟩
    · intro i t hi
      obtain ⟨p, k, hp, e⟩ := spawn_get' A progs 0 i t hi
      subst e; exact hj0 i p k hp
    · intro i j ti tj hij hi hj
      obtain ⟨p, k, hp, e⟩ := spawn_get' A progs 0 i ti hi
      obtain ⟨q, k', hq, e'⟩ := spawn_get' A progs 0 j tj hj
      subst e; subst e'; exact hk0 i j p q k k' hij hp hq
  | @step c tid _ ih =>
    obtain ⟨ihP, ihJ, ihK⟩ := ih
    unfold stepCfg
    split
    · exact ⟨ihP, ihJ, ihK⟩
    · next t ht =>
      split
      · exact ⟨ihP, ihJ, ihK⟩
      · next pc hpc =>
        have hlen : tid < c.threads.length := by
          rcases Nat.lt_or_ge tid c.threads.length with h' | h'
          · exact h'
          · rw [List.getElem?_eq_none h'] at ht; cases ht
        have hs := hstep c.sh tid t pc c.clock ihP (ihJ tid t ht) hpc
        have gself : (c.threads.set tid (t.advance A c.clock (A.exec c.sh pc).2))[tid]? = some (t.advance A c.clock (A.exec c.sh pc).2) := by
          simp [hlen]
        have gne : ∀ i, i ≠ tid → (c.threads.set tid (t.advance A c.clock (A.exec c.sh pc).2))[i]? = c.threads[i]? := by
          intro i hi; simp [List.getElem?_set, Ne.symm hi]
        refine ⟨hs.1, ?_, ?_⟩
        · intro i ti hi
          change (c.threads.set tid (t.advance A c.clock (A.exec c.sh pc).2))[i]? = some ti at hi
          by_cases e : i = tid
          · subst e; rw [gself] at hi; injection hi with hi; subst hi; exact hs.2
          · rw [gne i e] at hi
            exact hframe c.sh tid i t ti pc (Ne.symm e) ihP (ihJ tid t ht) (ihJ i ti hi) (ihK tid i t ti (Ne.symm e) ht hi) hpc
        · intro i j ti tj hij hi hj
          change (c.threads.set tid (t.advance A c.clock (A.exec c.sh pc).2))[i]? = some ti at hi
          change (c.threads.set tid (t.advance A c.clock (A.exec c.sh pc).2))[j]? = some tj at hj
          by_cases e1 : i = tid
          · subst e1
            rw [gself] at hi; injection hi with hi; subst hi
            rw [gne j (Ne.symm hij)] at hj
            exact (hK c.sh i j t tj pc c.clock hij ihP (ihJ i t ht) (ihJ j tj hj) (ihK i j t tj hij ht hj) hpc).1
          · rw [gne i e1] at hi
            by_cases e2 : j = tid
            · subst e2
              rw [gself] at hj; injection hj with hj; subst hj
              exact (hK c.sh j i t ti pc c.clock (Ne.symm hij) ihP (ihJ j t ht) (ihJ i ti hi) (ihK j i t ti (Ne.symm hij) ht hi) hpc).2
            · rw [gne j e2] at hj
              exact ihK i j ti tj hij hi hj

end GoaktVerif.C04

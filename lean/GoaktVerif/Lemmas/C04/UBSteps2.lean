/-
C04 — UnboundedMailbox: preservation of the simulation invariant — publish, dequeue, recycle.
-/
import GoaktVerif.Lemmas.C04.UBSteps

namespace GoaktVerif.C04.UB
open GoaktVerif.Model.C04 GoaktVerif.Model.C04.Unbounded GoaktVerif.Spec.C04

theorem vals_publish (cells : List Cell) (v : Nat) : vals (Spec.C04.publish cells v) = vals cells :=
  publish_map_val cells v

/-- nothing a thread owns is the current head -/
theorem owned_ne_head {ct : Nat} {s : Sh} {cells : List Cell} {i : Nat} {t : Th} (ok : ThreadOK ct s cells i t)
    (hnd : (s.head :: vals cells).Nodup) : ∀ v ∈ owned t, v ≠ s.head := by
  intro v hv e
  unfold owned at hv
  rcases List.mem_append.mp hv with hv | hv
  · cases hpc : t.pc with
    | none => simp [hpc, pcOwned] at hv
    | some pc =>
      cases pc with
      | enq1 x =>
        simp only [hpc, pcOwned, List.mem_singleton] at hv; subst hv
        exact ok.freshOut v (by unfold fresh; simp [hpc, pcFresh]) (by rw [e]; simp)
      | enq2 x =>
        simp only [hpc, pcOwned, List.mem_singleton] at hv; subst hv
        exact ok.freshOut v (by unfold fresh; simp [hpc, pcFresh]) (by rw [e]; simp)
      | enq3 x p =>
        simp only [hpc, pcOwned, List.mem_singleton] at hv; subst hv
        have := (pendLink_mem cells s.head p v (ok.enq3 v p hpc)).2
        exact (List.nodup_cons.mp hnd).1 (e ▸ this)
      | _ => simp [hpc, pcOwned] at hv
  · exact ok.freshOut v (enqIds_sub_fresh t v hv) (by rw [e]; simp)

/-! ### K4: the publishing `Store:next` (prev.next := value) -/

theorem inv_enq3 {ct tid : Nat} {c : Cf} {cells : List Cell} {t : Th} {v p : Nat} (clk : Nat)
    (hI : Inv ct c cells) (ht : c.threads[tid]? = some t) (hpc : t.pc = some (.enq3 v p)) :
    Cell.pending v ∈ cells ∧
    Inv ct ({ sh := c.sh.setNext p (some v), threads := c.threads.set tid (t.finish algo .ok c.clock), clock := clk } : Cf)
      (Spec.C04.publish cells v) := by
  have ok := hI.thr tid t ht
  have hl := ok.enq3 v p hpc
  have hm := pendLink_mem cells c.sh.head p v hl
  have hpn : c.sh.next p = none := Chain.pendLink_next cells c.sh.head p v hI.chain hl
  have hown := ok.ownedNodup
  rw [owned_enq3 hpc] at hown
  refine ⟨pendLink_pending cells c.sh.head p v hl, ?_⟩
  refine Inv.update hI ht ?_ ?_ ?_ ?_ ?_ ?_
  · refine Chain.publish p v cells c.sh.head hI.nodup hl ?_ hI.chain
    intro x y hy _ h
    exact pendOf_set_keep ht (by rw [hpc]; intro e; injection e with e; injection e with e1 e2; exact hy e1.symm) h
  · show (c.sh.head :: vals (Spec.C04.publish cells v)).Nodup
    rw [vals_publish]; exact hI.nodup
  · refine threadOK_finish .ok c.clock (List.nodup_cons.mp hown).2 ?_ (fun hi => (ok.cons hi).2)
    intro x hx
    show x ∉ c.sh.head :: vals (Spec.C04.publish cells v)
    rw [vals_publish]
    exact ok.freshOut x (enqIds_sub_fresh t x hx)
  · intro i ti hi hti
    have oki := hI.thr i ti hti
    refine ⟨oki.ownedNodup, ?_, ?_, ?_, oki.deq2, ?_, ?_, oki.cons⟩
    · intro x hx
      show x ∉ c.sh.head :: vals (Spec.C04.publish cells v)
      rw [vals_publish]; exact oki.freshOut x hx
    · intro x hx
      have hxo : x ∉ c.sh.head :: vals cells := oki.freshOut x (by unfold fresh; simp [hx, pcFresh])
      have : x ≠ p := fun e => hxo (e ▸ hm.1)
      simp [Sh.setNext, this]; exact oki.enq2 x hx
    · intro x q hx
      have hxv : v ≠ x := by
        intro e
        have := hI.disj tid i t ti (Ne.symm hi) ht hti v (by rw [owned_enq3 hpc]; simp)
        exact this (by rw [e, owned_enq3 hx]; simp)
      exact pendLink_publish cells c.sh.head q x v hxv (oki.enq3 x q hx)
    · intro h n hx
      have := oki.deq3 h n hx
      refine ⟨this.1, ?_⟩
      have hne : h ≠ p := by
        intro e; rw [e, hpn] at this; cases this.2
      simp [Sh.setNext, hne]; exact this.2
    · intro h n hx
      have := oki.deq4 h n hx
      refine ⟨this.1, ?_⟩
      show h ∉ c.sh.head :: vals (Spec.C04.publish cells v)
      rw [vals_publish]; exact this.2
  · intro x hx
    rw [owned_finish] at hx
    exact enqIds_sub_owned t x hx
  · intro h n hx
    rcases finish_pc t .ok c.clock with h' | ⟨op, _, h'⟩
    · rw [h'] at hx; cases hx
    · rw [h'] at hx; cases op <;> simp [start] at hx

/-! ### K5: `Store:head` = successful dequeue -/

theorem tid_is_consumer {ct tid : Nat} {s : Sh} {cells : List Cell} {t : Th} {pc : PC} (ok : ThreadOK ct s cells tid t)
    (hpc : t.pc = some pc) (hd : isDeqPC pc = true) : tid = ct := by
  by_cases h : tid = ct
  · exact h
  · have := (ok.cons h).1 pc hpc
    rw [this] at hd; cases hd

theorem other_noDeq {ct tid i : Nat} {c : Cf} {cells : List Cell} {ti : Th} (hI : Inv ct c cells) (htid : tid = ct)
    (hi : i ≠ tid) (hti : c.threads[i]? = some ti) : noDeq ti :=
  (hI.thr i ti hti).cons (by rw [← htid]; exact hi)

theorem inv_deq3 {ct tid : Nat} {c : Cf} {cells : List Cell} {t : Th} {h n : Nat} (clk : Nat)
    (hI : Inv ct c cells) (ht : c.threads[tid]? = some t) (hpc : t.pc = some (.deq3 h n)) :
    ∃ rest, cells = .ready n :: rest ∧
      Inv ct ({ sh := { c.sh with head := n }, threads := c.threads.set tid { t with pc := some (.deq4 h n) }, clock := clk } : Cf) rest := by
  have ok := hI.thr tid t ht
  have htid : tid = ct := tid_is_consumer ok hpc rfl
  obtain ⟨hh, hn⟩ := ok.deq3 h n hpc
  subst hh
  obtain ⟨rest, hcells, hch⟩ := Chain.head_some hI.chain hn
  subst hcells
  refine ⟨rest, rfl, ?_⟩
  have hnd := hI.nodup
  have hnd' : (n :: vals rest).Nodup := by
    simp only [List.map_cons, Cell.val] at hnd; exact (List.nodup_cons.mp hnd).2
  have hhead : c.sh.head ∉ n :: vals rest := by
    simp only [List.map_cons, Cell.val] at hnd; exact (List.nodup_cons.mp hnd).1
  refine Inv.update hI ht ?_ hnd' ?_ ?_ ?_ ?_
  · exact Chain.frame (s := c.sh) (pend := PendOf c.threads) rest n (fun _ _ => rfl) rfl
      (fun x y _ hp => pendOf_set_keep ht (by rw [hpc]; simp) hp) hch
  · refine threadOK_goto (.deq4 c.sh.head n) (enqIds_nodup_of_owned ok.ownedNodup) ?_ (fun hi => (ok.cons hi).2) rfl
      (by intro _ e; cases e) (by intro _ _ e; cases e) ?_ (fun hi => absurd htid hi)
    · intro x hx
      have := ok.freshOut x (enqIds_sub_fresh t x hx)
      simp only [List.map_cons, Cell.val, List.mem_cons, not_or] at this ⊢
      exact ⟨this.2.1, this.2.2⟩
    · intro h' n' e
      injection e with e1 e2; subst e1; subst e2
      exact ⟨rfl, hhead⟩
  · intro i ti hi hti
    have oki := hI.thr i ti hti
    have nd := other_noDeq hI htid hi hti
    refine ⟨oki.ownedNodup, ?_, oki.enq2, ?_, ?_, ?_, ?_, oki.cons⟩
    · intro x hx
      have := oki.freshOut x hx
      simp only [List.map_cons, Cell.val, List.mem_cons, not_or] at this ⊢
      exact ⟨this.2.1, this.2.2⟩
    · intro x q hx
      have := oki.enq3 x q hx
      simpa [PendLink, Cell.val] using this
    · intro h' e; have := nd.1 _ e; cases this
    · intro h' n' e; have := nd.1 _ e; cases this
    · intro h' n' e; have := nd.1 _ e; cases this
  · intro x hx
    exact owned_goto_plain (.deq4 c.sh.head n) rfl x hx
  · intro h' n' e
    injection e with e; injection e with e1 e2; subst e1; subst e2
    refine ⟨?_, ?_⟩
    · intro hm
      have := owned_goto_plain (t := t) (.deq4 c.sh.head n) rfl _ hm
      exact owned_ne_head ok hI.nodup _ this rfl
    · intro j tj _ htj hm
      exact owned_ne_head (hI.thr j tj htj) hI.nodup _ hm rfl

/-! ### K6: the recycling `Store:next` (oldHead.next := nil) -/

theorem inv_deq4 {ct tid : Nat} {c : Cf} {cells : List Cell} {t : Th} {h n : Nat} (clk : Nat)
    (hI : Inv ct c cells) (ht : c.threads[tid]? = some t) (hpc : t.pc = some (.deq4 h n)) :
    Inv ct ({ sh := c.sh.setNext h none, threads := c.threads.set tid (t.finish algo (.val n) c.clock), clock := clk } : Cf) cells := by
  have ok := hI.thr tid t ht
  have htid : tid = ct := tid_is_consumer ok hpc rfl
  obtain ⟨_, hh⟩ := ok.deq4 h n hpc
  have hnx : ∀ x ∈ c.sh.head :: vals cells, (c.sh.setNext h none).next x = c.sh.next x := by
    intro x hx
    have : x ≠ h := fun e => hh (e ▸ hx)
    simp [Sh.setNext, this]
  refine Inv.update hI ht ?_ hI.nodup ?_ ?_ ?_ ?_
  · exact Chain.frame cells c.sh.head hnx rfl
      (fun x y _ hp => pendOf_set_keep ht (by rw [hpc]; simp) hp) hI.chain
  · exact threadOK_finish (.val n) c.clock (enqIds_nodup_of_owned ok.ownedNodup)
      (fun v hv => ok.freshOut v (enqIds_sub_fresh t v hv)) (fun hi => (ok.cons hi).2)
  · intro i ti hi hti
    have oki := hI.thr i ti hti
    have nd := other_noDeq hI htid hi hti
    refine ⟨oki.ownedNodup, oki.freshOut, ?_, oki.enq3, oki.deq2, ?_, oki.deq4, oki.cons⟩
    · intro x hx
      by_cases e : x = h
      · subst e; simp [Sh.setNext]
      · simp [Sh.setNext, e]; exact oki.enq2 x hx
    · intro h' n' e; have := nd.1 _ e; cases this
  · intro x hx
    rw [owned_finish] at hx
    exact enqIds_sub_owned t x hx
  · intro h' n' hx
    rcases finish_pc t (.val n) c.clock with h'' | ⟨op, _, h''⟩
    · rw [h''] at hx; cases hx
    · rw [h''] at hx; cases op <;> simp [start] at hx

end GoaktVerif.C04.UB

/-
C04 — `UnboundedSegmentedMailbox`: the value invariant is preserved by the producers' steps.
-/
import GoaktVerif.Lemmas.C04.SegTrace

namespace GoaktVerif.C04.SegInv
open GoaktVerif.Model.C04 GoaktVerif.Model.C04.Segmented

/-- a reserved slot of a linked segment lies below the number of reservations -/
theorem pos_lt_len {s : Sh} (h2 : P2 s) {n : Nat}
    (hlen : n = (s.segs s.last).ord * s.segSize + min (s.segs s.last).writeIdx s.segSize)
    {g idx : Nat} (hg : (s.segs g).linked = true) (hidx : idx < s.segSize) (hw : idx < (s.segs g).writeIdx) :
    pos s g idx < n := by
  unfold pos
  by_cases e : g = s.last
  · rw [e] at hw ⊢; omega
  · have hle := h2.top g hg
    have hne : (s.segs g).ord ≠ (s.segs s.last).ord := fun e' => e (h2.inj g s.last hg h2.lastOK.1 e')
    have : ((s.segs g).ord + 1) * s.segSize ≤ (s.segs s.last).ord * s.segSize := Nat.mul_le_mul_right _ (by omega)
    rw [Nat.succ_mul] at this
    omega

/-- a position at or above the number of reservations is not a reserved slot: in the last segment it is
at or above `writeIdx`, and it cannot lie in an earlier segment -/
theorem pos_ge_len {s : Sh} (h2 : P2 s) {n : Nat}
    (hlen : n = (s.segs s.last).ord * s.segSize + min (s.segs s.last).writeIdx s.segSize)
    {g idx : Nat} (hg : (s.segs g).linked = true) (hidx : idx < s.segSize) (hp : n ≤ pos s g idx) :
    g = s.last ∧ (s.segs s.last).writeIdx ≤ idx := by
  unfold pos at hp
  by_cases e : g = s.last
  · rw [e] at hp; exact ⟨e, by omega⟩
  · have hle := h2.top g hg
    have hne : (s.segs g).ord ≠ (s.segs s.last).ord := fun e' => e (h2.inj g s.last hg h2.lastOK.1 e')
    have : ((s.segs g).ord + 1) * s.segSize ≤ (s.segs s.last).ord * s.segSize := Nat.mul_le_mul_right _ (by omega)
    rw [Nat.succ_mul] at this
    omega

/-- `Add:writeIdx` on one segment -/
def bump (x : Seg) : Seg := { x with writeIdx := x.writeIdx + 1 }

theorem fld_write (s : Sh) (g j : Nat) :
    ((s.upd g bump).segs j).linked = (s.segs j).linked ∧
    ((s.upd g bump).segs j).ord = (s.segs j).ord ∧
    ((s.upd g bump).segs j).data = (s.segs j).data ∧
    ((s.upd g bump).segs j).deqIdx = (s.segs j).deqIdx := by
  rw [upd_field j]; split
  · next e => subst e; exact ⟨rfl, rfl, rfl, rfl⟩
  · exact ⟨rfl, rfl, rfl, rfl⟩

/-- `Add:writeIdx` that obtains a slot: the reservation -/
theorem tr_reserve {ct tid : Nat} {c : Cf} {resv : List Nat} {t : Th} {v g : Nat} {clk : Nat}
    (hP : P c.sh) (h2 : P2 c.sh) (hT : TR ct c resv) (ht : c.threads[tid]? = some t) (hpc : t.pc = some (.e2 v g))
    (hl : (c.sh.segs g).linked = true) (hroom : (c.sh.segs g).writeIdx < c.sh.segSize) :
    TR ct ({ sh := c.sh.upd g bump,
             threads := c.threads.set tid { t with pc := some (.e3 v g (c.sh.segs g).writeIdx) }, clock := clk } : Cf)
      (resv ++ [v]) := by
  have hlast : g = c.sh.last := h2.eq_last_of_room hl hroom
  have hlen := hT.len
  have fld := fld_write c.sh g
  have hpos : ∀ g' idx, pos (c.sh.upd g bump) g' idx = pos c.sh g' idx := by
    intro g' idx; unfold pos; rw [(fld g').2.1]; rfl
  have hcons : consumed (c.sh.upd g bump) = consumed c.sh := by
    unfold consumed; show ((c.sh.upd g bump).segs c.sh.head).ord * c.sh.segSize + ((c.sh.upd g bump).segs c.sh.head).deqIdx = _
    rw [(fld _).2.1, (fld _).2.2.2]
  have hnew : pos c.sh g (c.sh.segs g).writeIdx = resv.length := by
    unfold pos; rw [hlen, ← hlast]; omega
  refine ⟨?_, ?_, ?_, ?_, ?_⟩
  · show (resv ++ [v]).length = ((c.sh.upd g bump).segs c.sh.last).ord * c.sh.segSize + min ((c.sh.upd g bump).segs c.sh.last).writeIdx c.sh.segSize
    rw [(fld _).2.1, ← hlast, upd_same]
    simp only [List.length_append, List.length_singleton]
    rw [hlen, ← hlast]
    show _ = (c.sh.segs g).ord * c.sh.segSize + min ((c.sh.segs g).writeIdx + 1) c.sh.segSize
    omega
  · intro g' idx a b c1 d
    change ((c.sh.upd g bump).segs g').linked = true at a
    change idx < c.sh.segSize at b
    rw [hcons, hpos] at c1
    rw [hpos] at d
    rw [(fld g').1] at a
    show ((c.sh.upd g bump).segs g').data idx = none ∨ ((c.sh.upd g bump).segs g').data idx = (resv ++ [v])[pos (c.sh.upd g bump) g' idx]?
    rw [(fld g').2.2.1, hpos]
    simp only [List.length_append, List.length_singleton] at d
    by_cases e : pos c.sh g' idx < resv.length
    · rw [List.getElem?_append_left e]; exact hT.data g' idx a b c1 e
    · obtain ⟨e1, e2⟩ := pos_ge_len h2 hlen a b (by omega)
      left
      rw [e1]; exact hP.unres _ idx e2
  · intro i ti v' g' idx hi hpc'
    change (c.threads.set tid _)[i]? = some ti at hi
    show (resv ++ [v])[pos (c.sh.upd g bump) g' idx]? = some v'
    rw [hpos]
    by_cases e : i = tid
    · subst e; rw [get_self ht] at hi; injection hi with hi; subst hi
      simp only [Option.some.injEq, PC.e3.injEq] at hpc'
      obtain ⟨e1, e2, e3⟩ := hpc'; subst e1; subst e2; subst e3
      rw [hnew]; simp
    · rw [get_ne (Ne.symm e)] at hi
      have := hT.store i ti v' g' idx hi hpc'
      have hlt : pos c.sh g' idx < resv.length := by
        rcases Nat.lt_or_ge (pos c.sh g' idx) resv.length with h | h
        · exact h
        · rw [List.getElem?_eq_none h] at this; cases this
      rw [List.getElem?_append_left hlt]; exact this
  · intro tc hc
    change (c.threads.set tid _)[ct]? = some tc at hc
    show consumed (c.sh.upd g bump) + inflight tc.pc ≤ (resv ++ [v]).length
    rw [hcons]; simp only [List.length_append, List.length_singleton]
    by_cases e : ct = tid
    · subst e; rw [get_self ht] at hc; injection hc with hc; subst hc
      have := hT.bound t ht; rw [hpc] at this
      show consumed c.sh + 0 ≤ resv.length + 1
      simp only [inflight] at this; omega
    · rw [get_ne (Ne.symm e)] at hc; have := hT.bound tc hc; omega
  · intro tc hc
    change (c.threads.set tid _)[ct]? = some tc at hc
    show deqdT tc = (resv ++ [v]).take (consumed (c.sh.upd g bump) + inflight tc.pc)
    rw [hcons]
    by_cases e : ct = tid
    · subst e; rw [get_self ht] at hc; injection hc with hc; subst hc
      have hb := hT.bound t ht; have hd := hT.deqd t ht
      rw [hpc] at hb hd
      have e1 : deqdT ({ t with pc := some (.e3 v g (c.sh.segs g).writeIdx) } : Th) = deqdT t := by
        unfold deqdT; rw [hpc]; rfl
      rw [e1]
      show deqdT t = (resv ++ [v]).take (consumed c.sh + 0)
      rw [List.take_append_of_le_length (by simp only [inflight] at hb; omega)]
      unfold deqdT at hd ⊢; rw [hpc] at hd ⊢; exact hd
    · rw [get_ne (Ne.symm e)] at hc
      rw [List.take_append_of_le_length (hT.bound tc hc)]; exact hT.deqd tc hc

end GoaktVerif.C04.SegInv

/-
C04 — UnboundedMailbox: the initial configuration satisfies the simulation relation with the empty
reservation queue; consequences of the relation.
-/
import GoaktVerif.Lemmas.C04.UBMain

namespace GoaktVerif.C04.UB
open GoaktVerif.Model.C04 GoaktVerif.Model.C04.Unbounded GoaktVerif.Spec.C04

/-- usage assumed by the theorems, in index form: every message id is enqueued at most once over all
programs, no id is 0 (the initial sentinel), and only thread `ct` calls Dequeue -/
structure UBWellFormed (ct : Nat) (progs : List (List Op)) : Prop where
  each : ∀ (i : Nat) (p : List Op), progs[i]? = some p → (enqIds p).Nodup ∧ 0 ∉ enqIds p ∧ (i ≠ ct → Op.deq ∉ p)
  disj : ∀ (i j : Nat) (pi pj : List Op), i ≠ j → progs[i]? = some pi → progs[j]? = some pj →
    ∀ v ∈ enqIds pi, v ∉ enqIds pj

theorem spawn_get (A : Algo) : ∀ (progs : List (List Op)) (n i : Nat) (t : Thread A.PC),
    (spawn A progs n).1[i]? = some t → ∃ p k, progs[i]? = some p ∧ t = mkThread A p k
  | [], _, _, _, h => by simp [spawn] at h
  | p :: ps, n, 0, t, h => by
    simp only [spawn, List.getElem?_cons_zero, Option.some.injEq] at h
    exact ⟨p, _, by simp, h.symm⟩
  | p :: ps, n, i + 1, t, h => by
    simp only [spawn, List.getElem?_cons_succ] at h
    obtain ⟨q, k, hq, ht⟩ := spawn_get A ps _ i t h
    exact ⟨q, k, by simpa using hq, ht⟩

theorem mk_pc (p : List Op) (k : Nat) :
    (mkThread algo p k).pc = none ∨ ∃ op, op ∈ p ∧ (mkThread algo p k).pc = some (start op) := by
  unfold mkThread
  cases p with
  | nil => exact Or.inl rfl
  | cons op rest => exact Or.inr ⟨op, by simp, rfl⟩

theorem owned_mk (p : List Op) (k : Nat) : owned (mkThread algo p k) = enqIds p := by
  unfold mkThread owned
  cases p with
  | nil => simp [pcOwned, enqIds]
  | cons op rest => cases op <;> simp [pcOwned, enqIds, start]

theorem fresh_mk (p : List Op) (k : Nat) : fresh (mkThread algo p k) = enqIds p := by
  unfold mkThread fresh
  cases p with
  | nil => simp [pcFresh, enqIds]
  | cons op rest => cases op <;> simp [pcFresh, enqIds, start]

theorem mk_prog_sub (p : List Op) (k : Nat) : ∀ op ∈ (mkThread algo p k).prog, op ∈ p := by
  unfold mkThread
  cases p with
  | nil => simp
  | cons op rest => intro o ho; exact List.mem_cons_of_mem _ ho

theorem mk_pc_ne (p : List Op) (k : Nat) (pc : PC) (h : (mkThread algo p k).pc = some pc)
    (hne : ∀ op, pc ≠ start op) : False := by
  rcases mk_pc p k with h' | ⟨op, _, h'⟩
  · rw [h'] at h; cases h
  · rw [h'] at h; injection h with h; exact hne op h.symm

theorem inv_init {ct : Nat} {progs : List (List Op)} (wf : UBWellFormed ct progs) :
    Inv ct (initCfg algo Unbounded.init progs) [] where
  chain := by simp [Chain, initCfg, Unbounded.init]
  nodup := by simp
  thr := by
    intro i t hi
    obtain ⟨p, k, hp, ht⟩ := spawn_get algo progs 0 i t hi
    subst ht
    obtain ⟨hnd, h0, hd⟩ := wf.each i p hp
    refine ⟨by rw [owned_mk]; exact hnd, ?_, ?_, ?_, ?_, ?_, ?_, ?_⟩
    · intro v hv
      rw [fresh_mk] at hv
      simp only [initCfg, Unbounded.init, List.map_nil, List.mem_singleton]
      intro e; subst e; exact h0 hv
    · intro v h; exact (mk_pc_ne p k _ h (by intro op; cases op <;> simp [start])).elim
    · intro v q h; exact (mk_pc_ne p k _ h (by intro op; cases op <;> simp [start])).elim
    · intro v h; exact (mk_pc_ne p k _ h (by intro op; cases op <;> simp [start])).elim
    · intro v q h; exact (mk_pc_ne p k _ h (by intro op; cases op <;> simp [start])).elim
    · intro v q h; exact (mk_pc_ne p k _ h (by intro op; cases op <;> simp [start])).elim
    · intro hi'
      have hd' := hd hi'
      refine ⟨?_, fun hm => hd' (mk_prog_sub p k _ hm)⟩
      intro pc hpc
      rcases mk_pc p k with h' | ⟨op, hop, h'⟩
      · rw [h'] at hpc; cases hpc
      · rw [h'] at hpc; injection hpc with hpc; subst hpc
        cases op with
        | deq => exact absurd hop hd'
        | enq v k => rfl
        | emp => rfl
        | len => rfl
  disj := by
    intro i j ti tj hij hi hj v hv
    obtain ⟨p, k, hp, ht⟩ := spawn_get algo progs 0 i ti hi
    obtain ⟨q, k', hq, ht'⟩ := spawn_get algo progs 0 j tj hj
    subst ht; subst ht'
    rw [owned_mk] at hv ⊢
    exact wf.disj i j p q hij hp hq v hv
  retired := by
    intro i j ti tj h n hi hpc hj
    obtain ⟨p, k, hp, ht⟩ := spawn_get algo progs 0 i ti hi
    subst ht
    exact (mk_pc_ne p k _ hpc (by intro op; cases op <;> simp [start])).elim

/-! ### consequences of the relation -/

theorem Chain.tail_mem {s : Sh} {pend : Nat → Nat → Prop} :
    ∀ (cs : List Cell) (a : Nat), Chain s pend a cs → s.tail ∈ a :: vals cs
  | [], a, h => by simp only [Chain] at h; simp [h.1]
  | .ready b :: cs, a, h => by
    simp only [Chain] at h
    have := Chain.tail_mem cs b h.2
    simp only [List.map_cons, Cell.val, List.mem_cons] at this ⊢
    exact Or.inr this
  | .pending b :: cs, a, h => by
    simp only [Chain] at h
    have := Chain.tail_mem cs b h.2.2
    simp only [List.map_cons, Cell.val, List.mem_cons] at this ⊢
    exact Or.inr this

/-- EMPTY-SOUNDNESS, partial form: when `head.next` is nil (what `IsEmpty` / a nil `Dequeue` read) and
no enqueue is between its reservation (`Swap:tail`) and its publication, the abstract queue is empty:
every reserved message has been dequeued. -/
theorem empty_sound_partial {ct : Nat} {c : Cf} {cells : List Cell} (hI : Inv ct c cells)
    (hnil : c.sh.next c.sh.head = none)
    (hquiet : ∀ (i : Nat) (t : Th) (v p : Nat), c.threads[i]? = some t → t.pc ≠ some (PC.enq3 v p)) :
    cells = [] := by
  rcases Chain.head_none hI.chain hnil with h | ⟨b, rest, h⟩
  · exact h
  · subst h
    have := hI.chain
    simp only [Chain] at this
    obtain ⟨i, t, hi, hpc⟩ := this.2.1
    exact absurd hpc (hquiet i t b c.sh.head hi)

/-- NO ALIASING of the recycled sentinel: when the consumer is about to reset and pool the old head
`h` (`deq4`), `h` is not a node of the queue, is not `tail`, is not owned by any enqueue still to
come, and no parked producer is about to write `h.next`. -/
theorem recycled_not_aliased {ct : Nat} {c : Cf} {cells : List Cell} (hI : Inv ct c cells)
    {i : Nat} {t : Th} {h n : Nat} (hi : c.threads[i]? = some t) (hpc : t.pc = some (PC.deq4 h n)) :
    h ∉ c.sh.head :: vals cells ∧ h ≠ c.sh.tail ∧
    (∀ (j : Nat) (tj : Th), c.threads[j]? = some tj → h ∉ owned tj) ∧
    (∀ (j : Nat) (tj : Th) (v : Nat), c.threads[j]? = some tj → tj.pc ≠ some (PC.enq3 v h)) := by
  have hout := ((hI.thr i t hi).deq4 h n hpc).2
  refine ⟨hout, ?_, fun j tj hj => hI.retired i j t tj h n hi hpc hj, ?_⟩
  · intro e
    exact hout (e ▸ Chain.tail_mem cells c.sh.head hI.chain)
  · intro j tj v hj hpcj
    have := (pendLink_mem cells c.sh.head h v ((hI.thr j tj hj).enq3 v h hpcj)).1
    exact hout this

end GoaktVerif.C04.UB

/-
C04 — binary heap correctness, part 1: strict weak orders, the heap invariant, `swap` facts,
`up` (sift-up) and `push`.  Main file: HeapCorrect.lean.
-/
import GoaktVerif.Model.C04.Heap

namespace GoaktVerif.C04.Heap
open GoaktVerif.Model.C04.Heap

variable {α : Type} {lt : α → α → Bool}

/-- strict weak order -/
structure SWO {α : Type} (lt : α → α → Bool) : Prop where
  irrefl : ∀ a, lt a a = false
  trans : ∀ a b c, lt a b = true → lt b c = true → lt a c = true
  /-- negative transitivity: "not less" is transitive -/
  ntrans : ∀ a b c, lt a b = false → lt b c = false → lt a c = false

theorem SWO.asymm (h : SWO lt) {a b : α} (hab : lt a b = true) : lt b a = false := by
  cases hba : lt b a with
  | false => rfl
  | true => have := h.trans a b a hab hba; rw [h.irrefl] at this; cases this

/-- heap order on the slice: no element outranks its parent -/
def HeapInv (lt : α → α → Bool) (xs : List α) : Prop :=
  ∀ j, 0 < j → j < xs.length → lessAt lt xs j ((j - 1) / 2) = false

theorem length_swap (xs : List α) (i j : Nat) : (swap xs i j).length = xs.length := by
  unfold swap; split <;> simp

theorem getElem?_swap (xs : List α) {i j : Nat} (hi : i < xs.length) (hj : j < xs.length)
    (k : Nat) :
    (swap xs i j)[k]? = if k = j then xs[i]? else if k = i then xs[j]? else xs[k]? := by
  unfold swap
  rw [List.getElem?_eq_getElem hi, List.getElem?_eq_getElem hj]
  simp only [List.getElem?_set]
  grind

theorem lessAt_get {xs : List α} {i j : Nat} (hi : i < xs.length) (hj : j < xs.length) :
    lessAt lt xs i j = lt xs[i] xs[j] := by
  unfold lessAt
  rw [List.getElem?_eq_getElem hi, List.getElem?_eq_getElem hj]

theorem getElem_swap (xs : List α) {i j : Nat} (hi : i < xs.length) (hj : j < xs.length)
    (k : Nat) (hk : k < xs.length) :
    (swap xs i j)[k]'(by rw [length_swap]; exact hk) = if k = j then xs[i] else if k = i then xs[j] else xs[k] := by
  have := getElem?_swap xs hi hj k
  grind

theorem set_perm_cons : ∀ (xs : List α) (j : Nat) (b x : α), xs[j]? = some b →
    (b :: xs.set j x).Perm (x :: xs)
  | [], j, b, x, h => by simp at h
  | y :: ys, 0, b, x, h => by
    simp at h; subst h; exact List.Perm.swap _ _ _
  | y :: ys, j+1, b, x, h => by
    simp at h
    have := set_perm_cons ys j b x h
    exact (List.Perm.swap y b _).trans ((this.cons y).trans (List.Perm.swap x y _))

theorem swap_perm : ∀ (xs : List α) (i j : Nat), (swap xs i j).Perm xs
  | [], i, j => by simp [swap]
  | x :: xs, 0, 0 => by simp [swap]
  | x :: xs, 0, j+1 => by
    unfold swap
    simp only [List.getElem?_cons_zero, List.getElem?_cons_succ]
    split
    · next a b h1 h2 =>
      cases h1
      simp only [List.set_cons_zero, List.set_cons_succ]
      exact set_perm_cons xs j b x h2
    · exact List.Perm.refl _
  | x :: xs, i+1, 0 => by
    unfold swap
    simp only [List.getElem?_cons_zero, List.getElem?_cons_succ]
    split
    · next a b h1 h2 =>
      cases h2
      simp only [List.set_cons_zero, List.set_cons_succ]
      exact set_perm_cons xs i a x h1
    · exact List.Perm.refl _
  | x :: xs, i+1, j+1 => by
    have ih := swap_perm xs i j
    unfold swap at ih ⊢
    simp only [List.getElem?_cons_succ]
    split
    · next a b h1 h2 =>
      simp only [h1, h2] at ih
      simp only [List.set_cons_succ]
      exact ih.cons x
    · exact List.Perm.refl _

/-- loop invariant of `up`: heap order everywhere except between `j` and its parent, and the
children of `j` do not outrank `j`'s parent -/
def UpInv (lt : α → α → Bool) (xs : List α) (j : Nat) : Prop :=
  j < xs.length ∧
  (∀ k, 0 < k → k < xs.length → k ≠ j → lessAt lt xs k ((k-1)/2) = false) ∧
  (∀ k, 0 < k → k < xs.length → (k-1)/2 = j → 0 < j → lessAt lt xs k ((j-1)/2) = false)

theorem up_step (h : SWO lt) {xs : List α} {j : Nat} (inv : UpInv lt xs j)
    (hij : (j-1)/2 ≠ j) (hlt : lessAt lt xs j ((j-1)/2) = true) :
    UpInv lt (swap xs ((j-1)/2) j) ((j-1)/2) := by
  obtain ⟨hj, h1, h2⟩ := inv
  have hi : (j-1)/2 < xs.length := by omega
  have H1 : ∀ k (hk0 : 0 < k) (hkl : k < xs.length), k ≠ j →
      lt xs[k] (xs[(k-1)/2]'(by omega)) = false := by
    intro k hk0 hkl hkj
    have := h1 k hk0 hkl hkj
    rw [lessAt_get hkl (by omega)] at this; exact this
  have H2 : ∀ k (hk0 : 0 < k) (hkl : k < xs.length), (k-1)/2 = j → 0 < j →
      lt xs[k] (xs[(j-1)/2]'(by omega)) = false := by
    intro k hk0 hkl hkj hj0
    have := h2 k hk0 hkl hkj hj0
    rw [lessAt_get hkl (by omega)] at this; exact this
  have hlt' : lt xs[j] xs[(j-1)/2] = true := by
    rw [lessAt_get hj hi] at hlt; exact hlt
  have hasym := @SWO.asymm _ _ h
  have htr := h.trans
  have hntr := h.ntrans
  refine ⟨by rw [length_swap]; exact hi, ?_, ?_⟩
  · intro k hk0 hkl hki
    rw [length_swap] at hkl
    have hp : (k-1)/2 < xs.length := by omega
    rw [lessAt_get (by rw [length_swap]; exact hkl) (by rw [length_swap]; exact hp),
      getElem_swap xs hi hj k hkl, getElem_swap xs hi hj _ hp]
    grind
  · intro k hk0 hkl hki hi0
    rw [length_swap] at hkl
    have hp : ((j-1)/2-1)/2 < xs.length := by omega
    rw [lessAt_get (by rw [length_swap]; exact hkl) (by rw [length_swap]; exact hp),
      getElem_swap xs hi hj k hkl, getElem_swap xs hi hj _ hp]
    grind


theorem upInv_done {xs : List α} {j : Nat} (inv : UpInv lt xs j)
    (hd : (j-1)/2 = j ∨ lessAt lt xs j ((j-1)/2) = false) : HeapInv lt xs := by
  intro k hk0 hkl
  by_cases hkj : k = j
  · subst hkj
    cases hd with
    | inl h0 => omega
    | inr hf => exact hf
  · exact inv.2.1 k hk0 hkl hkj

theorem up_heapInv (h : SWO lt) : ∀ (fuel : Nat) (xs : List α) (j : Nat), j < fuel →
    UpInv lt xs j → HeapInv lt (up lt fuel xs j)
  | 0, _, _, hf, _ => by omega
  | fuel+1, xs, j, hf, inv => by
    unfold up
    simp only []
    split
    · next c =>
      simp only [Bool.or_eq_true, decide_eq_true_eq, Bool.not_eq_true'] at c
      exact upInv_done inv c
    · next c =>
      simp only [Bool.or_eq_true, decide_eq_true_eq, Bool.not_eq_true', not_or,
        Bool.not_eq_false] at c
      exact up_heapInv h fuel _ _ (by omega) (up_step h inv c.1 c.2)

theorem up_perm : ∀ (fuel : Nat) (xs : List α) (j : Nat), (up lt fuel xs j).Perm xs
  | 0, _, _ => List.Perm.refl _
  | fuel+1, xs, j => by
    unfold up
    simp only []
    split
    · exact List.Perm.refl _
    · exact (up_perm fuel _ _).trans (swap_perm _ _ _)

theorem lessAt_append_left {xs : List α} {k p : Nat} (hk : k < xs.length) (hp : p < xs.length)
    (ys : List α) : lessAt lt (xs ++ ys) k p = lessAt lt xs k p := by
  unfold lessAt
  rw [List.getElem?_append_left hk, List.getElem?_append_left hp]

theorem heapInv_nil : HeapInv lt ([] : List α) := by
  intro j _ hj; simp at hj

theorem push_perm (xs : List α) (x : α) : (push lt xs x).Perm (x :: xs) := by
  unfold push
  exact (up_perm _ _ _).trans (List.perm_append_comm)

theorem push_inv (h : SWO lt) (xs : List α) (x : α) (hx : HeapInv lt xs) :
    HeapInv lt (push lt xs x) := by
  unfold push
  simp only []
  apply up_heapInv h
  · simp only [List.length_append, List.length_cons, List.length_nil]; omega
  · refine ⟨by simp only [List.length_append, List.length_cons, List.length_nil]; omega, ?_, ?_⟩
    · intro k hk0 hkl hkj
      simp only [List.length_append, List.length_cons, List.length_nil] at hkl hkj
      have hk : k < xs.length := by omega
      rw [lessAt_append_left hk (by omega)]
      exact hx k hk0 hk
    · intro k hk0 hkl hkj
      simp only [List.length_append, List.length_cons, List.length_nil] at hkl hkj
      omega

end GoaktVerif.C04.Heap

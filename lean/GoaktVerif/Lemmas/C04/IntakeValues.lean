/-
C04 — intake-based priority mailboxes: the values `Dequeue` returns are exactly the values popped from
the heap; together with conservation and the heap permutation lemmas: for every run the returned
values, the heap, the rest of the current batch and the stack are a PERMUTATION of the accepted
messages (each accepted message is returned at most once and is otherwise still inside).
-/
import GoaktVerif.Lemmas.C04.IntakeTrace

namespace GoaktVerif.C04.IntakeInv
open GoaktVerif.Model.C04 GoaktVerif.Model.C04.Intake

variable {k : Conf}

def resVal (d : Done) : Option Nat :=
  match d.res with
  | .val v => some v
  | _ => none

def pcDeq : Option PC → List Nat
  | some (.deq7 v) => [v]
  | _ => []

def valList : Res → List Nat
  | .val v => [v]
  | _ => []

/-- what a thread has dequeued so far, oldest first (the last value possibly not yet returned) -/
def deqdT (t : Th) : List Nat := t.hist.reverse.filterMap resVal ++ pcDeq t.pc

theorem afterDrain_pop (s : Sh) :
    ((afterDrain k s).2 = .ret .none ∧ popEv k s = []) ∨ (∃ v, (afterDrain k s).2 = .goto (.deq7 v) ∧ popEv k s = [.pop v]) := by
  cases hp : Heap.pop k.ltItem s.heap with
  | none => left; exact ⟨by unfold afterDrain; rw [hp], by unfold popEv; rw [hp]⟩
  | some pr => obtain ⟨x, rest⟩ := pr; right; exact ⟨x.1, by unfold afterDrain; rw [hp], by unfold popEv; rw [hp]⟩

theorem hist_finish (t : Th) (r : Res) (now : Nat) :
    (t.finish (algo k) r now).hist = { op := t.cur.getD .len, res := r, inv := t.started, ret := now + 1 } :: t.hist := by
  unfold Thread.finish; cases t.prog <;> rfl

theorem finish_pcDeq (t : Th) (r : Res) (now : Nat) : pcDeq (t.finish (algo k) r now).pc = [] := by
  rcases finish_pc' (k := k) t r now with h | ⟨op, _, h⟩
  · rw [h]; rfl
  · rw [h]
    cases op with
    | enq v key => rcases start_enq (k := k) v key with e | e <;> rw [e] <;> rfl
    | _ => rfl

theorem deqdT_finish (t : Th) (r : Res) (now : Nat) :
    deqdT (t.finish (algo k) r now) = t.hist.reverse.filterMap resVal ++ valList r := by
  unfold deqdT
  rw [finish_pcDeq, hist_finish]
  cases r <;> simp [resVal, valList, List.filterMap_append]

theorem deqdT_adv (t : Th) (now : Nat) (nx : Next PC) (pops : List Nat)
    (h : match nx with
      | .goto pc' => pcDeq (some pc') = pcDeq t.pc ++ pops
      | .ret r => valList r = pcDeq t.pc ++ pops) :
    deqdT (t.advance (algo k) now nx) = deqdT t ++ pops := by
  cases nx with
  | goto pc' =>
    simp only at h
    show t.hist.reverse.filterMap resVal ++ pcDeq (some pc') = _
    unfold deqdT; rw [h, List.append_assoc]
  | ret r =>
    simp only at h
    show deqdT (t.finish (algo k) r now) = _
    rw [deqdT_finish, h]; unfold deqdT; rw [List.append_assoc]

theorem adv_goto (t : Th) (now : Nat) (pc' : PC) (pops : List Nat) (h : pcDeq (some pc') = pcDeq t.pc ++ pops) :
    deqdT (t.advance (algo k) now (.goto pc')) = deqdT t ++ pops := deqdT_adv t now (.goto pc') pops h

theorem adv_ret (t : Th) (now : Nat) (r : Res) (pops : List Nat) (h : valList r = pcDeq t.pc ++ pops) :
    deqdT (t.advance (algo k) now (.ret r)) = deqdT t ++ pops := deqdT_adv t now (.ret r) pops h

theorem adv_afterDrain (s0 : Sh) (t : Th) (now : Nat) (hp : pcDeq t.pc = []) :
    deqdT (t.advance (algo k) now (afterDrain k s0).2) = deqdT t ++ poppedOf (popEv k s0) := by
  rcases afterDrain_pop (k := k) s0 with ⟨h1, h2⟩ | ⟨v, h1, h2⟩
  · rw [h1, h2]; exact adv_ret t now _ _ (by rw [hp]; rfl)
  · rw [h1, h2]; exact adv_goto t now _ _ (by rw [hp]; rfl)

/-- the values returned by the stepping thread grow exactly by what this step popped -/
theorem deqdT_step (s : Sh) (t : Th) (pc : PC) (now : Nat) (hpc : t.pc = some pc) :
    deqdT (t.advance (algo k) now (exec k s pc).2) = deqdT t ++ poppedOf (evI k s pc) := by
  have hp : ∀ pc0, pc = pc0 → pcDeq (some pc0) = [] → pcDeq t.pc = [] := fun pc0 e h => by rw [hpc, e]; exact h
  cases pc with
  | deq2 =>
    cases hh : s.head with
    | none =>
      have e1 : exec k s .deq2 = afterDrain k s := by simp only [exec, hh]
      have e2 : evI k s .deq2 = popEv k s := by simp only [evI, hh, ↓reduceIte]
      rw [e1, e2]; exact adv_afterDrain s t now (hp _ rfl rfl)
    | some b =>
      have e1 : (exec k s .deq2).2 = .goto (.deq3 b none) := by simp only [exec, hh]
      have e2 : evI k s .deq2 = [] := by simp [evI, hh]
      rw [e1, e2]; exact adv_goto t now _ _ (by rw [hp _ rfl rfl]; rfl)
  | deq6 n nxt =>
    cases nxt with
    | some nx =>
      have e1 : (exec k s (.deq6 n (some nx))).2 = .goto (.deq5 nx) := by simp only [exec]
      have e2 : poppedOf (evI k s (.deq6 n (some nx))) = [] := by simp [evI, poppedOf]
      rw [e1, e2]; exact adv_goto t now _ _ (by rw [hp _ rfl rfl]; rfl)
    | none =>
      have e1 : (exec k s (.deq6 n none)).2 = (afterDrain k (s.moveToHeap k n)).2 := by simp only [exec]
      have e2 : poppedOf (evI k s (.deq6 n none)) = poppedOf (popEv k (s.moveToHeap k n)) := by simp [evI, poppedOf]
      rw [e1, e2]; exact adv_afterDrain _ t now (hp _ rfl rfl)
  | deq7 v =>
    show deqdT (t.advance (algo k) now (.ret (.val v))) = deqdT t ++ []
    exact adv_ret t now _ _ (by rw [hpc]; rfl)
  | enqU v => exact adv_goto t now _ _ (by rw [hp _ rfl rfl]; rfl)
  | enqL v =>
    simp only [exec, evI]
    split
    · split
      · exact adv_ret t now _ _ (by rw [hp _ rfl rfl]; rfl)
      · exact adv_goto t now _ _ (by rw [hp _ rfl rfl]; rfl)
    · exact adv_goto t now _ _ (by rw [hp _ rfl rfl]; rfl)
  | enqC v l =>
    simp only [exec, evI]
    split <;> exact adv_goto t now _ _ (by rw [hp _ rfl rfl]; rfl)
  | push1 v => exact adv_goto t now _ _ (by rw [hp _ rfl rfl]; rfl)
  | push2 v old => exact adv_goto t now _ _ (by rw [hp _ rfl rfl]; rfl)
  | push3 v old =>
    simp only [exec, evI]
    split
    · exact adv_ret t now _ _ (by rw [hp _ rfl rfl]; rfl)
    · exact adv_goto t now _ _ (by rw [hp _ rfl rfl]; rfl)
  | deq1 =>
    simp only [exec, evI]
    split
    · exact adv_ret t now _ _ (by rw [hp _ rfl rfl]; rfl)
    · exact adv_goto t now _ _ (by rw [hp _ rfl rfl]; rfl)
  | deq3 a b => exact adv_goto t now _ _ (by rw [hp _ rfl rfl]; rfl)
  | deq4 a b c =>
    simp only [exec, evI]
    cases c <;> exact adv_goto t now _ _ (by rw [hp _ rfl rfl]; rfl)
  | deq5 a => exact adv_goto t now _ _ (by rw [hp _ rfl rfl]; rfl)
  | len1 => exact adv_ret t now _ _ (by rw [hp _ rfl rfl]; rfl)
  | emp1 => exact adv_ret t now _ _ (by rw [hp _ rfl rfl]; rfl)

/-- a thread that never dequeues pops nothing -/
theorem pops_of_producer {ct i : Nat} {s : Sh} {t : Th} {pc : PC} (hJ : J ct i s t) (hi : i ≠ ct) (hpc : t.pc = some pc) :
    poppedOf (evI k s pc) = [] := by
  have := (hJ.cons hi).1 pc hpc
  cases pc with
  | deq2 => cases this
  | deq6 a b => cases this
  | push3 v old => simp only [evI]; split <;> rfl
  | _ => rfl

/-- for every step: the consumer's returned values grow exactly by the popped values of the step -/
theorem deqd_step (ct tid : Nat) (c : Cf k) (hJ : ∀ (i : Nat) (t : Th), c.threads[i]? = some t → J ct i c.sh t)
    (t : Th) (ht : c.threads[ct]? = some t) :
    ∃ t', (stepCfg c tid).threads[ct]? = some t' ∧ deqdT t' = deqdT t ++ poppedOf (stepEvI c tid) := by
  cases htid : c.threads[tid]? with
  | none =>
    have e1 : stepCfg c tid = c := by unfold stepCfg; simp [htid]
    have e2 : stepEvI c tid = [] := by simp [stepEvI, htid]
    rw [e1, e2]; exact ⟨t, ht, by simp [poppedOf]⟩
  | some tt =>
    cases hpc : tt.pc with
    | none =>
      have e1 : stepCfg c tid = c := by unfold stepCfg; simp [htid, hpc]
      have e2 : stepEvI c tid = [] := by simp [stepEvI, htid, hpc]
      rw [e1, e2]; exact ⟨t, ht, by simp [poppedOf]⟩
    | some pc =>
      have e1 : (stepCfg c tid).threads = c.threads.set tid (tt.advance (algo k) c.clock (exec k c.sh pc).2) := by
        unfold stepCfg; simp [htid, hpc]
      have e2 : stepEvI c tid = evI k c.sh pc := by simp [stepEvI, htid, hpc]
      rw [e1, e2]
      have hlen : tid < c.threads.length := by
        rcases Nat.lt_or_ge tid c.threads.length with h | h
        · exact h
        · rw [List.getElem?_eq_none h] at htid; cases htid
      by_cases e : tid = ct
      · subst e
        rw [htid] at ht; injection ht with ht; subst ht
        exact ⟨_, by simp [hlen], deqdT_step c.sh tt pc c.clock hpc⟩
      · refine ⟨t, by simp [List.getElem?_set, e]; exact ht, ?_⟩
        rw [pops_of_producer (hJ tid tt htid) e hpc]; simp

theorem deqd_run (ct : Nat) (progs : List (List Op)) (wf : IntakeWF ct progs) :
    ∀ (sched : List Nat) (c : Cf k) (evs : List IEv) (t : Th),
      Reach (algo k) (initCfg (algo k) Intake.init progs) c → c.threads[ct]? = some t → deqdT t = poppedOf evs →
      ∃ t', (runSched c sched).threads[ct]? = some t' ∧ deqdT t' = poppedOf (evs ++ traceI c sched)
  | [], c, evs, t, _, ht, hd => ⟨t, ht, by simpa [traceI] using hd⟩
  | x :: xs, c, evs, t, hr, ht, hd => by
    obtain ⟨_, hJ, _⟩ := intake_inv (k := k) ct progs wf c hr
    obtain ⟨t1, ht1, hd1⟩ := deqd_step ct x c hJ t ht
    have := deqd_run ct progs wf xs (stepCfg c x) (evs ++ stepEvI c x) t1 (Reach.step x hr) ht1
      (by rw [hd1, hd, poppedOf_append])
    simpa [runSched, traceI, List.append_assoc] using this

theorem deqdT_mk (p : List Op) (n : Nat) : deqdT (mkThread (algo k) p n) = [] := by
  have hh : (mkThread (algo k) p n).hist = [] := by unfold mkThread; cases p <;> rfl
  unfold deqdT; rw [hh]
  rcases mk_pc' (k := k) p n with h | ⟨op, _, h⟩
  · rw [h]; rfl
  · rw [h]
    cases op with
    | enq v key => rcases start_enq (k := k) v key with e | e <;> rw [e] <;> rfl
    | _ => rfl

/-- EXACTLY-ONCE for the intake-based priority mailboxes, every schedule: the values returned by Dequeue
(including one popped but not yet returned), the heap, the rest of the current batch and the stack
together are a PERMUTATION of the accepted messages — every accepted message is returned at most
once and is otherwise still inside; nothing else is ever returned -/
theorem exactly_once (ct : Nat) (progs : List (List Op)) (wf : IntakeWF ct progs) (sched : List Nat) (t : Th)
    (ht : (runSched (initCfg (algo k) Intake.init progs) sched).threads[ct]? = some t) :
    (deqdT t ++ (runSched (initCfg (algo k) Intake.init progs) sched).sh.heap.map Prod.fst ++
      (runSched (initCfg (algo k) Intake.init progs) sched).sh.batch.drop (runSched (initCfg (algo k) Intake.init progs) sched).sh.done ++
      (runSched (initCfg (algo k) Intake.init progs) sched).sh.stack.reverse).Perm
      (pushedOf (traceI (initCfg (algo k) Intake.init progs) sched)) := by
  have hT := tri_run (k := k) ct progs wf sched (initCfg (algo k) Intake.init progs) [] Reach.init
    ⟨rfl, fun _ => rfl, List.Perm.refl _⟩
  simp only [List.nil_append] at hT
  -- the consumer thread existed from the start (threads are never added)
  have hlen : ∀ (s : List Nat) (c : Cf k), (runSched c s).threads.length = c.threads.length := by
    intro s
    induction s with
    | nil => intro c; rfl
    | cons x xs ih =>
      intro c
      rw [runSched, ih]
      unfold stepCfg
      split
      · rfl
      · split
        · rfl
        · simp
  have hct : ct < (initCfg (algo k) Intake.init progs).threads.length := by
    rw [← hlen sched]
    rcases Nat.lt_or_ge ct (runSched (initCfg (algo k) Intake.init progs) sched).threads.length with h | h
    · exact h
    · rw [List.getElem?_eq_none h] at ht; cases ht
  obtain ⟨t0, ht0⟩ : ∃ t0, (initCfg (algo k) Intake.init progs).threads[ct]? = some t0 := ⟨_, List.getElem?_eq_getElem hct⟩
  have hd0 : deqdT t0 = poppedOf ([] : List IEv) := by
    obtain ⟨p, n, _, e⟩ := spawn_get' (algo k) progs 0 ct t0 ht0
    subst e; rw [deqdT_mk]; rfl
  obtain ⟨t', ht', hd'⟩ := deqd_run (k := k) ct progs wf sched _ [] t0 Reach.init ht0 hd0
  rw [ht] at ht'; injection ht' with ht'; subst ht'
  simp only [List.nil_append] at hd'
  rw [← hT.cons, hd']
  have h1 := hT.heap
  have h2 : (poppedOf (traceI (initCfg (algo k) Intake.init progs) sched) ++
      (runSched (initCfg (algo k) Intake.init progs) sched).sh.heap.map Prod.fst).Perm
      (insertedOf (traceI (initCfg (algo k) Intake.init progs) sched)) := List.perm_append_comm.trans h1
  exact (h2.append_right _).append_right _

end GoaktVerif.C04.IntakeInv

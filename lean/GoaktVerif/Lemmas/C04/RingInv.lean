/-
C04 — `NonBlockingBoundedMailbox` (Vyukov bounded ring): structural invariants for all schedules.

Positions are never reused; slot `p % size` serves position `p`.  With `rel` the number of RELEASED
positions (below `dequeuePos`, minus the one the consumer has claimed but not yet released):
`rel ≤ dequeuePos ≤ enqueuePos ≤ rel + size`; the slots of the positions in `[enqueuePos, rel+size)`
are free (`seq = p`); a position in `[dequeuePos, enqueuePos)` is reserved (`seq = p`) or published
(`seq = p+1`).
-/
import GoaktVerif.Model.C04.All
import GoaktVerif.Lemmas.C04.CoreLemmas

namespace GoaktVerif.C04.RingInv
open GoaktVerif.Model.C04 GoaktVerif.Model.C04.Ring

abbrev Th := Thread Ring.PC

/-- released positions: `dequeuePos`, minus one while the slot of the last claimed position still
carries that position's "published" mark -/
def rel (s : Sh) : Nat :=
  if 0 < s.deqPos ∧ s.seq ((s.deqPos - 1) % s.size) = s.deqPos then s.deqPos - 1 else s.deqPos

theorem rel_le (s : Sh) : rel s ≤ s.deqPos := by unfold rel; split <;> omega
theorem le_rel (s : Sh) : s.deqPos ≤ rel s + 1 := by unfold rel; split <;> omega

structure P (s : Sh) : Prop where
  size2 : 2 ≤ s.size
  le1 : s.deqPos ≤ s.enqPos
  le2 : s.enqPos ≤ rel s + s.size
  free : ∀ p, s.enqPos ≤ p → p < rel s + s.size → s.seq (p % s.size) = p
  win : ∀ p, s.deqPos ≤ p → p < s.enqPos → s.seq (p % s.size) = p ∨ s.seq (p % s.size) = p + 1

/-- two positions less than `n` apart occupy different slots -/
theorem mod_inj {n a p q : Nat} (hn : 0 < n) (hp1 : a ≤ p) (hp2 : p < a + n) (hq1 : a ≤ q) (hq2 : q < a + n)
    (h : p % n = q % n) : p = q := by
  rcases Nat.le_total p q with hle | hle
  · have h0 : (q - p) % n = 0 := Nat.sub_mod_eq_zero_of_mod_eq h.symm
    have hlt : q - p < n := by omega
    rw [Nat.mod_eq_of_lt hlt] at h0
    omega
  · have h0 : (p - q) % n = 0 := Nat.sub_mod_eq_zero_of_mod_eq h
    have hlt : p - q < n := by omega
    rw [Nat.mod_eq_of_lt hlt] at h0
    omega

def isDeqPC : PC → Bool
  | .deq1 => true | .deq2 _ => true | .deq3 _ => true | .deq4 _ _ => true | .deq5 => true
  | _ => false

def noDeq (t : Th) : Prop := (∀ pc, t.pc = some pc → isDeqPC pc = false) ∧ Op.deq ∉ t.prog

def atDeq4 : Option PC → Bool
  | some (.deq4 _ _) => true
  | _ => false

/-- per-thread promises relative to the shared state; `ct` is the consumer thread -/
structure J (ct i : Nat) (s : Sh) (t : Th) : Prop where
  enq2 : ∀ v pos, t.pc = some (.enq2 v pos) → pos ≤ s.enqPos
  enq3 : ∀ v pos, t.pc = some (.enq3 v pos) → pos ≤ s.enqPos ∧ (pos = s.enqPos → s.seq (pos % s.size) = pos)
  enq4 : ∀ v pos, t.pc = some (.enq4 v pos) → s.deqPos ≤ pos ∧ pos < s.enqPos ∧ s.seq (pos % s.size) = pos
  deq2 : ∀ pos, t.pc = some (.deq2 pos) → pos = s.deqPos
  deq3 : ∀ pos, t.pc = some (.deq3 pos) → pos = s.deqPos ∧ s.seq (pos % s.size) = pos + 1
  deq4 : ∀ pos msg, t.pc = some (.deq4 pos msg) → pos + 1 = s.deqPos ∧ rel s = pos
  idle : i = ct → atDeq4 t.pc = false → rel s = s.deqPos
  cons : i ≠ ct → noDeq t

/-- two producers never hold the same reserved position -/
def K (ti tj : Th) : Prop :=
  ∀ v p v' p', ti.pc = some (.enq4 v p) → tj.pc = some (.enq4 v' p') → p ≠ p'

/-! ### effect of the four mutating steps on `rel` and `P` -/

theorem rel_congr {s s' : Sh} (hd : s'.deqPos = s.deqPos) (hz : s'.size = s.size)
    (hs : s'.seq ((s.deqPos - 1) % s.size) = s.seq ((s.deqPos - 1) % s.size)) : rel s' = rel s := by
  unfold rel; rw [hd, hz, hs]

/-- M1: a producer's successful CAS reserves position `enqPos` -/
theorem P_reserve {s : Sh} (hP : P s) (v : Nat) (hfree : s.seq (s.enqPos % s.size) = s.enqPos) :
    s.enqPos < rel s + s.size ∧
    P (({ s with enqPos := s.enqPos + 1 } : Sh).setCtx (s.enqPos % s.size) (some v)) := by
  have hlt : s.enqPos < rel s + s.size := by
    rcases Nat.lt_or_ge s.enqPos (rel s + s.size) with h | h
    · exact h
    · -- the ring is full: the slot of enqPos serves position enqPos - size = rel, whose mark is rel or rel+1
      have he : s.enqPos = rel s + s.size := Nat.le_antisymm hP.le2 h
      have hz := hP.size2
      have hmod : s.enqPos % s.size = rel s % s.size := by rw [he]; simp
      have hrd := rel_le s
      have hdr := le_rel s
      by_cases hr : rel s = s.deqPos
      · have hw := hP.win (rel s) (by omega) (by omega)
        rw [← hmod, hfree] at hw
        omega
      · -- rel = deqPos - 1 and its slot carries deqPos
        have : s.seq ((s.deqPos - 1) % s.size) = s.deqPos := by
          unfold rel at hr; split at hr
          · next h' => exact h'.2
          · exact absurd rfl hr
        have hr' : rel s = s.deqPos - 1 := by omega
        rw [hmod, hr', this] at hfree
        omega
  refine ⟨hlt, ?_⟩
  have hr : rel (({ s with enqPos := s.enqPos + 1 } : Sh).setCtx (s.enqPos % s.size) (some v)) = rel s := rfl
  refine ⟨hP.size2, ?_, ?_, ?_, ?_⟩
  · show s.deqPos ≤ s.enqPos + 1; have := hP.le1; omega
  · show s.enqPos + 1 ≤ rel _ + s.size; rw [hr]; omega
  · intro p h1 h2
    show s.seq (p % s.size) = p
    rw [hr] at h2
    exact hP.free p (by change s.enqPos + 1 ≤ p at h1; omega) h2
  · intro p h1 h2
    show s.seq (p % s.size) = p ∨ s.seq (p % s.size) = p + 1
    change s.deqPos ≤ p at h1
    change p < s.enqPos + 1 at h2
    by_cases e : p = s.enqPos
    · subst e; exact Or.inl hfree
    · exact hP.win p h1 (by omega)

theorem setSeq_same (s : Sh) (i x : Nat) : (s.setSeq i x).seq i = x := by simp [Sh.setSeq]
theorem setSeq_other (s : Sh) {i j : Nat} (x : Nat) (h : j ≠ i) : (s.setSeq i x).seq j = s.seq j := by simp [Sh.setSeq, h]

/-- M2: the publishing `Store:seq` of the producer holding position `pos` -/
theorem P_publish {s : Sh} (hP : P s) (pos : Nat) (h1 : s.deqPos ≤ pos) (h2 : pos < s.enqPos) :
    rel (s.setSeq (pos % s.size) (pos + 1)) = rel s ∧ P (s.setSeq (pos % s.size) (pos + 1)) := by
  have hz : 0 < s.size := by have := hP.size2; omega
  have hrd := rel_le s
  have hdr := le_rel s
  have hle2 := hP.le2
  have hr : rel (s.setSeq (pos % s.size) (pos + 1)) = rel s := by
    unfold rel
    show (if 0 < s.deqPos ∧ (s.setSeq (pos % s.size) (pos + 1)).seq ((s.deqPos - 1) % s.size) = s.deqPos then s.deqPos - 1 else s.deqPos) = _
    by_cases hslot : (s.deqPos - 1) % s.size = pos % s.size
    · rw [hslot, setSeq_same]
      have hne : ¬ (0 < s.deqPos ∧ pos + 1 = s.deqPos) := by omega
      rw [if_neg hne]
      split
      · next hc =>
        -- rel s = deqPos - 1: then deqPos - 1 and pos are in one window, different positions, same slot
        exfalso
        have hc' : 0 < s.deqPos ∧ s.seq ((s.deqPos - 1) % s.size) = s.deqPos := by rw [hslot]; exact hc
        have hrel : rel s = s.deqPos - 1 := by unfold rel; rw [if_pos hc']
        have := mod_inj hz (a := rel s) (p := s.deqPos - 1) (q := pos) (by omega) (by omega) (by omega) (by omega) hslot
        omega
      · rfl
    · rw [setSeq_other s _ hslot]
  refine ⟨hr, hP.size2, hP.le1, ?_, ?_, ?_⟩
  · show s.enqPos ≤ rel _ + s.size; rw [hr]; exact hP.le2
  · intro p hp1 hp2
    change s.enqPos ≤ p at hp1
    rw [hr] at hp2
    change p < rel s + s.size at hp2
    show (s.setSeq (pos % s.size) (pos + 1)).seq (p % s.size) = p
    have hne : p % s.size ≠ pos % s.size := by
      intro e
      have := mod_inj hz (a := rel s) (p := p) (q := pos) (by omega) hp2 (by omega) (by omega) e
      omega
    rw [setSeq_other s _ hne]
    exact hP.free p hp1 hp2
  · intro p hp1 hp2
    change s.deqPos ≤ p at hp1
    change p < s.enqPos at hp2
    show (s.setSeq (pos % s.size) (pos + 1)).seq (p % s.size) = p ∨ (s.setSeq (pos % s.size) (pos + 1)).seq (p % s.size) = p + 1
    by_cases e : p = pos
    · subst e; right; exact setSeq_same s _ _
    · have hne : p % s.size ≠ pos % s.size := by
        intro e'
        exact e (mod_inj hz (a := rel s) (p := p) (q := pos) (by omega) (by omega) (by omega) (by omega) e')
      rw [setSeq_other s _ hne]
      exact hP.win p hp1 hp2

/-- M3: the consumer's successful CAS claims position `deqPos` (its slot keeps the published mark) -/
theorem P_claim {s : Sh} (hP : P s) (hrel : rel s = s.deqPos) (hpub : s.seq (s.deqPos % s.size) = s.deqPos + 1) :
    s.deqPos < s.enqPos ∧
    rel (({ s with deqPos := s.deqPos + 1 } : Sh).setCtx (s.deqPos % s.size) none) = s.deqPos ∧
    P (({ s with deqPos := s.deqPos + 1 } : Sh).setCtx (s.deqPos % s.size) none) := by
  have hz := hP.size2
  have hlt : s.deqPos < s.enqPos := by
    rcases Nat.lt_or_ge s.deqPos s.enqPos with h | h
    · exact h
    · have := hP.free s.deqPos h (by omega)
      rw [this] at hpub; omega
  have hr : rel (({ s with deqPos := s.deqPos + 1 } : Sh).setCtx (s.deqPos % s.size) none) = s.deqPos := by
    unfold rel
    show (if 0 < s.deqPos + 1 ∧ s.seq ((s.deqPos + 1 - 1) % s.size) = s.deqPos + 1 then s.deqPos + 1 - 1 else s.deqPos + 1) = s.deqPos
    rw [if_pos ⟨by omega, by simpa using hpub⟩]; omega
  refine ⟨hlt, hr, hP.size2, ?_, ?_, ?_, ?_⟩
  · show s.deqPos + 1 ≤ s.enqPos; omega
  · show s.enqPos ≤ rel _ + s.size; rw [hr]; have := hP.le2; omega
  · intro p hp1 hp2
    rw [hr] at hp2
    exact hP.free p hp1 (by rw [hrel]; exact hp2)
  · intro p hp1 hp2
    change s.deqPos + 1 ≤ p at hp1
    exact hP.win p (by omega) hp2

/-- M4: the consumer's `Store:seq` releases the claimed position `pos` (= `rel`) -/
theorem P_release {s : Sh} (hP : P s) (pos : Nat) (hd : pos + 1 = s.deqPos) (hrel : rel s = pos) :
    rel (s.setSeq (pos % s.size) (pos + s.size)) = s.deqPos ∧ P (s.setSeq (pos % s.size) (pos + s.size)) := by
  have hz2 := hP.size2
  have hz : 0 < s.size := by omega
  have hle2 := hP.le2
  have hle1 := hP.le1
  have hr : rel (s.setSeq (pos % s.size) (pos + s.size)) = s.deqPos := by
    unfold rel
    show (if 0 < s.deqPos ∧ (s.setSeq (pos % s.size) (pos + s.size)).seq ((s.deqPos - 1) % s.size) = s.deqPos then s.deqPos - 1 else s.deqPos) = s.deqPos
    have : s.deqPos - 1 = pos := by omega
    rw [this, setSeq_same]
    rw [if_neg (by omega)]
  refine ⟨hr, hP.size2, hP.le1, ?_, ?_, ?_⟩
  · show s.enqPos ≤ rel _ + s.size; rw [hr]; omega
  · intro p hp1 hp2
    change s.enqPos ≤ p at hp1
    rw [hr] at hp2
    change p < s.deqPos + s.size at hp2
    show (s.setSeq (pos % s.size) (pos + s.size)).seq (p % s.size) = p
    by_cases e : p = pos + s.size
    · subst e
      have : (pos + s.size) % s.size = pos % s.size := by simp
      rw [this, setSeq_same]
    · have hne : p % s.size ≠ pos % s.size := by
        intro e'
        have := mod_inj hz (a := pos) (p := p) (q := pos) (by omega) (by omega) (by omega) (by omega) e'
        omega
      rw [setSeq_other s _ hne]
      exact hP.free p hp1 (by omega)
  · intro p hp1 hp2
    change s.deqPos ≤ p at hp1
    change p < s.enqPos at hp2
    show (s.setSeq (pos % s.size) (pos + s.size)).seq (p % s.size) = p ∨ (s.setSeq (pos % s.size) (pos + s.size)).seq (p % s.size) = p + 1
    have hne : p % s.size ≠ pos % s.size := by
      intro e'
      have := mod_inj hz (a := pos) (p := p) (q := pos) (by omega) (by omega) (by omega) (by omega) e'
      omega
    rw [setSeq_other s _ hne]
    exact hP.win p hp1 hp2

end GoaktVerif.C04.RingInv

/-
C04 — `UnboundedSegmentedMailbox`: the value invariant under the consumer's claiming steps.
-/
import GoaktVerif.Lemmas.C04.SegTrace3

namespace GoaktVerif.C04.SegInv
open GoaktVerif.Model.C04 GoaktVerif.Model.C04.Segmented

/-- the consumer has seen message `v` in slot `deq` of the head segment: it is the message of position
`consumed` -/
theorem tr_take {ct : Nat} {c : Cf} {resv : List Nat} {t : Th} {seg deq v : Nat} {clk : Nat}
    (h2 : P2 c.sh) (hT : TR ct c resv) (ht : c.threads[ct]? = some t) (hpc : t.pc = some (.d4 seg deq))
    (hh : seg = c.sh.head) (hdq : deq = (c.sh.segs seg).deqIdx) (hS : deq < c.sh.segSize) (hw : deq < (c.sh.segs seg).writeIdx)
    (hdata : (c.sh.segs seg).data deq = some v) :
    TR ct ({ sh := c.sh, threads := c.threads.set ct { t with pc := some (.d5 seg deq v) }, clock := clk } : Cf) resv := by
  subst hh
  have hposC : pos c.sh c.sh.head deq = consumed c.sh := by unfold pos consumed; rw [hdq]
  have hlt : consumed c.sh < resv.length := by
    rw [← hposC]; exact pos_lt_len h2 hT.len h2.hd hS hw
  have hval : resv[consumed c.sh]? = some v := by
    rcases hT.data c.sh.head deq h2.hd hS (by rw [hposC]; exact Nat.le_refl _) (by rw [hposC]; exact hlt) with h | h
    · rw [hdata] at h; cases h
    · rw [hdata, hposC] at h; exact h.symm
  have hold := hT.deqd t ht
  unfold deqdT at hold
  rw [hpc] at hold
  refine ⟨hT.len, hT.data, ?_, ?_, ?_⟩
  · intro i ti v' g idx hi hpc'
    change (c.threads.set ct _)[i]? = some ti at hi
    by_cases e : i = ct
    · subst e; rw [get_self ht] at hi; injection hi with hi; subst hi; simp at hpc'
    · rw [get_ne (Ne.symm e)] at hi; exact hT.store i ti v' g idx hi hpc'
  · intro tc hc
    change (c.threads.set ct _)[ct]? = some tc at hc
    rw [get_self ht] at hc; injection hc with hc; subst hc
    show consumed c.sh + 1 ≤ resv.length; omega
  · intro tc hc
    change (c.threads.set ct _)[ct]? = some tc at hc
    rw [get_self ht] at hc; injection hc with hc; subst hc
    show t.hist.reverse.filterMap resVal ++ [v] = resv.take (consumed c.sh + 1)
    simp only [pcDeq, inflight, List.append_nil, Nat.add_zero] at hold
    rw [hold, List.take_succ_eq_append_getElem hlt]
    have : resv[consumed c.sh] = v := by
      rw [List.getElem?_eq_getElem hlt] at hval; injection hval
    rw [this]

def setDeq (d : Nat) (x : Seg) : Seg := { x with deqIdx := d }

/-- `Store:deqIdx`: the claimed position is now counted as consumed -/
theorem tr_advance {ct : Nat} {c : Cf} {resv : List Nat} {t : Th} {seg deq v : Nat} {clk : Nat}
    (hT : TR ct c resv) (ht : c.threads[ct]? = some t) (hpc : t.pc = some (.d6 seg deq v))
    (hh : seg = c.sh.head) (hdq : deq = (c.sh.segs seg).deqIdx) :
    TR ct ({ sh := c.sh.upd seg (setDeq (deq + 1)), threads := c.threads.set ct { t with pc := some (.d7 v) }, clock := clk } : Cf) resv := by
  subst hh
  have fld : ∀ j, ((c.sh.upd c.sh.head (setDeq (deq + 1))).segs j).linked = (c.sh.segs j).linked ∧
      ((c.sh.upd c.sh.head (setDeq (deq + 1))).segs j).ord = (c.sh.segs j).ord ∧
      ((c.sh.upd c.sh.head (setDeq (deq + 1))).segs j).data = (c.sh.segs j).data ∧
      ((c.sh.upd c.sh.head (setDeq (deq + 1))).segs j).writeIdx = (c.sh.segs j).writeIdx := by
    intro j; rw [upd_field j]; split
    · next e => subst e; exact ⟨rfl, rfl, rfl, rfl⟩
    · exact ⟨rfl, rfl, rfl, rfl⟩
  have hpos : ∀ g k, pos (c.sh.upd c.sh.head (setDeq (deq + 1))) g k = pos c.sh g k := by
    intro g k; unfold pos; rw [(fld g).2.1]; rfl
  have hcons : consumed (c.sh.upd c.sh.head (setDeq (deq + 1))) = consumed c.sh + 1 := by
    unfold consumed
    show ((c.sh.upd c.sh.head (setDeq (deq + 1))).segs c.sh.head).ord * c.sh.segSize + ((c.sh.upd c.sh.head (setDeq (deq + 1))).segs c.sh.head).deqIdx = _
    rw [(fld _).2.1, upd_same]
    show (c.sh.segs c.sh.head).ord * c.sh.segSize + (deq + 1) = _
    rw [hdq]; omega
  have hb := hT.bound t ht
  have hd := hT.deqd t ht
  unfold deqdT at hd
  rw [hpc] at hb hd
  refine ⟨?_, ?_, ?_, ?_, ?_⟩
  · show resv.length = ((c.sh.upd c.sh.head (setDeq (deq + 1))).segs c.sh.last).ord * c.sh.segSize +
      min ((c.sh.upd c.sh.head (setDeq (deq + 1))).segs c.sh.last).writeIdx c.sh.segSize
    rw [(fld _).2.1, (fld _).2.2.2]; exact hT.len
  · intro g k a b c1 d
    change ((c.sh.upd c.sh.head (setDeq (deq + 1))).segs g).linked = true at a
    change k < c.sh.segSize at b
    rw [hcons, hpos] at c1; rw [hpos] at d; rw [(fld g).1] at a
    show ((c.sh.upd c.sh.head (setDeq (deq + 1))).segs g).data k = none ∨ _ = resv[pos (c.sh.upd c.sh.head (setDeq (deq + 1))) g k]?
    rw [(fld g).2.2.1, hpos]
    exact hT.data g k a b (by omega) d
  · intro i ti v' g k hi hpc'
    change (c.threads.set ct _)[i]? = some ti at hi
    show resv[pos (c.sh.upd c.sh.head (setDeq (deq + 1))) g k]? = some v'
    rw [hpos]
    by_cases e : i = ct
    · subst e; rw [get_self ht] at hi; injection hi with hi; subst hi; simp at hpc'
    · rw [get_ne (Ne.symm e)] at hi; exact hT.store i ti v' g k hi hpc'
  · intro tc hc
    change (c.threads.set ct _)[ct]? = some tc at hc
    rw [get_self ht] at hc; injection hc with hc; subst hc
    show consumed (c.sh.upd c.sh.head (setDeq (deq + 1))) + 0 ≤ resv.length
    rw [hcons]; simp only [inflight] at hb; omega
  · intro tc hc
    change (c.threads.set ct _)[ct]? = some tc at hc
    rw [get_self ht] at hc; injection hc with hc; subst hc
    show t.hist.reverse.filterMap resVal ++ [v] = resv.take (consumed (c.sh.upd c.sh.head (setDeq (deq + 1))) + 0)
    rw [hcons]
    simpa [pcDeq, inflight] using hd

/-- `Store:head`: the consumer moves to the next segment; nothing is counted twice or skipped -/
theorem tr_head {ct : Nat} {c : Cf} {resv : List Nat} {t : Th} {seg nx : Nat} {clk : Nat}
    (h2 : P2 c.sh) (hT : TR ct c resv) (ht : c.threads[ct]? = some t) (hpc : t.pc = some (.d9 seg nx))
    (hh : seg = c.sh.head) (hfull : (c.sh.segs seg).deqIdx = c.sh.segSize) (hn : (c.sh.segs seg).next = some nx) :
    TR ct ({ sh := { c.sh with head := nx }, threads := c.threads.set ct { t with pc := some (.d2 nx) }, clock := clk } : Cf) resv := by
  subst hh
  obtain ⟨hl, ho, _⟩ := h2.next_linked h2.hd hn
  have hz : (c.sh.segs nx).deqIdx = 0 := h2.after nx hl (by rw [ho]; omega)
  have hcons : consumed ({ c.sh with head := nx } : Sh) = consumed c.sh := by
    unfold consumed
    show (c.sh.segs nx).ord * c.sh.segSize + (c.sh.segs nx).deqIdx = (c.sh.segs c.sh.head).ord * c.sh.segSize + (c.sh.segs c.sh.head).deqIdx
    rw [ho, hz, hfull, Nat.succ_mul]; omega
  have hb := hT.bound t ht
  have hd := hT.deqd t ht
  unfold deqdT at hd
  rw [hpc] at hb hd
  refine ⟨hT.len, ?_, ?_, ?_, ?_⟩
  · intro g k a b c1 d
    change consumed ({ c.sh with head := nx } : Sh) ≤ pos c.sh g k at c1
    rw [hcons] at c1
    exact hT.data g k a b c1 d
  · intro i ti v' g k hi hpc'
    change (c.threads.set ct _)[i]? = some ti at hi
    by_cases e : i = ct
    · subst e; rw [get_self ht] at hi; injection hi with hi; subst hi; simp at hpc'
    · rw [get_ne (Ne.symm e)] at hi; exact hT.store i ti v' g k hi hpc'
  · intro tc hc
    change (c.threads.set ct _)[ct]? = some tc at hc
    rw [get_self ht] at hc; injection hc with hc; subst hc
    show consumed ({ c.sh with head := nx } : Sh) + 0 ≤ resv.length
    rw [hcons]; simpa [inflight] using hb
  · intro tc hc
    change (c.threads.set ct _)[ct]? = some tc at hc
    rw [get_self ht] at hc; injection hc with hc; subst hc
    show t.hist.reverse.filterMap resVal ++ [] = resv.take (consumed ({ c.sh with head := nx } : Sh) + 0)
    rw [hcons]
    simpa [pcDeq, inflight] using hd

end GoaktVerif.C04.SegInv

/-
C04 — UnboundedFairMailbox: what holds of the activation protocol for ALL schedules, and where it
breaks.

`ActInv`: a sender with counted messages (`pending > 0`) is active, or some thread is parked at a site
from which it will (re)check that sender (`isCheck`: the producer between `Add:pending` = 1 and its
`CAS:active`; the consumer between `Store:active(false)` and the re-check CAS).  Every atomic step of
every thread preserves `ActInv`, with ONE exception: the nil-branch re-check (`i3`) executed while
`pending > 0`, `active = false` and `length ≤ 0` (`guardMiss`).  The counting identity
`length = Σ pending ± in flight` would exclude that step; it is false of the code as it is (Props:
`fair_counting_refuted`, witnesses F9/F9b), so the theorem is stated over the runs without such a step
(`ReachNM`).

Also here: the sub-queue of a sender is touched by nothing but UnboundedMailbox steps of threads
working on that sender (`subqueue_frame`).
-/
import GoaktVerif.Model.C04.Fair
import GoaktVerif.Lemmas.C04.CoreLemmas

namespace GoaktVerif.C04.FairInv
open GoaktVerif.Model.C04 GoaktVerif.Model.C04.Fair

/-- sites from which the parked thread will still (re)check sender `k` -/
def isCheck (k : Nat) : PC → Bool
  | .ub k' true (.enq1 _) => k' == k
  | .ub k' true (.enq2 _) => k' == k
  | .ub k' true (.enq3 _ _) => k' == k
  | .f6 k' => k' == k
  | .i2 k' => k' == k
  | .i3 k' => k' == k
  | .i4 k' => k' == k
  | .j5 k' _ => k' == k
  | .j6 k' _ => k' == k
  | _ => false

/-- the one step that gives up a sender with counted messages: Dequeue's nil-branch re-check finds
`pending > 0`, `active = false`, but `length ≤ 0` -/
def guardMiss (s : Sh) : PC → Bool
  | .i3 k => decide ((s.boxes k).pending > 0) && ((s.boxes k).active == false) && !decide (s.length > 0)
  | _ => false

/-! ### shared-state facts -/

theorem updBox_same (s : Sh) (k : Nat) (f : Box → Box) : (s.updBox k f).boxes k = f (s.boxes k) := by
  simp [Sh.updBox]

theorem updBox_ne (s : Sh) (k k' : Nat) (f : Box → Box) (h : k ≠ k') : (s.updBox k' f).boxes k = s.boxes k := by
  simp [Sh.updBox, h]

theorem updBox_length (s : Sh) (k : Nat) (f : Box → Box) : (s.updBox k f).length = s.length := rfl

theorem poolGet_boxes (s : Sh) : s.poolGet.1.boxes = s.boxes := by
  unfold Sh.poolGet
  split
  · rfl
  · split <;> rfl

theorem poolPut_boxes (s : Sh) (x : Nat) : (s.poolPut x).boxes = s.boxes := by
  unfold Sh.poolPut
  split <;> rfl

theorem activate_boxes (s : Sh) (k : Nat) (r : Res) : (activate s k r).1.boxes = s.boxes := by
  simp [activate, poolGet_boxes]

theorem activate_next (s : Sh) (k : Nat) (r : Res) : (activate s k r).2 = .goto (.a1 k s.poolGet.2 r) := rfl

/-- outcome of one atomic step for sender `k`, when `k` has counted messages afterwards -/
def Outcome (s : Sh) (pc : PC) (k : Nat) : Prop :=
  ((exec s pc).1.boxes k).active = true ∨
  (∃ pc', (exec s pc).2 = .goto pc' ∧ isCheck k pc' = true) ∨
  ((s.boxes k).pending > 0 ∧ ((s.boxes k).active = true → ((exec s pc).1.boxes k).active = true) ∧
    isCheck k pc = false)

/-- a step that leaves box `k`'s `pending` and `active` alone, from a site that is not a check site of `k` -/
theorem outcome_same (s : Sh) (pc : PC) (k : Nat)
    (hp : ((exec s pc).1.boxes k).pending = (s.boxes k).pending)
    (ha : ((exec s pc).1.boxes k).active = (s.boxes k).active)
    (hc : isCheck k pc = false)
    (h : ((exec s pc).1.boxes k).pending > 0) : Outcome s pc k := by
  refine Or.inr (Or.inr ⟨by rw [← hp]; exact h, fun h' => by rw [ha]; exact h', hc⟩)

theorem exec_outcome (s : Sh) (pc : PC) (k : Nat) (hg : guardMiss s pc = false)
    (h : ((exec s pc).1.boxes k).pending > 0) : Outcome s pc k := by
  cases pc with
  | ub k' first upc =>
    have hb : ∀ s' : Sh, s' = s.updBox k' (fun b => b.ubStep upc) →
        (s'.boxes k).pending = (s.boxes k).pending ∧ (s'.boxes k).active = (s.boxes k).active := by
      intro s' e; subst e
      by_cases hk : k = k'
      · subst hk; simp [updBox_same, Box.ubStep]
      · simp [updBox_ne _ _ _ _ hk]
    have hs : (exec s (.ub k' first upc)).1 = s.updBox k' (fun b => b.ubStep upc) := by
      simp only [exec]
      split <;> rfl
    have hsame : isCheck k (.ub k' first upc) = false → Outcome s (.ub k' first upc) k := fun hc =>
      outcome_same s _ k (by rw [hs]; exact (hb _ rfl).1) (by rw [hs]; exact (hb _ rfl).2) hc h
    by_cases hk : k = k'
    · subst hk
      cases first with
      | false => exact hsame (by cases upc <;> rfl)
      | true =>
        cases upc with
        | enq1 v => exact Or.inr (Or.inl ⟨.ub k true (.enq2 v), rfl, by simp [isCheck]⟩)
        | enq2 v => exact Or.inr (Or.inl ⟨.ub k true (.enq3 v (s.boxes k).mb.tail), rfl, by simp [isCheck]⟩)
        | enq3 v prev => exact Or.inr (Or.inl ⟨.f6 k, rfl, by simp [isCheck]⟩)
        | deq1 => exact hsame rfl
        | deq2 hd => exact hsame rfl
        | deq3 hd n => exact hsame rfl
        | deq4 hd n => exact hsame rfl
        | emp1 => exact hsame rfl
        | emp2 hd => exact hsame rfl
        | len1 => exact hsame rfl
        | len2 hd => exact hsame rfl
        | len3 cur cnt => exact hsame rfl
    · apply hsame
      have hk' : (k' == k) = false := by simp; exact fun e => hk e.symm
      cases first <;> cases upc <;> simp [isCheck, hk']
  | f4 k' v => exact outcome_same s _ k rfl rfl rfl h
  | f5 k' v =>
    by_cases hk : k = k'
    · subst hk
      by_cases h1 : (s.boxes k).pending + 1 = 1
      · refine Or.inr (Or.inl ⟨.ub k true (.enq1 v), ?_, by simp [isCheck]⟩)
        simp [exec, h1]
      · refine Or.inr (Or.inr ⟨?_, ?_, rfl⟩)
        · simp only [exec, updBox_same] at h
          omega
        · intro ha; simp only [exec, updBox_same]; exact ha
    · refine outcome_same s _ k ?_ ?_ rfl h <;> simp only [exec, updBox_ne _ _ _ _ hk]
  | f6 k' =>
    by_cases hk : k = k'
    · subst hk
      left
      simp only [exec]
      split
      · rw [activate_boxes, updBox_same]
      · next hne => simpa using hne
    · refine outcome_same s _ k ?_ ?_ (by simp [isCheck]; exact fun e => hk e.symm) h <;>
      · simp only [exec]
        split
        · rw [activate_boxes, updBox_ne _ _ _ _ hk]
        · rfl
  | a1 k' n r => exact outcome_same s _ k rfl rfl rfl h
  | a2 k' n r => exact outcome_same s _ k rfl rfl rfl h
  | a3 k' n r => exact outcome_same s _ k rfl rfl rfl h
  | a4 n prev r => exact outcome_same s _ k rfl rfl rfl h
  | g1 => exact outcome_same s _ k rfl rfl rfl h
  | g2 hd =>
    refine outcome_same s _ k ?_ ?_ rfl h <;>
    · simp only [exec]
      split <;> rfl
  | g3 hd nx => exact outcome_same s _ k rfl rfl rfl h
  | g4 hd nx => exact outcome_same s _ k rfl rfl rfl h
  | g5 hd v => exact outcome_same s _ k rfl rfl rfl h
  | g6 hd v =>
    refine outcome_same s _ k ?_ ?_ rfl h <;>
    · simp only [exec]
      split <;> simp [poolPut_boxes, Sh.setAVal]
  | i1 k' =>
    by_cases hk : k = k'
    · subst hk
      exact Or.inr (Or.inl ⟨.i2 k, rfl, by simp [isCheck]⟩)
    · refine outcome_same s _ k ?_ ?_ rfl h <;> simp only [exec, updBox_ne _ _ _ _ hk]
  | i2 k' =>
    by_cases hk : k = k'
    · subst hk
      exact Or.inr (Or.inl ⟨.i3 k, rfl, by simp [isCheck]⟩)
    · exact outcome_same s _ k rfl rfl (by simp [isCheck]; exact fun e => hk e.symm) h
  | i3 k' =>
    by_cases hk : k = k'
    · subst hk
      have hp : (s.boxes k).pending > 0 := h
      by_cases hl : s.length > 0
      · refine Or.inr (Or.inl ⟨.i4 k, ?_, by simp [isCheck]⟩)
        simp [exec, hl, hp]
      · cases hact : (s.boxes k).active with
        | true => exact Or.inl hact
        | false =>
          exfalso
          simp [guardMiss, hact, hl, hp] at hg
    · exact outcome_same s _ k rfl rfl (by simp [isCheck]; exact fun e => hk e.symm) h
  | i4 k' =>
    by_cases hk : k = k'
    · subst hk
      left
      simp only [exec]
      split
      · rw [activate_boxes, updBox_same]
      · next hne => simpa using hne
    · refine outcome_same s _ k ?_ ?_ (by simp [isCheck]; exact fun e => hk e.symm) h <;>
      · simp only [exec]
        split
        · rw [activate_boxes, updBox_ne _ _ _ _ hk]
        · rfl
  | j1 k' n => exact outcome_same s _ k rfl rfl rfl h
  | j2 k' n =>
    by_cases hk : k = k'
    · subst hk
      have hs : ((exec s (.j2 k n)).1.boxes k).pending = (s.boxes k).pending - 1 ∧
          ((exec s (.j2 k n)).1.boxes k).active = (s.boxes k).active := by
        simp only [exec]
        split
        · rw [activate_boxes, updBox_same]; exact ⟨rfl, rfl⟩
        · split <;> (rw [updBox_same]; exact ⟨rfl, rfl⟩)
      refine Or.inr (Or.inr ⟨?_, ?_, rfl⟩)
      · rw [hs.1] at h; omega
      · intro ha; rw [hs.2]; exact ha
    · refine outcome_same s _ k ?_ ?_ rfl h <;>
      · simp only [exec]
        split
        · rw [activate_boxes, updBox_ne _ _ _ _ hk]
        · split <;> rw [updBox_ne _ _ _ _ hk]
  | j3 k' n =>
    by_cases hk : k = k'
    · subst hk
      simp only [exec, updBox_same] at h
      omega
    · refine outcome_same s _ k ?_ ?_ rfl h <;> simp only [exec, updBox_ne _ _ _ _ hk]
  | j4 k' n =>
    by_cases hk : k = k'
    · subst hk
      exact Or.inr (Or.inl ⟨.j5 k n, rfl, by simp [isCheck]⟩)
    · refine outcome_same s _ k ?_ ?_ rfl h <;> simp only [exec, updBox_ne _ _ _ _ hk]
  | j5 k' n =>
    by_cases hk : k = k'
    · subst hk
      exact Or.inr (Or.inl ⟨.j6 k n, rfl, by simp [isCheck]⟩)
    · exact outcome_same s _ k rfl rfl (by simp [isCheck]; exact fun e => hk e.symm) h
  | j6 k' n =>
    by_cases hk : k = k'
    · subst hk
      left
      simp only [exec] at h ⊢
      split
      · rw [activate_boxes, updBox_same]
      · next hne =>
        rw [if_neg hne] at h
        cases hact : (s.boxes k).active with
        | true => rfl
        | false =>
          exfalso
          have hp : (s.boxes k).pending > 0 := h
          simp [hact, hp] at hne
    · refine outcome_same s _ k ?_ ?_ (by simp [isCheck]; exact fun e => hk e.symm) h <;>
      · simp only [exec]
        split
        · rw [activate_boxes, updBox_ne _ _ _ _ hk]
        · rfl
  | l1 e => exact outcome_same s _ k rfl rfl rfl h

/-! ### configurations -/

/-- some thread is parked at a check site of sender `k` -/
def someoneChecks (c : Cfg Fair.algo) (k : Nat) : Prop :=
  ∃ (i : Nat) (t : Thread PC) (pc : PC), c.threads[i]? = some t ∧ t.pc = some pc ∧ isCheck k pc = true

/-- a sender with counted messages is active or about to be (re)checked -/
def ActInv (c : Cfg Fair.algo) : Prop :=
  ∀ k, (c.sh.boxes k).pending > 0 → (c.sh.boxes k).active = true ∨ someoneChecks c k

/-- reachable without a `guardMiss` step -/
inductive ReachNM (c0 : Cfg Fair.algo) : Cfg Fair.algo → Prop where
  | init : ReachNM c0 c0
  | step {c : Cfg Fair.algo} (tid : Nat) : ReachNM c0 c →
      (∀ (t : Thread PC) (pc : PC), c.threads[tid]? = some t → t.pc = some pc → guardMiss c.sh pc = false) →
      ReachNM c0 (stepCfg c tid)

theorem ReachNM.reach {c0 c : Cfg Fair.algo} (h : ReachNM c0 c) : Reach Fair.algo c0 c := by
  induction h with
  | init => exact Reach.init
  | step tid _ _ ih => exact Reach.step tid ih

theorem actInv_step (c : Cfg Fair.algo) (tid : Nat) (h : ActInv c)
    (hg : ∀ (t : Thread PC) (pc : PC), c.threads[tid]? = some t → t.pc = some pc → guardMiss c.sh pc = false) :
    ActInv (stepCfg c tid) := by
  unfold stepCfg
  split
  · exact h
  · next t ht =>
    split
    · exact h
    · next pc hpc =>
      have hlen : tid < c.threads.length := by
        rcases Nat.lt_or_ge tid c.threads.length with h' | h'
        · exact h'
        · rw [List.getElem?_eq_none h'] at ht; cases ht
      intro k hp
      rcases exec_outcome c.sh pc k (hg t pc ht hpc) hp with ha | ⟨pc', hnx, hck⟩ | ⟨hp0, hact, hnc⟩
      · exact Or.inl ha
      · refine Or.inr ⟨tid, t.advance Fair.algo c.clock (Fair.algo.exec c.sh pc).2, pc', ?_, ?_, hck⟩
        · simp [hlen]
        · have : (Fair.algo.exec c.sh pc).2 = .goto pc' := hnx
          rw [this]; rfl
      · rcases h k hp0 with ha | ⟨i, ti, pci, hi, hpci, hck⟩
        · exact Or.inl (hact ha)
        · have hne : i ≠ tid := by
            intro e; subst e
            rw [ht] at hi; injection hi with hi; subst hi
            rw [hpc] at hpci; injection hpci with hpci; subst hpci
            rw [hnc] at hck; cases hck
          refine Or.inr ⟨i, ti, pci, ?_, hpci, hck⟩
          show (c.threads.set tid _)[i]? = some ti
          rw [List.getElem?_set_ne (Ne.symm hne)]; exact hi

theorem actInv_init (progs : List (List Op)) : ActInv (initCfg Fair.algo Fair.init progs) := by
  intro k hp
  exfalso
  have : ((initCfg Fair.algo Fair.init progs).sh.boxes k).pending = 0 := rfl
  omega

theorem actInv_reach (progs : List (List Op)) (c : Cfg Fair.algo)
    (h : ReachNM (initCfg Fair.algo Fair.init progs) c) : ActInv c := by
  induction h with
  | init => exact actInv_init progs
  | step tid _ hg ih => exact actInv_step _ tid ih hg

/-- when every thread has finished, nobody is parked anywhere -/
theorem quiescent_no_check (c : Cfg Fair.algo) (hd : (c.threads.all fun t => t.pc.isNone) = true) (k : Nat) :
    ¬ someoneChecks c k := by
  rintro ⟨i, t, pc, hi, hpc, _⟩
  have hm : t ∈ c.threads := List.mem_of_getElem? hi
  have := (List.all_eq_true.mp hd) t hm
  rw [hpc] at this
  cases this

/-! ### the sub-queues -/

/-- the UnboundedMailbox of sender `k` changes only by UnboundedMailbox steps taken on behalf of `k` -/
theorem subqueue_frame (s : Sh) (pc : PC) (k : Nat) :
    ((exec s pc).1.boxes k).mb = (s.boxes k).mb ∨
    ∃ first upc, pc = .ub k first upc ∧ ((exec s pc).1.boxes k).mb = (Unbounded.exec (s.boxes k).mb upc).1 := by
  cases pc with
  | ub k' first upc =>
    have hs : (exec s (.ub k' first upc)).1 = s.updBox k' (fun b => b.ubStep upc) := by
      simp only [exec]
      split <;> rfl
    by_cases hk : k = k'
    · subst hk
      exact Or.inr ⟨first, upc, rfl, by rw [hs, updBox_same]; rfl⟩
    · exact Or.inl (by rw [hs, updBox_ne _ _ _ _ hk])
  | f4 k' v => exact Or.inl rfl
  | f5 k' v =>
    left
    by_cases hk : k = k'
    · subst hk; simp only [exec, updBox_same]
    · simp only [exec, updBox_ne _ _ _ _ hk]
  | f6 k' =>
    left
    simp only [exec]
    split
    · rw [activate_boxes]
      by_cases hk : k = k'
      · subst hk; rw [updBox_same]
      · rw [updBox_ne _ _ _ _ hk]
    · rfl
  | a1 k' n r => exact Or.inl rfl
  | a2 k' n r => exact Or.inl rfl
  | a3 k' n r => exact Or.inl rfl
  | a4 n prev r => exact Or.inl rfl
  | g1 => exact Or.inl rfl
  | g2 hd => left; simp only [exec]; split <;> rfl
  | g3 hd nx => exact Or.inl rfl
  | g4 hd nx => exact Or.inl rfl
  | g5 hd v => exact Or.inl rfl
  | g6 hd v => left; simp only [exec]; split <;> simp [poolPut_boxes, Sh.setAVal]
  | i1 k' =>
    left
    by_cases hk : k = k'
    · subst hk; simp only [exec, updBox_same]
    · simp only [exec, updBox_ne _ _ _ _ hk]
  | i2 k' => exact Or.inl rfl
  | i3 k' => exact Or.inl rfl
  | i4 k' =>
    left
    simp only [exec]
    split
    · rw [activate_boxes]
      by_cases hk : k = k'
      · subst hk; rw [updBox_same]
      · rw [updBox_ne _ _ _ _ hk]
    · rfl
  | j1 k' n => exact Or.inl rfl
  | j2 k' n =>
    left
    have hu : ∀ f : Box → Box, (∀ b, (f b).mb = b.mb) → ((s.updBox k' f).boxes k).mb = (s.boxes k).mb := by
      intro f hf
      by_cases hk : k = k'
      · subst hk; rw [updBox_same, hf]
      · rw [updBox_ne _ _ _ _ hk]
    simp only [exec]
    split
    · rw [activate_boxes]; apply hu; intro b; rfl
    · split <;> exact hu (fun b => { b with pending := (s.boxes k').pending - 1, decd := b.decd + 1, held := b.held - 1 }) (fun _ => rfl)
  | j3 k' n =>
    left
    by_cases hk : k = k'
    · subst hk; simp only [exec, updBox_same]
    · simp only [exec, updBox_ne _ _ _ _ hk]
  | j4 k' n =>
    left
    by_cases hk : k = k'
    · subst hk; simp only [exec, updBox_same]
    · simp only [exec, updBox_ne _ _ _ _ hk]
  | j5 k' n => exact Or.inl rfl
  | j6 k' n =>
    left
    simp only [exec]
    split
    · rw [activate_boxes]
      by_cases hk : k = k'
      · subst hk; rw [updBox_same]
      · rw [updBox_ne _ _ _ _ hk]
    · rfl
  | l1 e => exact Or.inl rfl

end GoaktVerif.C04.FairInv

/-
C04 — UnboundedFairMailbox (repaired): no message is consumed before it is counted.

Per sender `k` the ghost fields of the model record the messages in the order the sub-queue's
`Swap:tail` reserved them (`resvL`), the messages in the order `Add:pending(+1)` counted them
(`cntL`), the number of successful sub-dequeues (`deqd`) and of `Add:pending(−1)` (`decd`).
`BoxInv`: the sub-queue's head is the `deqd`-th node of `0 :: resvL` (so `deqd ≤ |resvL|`), every
link points to the successor in that list, the list has no repetition, everything reserved has been
counted (`Enqueue` counts before it publishes — commit 762e7d2), and `pending = |cntL| − decd`.
With the consumer's own `deqd = decd + 1` between its sub-dequeue and its decrement this gives
`pending ≥ 1` at the decrement: finalizeSender's `remaining < 0` branch is unreachable.
Owicki–Gries (`reach_og2`): `BoxInv` on every box, `TJ` on every thread, disjoint fresh ids pairwise.
-/
import GoaktVerif.Lemmas.C04.FairCount
import GoaktVerif.Lemmas.C04.UBInit

namespace GoaktVerif.C04.FairInv
open GoaktVerif.Model.C04 GoaktVerif.Model.C04.Fair

/-! ### lists -/

theorem nodup_subset_length : ∀ (l1 l2 : List Nat), l1.Nodup → (∀ x ∈ l1, x ∈ l2) → l1.length ≤ l2.length
  | [], _, _, _ => Nat.zero_le _
  | a :: l1, l2, hnd, hsub => by
    have ha : a ∈ l2 := hsub a (by simp)
    have hnd' := List.nodup_cons.mp hnd
    have ih := nodup_subset_length l1 (l2.erase a) hnd'.2 (fun x hx => by
      have hne : x ≠ a := fun e => hnd'.1 (e ▸ hx)
      exact (List.mem_erase_of_ne hne).mpr (hsub x (List.mem_cons_of_mem _ hx)))
    have hl := List.length_erase_of_mem ha
    have hpos : 0 < l2.length := List.length_pos_of_mem ha
    simp only [List.length_cons]
    omega

theorem getElem?_lt {l : List Nat} {i x : Nat} (h : l[i]? = some x) : i < l.length := by
  rcases Nat.lt_or_ge i l.length with h' | h'
  · exact h'
  · rw [List.getElem?_eq_none h'] at h; cases h

theorem getElem?_append_some {l : List Nat} (l' : List Nat) {i x : Nat} (h : l[i]? = some x) :
    (l ++ l')[i]? = some x := by
  rw [List.getElem?_append_left (getElem?_lt h)]; exact h

theorem nodup_index_inj : ∀ (l : List Nat) (i j x : Nat), l.Nodup → l[i]? = some x → l[j]? = some x → i = j
  | [], i, _, _, _, h, _ => by simp at h
  | a :: l, 0, 0, _, _, _, _ => rfl
  | a :: l, 0, j + 1, x, hnd, hi, hj => by
    simp only [List.getElem?_cons_zero, Option.some.injEq] at hi
    simp only [List.getElem?_cons_succ] at hj
    subst hi
    exact absurd (List.mem_of_getElem? hj) (List.nodup_cons.mp hnd).1
  | a :: l, i + 1, 0, x, hnd, hi, hj => by
    simp only [List.getElem?_cons_zero, Option.some.injEq] at hj
    simp only [List.getElem?_cons_succ] at hi
    subst hj
    exact absurd (List.mem_of_getElem? hi) (List.nodup_cons.mp hnd).1
  | a :: l, i + 1, j + 1, x, hnd, hi, hj => by
    simp only [List.getElem?_cons_succ] at hi hj
    rw [nodup_index_inj l i j x (List.nodup_cons.mp hnd).2 hi hj]

/-! ### one sub-queue -/

/-- the nodes of the sub-queue in reservation order, the initial stub first -/
def chainL (b : Box) : List Nat := 0 :: b.resvL

structure BoxInv (b : Box) : Prop where
  head : (chainL b)[b.deqd]? = some b.mb.head
  link : ∀ (x y : Nat), b.mb.next x = some y → ∃ i : Nat, (chainL b)[i]? = some x ∧ b.resvL[i]? = some y
  nodup : (chainL b).Nodup
  tail : (chainL b)[b.resvL.length]? = some b.mb.tail
  sub : ∀ v ∈ b.resvL, v ∈ b.cntL
  pend : b.pending = (b.cntL.length : Int) - (b.decd : Int)
  cons : b.deqd = b.decd + b.held

theorem BoxInv.deqd_le {b : Box} (h : BoxInv b) : b.deqd ≤ b.resvL.length := by
  have := getElem?_lt h.head
  simp only [chainL, List.length_cons] at this
  omega

theorem BoxInv.resv_le {b : Box} (h : BoxInv b) : b.resvL.length ≤ b.cntL.length :=
  nodup_subset_length _ _ (List.nodup_cons.mp h.nodup).2 h.sub

/-- what a thread parked inside the sub-queue knows -/
def boxJ (b : Box) : Unbounded.PC → Prop
  | .enq1 v => v ≠ 0 ∧ v ∉ b.resvL ∧ v ∈ b.cntL
  | .enq2 v => v ≠ 0 ∧ v ∉ b.resvL ∧ v ∈ b.cntL
  | .enq3 v prev => ∃ i : Nat, (chainL b)[i]? = some prev ∧ b.resvL[i]? = some v
  | .deq2 h => h = b.mb.head
  | .deq3 h n => h = b.mb.head ∧ b.resvL[b.deqd]? = some n
  | .deq4 _ _ => 1 ≤ b.held
  | _ => True

theorem box_step (b : Box) (upc : Unbounded.PC) (hI : BoxInv b) (hJ : boxJ b upc) :
    BoxInv (b.ubStep upc) ∧ ∀ upc', (Unbounded.exec b.mb upc).2 = .goto upc' → boxJ (b.ubStep upc) upc' := by
  cases upc with
  | enq1 v =>
    refine ⟨⟨hI.head, ?_, hI.nodup, hI.tail, hI.sub, hI.pend, hI.cons⟩, ?_⟩
    · intro x y hxy
      have : b.mb.next x = some y := by
        simp only [Box.ubStep, Unbounded.exec, Unbounded.Sh.setNext] at hxy
        split at hxy
        · cases hxy
        · exact hxy
      exact hI.link x y this
    · intro upc' hx
      simp only [Unbounded.exec] at hx; injection hx with hx; subst hx
      exact hJ
  | enq2 v =>
    obtain ⟨h0, hnr, hc⟩ := hJ
    have hch : chainL (b.ubStep (.enq2 v)) = chainL b ++ [v] := rfl
    have hrl : (b.ubStep (.enq2 v)).resvL = b.resvL ++ [v] := rfl
    refine ⟨⟨?_, ?_, ?_, ?_, ?_, hI.pend, hI.cons⟩, ?_⟩
    · rw [hch]; exact getElem?_append_some _ hI.head
    · intro x y hxy
      obtain ⟨i, h1, h2⟩ := hI.link x y hxy
      exact ⟨i, by rw [hch]; exact getElem?_append_some _ h1, by rw [hrl]; exact getElem?_append_some _ h2⟩
    · rw [hch]
      have hv : v ∉ chainL b := by
        simp only [chainL, List.mem_cons, not_or]; exact ⟨h0, hnr⟩
      rw [List.nodup_append]
      refine ⟨hI.nodup, by simp, ?_⟩
      intro a ha c hc' e
      simp only [List.mem_singleton] at hc'
      subst hc'; subst e
      exact hv ha
    · rw [hch, hrl]
      have : (b.resvL ++ [v]).length = (chainL b).length := by simp [chainL]
      rw [this]
      simp
      rfl
    · intro w hw
      rw [hrl] at hw
      rcases List.mem_append.mp hw with hw | hw
      · exact hI.sub w hw
      · simp only [List.mem_singleton] at hw; subst hw; exact hc
    · intro upc' hx
      simp only [Unbounded.exec] at hx; injection hx with hx; subst hx
      refine ⟨b.resvL.length, ?_, ?_⟩
      · rw [hch]; exact getElem?_append_some _ hI.tail
      · rw [hrl]; simp
  | enq3 v prev =>
    refine ⟨⟨hI.head, ?_, hI.nodup, hI.tail, hI.sub, hI.pend, hI.cons⟩, ?_⟩
    · intro x y hxy
      simp only [Box.ubStep, Unbounded.exec, Unbounded.Sh.setNext] at hxy
      split at hxy
      · next e =>
        injection hxy with hxy
        subst e; subst hxy
        exact hJ
      · exact hI.link x y hxy
    · intro upc' hx
      simp only [Unbounded.exec] at hx; cases hx
  | deq1 =>
    refine ⟨⟨hI.head, hI.link, hI.nodup, hI.tail, hI.sub, hI.pend, hI.cons⟩, ?_⟩
    intro upc' hx
    simp only [Unbounded.exec] at hx; injection hx with hx; subst hx
    rfl
  | deq2 h =>
    have hmb : (b.ubStep (.deq2 h)).mb = b.mb := by
      simp only [Box.ubStep, Unbounded.exec]
      split <;> rfl
    have hsame : BoxInv (b.ubStep (.deq2 h)) :=
      ⟨by rw [hmb]; exact hI.head, by rw [hmb]; exact hI.link, hI.nodup, by rw [hmb]; exact hI.tail, hI.sub, hI.pend, hI.cons⟩
    refine ⟨hsame, ?_⟩
    intro upc' hx
    simp only [Unbounded.exec] at hx
    split at hx
    · cases hx
    · next n hn =>
      injection hx with hx; subst hx
      have hh : h = b.mb.head := hJ
      obtain ⟨i, h1, h2⟩ := hI.link h n hn
      have : i = b.deqd := nodup_index_inj _ i b.deqd h hI.nodup h1 (by rw [hh]; exact hI.head)
      subst this
      exact ⟨by rw [hmb]; exact hh, h2⟩
  | deq3 h n =>
    obtain ⟨hh, hn⟩ := hJ
    refine ⟨⟨?_, hI.link, hI.nodup, hI.tail, hI.sub, hI.pend, ?_⟩, ?_⟩
    · show (0 :: b.resvL)[b.deqd + 1]? = some n
      rw [List.getElem?_cons_succ]; exact hn
    · show b.deqd + 1 = b.decd + (b.held + 1)
      have := hI.cons; omega
    · intro upc' hx
      simp only [Unbounded.exec] at hx; injection hx with hx; subst hx
      show 1 ≤ b.held + 1
      omega
  | deq4 h n =>
    refine ⟨⟨hI.head, ?_, hI.nodup, hI.tail, hI.sub, hI.pend, hI.cons⟩, ?_⟩
    · intro x y hxy
      have : b.mb.next x = some y := by
        simp only [Box.ubStep, Unbounded.exec, Unbounded.Sh.setNext] at hxy
        split at hxy
        · cases hxy
        · exact hxy
      exact hI.link x y this
    · intro upc' hx
      simp only [Unbounded.exec] at hx; cases hx
  | emp1 =>
    refine ⟨⟨hI.head, hI.link, hI.nodup, hI.tail, hI.sub, hI.pend, hI.cons⟩, ?_⟩
    intro upc' hx
    simp only [Unbounded.exec] at hx; injection hx with hx; subst hx
    trivial
  | emp2 h =>
    refine ⟨⟨hI.head, hI.link, hI.nodup, hI.tail, hI.sub, hI.pend, hI.cons⟩, ?_⟩
    intro upc' hx
    simp only [Unbounded.exec] at hx; cases hx
  | len1 =>
    refine ⟨⟨hI.head, hI.link, hI.nodup, hI.tail, hI.sub, hI.pend, hI.cons⟩, ?_⟩
    intro upc' hx
    simp only [Unbounded.exec] at hx; injection hx with hx; subst hx
    trivial
  | len2 h =>
    have hmb : (b.ubStep (.len2 h)).mb = b.mb := by
      simp only [Box.ubStep, Unbounded.exec]
      split <;> rfl
    refine ⟨⟨by rw [hmb]; exact hI.head, by rw [hmb]; exact hI.link, hI.nodup, by rw [hmb]; exact hI.tail, hI.sub, hI.pend, hI.cons⟩, ?_⟩
    intro upc' hx
    simp only [Unbounded.exec] at hx
    split at hx
    · cases hx
    · injection hx with hx; subst hx; trivial
  | len3 cur cnt =>
    have hmb : (b.ubStep (.len3 cur cnt)).mb = b.mb := by
      simp only [Box.ubStep, Unbounded.exec]
      split <;> rfl
    refine ⟨⟨by rw [hmb]; exact hI.head, by rw [hmb]; exact hI.link, hI.nodup, by rw [hmb]; exact hI.tail, hI.sub, hI.pend, hI.cons⟩, ?_⟩
    intro upc' hx
    simp only [Unbounded.exec] at hx
    split at hx
    · cases hx
    · injection hx with hx; subst hx; trivial

/-! ### effect of one step of the fair mailbox on the box of sender `k` -/

/-- the fields the invariants read agree -/
structure Same (b' b : Box) : Prop where
  mb : b'.mb = b.mb
  resvL : b'.resvL = b.resvL
  cntL : b'.cntL = b.cntL
  deqd : b'.deqd = b.deqd
  decd : b'.decd = b.decd
  pending : b'.pending = b.pending
  held : b'.held = b.held

theorem Same.rfl' (b : Box) : Same b b := ⟨rfl, rfl, rfl, rfl, rfl, rfl, rfl⟩

theorem Same.of_eq {b' b : Box} (e : b' = b) : Same b' b := e ▸ Same.rfl' b

theorem BoxInv.of_same {b' b : Box} (h : Same b' b) (hI : BoxInv b) : BoxInv b' := by
  have e : chainL b' = chainL b := by simp only [chainL, h.resvL]
  refine ⟨?_, ?_, ?_, ?_, ?_, ?_, ?_⟩
  · rw [e, h.deqd, h.mb]; exact hI.head
  · intro x y hxy
    rw [h.mb] at hxy
    rw [e, h.resvL]; exact hI.link x y hxy
  · rw [e]; exact hI.nodup
  · rw [e, h.resvL, h.mb]; exact hI.tail
  · rw [h.resvL, h.cntL]; exact hI.sub
  · rw [h.pending, h.cntL, h.decd]; exact hI.pend
  · rw [h.deqd, h.decd, h.held]; exact hI.cons

/-- `Add:pending(+1)` of message `v` -/
structure EffCnt (b' b : Box) (v : Nat) : Prop where
  mb : b'.mb = b.mb
  resvL : b'.resvL = b.resvL
  cntL : b'.cntL = b.cntL ++ [v]
  deqd : b'.deqd = b.deqd
  decd : b'.decd = b.decd
  pending : b'.pending = b.pending + 1
  held : b'.held = b.held

/-- `Add:pending(−1)` -/
structure EffDec (b' b : Box) : Prop where
  mb : b'.mb = b.mb
  resvL : b'.resvL = b.resvL
  cntL : b'.cntL = b.cntL
  deqd : b'.deqd = b.deqd
  decd : b'.decd = b.decd + 1
  pending : b'.pending = b.pending - 1
  held : b'.held = b.held - 1

theorem BoxInv.of_cnt {b' b : Box} {v : Nat} (h : EffCnt b' b v) (hI : BoxInv b) : BoxInv b' := by
  have e : chainL b' = chainL b := by simp only [chainL, h.resvL]
  refine ⟨?_, ?_, ?_, ?_, ?_, ?_, ?_⟩
  · rw [e, h.deqd, h.mb]; exact hI.head
  · intro x y hxy
    rw [h.mb] at hxy
    rw [e, h.resvL]; exact hI.link x y hxy
  · rw [e]; exact hI.nodup
  · rw [e, h.resvL, h.mb]; exact hI.tail
  · rw [h.resvL, h.cntL]; intro w hw; exact List.mem_append_left _ (hI.sub w hw)
  · rw [h.pending, h.cntL, h.decd, hI.pend]; simp only [List.length_append, List.length_singleton]; omega
  · rw [h.deqd, h.decd, h.held]; exact hI.cons

theorem BoxInv.of_dec {b' b : Box} (h : EffDec b' b) (hI : BoxInv b) (hh : 1 ≤ b.held) : BoxInv b' := by
  have e : chainL b' = chainL b := by simp only [chainL, h.resvL]
  refine ⟨?_, ?_, ?_, ?_, ?_, ?_, ?_⟩
  · rw [e, h.deqd, h.mb]; exact hI.head
  · intro x y hxy
    rw [h.mb] at hxy
    rw [e, h.resvL]; exact hI.link x y hxy
  · rw [e]; exact hI.nodup
  · rw [e, h.resvL, h.mb]; exact hI.tail
  · rw [h.resvL, h.cntL]; exact hI.sub
  · rw [h.pending, h.cntL, h.decd, hI.pend]; omega
  · rw [h.deqd, h.decd, h.held]; have := hI.cons; omega

theorem same_updBox (s : Sh) (k' : Nat) (f : Box → Box) (k : Nat) (hf : ∀ b, Same (f b) b) :
    Same ((s.updBox k' f).boxes k) (s.boxes k) := by
  by_cases hk : k = k'
  · subst hk; rw [updBox_same]; exact hf _
  · rw [updBox_ne _ _ _ _ hk]; exact Same.rfl' _

theorem same_activate (s s0 : Sh) (k' : Nat) (r : Res) (k : Nat) (h : Same (s.boxes k) (s0.boxes k)) :
    Same ((activate s k' r).1.boxes k) (s0.boxes k) := by
  rw [activate_boxes]; exact h

/-- finalizeSender's reset `Store:pending(0)` -/
structure EffReset (b' b : Box) : Prop where
  mb : b'.mb = b.mb
  resvL : b'.resvL = b.resvL
  cntL : b'.cntL = b.cntL
  deqd : b'.deqd = b.deqd
  decd : b'.decd = b.decd
  held : b'.held = b.held

/-- what a step does to the box of sender `k` -/
theorem exec_eff (s : Sh) (pc : PC) (k : Nat) :
    (∃ first upc, pc = .ub k first upc ∧ (exec s pc).1.boxes k = (s.boxes k).ubStep upc) ∨
    (∃ v, pc = .f5 k v ∧ EffCnt ((exec s pc).1.boxes k) (s.boxes k) v) ∨
    (∃ n, pc = .j2 k n ∧ EffDec ((exec s pc).1.boxes k) (s.boxes k)) ∨
    (∃ n, pc = .j3 k n ∧ EffReset ((exec s pc).1.boxes k) (s.boxes k)) ∨
    Same ((exec s pc).1.boxes k) (s.boxes k) := by
  cases pc with
  | ub k' first upc =>
    have hs : (exec s (.ub k' first upc)).1 = s.updBox k' (fun b => b.ubStep upc) := by
      simp only [exec]
      split <;> rfl
    by_cases hk : k = k'
    · subst hk
      exact Or.inl ⟨first, upc, rfl, by rw [hs, updBox_same]⟩
    · exact Or.inr (Or.inr (Or.inr (Or.inr (by rw [hs, updBox_ne _ _ _ _ hk]; exact Same.rfl' _))))
  | f5 k' v =>
    by_cases hk : k = k'
    · subst hk
      refine Or.inr (Or.inl ⟨v, rfl, ?_⟩)
      simp only [exec, updBox_same]
      exact ⟨rfl, rfl, rfl, rfl, rfl, rfl, rfl⟩
    · exact Or.inr (Or.inr (Or.inr (Or.inr (by simp only [exec, updBox_ne _ _ _ _ hk]; exact Same.rfl' _))))
  | j2 k' n =>
    have hbx : (exec s (.j2 k' n)).1.boxes =
        (s.updBox k' fun b => { b with pending := (s.boxes k').pending - 1, decd := b.decd + 1, held := b.held - 1 }).boxes := by
      simp only [exec]
      split
      · rw [activate_boxes]
      · split <;> rfl
    by_cases hk : k = k'
    · subst hk
      refine Or.inr (Or.inr (Or.inl ⟨n, rfl, ?_⟩))
      rw [hbx, updBox_same]
      exact ⟨rfl, rfl, rfl, rfl, rfl, rfl, rfl⟩
    · exact Or.inr (Or.inr (Or.inr (Or.inr (by rw [hbx, updBox_ne _ _ _ _ hk]; exact Same.rfl' _))))
  | j3 k' n =>
    by_cases hk : k = k'
    · subst hk
      refine Or.inr (Or.inr (Or.inr (Or.inl ⟨n, rfl, ?_⟩)))
      simp only [exec, updBox_same]
      exact ⟨rfl, rfl, rfl, rfl, rfl, rfl⟩
    · exact Or.inr (Or.inr (Or.inr (Or.inr (by simp only [exec, updBox_ne _ _ _ _ hk]; exact Same.rfl' _))))
  | f6 k' =>
    refine Or.inr (Or.inr (Or.inr (Or.inr ?_)))
    simp only [exec]
    split
    · exact same_activate _ s _ _ k (same_updBox s k' _ k (fun b => ⟨rfl, rfl, rfl, rfl, rfl, rfl, rfl⟩))
    · exact Same.rfl' _
  | i4 k' =>
    refine Or.inr (Or.inr (Or.inr (Or.inr ?_)))
    simp only [exec]
    split
    · exact same_activate _ s _ _ k (same_updBox s k' _ k (fun b => ⟨rfl, rfl, rfl, rfl, rfl, rfl, rfl⟩))
    · exact Same.rfl' _
  | j6 k' n =>
    refine Or.inr (Or.inr (Or.inr (Or.inr ?_)))
    simp only [exec]
    split
    · exact same_activate _ s _ _ k (same_updBox s k' _ k (fun b => ⟨rfl, rfl, rfl, rfl, rfl, rfl, rfl⟩))
    · exact Same.rfl' _
  | i1 k' =>
    refine Or.inr (Or.inr (Or.inr (Or.inr ?_)))
    simp only [exec]
    exact same_updBox s k' _ k (fun b => ⟨rfl, rfl, rfl, rfl, rfl, rfl, rfl⟩)
  | j4 k' n =>
    refine Or.inr (Or.inr (Or.inr (Or.inr ?_)))
    simp only [exec]
    exact same_updBox s k' _ k (fun b => ⟨rfl, rfl, rfl, rfl, rfl, rfl, rfl⟩)
  | g2 hd => refine Or.inr (Or.inr (Or.inr (Or.inr ?_))); simp only [exec]; split <;> exact Same.rfl' _
  | g6 hd v =>
    refine Or.inr (Or.inr (Or.inr (Or.inr ?_)))
    have : (exec s (.g6 hd v)).1.boxes = s.boxes := by
      simp only [exec]
      split <;> simp [poolPut_boxes, Sh.setAVal]
    rw [this]; exact Same.rfl' _
  | i3 k' => refine Or.inr (Or.inr (Or.inr (Or.inr ?_))); exact Same.rfl' _
  | f4 k' v => exact Or.inr (Or.inr (Or.inr (Or.inr (Same.rfl' _))))
  | a1 k' n r => exact Or.inr (Or.inr (Or.inr (Or.inr (Same.rfl' _))))
  | a2 k' n r => exact Or.inr (Or.inr (Or.inr (Or.inr (Same.rfl' _))))
  | a3 k' n r => exact Or.inr (Or.inr (Or.inr (Or.inr (Same.rfl' _))))
  | a4 n prev r => exact Or.inr (Or.inr (Or.inr (Or.inr (Same.rfl' _))))
  | g1 => exact Or.inr (Or.inr (Or.inr (Or.inr (Same.rfl' _))))
  | g3 hd nx => exact Or.inr (Or.inr (Or.inr (Or.inr (Same.rfl' _))))
  | g4 hd nx => exact Or.inr (Or.inr (Or.inr (Or.inr (Same.rfl' _))))
  | g5 hd v => exact Or.inr (Or.inr (Or.inr (Or.inr (Same.rfl' _))))
  | i2 k' => exact Or.inr (Or.inr (Or.inr (Or.inr (Same.rfl' _))))
  | j1 k' n => exact Or.inr (Or.inr (Or.inr (Or.inr (Same.rfl' _))))
  | j5 k' n => exact Or.inr (Or.inr (Or.inr (Or.inr (Same.rfl' _))))
  | l1 e => exact Or.inr (Or.inr (Or.inr (Or.inr (Same.rfl' _))))

theorem ubStep_resvL (b : Box) (upc : Unbounded.PC) :
    (b.ubStep upc).resvL = b.resvL ∨ ∃ w, upc = .enq2 w ∧ (b.ubStep upc).resvL = b.resvL ++ [w] := by
  cases upc with
  | enq2 w => exact Or.inr ⟨w, rfl, rfl⟩
  | _ => exact Or.inl rfl

/-- `resvL` only grows, and only by the message of the thread at `Swap:tail` -/
theorem exec_resvL (s : Sh) (pc : PC) (k : Nat) :
    ((exec s pc).1.boxes k).resvL = (s.boxes k).resvL ∨
    ∃ f w, pc = .ub k f (.enq2 w) ∧ ((exec s pc).1.boxes k).resvL = (s.boxes k).resvL ++ [w] := by
  rcases exec_eff s pc k with ⟨f, upc, h1, h2⟩ | ⟨v, _, h⟩ | ⟨n, _, h⟩ | ⟨n, _, h⟩ | h
  · rw [h2]
    rcases ubStep_resvL (s.boxes k) upc with e | ⟨w, e1, e2⟩
    · exact Or.inl e
    · subst e1; exact Or.inr ⟨f, w, h1, e2⟩
  · exact Or.inl h.resvL
  · exact Or.inl h.resvL
  · exact Or.inl h.resvL
  · exact Or.inl h.resvL

theorem exec_resv_stable (s : Sh) (pc : PC) (k i x : Nat) (h : (s.boxes k).resvL[i]? = some x) :
    ((exec s pc).1.boxes k).resvL[i]? = some x := by
  rcases exec_resvL s pc k with e | ⟨_, w, _, e⟩
  · rw [e]; exact h
  · rw [e]; exact getElem?_append_some _ h

theorem exec_chain_stable (s : Sh) (pc : PC) (k i x : Nat) (h : (chainL (s.boxes k))[i]? = some x) :
    (chainL ((exec s pc).1.boxes k))[i]? = some x := by
  rcases exec_resvL s pc k with e | ⟨_, w, _, e⟩
  · simp only [chainL, e]; exact h
  · simp only [chainL, e]
    exact getElem?_append_some (l := 0 :: (s.boxes k).resvL) [w] h

theorem exec_cntL_mono (s : Sh) (pc : PC) (k x : Nat) (h : x ∈ (s.boxes k).cntL) :
    x ∈ ((exec s pc).1.boxes k).cntL := by
  rcases exec_eff s pc k with ⟨f, upc, h1, h2⟩ | ⟨v, _, h'⟩ | ⟨n, _, h'⟩ | ⟨n, _, h'⟩ | h'
  · rw [h2]; exact h
  · rw [h'.cntL]; exact List.mem_append_left _ h
  · rw [h'.cntL]; exact h
  · rw [h'.cntL]; exact h
  · rw [h'.cntL]; exact h

/-- a producer's step leaves the consumer's side of every sub-queue alone -/
theorem exec_prod_fields (s : Sh) (pc : PC) (k : Nat) (hp : prodPC pc = true) :
    ((exec s pc).1.boxes k).mb.head = (s.boxes k).mb.head ∧
    ((exec s pc).1.boxes k).deqd = (s.boxes k).deqd ∧ ((exec s pc).1.boxes k).held = (s.boxes k).held := by
  rcases exec_eff s pc k with ⟨f, upc, h1, h2⟩ | ⟨v, _, h⟩ | ⟨n, h1, _⟩ | ⟨n, h1, _⟩ | h
  · subst h1
    rw [h2]
    cases upc with
    | enq1 v => exact ⟨rfl, rfl, rfl⟩
    | enq2 v => exact ⟨rfl, rfl, rfl⟩
    | enq3 v prev => exact ⟨rfl, rfl, rfl⟩
    | _ => simp [prodPC] at hp
  · exact ⟨by rw [h.mb], h.deqd, h.held⟩
  · subst h1; simp [prodPC] at hp
  · subst h1; simp [prodPC] at hp
  · exact ⟨by rw [h.mb], h.deqd, h.held⟩

/-! ### fresh message ids of a thread -/

/-- the message the thread is about to put into a sub-queue (not yet reserved there) -/
def pcFresh : Option PC → List Nat
  | some (.f4 _ v) => [v]
  | some (.f5 _ v) => [v]
  | some (.ub _ _ (.enq1 v)) => [v]
  | some (.ub _ _ (.enq2 v)) => [v]
  | _ => []

def fresh (t : Th) : List Nat := pcFresh t.pc ++ enqIds t.prog

theorem pcFresh_start (op : Op) (rest : List Op) : pcFresh (some (start op)) ++ enqIds rest = enqIds (op :: rest) := by
  cases op <;> simp [start, pcFresh, enqIds]

theorem fresh_finish (t : Th) (r : Res) (now : Nat) : fresh (t.finish Fair.algo r now) = enqIds t.prog := by
  unfold Thread.finish fresh
  cases hp : t.prog with
  | nil => simp [pcFresh, enqIds]
  | cons op rest => exact pcFresh_start op rest

theorem fresh_mk (p : List Op) (n : Nat) : fresh (mkThread Fair.algo p n) = enqIds p := by
  unfold mkThread fresh
  cases p with
  | nil => simp [pcFresh, enqIds]
  | cons op rest => exact pcFresh_start op rest

/-- the same inside the sub-queue -/
def ufresh : Unbounded.PC → List Nat
  | .enq1 v => [v]
  | .enq2 v => [v]
  | _ => []

theorem pcFresh_ub (k : Nat) (f : Bool) (upc : Unbounded.PC) : pcFresh (some (.ub k f upc)) = ufresh upc := by
  cases upc <;> rfl

theorem ub_goto_fresh (mb : Unbounded.Sh) (upc upc' : Unbounded.PC) (h : (Unbounded.exec mb upc).2 = .goto upc') :
    (∃ w, upc = .enq2 w ∧ ∃ p, upc' = .enq3 w p) ∨ (ufresh upc' = ufresh upc ∧ ∀ w, upc ≠ .enq2 w) := by
  cases upc with
  | enq1 v => simp only [Unbounded.exec] at h; injection h with h; subst h; exact Or.inr ⟨rfl, fun _ e => (by cases e)⟩
  | enq2 v => simp only [Unbounded.exec] at h; injection h with h; subst h; exact Or.inl ⟨v, rfl, _, rfl⟩
  | enq3 v prev => simp only [Unbounded.exec] at h; cases h
  | deq1 => simp only [Unbounded.exec] at h; injection h with h; subst h; exact Or.inr ⟨rfl, fun _ e => (by cases e)⟩
  | deq2 hd =>
    simp only [Unbounded.exec] at h
    split at h
    · cases h
    · injection h with h; subst h; exact Or.inr ⟨rfl, fun _ e => (by cases e)⟩
  | deq3 hd n => simp only [Unbounded.exec] at h; injection h with h; subst h; exact Or.inr ⟨rfl, fun _ e => (by cases e)⟩
  | deq4 hd n => simp only [Unbounded.exec] at h; cases h
  | emp1 => simp only [Unbounded.exec] at h; injection h with h; subst h; exact Or.inr ⟨rfl, fun _ e => (by cases e)⟩
  | emp2 hd => simp only [Unbounded.exec] at h; cases h
  | len1 => simp only [Unbounded.exec] at h; injection h with h; subst h; exact Or.inr ⟨rfl, fun _ e => (by cases e)⟩
  | len2 hd =>
    simp only [Unbounded.exec] at h
    split at h
    · cases h
    · injection h with h; subst h; exact Or.inr ⟨rfl, fun _ e => (by cases e)⟩
  | len3 cur cnt =>
    simp only [Unbounded.exec] at h
    split at h
    · cases h
    · injection h with h; subst h; exact Or.inr ⟨rfl, fun _ e => (by cases e)⟩

theorem ub_ret_fresh (mb : Unbounded.Sh) (upc : Unbounded.PC) (r : Res) (h : (Unbounded.exec mb upc).2 = .ret r) :
    ufresh upc = [] ∧ ∀ w, upc ≠ .enq2 w := by
  cases upc with
  | enq1 v => simp only [Unbounded.exec] at h; cases h
  | enq2 v => simp only [Unbounded.exec] at h; cases h
  | _ => exact ⟨rfl, fun _ e => (by cases e)⟩

/-- along a `goto` the fresh message stays, except at `Swap:tail`, where it becomes reserved -/
theorem pcFresh_goto (s : Sh) (pc pc' : PC) (hx : (exec s pc).2 = .goto pc') :
    (∃ k f w, pc = .ub k f (.enq2 w) ∧ pcFresh (some pc') = []) ∨
    ((∀ k f w, pc ≠ .ub k f (.enq2 w)) ∧ pcFresh (some pc') = pcFresh (some pc)) := by
  cases pc with
  | ub k f upc =>
    simp only [exec] at hx
    split at hx
    · next upc' heq =>
      injection hx with hx; subst hx
      rcases ub_goto_fresh _ _ _ heq with ⟨w, e, p, e'⟩ | ⟨e, hne⟩
      · subst e; subst e'; exact Or.inl ⟨k, f, w, rfl, rfl⟩
      · refine Or.inr ⟨fun k' f' w h => ?_, ?_⟩
        · injection h with _ _ h3; exact hne w h3
        · rw [pcFresh_ub, pcFresh_ub, e]
    · next n heq =>
      injection hx with hx; subst hx
      have := ub_ret_fresh _ _ _ heq
      refine Or.inr ⟨fun k' f' w h => ?_, ?_⟩
      · injection h with _ _ h3; exact this.2 w h3
      · rw [pcFresh_ub, this.1]; rfl
    · next heq =>
      injection hx with hx; subst hx
      have := ub_ret_fresh _ _ _ heq
      refine Or.inr ⟨fun k' f' w h => ?_, ?_⟩
      · injection h with _ _ h3; exact this.2 w h3
      · rw [pcFresh_ub, this.1]; rfl
    · next r _ _ heq =>
      have := ub_ret_fresh _ _ _ heq
      split at hx
      · injection hx with hx; subst hx
        refine Or.inr ⟨fun k' f' w h => ?_, ?_⟩
        · injection h with _ _ h3; exact this.2 w h3
        · rw [pcFresh_ub, this.1]; rfl
      · cases hx
  | f4 k v => simp only [exec] at hx; injection hx with hx; subst hx; exact Or.inr ⟨fun _ _ _ h => (by cases h), rfl⟩
  | f5 k v => simp only [exec] at hx; injection hx with hx; subst hx; exact Or.inr ⟨fun _ _ _ h => (by cases h), rfl⟩
  | f6 k =>
    simp only [exec] at hx
    split at hx
    · simp only [activate] at hx; injection hx with hx; subst hx; exact Or.inr ⟨fun _ _ _ h => (by cases h), rfl⟩
    · cases hx
  | a1 k n r => simp only [exec] at hx; injection hx with hx; subst hx; exact Or.inr ⟨fun _ _ _ h => (by cases h), rfl⟩
  | a2 k n r => simp only [exec] at hx; injection hx with hx; subst hx; exact Or.inr ⟨fun _ _ _ h => (by cases h), rfl⟩
  | a3 k n r => simp only [exec] at hx; injection hx with hx; subst hx; exact Or.inr ⟨fun _ _ _ h => (by cases h), rfl⟩
  | a4 n prev r => simp only [exec] at hx; cases hx
  | g1 => simp only [exec] at hx; injection hx with hx; subst hx; exact Or.inr ⟨fun _ _ _ h => (by cases h), rfl⟩
  | g2 hd =>
    simp only [exec] at hx
    split at hx
    · cases hx
    · injection hx with hx; subst hx; exact Or.inr ⟨fun _ _ _ h => (by cases h), rfl⟩
  | g3 hd nx => simp only [exec] at hx; injection hx with hx; subst hx; exact Or.inr ⟨fun _ _ _ h => (by cases h), rfl⟩
  | g4 hd nx => simp only [exec] at hx; injection hx with hx; subst hx; exact Or.inr ⟨fun _ _ _ h => (by cases h), rfl⟩
  | g5 hd v => simp only [exec] at hx; injection hx with hx; subst hx; exact Or.inr ⟨fun _ _ _ h => (by cases h), rfl⟩
  | g6 hd v =>
    simp only [exec] at hx
    split at hx
    · cases hx
    · injection hx with hx; subst hx; exact Or.inr ⟨fun _ _ _ h => (by cases h), rfl⟩
  | i1 k => simp only [exec] at hx; injection hx with hx; subst hx; exact Or.inr ⟨fun _ _ _ h => (by cases h), rfl⟩
  | i2 k => simp only [exec] at hx; injection hx with hx; subst hx; exact Or.inr ⟨fun _ _ _ h => (by cases h), rfl⟩
  | i3 k =>
    simp only [exec] at hx
    split at hx <;> (injection hx with hx; subst hx; exact Or.inr ⟨fun _ _ _ h => (by cases h), rfl⟩)
  | i4 k =>
    simp only [exec] at hx
    split at hx
    · simp only [activate] at hx; injection hx with hx; subst hx; exact Or.inr ⟨fun _ _ _ h => (by cases h), rfl⟩
    · cases hx
  | j1 k n => simp only [exec] at hx; injection hx with hx; subst hx; exact Or.inr ⟨fun _ _ _ h => (by cases h), rfl⟩
  | j2 k n =>
    simp only [exec] at hx
    split at hx
    · simp only [activate] at hx; injection hx with hx; subst hx; exact Or.inr ⟨fun _ _ _ h => (by cases h), rfl⟩
    · split at hx <;> (injection hx with hx; subst hx; exact Or.inr ⟨fun _ _ _ h => (by cases h), rfl⟩)
  | j3 k n => simp only [exec] at hx; injection hx with hx; subst hx; exact Or.inr ⟨fun _ _ _ h => (by cases h), rfl⟩
  | j4 k n => simp only [exec] at hx; injection hx with hx; subst hx; exact Or.inr ⟨fun _ _ _ h => (by cases h), rfl⟩
  | j5 k n => simp only [exec] at hx; injection hx with hx; subst hx; exact Or.inr ⟨fun _ _ _ h => (by cases h), rfl⟩
  | j6 k n =>
    simp only [exec] at hx
    split at hx
    · simp only [activate] at hx; injection hx with hx; subst hx; exact Or.inr ⟨fun _ _ _ h => (by cases h), rfl⟩
    · cases hx
  | l1 e => simp only [exec] at hx; cases hx


/-- a returning step is never `Swap:tail` and holds no fresh message -/
theorem pcFresh_ret (s : Sh) (pc : PC) (r : Res) (hx : (exec s pc).2 = .ret r) :
    pcFresh (some pc) = [] ∧ ∀ k f w, pc ≠ .ub k f (.enq2 w) := by
  cases pc with
  | ub k f upc =>
    simp only [exec] at hx
    split at hx
    · cases hx
    · cases hx
    · cases hx
    · next r' _ _ heq =>
      have := ub_ret_fresh _ _ _ heq
      exact ⟨by rw [pcFresh_ub, this.1], fun k' f' w h => (by injection h with _ _ h3; exact this.2 w h3)⟩
  | f4 k v => simp only [exec] at hx; cases hx
  | f5 k v => simp only [exec] at hx; cases hx
  | _ => exact ⟨rfl, fun _ _ _ h => (by cases h)⟩

theorem fresh_advance_other (s : Sh) (t : Th) (pc : PC) (now : Nat) (hpc : t.pc = some pc)
    (hne : ∀ k f w, pc ≠ .ub k f (.enq2 w)) : fresh (t.advance Fair.algo now (exec s pc).2) = fresh t := by
  cases hx : (exec s pc).2 with
  | goto pc' =>
    rcases pcFresh_goto s pc pc' hx with ⟨k, f, w, e, _⟩ | ⟨_, e⟩
    · exact absurd e (hne k f w)
    · show pcFresh (some pc') ++ enqIds t.prog = pcFresh t.pc ++ enqIds t.prog
      rw [e, hpc]
  | ret r =>
    show fresh (t.finish Fair.algo r now) = pcFresh t.pc ++ enqIds t.prog
    rw [fresh_finish, hpc, (pcFresh_ret s pc r hx).1]; rfl

theorem fresh_advance_enq2 (s : Sh) (t : Th) (k : Nat) (f : Bool) (w now : Nat) (hpc : t.pc = some (.ub k f (.enq2 w))) :
    fresh t = w :: fresh (t.advance Fair.algo now (exec s (.ub k f (.enq2 w))).2) := by
  show pcFresh t.pc ++ enqIds t.prog = w :: (pcFresh (some (.ub k f (.enq3 w (s.boxes k).mb.tail))) ++ enqIds t.prog)
  rw [hpc]; rfl

/-- in every case the fresh messages of the advanced thread are among the old ones -/
theorem fresh_advance_sub (s : Sh) (t : Th) (pc : PC) (now : Nat) (hpc : t.pc = some pc) :
    ∀ v ∈ fresh (t.advance Fair.algo now (exec s pc).2), v ∈ fresh t := by
  intro v hv
  by_cases h : ∃ k f w, pc = .ub k f (.enq2 w)
  · obtain ⟨k, f, w, e⟩ := h
    subst e
    rw [fresh_advance_enq2 s t k f w now hpc]
    exact List.mem_cons_of_mem _ hv
  · rw [fresh_advance_other s t pc now hpc (fun k f w e => h ⟨k, f, w, e⟩)] at hv
    exact hv

theorem fresh_advance_nodup (s : Sh) (t : Th) (pc : PC) (now : Nat) (hpc : t.pc = some pc) (h : (fresh t).Nodup) :
    (fresh (t.advance Fair.algo now (exec s pc).2)).Nodup := by
  by_cases h' : ∃ k f w, pc = .ub k f (.enq2 w)
  · obtain ⟨k, f, w, e⟩ := h'
    subst e
    rw [fresh_advance_enq2 s t k f w now hpc] at h
    exact (List.nodup_cons.mp h).2
  · rw [fresh_advance_other s t pc now hpc (fun k f w e => h' ⟨k, f, w, e⟩)]
    exact h

/-! ### what a parked thread knows (Owicki–Gries `J`) -/

def pcJ (s : Sh) : PC → Prop
  | .ub k _ (.enq1 v) => v ∈ (s.boxes k).cntL
  | .ub k _ (.enq2 v) => v ∈ (s.boxes k).cntL
  | .ub k _ (.enq3 v prev) => ∃ i : Nat, (chainL (s.boxes k))[i]? = some prev ∧ (s.boxes k).resvL[i]? = some v
  | .ub k _ (.deq2 h) => h = (s.boxes k).mb.head
  | .ub k _ (.deq3 h n) => h = (s.boxes k).mb.head ∧ (s.boxes k).resvL[(s.boxes k).deqd]? = some n
  | .ub k _ (.deq4 _ _) => 1 ≤ (s.boxes k).held
  | .j1 k _ => 1 ≤ (s.boxes k).held
  | .j2 k _ => 1 ≤ (s.boxes k).held
  | .j3 _ _ => False
  | _ => True

/-- sites at which `pcJ` says nothing -/
def plain : PC → Bool
  | .ub _ _ (.enq1 _) => false
  | .ub _ _ (.enq2 _) => false
  | .ub _ _ (.enq3 _ _) => false
  | .ub _ _ (.deq2 _) => false
  | .ub _ _ (.deq3 _ _) => false
  | .ub _ _ (.deq4 _ _) => false
  | .j1 _ _ => false
  | .j2 _ _ => false
  | .j3 _ _ => false
  | _ => true

theorem pcJ_plain (s : Sh) (pc : PC) (h : plain pc = true) : pcJ s pc := by
  cases pc with
  | ub k f upc => cases upc <;> first | trivial | (simp [plain] at h)
  | j1 k n => simp [plain] at h
  | j2 k n => simp [plain] at h
  | j3 k n => simp [plain] at h
  | _ => trivial

theorem pcJ_of_boxJ (s : Sh) (k : Nat) (f : Bool) (upc : Unbounded.PC) (h : boxJ (s.boxes k) upc) : pcJ s (.ub k f upc) := by
  cases upc with
  | enq1 v => exact h.2.2
  | enq2 v => exact h.2.2
  | enq3 v prev => exact h
  | deq2 hd => exact h
  | deq3 hd n => exact h
  | deq4 hd n => exact h
  | _ => trivial

structure TJ (ct i : Nat) (s : Sh) (t : Th) : Prop where
  nd : (fresh t).Nodup
  fr : ∀ v ∈ fresh t, v ≠ 0 ∧ ∀ k, v ∉ (s.boxes k).resvL
  pcj : ∀ pc, t.pc = some pc → pcJ s pc
  prod : ProdT ct i t

/-- two threads never hold the same fresh message -/
def KD (ti tj : Th) : Prop := ∀ v ∈ fresh ti, v ∉ fresh tj

theorem boxJ_of_TJ {ct i : Nat} {s : Sh} {t : Th} (hJ : TJ ct i s t) (k : Nat) (f : Bool) (upc : Unbounded.PC)
    (hpc : t.pc = some (.ub k f upc)) : boxJ (s.boxes k) upc := by
  have hp := hJ.pcj _ hpc
  cases upc with
  | enq1 v =>
    have := hJ.fr v (by simp [fresh, hpc, pcFresh])
    exact ⟨this.1, this.2 k, hp⟩
  | enq2 v =>
    have := hJ.fr v (by simp [fresh, hpc, pcFresh])
    exact ⟨this.1, this.2 k, hp⟩
  | enq3 v prev => exact hp
  | deq2 hd => exact hp
  | deq3 hd n => exact hp
  | deq4 hd n => exact hp
  | _ => trivial

theorem pending_pos {b : Box} (hI : BoxInv b) (hc : 1 ≤ b.held) : 1 ≤ b.pending := by
  have h1 := hI.deqd_le
  have h2 := hI.resv_le
  have h3 := hI.pend
  have h4 := hI.cons
  omega

/-- the stepping thread keeps every sub-queue invariant -/
theorem step_P {ct i : Nat} {s : Sh} {t : Th} {pc : PC} (hP : ∀ k, BoxInv (s.boxes k)) (hJ : TJ ct i s t)
    (hpc : t.pc = some pc) : ∀ k, BoxInv ((exec s pc).1.boxes k) := by
  intro k
  rcases exec_eff s pc k with ⟨f, upc, h1, h2⟩ | ⟨v, _, h⟩ | ⟨n, h1, h⟩ | ⟨n, h1, _⟩ | h
  · subst h1
    rw [h2]
    exact (box_step _ upc (hP k) (boxJ_of_TJ hJ k f upc hpc)).1
  · exact (hP k).of_cnt h
  · subst h1; exact (hP k).of_dec h (hJ.pcj _ hpc)
  · subst h1; exact (hJ.pcj _ hpc).elim
  · exact (hP k).of_same h

theorem ub_ret_val (mb : Unbounded.Sh) (upc : Unbounded.PC) (n : Nat) (h : (Unbounded.exec mb upc).2 = .ret (.val n)) :
    ∃ hd, upc = .deq4 hd n := by
  cases upc with
  | deq4 hd m => simp only [Unbounded.exec] at h; injection h with h; injection h with h; subst h; exact ⟨hd, rfl⟩
  | enq1 v => simp only [Unbounded.exec] at h; cases h
  | enq2 v => simp only [Unbounded.exec] at h; cases h
  | enq3 v prev => simp only [Unbounded.exec] at h; cases h
  | deq1 => simp only [Unbounded.exec] at h; cases h
  | deq2 hd => simp only [Unbounded.exec] at h; split at h <;> cases h
  | deq3 hd m => simp only [Unbounded.exec] at h; cases h
  | emp1 => simp only [Unbounded.exec] at h; cases h
  | emp2 hd => simp only [Unbounded.exec] at h; cases h
  | len1 => simp only [Unbounded.exec] at h; cases h
  | len2 hd => simp only [Unbounded.exec] at h; split at h <;> cases h
  | len3 cur cnt => simp only [Unbounded.exec] at h; split at h <;> cases h

/-- the stepping thread knows what `pcJ` asks at its next site -/
theorem step_pcj {ct i : Nat} {s : Sh} {t : Th} {pc : PC} (hP : ∀ k, BoxInv (s.boxes k)) (hJ : TJ ct i s t)
    (hpc : t.pc = some pc) (pc' : PC) (hx : (exec s pc).2 = .goto pc') : pcJ (exec s pc).1 pc' := by
  cases pc with
  | ub k f upc =>
    have hs : (exec s (.ub k f upc)).1 = s.updBox k (fun b => b.ubStep upc) := by
      simp only [exec]
      split <;> rfl
    have hb : (exec s (.ub k f upc)).1.boxes k = (s.boxes k).ubStep upc := by rw [hs, updBox_same]
    have hbs := box_step _ upc (hP k) (boxJ_of_TJ hJ k f upc hpc)
    simp only [exec] at hx
    split at hx
    · next upc' heq =>
      injection hx with hx; subst hx
      exact pcJ_of_boxJ _ k f upc' (by rw [hb]; exact hbs.2 upc' heq)
    · next n heq =>
      injection hx with hx; subst hx
      obtain ⟨hd, e⟩ := ub_ret_val _ _ _ heq
      subst e
      show 1 ≤ ((exec s (.ub k f (.deq4 hd n))).1.boxes k).held
      rw [hb]
      exact hJ.pcj _ hpc
    · injection hx with hx; subst hx; exact pcJ_plain _ _ rfl
    · split at hx
      · injection hx with hx; subst hx; exact pcJ_plain _ _ rfl
      · cases hx
  | f5 k v =>
    simp only [exec] at hx
    injection hx with hx; subst hx
    show v ∈ ((exec s (.f5 k v)).1.boxes k).cntL
    simp only [exec, updBox_same]
    simp
  | j1 k n =>
    simp only [exec] at hx
    injection hx with hx; subst hx
    exact hJ.pcj _ hpc
  | j2 k n =>
    have hpos := pending_pos (hP k) (hJ.pcj _ hpc)
    simp only [exec] at hx
    split at hx
    · simp only [activate] at hx; injection hx with hx; subst hx; exact pcJ_plain _ _ rfl
    · split at hx
      · next h1 h2 => exfalso; omega
      · injection hx with hx; subst hx; exact pcJ_plain _ _ rfl
  | f6 k =>
    simp only [exec] at hx
    split at hx
    · simp only [activate] at hx; injection hx with hx; subst hx; exact pcJ_plain _ _ rfl
    · cases hx
  | i4 k =>
    simp only [exec] at hx
    split at hx
    · simp only [activate] at hx; injection hx with hx; subst hx; exact pcJ_plain _ _ rfl
    · cases hx
  | j6 k n =>
    simp only [exec] at hx
    split at hx
    · simp only [activate] at hx; injection hx with hx; subst hx; exact pcJ_plain _ _ rfl
    · cases hx
  | g2 hd =>
    simp only [exec] at hx
    split at hx
    · cases hx
    · injection hx with hx; subst hx; exact pcJ_plain _ _ rfl
  | g6 hd v =>
    simp only [exec] at hx
    split at hx
    · cases hx
    · injection hx with hx; subst hx; exact pcJ_plain _ _ rfl
  | i3 k =>
    simp only [exec] at hx
    split at hx <;> (injection hx with hx; subst hx; exact pcJ_plain _ _ rfl)
  | a4 n prev r => simp only [exec] at hx; cases hx
  | l1 e => simp only [exec] at hx; cases hx
  | f4 k v => simp only [exec] at hx; injection hx with hx; subst hx; exact pcJ_plain _ _ rfl
  | a1 k n r => simp only [exec] at hx; injection hx with hx; subst hx; exact pcJ_plain _ _ rfl
  | a2 k n r => simp only [exec] at hx; injection hx with hx; subst hx; exact pcJ_plain _ _ rfl
  | a3 k n r => simp only [exec] at hx; injection hx with hx; subst hx; exact pcJ_plain _ _ rfl
  | g1 => simp only [exec] at hx; injection hx with hx; subst hx; exact pcJ_plain _ _ rfl
  | g3 hd nx => simp only [exec] at hx; injection hx with hx; subst hx; exact pcJ_plain _ _ rfl
  | g4 hd nx => simp only [exec] at hx; injection hx with hx; subst hx; exact pcJ_plain _ _ rfl
  | g5 hd v => simp only [exec] at hx; injection hx with hx; subst hx; exact pcJ_plain _ _ rfl
  | i1 k => simp only [exec] at hx; injection hx with hx; subst hx; exact pcJ_plain _ _ rfl
  | i2 k => simp only [exec] at hx; injection hx with hx; subst hx; exact pcJ_plain _ _ rfl
  | j3 k n => simp only [exec] at hx; injection hx with hx; subst hx; exact pcJ_plain _ _ rfl
  | j4 k n => simp only [exec] at hx; injection hx with hx; subst hx; exact pcJ_plain _ _ rfl
  | j5 k n => simp only [exec] at hx; injection hx with hx; subst hx; exact pcJ_plain _ _ rfl

theorem pcJ_start (s : Sh) (op : Op) : pcJ s (start op) := by
  cases op <;> trivial

/-- the stepping thread re-establishes its own `TJ` -/
theorem step_TJ {ct i : Nat} {s : Sh} {t : Th} {pc : PC} (now : Nat) (hP : ∀ k, BoxInv (s.boxes k)) (hJ : TJ ct i s t)
    (hpc : t.pc = some pc) : TJ ct i (exec s pc).1 (t.advance Fair.algo now (exec s pc).2) := by
  refine ⟨fresh_advance_nodup s t pc now hpc hJ.nd, ?_, ?_, prodT_advance ct i s t pc now hJ.prod hpc⟩
  · intro v hv
    have hv0 := fresh_advance_sub s t pc now hpc v hv
    refine ⟨(hJ.fr v hv0).1, fun k => ?_⟩
    rcases exec_resvL s pc k with e | ⟨f, w, e1, e2⟩
    · rw [e]; exact (hJ.fr v hv0).2 k
    · subst e1
      rw [e2]
      have hnd := hJ.nd
      rw [fresh_advance_enq2 s t k f w now hpc] at hnd
      have hne : v ≠ w := fun e => (List.nodup_cons.mp hnd).1 (e ▸ hv)
      intro hm
      rcases List.mem_append.mp hm with hm | hm
      · exact (hJ.fr v hv0).2 k hm
      · simp only [List.mem_singleton] at hm; exact hne hm
  · intro q hq
    cases hx : (exec s pc).2 with
    | goto pc' =>
      rw [hx] at hq
      simp only [Thread.advance, Option.some.injEq] at hq
      subst hq
      exact step_pcj hP hJ hpc _ hx
    | ret r =>
      rw [hx] at hq
      simp only [Thread.advance, Thread.finish] at hq
      cases hp : t.prog with
      | nil => rw [hp] at hq; simp at hq
      | cons op rest =>
        rw [hp] at hq
        simp only [Option.some.injEq] at hq
        subst hq
        exact pcJ_start _ op

/-- a thread parked at a consumer site is the consumer, so every other stepping thread is a producer -/
theorem other_is_producer {ct i j : Nat} {s : Sh} {ti tj : Th} {pc q : PC} (hij : i ≠ j) (hJi : TJ ct i s ti)
    (hJj : TJ ct j s tj) (hpc : ti.pc = some pc) (hq : tj.pc = some q) (hnp : prodPC q = false) : prodPC pc = true := by
  have hj : j = ct := by
    rcases Nat.decEq j ct with h | h
    · have := (hJj.prod h).1 q hq
      rw [hnp] at this; cases this
    · exact h
  have hi : i ≠ ct := fun e => hij (e.trans hj.symm)
  exact (hJi.prod hi).1 pc hpc

/-- the step of another thread does not interfere with `TJ` -/
theorem frame_TJ {ct i j : Nat} {s : Sh} {ti tj : Th} {pc : PC} (hij : i ≠ j) (hJi : TJ ct i s ti) (hJj : TJ ct j s tj)
    (hK : KD ti tj) (hpc : ti.pc = some pc) : TJ ct j (exec s pc).1 tj := by
  refine ⟨hJj.nd, ?_, ?_, hJj.prod⟩
  · intro v hv
    refine ⟨(hJj.fr v hv).1, fun k => ?_⟩
    rcases exec_resvL s pc k with e | ⟨f, w, e1, e2⟩
    · rw [e]; exact (hJj.fr v hv).2 k
    · subst e1
      rw [e2]
      have hw : w ∈ fresh ti := by simp [fresh, hpc, pcFresh]
      have hne : v ≠ w := fun e => hK w hw (e ▸ hv)
      intro hm
      rcases List.mem_append.mp hm with hm | hm
      · exact (hJj.fr v hv).2 k hm
      · simp only [List.mem_singleton] at hm; exact hne hm
  · intro q hq
    have hq0 := hJj.pcj q hq
    cases q with
    | ub k f upc =>
      cases upc with
      | enq1 v => exact exec_cntL_mono s pc k v hq0
      | enq2 v => exact exec_cntL_mono s pc k v hq0
      | enq3 v prev =>
        obtain ⟨idx, h1, h2⟩ := hq0
        exact ⟨idx, exec_chain_stable s pc k idx prev h1, exec_resv_stable s pc k idx v h2⟩
      | deq2 hd =>
        have hp := other_is_producer hij hJi hJj hpc hq rfl
        show hd = ((exec s pc).1.boxes k).mb.head
        rw [(exec_prod_fields s pc k hp).1]; exact hq0
      | deq3 hd n =>
        have hp := other_is_producer hij hJi hJj hpc hq rfl
        show hd = ((exec s pc).1.boxes k).mb.head ∧ ((exec s pc).1.boxes k).resvL[((exec s pc).1.boxes k).deqd]? = some n
        rw [(exec_prod_fields s pc k hp).1, (exec_prod_fields s pc k hp).2.1]
        exact ⟨hq0.1, exec_resv_stable s pc k _ n hq0.2⟩
      | deq4 hd n =>
        have hp := other_is_producer hij hJi hJj hpc hq rfl
        show 1 ≤ ((exec s pc).1.boxes k).held
        rw [(exec_prod_fields s pc k hp).2.2]; exact hq0
      | _ => trivial
    | j1 k n =>
      have hp := other_is_producer hij hJi hJj hpc hq rfl
      show 1 ≤ ((exec s pc).1.boxes k).held
      rw [(exec_prod_fields s pc k hp).2.2]; exact hq0
    | j2 k n =>
      have hp := other_is_producer hij hJi hJj hpc hq rfl
      show 1 ≤ ((exec s pc).1.boxes k).held
      rw [(exec_prod_fields s pc k hp).2.2]; exact hq0
    | j3 k n => exact hq0.elim
    | _ => trivial

theorem boxInv_init (k : Nat) : BoxInv (Fair.init.boxes k) := by
  refine ⟨rfl, ?_, ?_, rfl, ?_, rfl, rfl⟩
  · intro x y h; cases h
  · simp [chainL, Fair.init]
  · intro v hv; cases hv

/-- the Owicki–Gries result: every reachable configuration of the repaired fair mailbox -/
theorem fair_og (ct : Nat) (progs : List (List Op)) (wf : UB.UBWellFormed ct progs) (wf2 : FairWF ct progs) :
    ∀ c, Reach Fair.algo (initCfg Fair.algo Fair.init progs) c →
      (∀ k, BoxInv (c.sh.boxes k)) ∧ (∀ (i : Nat) (t : Th), c.threads[i]? = some t → TJ ct i c.sh t) ∧
      (∀ (i j : Nat) (ti tj : Th), i ≠ j → c.threads[i]? = some ti → c.threads[j]? = some tj → KD ti tj) := by
  apply reach_og2 (A := Fair.algo) (fun s => ∀ k, BoxInv (s.boxes k)) (fun i s t => TJ ct i s t) KD
  · exact boxInv_init
  · intro i p n hp
    have he := wf.each i p hp
    refine ⟨by rw [fresh_mk]; exact he.1, ?_, ?_, prodT_mk ct i p n (fun hne => wf2 i p hp hne)⟩
    · intro v hv
      rw [fresh_mk] at hv
      refine ⟨fun e => he.2.1 (e ▸ hv), fun k hm => ?_⟩
      cases hm
    · intro pc hpc
      unfold mkThread at hpc
      cases p with
      | nil => simp at hpc
      | cons op rest =>
        simp only [Option.some.injEq] at hpc
        subst hpc
        exact pcJ_start _ op
  · intro i j p q n n' hij hp hq v hv
    rw [fresh_mk] at hv ⊢
    exact wf.disj i j p q hij hp hq v hv
  · intro s i t pc now hP hJ hpc
    exact ⟨step_P hP hJ hpc, step_TJ now hP hJ hpc⟩
  · intro s i j ti tj pc hij _ hJi hJj hK hpc
    exact frame_TJ hij hJi hJj hK hpc
  · intro s i j ti tj pc now _ _ _ _ hK hpc
    refine ⟨fun v hv => hK v (fresh_advance_sub s ti pc now hpc v hv), fun v hv hv' => ?_⟩
    exact hK v (fresh_advance_sub s ti pc now hpc v hv') hv

/-- NO MESSAGE IS CONSUMED BEFORE IT IS COUNTED: at the consumer's `Add:pending(−1)` the counter is at least 1,
and finalizeSender's `remaining < 0` branch is never entered -/
theorem reach_noNeg (ct : Nat) (progs : List (List Op)) (wf : UB.UBWellFormed ct progs) (wf2 : FairWF ct progs)
    (c : Cfg Fair.algo) (h : Reach Fair.algo (initCfg Fair.algo Fair.init progs) c) (tid : Nat) (t : Th) (pc : PC)
    (ht : c.threads[tid]? = some t) (hpc : t.pc = some pc) : noNeg c.sh pc = true := by
  obtain ⟨hP, hJ, _⟩ := fair_og ct progs wf wf2 c h
  have hj := (hJ tid t ht).pcj pc hpc
  cases pc with
  | j2 k n =>
    have := pending_pos (hP k) hj
    simp only [noNeg, decide_eq_true_eq]
    exact this
  | j3 k n => exact hj.elim
  | _ => rfl

theorem reach_reachNU (ct : Nat) (progs : List (List Op)) (wf : UB.UBWellFormed ct progs) (wf2 : FairWF ct progs)
    (c : Cfg Fair.algo) (h : Reach Fair.algo (initCfg Fair.algo Fair.init progs) c) :
    ReachNU (initCfg Fair.algo Fair.init progs) c := by
  induction h with
  | init => exact ReachNU.init
  | @step c tid hr ih => exact ReachNU.step tid ih (fun t pc ht hpc => reach_noNeg ct progs wf wf2 c hr tid t pc ht hpc)

end GoaktVerif.C04.FairInv

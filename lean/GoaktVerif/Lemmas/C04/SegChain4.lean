/-
C04 — `UnboundedSegmentedMailbox`: non-interference for the list promises, exclusivity of fresh
segments, and the combined reachability theorem (slot discipline + segment list).
-/
import GoaktVerif.Lemmas.C04.SegChain3

namespace GoaktVerif.C04.SegInv
open GoaktVerif.Model.C04 GoaktVerif.Model.C04.Segmented

theorem J2_upd {s : Sh} {tj : Th} (hJ : J2 s tj) (g : Nat) (f : Seg → Seg)
    (hf : ∀ x, (f x).linked = x.linked ∧ (f x).next = x.next ∧ x.writeIdx ≤ (f x).writeIdx) : J2 (s.upd g f) tj := by
  refine J2_mono hJ rfl ?_ ?_ (Nat.le_refl _) ?_
  · intro j; rw [upd_field j]; split
    · next e => subst e; exact (hf _).1
    · rfl
  · intro j; rw [upd_field j]; split
    · next e => subst e; exact (hf _).2.2
    · exact Nat.le_refl _
  · intro j; rw [upd_field j]; split
    · next e => subst e; exact (hf _).2.1
    · rfl

theorem seg_hframe2 (s : Sh) (i j : Nat) (ti tj : Th) (pc : PC) (_hij : i ≠ j)
    (hJ2i : J2 s ti) (hJ2j : J2 s tj) (hK : K2 ti tj) (hpc : ti.pc = some pc) : J2 (exec s pc).1 tj := by
  have same : J2 s tj := hJ2j
  have segsSame : ∀ s' : Sh, s'.segSize = s.segSize → s'.segs = s.segs → s.nseg ≤ s'.nseg → J2 s' tj := by
    intro s' a b c
    exact J2_mono hJ2j a (fun j => by rw [b]) (fun j => by rw [b]; exact Nat.le_refl _) c (fun j => by rw [b])
  cases pc with
  | e2 v g =>
    have : J2 (s.upd g fun x => { x with writeIdx := x.writeIdx + 1 }) tj :=
      J2_upd hJ2j g _ (fun x => ⟨rfl, rfl, by show x.writeIdx ≤ x.writeIdx + 1; omega⟩)
    simp only [exec]; split <;> exact this
  | e3 v g idx => simp only [exec]; exact J2_upd hJ2j g _ (fun x => ⟨rfl, rfl, Nat.le_refl _⟩)
  | e4 v => exact segsSame _ rfl rfl (Nat.le_refl _)
  | e5 v g =>
    simp only [exec]; split
    · exact same
    · exact segsSame _ rfl rfl (by show s.nseg ≤ s.nseg + 1; omega)
  | e6 v g g' =>
    obtain ⟨hl, _, hg, _⟩ := hJ2i.e6 v g g' hpc
    simp only [exec]; split
    · next hn =>
      have htg : g ≠ g' := by intro e; rw [e, hg] at hl; cases hl
      exact J2_link g g' htg hl hn (fun v' h h' hp => hK v g g' v' h h' hpc hp) hJ2j
    · exact same
  | e7 v g g' =>
    simp only [exec]; split
    · exact segsSame _ rfl rfl (Nat.le_refl _)
    · exact same
  | e9 v g g' =>
    simp only [exec]; split
    · exact segsSame _ rfl rfl (Nat.le_refl _)
    · exact same
  | d5 seg deq v => simp only [exec]; exact J2_upd hJ2j seg _ (fun x => ⟨rfl, rfl, Nat.le_refl _⟩)
  | d6 seg deq v => simp only [exec]; exact J2_upd hJ2j seg _ (fun x => ⟨rfl, rfl, Nat.le_refl _⟩)
  | d7 v => exact segsSame _ rfl rfl (Nat.le_refl _)
  | d9 seg nx => exact segsSame _ rfl rfl (Nat.le_refl _)
  | d3 seg enq => simp only [exec]; split <;> (try split) <;> exact same
  | d4 seg deq => simp only [exec]; split <;> exact same
  | d8 seg => simp only [exec]; split <;> exact same
  | m3 seg enq => simp only [exec]; split <;> exact same
  | _ => exact same

/-- a thread arrives at `CAS:next` only from its own `Load:next` that found nil, with the segment it
just allocated (`nseg` at that moment) -/
theorem adv_e6 (s : Sh) (ti : Th) (pc : PC) (now : Nat) (w g g' : Nat)
    (h : (ti.advance algo now (exec s pc).2).pc = some (.e6 w g g')) : g' = s.nseg := by
  cases hnx : (exec s pc).2 with
  | ret r =>
    rw [hnx] at h
    rcases finish_pc' ti r now with h' | ⟨op, _, h'⟩
    · simp only [Thread.advance] at h; rw [h'] at h; cases h
    · simp only [Thread.advance] at h; rw [h'] at h; cases op <;> simp [start] at h
  | goto pc' =>
    rw [hnx] at h
    simp only [Thread.advance, Option.some.injEq] at h
    subst h
    cases pc with
    | e5 v t =>
      simp only [exec] at hnx
      split at hnx
      · simp at hnx
      · simp only [Next.goto.injEq, PC.e6.injEq] at hnx
        exact hnx.2.2.symm
    | e2 v t => simp only [exec] at hnx; split at hnx <;> simp at hnx
    | e6 v t g0 => simp only [exec] at hnx; split at hnx <;> simp at hnx
    | d3 seg enq => simp only [exec] at hnx; split at hnx <;> (try split at hnx) <;> simp at hnx
    | d4 seg deq => simp only [exec] at hnx; split at hnx <;> simp at hnx
    | d8 seg => simp only [exec] at hnx; split at hnx <;> simp at hnx
    | m3 seg enq => simp only [exec] at hnx; split at hnx <;> simp at hnx
    | _ => simp [exec] at hnx

theorem seg_hK2 (s : Sh) (ti tj : Th) (pc : PC) (now : Nat) (hJ2j : J2 s tj) :
    K2 (ti.advance algo now (exec s pc).2) tj ∧ K2 tj (ti.advance algo now (exec s pc).2) := by
  refine ⟨?_, ?_⟩
  · intro v g g' v' h h' h1 h2 e
    have := adv_e6 s ti pc now v g g' h1
    have := (hJ2j.e6 v' h h' h2).2.2.2
    omega
  · intro v' h h' v g g' h2 h1 e
    have := adv_e6 s ti pc now v g g' h1
    have := (hJ2j.e6 v' h h' h2).2.2.2
    omega

/-! ### the combined invariant -/

theorem init_seg_ghost (n g : Nat) : ((Segmented.init n).segs g).linked = decide (g = 0) ∧ ((Segmented.init n).segs g).ord = 0 := by
  unfold Segmented.init
  simp only
  split
  · next e => subst e; simp [Seg.zero]
  · next e => simp [Seg.zero, e]

theorem P2_init (n : Nat) : P2 (Segmented.init n) := by
  have hl : ∀ g, ((Segmented.init n).segs g).linked = true → g = 0 := by
    intro g h; rw [(init_seg_ghost n g).1] at h; exact of_decide_eq_true h
  have h0 : ((Segmented.init n).segs 0).linked = true := by rw [(init_seg_ghost n 0).1]; rfl
  refine ⟨⟨h0, (init_seg n 0).2.2.1⟩, ?_, ?_, ?_, ?_, ?_, h0, h0, ?_, ?_⟩
  · intro g hg hne; exact absurd (hl g hg) hne
  · intro g _; rw [(init_seg_ghost n g).2, (init_seg_ghost n _).2]; exact Nat.le_refl _
  · intro g g' a b _; rw [hl g a, hl g' b]
  · intro g _; obtain ⟨a, b, c, _⟩ := init_seg n g; exact ⟨a, c, b⟩
  · intro g hg; rw [hl g hg]; show 0 < 1; omega
  · intro g _ ho; rw [(init_seg_ghost n g).2, (init_seg_ghost n _).2] at ho; omega
  · intro g _ ho; rw [(init_seg_ghost n g).2, (init_seg_ghost n _).2] at ho; omega

/-- slot discipline AND segment list, in every reachable configuration (all programs, all schedules) -/
theorem seg_inv2 (ct n : Nat) (progs : List (List Op)) (wf : SegWF ct progs) :
    ∀ c, Reach Segmented.algo (initCfg Segmented.algo (Segmented.init n) progs) c →
      (P c.sh ∧ P2 c.sh) ∧ (∀ (i : Nat) (t : Th), c.threads[i]? = some t → J ct i c.sh t ∧ J2 c.sh t) ∧
      (∀ (i j : Nat) (ti tj : Th), i ≠ j → c.threads[i]? = some ti → c.threads[j]? = some tj → K ti tj ∧ K2 ti tj) := by
  refine reach_og (A := Segmented.algo) (fun s => P s ∧ P2 s) (fun i s t => J ct i s t ∧ J2 s t)
    (fun a b => K a b ∧ K2 a b) ⟨P_init n, P2_init n⟩ ?_ ?_ ?_ ?_ ?_
  · intro i p k hp
    refine ⟨J_start p (mk_pc' p k) (mk_prog_sub' p k) (fun hi => wf i p hp hi), J2_start ?_⟩
    rcases mk_pc' p k with h | ⟨op, _, h⟩
    · exact Or.inl h
    · exact Or.inr ⟨op, h⟩
  · intro p q k k'
    have no3 : ∀ (r : List Op) (m : Nat) v g idx, (mkThread Segmented.algo r m).pc ≠ some (.e3 v g idx) := by
      intro r m v g idx h
      rcases mk_pc' r m with h' | ⟨op, _, h'⟩
      · rw [h'] at h; cases h
      · rw [h'] at h; cases op <;> simp [start] at h
    have no6 : ∀ (r : List Op) (m : Nat) v g g', (mkThread Segmented.algo r m).pc ≠ some (.e6 v g g') := by
      intro r m v g g' h
      rcases mk_pc' r m with h' | ⟨op, _, h'⟩
      · rw [h'] at h; cases h
      · rw [h'] at h; cases op <;> simp [start] at h
    exact ⟨⟨fun v g idx _ _ _ h _ => absurd h (no3 p k v g idx), fun _ _ _ w g idx _ h => absurd h (no3 q k' w g idx),
           fun _ _ _ w g idx _ h => absurd h (no3 p k w g idx)⟩, fun v g g' _ _ _ h _ => absurd h (no6 p k v g g')⟩
  · intro s i t pc now hP hJ hpc
    have a := seg_hstep ct s i t pc now hP.1 hJ.1 hpc
    have b := seg_hstep2 ct s i t pc now hP.1 hJ.1 hP.2 hJ.2 hpc
    exact ⟨⟨a.1, b.1⟩, a.2, b.2⟩
  · intro s i j ti tj pc hij hP hJi hJj hK hpc
    exact ⟨seg_hframe ct s i j ti tj pc hij hP.1 hJi.1 hJj.1 hK.1 hpc, seg_hframe2 s i j ti tj pc hij hJi.2 hJj.2 hK.2 hpc⟩
  · intro s i j ti tj pc now hij hP hJi hJj hK hpc
    have a := seg_hK ct s i j ti tj pc now hij hP.1 hJi.1 hJj.1 hK.1 hpc
    have b := seg_hK2 s ti tj pc now hJj.2
    exact ⟨⟨a.1, b.1⟩, ⟨a.2, b.2⟩⟩

end GoaktVerif.C04.SegInv

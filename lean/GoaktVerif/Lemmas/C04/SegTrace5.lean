/-
C04 — `UnboundedSegmentedMailbox`: the value invariant for every step, every run; the theorem.
-/
import GoaktVerif.Lemmas.C04.SegTrace4

namespace GoaktVerif.C04.SegInv
open GoaktVerif.Model.C04 GoaktVerif.Model.C04.Segmented

theorem stepEvS_eq {c : Cf} {tid : Nat} {t : Th} {pc : PC} (ht : c.threads[tid]? = some t) (hpc : t.pc = some pc) :
    stepEvS c tid = evS c.sh pc := by
  unfold stepEvS; simp [ht, hpc]

theorem deqdT_goto (t : Th) (pc' : PC) (h : pcDeq (some pc') = pcDeq t.pc) : deqdT ({ t with pc := some pc' } : Th) = deqdT t := by
  unfold deqdT; rw [← h]

/-- same shared state (up to fields the invariant does not read), thread moves to `pc'` -/
theorem keep_goto {ct tid : Nat} {c : Cf} {resv : List Nat} {t : Th} {s' : Sh} {clk : Nat} (pc' : PC)
    (hT : TR ct c resv) (ht : c.threads[tid]? = some t)
    (hS : s'.segSize = c.sh.segSize) (hl : s'.last = c.sh.last) (hh : s'.head = c.sh.head) (hsegs : s'.segs = c.sh.segs)
    (h3 : ∀ v g idx, pc' ≠ .e3 v g idx) (hd : pcDeq (some pc') = pcDeq t.pc) (hi : inflight (some pc') = inflight t.pc) :
    TR ct ({ sh := s', threads := c.threads.set tid { t with pc := some pc' }, clock := clk } : Cf) resv :=
  tr_keep hT ht hS hl hh (fun j => by rw [hsegs]; exact ⟨rfl, rfl, rfl, rfl⟩) (by rw [hsegs])
    (fun v g idx e => by simp only [Option.some.injEq] at e; exact absurd e (h3 v g idx)) (deqdT_goto t pc' hd) hi

theorem keep_fin {ct tid : Nat} {c : Cf} {resv : List Nat} {t : Th} {s' : Sh} {clk : Nat} (r : Res)
    (hT : TR ct c resv) (ht : c.threads[tid]? = some t)
    (hS : s'.segSize = c.sh.segSize) (hl : s'.last = c.sh.last) (hh : s'.head = c.sh.head) (hsegs : s'.segs = c.sh.segs)
    (hr : valList r = pcDeq t.pc) (hi : inflight t.pc = 0) :
    TR ct ({ sh := s', threads := c.threads.set tid (t.finish algo r c.clock), clock := clk } : Cf) resv := by
  refine tr_keep hT ht hS hl hh (fun j => by rw [hsegs]; exact ⟨rfl, rfl, rfl, rfl⟩) (by rw [hsegs])
    (fun v g idx e => absurd e ((finish_pcDeq t r c.clock).2.2 v g idx)) ?_ ?_
  · rw [deqdT_finishS, hr]; rfl
  · rw [(finish_pcDeq t r c.clock).2.1, hi]

/-- the value invariant is preserved by every step of every thread -/
theorem tr_stepS (ct tid : Nat) (c : Cf) (resv : List Nat) (hP : P c.sh) (h2 : P2 c.sh)
    (hJ : ∀ (i : Nat) (t : Th), c.threads[i]? = some t → J ct i c.sh t ∧ J2 c.sh t) (hT : TR ct c resv) :
    TR ct (stepCfg c tid) (resv ++ stepEvS c tid) := by
  cases ht : c.threads[tid]? with
  | none =>
    have e1 : stepCfg c tid = c := by unfold stepCfg; simp [ht]
    have e2 : stepEvS c tid = [] := by simp [stepEvS, ht]
    rw [e1, e2]; simpa using hT
  | some t =>
    cases hpc : t.pc with
    | none =>
      have e1 : stepCfg c tid = c := by unfold stepCfg; simp [ht, hpc]
      have e2 : stepEvS c tid = [] := by simp [stepEvS, ht, hpc]
      rw [e1, e2]; simpa using hT
    | some pc =>
      obtain ⟨hJt, hJ2t⟩ := hJ tid t ht
      rw [stepCfg_eqS ht hpc, stepEvS_eq ht hpc]
      cases pc with
      | e1 v =>
        simp only [exec, evS, Thread.advance, List.append_nil]
        exact keep_goto _ hT ht rfl rfl rfl rfl (by intro _ _ _ e; cases e) (by rw [hpc]; rfl) (by rw [hpc]; rfl)
      | e2 v g =>
        have hl := hJ2t.e2 v g hpc
        simp only [exec, evS]
        split
        · next hroom =>
          simp only [Thread.advance]
          exact tr_reserve hP h2 hT ht hpc hl hroom
        · next hfull =>
          simp only [Thread.advance, List.append_nil]
          refine tr_keep (s' := c.sh.upd g bump) hT ht rfl rfl rfl (fun j => fld_write c.sh g j) ?_
            (fun v' g' idx e => by simp at e) (deqdT_goto t _ (by rw [hpc]; rfl)) (by rw [hpc]; rfl)
          by_cases e : c.sh.last = g
          · rw [e, upd_same]; show min ((c.sh.segs g).writeIdx + 1) c.sh.segSize = _; omega
          · rw [upd_other c.sh _ e]
      | e3 v g idx =>
        have hst := hT.store tid t v g idx ht hpc
        simp only [exec, evS, Thread.advance, List.append_nil]
        exact tr_put (o := some v) hT ht (Or.inr hst.symm) (by intro _ _ _ e; simp at e) (deqdT_goto t _ (by rw [hpc]; rfl)) (by rw [hpc]; rfl)
      | e4 v =>
        simp only [exec, evS, Thread.advance, List.append_nil]
        exact keep_fin .ok hT ht rfl rfl rfl rfl (by rw [hpc]; rfl) (by rw [hpc]; rfl)
      | e5 v g =>
        simp only [exec, evS, List.append_nil]
        split
        · simp only [Thread.advance]
          exact keep_goto _ hT ht rfl rfl rfl rfl (by intro _ _ _ e; cases e) (by rw [hpc]; rfl) (by rw [hpc]; rfl)
        · simp only [Thread.advance]
          exact keep_goto _ hT ht rfl rfl rfl rfl (by intro _ _ _ e; cases e) (by rw [hpc]; rfl) (by rw [hpc]; rfl)
      | e6 v g g' =>
        obtain ⟨hl, hw, hg, _⟩ := hJ2t.e6 v g g' hpc
        simp only [exec, evS, List.append_nil]
        split
        · next hn =>
          simp only [Thread.advance]
          exact tr_link h2 (fun i ti hi => (hJ i ti hi).2) hT ht hl hw hg hn (by intro _ _ _ e; simp at e)
            (deqdT_goto t _ (by rw [hpc]; rfl)) (by rw [hpc]; rfl)
        · simp only [Thread.advance]
          exact keep_goto _ hT ht rfl rfl rfl rfl (by intro _ _ _ e; cases e) (by rw [hpc]; rfl) (by rw [hpc]; rfl)
      | e7 v g g' =>
        simp only [exec, evS, Thread.advance, List.append_nil]
        split
        · exact keep_goto _ hT ht rfl rfl rfl rfl (by intro _ _ _ e; cases e) (by rw [hpc]; rfl) (by rw [hpc]; rfl)
        · exact keep_goto _ hT ht rfl rfl rfl rfl (by intro _ _ _ e; cases e) (by rw [hpc]; rfl) (by rw [hpc]; rfl)
      | e9 v g g' =>
        simp only [exec, evS, Thread.advance, List.append_nil]
        split
        · exact keep_goto _ hT ht rfl rfl rfl rfl (by intro _ _ _ e; cases e) (by rw [hpc]; rfl) (by rw [hpc]; rfl)
        · exact keep_goto _ hT ht rfl rfl rfl rfl (by intro _ _ _ e; cases e) (by rw [hpc]; rfl) (by rw [hpc]; rfl)
      | d1 =>
        simp only [exec, evS, Thread.advance, List.append_nil]
        exact keep_goto _ hT ht rfl rfl rfl rfl (by intro _ _ _ e; cases e) (by rw [hpc]; rfl) (by rw [hpc]; rfl)
      | d2 seg =>
        simp only [exec, evS, Thread.advance, List.append_nil]
        exact keep_goto _ hT ht rfl rfl rfl rfl (by intro _ _ _ e; cases e) (by rw [hpc]; rfl) (by rw [hpc]; rfl)
      | d3 seg enq =>
        simp only [exec, evS, List.append_nil]
        split
        · simp only [Thread.advance]
          exact keep_goto _ hT ht rfl rfl rfl rfl (by intro _ _ _ e; cases e) (by rw [hpc]; rfl) (by rw [hpc]; rfl)
        · split
          · simp only [Thread.advance]
            exact keep_fin .none hT ht rfl rfl rfl rfl (by rw [hpc]; rfl) (by rw [hpc]; rfl)
          · simp only [Thread.advance]
            exact keep_goto _ hT ht rfl rfl rfl rfl (by intro _ _ _ e; cases e) (by rw [hpc]; rfl) (by rw [hpc]; rfl)
      | d4 seg deq =>
        have hi : tid = ct := is_consumer hJt hpc rfl
        obtain ⟨hh, hdq, hS, hw⟩ := hJt.d4 seg deq hpc
        simp only [exec, evS, List.append_nil]
        split
        · simp only [Thread.advance]
          exact keep_fin .none hT ht rfl rfl rfl rfl (by rw [hpc]; rfl) (by rw [hpc]; rfl)
        · next v hv =>
          simp only [Thread.advance]
          subst hi
          exact tr_take h2 hT ht hpc hh hdq hS hw hv
      | d5 seg deq v =>
        simp only [exec, evS, Thread.advance, List.append_nil]
        exact tr_put (o := none) hT ht (Or.inl rfl) (by intro _ _ _ e; simp at e) (deqdT_goto t _ (by rw [hpc]; rfl)) (by rw [hpc]; rfl)
      | d6 seg deq v =>
        have hi : tid = ct := is_consumer hJt hpc rfl
        obtain ⟨hh, hdq, _, _⟩ := hJt.d6 seg deq v hpc
        simp only [exec, evS, Thread.advance, List.append_nil]
        subst hi
        exact tr_advance hT ht hpc hh hdq
      | d7 v =>
        simp only [exec, evS, Thread.advance, List.append_nil]
        exact keep_fin (.val v) hT ht rfl rfl rfl rfl (by rw [hpc]; rfl) (by rw [hpc]; rfl)
      | d8 seg =>
        simp only [exec, evS, List.append_nil]
        split
        · simp only [Thread.advance]
          exact keep_fin .none hT ht rfl rfl rfl rfl (by rw [hpc]; rfl) (by rw [hpc]; rfl)
        · simp only [Thread.advance]
          exact keep_goto _ hT ht rfl rfl rfl rfl (by intro _ _ _ e; cases e) (by rw [hpc]; rfl) (by rw [hpc]; rfl)
      | d9 seg nx =>
        have hi : tid = ct := is_consumer hJt hpc rfl
        obtain ⟨hh, hfull⟩ := hJt.d9 seg nx hpc
        have hn := hJ2t.d9 seg nx hpc
        simp only [exec, evS, Thread.advance, List.append_nil]
        subst hi
        exact tr_head h2 hT ht hpc hh hfull hn
      | m1 =>
        simp only [exec, evS, Thread.advance, List.append_nil]
        exact keep_goto _ hT ht rfl rfl rfl rfl (by intro _ _ _ e; cases e) (by rw [hpc]; rfl) (by rw [hpc]; rfl)
      | m2 seg =>
        simp only [exec, evS, Thread.advance, List.append_nil]
        exact keep_goto _ hT ht rfl rfl rfl rfl (by intro _ _ _ e; cases e) (by rw [hpc]; rfl) (by rw [hpc]; rfl)
      | m3 seg enq =>
        simp only [exec, evS, List.append_nil]
        split
        · simp only [Thread.advance]
          exact keep_fin _ hT ht rfl rfl rfl rfl (by rw [hpc]; rfl) (by rw [hpc]; rfl)
        · simp only [Thread.advance]
          exact keep_goto _ hT ht rfl rfl rfl rfl (by intro _ _ _ e; cases e) (by rw [hpc]; rfl) (by rw [hpc]; rfl)
      | m4 seg =>
        simp only [exec, evS, Thread.advance, List.append_nil]
        exact keep_fin _ hT ht rfl rfl rfl rfl (by rw [hpc]; rfl) (by rw [hpc]; rfl)
      | l1 =>
        simp only [exec, evS, Thread.advance, List.append_nil]
        exact keep_fin _ hT ht rfl rfl rfl rfl (by rw [hpc]; rfl) (by rw [hpc]; rfl)

theorem mk_facts (p : List Op) (k : Nat) :
    (mkThread Segmented.algo p k).hist = [] ∧ pcDeq (mkThread Segmented.algo p k).pc = [] ∧
    inflight (mkThread Segmented.algo p k).pc = 0 ∧ ∀ v g idx, (mkThread Segmented.algo p k).pc ≠ some (.e3 v g idx) := by
  have hh : (mkThread Segmented.algo p k).hist = [] := by unfold mkThread; cases p <;> rfl
  rcases mk_pc' p k with h | ⟨op, _, h⟩
  · rw [h]; exact ⟨hh, rfl, rfl, fun _ _ _ e => by cases e⟩
  · rw [h]; cases op <;> exact ⟨hh, rfl, rfl, fun _ _ _ e => by simp [start] at e⟩

theorem tr_initS (ct n : Nat) (progs : List (List Op)) : TR ct (initCfg Segmented.algo (Segmented.init n) progs) [] := by
  have hc : consumed (Segmented.init n) = 0 := by
    unfold consumed
    show ((Segmented.init n).segs 0).ord * n + ((Segmented.init n).segs 0).deqIdx = 0
    rw [(init_seg_ghost n 0).2, (init_seg n 0).2.1]; simp
  refine ⟨?_, ?_, ?_, ?_, ?_⟩
  · show 0 = ((Segmented.init n).segs 0).ord * n + min ((Segmented.init n).segs 0).writeIdx n
    rw [(init_seg_ghost n 0).2, (init_seg n 0).1]; simp
  · intro g idx _ _ _ d; change _ < 0 at d; omega
  · intro i t v g idx hi hpc
    obtain ⟨p, k, _, e⟩ := spawn_get' Segmented.algo progs 0 i t hi
    subst e; exact absurd hpc ((mk_facts p k).2.2.2 v g idx)
  · intro t hi
    obtain ⟨p, k, _, e⟩ := spawn_get' Segmented.algo progs 0 ct t hi
    subst e
    show consumed (Segmented.init n) + inflight (mkThread Segmented.algo p k).pc ≤ 0
    rw [hc, (mk_facts p k).2.2.1]; exact Nat.le_refl _
  · intro t hi
    obtain ⟨p, k, _, e⟩ := spawn_get' Segmented.algo progs 0 ct t hi
    subst e
    unfold deqdT
    rw [(mk_facts p k).1, (mk_facts p k).2.1]; simp

theorem tr_runS (ct n : Nat) (progs : List (List Op)) (wf : SegWF ct progs) :
    ∀ (sched : List Nat) (c : Cf) (resv : List Nat),
      Reach Segmented.algo (initCfg Segmented.algo (Segmented.init n) progs) c → TR ct c resv →
      TR ct (runSched c sched) (resv ++ resvTrace c sched)
  | [], c, resv, _, hT => by simpa [runSched, resvTrace] using hT
  | t :: ts, c, resv, hr, hT => by
    obtain ⟨⟨hP, h2⟩, hJ, _⟩ := seg_inv2 ct n progs wf c hr
    have h1 := tr_stepS ct t c resv hP h2 hJ hT
    have := tr_runS ct n progs wf ts (stepCfg c t) _ (Reach.step t hr) h1
    simpa [runSched, resvTrace, List.append_assoc] using this

end GoaktVerif.C04.SegInv

/-
C04 — UnboundedMailbox: what the simulation says about the visible results of a run.

* the values `Dequeue` returned (in order) are exactly the successful dequeues of the abstract queue;
* reservations are never repeated;
* a message whose `Enqueue` has returned is either already dequeued or a READY cell of the queue.
-/
import GoaktVerif.Lemmas.C04.UBInit

namespace GoaktVerif.C04.UB
open GoaktVerif.Model.C04 GoaktVerif.Model.C04.Unbounded GoaktVerif.Spec.C04

theorem reservedOf_append (a b : List Ev) : reservedOf (a ++ b) = reservedOf a ++ reservedOf b := by
  induction a with
  | nil => rfl
  | cons e es ih => cases e <;> simp [reservedOf, ih]

theorem dequeuedOf_append (a b : List Ev) : dequeuedOf (a ++ b) = dequeuedOf a ++ dequeuedOf b := by
  induction a with
  | nil => rfl
  | cons e es ih =>
    cases e with
    | deq r => cases r <;> simp [dequeuedOf, ih]
    | _ => simp [dequeuedOf, ih]

theorem run_append (q : RQ) (a b : List Ev) : RQ.run q (a ++ b) = (RQ.run q a).bind fun q' => RQ.run q' b := by
  induction a generalizing q with
  | nil => simp [RQ.run]
  | cons e es ih =>
    simp only [List.cons_append, RQ.run]
    cases q.step e with
    | none => rfl
    | some q1 => simp [ih]

/-! ### the values returned by Dequeue -/

def resVal (d : Done) : Option Nat :=
  match d.res with
  | .val v => some v
  | _ => none

def pcDeq : Option PC → List Nat
  | some (.deq4 _ n) => [n]
  | _ => []

/-- what a thread has dequeued so far, oldest first; the last value may not have been returned yet
(the thread is at the recycling store that follows the head advance) -/
def deqdT (t : Th) : List Nat := t.hist.reverse.filterMap resVal ++ pcDeq t.pc

def deqd (c : Cf) (ct : Nat) : List Nat :=
  match c.threads[ct]? with
  | some t => deqdT t
  | none => []

def evDeq : Option Ev → List Nat
  | some (.deq (some n)) => [n]
  | _ => []

theorem deqdT_finish (t : Th) (r : Res) (now : Nat) :
    deqdT (t.finish algo r now) = t.hist.reverse.filterMap resVal ++ (match r with | .val v => [v] | _ => []) := by
  have hpc : pcDeq (t.finish algo r now).pc = [] := by
    rcases finish_pc t r now with h | ⟨op, _, h⟩
    · rw [h]; rfl
    · rw [h]; cases op <;> rfl
  have hh : (t.finish algo r now).hist = { op := t.cur.getD .len, res := r, inv := t.started, ret := now + 1 } :: t.hist := by
    unfold Thread.finish; cases t.prog <;> rfl
  unfold deqdT
  rw [hpc, hh]
  cases r <;> simp [resVal, List.filterMap_append]

theorem deqd_step {ct : Nat} {c : Cf} {cells : List Cell} (hI : Inv ct c cells) (tid : Nat) :
    deqd (stepCfg c tid) ct = deqd c ct ++ evDeq (stepEv c tid) := by
  cases ht : c.threads[tid]? with
  | none =>
    have : stepCfg c tid = c := by unfold stepCfg; simp [ht]
    rw [this]; simp [stepEv, ht, evDeq]
  | some t =>
    cases hpc : t.pc with
    | none =>
      have : stepCfg c tid = c := by unfold stepCfg; simp [ht, hpc]
      rw [this]; simp [stepEv, ht, hpc, evDeq]
    | some pc =>
      have ok := hI.thr tid t ht
      rw [stepCfg_eq ht hpc, stepEv_eq ht hpc]
      by_cases hct : tid = ct
      · subst hct
        unfold deqd
        simp only [get_set_self ht, ht]
        cases pc with
        | deq3 h n => simp [exec, Thread.advance, deqdT, pcDeq, hpc, evOf, evDeq]
        | deq4 h n =>
          simp only [exec, Thread.advance]; rw [deqdT_finish]
          simp [evOf, evDeq, deqdT, hpc, pcDeq]
        | deq2 h =>
          cases hn : c.sh.next h with
          | none =>
            simp only [exec, hn, Thread.advance]; rw [deqdT_finish]
            simp [evOf, evDeq, deqdT, hpc, pcDeq, hn]
          | some n => simp [exec, hn, Thread.advance, evOf, evDeq, deqdT, hpc, pcDeq]
        | len2 h =>
          cases hn : c.sh.next h with
          | none =>
            simp only [exec, hn, Thread.advance]; rw [deqdT_finish]
            simp [evOf, evDeq, deqdT, hpc, pcDeq, hn]
          | some n => simp [exec, hn, Thread.advance, evOf, evDeq, deqdT, hpc, pcDeq]
        | len3 cur k =>
          cases hn : c.sh.next cur with
          | none =>
            simp only [exec, hn, Thread.advance]; rw [deqdT_finish]
            simp [evOf, evDeq, deqdT, hpc, pcDeq, hn]
          | some n => simp [exec, hn, Thread.advance, evOf, evDeq, deqdT, hpc, pcDeq]
        | enq3 v p =>
          simp only [exec, Thread.advance]; rw [deqdT_finish]
          simp [evOf, evDeq, deqdT, hpc, pcDeq]
        | emp2 h =>
          simp only [exec, Thread.advance]; rw [deqdT_finish]
          simp [evOf, evDeq, deqdT, hpc, pcDeq]
        | enq1 v => simp [exec, Thread.advance, evOf, evDeq, deqdT, hpc, pcDeq]
        | enq2 v => simp [exec, Thread.advance, evOf, evDeq, deqdT, hpc, pcDeq]
        | deq1 => simp [exec, Thread.advance, evOf, evDeq, deqdT, hpc, pcDeq]
        | emp1 => simp [exec, Thread.advance, evOf, evDeq, deqdT, hpc, pcDeq]
        | len1 => simp [exec, Thread.advance, evOf, evDeq, deqdT, hpc, pcDeq]
      · have hnd := (ok.cons hct).1 pc hpc
        unfold deqd
        simp only [get_set_ne hct]
        cases pc with
        | deq3 h n => cases hnd
        | deq2 h => cases hnd
        | _ => simp [evOf, evDeq]

theorem deqd_run (ct : Nat) : ∀ (sched : List Nat) (c : Cf) (cells : List Cell), Inv ct c cells →
    deqd (runSched c sched) ct = deqd c ct ++ dequeuedOf (evTrace c sched)
  | [], c, _, _ => by simp [runSched, evTrace, dequeuedOf]
  | t :: ts, c, cells, hI => by
    obtain ⟨cells1, _, hI1⟩ := step_sim ct t c cells hI
    have ih := deqd_run ct ts (stepCfg c t) cells1 hI1
    simp only [runSched, evTrace, dequeuedOf_append]
    rw [ih, deqd_step hI t, List.append_assoc]
    congr 2
    cases stepEv c t with
    | none => rfl
    | some e =>
      cases e with
      | deq r => cases r <;> rfl
      | _ => rfl

end GoaktVerif.C04.UB

/-
C04 — facts about the reservation-queue specification (Spec/C04.lean), for all event sequences.
-/
import GoaktVerif.Spec.C04

namespace GoaktVerif.C04
open GoaktVerif.Spec.C04

theorem publish_map_val (q : RQ) (v : Nat) : (publish q v).map Cell.val = q.map Cell.val := by
  unfold publish
  induction q with
  | nil => rfl
  | cons c cs ih =>
    simp only [List.map_cons, ih]
    split
    · next h => subst h; rfl
    · rfl

/-- conservation, in order: what was in the queue plus what was reserved = what came out, followed
by what is still inside — for every run of the reservation queue -/
theorem rq_run_conserve (evs : List Ev) : ∀ (q q' : RQ), RQ.run q evs = some q' →
    q.map Cell.val ++ reservedOf evs = dequeuedOf evs ++ q'.map Cell.val := by
  induction evs with
  | nil => intro q q' h; simp [RQ.run] at h; subst h; simp [reservedOf, dequeuedOf]
  | cons e es ih =>
    intro q q' h
    simp only [RQ.run] at h
    cases hs : q.step e with
    | none => simp [hs] at h
    | some q1 =>
      simp only [hs, Option.bind_some] at h
      have ih' := ih q1 q' h
      cases e with
      | reserve v =>
        simp only [RQ.step, Option.some.injEq] at hs
        subst hs
        simp only [List.map_append, List.map_cons, List.map_nil, Cell.val, List.append_assoc] at ih'
        simpa [reservedOf, dequeuedOf] using ih'
      | publish v =>
        simp only [RQ.step] at hs
        split at hs
        · simp only [Option.some.injEq] at hs
          subst hs
          rw [publish_map_val] at ih'
          simpa [reservedOf, dequeuedOf] using ih'
        · cases hs
      | deq r =>
        simp only [RQ.step] at hs
        split at hs
        · next v rest =>
          split at hs
          · next hr =>
            simp only [Option.some.injEq] at hs
            subst hs; subst hr
            simp only [List.map_cons, Cell.val, dequeuedOf, reservedOf, List.cons_append]
            rw [ih']
          · cases hs
        · split at hs
          · next hr =>
            simp only [Option.some.injEq] at hs
            subst hs; subst hr
            simpa [reservedOf, dequeuedOf] using ih'
          · cases hs

/-- FIFO in reservation order and exactly-once, on the specification: starting empty, what has been
dequeued so far is a prefix of the reservation sequence, the rest is exactly what is still inside -/
theorem rq_fifo (evs : List Ev) (q : RQ) (h : RQ.run [] evs = some q) :
    reservedOf evs = dequeuedOf evs ++ q.map Cell.val := by
  simpa using rq_run_conserve evs [] q h

/-- a dequeue answers "nothing" only when the head reservation is unpublished or nothing is reserved -/
theorem rq_deq_none (q q' : RQ) (h : q.step (.deq none) = some q') :
    q' = q ∧ (q = [] ∨ ∃ v rest, q = .pending v :: rest) := by
  simp only [RQ.step] at h
  split at h
  · simp at h
  · next hne =>
    simp only [↓reduceIte, Option.some.injEq] at h
    refine ⟨h.symm, ?_⟩
    cases q with
    | nil => exact Or.inl rfl
    | cons c cs =>
      cases c with
      | pending v => exact Or.inr ⟨v, cs, rfl⟩
      | ready v => exact absurd rfl (hne v cs)

end GoaktVerif.C04

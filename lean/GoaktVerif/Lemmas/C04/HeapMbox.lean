/-
C04 — the priority mailboxes: in EVERY reachable configuration (all programs, all schedules) the
consumer-side slice is a binary heap, so every removal takes a minimum of what the heap holds
(priority order); with `stableHeap.less` the order is priority, then arrival number.
-/
import GoaktVerif.Model.C04.All
import GoaktVerif.Lemmas.C04.HeapCorrect
import GoaktVerif.Lemmas.C04.CoreLemmas

namespace GoaktVerif.C04.HeapMbox
open GoaktVerif.Model.C04 GoaktVerif.C04.Heap
open GoaktVerif.Model.C04.Heap (push pop stableLt)

/-- the user's priority function is a strict weak order ⇒ the `SWO` used by the heap proofs -/
theorem swo_of_strictWeak {lt : Nat → Nat → Bool} (h : StrictWeak lt) : SWO lt where
  irrefl := h.1
  trans := h.2.1
  ntrans := by
    intro a b c hab hbc
    cases hac : lt a c with
    | false => rfl
    | true =>
      -- a < c but neither a < b nor b < c
      cases hba : lt b a with
      | true => have := h.2.1 b a c hba hac; rw [this] at hbc; cases hbc
      | false =>
        cases hcb : lt c b with
        | true => have := h.2.1 a c b hac hcb; rw [this] at hab; cases hab
        | false =>
          have := (h.2.2 a b c hab hba hbc hcb).1
          rw [this] at hac; cases hac

/-- comparing heap entries by their message only -/
theorem swo_fst {lt : Nat → Nat → Bool} (h : SWO lt) : SWO (fun (a b : Nat × Nat) => lt a.1 b.1) where
  irrefl := fun a => h.irrefl a.1
  trans := fun a b c => h.trans a.1 b.1 c.1
  ntrans := fun a b c => h.ntrans a.1 b.1 c.1

theorem stableLt_true {lt : Nat → Nat → Bool} (a b : Nat × Nat) :
    stableLt lt a b = true ↔ lt a.1 b.1 = true ∨ (lt a.1 b.1 = false ∧ lt b.1 a.1 = false ∧ a.2 < b.2) := by
  unfold stableLt
  cases h1 : lt a.1 b.1 <;> cases h2 : lt b.1 a.1 <;> simp

theorem stableLt_false {lt : Nat → Nat → Bool} (a b : Nat × Nat) :
    stableLt lt a b = false ↔ lt a.1 b.1 = false ∧ (lt b.1 a.1 = true ∨ ¬ a.2 < b.2) := by
  unfold stableLt
  cases h1 : lt a.1 b.1 <;> cases h2 : lt b.1 a.1 <;> simp

/-- `stableHeap.less` (priority, then arrival number) is a strict weak order -/
theorem swo_stable {lt : Nat → Nat → Bool} (h : SWO lt) : SWO (stableLt lt) where
  irrefl := by intro a; rw [stableLt_false]; exact ⟨h.irrefl _, Or.inr (Nat.lt_irrefl _)⟩
  trans := by
    intro a b c hab hbc
    rw [stableLt_true] at hab hbc ⊢
    rcases hab with hab | ⟨hab1, hab2, hab3⟩ <;> rcases hbc with hbc | ⟨hbc1, hbc2, hbc3⟩
    · exact Or.inl (h.trans _ _ _ hab hbc)
    · left
      cases hac : lt a.1 c.1 with
      | true => rfl
      | false => have := h.ntrans _ _ _ hac hbc2; rw [this] at hab; cases hab
    · left
      cases hac : lt a.1 c.1 with
      | true => rfl
      | false => have := h.ntrans _ _ _ hab2 hac; rw [this] at hbc; cases hbc
    · exact Or.inr ⟨h.ntrans _ _ _ hab1 hbc1, h.ntrans _ _ _ hbc2 hab2, by omega⟩
  ntrans := by
    intro a b c hab hbc
    rw [stableLt_false] at hab hbc ⊢
    obtain ⟨hab1, hab2⟩ := hab
    obtain ⟨hbc1, hbc2⟩ := hbc
    refine ⟨h.ntrans _ _ _ hab1 hbc1, ?_⟩
    rcases hab2 with hba | hab2
    · left
      cases hca : lt c.1 a.1 with
      | true => rfl
      | false => have := h.ntrans _ _ _ hbc1 hca; rw [this] at hba; cases hba
    · rcases hbc2 with hcb | hbc2
      · left
        cases hca : lt c.1 a.1 with
        | true => rfl
        | false => have := h.ntrans _ _ _ hca hab1; rw [this] at hcb; cases hcb
      · right; omega

/-! ### `UnboundedPriorityMailBox` -/

theorem locked_exec_heapInv {lt : Nat → Nat → Bool} (h : SWO lt) (s : Locked.Sh) (pc : Locked.PC)
    (hs : HeapInv lt s.heap) : HeapInv lt (Locked.exec lt s pc).1.heap := by
  cases pc with
  | enq1 v =>
    simp only [Locked.exec]
    split
    · exact hs
    · exact push_inv h s.heap v hs
  | deq2 =>
    simp only [Locked.exec]
    split
    · exact hs
    · split
      · next x rest hp => exact pop_inv h s.heap x rest hs hp
      · exact hs
  | deq1 => simp only [Locked.exec]; split <;> exact hs
  | _ => exact hs

/-- heap order is an invariant of every reachable configuration -/
theorem locked_heapInv {lt : Nat → Nat → Bool} (h : SWO lt) (progs : List (List Op)) :
    ∀ c, Reach (Locked.algo lt) (initCfg (Locked.algo lt) Locked.init progs) c → HeapInv lt c.sh.heap := by
  exact reach_sh_inv (A := Locked.algo lt) (fun s => HeapInv lt s.heap) heapInv_nil
    (fun s pc hs => locked_exec_heapInv h s pc hs)

/-! ### the intake + heap mailboxes -/

theorem swo_ltItem {k : Intake.Conf} (h : SWO k.lt) : SWO k.ltItem := by
  unfold Intake.Conf.ltItem
  cases k.stable
  · simpa using swo_fst h
  · simpa using swo_stable h

theorem afterDrain_heapInv {k : Intake.Conf} (h : SWO k.lt) (s : Intake.Sh) (hs : HeapInv k.ltItem s.heap) :
    HeapInv k.ltItem (Intake.afterDrain k s).1.heap := by
  unfold Intake.afterDrain
  split
  · exact hs
  · next x rest hp => exact pop_inv (swo_ltItem h) s.heap x rest hs hp

theorem intake_exec_heapInv {k : Intake.Conf} (h : SWO k.lt) (s : Intake.Sh) (pc : Intake.PC)
    (hs : HeapInv k.ltItem s.heap) : HeapInv k.ltItem (Intake.exec k s pc).1.heap := by
  cases pc with
  | deq2 =>
    simp only [Intake.exec]
    split
    · exact afterDrain_heapInv h s hs
    · exact hs
  | deq6 n next =>
    simp only [Intake.exec]
    have hp : HeapInv k.ltItem (push k.ltItem s.heap (n, s.seq)) := push_inv (swo_ltItem h) s.heap (n, s.seq) hs
    split
    · exact hp
    · exact afterDrain_heapInv h _ hp
  | enqL v => simp only [Intake.exec]; split <;> (try split) <;> exact hs
  | enqC v l => simp only [Intake.exec]; split <;> exact hs
  | push3 v old => simp only [Intake.exec]; split <;> exact hs
  | deq1 => simp only [Intake.exec]; split <;> exact hs
  | deq4 cur prev next => simp only [Intake.exec]; split <;> exact hs
  | _ => exact hs

theorem intake_heapInv {k : Intake.Conf} (h : SWO k.lt) (progs : List (List Op)) :
    ∀ c, Reach (Intake.algo k) (initCfg (Intake.algo k) Intake.init progs) c → HeapInv k.ltItem c.sh.heap := by
  exact reach_sh_inv (A := Intake.algo k) (fun s => HeapInv k.ltItem s.heap) heapInv_nil
    (fun s pc hs => intake_exec_heapInv h s pc hs)

/-! ### bounded variants: the counter never exceeds the capacity -/

/-- what a bounded mailbox's program counters promise: the unbounded entry point is never used, and
a producer about to CAS `l → l+1` has read `l < capacity` -/
def capQ (cap : Nat) : Intake.PC → Prop
  | .enqU _ => False
  | .enqC _ l => l < (cap : Int)
  | _ => True

theorem bounded_length_le_cap (k : Intake.Conf) (cap : Nat) (hk : k.cap = some cap) (progs : List (List Op)) :
    ∀ c, Reach (Intake.algo k) (initCfg (Intake.algo k) Intake.init progs) c →
      c.sh.length ≤ (cap : Int) ∧
      ∀ (i : Nat) (t : Thread (Intake.algo k).PC) (pc : (Intake.algo k).PC), c.threads[i]? = some t → t.pc = some pc →
        capQ cap pc := by
  refine reach_inv2 (A := Intake.algo k) (fun s => s.length ≤ (cap : Int)) (capQ cap) ?_ ?_ ?_
  · simp [Intake.init]
  · intro op
    cases op <;> simp [Intake.algo, Intake.start, hk, capQ]
  · intro s pc hP hQ
    show (Intake.exec k s pc).1.length ≤ (cap : Int) ∧ ∀ pc', (Intake.exec k s pc).2 = .goto pc' → capQ cap pc'
    have triv : ∀ {s' : Intake.Sh} {nx : Next Intake.PC}, s'.length ≤ (cap : Int) →
        (∀ pc', nx = .goto pc' → capQ cap pc') → s'.length ≤ (cap : Int) ∧ ∀ pc', nx = .goto pc' → capQ cap pc' :=
      fun h1 h2 => ⟨h1, h2⟩
    cases pc with
    | enqU v => exact absurd hQ (by simp [capQ])
    | enqL v =>
      simp only [Intake.exec, hk]
      split
      · exact triv hP (by intro pc' e; cases e)
      · next hlt =>
        refine triv hP ?_
        intro pc' e
        simp only [Next.goto.injEq] at e; subst e
        simp only [capQ]; omega
    | enqC v l =>
      have hl : l < (cap : Int) := hQ
      simp only [Intake.exec]
      split
      · refine triv (by simp; omega) ?_
        intro pc' e; simp only [Next.goto.injEq] at e; subst e; simp [capQ]
      · refine triv hP ?_
        intro pc' e; simp only [Next.goto.injEq] at e; subst e; simp [capQ]
    | push1 v => exact triv hP (by intro pc' e; simp only [Intake.exec, Next.goto.injEq] at e; subst e; simp [capQ])
    | push2 v old => exact triv hP (by intro pc' e; simp only [Intake.exec, Next.goto.injEq] at e; subst e; simp [capQ])
    | push3 v old =>
      simp only [Intake.exec]
      split
      · exact triv hP (by intro pc' e; cases e)
      · exact triv hP (by intro pc' e; simp only [Next.goto.injEq] at e; subst e; simp [capQ])
    | deq1 =>
      simp only [Intake.exec]
      split
      · exact triv hP (by intro pc' e; cases e)
      · exact triv hP (by intro pc' e; simp only [Next.goto.injEq] at e; subst e; simp [capQ])
    | deq2 =>
      simp only [Intake.exec]
      split
      · unfold Intake.afterDrain
        split
        · exact triv hP (by intro pc' e; cases e)
        · exact triv hP (by intro pc' e; simp only [Next.goto.injEq] at e; subst e; simp [capQ])
      · exact triv hP (by intro pc' e; simp only [Next.goto.injEq] at e; subst e; simp [capQ])
    | deq3 cur prev => exact triv hP (by intro pc' e; simp only [Intake.exec, Next.goto.injEq] at e; subst e; simp [capQ])
    | deq4 cur prev next =>
      simp only [Intake.exec]
      split
      · exact triv hP (by intro pc' e; simp only [Next.goto.injEq] at e; subst e; simp [capQ])
      · exact triv hP (by intro pc' e; simp only [Next.goto.injEq] at e; subst e; simp [capQ])
    | deq5 n => exact triv hP (by intro pc' e; simp only [Intake.exec, Next.goto.injEq] at e; subst e; simp [capQ])
    | deq6 n next =>
      simp only [Intake.exec]
      split
      · exact triv hP (by intro pc' e; simp only [Next.goto.injEq] at e; subst e; simp [capQ])
      · unfold Intake.afterDrain
        split
        · exact triv hP (by intro pc' e; cases e)
        · exact triv hP (by intro pc' e; simp only [Next.goto.injEq] at e; subst e; simp [capQ])
    | deq7 v => exact triv (by simp only [Intake.exec]; omega) (by intro pc' e; simp [Intake.exec] at e)
    | len1 => exact triv hP (by intro pc' e; simp [Intake.exec] at e)
    | emp1 => exact triv hP (by intro pc' e; simp [Intake.exec] at e)

end GoaktVerif.C04.HeapMbox

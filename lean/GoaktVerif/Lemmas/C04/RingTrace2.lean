/-
C04 — `NonBlockingBoundedMailbox`: the value invariant is preserved by every step.
-/
import GoaktVerif.Lemmas.C04.RingTrace

namespace GoaktVerif.C04.RingInv
open GoaktVerif.Model.C04 GoaktVerif.Model.C04.Ring

/-- steps that leave `ctx`, `enqPos`, `deqPos`, `size` alone, do not enter `deq4`, and do not change
what the thread has dequeued -/
theorem tr_keep {ct tid : Nat} {c : Cf} {resv : List Nat} {t t' : Th} {s' : Sh} {clk : Nat}
    (hT : TR ct c resv) (ht : c.threads[tid]? = some t)
    (hctx : s'.ctx = c.sh.ctx) (hE : s'.enqPos = c.sh.enqPos) (hD : s'.deqPos = c.sh.deqPos) (hZ : s'.size = c.sh.size)
    (h4 : ∀ pos msg, t'.pc ≠ some (.deq4 pos msg)) (hd : deqdT t' = deqdT t) :
    TR ct ({ sh := s', threads := c.threads.set tid t', clock := clk } : Cf) resv where
  len := by show resv.length = s'.enqPos; rw [hE]; exact hT.len
  ctx := by
    intro p h1 h2
    show s'.ctx (p % s'.size) = resv[p]?
    rw [hctx, hZ]
    exact hT.ctx p (by rw [← hD]; exact h1) (by rw [← hE]; exact h2)
  held := by
    intro i ti pos msg hi hpc
    change (c.threads.set tid t')[i]? = some ti at hi
    by_cases e : i = tid
    · subst e; rw [get_self ht] at hi; injection hi with hi; subst hi; exact absurd hpc (h4 pos msg)
    · rw [get_ne (Ne.symm e)] at hi; exact hT.held i ti pos msg hi hpc
  deqd := by
    intro tc hc
    change (c.threads.set tid t')[ct]? = some tc at hc
    show deqdT tc = resv.take s'.deqPos
    rw [hD]
    by_cases e : ct = tid
    · subst e
      rw [get_self ht] at hc; injection hc with hc; subst hc
      rw [hd]; exact hT.deqd t ht
    · rw [get_ne (Ne.symm e)] at hc
      exact hT.deqd tc hc

theorem stepEvR_eq {c : Cf} {tid : Nat} {t : Th} {pc : PC} (ht : c.threads[tid]? = some t) (hpc : t.pc = some pc) :
    stepEvR c tid = evR c.sh pc := by
  unfold stepEvR; simp [ht, hpc]

theorem pcDeq_nil_of_start (op : Op) : pcDeq (some (start op)) = [] := by cases op <;> rfl

/-- the value invariant is preserved by every step of every thread -/
theorem tr_step (ct tid : Nat) (c : Cf) (resv : List Nat) (hP : P c.sh)
    (hJ : ∀ (i : Nat) (t : Th), c.threads[i]? = some t → J ct i c.sh t) (hT : TR ct c resv) :
    TR ct (stepCfg c tid) (resv ++ stepEvR c tid) := by
  cases ht : c.threads[tid]? with
  | none =>
    have e1 : stepCfg c tid = c := by unfold stepCfg; simp [ht]
    have e2 : stepEvR c tid = [] := by simp [stepEvR, ht]
    rw [e1, e2]; simpa using hT
  | some t =>
    cases hpc : t.pc with
    | none =>
      have e1 : stepCfg c tid = c := by unfold stepCfg; simp [ht, hpc]
      have e2 : stepEvR c tid = [] := by simp [stepEvR, ht, hpc]
      rw [e1, e2]; simpa using hT
    | some pc =>
      have hJt := hJ tid t ht
      rw [stepCfg_eq' ht hpc, stepEvR_eq ht hpc]
      have hz : 0 < c.sh.size := by have := hP.size2; omega
      have hrd := rel_le c.sh
      have hle2 := hP.le2
      -- generic: a finishing step with a non-value result keeps the dequeued list when not at deq4
      have fin_keep : ∀ (r : Res), (∀ v, r ≠ .val v) → pcDeq t.pc = [] → deqdT (t.finish algo r c.clock) = deqdT t := by
        intro r hr hp
        rw [deqdT_finish']
        unfold deqdT
        rw [hp]
        cases r with
        | val v => exact absurd rfl (hr v)
        | _ => rfl
      have fin_pc : ∀ (r : Res) (pos : Nat) (msg : Option Nat), (t.finish algo r c.clock).pc ≠ some (.deq4 pos msg) := by
        intro r pos msg h
        rcases finish_pc' t r c.clock with h' | ⟨op, _, h'⟩
        · rw [h'] at h; cases h
        · rw [h'] at h; cases op <;> simp [start] at h
      cases pc with
      | enq3 v pos =>
        obtain ⟨hle, hfree⟩ := hJt.enq3 v pos hpc
        simp only [exec, evR]
        split
        · next he =>
          -- reservation of position enqPos
          have hfr := hfree he.symm
          have hlt := (P_reserve hP v (by rw [he]; exact hfr)).1
          simp only [↓reduceIte, Thread.advance]
          refine ⟨?_, ?_, ?_, ?_⟩
          · show (resv ++ [v]).length = pos + 1; simp [hT.len, he]
          · intro p h1 h2
            change c.sh.deqPos ≤ p at h1
            change p < pos + 1 at h2
            show (if p % c.sh.size = pos % c.sh.size then some v else c.sh.ctx (p % c.sh.size)) = (resv ++ [v])[p]?
            by_cases e : p = pos
            · subst e
              simp [hT.len, he]
            · have hne : p % c.sh.size ≠ pos % c.sh.size := by
                intro e'
                exact e (mod_inj hz (a := rel c.sh) (p := p) (q := pos) (by omega) (by omega) (by omega) (by omega) e')
              rw [if_neg hne, hT.ctx p h1 (by omega)]
              rw [List.getElem?_append_left (by rw [hT.len]; omega)]
          · intro i ti pos' msg hi hpc'
            change (c.threads.set tid _)[i]? = some ti at hi
            by_cases e : i = tid
            · subst e; rw [get_self ht] at hi; injection hi with hi; subst hi; simp at hpc'
            · rw [get_ne (Ne.symm e)] at hi
              have := hT.held i ti pos' msg hi hpc'
              have hd4 := (hJ i ti hi).deq4 pos' msg hpc'
              have hl1 := hP.le1
              rw [this, List.getElem?_append_left (by rw [hT.len]; omega)]
          · intro tc hc
            change (c.threads.set tid _)[ct]? = some tc at hc
            show deqdT tc = (resv ++ [v]).take c.sh.deqPos
            have hl1 := hP.le1
            rw [List.take_append_of_le_length (by rw [hT.len]; omega)]
            by_cases e : ct = tid
            · subst e
              rw [get_self ht] at hc; injection hc with hc; subst hc
              rw [deqdT_goto t _ rfl (by rw [hpc]; rfl)]
              exact hT.deqd t ht
            · rw [get_ne (Ne.symm e)] at hc; exact hT.deqd tc hc
        · simp only [Thread.advance, List.append_nil]
          refine tr_keep hT ht rfl rfl rfl rfl (by intro _ _ h; simp at h) (deqdT_goto t _ rfl (by rw [hpc]; rfl))
      | deq3 pos =>
        have hi : tid = ct := is_consumer hJt hpc rfl
        obtain ⟨hd, hpub⟩ := hJt.deq3 pos hpc
        have hrel : rel c.sh = c.sh.deqPos := hJt.idle hi (by rw [hpc]; rfl)
        simp only [exec, evR, List.append_nil]
        split
        · have hlt := (P_claim hP hrel (by rw [← hd]; exact hpub)).1
          simp only [Thread.advance]
          have hmsg : c.sh.ctx (pos % c.sh.size) = resv[pos]? := hT.ctx pos (by omega) (by omega)
          refine ⟨?_, ?_, ?_, ?_⟩
          · exact hT.len
          · intro p h1 h2
            change pos + 1 ≤ p at h1
            change p < c.sh.enqPos at h2
            show (if p % c.sh.size = pos % c.sh.size then none else c.sh.ctx (p % c.sh.size)) = resv[p]?
            have hne : p % c.sh.size ≠ pos % c.sh.size := by
              intro e'
              have := mod_inj hz (a := rel c.sh) (p := p) (q := pos) (by omega) (by omega) (by omega) (by omega) e'
              omega
            rw [if_neg hne]; exact hT.ctx p (by omega) h2
          · intro i ti pos' msg hi' hpc'
            change (c.threads.set tid _)[i]? = some ti at hi'
            by_cases e : i = tid
            · subst e; rw [get_self ht] at hi'; injection hi' with hi'; subst hi'
              simp only [Option.some.injEq, PC.deq4.injEq] at hpc'
              obtain ⟨e1, e2⟩ := hpc'; subst e1; subst e2; exact hmsg
            · rw [get_ne (Ne.symm e)] at hi'; exact hT.held i ti pos' msg hi' hpc'
          · intro tc hc
            change (c.threads.set tid _)[ct]? = some tc at hc
            show deqdT tc = resv.take (pos + 1)
            rw [← hi, get_self ht] at hc; injection hc with hc; subst hc
            have hold := hT.deqd t (by rw [← hi]; exact ht)
            have hlen : pos < resv.length := by rw [hT.len]; omega
            unfold deqdT at hold ⊢
            simp only [hpc, pcDeq, List.append_nil] at hold
            show t.hist.reverse.filterMap resVal ++ pcDeq (some (.deq4 pos (c.sh.ctx (pos % c.sh.size)))) = resv.take (pos + 1)
            rw [hmsg, List.getElem?_eq_getElem hlen, hold, ← hd, List.take_succ_eq_append_getElem hlen]
            rfl
        · next hne => exact absurd hd.symm hne
      | deq4 pos msg =>
        have hi : tid = ct := is_consumer hJt hpc rfl
        simp only [exec, evR, List.append_nil]
        have hk : ∀ (r : Res), (match msg with | some v => r = .val v | none => r = .none) →
            TR ct ({ sh := c.sh.setSeq (pos % c.sh.size) (pos + c.sh.size), threads := c.threads.set tid (t.finish algo r c.clock),
                     clock := tick (A := algo) t c.clock (.ret r) } : Cf) resv := by
          intro r hr
          refine tr_keep hT ht rfl rfl rfl rfl (fin_pc r) ?_
          rw [deqdT_finish']
          unfold deqdT
          cases msg with
          | some v => subst hr; simp [hpc, pcDeq]
          | none => subst hr; simp [hpc, pcDeq]
        cases msg with
        | some v => exact hk (.val v) rfl
        | none => exact hk .none rfl
      | enq1 v =>
        simp only [exec, evR, Thread.advance, List.append_nil]
        exact tr_keep hT ht rfl rfl rfl rfl (by intro _ _ h; simp at h) (deqdT_goto t _ rfl (by rw [hpc]; rfl))
      | enq2 v pos =>
        simp only [exec, evR, List.append_nil]
        split
        · simp only [Thread.advance]
          exact tr_keep hT ht rfl rfl rfl rfl (by intro _ _ h; simp at h) (deqdT_goto t _ rfl (by rw [hpc]; rfl))
        · split
          · simp only [Thread.advance]
            exact tr_keep hT ht rfl rfl rfl rfl (fin_pc _) (fin_keep _ (by intro v h; cases h) (by rw [hpc]; rfl))
          · simp only [Thread.advance]
            exact tr_keep hT ht rfl rfl rfl rfl (by intro _ _ h; simp at h) (deqdT_goto t _ rfl (by rw [hpc]; rfl))
      | enq4 v pos =>
        simp only [exec, evR, Thread.advance, List.append_nil]
        exact tr_keep hT ht rfl rfl rfl rfl (fin_pc _) (fin_keep _ (by intro v h; cases h) (by rw [hpc]; rfl))
      | enq5 v =>
        simp only [exec, evR, Thread.advance, List.append_nil]
        exact tr_keep hT ht rfl rfl rfl rfl (by intro _ _ h; simp at h) (deqdT_goto t _ rfl (by rw [hpc]; rfl))
      | deq1 =>
        simp only [exec, evR, Thread.advance, List.append_nil]
        exact tr_keep hT ht rfl rfl rfl rfl (by intro _ _ h; simp at h) (deqdT_goto t _ rfl (by rw [hpc]; rfl))
      | deq2 pos =>
        simp only [exec, evR, List.append_nil]
        split
        · simp only [Thread.advance]
          exact tr_keep hT ht rfl rfl rfl rfl (by intro _ _ h; simp at h) (deqdT_goto t _ rfl (by rw [hpc]; rfl))
        · split
          · simp only [Thread.advance]
            exact tr_keep hT ht rfl rfl rfl rfl (fin_pc _) (fin_keep _ (by intro v h; cases h) (by rw [hpc]; rfl))
          · simp only [Thread.advance]
            exact tr_keep hT ht rfl rfl rfl rfl (by intro _ _ h; simp at h) (deqdT_goto t _ rfl (by rw [hpc]; rfl))
      | deq5 =>
        simp only [exec, evR, Thread.advance, List.append_nil]
        exact tr_keep hT ht rfl rfl rfl rfl (by intro _ _ h; simp at h) (deqdT_goto t _ rfl (by rw [hpc]; rfl))
      | len1 e =>
        simp only [exec, evR, Thread.advance, List.append_nil]
        exact tr_keep hT ht rfl rfl rfl rfl (by intro _ _ h; simp at h) (deqdT_goto t _ rfl (by rw [hpc]; rfl))
      | len2 e enq =>
        simp only [exec, evR, Thread.advance, List.append_nil]
        refine tr_keep hT ht rfl rfl rfl rfl (fin_pc _) (fin_keep _ ?_ (by rw [hpc]; rfl))
        intro v h; split at h <;> cases h

theorem tr_init (ct cap : Nat) (progs : List (List Op)) : TR ct (initCfg Ring.algo (Ring.init cap) progs) [] where
  len := rfl
  ctx := by intro p _ h2; change p < 0 at h2; omega
  held := by
    intro i t pos msg hi hpc
    obtain ⟨p, k, _, e⟩ := spawn_get' Ring.algo progs 0 i t hi
    subst e
    rcases mk_pc' p k with h' | ⟨op, _, h'⟩
    · rw [h'] at hpc; cases hpc
    · rw [h'] at hpc; cases op <;> simp [start] at hpc
  deqd := by
    intro t hi
    obtain ⟨p, k, _, e⟩ := spawn_get' Ring.algo progs 0 ct t hi
    subst e
    unfold deqdT
    have hh : (mkThread Ring.algo p k).hist = [] := by unfold mkThread; cases p <;> rfl
    rw [hh]
    rcases mk_pc' p k with h' | ⟨op, _, h'⟩
    · rw [h']; rfl
    · rw [h', pcDeq_nil_of_start]; rfl

theorem tr_run (ct cap : Nat) (progs : List (List Op)) (wf : RingWF ct progs) :
    ∀ (sched : List Nat) (c : Cf) (resv : List Nat),
      Reach Ring.algo (initCfg Ring.algo (Ring.init cap) progs) c → TR ct c resv →
      TR ct (runSched c sched) (resv ++ resvTrace c sched)
  | [], c, resv, _, hT => by simpa [runSched, resvTrace] using hT
  | t :: ts, c, resv, hr, hT => by
    obtain ⟨hP, hJ, _⟩ := ring_inv ct cap progs wf c hr
    have h1 := tr_step ct t c resv hP hJ hT
    have := tr_run ct cap progs wf ts (stepCfg c t) _ (Reach.step t hr) h1
    simpa [runSched, resvTrace, List.append_assoc] using this

end GoaktVerif.C04.RingInv

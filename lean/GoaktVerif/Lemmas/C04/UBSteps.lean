/-
C04 — UnboundedMailbox: preservation of the simulation invariant, one lemma per kind of step.
-/
import GoaktVerif.Lemmas.C04.UBSim

namespace GoaktVerif.C04.UB
open GoaktVerif.Model.C04 GoaktVerif.Model.C04.Unbounded GoaktVerif.Spec.C04

/-! ### K1: steps that change neither the shared state nor the abstract queue -/

theorem inv_local {ct tid : Nat} {c : Cf} {cells : List Cell} {t t' : Th} (clk : Nat)
    (hI : Inv ct c cells) (ht : c.threads[tid]? = some t)
    (hself : ThreadOK ct c.sh cells tid t') (hsub : ∀ v ∈ owned t', v ∈ owned t)
    (hne : ∀ a b, t.pc ≠ some (PC.enq3 b a))
    (hret : ∀ h n, t'.pc ≠ some (PC.deq4 h n)) :
    Inv ct ({ sh := c.sh, threads := c.threads.set tid t', clock := clk } : Cf) cells := by
  refine Inv.update hI ht ?_ hI.nodup hself (fun i ti _ hi => hI.thr i ti hi) hsub ?_
  · exact Chain.frame cells c.sh.head (fun _ _ => rfl) rfl
      (fun x y _ h => pendOf_set_keep ht (hne x y) h) hI.chain
  · intro h n hpc; exact absurd hpc (hret h n)

/-- moving to a program counter that owns nothing -/
theorem threadOK_goto {ct : Nat} {s : Sh} {cells : List Cell} {i : Nat} {t : Th} (pc' : PC)
    (hnd : (enqIds t.prog).Nodup) (hout : ∀ v ∈ enqIds t.prog, v ∉ s.head :: vals cells)
    (hcons : i ≠ ct → Op.deq ∉ t.prog) (hnew : pcOwned (some pc') = [])
    (h2 : ∀ h, pc' = .deq2 h → h = s.head)
    (h3 : ∀ h n, pc' = .deq3 h n → h = s.head ∧ s.next h = some n)
    (h4 : ∀ h n, pc' = .deq4 h n → n = s.head ∧ h ∉ s.head :: vals cells)
    (hc : i ≠ ct → isDeqPC pc' = false) : ThreadOK ct s cells i { t with pc := some pc' } where
  ownedNodup := by
    unfold owned
    simpa [hnew] using hnd
  freshOut := by
    intro v hv
    apply hout v
    unfold fresh at hv
    have : pcFresh (some pc') = [] := by
      cases pc' <;> simp_all [pcFresh, pcOwned]
    simpa [this] using hv
  enq2 := by intro v h; simp only [Option.some.injEq] at h; subst h; simp [pcOwned] at hnew
  enq3 := by intro v p h; simp only [Option.some.injEq] at h; subst h; simp [pcOwned] at hnew
  deq2 := by intro h e; simp only [Option.some.injEq] at e; exact h2 h e
  deq3 := by intro h n e; simp only [Option.some.injEq] at e; exact h3 h n e
  deq4 := by intro h n e; simp only [Option.some.injEq] at e; exact h4 h n e
  cons := by
    intro hi
    refine ⟨?_, hcons hi⟩
    intro pc hpc
    simp only [Option.some.injEq] at hpc
    subst hpc
    exact hc hi

theorem threadOK_goto_same {ct : Nat} {s : Sh} {cells : List Cell} {i : Nat} {t : Th} (pc' : PC)
    (ok : ThreadOK ct s cells i t) (hnew : pcOwned (some pc') = [])
    (h2 : ∀ h, pc' = .deq2 h → h = s.head)
    (h3 : ∀ h n, pc' = .deq3 h n → h = s.head ∧ s.next h = some n)
    (h4 : ∀ h n, pc' = .deq4 h n → n = s.head ∧ h ∉ s.head :: vals cells)
    (hc : i ≠ ct → isDeqPC pc' = false) : ThreadOK ct s cells i { t with pc := some pc' } :=
  threadOK_goto pc' (enqIds_nodup_of_owned ok.ownedNodup) (fun v hv => ok.freshOut v (enqIds_sub_fresh t v hv))
    (fun hi => (ok.cons hi).2) hnew h2 h3 h4 hc

theorem owned_goto_plain {t : Th} (pc' : PC) (hnew : pcOwned (some pc') = []) :
    ∀ v ∈ owned ({ t with pc := some pc' } : Th), v ∈ owned t := by
  intro v hv
  unfold owned at hv ⊢
  simp only [hnew, List.nil_append] at hv
  exact List.mem_append_right _ hv

/-- the finished thread of a local step -/
theorem inv_local_finish {ct tid : Nat} {c : Cf} {cells : List Cell} {t : Th} (r : Res) (clk : Nat)
    (hI : Inv ct c cells) (ht : c.threads[tid]? = some t) (hne : ∀ a b, t.pc ≠ some (PC.enq3 b a)) :
    Inv ct ({ sh := c.sh, threads := c.threads.set tid (t.finish algo r c.clock), clock := clk } : Cf) cells := by
  have ok := hI.thr tid t ht
  refine inv_local clk hI ht ?_ ?_ hne ?_
  · exact threadOK_finish r c.clock (enqIds_nodup_of_owned ok.ownedNodup)
      (fun v hv => ok.freshOut v (enqIds_sub_fresh t v hv)) (fun hi => (ok.cons hi).2)
  · intro v hv; rw [owned_finish] at hv; exact enqIds_sub_owned t v hv
  · intro h n hpc
    rcases finish_pc t r c.clock with h' | ⟨op, _, h'⟩
    · rw [h'] at hpc; cases hpc
    · rw [h'] at hpc; cases op <;> simp [start] at hpc

/-! ### K2: `Store:next` of Enqueue (value.next := nil) -/

theorem owned_enq1 {t : Th} {v : Nat} (hpc : t.pc = some (.enq1 v)) : owned t = v :: enqIds t.prog := by
  unfold owned; rw [hpc]; rfl

theorem owned_enq2 {t : Th} {v : Nat} (hpc : t.pc = some (.enq2 v)) : owned t = v :: enqIds t.prog := by
  unfold owned; rw [hpc]; rfl

theorem owned_enq3 {t : Th} {v p : Nat} (hpc : t.pc = some (.enq3 v p)) : owned t = v :: enqIds t.prog := by
  unfold owned; rw [hpc]; rfl

theorem fresh_enq1 {t : Th} {v : Nat} (hpc : t.pc = some (.enq1 v)) : fresh t = v :: enqIds t.prog := by
  unfold fresh; rw [hpc]; rfl

theorem fresh_enq2 {t : Th} {v : Nat} (hpc : t.pc = some (.enq2 v)) : fresh t = v :: enqIds t.prog := by
  unfold fresh; rw [hpc]; rfl

theorem inv_enq1 {ct tid : Nat} {c : Cf} {cells : List Cell} {t : Th} {v : Nat} (clk : Nat)
    (hI : Inv ct c cells) (ht : c.threads[tid]? = some t) (hpc : t.pc = some (.enq1 v)) :
    Inv ct ({ sh := c.sh.setNext v none, threads := c.threads.set tid { t with pc := some (.enq2 v) }, clock := clk } : Cf) cells := by
  have ok := hI.thr tid t ht
  have hv : v ∉ c.sh.head :: vals cells := ok.freshOut v (by rw [fresh_enq1 hpc]; simp)
  have hnx : ∀ x ∈ c.sh.head :: vals cells, (c.sh.setNext v none).next x = c.sh.next x := by
    intro x hx
    have : x ≠ v := fun e => hv (e ▸ hx)
    simp [Sh.setNext, this]
  refine Inv.update hI ht ?_ hI.nodup ?_ ?_ ?_ ?_
  · exact Chain.frame cells c.sh.head hnx rfl
      (fun x y _ h => pendOf_set_keep ht (by rw [hpc]; simp) h) hI.chain
  · refine ⟨?_, ?_, ?_, ?_, ?_, ?_, ?_, ?_⟩
    · have := ok.ownedNodup; rw [owned_enq1 hpc] at this; rw [owned_enq2 (t := { t with pc := some (.enq2 v) }) rfl]; exact this
    · intro x hx
      rw [fresh_enq2 (t := { t with pc := some (.enq2 v) }) rfl] at hx
      exact ok.freshOut x (by rw [fresh_enq1 hpc]; exact hx)
    · intro x hx; simp only [Option.some.injEq, PC.enq2.injEq] at hx; subst hx; simp [Sh.setNext]
    · intro x p hx; simp at hx
    · intro h hx; simp at hx
    · intro h n hx; simp at hx
    · intro h n hx; simp at hx
    · intro hi; refine ⟨?_, (ok.cons hi).2⟩
      intro pc e; simp only [Option.some.injEq] at e; subst e; rfl
  · intro i ti hi hti
    have oki := hI.thr i ti hti
    refine ⟨oki.ownedNodup, oki.freshOut, ?_, oki.enq3, oki.deq2, ?_, oki.deq4, oki.cons⟩
    · intro x hx
      by_cases e : x = v
      · subst e; simp [Sh.setNext]
      · simp [Sh.setNext, e]; exact oki.enq2 x hx
    · intro h n hx
      have := oki.deq3 h n hx
      refine ⟨this.1, ?_⟩
      rw [hnx h (by rw [this.1]; simp)]
      exact this.2
  · intro x hx
    rw [owned_enq2 (t := { t with pc := some (.enq2 v) }) rfl] at hx
    rw [owned_enq1 hpc]; exact hx
  · intro h n hx; simp at hx

/-! ### K3: `Swap:tail` = reserve -/

theorem not_mem_snoc {x h v : Nat} {l : List Nat} (h1 : x ∉ h :: l) (h2 : x ≠ v) : x ∉ h :: (l ++ [v]) := by
  simp only [List.mem_cons, List.mem_append, List.mem_singleton, List.not_mem_nil, or_false, not_or] at h1 ⊢
  exact ⟨h1.1, h1.2, h2⟩

theorem nodup_snoc {h v : Nat} {l : List Nat} (h1 : (h :: l).Nodup) (h2 : v ∉ h :: l) : (h :: (l ++ [v])).Nodup := by
  have hl : (l ++ [v]).Nodup := by
    rw [List.nodup_append]
    refine ⟨(List.nodup_cons.mp h1).2, by simp, ?_⟩
    intro a ha b hb
    simp only [List.mem_singleton] at hb
    subst hb
    intro e; subst e
    exact h2 (List.mem_cons_of_mem _ ha)
  refine List.nodup_cons.mpr ⟨?_, hl⟩
  have hh : h ≠ v := fun e => h2 (by rw [e]; simp)
  have := (List.nodup_cons.mp h1).1
  simp only [List.mem_append, List.mem_singleton, not_or]
  exact ⟨this, hh⟩

theorem inv_enq2 {ct tid : Nat} {c : Cf} {cells : List Cell} {t : Th} {v : Nat} (clk : Nat)
    (hI : Inv ct c cells) (ht : c.threads[tid]? = some t) (hpc : t.pc = some (.enq2 v)) :
    Inv ct ({ sh := { c.sh with tail := v }, threads := c.threads.set tid { t with pc := some (.enq3 v c.sh.tail) }, clock := clk } : Cf)
      (cells ++ [.pending v]) := by
  have ok := hI.thr tid t ht
  have hv : v ∉ c.sh.head :: vals cells := ok.freshOut v (by rw [fresh_enq2 hpc]; simp)
  have hown := ok.ownedNodup
  rw [owned_enq2 hpc] at hown
  have hvals : vals (cells ++ [Cell.pending v]) = vals cells ++ [v] := by simp [vals, Cell.val]
  refine Inv.update hI ht ?_ ?_ ?_ ?_ ?_ ?_
  · exact Chain.snoc v (ok.enq2 v hpc) (fun x y h => pendOf_set_keep ht (by rw [hpc]; simp) h)
      (pendOf_set_new ht rfl) cells c.sh.head hI.chain
  · show (c.sh.head :: vals (cells ++ [Cell.pending v])).Nodup
    rw [hvals]
    exact nodup_snoc hI.nodup hv
  · refine ⟨?_, ?_, ?_, ?_, ?_, ?_, ?_, ?_⟩
    · rw [owned_enq3 (t := { t with pc := some (.enq3 v c.sh.tail) }) rfl]; exact hown
    · intro x hx
      have hx' : x ∈ enqIds t.prog := by
        unfold fresh at hx; simpa [pcFresh] using hx
      have h1 := ok.freshOut x (enqIds_sub_fresh t x hx')
      have h2 : x ≠ v := by
        intro e; subst e; exact (List.nodup_cons.mp hown).1 hx'
      show x ∉ c.sh.head :: vals (cells ++ [Cell.pending v])
      rw [hvals]
      exact not_mem_snoc h1 h2
    · intro x hx; simp at hx
    · intro x p hx
      simp only [Option.some.injEq, PC.enq3.injEq] at hx
      obtain ⟨e1, e2⟩ := hx; subst e1; subst e2
      exact Chain.pendLink_snoc v cells c.sh.head hI.chain
    · intro h hx; simp at hx
    · intro h n hx; simp at hx
    · intro h n hx; simp at hx
    · intro hi; refine ⟨?_, (ok.cons hi).2⟩
      intro pc e; simp only [Option.some.injEq] at e; subst e; rfl
  · intro i ti hi hti
    have oki := hI.thr i ti hti
    have hvi : v ∉ owned ti := hI.disj tid i t ti (Ne.symm hi) ht hti v (by rw [owned_enq2 hpc]; simp)
    refine ⟨oki.ownedNodup, ?_, oki.enq2, ?_, oki.deq2, oki.deq3, ?_, oki.cons⟩
    · intro x hx
      have h1 := oki.freshOut x hx
      have h2 : x ≠ v := fun e => hvi (e ▸ fresh_sub_owned ti x hx)
      show x ∉ c.sh.head :: vals (cells ++ [Cell.pending v])
      rw [hvals]
      exact not_mem_snoc h1 h2
    · intro x p hx
      exact pendLink_append cells _ c.sh.head p x (oki.enq3 x p hx)
    · intro h n hx
      have h1 := oki.deq4 h n hx
      have h2 : h ≠ v := by
        intro e
        have := hI.retired i tid ti t h n hti hx ht
        rw [owned_enq2 hpc] at this
        exact this (by rw [e]; simp)
      refine ⟨h1.1, ?_⟩
      show h ∉ c.sh.head :: vals (cells ++ [Cell.pending v])
      rw [hvals]
      exact not_mem_snoc h1.2 h2
  · intro x hx
    rw [owned_enq3 (t := { t with pc := some (.enq3 v c.sh.tail) }) rfl] at hx
    rw [owned_enq2 hpc]; exact hx
  · intro h n hx; simp at hx

end GoaktVerif.C04.UB

/-
C04 — Treiber intake: CONSERVATION.  With `pushed` the messages in the order of the successful
`CAS:head` (the acceptance order) and `inserted` the messages in the order in which the consumer moved
them into the heap: for every run  inserted ++ (rest of the current batch) ++ reverse(stack) = pushed.
So the heap receives exactly the accepted messages, each once, in acceptance order (arrival numbers
of the stable variants = position in `pushed`), and what is not yet in the heap is still in the batch
or on the stack — nothing is lost or duplicated between Enqueue and the heap.
-/
import GoaktVerif.Lemmas.C04.IntakeMain
import GoaktVerif.Lemmas.C04.HeapCorrect

namespace GoaktVerif.C04.IntakeInv
open GoaktVerif.Model.C04 GoaktVerif.Model.C04.Intake

variable {k : Conf}

abbrev Cf (k : Conf) := Cfg (algo k)

inductive IEv where
  | push (v : Nat)     -- successful CAS:head of Enqueue(v)
  | ins (v : Nat)      -- v moved from the batch into the heap
  | pop (v : Nat)      -- v popped from the heap (the value this Dequeue will return)

/-- the pop performed by the consumer-side code after the intake has been moved into the heap -/
def popEv (k : Conf) (s : Sh) : List IEv :=
  match Heap.pop k.ltItem s.heap with
  | some (x, _) => [.pop x.1]
  | none => []

def evI (k : Conf) (s : Sh) : PC → List IEv
  | .push3 v old => if s.head = old then [.push v] else []
  | .deq2 => if s.head = none then popEv k s else []
  | .deq6 n nxt => .ins n :: (if nxt = none then popEv k (s.moveToHeap k n) else [])
  | _ => []

def stepEvI (c : Cf k) (tid : Nat) : List IEv :=
  match c.threads[tid]? with
  | some t => match t.pc with
    | some pc => evI k c.sh pc
    | none => []
  | none => []

def traceI (c : Cf k) : List Nat → List IEv
  | [] => []
  | t :: ts => stepEvI c t ++ traceI (stepCfg c t) ts

def pushedOf : List IEv → List Nat
  | [] => []
  | .push v :: es => v :: pushedOf es
  | _ :: es => pushedOf es

def insertedOf : List IEv → List Nat
  | [] => []
  | .ins v :: es => v :: insertedOf es
  | _ :: es => insertedOf es

def poppedOf : List IEv → List Nat
  | [] => []
  | .pop v :: es => v :: poppedOf es
  | _ :: es => poppedOf es

theorem poppedOf_append (a b : List IEv) : poppedOf (a ++ b) = poppedOf a ++ poppedOf b := by
  induction a with
  | nil => rfl
  | cons e es ih => cases e <;> simp [poppedOf, ih]

theorem popEv_facts (k : Conf) (s : Sh) : pushedOf (popEv k s) = [] ∧ insertedOf (popEv k s) = [] := by
  unfold popEv; split <;> exact ⟨rfl, rfl⟩

theorem pushedOf_append (a b : List IEv) : pushedOf (a ++ b) = pushedOf a ++ pushedOf b := by
  induction a with
  | nil => rfl
  | cons e es ih => cases e <;> simp [pushedOf, ih]

theorem insertedOf_append (a b : List IEv) : insertedOf (a ++ b) = insertedOf a ++ insertedOf b := by
  induction a with
  | nil => rfl
  | cons e es ih => cases e <;> simp [insertedOf, ih]

structure TRI (k : Conf) (s : Sh) (evs : List IEv) : Prop where
  cons : insertedOf evs ++ s.batch.drop s.done ++ s.stack.reverse = pushedOf evs
  seq : k.stable = true → s.seq = (insertedOf evs).length
  /-- what is in the heap, together with what has been popped, is exactly what has been inserted -/
  heap : (s.heap.map Prod.fst ++ poppedOf evs).Perm (insertedOf evs)

theorem tri_same {s s' : Sh} {evs : List IEv} (h : TRI k s evs) (h3 : s'.stack = s.stack) (h4 : s'.batch = s.batch)
    (h5 : s'.done = s.done) (h6 : s'.seq = s.seq) (h7 : s'.heap = s.heap) : TRI k s' evs :=
  ⟨by rw [h3, h4, h5]; exact h.cons, by rw [h6]; exact h.seq, by rw [h7]; exact h.heap⟩

/-- the pop (or nil answer) after the intake has been moved into the heap -/
theorem tri_afterDrain {s : Sh} {evs : List IEv} (h : TRI k s evs) : TRI k (afterDrain k s).1 (evs ++ popEv k s) := by
  cases hp : Heap.pop k.ltItem s.heap with
  | none =>
    have e1 : afterDrain k s = (s, .ret .none) := by unfold afterDrain; rw [hp]
    have e2 : popEv k s = [] := by unfold popEv; rw [hp]
    rw [e1, e2]; simpa using h
  | some pr =>
    obtain ⟨x, rest⟩ := pr
    have e1 : afterDrain k s = ({ s with heap := rest }, .goto (.deq7 x.1)) := by unfold afterDrain; rw [hp]
    have e2 : popEv k s = [.pop x.1] := by unfold popEv; rw [hp]
    rw [e1, e2]
    refine ⟨?_, ?_, ?_⟩
    · rw [insertedOf_append, pushedOf_append]; simpa [insertedOf, pushedOf] using h.cons
    · intro hs; rw [insertedOf_append]; simpa [insertedOf] using h.seq hs
    · rw [insertedOf_append, poppedOf_append]
      show (rest.map Prod.fst ++ (poppedOf evs ++ [x.1])).Perm (insertedOf evs ++ [])
      have hperm : (x :: rest).Perm s.heap := GoaktVerif.C04.Heap.pop_perm s.heap x rest hp
      have h1 : (x.1 :: rest.map Prod.fst).Perm (s.heap.map Prod.fst) := by simpa using hperm.map Prod.fst
      have h2 : (rest.map Prod.fst ++ (poppedOf evs ++ [x.1])).Perm (x.1 :: rest.map Prod.fst ++ poppedOf evs) := by
        rw [← List.append_assoc]
        exact (List.perm_append_comm (l₁ := rest.map Prod.fst ++ poppedOf evs) (l₂ := [x.1]))
      rw [List.append_nil]
      exact h2.trans ((h1.append_right _).trans h.heap)

/-- one node of the batch is unlinked and pushed into the heap -/
theorem tri_move {s : Sh} {evs : List IEv} {n : Nat} (h : TRI k s evs) (hget : s.batch[s.done]? = some n) :
    TRI k (s.moveToHeap k n) (evs ++ [IEv.ins n]) := by
  have hdrop := drop_of_get hget
  refine ⟨?_, ?_, ?_⟩
  · rw [insertedOf_append, pushedOf_append]
    show (insertedOf evs ++ insertedOf [IEv.ins n]) ++ s.batch.drop (s.done + 1) ++ s.stack.reverse = pushedOf evs ++ pushedOf [IEv.ins n]
    simp only [insertedOf, pushedOf, List.append_nil]
    rw [← h.cons, hdrop]; simp [List.append_assoc]
  · intro hs
    rw [insertedOf_append]
    show (if k.stable then s.seq + 1 else s.seq) = (insertedOf evs ++ insertedOf [IEv.ins n]).length
    simp only [hs, ↓reduceIte, insertedOf, List.length_append, List.length_cons, List.length_nil]
    rw [h.seq hs]
  · rw [insertedOf_append, poppedOf_append]
    show ((Heap.push k.ltItem s.heap (n, s.seq)).map Prod.fst ++ (poppedOf evs ++ [])).Perm (insertedOf evs ++ [n])
    have hperm : (Heap.push k.ltItem s.heap (n, s.seq)).Perm ((n, s.seq) :: s.heap) := GoaktVerif.C04.Heap.push_perm s.heap (n, s.seq)
    have h1 : ((Heap.push k.ltItem s.heap (n, s.seq)).map Prod.fst).Perm (n :: s.heap.map Prod.fst) := by simpa using hperm.map Prod.fst
    rw [List.append_nil]
    have h2 : (n :: s.heap.map Prod.fst ++ poppedOf evs).Perm (n :: insertedOf evs) := List.Perm.cons n h.heap
    have h3 : (n :: insertedOf evs).Perm (insertedOf evs ++ [n]) := (List.perm_append_comm (l₁ := [n]) (l₂ := insertedOf evs))
    exact ((h1.append_right _).trans h2).trans h3

/-- conservation is preserved by every step of every thread -/
theorem tri_step (ct tid : Nat) (c : Cf k) (evs : List IEv)
    (hJ : ∀ (i : Nat) (t : Th), c.threads[i]? = some t → J ct i c.sh t) (hT : TRI k c.sh evs) :
    TRI k (stepCfg c tid).sh (evs ++ stepEvI c tid) := by
  cases ht : c.threads[tid]? with
  | none =>
    have e1 : stepCfg c tid = c := by unfold stepCfg; simp [ht]
    have e2 : stepEvI c tid = [] := by simp [stepEvI, ht]
    rw [e1, e2]; simpa using hT
  | some t =>
    cases hpc : t.pc with
    | none =>
      have e1 : stepCfg c tid = c := by unfold stepCfg; simp [ht, hpc]
      have e2 : stepEvI c tid = [] := by simp [stepEvI, ht, hpc]
      rw [e1, e2]; simpa using hT
    | some pc =>
      have hJt := hJ tid t ht
      have e1 : (stepCfg c tid).sh = (exec k c.sh pc).1 := by unfold stepCfg; simp [ht, hpc]
      have e2 : stepEvI c tid = evI k c.sh pc := by simp [stepEvI, ht, hpc]
      rw [e1, e2]
      cases pc with
      | push3 v old =>
        simp only [exec, evI]
        split
        · refine ⟨?_, ?_, ?_⟩
          · rw [insertedOf_append, pushedOf_append]
            show (insertedOf evs ++ insertedOf [IEv.push v]) ++ c.sh.batch.drop c.sh.done ++ (v :: c.sh.stack).reverse = pushedOf evs ++ pushedOf [IEv.push v]
            simp only [insertedOf, pushedOf, List.append_nil, List.reverse_cons]
            rw [← hT.cons]; simp [List.append_assoc]
          · intro hs; rw [insertedOf_append]; simp only [insertedOf, List.append_nil]; exact hT.seq hs
          · rw [insertedOf_append, poppedOf_append]; simpa [insertedOf, poppedOf] using hT.heap
        · simpa using hT
      | deq2 =>
        have hi : tid = ct := is_consumer hJt hpc rfl
        have hid : c.sh.done = c.sh.batch.length := hJt.idle hi (by rw [hpc]; rfl)
        simp only [exec, evI]
        split
        · next hh => rw [if_pos hh]; exact tri_afterDrain hT
        · next b hb =>
          rw [if_neg (by rw [hb]; simp), List.append_nil]
          refine ⟨?_, hT.seq, hT.heap⟩
          show insertedOf evs ++ c.sh.stack.reverse.drop 0 ++ ([] : List Nat).reverse = pushedOf evs
          have := hT.cons
          rw [hid, List.drop_length] at this
          simpa using this
      | deq6 n nxt =>
        obtain ⟨hget, _⟩ := hJt.c6 n nxt hpc
        have base := tri_move (k := k) hT hget
        simp only [exec, evI]
        cases nxt with
        | some nx => simpa using base
        | none =>
          have := tri_afterDrain (k := k) base
          simpa [List.append_assoc] using this
      | enqU v => simp only [exec, evI, List.append_nil]; exact tri_same hT rfl rfl rfl rfl rfl
      | enqL v => simp only [exec, evI, List.append_nil]; split <;> (try split) <;> exact hT
      | enqC v l =>
        simp only [exec, evI, List.append_nil]; split
        · exact tri_same hT rfl rfl rfl rfl rfl
        · exact hT
      | push1 v => simpa [exec, evI] using hT
      | push2 v old => simp only [exec, evI, List.append_nil]; exact tri_same hT rfl rfl rfl rfl rfl
      | deq1 => simp only [exec, evI, List.append_nil]; split <;> exact hT
      | deq3 a b => simpa [exec, evI] using hT
      | deq4 a b c' => simp only [exec, evI, List.append_nil]; cases c' <;> exact tri_same hT rfl rfl rfl rfl rfl
      | deq5 a => simpa [exec, evI] using hT
      | deq7 v => simp only [exec, evI, List.append_nil]; exact tri_same hT rfl rfl rfl rfl rfl
      | len1 => simpa [exec, evI] using hT
      | emp1 => simpa [exec, evI] using hT

theorem tri_run (ct : Nat) (progs : List (List Op)) (wf : IntakeWF ct progs) :
    ∀ (sched : List Nat) (c : Cf k) (evs : List IEv),
      Reach (algo k) (initCfg (algo k) Intake.init progs) c → TRI k c.sh evs →
      TRI k (runSched c sched).sh (evs ++ traceI c sched)
  | [], c, evs, _, hT => by simpa [runSched, traceI] using hT
  | t :: ts, c, evs, hr, hT => by
    obtain ⟨_, hJ, _⟩ := intake_inv (k := k) ct progs wf c hr
    have h1 := tri_step ct t c evs hJ hT
    have := tri_run ct progs wf ts (stepCfg c t) _ (Reach.step t hr) h1
    simpa [runSched, traceI, List.append_assoc] using this

end GoaktVerif.C04.IntakeInv

/-
C04 — Treiber intake: CONSERVATION.  With `pushed` the messages in the order of the successful
`CAS:head` (the acceptance order) and `inserted` the messages in the order in which the consumer moved
them into the heap: for every run  inserted ++ (rest of the current batch) ++ reverse(stack) = pushed.
So the heap receives exactly the accepted messages, each once, in acceptance order (arrival numbers
of the stable variants = position in `pushed`), and what is not yet in the heap is still in the batch
or on the stack — nothing is lost or duplicated between Enqueue and the heap.
-/
import GoaktVerif.Lemmas.C04.IntakeMain

namespace GoaktVerif.C04.IntakeInv
open GoaktVerif.Model.C04 GoaktVerif.Model.C04.Intake

variable {k : Conf}

abbrev Cf (k : Conf) := Cfg (algo k)

inductive IEv where
  | push (v : Nat)
  | ins (v : Nat)

def evI (s : Sh) : PC → List IEv
  | .push3 v old => if s.head = old then [.push v] else []
  | .deq6 n _ => [.ins n]
  | _ => []

def stepEvI (c : Cf k) (tid : Nat) : List IEv :=
  match c.threads[tid]? with
  | some t => match t.pc with
    | some pc => evI c.sh pc
    | none => []
  | none => []

def traceI (c : Cf k) : List Nat → List IEv
  | [] => []
  | t :: ts => stepEvI c t ++ traceI (stepCfg c t) ts

def pushedOf : List IEv → List Nat
  | [] => []
  | .push v :: es => v :: pushedOf es
  | _ :: es => pushedOf es

def insertedOf : List IEv → List Nat
  | [] => []
  | .ins v :: es => v :: insertedOf es
  | _ :: es => insertedOf es

theorem pushedOf_append (a b : List IEv) : pushedOf (a ++ b) = pushedOf a ++ pushedOf b := by
  induction a with
  | nil => rfl
  | cons e es ih => cases e <;> simp [pushedOf, ih]

theorem insertedOf_append (a b : List IEv) : insertedOf (a ++ b) = insertedOf a ++ insertedOf b := by
  induction a with
  | nil => rfl
  | cons e es ih => cases e <;> simp [insertedOf, ih]

structure TRI (k : Conf) (s : Sh) (evs : List IEv) : Prop where
  cons : insertedOf evs ++ s.batch.drop s.done ++ s.stack.reverse = pushedOf evs
  seq : k.stable = true → s.seq = (insertedOf evs).length

theorem afterDrain_seq (s : Sh) : (afterDrain k s).1.seq = s.seq := by
  unfold afterDrain; split <;> rfl

theorem tri_same {s s' : Sh} {evs : List IEv} (h : TRI k s evs) (h3 : s'.stack = s.stack) (h4 : s'.batch = s.batch)
    (h5 : s'.done = s.done) (h6 : s'.seq = s.seq) : TRI k s' evs :=
  ⟨by rw [h3, h4, h5]; exact h.cons, by rw [h6]; exact h.seq⟩

/-- conservation is preserved by every step of every thread -/
theorem tri_step (ct tid : Nat) (c : Cf k) (evs : List IEv)
    (hJ : ∀ (i : Nat) (t : Th), c.threads[i]? = some t → J ct i c.sh t) (hT : TRI k c.sh evs) :
    TRI k (stepCfg c tid).sh (evs ++ stepEvI c tid) := by
  cases ht : c.threads[tid]? with
  | none =>
    have e1 : stepCfg c tid = c := by unfold stepCfg; simp [ht]
    have e2 : stepEvI c tid = [] := by simp [stepEvI, ht]
    rw [e1, e2]; simpa using hT
  | some t =>
    cases hpc : t.pc with
    | none =>
      have e1 : stepCfg c tid = c := by unfold stepCfg; simp [ht, hpc]
      have e2 : stepEvI c tid = [] := by simp [stepEvI, ht, hpc]
      rw [e1, e2]; simpa using hT
    | some pc =>
      have hJt := hJ tid t ht
      have e1 : (stepCfg c tid).sh = (exec k c.sh pc).1 := by unfold stepCfg; simp [ht, hpc]
      have e2 : stepEvI c tid = evI c.sh pc := by simp [stepEvI, ht, hpc]
      rw [e1, e2]
      cases pc with
      | push3 v old =>
        simp only [exec, evI]
        split
        · refine ⟨?_, ?_⟩
          · rw [insertedOf_append, pushedOf_append]
            show (insertedOf evs ++ insertedOf [IEv.push v]) ++ c.sh.batch.drop c.sh.done ++ (v :: c.sh.stack).reverse = pushedOf evs ++ pushedOf [IEv.push v]
            simp only [insertedOf, pushedOf, List.append_nil, List.reverse_cons]
            rw [← hT.cons]; simp [List.append_assoc]
          · intro hs; rw [insertedOf_append]; simp only [insertedOf, List.append_nil]; exact hT.seq hs
        · simpa using hT
      | deq2 =>
        have hi : tid = ct := is_consumer hJt hpc rfl
        have hid : c.sh.done = c.sh.batch.length := hJt.idle hi (by rw [hpc]; rfl)
        simp only [exec, evI, List.append_nil]
        split
        · obtain ⟨_, _, f3, f4, f5⟩ := afterDrain_fields (k := k) c.sh
          exact tri_same hT f3 f4 f5 (afterDrain_seq c.sh)
        · refine ⟨?_, hT.seq⟩
          show insertedOf evs ++ c.sh.stack.reverse.drop 0 ++ ([] : List Nat).reverse = pushedOf evs
          have := hT.cons
          rw [hid, List.drop_length] at this
          simpa using this
      | deq6 n nxt =>
        obtain ⟨hget, _⟩ := hJt.c6 n nxt hpc
        have hdrop := drop_of_get hget
        have base : TRI k (c.sh.moveToHeap k n) (evs ++ [IEv.ins n]) := by
          refine ⟨?_, ?_⟩
          · rw [insertedOf_append, pushedOf_append]
            show (insertedOf evs ++ insertedOf [IEv.ins n]) ++ c.sh.batch.drop (c.sh.done + 1) ++ c.sh.stack.reverse = pushedOf evs ++ pushedOf [IEv.ins n]
            simp only [insertedOf, pushedOf, List.append_nil]
            rw [← hT.cons, hdrop]; simp [List.append_assoc]
          · intro hs
            rw [insertedOf_append]
            show (if k.stable then c.sh.seq + 1 else c.sh.seq) = (insertedOf evs ++ insertedOf [IEv.ins n]).length
            simp only [hs, ↓reduceIte, insertedOf, List.length_append, List.length_cons, List.length_nil]
            rw [hT.seq hs]
        simp only [exec, evI]
        cases nxt with
        | some nx => exact base
        | none =>
          obtain ⟨_, _, f3, f4, f5⟩ := afterDrain_fields (k := k) (c.sh.moveToHeap k n)
          exact tri_same base f3 f4 f5 (afterDrain_seq _)
      | enqU v => simp only [exec, evI, List.append_nil]; exact tri_same hT rfl rfl rfl rfl
      | enqL v => simp only [exec, evI, List.append_nil]; split <;> (try split) <;> exact hT
      | enqC v l =>
        simp only [exec, evI, List.append_nil]; split
        · exact tri_same hT rfl rfl rfl rfl
        · exact hT
      | push1 v => simpa [exec, evI] using hT
      | push2 v old => simp only [exec, evI, List.append_nil]; exact tri_same hT rfl rfl rfl rfl
      | deq1 => simp only [exec, evI, List.append_nil]; split <;> exact hT
      | deq3 a b => simpa [exec, evI] using hT
      | deq4 a b c' => simp only [exec, evI, List.append_nil]; cases c' <;> exact tri_same hT rfl rfl rfl rfl
      | deq5 a => simpa [exec, evI] using hT
      | deq7 v => simp only [exec, evI, List.append_nil]; exact tri_same hT rfl rfl rfl rfl
      | len1 => simpa [exec, evI] using hT
      | emp1 => simpa [exec, evI] using hT

theorem tri_run (ct : Nat) (progs : List (List Op)) (wf : IntakeWF ct progs) :
    ∀ (sched : List Nat) (c : Cf k) (evs : List IEv),
      Reach (algo k) (initCfg (algo k) Intake.init progs) c → TRI k c.sh evs →
      TRI k (runSched c sched).sh (evs ++ traceI c sched)
  | [], c, evs, _, hT => by simpa [runSched, traceI] using hT
  | t :: ts, c, evs, hr, hT => by
    obtain ⟨_, hJ, _⟩ := intake_inv (k := k) ct progs wf c hr
    have h1 := tri_step ct t c evs hJ hT
    have := tri_run ct progs wf ts (stepCfg c t) _ (Reach.step t hr) h1
    simpa [runSched, traceI, List.append_assoc] using this

end GoaktVerif.C04.IntakeInv

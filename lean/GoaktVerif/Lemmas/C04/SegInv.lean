/-
C04 — `UnboundedSegmentedMailbox` (repaired code): slot discipline for all schedules (Owicki–Gries).

* the consumer consumes slot `deq` of the head segment only after it was reserved and published, one
  slot after the other, and LEAVES A SEGMENT ONLY WHEN ALL `segSize` SLOTS WERE CONSUMED;
* a producer about to store its message (`Store:data`) targets a reserved slot that is still empty
  and not yet consumed, in a segment the consumer has not left — so the message cannot be skipped
  (what F7 violated before the repair); two producers never hold the same slot.
-/
import GoaktVerif.Model.C04.All
import GoaktVerif.Lemmas.C04.CoreLemmas

namespace GoaktVerif.C04.SegInv
open GoaktVerif.Model.C04 GoaktVerif.Model.C04.Segmented

abbrev Th := Thread Segmented.PC

structure P (s : Sh) : Prop where
  deqLe : ∀ g, (s.segs g).deqIdx ≤ s.segSize ∧ (s.segs g).deqIdx ≤ (s.segs g).writeIdx
  unres : ∀ g i, (s.segs g).writeIdx ≤ i → (s.segs g).data i = none

def isDeqPC : PC → Bool
  | .d1 => true | .d2 _ => true | .d3 _ _ => true | .d4 _ _ => true | .d5 _ _ _ => true
  | .d6 _ _ _ => true | .d7 _ => true | .d8 _ => true | .d9 _ _ => true
  | _ => false

def noDeq (t : Th) : Prop := (∀ pc, t.pc = some pc → isDeqPC pc = false) ∧ Op.deq ∉ t.prog

structure J (ct i : Nat) (s : Sh) (t : Th) : Prop where
  e3 : ∀ v g idx, t.pc = some (.e3 v g idx) →
    idx < s.segSize ∧ idx < (s.segs g).writeIdx ∧ (s.segs g).deqIdx ≤ idx ∧ (s.segs g).data idx = none
  d2 : ∀ seg, t.pc = some (.d2 seg) → seg = s.head
  d3 : ∀ seg enq, t.pc = some (.d3 seg enq) → seg = s.head ∧ enq ≤ s.segSize ∧ enq ≤ (s.segs seg).writeIdx
  d4 : ∀ seg deq, t.pc = some (.d4 seg deq) →
    seg = s.head ∧ deq = (s.segs seg).deqIdx ∧ deq < s.segSize ∧ deq < (s.segs seg).writeIdx
  d5 : ∀ seg deq v, t.pc = some (.d5 seg deq v) →
    seg = s.head ∧ deq = (s.segs seg).deqIdx ∧ deq < s.segSize ∧ deq < (s.segs seg).writeIdx ∧ (s.segs seg).data deq = some v
  d6 : ∀ seg deq v, t.pc = some (.d6 seg deq v) →
    seg = s.head ∧ deq = (s.segs seg).deqIdx ∧ deq < s.segSize ∧ deq < (s.segs seg).writeIdx
  d8 : ∀ seg, t.pc = some (.d8 seg) → seg = s.head ∧ (s.segs seg).deqIdx = s.segSize
  d9 : ∀ seg nx, t.pc = some (.d9 seg nx) → seg = s.head ∧ (s.segs seg).deqIdx = s.segSize
  cons : i ≠ ct → noDeq t

/-- slots are held exclusively: two producers never hold the same slot, and the slot the consumer has
just emptied is not one a producer is about to fill -/
def K (ti tj : Th) : Prop :=
  (∀ v g idx v' g' idx', ti.pc = some (.e3 v g idx) → tj.pc = some (.e3 v' g' idx') → ¬ (g = g' ∧ idx = idx')) ∧
  (∀ seg deq v w g idx, ti.pc = some (.d6 seg deq v) → tj.pc = some (.e3 w g idx) → ¬ (seg = g ∧ deq = idx)) ∧
  (∀ seg deq v w g idx, tj.pc = some (.d6 seg deq v) → ti.pc = some (.e3 w g idx) → ¬ (seg = g ∧ deq = idx))

theorem upd_same (s : Sh) (i : Nat) (f : Seg → Seg) : (s.upd i f).segs i = f (s.segs i) := by simp [Sh.upd]
theorem upd_other (s : Sh) {i j : Nat} (f : Seg → Seg) (h : j ≠ i) : (s.upd i f).segs j = s.segs j := by simp [Sh.upd, h]
theorem upd_segSize (s : Sh) (i : Nat) (f : Seg → Seg) : (s.upd i f).segSize = s.segSize := rfl
theorem upd_head (s : Sh) (i : Nat) (f : Seg → Seg) : (s.upd i f).head = s.head := rfl

/-- the linking step does not touch the real per-segment fields other than `next` of `t` -/
theorem link_fields (s : Sh) (t g j : Nat) :
    ((s.link t g).segs j).writeIdx = (s.segs j).writeIdx ∧ ((s.link t g).segs j).deqIdx = (s.segs j).deqIdx ∧
    ((s.link t g).segs j).data = (s.segs j).data := by
  unfold Sh.link Sh.upd
  simp only
  by_cases h1 : j = g
  · subst h1
    by_cases h2 : j = t
    · subst h2; simp
    · simp [h2]
  · by_cases h2 : j = t
    · subst h2; simp [h1]
    · simp [h1, h2]

theorem link_segSize (s : Sh) (t g : Nat) : (s.link t g).segSize = s.segSize := rfl
theorem link_head (s : Sh) (t g : Nat) : (s.link t g).head = s.head := rfl

theorem finish_pc' (t : Th) (r : Res) (now : Nat) :
    (t.finish algo r now).pc = none ∨ ∃ op, op ∈ t.prog ∧ (t.finish algo r now).pc = some (start op) := by
  unfold Thread.finish
  cases hp : t.prog with
  | nil => exact Or.inl rfl
  | cons op rest => exact Or.inr ⟨op, by simp, rfl⟩

theorem finish_prog_sub' (t : Th) (r : Res) (now : Nat) : ∀ op ∈ (t.finish algo r now).prog, op ∈ t.prog := by
  unfold Thread.finish
  cases hp : t.prog with
  | nil => simp
  | cons op rest => intro o ho; exact List.mem_cons_of_mem _ ho

theorem mk_pc' (p : List Op) (k : Nat) :
    (mkThread algo p k).pc = none ∨ ∃ op, op ∈ p ∧ (mkThread algo p k).pc = some (start op) := by
  unfold mkThread
  cases p with
  | nil => exact Or.inl rfl
  | cons op rest => exact Or.inr ⟨op, by simp, rfl⟩

theorem mk_prog_sub' (p : List Op) (k : Nat) : ∀ op ∈ (mkThread algo p k).prog, op ∈ p := by
  unfold mkThread
  cases p with
  | nil => simp
  | cons op rest => intro o ho; exact List.mem_cons_of_mem _ ho

/-- `J` for a thread parked at the first site of an operation (or finished) -/
theorem J_start {ct i : Nat} {s : Sh} {t : Th} (prog0 : List Op)
    (hpc : t.pc = none ∨ ∃ op, op ∈ prog0 ∧ t.pc = some (start op)) (hsub : ∀ op ∈ t.prog, op ∈ prog0)
    (hcons : i ≠ ct → Op.deq ∉ prog0) : J ct i s t := by
  have hno : ∀ pc, t.pc = some pc → ∃ op, op ∈ prog0 ∧ pc = start op := by
    intro pc h
    rcases hpc with h' | ⟨op, hop, h'⟩
    · rw [h'] at h; cases h
    · rw [h'] at h; injection h with h; exact ⟨op, hop, h.symm⟩
  refine ⟨?_, ?_, ?_, ?_, ?_, ?_, ?_, ?_, ?_⟩
  · intro v g idx h; obtain ⟨op, _, e⟩ := hno _ h; cases op <;> simp [start] at e
  · intro seg h; obtain ⟨op, _, e⟩ := hno _ h; cases op <;> simp [start] at e
  · intro seg enq h; obtain ⟨op, _, e⟩ := hno _ h; cases op <;> simp [start] at e
  · intro seg deq h; obtain ⟨op, _, e⟩ := hno _ h; cases op <;> simp [start] at e
  · intro seg deq v h; obtain ⟨op, _, e⟩ := hno _ h; cases op <;> simp [start] at e
  · intro seg deq v h; obtain ⟨op, _, e⟩ := hno _ h; cases op <;> simp [start] at e
  · intro seg h; obtain ⟨op, _, e⟩ := hno _ h; cases op <;> simp [start] at e
  · intro seg nx h; obtain ⟨op, _, e⟩ := hno _ h; cases op <;> simp [start] at e
  · intro hi
    have hd := hcons hi
    refine ⟨?_, fun hm => hd (hsub _ hm)⟩
    intro pc h
    obtain ⟨op, hop, e⟩ := hno _ h
    subst e
    cases op with
    | deq => exact absurd hop hd
    | enq v k => rfl
    | emp => rfl
    | len => rfl

theorem J_finish {ct i : Nat} {s : Sh} {t : Th} (r : Res) (now : Nat) (hcons : i ≠ ct → Op.deq ∉ t.prog) :
    J ct i s (t.finish algo r now) :=
  J_start t.prog (finish_pc' t r now) (finish_prog_sub' t r now) hcons

/-- moving to another program counter inside an operation -/
theorem J_goto {ct i : Nat} {s : Sh} {t : Th} (pc' : PC) (hcons : i ≠ ct → Op.deq ∉ t.prog)
    (h3 : ∀ v g idx, pc' = .e3 v g idx →
      idx < s.segSize ∧ idx < (s.segs g).writeIdx ∧ (s.segs g).deqIdx ≤ idx ∧ (s.segs g).data idx = none)
    (h2 : ∀ seg, pc' = .d2 seg → seg = s.head)
    (hd3 : ∀ seg enq, pc' = .d3 seg enq → seg = s.head ∧ enq ≤ s.segSize ∧ enq ≤ (s.segs seg).writeIdx)
    (h4 : ∀ seg deq, pc' = .d4 seg deq →
      seg = s.head ∧ deq = (s.segs seg).deqIdx ∧ deq < s.segSize ∧ deq < (s.segs seg).writeIdx)
    (h5 : ∀ seg deq v, pc' = .d5 seg deq v →
      seg = s.head ∧ deq = (s.segs seg).deqIdx ∧ deq < s.segSize ∧ deq < (s.segs seg).writeIdx ∧ (s.segs seg).data deq = some v)
    (h6 : ∀ seg deq v, pc' = .d6 seg deq v →
      seg = s.head ∧ deq = (s.segs seg).deqIdx ∧ deq < s.segSize ∧ deq < (s.segs seg).writeIdx)
    (h8 : ∀ seg, pc' = .d8 seg → seg = s.head ∧ (s.segs seg).deqIdx = s.segSize)
    (h9 : ∀ seg nx, pc' = .d9 seg nx → seg = s.head ∧ (s.segs seg).deqIdx = s.segSize)
    (hc : i ≠ ct → isDeqPC pc' = false) : J ct i s { t with pc := some pc' } where
  e3 := by intro v g idx h; simp only [Option.some.injEq] at h; exact h3 v g idx h
  d2 := by intro seg h; simp only [Option.some.injEq] at h; exact h2 seg h
  d3 := by intro seg enq h; simp only [Option.some.injEq] at h; exact hd3 seg enq h
  d4 := by intro seg deq h; simp only [Option.some.injEq] at h; exact h4 seg deq h
  d5 := by intro seg deq v h; simp only [Option.some.injEq] at h; exact h5 seg deq v h
  d6 := by intro seg deq v h; simp only [Option.some.injEq] at h; exact h6 seg deq v h
  d8 := by intro seg h; simp only [Option.some.injEq] at h; exact h8 seg h
  d9 := by intro seg nx h; simp only [Option.some.injEq] at h; exact h9 seg nx h
  cons := by
    intro hi
    refine ⟨?_, hcons hi⟩
    intro pc h; simp only [Option.some.injEq] at h; subst h; exact hc hi

theorem is_consumer {ct i : Nat} {s : Sh} {t : Th} {pc : PC} (hJ : J ct i s t) (hpc : t.pc = some pc)
    (hd : isDeqPC pc = true) : i = ct := by
  by_cases h : i = ct
  · exact h
  · have := (hJ.cons h).1 pc hpc; rw [this] at hd; cases hd

end GoaktVerif.C04.SegInv

/-
C04 — Treiber intake: helper lemmas for the Owicki–Gries obligations.
-/
import GoaktVerif.Lemmas.C04.IntakeInv

namespace GoaktVerif.C04.IntakeInv
open GoaktVerif.Model.C04 GoaktVerif.Model.C04.Intake

variable {k : Conf}

theorem finish_pc' (t : Th) (r : Res) (now : Nat) :
    (t.finish (algo k) r now).pc = none ∨ ∃ op, op ∈ t.prog ∧ (t.finish (algo k) r now).pc = some (start k op) := by
  unfold Thread.finish
  cases hp : t.prog with
  | nil => exact Or.inl rfl
  | cons op rest => exact Or.inr ⟨op, by simp, rfl⟩

theorem finish_prog_sub' (t : Th) (r : Res) (now : Nat) : ∀ op ∈ (t.finish (algo k) r now).prog, op ∈ t.prog := by
  unfold Thread.finish
  cases hp : t.prog with
  | nil => simp
  | cons op rest => intro o ho; exact List.mem_cons_of_mem _ ho

theorem start_fresh (op : Op) : pcFresh (some (start k op)) = enqIds [op] := by
  cases op with
  | enq v key =>
    show pcFresh (some (if k.cap.isSome then PC.enqL v else PC.enqU v)) = enqIds [Op.enq v key]
    cases k.cap.isSome <;> simp [pcFresh, enqIds]
  | _ => simp [start, pcFresh, enqIds]

theorem fresh_finish (t : Th) (r : Res) (now : Nat) : fresh (t.finish (algo k) r now) = enqIds t.prog := by
  unfold Thread.finish fresh
  cases hp : t.prog with
  | nil => simp [pcFresh, enqIds]
  | cons op rest =>
    show pcFresh (some (start k op)) ++ enqIds rest = enqIds (op :: rest)
    rw [start_fresh]; simp [enqIds, List.filterMap_cons]
    cases op <;> simp

theorem fresh_mk (p : List Op) (n : Nat) : fresh (mkThread (algo k) p n) = enqIds p := by
  unfold mkThread fresh
  cases p with
  | nil => simp [pcFresh, enqIds]
  | cons op rest =>
    show pcFresh (some (start k op)) ++ enqIds rest = enqIds (op :: rest)
    rw [start_fresh]; simp [enqIds, List.filterMap_cons]
    cases op <;> simp

theorem start_enq (v key : Nat) : start k (.enq v key) = .enqL v ∨ start k (.enq v key) = .enqU v := by
  unfold start
  cases k.cap.isSome
  · right; rfl
  · left; rfl

theorem start_not (op : Op) :
    (∀ v old, start k op ≠ .push3 v old) ∧ (∀ a b, start k op ≠ .deq3 a b) ∧ (∀ a b c, start k op ≠ .deq4 a b c) ∧
    (∀ a, start k op ≠ .deq5 a) ∧ (∀ a b, start k op ≠ .deq6 a b) ∧ inDrain (some (start k op)) = false := by
  cases op with
  | enq v key => rcases start_enq (k := k) v key with h | h <;> rw [h] <;> simp [inDrain]
  | _ => simp [start, inDrain]

/-- `J` for a thread parked at the first site of an operation (or finished), its fresh ids being `ids` -/
theorem J_start {ct i : Nat} {s : Sh} {t : Th} (prog0 : List Op)
    (hpc : t.pc = none ∨ ∃ op, op ∈ prog0 ∧ t.pc = some (start k op)) (hsub : ∀ op ∈ t.prog, op ∈ prog0)
    (hfresh : ∀ v ∈ fresh t, v ∉ s.stack ∧ v ∉ s.batch) (hnd : (fresh t).Nodup)
    (hidle : i = ct → s.done = s.batch.length) (hcons : i ≠ ct → Op.deq ∉ prog0) : J ct i s t := by
  have hno : ∀ pc, t.pc = some pc → ∃ op, op ∈ prog0 ∧ pc = start k op := by
    intro pc h
    rcases hpc with h' | ⟨op, hop, h'⟩
    · rw [h'] at h; cases h
    · rw [h'] at h; injection h with h; exact ⟨op, hop, h.symm⟩
  refine ⟨hfresh, hnd, ?_, ?_, ?_, ?_, ?_, fun hi _ => hidle hi, ?_⟩
  · intro v old h; obtain ⟨op, _, e⟩ := hno _ h; exact absurd e.symm ((start_not op).1 v old)
  · intro a b h; obtain ⟨op, _, e⟩ := hno _ h; exact absurd e.symm ((start_not op).2.1 a b)
  · intro a b c h; obtain ⟨op, _, e⟩ := hno _ h; exact absurd e.symm ((start_not op).2.2.1 a b c)
  · intro a h; obtain ⟨op, _, e⟩ := hno _ h; exact absurd e.symm ((start_not op).2.2.2.1 a)
  · intro a b h; obtain ⟨op, _, e⟩ := hno _ h; exact absurd e.symm ((start_not op).2.2.2.2.1 a b)
  · intro hi
    have hd := hcons hi
    refine ⟨?_, fun hm => hd (hsub _ hm)⟩
    intro pc h
    obtain ⟨op, hop, e⟩ := hno _ h
    subst e
    cases op with
    | deq => exact absurd hop hd
    | enq v key =>
      show isDeqPC (if k.cap.isSome then PC.enqL v else PC.enqU v) = false
      cases k.cap.isSome <;> rfl
    | emp => rfl
    | len => rfl

theorem enqIds_sub_fresh (t : Th) : ∀ v ∈ enqIds t.prog, v ∈ fresh t := by
  intro v hv; unfold fresh; exact List.mem_append_right _ hv

theorem J_finish {ct i : Nat} {s : Sh} {t : Th} (r : Res) (now : Nat)
    (hfresh : ∀ v ∈ enqIds t.prog, v ∉ s.stack ∧ v ∉ s.batch) (hnd : (enqIds t.prog).Nodup)
    (hidle : i = ct → s.done = s.batch.length) (hcons : i ≠ ct → Op.deq ∉ t.prog) : J ct i s (t.finish (algo k) r now) :=
  J_start t.prog (finish_pc' t r now) (finish_prog_sub' t r now) (by rw [fresh_finish]; exact hfresh)
    (by rw [fresh_finish]; exact hnd) hidle hcons

/-- moving to another program counter inside an operation -/
theorem J_goto {ct i : Nat} {s : Sh} {t : Th} (pc' : PC)
    (hfresh : ∀ v ∈ pcFresh (some pc') ++ enqIds t.prog, v ∉ s.stack ∧ v ∉ s.batch)
    (hnd : (pcFresh (some pc') ++ enqIds t.prog).Nodup) (hcons : i ≠ ct → Op.deq ∉ t.prog)
    (h3 : ∀ v old, pc' = .push3 v old → s.next v = old)
    (c3 : ∀ cur prev, pc' = .deq3 cur prev → s.done = 0 ∧
      ∃ A B, s.batch.reverse = A ++ B ∧ ChainO s.next (some cur) B ∧ ChainO s.next prev A.reverse)
    (c4 : ∀ cur prev nxt, pc' = .deq4 cur prev nxt → s.done = 0 ∧
      ∃ A B, s.batch.reverse = A ++ cur :: B ∧ ChainO s.next nxt B ∧ ChainO s.next prev A.reverse)
    (c5 : ∀ n, pc' = .deq5 n → ChainO s.next (some n) (s.batch.drop s.done))
    (c6 : ∀ n nxt, pc' = .deq6 n nxt → s.batch[s.done]? = some n ∧ ChainO s.next nxt (s.batch.drop (s.done + 1)))
    (hidle : i = ct → inDrain (some pc') = false → s.done = s.batch.length)
    (hc : i ≠ ct → isDeqPC pc' = false) : J ct i s { t with pc := some pc' } where
  own := hfresh
  nodup := hnd
  p3 := by intro v old h; simp only [Option.some.injEq] at h; exact h3 v old h
  c3 := by intro a b h; simp only [Option.some.injEq] at h; exact c3 a b h
  c4 := by intro a b c h; simp only [Option.some.injEq] at h; exact c4 a b c h
  c5 := by intro a h; simp only [Option.some.injEq] at h; exact c5 a h
  c6 := by intro a b h; simp only [Option.some.injEq] at h; exact c6 a b h
  idle := hidle
  cons := by
    intro hi
    refine ⟨?_, hcons hi⟩
    intro pc h; simp only [Option.some.injEq] at h; subst h; exact hc hi

theorem is_consumer {ct i : Nat} {s : Sh} {t : Th} {pc : PC} (hJ : J ct i s t) (hpc : t.pc = some pc)
    (hd : isDeqPC pc = true) : i = ct := by
  by_cases h : i = ct
  · exact h
  · have := (hJ.cons h).1 pc hpc; rw [this] at hd; cases hd

/-- `l.drop d = x :: R` pins down the element at `d` and the rest -/
theorem drop_cons {l : List Nat} : ∀ {d : Nat} {x : Nat} {R : List Nat}, l.drop d = x :: R → l[d]? = some x ∧ l.drop (d + 1) = R := by
  induction l with
  | nil => intro d x R h; simp at h
  | cons a as ih =>
    intro d x R h
    cases d with
    | zero => simp only [List.drop_zero, List.cons.injEq] at h; exact ⟨by simp [h.1], by simp [h.2]⟩
    | succ d => simp only [List.drop_succ_cons] at h; have := ih h; exact ⟨by simpa using this.1, by simpa using this.2⟩

theorem drop_of_get {l : List Nat} : ∀ {d : Nat} {x : Nat}, l[d]? = some x → l.drop d = x :: l.drop (d + 1) := by
  induction l with
  | nil => intro d x h; simp at h
  | cons a as ih =>
    intro d x h
    cases d with
    | zero => simp at h; simp [h]
    | succ d => simp at h; simpa using ih h

/-- in a list without repetition the element at `d` does not occur after `d` -/
theorem not_mem_drop_succ {l : List Nat} (hnd : l.Nodup) {d x : Nat} (h : l[d]? = some x) : x ∉ l.drop (d + 1) := by
  have e := drop_of_get h
  have : (l.drop d).Nodup := List.Nodup.sublist (List.drop_sublist d l) hnd
  rw [e] at this
  exact (List.nodup_cons.mp this).1

end GoaktVerif.C04.IntakeInv

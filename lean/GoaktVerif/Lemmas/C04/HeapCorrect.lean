/-
C04 — correctness of the binary heap model (Model/C04/Heap.lean), for all inputs and every
priority function that is a strict weak order:

* `push` / `pop` permute the contents (`push_perm`, `pop_perm`),
* both preserve the heap order (`push_inv`, `pop_inv`; `heapInv_nil` for the empty heap),
* `pop` fails exactly on the empty heap (`pop_none`, `pop_some`),
* `pop` returns an element that nothing left in the heap outranks (`pop_min`).

`SWO`, `HeapInv`, the `swap`/`up`/`push` part live in HeapCorrect1, `down` in HeapCorrect2.
-/
import GoaktVerif.Lemmas.C04.HeapCorrect1
import GoaktVerif.Lemmas.C04.HeapCorrect2

namespace GoaktVerif.C04.Heap
open GoaktVerif.Model.C04.Heap

variable {α : Type} {lt : α → α → Bool}

theorem down_length (fuel : Nat) (xs : List α) (i n : Nat) :
    (down lt fuel xs i n).length = xs.length :=
  (down_perm fuel xs i n).length_eq

/-- what `pop` computes on a non-empty slice -/
theorem pop_eq (xs : List α) (x : α) (rest : List α) (hp : pop lt xs = some (x, rest)) :
    0 < xs.length ∧
    (down lt xs.length (swap xs 0 (xs.length - 1)) 0 (xs.length - 1))[xs.length - 1]? = some x ∧
    rest = (down lt xs.length (swap xs 0 (xs.length - 1)) 0 (xs.length - 1)).take
      (xs.length - 1) := by
  unfold pop at hp
  split at hp
  · cases hp
  · simp only [] at hp
    split at hp
    · next hx =>
      simp only [Option.some.injEq, Prod.mk.injEq] at hp
      refine ⟨by simp only [List.length_cons]; omega, ?_, hp.2.symm⟩
      rw [hx, hp.1]
    · cases hp

theorem pop_none : pop lt ([] : List α) = none := rfl

theorem pop_some (xs : List α) (hne : xs ≠ []) : ∃ x rest, pop lt xs = some (x, rest) := by
  cases xs with
  | nil => exact absurd rfl hne
  | cons a t =>
    unfold pop
    simp only []
    split
    · next x hx => exact ⟨x, _, rfl⟩
    · next hx =>
      rw [List.getElem?_eq_none_iff, down_length, length_swap] at hx
      simp only [List.length_cons] at hx
      omega

theorem eq_take_append_last {ys : List α} {n : Nat} {x : α} (hl : ys.length = n + 1)
    (hx : ys[n]? = some x) : ys = ys.take n ++ [x] := by
  have hn : n < ys.length := by omega
  have h1 : ys.drop n = [x] := by
    rw [List.drop_eq_getElem_cons hn, List.drop_eq_nil_of_le (by omega)]
    rw [List.getElem?_eq_getElem hn] at hx
    cases hx; rfl
  have h2 := List.take_append_drop n ys
  rw [h1] at h2
  exact h2.symm

theorem pop_perm (xs : List α) (x : α) (rest : List α) (hp : pop lt xs = some (x, rest)) :
    (x :: rest).Perm xs := by
  obtain ⟨hl, hx, hr⟩ := pop_eq xs x rest hp
  have hlen : (down lt xs.length (swap xs 0 (xs.length - 1)) 0 (xs.length - 1)).length
      = (xs.length - 1) + 1 := by
    rw [down_length, length_swap]; omega
  have hys := eq_take_append_last hlen hx
  rw [← hr] at hys
  have hperm : (rest ++ [x]).Perm xs := by
    rw [← hys]
    exact (down_perm _ _ _ _).trans (swap_perm _ _ _)
  exact (List.perm_append_comm (l₁ := [x]) (l₂ := rest)).trans hperm

theorem downInv_pop {xs : List α} (hx : HeapInv lt xs) (hl : 0 < xs.length) :
    DownInv lt (swap xs 0 (xs.length - 1)) 0 (xs.length - 1) := by
  refine ⟨by rw [length_swap]; omega, ?_, ?_⟩
  · intro k hk0 hkn hkp
    have := hx k hk0 (by omega)
    unfold lessAt at this ⊢
    rw [getElem?_swap_other xs (by omega) (by omega),
      getElem?_swap_other xs (by omega) (by omega)]
    exact this
  · intro k _ _ _ h0
    omega

theorem heapInv_take {ys : List α} {n : Nat} (hy : HeapInvN lt ys n) : HeapInv lt (ys.take n) := by
  intro k hk0 hkl
  rw [List.length_take] at hkl
  have hkn : k < n := by omega
  have := hy k hk0 hkn
  unfold lessAt at this ⊢
  rw [List.getElem?_take, List.getElem?_take, if_pos hkn, if_pos (by omega)]
  exact this

theorem pop_inv (h : SWO lt) (xs : List α) (x : α) (rest : List α) (hx : HeapInv lt xs)
    (hp : pop lt xs = some (x, rest)) : HeapInv lt rest := by
  obtain ⟨hl, _, hr⟩ := pop_eq xs x rest hp
  rw [hr]
  exact heapInv_take (down_heapInvN h _ _ _ _ (by omega) (downInv_pop hx hl))

/-- `pop` returns the old root -/
theorem pop_root (xs : List α) (x : α) (rest : List α) (hp : pop lt xs = some (x, rest)) :
    xs[0]? = some x := by
  obtain ⟨hl, hx, _⟩ := pop_eq xs x rest hp
  rw [down_frame _ _ _ _ _ (Nat.le_refl _),
    getElem?_swap xs hl (by omega : xs.length - 1 < xs.length), if_pos rfl] at hx
  exact hx

theorem pop_min (h : SWO lt) (xs : List α) (x : α) (rest : List α) (hx : HeapInv lt xs)
    (hp : pop lt xs = some (x, rest)) : ∀ y ∈ rest, lt y x = false := by
  intro y hy
  have hroot := pop_root xs x rest hp
  have hl : 0 < xs.length := (pop_eq xs x rest hp).1
  rw [List.getElem?_eq_getElem hl] at hroot
  cases hroot
  have hmem : y ∈ xs := (pop_perm xs _ rest hp).mem_iff.mp (List.mem_cons_of_mem _ hy)
  exact root_min h hx hl y hmem

end GoaktVerif.C04.Heap

/-
C04 — the Treiber intake of the three intake-based priority mailboxes (`priorityIntake.push/drain`):
invariants for all schedules (Owicki–Gries).  The stack reachable from `head` through `next` is the
ghost list `stack`; a drain takes the whole stack, reverses it in place into arrival order (`batch`)
and moves it node by node into the heap.
-/
import GoaktVerif.Model.C04.All
import GoaktVerif.Lemmas.C04.CoreLemmas

namespace GoaktVerif.C04.IntakeInv
open GoaktVerif.Model.C04 GoaktVerif.Model.C04.Intake

abbrev Th := Thread Intake.PC

/-- the chain from `h` following `next` spells `L` and ends with nil -/
def ChainO (next : Nat → Option Nat) : Option Nat → List Nat → Prop
  | h, [] => h = none
  | h, x :: xs => h = some x ∧ ChainO next (next x) xs

theorem ChainO.frame {next next' : Nat → Option Nat} : ∀ (L : List Nat) (h : Option Nat),
    (∀ x ∈ L, next' x = next x) → ChainO next h L → ChainO next' h L
  | [], _, _, hc => hc
  | x :: xs, h, hn, hc => by
    simp only [ChainO] at hc ⊢
    refine ⟨hc.1, ?_⟩
    rw [hn x (by simp)]
    exact ChainO.frame xs _ (fun y hy => hn y (List.mem_cons_of_mem _ hy)) hc.2

theorem ChainO.nil_of_none {next : Nat → Option Nat} : ∀ (L : List Nat), ChainO next none L → L = []
  | [], _ => rfl
  | x :: xs, h => by simp [ChainO] at h

theorem setNext_other (s : Sh) {n m : Nat} (x : Option Nat) (h : m ≠ n) : (s.setNext n x).next m = s.next m := by
  simp [Sh.setNext, h]
theorem setNext_same (s : Sh) (n : Nat) (x : Option Nat) : (s.setNext n x).next n = x := by simp [Sh.setNext]

structure P (s : Sh) : Prop where
  st : ChainO s.next s.head s.stack
  nd : s.stack.Nodup
  bnd : s.batch.Nodup
  dj : ∀ x ∈ s.stack, x ∉ s.batch
  dn : s.done ≤ s.batch.length

/-- ids whose push has not succeeded yet -/
def pcFresh : Option PC → List Nat
  | some (.enqU v) => [v]
  | some (.enqL v) => [v]
  | some (.enqC v _) => [v]
  | some (.push1 v) => [v]
  | some (.push2 v _) => [v]
  | some (.push3 v _) => [v]
  | _ => []

def fresh (t : Th) : List Nat := pcFresh t.pc ++ enqIds t.prog

def isDeqPC : PC → Bool
  | .deq1 => true | .deq2 => true | .deq3 _ _ => true | .deq4 _ _ _ => true | .deq5 _ => true
  | .deq6 _ _ => true | .deq7 _ => true
  | _ => false

def noDeq (t : Th) : Prop := (∀ pc, t.pc = some pc → isDeqPC pc = false) ∧ Op.deq ∉ t.prog

/-- the consumer is in the middle of moving a drained batch into the heap -/
def inDrain : Option PC → Bool
  | some (.deq3 _ _) => true | some (.deq4 _ _ _) => true | some (.deq5 _) => true | some (.deq6 _ _) => true
  | _ => false

structure J (ct i : Nat) (s : Sh) (t : Th) : Prop where
  own : ∀ v ∈ fresh t, v ∉ s.stack ∧ v ∉ s.batch
  nodup : (fresh t).Nodup
  p3 : ∀ v old, t.pc = some (.push3 v old) → s.next v = old
  c3 : ∀ cur prev, t.pc = some (.deq3 cur prev) → s.done = 0 ∧
    ∃ A B, s.batch.reverse = A ++ B ∧ ChainO s.next (some cur) B ∧ ChainO s.next prev A.reverse
  c4 : ∀ cur prev nxt, t.pc = some (.deq4 cur prev nxt) → s.done = 0 ∧
    ∃ A B, s.batch.reverse = A ++ cur :: B ∧ ChainO s.next nxt B ∧ ChainO s.next prev A.reverse
  c5 : ∀ n, t.pc = some (.deq5 n) → ChainO s.next (some n) (s.batch.drop s.done)
  c6 : ∀ n nxt, t.pc = some (.deq6 n nxt) → s.batch[s.done]? = some n ∧ ChainO s.next nxt (s.batch.drop (s.done + 1))
  idle : i = ct → inDrain t.pc = false → s.done = s.batch.length
  cons : i ≠ ct → noDeq t

/-- message ids are owned by one thread -/
def K (ti tj : Th) : Prop := ∀ v ∈ fresh ti, v ∉ fresh tj

end GoaktVerif.C04.IntakeInv

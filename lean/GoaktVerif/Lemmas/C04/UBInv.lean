/-
C04 — UnboundedMailbox: the simulation invariant and its generic preservation lemma.
-/
import GoaktVerif.Lemmas.C04.UBChain

namespace GoaktVerif.C04.UB
open GoaktVerif.Model.C04 GoaktVerif.Model.C04.Unbounded GoaktVerif.Spec.C04

abbrev Th := Thread PC
abbrev Cf := Cfg Unbounded.algo

/-- ids whose reservation (`Swap:tail`) by this thread is still to come -/
def pcFresh : Option PC → List Nat
  | some (.enq1 v) => [v]
  | some (.enq2 v) => [v]
  | _ => []

def fresh (t : Th) : List Nat := pcFresh t.pc ++ enqIds t.prog

/-- … plus the id it has reserved and not yet published -/
def pcOwned : Option PC → List Nat
  | some (.enq1 v) => [v]
  | some (.enq2 v) => [v]
  | some (.enq3 v _) => [v]
  | _ => []

def owned (t : Th) : List Nat := pcOwned t.pc ++ enqIds t.prog

def isDeqPC : PC → Bool
  | .deq1 => true | .deq2 _ => true | .deq3 _ _ => true | .deq4 _ _ => true
  | _ => false

/-- the thread is not (and will never be) inside `Dequeue` -/
def noDeq (t : Th) : Prop := (∀ pc, t.pc = some pc → isDeqPC pc = false) ∧ Op.deq ∉ t.prog

/-- the link `a → b` a producer parked at its publishing store is about to write -/
def PendOf (ts : List Th) (a b : Nat) : Prop := ∃ (i : Nat) (t : Th), ts[i]? = some t ∧ t.pc = some (PC.enq3 b a)

/-- what each thread's program counter and locals promise, relative to the abstract queue `cells` -/
structure ThreadOK (ct : Nat) (s : Sh) (cells : List Cell) (i : Nat) (t : Th) : Prop where
  ownedNodup : (owned t).Nodup
  freshOut : ∀ v ∈ fresh t, v ∉ s.head :: vals cells
  enq2 : ∀ v, t.pc = some (.enq2 v) → s.next v = none
  enq3 : ∀ v p, t.pc = some (.enq3 v p) → PendLink s.head cells p v
  deq2 : ∀ h, t.pc = some (.deq2 h) → h = s.head
  deq3 : ∀ h n, t.pc = some (.deq3 h n) → h = s.head ∧ s.next h = some n
  deq4 : ∀ h n, t.pc = some (.deq4 h n) → n = s.head ∧ h ∉ s.head :: vals cells
  cons : i ≠ ct → noDeq t

/-- the simulation relation between a configuration and a reservation queue; `ct` is the consumer thread -/
structure Inv (ct : Nat) (c : Cf) (cells : List Cell) : Prop where
  chain : Chain c.sh (PendOf c.threads) c.sh.head cells
  nodup : (c.sh.head :: vals cells).Nodup
  thr : ∀ (i : Nat) (t : Th), c.threads[i]? = some t → ThreadOK ct c.sh cells i t
  disj : ∀ (i j : Nat) (ti tj : Th), i ≠ j → c.threads[i]? = some ti → c.threads[j]? = some tj → ∀ v ∈ owned ti, v ∉ owned tj
  retired : ∀ (i j : Nat) (ti tj : Th) (h n : Nat), c.threads[i]? = some ti → ti.pc = some (PC.deq4 h n) →
    c.threads[j]? = some tj → h ∉ owned tj

theorem fresh_sub_owned (t : Th) : ∀ v ∈ fresh t, v ∈ owned t := by
  intro v hv
  unfold fresh at hv; unfold owned
  simp only [List.mem_append] at hv ⊢
  rcases hv with hv | hv
  · left
    cases hpc : t.pc with
    | none => simp [hpc, pcFresh] at hv
    | some pc => cases pc <;> simp_all [pcFresh, pcOwned]
  · exact Or.inr hv

theorem get_set_self {α} {l : List α} {i : Nat} {t t' : α} (h : l[i]? = some t) : (l.set i t')[i]? = some t' := by
  have hl : i < l.length := by
    rcases Nat.lt_or_ge i l.length with h' | h'
    · exact h'
    · rw [List.getElem?_eq_none h'] at h; cases h
  simp [hl]

theorem get_set_ne {α} {l : List α} {i j : Nat} {t' : α} (h : i ≠ j) : (l.set i t')[j]? = l[j]? := by
  simp [h]

/-- Generic preservation: thread `tid` moves from `t` to `t'`, the shared state to `s'`, the abstract
queue to `cells'`.  It suffices to re-establish the chain, the per-thread promise of `tid`, and the
frame of the other threads' promises; ownership may only shrink. -/
theorem Inv.update {ct tid : Nat} {c : Cf} {cells cells' : List Cell} {t t' : Th} {s' : Sh} {clk : Nat}
    (hI : Inv ct c cells) (ht : c.threads[tid]? = some t)
    (hchain : Chain s' (PendOf (c.threads.set tid t')) s'.head cells')
    (hnodup : (s'.head :: vals cells').Nodup)
    (hself : ThreadOK ct s' cells' tid t')
    (hothers : ∀ (i : Nat) (ti : Th), i ≠ tid → c.threads[i]? = some ti → ThreadOK ct s' cells' i ti)
    (hsub : ∀ v ∈ owned t', v ∈ owned t)
    (hret : ∀ h n, t'.pc = some (.deq4 h n) → (h ∉ owned t' ∧ ∀ (j : Nat) (tj : Th), j ≠ tid → c.threads[j]? = some tj → h ∉ owned tj)) :
    Inv ct ({ sh := s', threads := c.threads.set tid t', clock := clk } : Cf) cells' where
  chain := hchain
  nodup := hnodup
  thr := by
    intro i ti hi
    by_cases h : i = tid
    · subst h
      rw [get_set_self ht] at hi
      injection hi with hi; subst hi; exact hself
    · rw [get_set_ne (Ne.symm h)] at hi
      exact hothers i ti h hi
  disj := by
    intro i j ti tj hij hi hj v hv
    by_cases h1 : i = tid
    · subst h1
      rw [get_set_self ht] at hi
      injection hi with hi; subst hi
      rw [get_set_ne hij] at hj
      exact hI.disj i j t tj hij ht hj v (hsub v hv)
    · rw [get_set_ne (Ne.symm h1)] at hi
      by_cases h2 : j = tid
      · subst h2
        rw [get_set_self ht] at hj
        injection hj with hj; subst hj
        intro hv'
        exact hI.disj i j ti t hij hi ht v hv (hsub v hv')
      · rw [get_set_ne (Ne.symm h2)] at hj
        exact hI.disj i j ti tj hij hi hj v hv
  retired := by
    intro i j ti tj h n hi hpc hj
    by_cases h1 : i = tid
    · subst h1
      rw [get_set_self ht] at hi
      injection hi with hi; subst hi
      have := hret h n hpc
      by_cases h2 : j = i
      · subst h2
        rw [get_set_self ht] at hj
        injection hj with hj; subst hj; exact this.1
      · rw [get_set_ne (Ne.symm h2)] at hj
        exact this.2 j tj h2 hj
    · rw [get_set_ne (Ne.symm h1)] at hi
      by_cases h2 : j = tid
      · subst h2
        rw [get_set_self ht] at hj
        injection hj with hj; subst hj
        intro hv'
        exact hI.retired i j ti t h n hi hpc ht (hsub h hv')
      · rw [get_set_ne (Ne.symm h2)] at hj
        exact hI.retired i j ti tj h n hi hpc hj

end GoaktVerif.C04.UB

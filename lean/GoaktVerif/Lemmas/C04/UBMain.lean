/-
C04 — UnboundedMailbox: the forward simulation (every step, every schedule) and the initial state.
-/
import GoaktVerif.Lemmas.C04.UBSteps2

namespace GoaktVerif.C04.UB
open GoaktVerif.Model.C04 GoaktVerif.Model.C04.Unbounded GoaktVerif.Spec.C04

theorem stepEv_eq {c : Cf} {tid : Nat} {t : Th} {pc : PC} (ht : c.threads[tid]? = some t) (hpc : t.pc = some pc) :
    stepEv c tid = evOf c.sh pc := by
  unfold stepEv; simp [ht, hpc]

theorem rq_deq_none_ok {cells : List Cell} (h : cells = [] ∨ ∃ b rest, cells = Cell.pending b :: rest) :
    RQ.step cells (.deq none) = some cells := by
  rcases h with h | ⟨b, rest, h⟩ <;> subst h <;> simp [RQ.step]

/-- FORWARD SIMULATION, one step: whatever thread is scheduled, the abstract reservation queue
makes the matching move (or stutters) and the relation is re-established. -/
theorem step_sim (ct tid : Nat) (c : Cf) (cells : List Cell) (hI : Inv ct c cells) :
    ∃ cells', specStep cells (stepEv c tid) = some cells' ∧ Inv ct (stepCfg c tid) cells' := by
  cases ht : c.threads[tid]? with
  | none =>
    refine ⟨cells, by simp [stepEv, ht, specStep], ?_⟩
    unfold stepCfg; simp only [ht]; exact hI
  | some t =>
    cases hpc : t.pc with
    | none =>
      refine ⟨cells, by simp [stepEv, ht, hpc, specStep], ?_⟩
      unfold stepCfg; simp only [ht, hpc]; exact hI
    | some pc =>
      have ok := hI.thr tid t ht
      rw [stepCfg_eq ht hpc, stepEv_eq ht hpc]
      cases pc with
      | enq1 v => exact ⟨cells, rfl, inv_enq1 _ hI ht hpc⟩
      | enq2 v =>
        refine ⟨cells ++ [.pending v], rfl, ?_⟩
        exact inv_enq2 _ hI ht hpc
      | enq3 v p =>
        obtain ⟨hm, hinv⟩ := inv_enq3 (tick (A := algo) t c.clock (exec c.sh (.enq3 v p)).2) hI ht hpc
        refine ⟨Spec.C04.publish cells v, ?_, hinv⟩
        simp [evOf, specStep, RQ.step, hm]
      | deq1 =>
        refine ⟨cells, rfl, ?_⟩
        simp only [exec, Thread.advance]
        refine inv_local _ hI ht ?_ (owned_goto_plain _ rfl) (by rw [hpc]; simp) (by simp)
        exact threadOK_goto_same (.deq2 c.sh.head) ok rfl (by intro h e; injection e with e; exact e.symm)
          (by intro _ _ e; cases e) (by intro _ _ e; cases e)
          (fun hi => by have := (ok.cons hi).1 _ hpc; cases this)
      | deq2 h =>
        have hh := ok.deq2 h hpc
        subst hh
        cases hn : c.sh.next c.sh.head with
        | none =>
          refine ⟨cells, ?_, ?_⟩
          · simp only [evOf, hn, ↓reduceIte, specStep]
            exact rq_deq_none_ok (Chain.head_none hI.chain hn)
          · simp only [exec, hn, Thread.advance]
            exact inv_local_finish .none _ hI ht (by rw [hpc]; simp)
        | some n =>
          refine ⟨cells, by simp [evOf, hn, specStep], ?_⟩
          simp only [exec, hn, Thread.advance]
          refine inv_local _ hI ht ?_ (owned_goto_plain _ rfl) (by rw [hpc]; simp) (by simp)
          exact threadOK_goto_same (.deq3 c.sh.head n) ok rfl (by intro _ e; cases e)
            (by intro h' n' e; injection e with e1 e2; subst e1; subst e2; exact ⟨rfl, hn⟩)
            (by intro _ _ e; cases e)
            (fun hi => by have := (ok.cons hi).1 _ hpc; cases this)
      | deq3 h n =>
        obtain ⟨rest, hcells, hinv⟩ := inv_deq3 (tick (A := algo) t c.clock (exec c.sh (.deq3 h n)).2) hI ht hpc
        refine ⟨rest, ?_, hinv⟩
        subst hcells
        simp [evOf, specStep, RQ.step]
      | deq4 h n => exact ⟨cells, rfl, inv_deq4 _ hI ht hpc⟩
      | emp1 =>
        refine ⟨cells, rfl, ?_⟩
        simp only [exec, Thread.advance]
        refine inv_local _ hI ht ?_ (owned_goto_plain _ rfl) (by rw [hpc]; simp) (by simp)
        exact threadOK_goto_same (.emp2 c.sh.head) ok rfl (by intro _ e; cases e)
          (by intro _ _ e; cases e) (by intro _ _ e; cases e) (fun _ => rfl)
      | emp2 h =>
        refine ⟨cells, rfl, ?_⟩
        exact inv_local_finish _ _ hI ht (by rw [hpc]; simp)
      | len1 =>
        refine ⟨cells, rfl, ?_⟩
        simp only [exec, Thread.advance]
        refine inv_local _ hI ht ?_ (owned_goto_plain _ rfl) (by rw [hpc]; simp) (by simp)
        exact threadOK_goto_same (.len2 c.sh.head) ok rfl (by intro _ e; cases e)
          (by intro _ _ e; cases e) (by intro _ _ e; cases e) (fun _ => rfl)
      | len2 h =>
        refine ⟨cells, rfl, ?_⟩
        cases hn : c.sh.next h with
        | none =>
          simp only [exec, hn, Thread.advance]
          exact inv_local_finish _ _ hI ht (by rw [hpc]; simp)
        | some n =>
          simp only [exec, hn, Thread.advance]
          refine inv_local _ hI ht ?_ (owned_goto_plain _ rfl) (by rw [hpc]; simp) (by simp)
          exact threadOK_goto_same (.len3 n 1) ok rfl (by intro _ e; cases e)
            (by intro _ _ e; cases e) (by intro _ _ e; cases e) (fun _ => rfl)
      | len3 cur k =>
        refine ⟨cells, rfl, ?_⟩
        cases hn : c.sh.next cur with
        | none =>
          simp only [exec, hn, Thread.advance]
          exact inv_local_finish _ _ hI ht (by rw [hpc]; simp)
        | some n =>
          simp only [exec, hn, Thread.advance]
          refine inv_local _ hI ht ?_ (owned_goto_plain _ rfl) (by rw [hpc]; simp) (by simp)
          exact threadOK_goto_same (.len3 n (k + 1)) ok rfl (by intro _ e; cases e)
            (by intro _ _ e; cases e) (by intro _ _ e; cases e) (fun _ => rfl)

/-! ### runs -/

/-- the reservation-queue events of a schedule -/
def evTrace (c : Cf) : List Nat → List Ev
  | [] => []
  | t :: ts => (stepEv c t).toList ++ evTrace (stepCfg c t) ts

theorem run_sim (ct : Nat) : ∀ (sched : List Nat) (c : Cf) (cells : List Cell), Inv ct c cells →
    ∃ cells', RQ.run cells (evTrace c sched) = some cells' ∧ Inv ct (runSched c sched) cells'
  | [], c, cells, hI => ⟨cells, rfl, hI⟩
  | t :: ts, c, cells, hI => by
    obtain ⟨cells1, hs, hI1⟩ := step_sim ct t c cells hI
    obtain ⟨cells2, hr, hI2⟩ := run_sim ct ts (stepCfg c t) cells1 hI1
    refine ⟨cells2, ?_, hI2⟩
    simp only [evTrace]
    cases he : stepEv c t with
    | none =>
      rw [he] at hs; simp only [specStep, Option.some.injEq] at hs; subst hs
      simpa using hr
    | some e =>
      rw [he] at hs; simp only [specStep] at hs
      simp only [Option.toList, List.cons_append, List.nil_append, RQ.run, hs, Option.bind_some]
      exact hr

end GoaktVerif.C04.UB

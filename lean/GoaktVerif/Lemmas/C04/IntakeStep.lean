/-
C04 — Treiber intake: the stepping thread re-establishes the invariants.
-/
import GoaktVerif.Lemmas.C04.IntakeOG

namespace GoaktVerif.C04.IntakeInv
open GoaktVerif.Model.C04 GoaktVerif.Model.C04.Intake

variable {k : Conf}

/-- `P` only reads head, next, stack, batch, done -/
theorem P_congr {s s' : Sh} (h : P s) (h1 : s'.head = s.head) (h2 : s'.next = s.next) (h3 : s'.stack = s.stack)
    (h4 : s'.batch = s.batch) (h5 : s'.done = s.done) : P s' where
  st := by rw [h1, h2, h3]; exact h.st
  nd := by rw [h3]; exact h.nd
  bnd := by rw [h4]; exact h.bnd
  dj := by rw [h3, h4]; exact h.dj
  dn := by rw [h4, h5]; exact h.dn

theorem afterDrain_fields (s : Sh) : (afterDrain k s).1.head = s.head ∧ (afterDrain k s).1.next = s.next ∧
    (afterDrain k s).1.stack = s.stack ∧ (afterDrain k s).1.batch = s.batch ∧ (afterDrain k s).1.done = s.done := by
  unfold afterDrain; split <;> exact ⟨rfl, rfl, rfl, rfl, rfl⟩

theorem afterDrain_next (s : Sh) : (∃ v, (afterDrain k s).2 = .goto (.deq7 v)) ∨ (afterDrain k s).2 = .ret .none := by
  unfold afterDrain; split
  · exact Or.inr rfl
  · next x rest _ => exact Or.inl ⟨x.1, rfl⟩

theorem seg_hstep (ct : Nat) (s : Sh) (i : Nat) (t : Th) (pc : PC) (now : Nat) (hP : P s) (hJ : J ct i s t)
    (hpc : t.pc = some pc) :
    P (exec k s pc).1 ∧ J ct i (exec k s pc).1 (t.advance (algo k) now (exec k s pc).2) := by
  have hcons : i ≠ ct → Op.deq ∉ t.prog := fun hi => (hJ.cons hi).2
  have hfr : fresh t = pcFresh (some pc) ++ enqIds t.prog := by unfold fresh; rw [hpc]
  have hown := hJ.own
  have hnd := hJ.nodup
  rw [hfr] at hown hnd
  have ownIds : ∀ v ∈ enqIds t.prog, v ∉ s.stack ∧ v ∉ s.batch := fun v hv => hown v (List.mem_append_right _ hv)
  have ndIds : (enqIds t.prog).Nodup := (List.nodup_append.mp hnd).2.1
  -- a producer step that keeps the same message in hand and leaves head/next/stack/batch/done alone
  have prodGoto : ∀ (s' : Sh) (pc' : PC), s'.head = s.head → s'.next = s.next → s'.stack = s.stack → s'.batch = s.batch →
      s'.done = s.done → pcFresh (some pc') = pcFresh (some pc) → inDrain (some pc') = false → isDeqPC pc' = false →
      inDrain t.pc = false → (∀ v old, pc' = .push3 v old → s'.next v = old) →
      P s' ∧ J ct i s' { t with pc := some pc' } := by
    intro s' pc' h1 h2 h3 h4 h5 hf hin hdq hold hp3
    refine ⟨P_congr hP h1 h2 h3 h4 h5, J_goto pc' ?_ ?_ hcons hp3 ?_ ?_ ?_ ?_ ?_ (fun _ => hdq)⟩
    · rw [hf, h3, h4]; exact hown
    · rw [hf]; exact hnd
    · intro a b e; subst e; cases hin
    · intro a b c e; subst e; cases hin
    · intro a e; subst e; cases hin
    · intro a b e; subst e; cases hin
    · intro hi _; rw [h5, h4]; exact hJ.idle hi hold
  have finKeep : ∀ (s' : Sh) (r : Res), s'.head = s.head → s'.next = s.next → s'.stack = s.stack → s'.batch = s.batch →
      s'.done = s.done → (i = ct → s.done = s.batch.length) → P s' ∧ J ct i s' (t.finish (algo k) r now) := by
    intro s' r h1 h2 h3 h4 h5 hid
    refine ⟨P_congr hP h1 h2 h3 h4 h5, J_finish r now ?_ ndIds ?_ hcons⟩
    · rw [h3, h4]; exact ownIds
    · intro hi; rw [h5, h4]; exact hid hi
  cases pc with
  | enqU v =>
    simp only [exec, Thread.advance]
    exact prodGoto _ _ rfl rfl rfl rfl rfl rfl rfl rfl (by rw [hpc]; rfl) (by intro _ _ e; cases e)
  | enqL v =>
    simp only [exec]
    have hid : i = ct → s.done = s.batch.length := fun hi => hJ.idle hi (by rw [hpc]; rfl)
    split
    · split
      · simp only [Thread.advance]; exact finKeep _ _ rfl rfl rfl rfl rfl hid
      · simp only [Thread.advance]
        exact prodGoto _ _ rfl rfl rfl rfl rfl rfl rfl rfl (by rw [hpc]; rfl) (by intro _ _ e; cases e)
    · simp only [Thread.advance]
      exact prodGoto _ _ rfl rfl rfl rfl rfl rfl rfl rfl (by rw [hpc]; rfl) (by intro _ _ e; cases e)
  | enqC v l =>
    simp only [exec]
    split
    · simp only [Thread.advance]
      exact prodGoto _ _ rfl rfl rfl rfl rfl rfl rfl rfl (by rw [hpc]; rfl) (by intro _ _ e; cases e)
    · simp only [Thread.advance]
      exact prodGoto _ _ rfl rfl rfl rfl rfl rfl rfl rfl (by rw [hpc]; rfl) (by intro _ _ e; cases e)
  | push1 v =>
    simp only [exec, Thread.advance]
    exact prodGoto _ _ rfl rfl rfl rfl rfl rfl rfl rfl (by rw [hpc]; rfl) (by intro _ _ e; cases e)
  | push2 v old =>
    -- `ctx.next := old` on a node nobody else references
    have hv := hown v (by simp [pcFresh])
    simp only [exec, Thread.advance]
    have hP' : P (s.setNext v old) := by
      refine ⟨?_, hP.nd, hP.bnd, hP.dj, hP.dn⟩
      exact ChainO.frame s.stack s.head (fun x hx => setNext_other s old (fun e => hv.1 (e ▸ hx))) hP.st
    refine ⟨hP', J_goto _ hown hnd hcons ?_ ?_ ?_ ?_ ?_ ?_ (fun _ => rfl)⟩
    · intro v' old' e; injection e with e1 e2; subst e1; subst e2; exact setNext_same s _ _
    · intro a b e; cases e
    · intro a b c e; cases e
    · intro a e; cases e
    · intro a b e; cases e
    · intro hi _; exact hJ.idle hi (by rw [hpc]; rfl)
  | push3 v old =>
    have hv := hown v (by simp [pcFresh])
    have hnext := hJ.p3 v old hpc
    have hid : i = ct → s.done = s.batch.length := fun hi => hJ.idle hi (by rw [hpc]; rfl)
    simp only [exec]
    split
    · next hcas =>
      simp only [Thread.advance]
      refine ⟨⟨?_, ?_, hP.bnd, ?_, hP.dn⟩, J_finish .ok now ?_ ndIds hid hcons⟩
      · show ChainO s.next (some v) (v :: s.stack)
        exact ⟨rfl, by rw [hnext, ← hcas]; exact hP.st⟩
      · exact List.nodup_cons.mpr ⟨hv.1, hP.nd⟩
      · intro x hx
        change x ∈ v :: s.stack at hx
        rcases List.mem_cons.mp hx with e | e
        · rw [e]; exact hv.2
        · exact hP.dj x e
      · intro x hx
        have hx' := ownIds x hx
        refine ⟨?_, hx'.2⟩
        show x ∉ v :: s.stack
        intro hm
        rcases List.mem_cons.mp hm with e | e
        · have := (List.nodup_append.mp hnd).2.2 v (by simp [pcFresh]) x hx
          exact this e.symm
        · exact hx'.1 e
    · simp only [Thread.advance]
      exact prodGoto _ _ rfl rfl rfl rfl rfl rfl rfl rfl (by rw [hpc]; rfl) (by intro _ _ e; cases e)
  | deq1 =>
    have hi : i = ct := is_consumer hJ hpc rfl
    have hid : i = ct → s.done = s.batch.length := fun hi => hJ.idle hi (by rw [hpc]; rfl)
    simp only [exec]
    split
    · simp only [Thread.advance]; exact finKeep _ _ rfl rfl rfl rfl rfl hid
    · simp only [Thread.advance]
      refine ⟨hP, J_goto _ hown hnd hcons ?_ ?_ ?_ ?_ ?_ (fun hi _ => hid hi) (fun h => absurd hi h)⟩
      all_goals (intros; rename_i e; cases e)
  | deq2 =>
    have hi : i = ct := is_consumer hJ hpc rfl
    have hid : s.done = s.batch.length := hJ.idle hi (by rw [hpc]; rfl)
    simp only [exec]
    split
    · -- nothing to drain: pop or answer nil
      obtain ⟨f1, f2, f3, f4, f5⟩ := afterDrain_fields (k := k) s
      have hP' := P_congr hP f1 f2 f3 f4 f5
      rcases afterDrain_next (k := k) s with ⟨v, hn⟩ | hn
      · rw [hn]; simp only [Thread.advance]
        refine ⟨hP', J_goto _ (by rw [f3, f4]; exact hown) hnd hcons ?_ ?_ ?_ ?_ ?_ (fun _ _ => by rw [f5, f4]; exact hid) (fun h => absurd hi h)⟩
        all_goals (intros; rename_i e; cases e)
      · rw [hn]; simp only [Thread.advance]
        exact ⟨hP', J_finish .none now (by rw [f3, f4]; exact ownIds) ndIds (fun _ => by rw [f5, f4]; exact hid) hcons⟩
    · next b hb =>
      -- the swap: the whole stack becomes the batch
      simp only [Thread.advance]
      refine ⟨⟨rfl, List.nodup_nil, ?_, ?_, Nat.zero_le _⟩, ?_⟩
      · show s.stack.reverse.Nodup; exact (List.reverse_perm s.stack).symm.nodup hP.nd
      · intro x hx; cases hx
      · refine J_goto _ ?_ hnd hcons ?_ ?_ ?_ ?_ ?_ (fun _ h => by cases h) (fun h => absurd hi h)
        · intro x hx
          have := hown x hx
          refine ⟨by show x ∉ ([] : List Nat); simp, ?_⟩
          show x ∉ s.stack.reverse
          rw [List.mem_reverse]; exact this.1
        · intro a b' e; cases e
        · intro cur prev e
          injection e with e1 e2; subst e1; subst e2
          refine ⟨rfl, [], s.stack, ?_, ?_, rfl⟩
          · show s.stack.reverse.reverse = [] ++ s.stack; simp
          · have := hP.st; rw [hb] at this; exact this
        · intro a b' c e; cases e
        · intro a e; cases e
        · intro a b' e; cases e
  | deq3 cur prev =>
    have hi : i = ct := is_consumer hJ hpc rfl
    obtain ⟨hd0, A, B, hAB, hB, hA⟩ := hJ.c3 cur prev hpc
    refine ⟨hP, ?_⟩
    simp only [exec, Thread.advance]
    refine J_goto _ hown hnd hcons ?_ ?_ ?_ ?_ ?_ (fun _ h => by cases h) (fun h => absurd hi h)
    · intro a b e; cases e
    · intro a b e; cases e
    · intro c' p' n' e
      injection e with e1 e2 e3; subst e1; subst e2; subst e3
      cases B with
      | nil => simp [ChainO] at hB
      | cons x xs =>
        simp only [ChainO, Option.some.injEq] at hB
        obtain ⟨e, hxs⟩ := hB; subst e
        exact ⟨hd0, A, xs, hAB, hxs, hA⟩
    · intro a e; cases e
    · intro a b e; cases e
  | deq4 cur prev nxt =>
    have hi : i = ct := is_consumer hJ hpc rfl
    obtain ⟨hd0, A, B, hAB, hB, hA⟩ := hJ.c4 cur prev nxt hpc
    -- cur is a batch node: not in the stack, not in A, not in B
    have hbr : (A ++ cur :: B).Nodup := by rw [← hAB]; exact (List.reverse_perm s.batch).symm.nodup hP.bnd
    have hcA : cur ∉ A := by
      intro h; have := (List.nodup_append.mp hbr).2.2 cur h cur (by simp); exact this rfl
    have hcB : cur ∉ B := (List.nodup_cons.mp (List.nodup_append.mp hbr).2.1).1
    have hcb : cur ∈ s.batch := by
      rw [← List.mem_reverse, hAB]; simp
    have hcs : cur ∉ s.stack := fun h => hP.dj cur h hcb
    have hP' : P (s.setNext cur prev) := by
      refine ⟨?_, hP.nd, hP.bnd, hP.dj, hP.dn⟩
      exact ChainO.frame s.stack s.head (fun x hx => setNext_other s prev (fun e => hcs (e ▸ hx))) hP.st
    have hA' : ChainO (s.setNext cur prev).next (some cur) (A ++ [cur]).reverse := by
      rw [List.reverse_append]
      show ChainO _ (some cur) (cur :: A.reverse)
      refine ⟨rfl, ?_⟩
      rw [setNext_same]
      exact ChainO.frame A.reverse prev (fun x hx => setNext_other s prev (fun e => hcA (by rw [← e]; exact List.mem_reverse.mp hx))) hA
    have hB' : ChainO (s.setNext cur prev).next nxt B :=
      ChainO.frame B nxt (fun x hx => setNext_other s prev (fun e => hcB (e ▸ hx))) hB
    simp only [exec]
    cases nxt with
    | some nx =>
      simp only [Thread.advance]
      refine ⟨hP', J_goto _ hown hnd hcons ?_ ?_ ?_ ?_ ?_ (fun _ h => by cases h) (fun h => absurd hi h)⟩
      · intro a b e; cases e
      · intro c' p' e
        injection e with e1 e2; subst e1; subst e2
        exact ⟨hd0, A ++ [cur], B, by show s.batch.reverse = A ++ [cur] ++ B; rw [hAB]; simp, hB', hA'⟩
      · intro a b c e; cases e
      · intro a e; cases e
      · intro a b e; cases e
    | none =>
      have hBn : B = [] := ChainO.nil_of_none B hB
      subst hBn
      simp only [Thread.advance]
      refine ⟨hP', J_goto _ hown hnd hcons ?_ ?_ ?_ ?_ ?_ (fun _ h => by cases h) (fun h => absurd hi h)⟩
      · intro a b e; cases e
      · intro a b e; cases e
      · intro a b c e; cases e
      · intro n e
        injection e with e; subst e
        show ChainO (s.setNext cur prev).next (some cur) (s.batch.drop s.done)
        have hb : s.batch = (A ++ [cur]).reverse := by
          rw [← List.reverse_reverse s.batch, hAB]
        rw [hd0, List.drop_zero, hb]
        exact hA'
      · intro a b e; cases e
  | deq5 n =>
    have hi : i = ct := is_consumer hJ hpc rfl
    have hc := hJ.c5 n hpc
    refine ⟨hP, ?_⟩
    simp only [exec, Thread.advance]
    refine J_goto _ hown hnd hcons ?_ ?_ ?_ ?_ ?_ (fun _ h => by cases h) (fun h => absurd hi h)
    · intro a b e; cases e
    · intro a b e; cases e
    · intro a b c e; cases e
    · intro a e; cases e
    · intro n' nx e
      injection e with e1 e2; subst e1; subst e2
      cases hdr : s.batch.drop s.done with
      | nil => rw [hdr] at hc; simp [ChainO] at hc
      | cons x xs =>
        rw [hdr] at hc
        simp only [ChainO, Option.some.injEq] at hc
        obtain ⟨e, hxs⟩ := hc; subst e
        obtain ⟨g1, g2⟩ := drop_cons hdr
        exact ⟨g1, by rw [g2]; exact hxs⟩
  | deq6 n nxt =>
    have hi : i = ct := is_consumer hJ hpc rfl
    obtain ⟨hget, hch⟩ := hJ.c6 n nxt hpc
    have hlt : s.done < s.batch.length := by
      rcases Nat.lt_or_ge s.done s.batch.length with h | h
      · exact h
      · rw [List.getElem?_eq_none h] at hget; cases hget
    have hnb : n ∈ s.batch := List.mem_of_getElem? hget
    have hns : n ∉ s.stack := fun h => hP.dj n h hnb
    have hnr : n ∉ s.batch.drop (s.done + 1) := not_mem_drop_succ hP.bnd hget
    -- state after the unlink and the heap push
    have key : ∀ (s2 : Sh), s2.head = s.head → s2.next = (s.setNext n none).next → s2.stack = s.stack → s2.batch = s.batch →
        s2.done = s.done + 1 → P s2 ∧ ChainO s2.next nxt (s2.batch.drop s2.done) := by
      intro s2 h1 h2 h3 h4 h5
      refine ⟨⟨?_, by rw [h3]; exact hP.nd, by rw [h4]; exact hP.bnd, by rw [h3, h4]; exact hP.dj, by rw [h4, h5]; omega⟩, ?_⟩
      · rw [h1, h2, h3]
        exact ChainO.frame s.stack s.head (fun x hx => setNext_other s none (fun e => hns (e ▸ hx))) hP.st
      · rw [h2, h4, h5]
        exact ChainO.frame _ nxt (fun x hx => setNext_other s none (fun e => hnr (e ▸ hx))) hch
    simp only [exec]
    cases nxt with
    | some nx =>
      simp only [Thread.advance]
      obtain ⟨hP', hc'⟩ := key (s.moveToHeap k n) rfl rfl rfl rfl rfl
      refine ⟨hP', J_goto _ hown hnd hcons ?_ ?_ ?_ ?_ ?_ (fun _ h => by cases h) (fun h => absurd hi h)⟩
      · intro a b e; cases e
      · intro a b e; cases e
      · intro a b c e; cases e
      · intro n' e; injection e with e; subst e; exact hc'
      · intro a b e; cases e
    | none =>
      -- the batch is exhausted: pop or answer nil
      obtain ⟨hP2, hc2⟩ := key (s.moveToHeap k n)
        rfl rfl rfl rfl rfl
      have hdone := ChainO.nil_of_none _ hc2
      have hfull : s.done + 1 = s.batch.length := by
        have : (s.batch.drop (s.done + 1)).length = 0 := by
          have h' : s.batch.drop (s.done + 1) = [] := hdone
          rw [h']; rfl
        rw [List.length_drop] at this; omega
      obtain ⟨f1, f2, f3, f4, f5⟩ := afterDrain_fields (k := k) (s.moveToHeap k n)
      have hP' := P_congr hP2 f1 f2 f3 f4 f5
      have hidle' : ∀ s3 : Sh, s3.done = s.done + 1 → s3.batch = s.batch → s3.done = s3.batch.length := by
        intro s3 a b; rw [a, b]; exact hfull
      rcases afterDrain_next (k := k) (s.moveToHeap k n) with ⟨v, hn⟩ | hn
      · rw [hn]; simp only [Thread.advance]
        refine ⟨hP', J_goto _ (by rw [f3, f4]; exact hown) hnd hcons ?_ ?_ ?_ ?_ ?_ (fun _ _ => hidle' _ f5 f4) (fun h => absurd hi h)⟩
        all_goals (intros; rename_i e; cases e)
      · rw [hn]; simp only [Thread.advance]
        exact ⟨hP', J_finish .none now (by rw [f3, f4]; exact ownIds) ndIds (fun _ => hidle' _ f5 f4) hcons⟩
  | deq7 v =>
    have hid : i = ct → s.done = s.batch.length := fun hi => hJ.idle hi (by rw [hpc]; rfl)
    simp only [exec, Thread.advance]
    exact finKeep _ _ rfl rfl rfl rfl rfl hid
  | len1 =>
    have hid : i = ct → s.done = s.batch.length := fun hi => hJ.idle hi (by rw [hpc]; rfl)
    simp only [exec, Thread.advance]
    exact finKeep _ _ rfl rfl rfl rfl rfl hid
  | emp1 =>
    have hid : i = ct → s.done = s.batch.length := fun hi => hJ.idle hi (by rw [hpc]; rfl)
    simp only [exec, Thread.advance]
    exact finKeep _ _ rfl rfl rfl rfl rfl hid

end GoaktVerif.C04.IntakeInv

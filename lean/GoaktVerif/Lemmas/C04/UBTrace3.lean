/-
C04 — UnboundedMailbox: the trace invariant is preserved by every step and holds initially.
-/
import GoaktVerif.Lemmas.C04.UBTrace2

namespace GoaktVerif.C04.UB
open GoaktVerif.Model.C04 GoaktVerif.Model.C04.Unbounded GoaktVerif.Spec.C04

theorem run_toList (q : RQ) (e : Option Ev) : RQ.run q e.toList = specStep q e := by
  cases e with
  | none => rfl
  | some ev =>
    simp only [Option.toList, RQ.run, specStep]
    cases q.step ev <;> rfl

theorem reservedOf_ev (s : Sh) (pc : PC) : reservedOf (evOf s pc).toList = (match pc with | .enq2 v => [v] | _ => []) := by
  cases pc with
  | deq2 h => simp only [evOf]; split <;> rfl
  | _ => rfl

theorem dequeuedOf_sub (a b : List Ev) (v : Nat) (h : v ∈ dequeuedOf a) : v ∈ dequeuedOf (a ++ b) := by
  rw [dequeuedOf_append]; exact List.mem_append_left _ h

theorem ready_of_publish {cells : List Cell} {v : Nat} (h : Cell.pending v ∈ cells) : Cell.ready v ∈ Spec.C04.publish cells v := by
  unfold Spec.C04.publish
  exact List.mem_map.mpr ⟨.pending v, h, by simp⟩

theorem tinv_step (ct tid : Nat) (c : Cf) (evs : List Ev) (cells : List Cell) (hT : TInv ct c evs cells) :
    ∃ cells', TInv ct (stepCfg c tid) (evs ++ (stepEv c tid).toList) cells' := by
  obtain ⟨cells', hs, hI'⟩ := step_sim ct tid c cells hT.inv
  have hrun : RQ.run [] (evs ++ (stepEv c tid).toList) = some cells' := by
    rw [run_append, hT.run, Option.bind_some, run_toList]; exact hs
  cases ht : c.threads[tid]? with
  | none =>
    have e1 : stepCfg c tid = c := by unfold stepCfg; simp [ht]
    have e2 : stepEv c tid = none := by simp [stepEv, ht]
    rw [e2] at hs; simp only [specStep, Option.some.injEq] at hs; subst hs
    rw [e1, e2]; exact ⟨cells, by simpa using hT⟩
  | some t =>
    cases hpc : t.pc with
    | none =>
      have e1 : stepCfg c tid = c := by unfold stepCfg; simp [ht, hpc]
      have e2 : stepEv c tid = none := by simp [stepEv, ht, hpc]
      rw [e2] at hs; simp only [specStep, Option.some.injEq] at hs; subst hs
      rw [e1, e2]; exact ⟨cells, by simpa using hT⟩
    | some pc =>
      have ok := hT.inv.thr tid t ht
      have hcur : ∀ w, pcEnqId t.pc = some w → ∃ k, t.cur = some (.enq w k) := fun w h => hT.curOK tid t w ht h
      refine ⟨cells', ?_⟩
      rw [stepCfg_eq ht hpc] at hI' ⊢
      rw [stepEv_eq ht hpc] at hs hrun ⊢
      refine ⟨hI', hrun, ?_, ?_, ?_, ?_⟩
      · -- curOK
        intro i ti v hi hv
        by_cases e : i = tid
        · subst e
          simp only [get_set_self ht, Option.some.injEq] at hi; subst hi
          exact cur_advance c.sh t pc c.clock hpc v hcur hv
        · simp only [get_set_ne (Ne.symm e)] at hi
          exact hT.curOK i ti v hi hv
      · -- freshNew
        intro i ti hi v hv
        rw [reservedOf_append, reservedOf_ev]
        have hold : v ∉ reservedOf evs := by
          by_cases e : i = tid
          · subst e
            simp only [get_set_self ht, Option.some.injEq] at hi; subst hi
            exact hT.freshNew i t ht v (fresh_advance_sub c.sh t pc c.clock hpc v hv)
          · simp only [get_set_ne (Ne.symm e)] at hi
            exact hT.freshNew i ti hi v hv
        cases pc with
        | enq2 w =>
          simp only [List.mem_append, List.mem_singleton, not_or]
          refine ⟨hold, ?_⟩
          intro e; subst e
          by_cases e : i = tid
          · subst e
            simp only [get_set_self ht, Option.some.injEq] at hi; subst hi
            simp only [exec, Thread.advance] at hv
            have hown := ok.ownedNodup
            rw [owned_enq2 hpc] at hown
            have : v ∈ enqIds t.prog := by unfold fresh at hv; simpa [pcFresh] using hv
            exact (List.nodup_cons.mp hown).1 this
          · simp only [get_set_ne (Ne.symm e)] at hi
            have := hT.inv.disj tid i t ti (Ne.symm e) ht hi v (by rw [owned_enq2 hpc]; simp)
            exact this (fresh_sub_owned ti v hv)
        | _ => simpa using hold
      · -- resNodup
        rw [reservedOf_append, reservedOf_ev]
        cases pc with
        | enq2 w =>
          have hw : w ∉ reservedOf evs := hT.freshNew tid t ht w (by rw [fresh_enq2 hpc]; simp)
          rw [List.nodup_append]
          refine ⟨hT.resNodup, by simp, ?_⟩
          intro a ha b hb
          simp only [List.mem_singleton] at hb; subst hb
          intro e; subst e; exact hw ha
        | _ => simpa using hT.resNodup
      · -- accepted
        intro i ti d v k hi hd hop hres
        have keep : (v ∈ dequeuedOf evs ∨ Cell.ready v ∈ cells) →
            v ∈ dequeuedOf (evs ++ (evOf c.sh pc).toList) ∨ Cell.ready v ∈ cells' := by
          intro h
          rcases h with h | h
          · exact Or.inl (dequeuedOf_sub _ _ v h)
          · rcases ready_step hs h with h' | h'
            · left; rw [dequeuedOf_append]; exact List.mem_append_right _ h'
            · exact Or.inr h'
        by_cases e : i = tid
        · subst e
          simp only [get_set_self ht, Option.some.injEq] at hi; subst hi
          rcases hist_advance t c.clock (exec c.sh pc).2 d hd with hd' | ⟨r, hnx, hd'⟩
          · exact keep (hT.accepted i t d v k ht hd' hop hres)
          · subst hd'
            simp only at hres hop
            subst hres
            obtain ⟨v0, p0, hpc0⟩ := ret_ok_is_publish c.sh pc hnx
            subst hpc0
            obtain ⟨k0, hk0⟩ := hcur v0 (by rw [hpc]; rfl)
            rw [hk0] at hop
            simp only [Option.getD_some, Op.enq.injEq] at hop
            obtain ⟨e1, _⟩ := hop; subst e1
            have hm : Cell.pending v0 ∈ cells := pendLink_pending cells c.sh.head p0 v0 (ok.enq3 v0 p0 hpc)
            simp only [evOf, specStep, RQ.step, hm, ↓reduceIte, Option.some.injEq] at hs
            subst hs
            exact Or.inr (ready_of_publish hm)
        · simp only [get_set_ne (Ne.symm e)] at hi
          exact keep (hT.accepted i ti d v k hi hd hop hres)

theorem tinv_run (ct : Nat) : ∀ (sched : List Nat) (c : Cf) (evs : List Ev) (cells : List Cell), TInv ct c evs cells →
    ∃ cells', TInv ct (runSched c sched) (evs ++ evTrace c sched) cells'
  | [], c, evs, cells, hT => ⟨cells, by simpa [runSched, evTrace] using hT⟩
  | t :: ts, c, evs, cells, hT => by
    obtain ⟨cells1, hT1⟩ := tinv_step ct t c evs cells hT
    obtain ⟨cells2, hT2⟩ := tinv_run ct ts (stepCfg c t) _ cells1 hT1
    refine ⟨cells2, ?_⟩
    simpa [runSched, evTrace, List.append_assoc] using hT2

theorem mk_hist (p : List Op) (k : Nat) : (mkThread algo p k).hist = [] := by
  unfold mkThread; cases p <;> rfl

theorem mk_cur (p : List Op) (k : Nat) (v : Nat) (h : pcEnqId (mkThread algo p k).pc = some v) :
    ∃ j, (mkThread algo p k).cur = some (.enq v j) := by
  unfold mkThread at h ⊢
  cases p with
  | nil => simp [pcEnqId] at h
  | cons op rest =>
    cases op with
    | enq w j => simp only [start, pcEnqId, Option.some.injEq] at h; subst h; exact ⟨j, rfl⟩
    | _ => simp [start, pcEnqId] at h

theorem tinv_init {ct : Nat} {progs : List (List Op)} (wf : UBWellFormed ct progs) :
    TInv ct (initCfg algo Unbounded.init progs) [] [] where
  inv := inv_init wf
  run := rfl
  curOK := by
    intro i t v hi hv
    obtain ⟨p, k, _, ht⟩ := spawn_get algo progs 0 i t hi
    subst ht; exact mk_cur p k v hv
  freshNew := by intro i t _ v _; simp [reservedOf]
  resNodup := by simp [reservedOf]
  accepted := by
    intro i t d v k hi hd
    obtain ⟨p, k', _, ht⟩ := spawn_get algo progs 0 i t hi
    subst ht; rw [mk_hist] at hd; cases hd

end GoaktVerif.C04.UB

/-
C04 — UnboundedMailbox: reservations are never repeated, and a message whose Enqueue has returned
is either already dequeued or a READY cell of the abstract queue (accepted messages are never lost).
-/
import GoaktVerif.Lemmas.C04.UBTrace

namespace GoaktVerif.C04.UB
open GoaktVerif.Model.C04 GoaktVerif.Model.C04.Unbounded GoaktVerif.Spec.C04

def pcEnqId : Option PC → Option Nat
  | some (.enq1 v) => some v
  | some (.enq2 v) => some v
  | some (.enq3 v _) => some v
  | _ => none

/-- the simulation relation together with the event trace that led here -/
structure TInv (ct : Nat) (c : Cf) (evs : List Ev) (cells : List Cell) : Prop where
  inv : Inv ct c cells
  run : RQ.run [] evs = some cells
  curOK : ∀ (i : Nat) (t : Th) (v : Nat), c.threads[i]? = some t → pcEnqId t.pc = some v → ∃ k, t.cur = some (.enq v k)
  freshNew : ∀ (i : Nat) (t : Th), c.threads[i]? = some t → ∀ v ∈ fresh t, v ∉ reservedOf evs
  resNodup : (reservedOf evs).Nodup
  accepted : ∀ (i : Nat) (t : Th) (d : Done) (v k : Nat), c.threads[i]? = some t → d ∈ t.hist → d.op = .enq v k → d.res = .ok →
    v ∈ dequeuedOf evs ∨ Cell.ready v ∈ cells

theorem hist_finish (t : Th) (r : Res) (now : Nat) :
    (t.finish algo r now).hist = { op := t.cur.getD .len, res := r, inv := t.started, ret := now + 1 } :: t.hist := by
  unfold Thread.finish; cases t.prog <;> rfl

theorem finish_cur (t : Th) (r : Res) (now : Nat) (v : Nat) (h : pcEnqId (t.finish algo r now).pc = some v) :
    ∃ k, (t.finish algo r now).cur = some (.enq v k) := by
  unfold Thread.finish at h ⊢
  cases hp : t.prog with
  | nil => simp [hp, pcEnqId] at h
  | cons op rest =>
    simp only [hp] at h ⊢
    cases op with
    | enq w k => simp only [start, pcEnqId, Option.some.injEq] at h; subst h; exact ⟨k, rfl⟩
    | _ => simp [start, pcEnqId] at h

/-- a READY cell stays ready until it is the one dequeued -/
theorem ready_step {cells cells' : List Cell} {e : Option Ev} {v : Nat} (h : specStep cells e = some cells')
    (hr : Cell.ready v ∈ cells) : v ∈ dequeuedOf e.toList ∨ Cell.ready v ∈ cells' := by
  cases e with
  | none => simp only [specStep, Option.some.injEq] at h; subst h; exact Or.inr hr
  | some ev =>
    simp only [specStep] at h
    cases ev with
    | reserve w =>
      simp only [RQ.step, Option.some.injEq] at h; subst h
      exact Or.inr (List.mem_append_left _ hr)
    | publish w =>
      simp only [RQ.step] at h
      split at h
      · simp only [Option.some.injEq] at h; subst h
        right
        unfold Spec.C04.publish
        refine List.mem_map.mpr ⟨.ready v, hr, by simp⟩
      · cases h
    | deq r =>
      simp only [RQ.step] at h
      split at h
      · next n rest =>
        split at h
        · next hr' =>
          simp only [Option.some.injEq] at h; subst h; subst hr'
          simp only [List.mem_cons] at hr
          rcases hr with hr | hr
          · injection hr with hr; subst hr; left; simp [dequeuedOf]
          · exact Or.inr hr
        · cases h
      · split at h
        · simp only [Option.some.injEq] at h; subst h; exact Or.inr hr
        · cases h

theorem fresh_advance_sub (s : Sh) (t : Th) (pc : PC) (now : Nat) (hpc : t.pc = some pc) :
    ∀ v ∈ fresh (t.advance algo now (exec s pc).2), v ∈ fresh t := by
  intro v hv
  have hfin : ∀ r, v ∈ fresh (t.finish algo r now) → v ∈ fresh t := by
    intro r h; rw [fresh_finish] at h; exact enqIds_sub_fresh t v h
  have hgo : ∀ pc', pcFresh (some pc') = [] → v ∈ fresh ({ t with pc := some pc' } : Th) → v ∈ fresh t := by
    intro pc' h1 h2
    unfold fresh at h2 ⊢
    simp only [h1, List.nil_append] at h2
    exact List.mem_append_right _ h2
  cases pc with
  | enq1 w =>
    simp only [exec, Thread.advance] at hv
    unfold fresh at hv ⊢; simpa [hpc, pcFresh] using hv
  | enq2 w => simp only [exec, Thread.advance] at hv; exact hgo _ rfl hv
  | enq3 w p => simp only [exec, Thread.advance] at hv; exact hfin _ hv
  | deq1 => simp only [exec, Thread.advance] at hv; exact hgo _ rfl hv
  | deq2 h =>
    simp only [exec] at hv
    split at hv
    · exact hfin _ hv
    · exact hgo _ rfl hv
  | deq3 h n => simp only [exec, Thread.advance] at hv; exact hgo _ rfl hv
  | deq4 h n => simp only [exec, Thread.advance] at hv; exact hfin _ hv
  | emp1 => simp only [exec, Thread.advance] at hv; exact hgo _ rfl hv
  | emp2 h => simp only [exec, Thread.advance] at hv; exact hfin _ hv
  | len1 => simp only [exec, Thread.advance] at hv; exact hgo _ rfl hv
  | len2 h =>
    simp only [exec] at hv
    split at hv
    · exact hfin _ hv
    · exact hgo _ rfl hv
  | len3 cur k =>
    simp only [exec] at hv
    split at hv
    · exact hfin _ hv
    · exact hgo _ rfl hv

/-- the only step that returns `ok` is the publishing store -/
theorem ret_ok_is_publish (s : Sh) (pc : PC) (h : (exec s pc).2 = .ret .ok) : ∃ v p, pc = .enq3 v p := by
  cases pc with
  | enq3 v p => exact ⟨v, p, rfl⟩
  | deq2 x => simp only [exec] at h; split at h <;> simp at h
  | len2 x => simp only [exec] at h; split at h <;> simp at h
  | len3 x k => simp only [exec] at h; split at h <;> simp at h
  | _ => simp [exec] at h

theorem cur_advance (s : Sh) (t : Th) (pc : PC) (now : Nat) (hpc : t.pc = some pc) (v : Nat)
    (hold : ∀ w, pcEnqId t.pc = some w → ∃ k, t.cur = some (.enq w k))
    (h : pcEnqId (t.advance algo now (exec s pc).2).pc = some v) :
    ∃ k, (t.advance algo now (exec s pc).2).cur = some (.enq v k) := by
  cases hnx : (exec s pc).2 with
  | ret r => rw [hnx] at h; exact finish_cur t r now v h
  | goto pc' =>
    rw [hnx] at h
    simp only [Thread.advance, pcEnqId] at h ⊢
    cases pc with
    | enq1 w =>
      simp only [exec, Next.goto.injEq] at hnx; subst hnx
      simp only [pcEnqId, Option.some.injEq] at h; subst h
      exact hold w (by rw [hpc]; rfl)
    | enq2 w =>
      simp only [exec, Next.goto.injEq] at hnx; subst hnx
      simp only [pcEnqId, Option.some.injEq] at h; subst h
      exact hold w (by rw [hpc]; rfl)
    | enq3 w p => simp [exec] at hnx
    | deq1 => simp only [exec, Next.goto.injEq] at hnx; subst hnx; simp [pcEnqId] at h
    | deq2 x =>
      simp only [exec] at hnx
      split at hnx
      · simp at hnx
      · simp only [Next.goto.injEq] at hnx; subst hnx; simp [pcEnqId] at h
    | deq3 x n => simp only [exec, Next.goto.injEq] at hnx; subst hnx; simp [pcEnqId] at h
    | deq4 x n => simp [exec] at hnx
    | emp1 => simp only [exec, Next.goto.injEq] at hnx; subst hnx; simp [pcEnqId] at h
    | emp2 x => simp [exec] at hnx
    | len1 => simp only [exec, Next.goto.injEq] at hnx; subst hnx; simp [pcEnqId] at h
    | len2 x =>
      simp only [exec] at hnx
      split at hnx
      · simp at hnx
      · simp only [Next.goto.injEq] at hnx; subst hnx; simp [pcEnqId] at h
    | len3 x k =>
      simp only [exec] at hnx
      split at hnx
      · simp at hnx
      · simp only [Next.goto.injEq] at hnx; subst hnx; simp [pcEnqId] at h

theorem hist_advance (t : Th) (now : Nat) (nx : Next PC) (d : Done) (h : d ∈ (t.advance algo now nx).hist) :
    d ∈ t.hist ∨ ∃ r, nx = .ret r ∧ d = { op := t.cur.getD .len, res := r, inv := t.started, ret := now + 1 } := by
  cases nx with
  | goto pc' => exact Or.inl h
  | ret r =>
    simp only [Thread.advance, hist_finish, List.mem_cons] at h
    rcases h with h | h
    · exact Or.inr ⟨r, rfl, h⟩
    · exact Or.inl h

end GoaktVerif.C04.UB

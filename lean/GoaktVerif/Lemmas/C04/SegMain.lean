/-
C04 — `UnboundedSegmentedMailbox`: the slot discipline in every reachable configuration.
-/
import GoaktVerif.Lemmas.C04.SegFrame

namespace GoaktVerif.C04.SegInv
open GoaktVerif.Model.C04 GoaktVerif.Model.C04.Segmented

/-- a thread arrives at `Store:data` only from its own `Add:writeIdx`, with the index it was given -/
theorem adv_e3 (s : Sh) (ti : Th) (pc : PC) (now : Nat) (w g idx : Nat)
    (h : (ti.advance algo now (exec s pc).2).pc = some (.e3 w g idx)) :
    pc = .e2 w g ∧ idx = (s.segs g).writeIdx := by
  cases hnx : (exec s pc).2 with
  | ret r =>
    rw [hnx] at h
    rcases finish_pc' ti r now with h' | ⟨op, _, h'⟩
    · simp only [Thread.advance] at h; rw [h'] at h; cases h
    · simp only [Thread.advance] at h; rw [h'] at h; cases op <;> simp [start] at h
  | goto pc' =>
    rw [hnx] at h
    simp only [Thread.advance, Option.some.injEq] at h
    subst h
    cases pc with
    | e2 v t =>
      simp only [exec] at hnx
      split at hnx
      · simp only [Next.goto.injEq, PC.e3.injEq] at hnx
        obtain ⟨a, b, c⟩ := hnx
        subst a; subst b
        exact ⟨rfl, c.symm⟩
      · simp at hnx
    | e5 v t => simp only [exec] at hnx; split at hnx <;> simp at hnx
    | e6 v t g' => simp only [exec] at hnx; split at hnx <;> simp at hnx
    | d3 seg enq => simp only [exec] at hnx; split at hnx <;> (try split at hnx) <;> simp at hnx
    | d4 seg deq => simp only [exec] at hnx; split at hnx <;> simp at hnx
    | d8 seg => simp only [exec] at hnx; split at hnx <;> simp at hnx
    | m3 seg enq => simp only [exec] at hnx; split at hnx <;> simp at hnx
    | _ => simp [exec] at hnx

/-- a thread arrives at `Store:deqIdx` only from its own clearing `Store:data` of the same slot -/
theorem adv_d6 (s : Sh) (ti : Th) (pc : PC) (now : Nat) (seg deq v : Nat)
    (h : (ti.advance algo now (exec s pc).2).pc = some (.d6 seg deq v)) : pc = .d5 seg deq v := by
  cases hnx : (exec s pc).2 with
  | ret r =>
    rw [hnx] at h
    rcases finish_pc' ti r now with h' | ⟨op, _, h'⟩
    · simp only [Thread.advance] at h; rw [h'] at h; cases h
    · simp only [Thread.advance] at h; rw [h'] at h; cases op <;> simp [start] at h
  | goto pc' =>
    rw [hnx] at h
    simp only [Thread.advance, Option.some.injEq] at h
    subst h
    cases pc with
    | d5 a b c =>
      simp only [exec, Next.goto.injEq, PC.d6.injEq] at hnx
      obtain ⟨x, y, z⟩ := hnx; subst x; subst y; subst z; rfl
    | e2 v t => simp only [exec] at hnx; split at hnx <;> simp at hnx
    | e5 v t => simp only [exec] at hnx; split at hnx <;> simp at hnx
    | e6 v t g' => simp only [exec] at hnx; split at hnx <;> simp at hnx
    | d3 seg enq => simp only [exec] at hnx; split at hnx <;> (try split at hnx) <;> simp at hnx
    | d4 seg deq => simp only [exec] at hnx; split at hnx <;> simp at hnx
    | d8 seg => simp only [exec] at hnx; split at hnx <;> simp at hnx
    | m3 seg enq => simp only [exec] at hnx; split at hnx <;> simp at hnx
    | _ => simp [exec] at hnx

/-- exclusivity of slots is kept -/
theorem seg_hK (ct : Nat) (s : Sh) (i j : Nat) (ti tj : Th) (pc : PC) (now : Nat) (_hij : i ≠ j) (_hP : P s)
    (hJi : J ct i s ti) (hJj : J ct j s tj) (_hK : K ti tj) (hpc : ti.pc = some pc) :
    K (ti.advance algo now (exec s pc).2) tj ∧ K tj (ti.advance algo now (exec s pc).2) := by
  -- the three kinds of pairs, with the stepping thread on one side
  have c1 : ∀ v g idx v' g' idx', (ti.advance algo now (exec s pc).2).pc = some (.e3 v g idx) →
      tj.pc = some (.e3 v' g' idx') → ¬ (g = g' ∧ idx = idx') := by
    intro v g idx v' g' idx' h1 h2 e
    obtain ⟨_, hidx⟩ := adv_e3 s ti pc now v g idx h1
    have := (hJj.e3 v' g' idx' h2).2.1
    rw [← e.1, ← e.2, hidx] at this
    omega
  have c2 : ∀ seg deq v w g idx, (ti.advance algo now (exec s pc).2).pc = some (.d6 seg deq v) →
      tj.pc = some (.e3 w g idx) → ¬ (seg = g ∧ deq = idx) := by
    intro seg deq v w g idx h1 h2 e
    have hp := adv_d6 s ti pc now seg deq v h1
    subst hp
    have hs := (hJi.d5 seg deq v hpc).2.2.2.2
    have hn := (hJj.e3 w g idx h2).2.2.2
    rw [← e.1, ← e.2, hs] at hn; cases hn
  have c3 : ∀ seg deq v w g idx, tj.pc = some (.d6 seg deq v) →
      (ti.advance algo now (exec s pc).2).pc = some (.e3 w g idx) → ¬ (seg = g ∧ deq = idx) := by
    intro seg deq v w g idx h1 h2 e
    obtain ⟨_, hidx⟩ := adv_e3 s ti pc now w g idx h2
    have := (hJj.d6 seg deq v h1).2.2.2
    rw [e.1, e.2, hidx] at this
    omega
  refine ⟨⟨c1, c2, c3⟩, ⟨?_, c3, c2⟩⟩
  intro v g idx v' g' idx' h1 h2 e
  exact c1 v' g' idx' v g idx h2 h1 ⟨e.1.symm, e.2.symm⟩

/-- usage assumed: only thread `ct` calls Dequeue -/
def SegWF (ct : Nat) (progs : List (List Op)) : Prop :=
  ∀ (i : Nat) (p : List Op), progs[i]? = some p → i ≠ ct → Op.deq ∉ p

theorem init_seg (n g : Nat) : ((Segmented.init n).segs g).writeIdx = 0 ∧ ((Segmented.init n).segs g).deqIdx = 0 ∧
    ((Segmented.init n).segs g).next = none ∧ (∀ i, ((Segmented.init n).segs g).data i = none) := by
  unfold Segmented.init
  simp only
  split <;> simp [Seg.zero]

theorem P_init (n : Nat) : P (Segmented.init n) where
  deqLe := by intro g; obtain ⟨a, b, _, _⟩ := init_seg n g; rw [a, b]; exact ⟨Nat.zero_le _, Nat.le_refl _⟩
  unres := by intro g i _; exact (init_seg n g).2.2.2 i

/-- the slot discipline holds in every reachable configuration: all programs, any number of
producers, all schedules -/
theorem seg_inv (ct n : Nat) (progs : List (List Op)) (wf : SegWF ct progs) :
    ∀ c, Reach Segmented.algo (initCfg Segmented.algo (Segmented.init n) progs) c →
      P c.sh ∧ (∀ (i : Nat) (t : Th), c.threads[i]? = some t → J ct i c.sh t) ∧
      (∀ (i j : Nat) (ti tj : Th), i ≠ j → c.threads[i]? = some ti → c.threads[j]? = some tj → K ti tj) := by
  refine reach_og (A := Segmented.algo) P (J ct) K (P_init n) ?_ ?_ ?_ ?_ ?_
  · intro i p k hp
    exact J_start p (mk_pc' p k) (mk_prog_sub' p k) (fun hi => wf i p hp hi)
  · intro p q k k'
    have no3 : ∀ (r : List Op) (m : Nat) v g idx, (mkThread Segmented.algo r m).pc ≠ some (.e3 v g idx) := by
      intro r m v g idx h
      rcases mk_pc' r m with h' | ⟨op, _, h'⟩
      · rw [h'] at h; cases h
      · rw [h'] at h; cases op <;> simp [start] at h
    exact ⟨fun v g idx _ _ _ h _ => absurd h (no3 p k v g idx), fun _ _ _ w g idx _ h => absurd h (no3 q k' w g idx),
           fun _ _ _ w g idx _ h => absurd h (no3 p k w g idx)⟩
  · intro s i t pc now hP hJ hpc; exact seg_hstep ct s i t pc now hP hJ hpc
  · intro s i j ti tj pc hij hP hJi hJj hK hpc; exact seg_hframe ct s i j ti tj pc hij hP hJi hJj hK hpc
  · intro s i j ti tj pc now hij hP hJi hJj hK hpc; exact seg_hK ct s i j ti tj pc now hij hP hJi hJj hK hpc

end GoaktVerif.C04.SegInv

/-
C04 — UnboundedMailbox: forward simulation to the reservation queue, one lemma per kind of step.
-/
import GoaktVerif.Lemmas.C04.UBInv

namespace GoaktVerif.C04.UB
open GoaktVerif.Model.C04 GoaktVerif.Model.C04.Unbounded GoaktVerif.Spec.C04

/-- linearization points: `Swap:tail` = reserve, the publishing `Store:next` = publish,
`Store:head` = successful dequeue, the `Load:next` that reads nil = dequeue answering nothing -/
def evOf (s : Sh) : PC → Option Ev
  | .enq2 v => some (.reserve v)
  | .enq3 v _ => some (.publish v)
  | .deq2 h => if s.next h = none then some (.deq none) else none
  | .deq3 _ n => some (.deq (some n))
  | _ => none

def stepEv (c : Cf) (tid : Nat) : Option Ev :=
  match c.threads[tid]? with
  | some t => t.pc.bind (evOf c.sh)
  | none => none

def specStep (q : RQ) : Option Ev → Option RQ
  | none => some q
  | some e => q.step e

theorem stepCfg_eq {c : Cf} {tid : Nat} {t : Th} {pc : PC} (ht : c.threads[tid]? = some t) (hpc : t.pc = some pc) :
    stepCfg c tid = { sh := (exec c.sh pc).1, threads := c.threads.set tid (t.advance algo c.clock (exec c.sh pc).2),
                      clock := tick (A := algo) t c.clock (exec c.sh pc).2 } := by
  unfold stepCfg
  simp only [ht, hpc]

/-! ### thread bookkeeping -/

theorem owned_finish (t : Th) (r : Res) (now : Nat) : owned (t.finish algo r now) = enqIds t.prog := by
  unfold Thread.finish owned
  cases hp : t.prog with
  | nil => simp [pcOwned, enqIds]
  | cons op rest =>
    cases op <;> simp [pcOwned, enqIds, start]

theorem fresh_finish (t : Th) (r : Res) (now : Nat) : fresh (t.finish algo r now) = enqIds t.prog := by
  unfold Thread.finish fresh
  cases hp : t.prog with
  | nil => simp [pcFresh, enqIds]
  | cons op rest =>
    cases op <;> simp [pcFresh, enqIds, start]

theorem finish_pc (t : Th) (r : Res) (now : Nat) :
    (t.finish algo r now).pc = none ∨ ∃ op, op ∈ t.prog ∧ (t.finish algo r now).pc = some (start op) := by
  unfold Thread.finish
  cases hp : t.prog with
  | nil => exact Or.inl rfl
  | cons op rest => exact Or.inr ⟨op, by simp, rfl⟩

theorem finish_prog_sub (t : Th) (r : Res) (now : Nat) : ∀ op ∈ (t.finish algo r now).prog, op ∈ t.prog := by
  unfold Thread.finish
  cases hp : t.prog with
  | nil => simp
  | cons op rest => intro o ho; exact List.mem_cons_of_mem _ ho

theorem enqIds_sub_owned (t : Th) : ∀ v ∈ enqIds t.prog, v ∈ owned t := by
  intro v hv; unfold owned; exact List.mem_append_right _ hv

theorem enqIds_sub_fresh (t : Th) : ∀ v ∈ enqIds t.prog, v ∈ fresh t := by
  intro v hv; unfold fresh; exact List.mem_append_right _ hv

theorem enqIds_nodup_of_owned {t : Th} (h : (owned t).Nodup) : (enqIds t.prog).Nodup := by
  unfold owned at h
  exact (List.nodup_append.mp h).2.1

/-- a thread that finished an operation and moved to its next one keeps every promise -/
theorem threadOK_finish {ct : Nat} {s : Sh} {cells : List Cell} {i : Nat} {t : Th} (r : Res) (now : Nat)
    (hnd : (enqIds t.prog).Nodup) (hout : ∀ v ∈ enqIds t.prog, v ∉ s.head :: vals cells)
    (hcons : i ≠ ct → Op.deq ∉ t.prog) : ThreadOK ct s cells i (t.finish algo r now) where
  ownedNodup := by rw [owned_finish]; exact hnd
  freshOut := by rw [fresh_finish]; exact hout
  enq2 := by
    intro v h
    rcases finish_pc t r now with h' | ⟨op, _, h'⟩
    · rw [h'] at h; cases h
    · rw [h'] at h; cases op <;> simp [start] at h
  enq3 := by
    intro v p h
    rcases finish_pc t r now with h' | ⟨op, _, h'⟩
    · rw [h'] at h; cases h
    · rw [h'] at h; cases op <;> simp [start] at h
  deq2 := by
    intro v h
    rcases finish_pc t r now with h' | ⟨op, _, h'⟩
    · rw [h'] at h; cases h
    · rw [h'] at h; cases op <;> simp [start] at h
  deq3 := by
    intro v p h
    rcases finish_pc t r now with h' | ⟨op, _, h'⟩
    · rw [h'] at h; cases h
    · rw [h'] at h; cases op <;> simp [start] at h
  deq4 := by
    intro v p h
    rcases finish_pc t r now with h' | ⟨op, _, h'⟩
    · rw [h'] at h; cases h
    · rw [h'] at h; cases op <;> simp [start] at h
  cons := by
    intro hi
    have hd := hcons hi
    refine ⟨?_, fun hm => hd (finish_prog_sub t r now _ hm)⟩
    intro pc hpc
    rcases finish_pc t r now with h' | ⟨op, hop, h'⟩
    · rw [h'] at hpc; cases hpc
    · rw [h'] at hpc
      injection hpc with hpc
      subst hpc
      cases op with
      | deq => exact absurd hop hd
      | enq v k => rfl
      | emp => rfl
      | len => rfl

theorem pendOf_set_keep {ts : List Th} {tid : Nat} {t t' : Th} {x y : Nat} (ht : ts[tid]? = some t)
    (hne : t.pc ≠ some (PC.enq3 y x)) (h : PendOf ts x y) : PendOf (ts.set tid t') x y := by
  obtain ⟨i, ti, hi, hpc⟩ := h
  by_cases e : i = tid
  · subst e
    rw [ht] at hi; injection hi with hi; subst hi
    exact absurd hpc hne
  · exact ⟨i, ti, by rw [get_set_ne (Ne.symm e)]; exact hi, hpc⟩

theorem pendOf_set_new {ts : List Th} {tid : Nat} {t t' : Th} {x y : Nat} (ht : ts[tid]? = some t)
    (hpc : t'.pc = some (PC.enq3 y x)) : PendOf (ts.set tid t') x y :=
  ⟨tid, t', get_set_self ht, hpc⟩

end GoaktVerif.C04.UB

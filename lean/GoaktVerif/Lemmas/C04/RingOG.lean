/-
C04 — `NonBlockingBoundedMailbox`: the structural invariants hold in every reachable configuration
(Owicki–Gries obligations for `RingInv.P`, `RingInv.J`, `RingInv.K`).
-/
import GoaktVerif.Lemmas.C04.RingInv

namespace GoaktVerif.C04.RingInv
open GoaktVerif.Model.C04 GoaktVerif.Model.C04.Ring

theorem finish_pc' (t : Th) (r : Res) (now : Nat) :
    (t.finish algo r now).pc = none ∨ ∃ op, op ∈ t.prog ∧ (t.finish algo r now).pc = some (start op) := by
  unfold Thread.finish
  cases hp : t.prog with
  | nil => exact Or.inl rfl
  | cons op rest => exact Or.inr ⟨op, by simp, rfl⟩

theorem finish_prog_sub' (t : Th) (r : Res) (now : Nat) : ∀ op ∈ (t.finish algo r now).prog, op ∈ t.prog := by
  unfold Thread.finish
  cases hp : t.prog with
  | nil => simp
  | cons op rest => intro o ho; exact List.mem_cons_of_mem _ ho

/-- `J` for a thread parked at the first site of an operation (or finished) -/
theorem J_start {ct i : Nat} {s : Sh} {t : Th} (prog0 : List Op)
    (hpc : t.pc = none ∨ ∃ op, op ∈ prog0 ∧ t.pc = some (start op)) (hsub : ∀ op ∈ t.prog, op ∈ prog0)
    (hidle : i = ct → rel s = s.deqPos) (hcons : i ≠ ct → Op.deq ∉ prog0) : J ct i s t := by
  have hno : ∀ pc, t.pc = some pc → ∃ op, op ∈ prog0 ∧ pc = start op := by
    intro pc h
    rcases hpc with h' | ⟨op, hop, h'⟩
    · rw [h'] at h; cases h
    · rw [h'] at h; injection h with h; exact ⟨op, hop, h.symm⟩
  refine ⟨?_, ?_, ?_, ?_, ?_, ?_, ?_, ?_⟩
  · intro v pos h; obtain ⟨op, _, e⟩ := hno _ h; cases op <;> simp [start] at e
  · intro v pos h; obtain ⟨op, _, e⟩ := hno _ h; cases op <;> simp [start] at e
  · intro v pos h; obtain ⟨op, _, e⟩ := hno _ h; cases op <;> simp [start] at e
  · intro pos h; obtain ⟨op, _, e⟩ := hno _ h; cases op <;> simp [start] at e
  · intro pos h; obtain ⟨op, _, e⟩ := hno _ h; cases op <;> simp [start] at e
  · intro pos msg h; obtain ⟨op, _, e⟩ := hno _ h; cases op <;> simp [start] at e
  · intro hi _; exact hidle hi
  · intro hi
    have hd := hcons hi
    refine ⟨?_, fun hm => hd (hsub _ hm)⟩
    intro pc h
    obtain ⟨op, hop, e⟩ := hno _ h
    subst e
    cases op with
    | deq => exact absurd hop hd
    | enq v k => rfl
    | emp => rfl
    | len => rfl

theorem J_finish {ct i : Nat} {s : Sh} {t : Th} (r : Res) (now : Nat)
    (hidle : i = ct → rel s = s.deqPos) (hcons : i ≠ ct → Op.deq ∉ t.prog) : J ct i s (t.finish algo r now) :=
  J_start t.prog (finish_pc' t r now) (finish_prog_sub' t r now) hidle hcons

theorem mk_pc' (p : List Op) (k : Nat) :
    (mkThread algo p k).pc = none ∨ ∃ op, op ∈ p ∧ (mkThread algo p k).pc = some (start op) := by
  unfold mkThread
  cases p with
  | nil => exact Or.inl rfl
  | cons op rest => exact Or.inr ⟨op, by simp, rfl⟩

theorem mk_prog_sub' (p : List Op) (k : Nat) : ∀ op ∈ (mkThread algo p k).prog, op ∈ p := by
  unfold mkThread
  cases p with
  | nil => simp
  | cons op rest => intro o ho; exact List.mem_cons_of_mem _ ho

/-- moving to another program counter inside an operation: only the fields of that program counter matter -/
theorem J_goto {ct i : Nat} {s : Sh} {t : Th} (pc' : PC) (hcons : i ≠ ct → Op.deq ∉ t.prog)
    (hidle' : i = ct → atDeq4 (some pc') = false → rel s = s.deqPos)
    (h2 : ∀ v pos, pc' = .enq2 v pos → pos ≤ s.enqPos)
    (h3 : ∀ v pos, pc' = .enq3 v pos → pos ≤ s.enqPos ∧ (pos = s.enqPos → s.seq (pos % s.size) = pos))
    (h4 : ∀ v pos, pc' = .enq4 v pos → s.deqPos ≤ pos ∧ pos < s.enqPos ∧ s.seq (pos % s.size) = pos)
    (d2 : ∀ pos, pc' = .deq2 pos → pos = s.deqPos)
    (d3 : ∀ pos, pc' = .deq3 pos → pos = s.deqPos ∧ s.seq (pos % s.size) = pos + 1)
    (d4 : ∀ pos msg, pc' = .deq4 pos msg → pos + 1 = s.deqPos ∧ rel s = pos)
    (hc : i ≠ ct → isDeqPC pc' = false) : J ct i s { t with pc := some pc' } where
  enq2 := by intro v pos h; simp only [Option.some.injEq] at h; exact h2 v pos h
  enq3 := by intro v pos h; simp only [Option.some.injEq] at h; exact h3 v pos h
  enq4 := by intro v pos h; simp only [Option.some.injEq] at h; exact h4 v pos h
  deq2 := by intro pos h; simp only [Option.some.injEq] at h; exact d2 pos h
  deq3 := by intro pos h; simp only [Option.some.injEq] at h; exact d3 pos h
  deq4 := by intro pos msg h; simp only [Option.some.injEq] at h; exact d4 pos msg h
  idle := hidle'
  cons := by
    intro hi
    refine ⟨?_, hcons hi⟩
    intro pc h; simp only [Option.some.injEq] at h; subst h; exact hc hi

theorem is_consumer {ct i : Nat} {s : Sh} {t : Th} {pc : PC} (hJ : J ct i s t) (hpc : t.pc = some pc)
    (hd : isDeqPC pc = true) : i = ct := by
  by_cases h : i = ct
  · exact h
  · have := (hJ.cons h).1 pc hpc; rw [this] at hd; cases hd

theorem int_sub_eq_zero {a b : Nat} (h : (a : Int) - (b : Int) = 0) : a = b := by omega

/-- the stepping thread re-establishes `P` and its own `J` -/
theorem ring_hstep (ct : Nat) (s : Sh) (i : Nat) (t : Th) (pc : PC) (now : Nat) (hP : P s) (hJ : J ct i s t)
    (hpc : t.pc = some pc) :
    P (exec s pc).1 ∧ J ct i (exec s pc).1 (t.advance algo now (exec s pc).2) := by
  have hcons : i ≠ ct → Op.deq ∉ t.prog := fun hi => (hJ.cons hi).2
  cases pc with
  | enq1 v =>
    have hidle : i = ct → rel s = s.deqPos := fun hi => hJ.idle hi (by rw [hpc]; rfl)
    refine ⟨hP, ?_⟩
    simp only [exec, Thread.advance]
    refine J_goto _ hcons (fun hi _ => hidle hi) ?_ ?_ ?_ ?_ ?_ ?_ (fun _ => rfl)
    · intro v' pos e; injection e with _ e2; omega
    all_goals (intros; rename_i e; cases e)
  | enq2 v pos =>
    have hidle : i = ct → rel s = s.deqPos := fun hi => hJ.idle hi (by rw [hpc]; rfl)
    have hle := hJ.enq2 v pos hpc
    simp only [exec]
    split
    · next hd =>
      refine ⟨hP, ?_⟩
      simp only [Thread.advance]
      refine J_goto _ hcons (fun hi _ => hidle hi) ?_ ?_ ?_ ?_ ?_ ?_ (fun _ => rfl)
      · intros; rename_i e; cases e
      · intro v' pos' e; injection e with _ e2; subst e2
        exact ⟨hle, fun _ => int_sub_eq_zero hd⟩
      all_goals (intros; rename_i e; cases e)
    · split
      · exact ⟨hP, J_finish .full now hidle hcons⟩
      · refine ⟨hP, ?_⟩
        simp only [Thread.advance]
        refine J_goto _ hcons (fun hi _ => hidle hi) ?_ ?_ ?_ ?_ ?_ ?_ (fun _ => rfl)
        all_goals (intros; rename_i e; cases e)
  | enq3 v pos =>
    have hidle : i = ct → rel s = s.deqPos := fun hi => hJ.idle hi (by rw [hpc]; rfl)
    obtain ⟨hle, hfree⟩ := hJ.enq3 v pos hpc
    simp only [exec]
    split
    · next he =>
      have hfr := hfree he.symm
      obtain ⟨hlt, hP'⟩ := P_reserve hP v (by rw [he]; exact hfr)
      rw [he] at hP'
      refine ⟨hP', ?_⟩
      simp only [Thread.advance]
      have hrel : rel (({ s with enqPos := pos + 1 } : Sh).setCtx (pos % s.size) (some v)) = rel s := rfl
      refine J_goto _ hcons (fun hi _ => by rw [hrel]; exact hidle hi) ?_ ?_ ?_ ?_ ?_ ?_ (fun _ => rfl)
      · intros; rename_i e; cases e
      · intros; rename_i e; cases e
      · intro v' pos' e; injection e with _ e2; subst e2
        refine ⟨?_, ?_, hfr⟩
        · show s.deqPos ≤ pos; have := hP.le1; omega
        · show pos < pos + 1; omega
      all_goals (intros; rename_i e; cases e)
    · refine ⟨hP, ?_⟩
      simp only [Thread.advance]
      refine J_goto _ hcons (fun hi _ => hidle hi) ?_ ?_ ?_ ?_ ?_ ?_ (fun _ => rfl)
      · intro v' pos' e; injection e with _ e2; subst e2; exact hle
      all_goals (intros; rename_i e; cases e)
  | enq4 v pos =>
    have hidle : i = ct → rel s = s.deqPos := fun hi => hJ.idle hi (by rw [hpc]; rfl)
    obtain ⟨h1, h2, _⟩ := hJ.enq4 v pos hpc
    obtain ⟨hr, hP'⟩ := P_publish hP pos h1 h2
    simp only [exec, Thread.advance]
    exact ⟨hP', J_finish .ok now (fun hi => by rw [hr]; exact hidle hi) hcons⟩
  | enq5 v =>
    have hidle : i = ct → rel s = s.deqPos := fun hi => hJ.idle hi (by rw [hpc]; rfl)
    refine ⟨hP, ?_⟩
    simp only [exec, Thread.advance]
    refine J_goto _ hcons (fun hi _ => hidle hi) ?_ ?_ ?_ ?_ ?_ ?_ (fun _ => rfl)
    · intro v' pos e; injection e with _ e2; omega
    all_goals (intros; rename_i e; cases e)
  | deq1 =>
    have hidle : i = ct → rel s = s.deqPos := fun hi => hJ.idle hi (by rw [hpc]; rfl)
    have hi : i = ct := is_consumer hJ hpc rfl
    refine ⟨hP, ?_⟩
    simp only [exec, Thread.advance]
    refine J_goto _ hcons (fun hi _ => hidle hi) ?_ ?_ ?_ ?_ ?_ ?_ (fun h => absurd hi h)
    · intros; rename_i e; cases e
    · intros; rename_i e; cases e
    · intros; rename_i e; cases e
    · intro pos e; injection e with e; exact e.symm
    all_goals (intros; rename_i e; cases e)
  | deq2 pos =>
    have hidle : i = ct → rel s = s.deqPos := fun hi => hJ.idle hi (by rw [hpc]; rfl)
    have hi : i = ct := is_consumer hJ hpc rfl
    have hd := hJ.deq2 pos hpc
    simp only [exec]
    split
    · next hz =>
      refine ⟨hP, ?_⟩
      simp only [Thread.advance]
      refine J_goto _ hcons (fun hi _ => hidle hi) ?_ ?_ ?_ ?_ ?_ ?_ (fun h => absurd hi h)
      · intros; rename_i e; cases e
      · intros; rename_i e; cases e
      · intros; rename_i e; cases e
      · intros; rename_i e; cases e
      · intro pos' e; injection e with e; subst e
        exact ⟨hd, by omega⟩
      · intros; rename_i e; cases e
    · split
      · exact ⟨hP, J_finish .none now hidle hcons⟩
      · refine ⟨hP, ?_⟩
        simp only [Thread.advance]
        refine J_goto _ hcons (fun hi _ => hidle hi) ?_ ?_ ?_ ?_ ?_ ?_ (fun h => absurd hi h)
        all_goals (intros; rename_i e; cases e)
  | deq3 pos =>
    have hi : i = ct := is_consumer hJ hpc rfl
    obtain ⟨hd, hpub⟩ := hJ.deq3 pos hpc
    have hrel : rel s = s.deqPos := hJ.idle hi (by rw [hpc]; rfl)
    simp only [exec]
    split
    · obtain ⟨_, hr, hP'⟩ := P_claim hP hrel (by rw [← hd]; exact hpub)
      rw [← hd] at hP' hr
      refine ⟨hP', ?_⟩
      simp only [Thread.advance]
      refine J_goto _ hcons (fun _ h => by cases h) ?_ ?_ ?_ ?_ ?_ ?_ (fun h => absurd hi h)
      · intros; rename_i e; cases e
      · intros; rename_i e; cases e
      · intros; rename_i e; cases e
      · intros; rename_i e; cases e
      · intros; rename_i e; cases e
      · intro pos' msg e; injection e with e1 _; subst e1
        exact ⟨rfl, hr⟩
    · next hne => exact absurd hd.symm hne
  | deq4 pos msg =>
    obtain ⟨hd, hrel⟩ := hJ.deq4 pos msg hpc
    obtain ⟨hr, hP'⟩ := P_release hP pos hd hrel
    simp only [exec]
    refine ⟨hP', ?_⟩
    cases msg with
    | some v => exact J_finish (.val v) now (fun _ => hr) hcons
    | none => exact J_finish .none now (fun _ => hr) hcons
  | deq5 =>
    have hidle : i = ct → rel s = s.deqPos := fun hi => hJ.idle hi (by rw [hpc]; rfl)
    have hi : i = ct := is_consumer hJ hpc rfl
    refine ⟨hP, ?_⟩
    simp only [exec, Thread.advance]
    refine J_goto _ hcons (fun hi _ => hidle hi) ?_ ?_ ?_ ?_ ?_ ?_ (fun h => absurd hi h)
    · intros; rename_i e; cases e
    · intros; rename_i e; cases e
    · intros; rename_i e; cases e
    · intro pos e; injection e with e; exact e.symm
    all_goals (intros; rename_i e; cases e)
  | len1 e =>
    have hidle : i = ct → rel s = s.deqPos := fun hi => hJ.idle hi (by rw [hpc]; rfl)
    refine ⟨hP, ?_⟩
    simp only [exec, Thread.advance]
    refine J_goto _ hcons (fun hi _ => hidle hi) ?_ ?_ ?_ ?_ ?_ ?_ (fun _ => rfl)
    all_goals (intros; rename_i e; cases e)
  | len2 e enq =>
    have hidle : i = ct → rel s = s.deqPos := fun hi => hJ.idle hi (by rw [hpc]; rfl)
    simp only [exec]
    exact ⟨hP, J_finish _ now hidle hcons⟩

end GoaktVerif.C04.RingInv

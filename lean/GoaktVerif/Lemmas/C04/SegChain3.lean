/-
C04 — `UnboundedSegmentedMailbox`: Owicki–Gries obligations for the segment-list invariant
(on top of the slot discipline), and the combined reachability theorem.
-/
import GoaktVerif.Lemmas.C04.SegChain2

namespace GoaktVerif.C04.SegInv
open GoaktVerif.Model.C04 GoaktVerif.Model.C04.Segmented

theorem J2_start {s : Sh} {t : Th} (hpc : t.pc = none ∨ ∃ op, t.pc = some (start op)) : J2 s t := by
  have hno : ∀ pc, t.pc = some pc → ∃ op, pc = start op := by
    intro pc h
    rcases hpc with h' | ⟨op, h'⟩
    · rw [h'] at h; cases h
    · rw [h'] at h; injection h with h; exact ⟨op, h.symm⟩
  refine ⟨?_, ?_, ?_, ?_, ?_, ?_, ?_⟩
  · intro a b h; obtain ⟨op, e⟩ := hno _ h; cases op <;> simp [start] at e
  · intro a b c h; obtain ⟨op, e⟩ := hno _ h; cases op <;> simp [start] at e
  · intro a b h; obtain ⟨op, e⟩ := hno _ h; cases op <;> simp [start] at e
  · intro a b c h; obtain ⟨op, e⟩ := hno _ h; cases op <;> simp [start] at e
  · intro a b c h; obtain ⟨op, e⟩ := hno _ h; cases op <;> simp [start] at e
  · intro a b c h; obtain ⟨op, e⟩ := hno _ h; cases op <;> simp [start] at e
  · intro a b h; obtain ⟨op, e⟩ := hno _ h; cases op <;> simp [start] at e

theorem J2_finish {s : Sh} (t : Th) (r : Res) (now : Nat) : J2 s (t.finish algo r now) := by
  refine J2_start ?_
  rcases finish_pc' t r now with h | ⟨op, _, h⟩
  · exact Or.inl h
  · exact Or.inr ⟨op, h⟩

theorem J2_goto {s : Sh} {t : Th} (pc' : PC)
    (h2 : ∀ v g, pc' = .e2 v g → (s.segs g).linked = true)
    (h3 : ∀ v g idx, pc' = .e3 v g idx → (s.segs g).linked = true)
    (h5 : ∀ v g, pc' = .e5 v g → (s.segs g).linked = true ∧ s.segSize ≤ (s.segs g).writeIdx)
    (h6 : ∀ v g g', pc' = .e6 v g g' →
      (s.segs g).linked = true ∧ s.segSize ≤ (s.segs g).writeIdx ∧ (s.segs g').linked = false ∧ g' < s.nseg)
    (h7 : ∀ v g g', pc' = .e7 v g g' → (s.segs g').linked = true)
    (h9 : ∀ v g nx, pc' = .e9 v g nx → (s.segs nx).linked = true)
    (d9 : ∀ seg nx, pc' = .d9 seg nx → (s.segs seg).next = some nx) : J2 s { t with pc := some pc' } where
  e2 := by intro v g h; simp only [Option.some.injEq] at h; exact h2 v g h
  e3 := by intro v g idx h; simp only [Option.some.injEq] at h; exact h3 v g idx h
  e5 := by intro v g h; simp only [Option.some.injEq] at h; exact h5 v g h
  e6 := by intro v g g' h; simp only [Option.some.injEq] at h; exact h6 v g g' h
  e7 := by intro v g g' h; simp only [Option.some.injEq] at h; exact h7 v g g' h
  e9 := by intro v g nx h; simp only [Option.some.injEq] at h; exact h9 v g nx h
  d9 := by intro seg nx h; simp only [Option.some.injEq] at h; exact d9 seg nx h

/-- steps other than the linking CAS keep every thread's list promises -/
theorem J2_mono {s s' : Sh} {tj : Th} (hJ : J2 s tj) (hS : s'.segSize = s.segSize)
    (hL : ∀ j, (s'.segs j).linked = (s.segs j).linked)
    (hW : ∀ j, (s.segs j).writeIdx ≤ (s'.segs j).writeIdx) (hN : s.nseg ≤ s'.nseg)
    (hX : ∀ j, (s'.segs j).next = (s.segs j).next) : J2 s' tj where
  e2 := by intro v g h; rw [hL]; exact hJ.e2 v g h
  e3 := by intro v g idx h; rw [hL]; exact hJ.e3 v g idx h
  e5 := by intro v g h; obtain ⟨a, b⟩ := hJ.e5 v g h; exact ⟨by rw [hL]; exact a, by rw [hS]; exact Nat.le_trans b (hW g)⟩
  e6 := by
    intro v g g' h; obtain ⟨a, b, c, d⟩ := hJ.e6 v g g' h
    exact ⟨by rw [hL]; exact a, by rw [hS]; exact Nat.le_trans b (hW g), by rw [hL]; exact c, Nat.lt_of_lt_of_le d hN⟩
  e7 := by intro v g g' h; rw [hL]; exact hJ.e7 v g g' h
  e9 := by intro v g nx h; rw [hL]; exact hJ.e9 v g nx h
  d9 := by intro seg nx h; rw [hX]; exact hJ.d9 seg nx h

/-- the linking CAS `t.next := g`, seen by a thread that does not hold `g` -/
theorem J2_link {s : Sh} {tj : Th} (t g : Nat) (htg : t ≠ g) (ht : (s.segs t).linked = true) (hnext : (s.segs t).next = none)
    (hK : ∀ v h h', tj.pc = some (.e6 v h h') → g ≠ h') (hJ : J2 s tj) : J2 (s.link t g) tj := by
  have lm : ∀ j, (s.segs j).linked = true → ((s.link t g).segs j).linked = true :=
    fun j hj => (link_linked_mono s htg j hj).1
  have nx : ∀ j n, (s.segs j).next = some n → ((s.link t g).segs j).next = some n := by
    intro j n h
    have hjt : j ≠ t := by intro e; rw [e, hnext] at h; cases h
    by_cases e : j = g
    · subst e; rw [link_seg_g s htg]; exact h
    · rw [link_seg_other s hjt e]; exact h
  refine ⟨?_, ?_, ?_, ?_, ?_, ?_, ?_⟩
  · intro v x h; exact lm x (hJ.e2 v x h)
  · intro v x idx h; exact lm x (hJ.e3 v x idx h)
  · intro v x h; obtain ⟨a, b⟩ := hJ.e5 v x h
    exact ⟨lm x a, by rw [link_segSize, (link_fields s t g x).1]; exact b⟩
  · intro v x x' h; obtain ⟨a, b, c, d⟩ := hJ.e6 v x x' h
    have hne : x' ≠ g := Ne.symm (hK v x x' h)
    have hnt : x' ≠ t := by
      intro e; rw [e, ht] at c; cases c
    refine ⟨lm x a, by rw [link_segSize, (link_fields s t g x).1]; exact b, ?_, by rw [link_nseg]; exact d⟩
    rw [link_seg_other s hnt hne]; exact c
  · intro v x x' h; exact lm x' (hJ.e7 v x x' h)
  · intro v x n h; exact lm n (hJ.e9 v x n h)
  · intro seg n h; exact nx seg n (hJ.d9 seg n h)

/-- field-preserving updates of one segment -/
theorem P2_upd_same {s : Sh} (h : P2 s) (g : Nat) (f : Seg → Seg)
    (hf : ∀ x, (f x).linked = x.linked ∧ (f x).next = x.next ∧ (f x).ord = x.ord ∧ (f x).writeIdx = x.writeIdx ∧ (f x).deqIdx = x.deqIdx) :
    P2 (s.upd g f) := by
  refine P2_congr h rfl rfl rfl rfl rfl ?_
  intro j; rw [upd_field j]; split
  · next e => subst e; exact hf _
  · exact ⟨rfl, rfl, rfl, rfl, rfl⟩

theorem upd_linked (s : Sh) (g : Nat) (f : Seg → Seg) (hf : ∀ x, (f x).linked = x.linked) (j : Nat) :
    ((s.upd g f).segs j).linked = (s.segs j).linked := by
  rw [upd_field j]; split
  · next e => subst e; exact hf _
  · rfl

/-- the stepping thread re-establishes the list invariant and its own list promises -/
theorem seg_hstep2 (ct : Nat) (s : Sh) (i : Nat) (t : Th) (pc : PC) (now : Nat) (_hP : P s) (hJ : J ct i s t)
    (h2 : P2 s) (hJ2 : J2 s t) (hpc : t.pc = some pc) :
    P2 (exec s pc).1 ∧ J2 (exec s pc).1 (t.advance algo now (exec s pc).2) := by
  have fin : ∀ (s' : Sh) (r : Res), J2 s' (t.finish algo r now) := fun s' r => J2_finish t r now
  cases pc with
  | e1 v =>
    refine ⟨h2, ?_⟩
    simp only [exec, Thread.advance]
    refine J2_goto _ ?_ ?_ ?_ ?_ ?_ ?_ ?_
    · intro v' g e; injection e with _ e2; subst e2; exact h2.tl
    all_goals (intros; rename_i e; cases e)
  | e2 v g =>
    have hl := hJ2.e2 v g hpc
    have hP2' := P2_write h2 g hl
    have lk : ∀ j, ((s.upd g fun x => { x with writeIdx := x.writeIdx + 1 }).segs j).linked = (s.segs j).linked :=
      upd_linked s g _ (fun _ => rfl)
    simp only [exec]
    split
    · refine ⟨hP2', ?_⟩
      simp only [Thread.advance]
      refine J2_goto _ ?_ ?_ ?_ ?_ ?_ ?_ ?_
      · intros; rename_i e; cases e
      · intro v' g' idx e; injection e with _ e2 _; subst e2; rw [lk]; exact hl
      all_goals (intros; rename_i e; cases e)
    · next hge =>
      refine ⟨hP2', ?_⟩
      simp only [Thread.advance]
      refine J2_goto _ ?_ ?_ ?_ ?_ ?_ ?_ ?_
      · intros; rename_i e; cases e
      · intros; rename_i e; cases e
      · intro v' g' e; injection e with _ e2; subst e2
        refine ⟨by rw [lk]; exact hl, ?_⟩
        rw [upd_same]; show s.segSize ≤ (s.segs g).writeIdx + 1; omega
      all_goals (intros; rename_i e; cases e)
  | e3 v g idx =>
    simp only [exec, Thread.advance]
    refine ⟨P2_upd_same h2 g _ (fun _ => ⟨rfl, rfl, rfl, rfl, rfl⟩), ?_⟩
    refine J2_goto _ ?_ ?_ ?_ ?_ ?_ ?_ ?_
    all_goals (intros; rename_i e; cases e)
  | e4 v =>
    simp only [exec, Thread.advance]
    exact ⟨P2_congr h2 rfl rfl rfl rfl rfl (fun _ => ⟨rfl, rfl, rfl, rfl, rfl⟩), fin _ _⟩
  | e5 v g =>
    obtain ⟨hl, hw⟩ := hJ2.e5 v g hpc
    simp only [exec]
    split
    · next nx hn =>
      refine ⟨h2, ?_⟩
      simp only [Thread.advance]
      refine J2_goto _ ?_ ?_ ?_ ?_ ?_ ?_ ?_
      · intros; rename_i e; cases e
      · intros; rename_i e; cases e
      · intros; rename_i e; cases e
      · intros; rename_i e; cases e
      · intros; rename_i e; cases e
      · intro v' g' nx' e; injection e with _ _ e3; subst e3
        exact (h2.next_linked hl hn).1
      · intros; rename_i e; cases e
    · refine ⟨P2_alloc h2, ?_⟩
      simp only [Thread.advance]
      refine J2_goto _ ?_ ?_ ?_ ?_ ?_ ?_ ?_
      · intros; rename_i e; cases e
      · intros; rename_i e; cases e
      · intros; rename_i e; cases e
      · intro v' g0 g' e; injection e with _ e2 e3; subst e2; subst e3
        refine ⟨hl, hw, ?_, ?_⟩
        · show (s.segs s.nseg).linked = false
          cases hx : (s.segs s.nseg).linked with
          | false => rfl
          | true => have := h2.alloc _ hx; omega
        · show s.nseg < s.nseg + 1; omega
      all_goals (intros; rename_i e; cases e)
  | e6 v g g' =>
    obtain ⟨hl, hw, hg, hgn⟩ := hJ2.e6 v g g' hpc
    simp only [exec]
    split
    · next hn =>
      have htg : g ≠ g' := by intro e; rw [e, hg] at hl; cases hl
      refine ⟨P2_link h2 g g' hl hw hg hgn hn, ?_⟩
      simp only [Thread.advance]
      refine J2_goto _ ?_ ?_ ?_ ?_ ?_ ?_ ?_
      · intros; rename_i e; cases e
      · intros; rename_i e; cases e
      · intros; rename_i e; cases e
      · intros; rename_i e; cases e
      · intro v' x x' e; injection e with _ _ e3; subst e3
        rw [link_seg_g s htg]
      all_goals (intros; rename_i e; cases e)
    · refine ⟨h2, ?_⟩
      simp only [Thread.advance]
      refine J2_goto _ ?_ ?_ ?_ ?_ ?_ ?_ ?_
      all_goals (intros; rename_i e; cases e)
  | e7 v g g' =>
    have hl := hJ2.e7 v g g' hpc
    simp only [exec, Thread.advance]
    refine ⟨?_, ?_⟩
    · split
      · exact P2_tail h2 g' hl
      · exact h2
    · split
      · refine J2_goto _ ?_ ?_ ?_ ?_ ?_ ?_ ?_
        all_goals (intros; rename_i e; cases e)
      · refine J2_goto _ ?_ ?_ ?_ ?_ ?_ ?_ ?_
        all_goals (intros; rename_i e; cases e)
  | e9 v g nx =>
    have hl := hJ2.e9 v g nx hpc
    simp only [exec, Thread.advance]
    refine ⟨?_, ?_⟩
    · split
      · exact P2_tail h2 nx hl
      · exact h2
    · split
      · refine J2_goto _ ?_ ?_ ?_ ?_ ?_ ?_ ?_
        all_goals (intros; rename_i e; cases e)
      · refine J2_goto _ ?_ ?_ ?_ ?_ ?_ ?_ ?_
        all_goals (intros; rename_i e; cases e)
  | d1 =>
    refine ⟨h2, ?_⟩
    simp only [exec, Thread.advance]
    refine J2_goto _ ?_ ?_ ?_ ?_ ?_ ?_ ?_
    all_goals (intros; rename_i e; cases e)
  | d2 seg =>
    refine ⟨h2, ?_⟩
    simp only [exec, Thread.advance]
    refine J2_goto _ ?_ ?_ ?_ ?_ ?_ ?_ ?_
    all_goals (intros; rename_i e; cases e)
  | d3 seg enq =>
    simp only [exec]
    split
    · refine ⟨h2, ?_⟩
      simp only [Thread.advance]
      refine J2_goto _ ?_ ?_ ?_ ?_ ?_ ?_ ?_
      all_goals (intros; rename_i e; cases e)
    · split
      · exact ⟨h2, fin _ _⟩
      · refine ⟨h2, ?_⟩
        simp only [Thread.advance]
        refine J2_goto _ ?_ ?_ ?_ ?_ ?_ ?_ ?_
        all_goals (intros; rename_i e; cases e)
  | d4 seg deq =>
    simp only [exec]
    split
    · exact ⟨h2, fin _ _⟩
    · refine ⟨h2, ?_⟩
      simp only [Thread.advance]
      refine J2_goto _ ?_ ?_ ?_ ?_ ?_ ?_ ?_
      all_goals (intros; rename_i e; cases e)
  | d5 seg deq v =>
    simp only [exec, Thread.advance]
    refine ⟨P2_upd_same h2 seg _ (fun _ => ⟨rfl, rfl, rfl, rfl, rfl⟩), ?_⟩
    refine J2_goto _ ?_ ?_ ?_ ?_ ?_ ?_ ?_
    all_goals (intros; rename_i e; cases e)
  | d6 seg deq v =>
    have hh := (hJ.d6 seg deq v hpc).1
    simp only [exec, Thread.advance]
    refine ⟨by rw [hh]; exact P2_deq h2 (deq + 1), ?_⟩
    refine J2_goto _ ?_ ?_ ?_ ?_ ?_ ?_ ?_
    all_goals (intros; rename_i e; cases e)
  | d7 v =>
    simp only [exec, Thread.advance]
    exact ⟨P2_congr h2 rfl rfl rfl rfl rfl (fun _ => ⟨rfl, rfl, rfl, rfl, rfl⟩), fin _ _⟩
  | d8 seg =>
    simp only [exec]
    split
    · exact ⟨h2, fin _ _⟩
    · next nx hn =>
      refine ⟨h2, ?_⟩
      simp only [Thread.advance]
      refine J2_goto _ ?_ ?_ ?_ ?_ ?_ ?_ ?_
      · intros; rename_i e; cases e
      · intros; rename_i e; cases e
      · intros; rename_i e; cases e
      · intros; rename_i e; cases e
      · intros; rename_i e; cases e
      · intros; rename_i e; cases e
      · intro seg' nx' e; injection e with e1 e2; subst e1; subst e2; exact hn
  | d9 seg nx =>
    obtain ⟨hh, hfull⟩ := hJ.d9 seg nx hpc
    have hn := hJ2.d9 seg nx hpc
    simp only [exec, Thread.advance]
    refine ⟨P2_head h2 nx (by rw [← hh]; exact hn) (by rw [← hh]; exact hfull), ?_⟩
    refine J2_goto _ ?_ ?_ ?_ ?_ ?_ ?_ ?_
    all_goals (intros; rename_i e; cases e)
  | m1 =>
    refine ⟨h2, ?_⟩
    simp only [exec, Thread.advance]
    refine J2_goto _ ?_ ?_ ?_ ?_ ?_ ?_ ?_
    all_goals (intros; rename_i e; cases e)
  | m2 seg =>
    refine ⟨h2, ?_⟩
    simp only [exec, Thread.advance]
    refine J2_goto _ ?_ ?_ ?_ ?_ ?_ ?_ ?_
    all_goals (intros; rename_i e; cases e)
  | m3 seg enq =>
    simp only [exec]
    split
    · exact ⟨h2, fin _ _⟩
    · refine ⟨h2, ?_⟩
      simp only [Thread.advance]
      refine J2_goto _ ?_ ?_ ?_ ?_ ?_ ?_ ?_
      all_goals (intros; rename_i e; cases e)
  | m4 seg => simp only [exec, Thread.advance]; exact ⟨h2, fin _ _⟩
  | l1 => simp only [exec, Thread.advance]; exact ⟨h2, fin _ _⟩

end GoaktVerif.C04.SegInv

/-
C04 — `UnboundedSegmentedMailbox`: non-interference, exclusivity of slots, reachability theorem.
-/
import GoaktVerif.Lemmas.C04.SegOG

namespace GoaktVerif.C04.SegInv
open GoaktVerif.Model.C04 GoaktVerif.Model.C04.Segmented

theorem setData_get (x : Seg) (i k : Nat) (o : Option Nat) : (setData x i o).data k = if k = i then o else x.data k := rfl

/-- a producer's `Store:data` at slot (g, idx), seen by another thread -/
theorem J_frame_store {ct j : Nat} {s : Sh} {tj : Th} (v g idx : Nat) (hnone : (s.segs g).data idx = none)
    (hK : ∀ v' g' idx', tj.pc = some (.e3 v' g' idx') → ¬ (g = g' ∧ idx = idx')) (hJ : J ct j s tj) :
    J ct j (s.upd g fun x => setData x idx (some v)) tj := by
  have fld : ∀ g', ((s.upd g fun x => setData x idx (some v)).segs g').deqIdx = (s.segs g').deqIdx ∧
      ((s.upd g fun x => setData x idx (some v)).segs g').writeIdx = (s.segs g').writeIdx := by
    intro g'; rw [upd_field g']; split
    · next e => subst e; exact ⟨rfl, rfl⟩
    · exact ⟨rfl, rfl⟩
  have dat : ∀ g' k, ¬ (g' = g ∧ k = idx) → ((s.upd g fun x => setData x idx (some v)).segs g').data k = (s.segs g').data k := by
    intro g' k h; rw [upd_field g']; split
    · next e => subst e; rw [setData_get]; rw [if_neg (fun e' => h ⟨rfl, e'⟩)]
    · rfl
  refine ⟨?_, hJ.d2, ?_, ?_, ?_, ?_, ?_, ?_, hJ.cons⟩
  · intro v' g' idx' h
    obtain ⟨a, b, c, d⟩ := hJ.e3 v' g' idx' h
    have hne := hK v' g' idx' h
    refine ⟨a, by rw [(fld g').2]; exact b, by rw [(fld g').1]; exact c, ?_⟩
    rw [dat g' idx' (fun e => hne ⟨e.1.symm, e.2.symm⟩)]; exact d
  · intro seg enq h; obtain ⟨a, b, c⟩ := hJ.d3 seg enq h; exact ⟨a, b, by rw [(fld seg).2]; exact c⟩
  · intro seg deq h; obtain ⟨a, b, c, d⟩ := hJ.d4 seg deq h
    exact ⟨a, by rw [(fld seg).1]; exact b, c, by rw [(fld seg).2]; exact d⟩
  · intro seg deq v' h; obtain ⟨a, b, c, d, e⟩ := hJ.d5 seg deq v' h
    refine ⟨a, by rw [(fld seg).1]; exact b, c, by rw [(fld seg).2]; exact d, ?_⟩
    rw [dat seg deq ?_]; exact e
    intro e'; rw [e'.1, e'.2, hnone] at e; cases e
  · intro seg deq v' h; obtain ⟨a, b, c, d⟩ := hJ.d6 seg deq v' h
    exact ⟨a, by rw [(fld seg).1]; exact b, c, by rw [(fld seg).2]; exact d⟩
  · intro seg h; obtain ⟨a, b⟩ := hJ.d8 seg h; exact ⟨a, by rw [(fld seg).1]; exact b⟩
  · intro seg nx h; obtain ⟨a, b⟩ := hJ.d9 seg nx h; exact ⟨a, by rw [(fld seg).1]; exact b⟩

/-- the consumer's steps, seen by a producer (a thread that never dequeues): only `e3` matters -/
theorem J_producer {ct j : Nat} {s s' : Sh} {tj : Th} (hj : j ≠ ct) (hJ : J ct j s tj)
    (he3 : ∀ v g idx, tj.pc = some (.e3 v g idx) →
      idx < s'.segSize ∧ idx < (s'.segs g).writeIdx ∧ (s'.segs g).deqIdx ≤ idx ∧ (s'.segs g).data idx = none) :
    J ct j s' tj := by
  have nd := (hJ.cons hj).1
  refine ⟨he3, ?_, ?_, ?_, ?_, ?_, ?_, ?_, hJ.cons⟩
  · intro a h; have := nd _ h; cases this
  · intro a b h; have := nd _ h; cases this
  · intro a b h; have := nd _ h; cases this
  · intro a b c h; have := nd _ h; cases this
  · intro a b c h; have := nd _ h; cases this
  · intro a h; have := nd _ h; cases this
  · intro a b h; have := nd _ h; cases this

/-- non-interference: thread `i` takes a step, thread `j ≠ i` keeps its promises -/
theorem seg_hframe (ct : Nat) (s : Sh) (i j : Nat) (ti tj : Th) (pc : PC) (hij : i ≠ j) (_hP : P s)
    (hJi : J ct i s ti) (hJj : J ct j s tj) (hK : K ti tj) (hpc : ti.pc = some pc) : J ct j (exec s pc).1 tj := by
  have same : J ct j s tj := hJj
  have mono : ∀ s' : Sh, s'.segSize = s.segSize → s'.head = s.head → (∀ g, (s'.segs g).deqIdx = (s.segs g).deqIdx) →
      (∀ g, (s.segs g).writeIdx ≤ (s'.segs g).writeIdx) → (∀ g k, (s'.segs g).data k = (s.segs g).data k) → J ct j s' tj :=
    fun s' a b c d e => J_mono hJj a b c d e
  cases pc with
  | e2 v g =>
    have : J ct j (s.upd g fun x => { x with writeIdx := x.writeIdx + 1 }) tj := by
      refine mono _ rfl rfl ?_ ?_ ?_
      · intro g'; rw [upd_field g']; split
        · next e => subst e; rfl
        · rfl
      · intro g'; rw [upd_field g']; split
        · next e => subst e; show (s.segs g').writeIdx ≤ (s.segs g').writeIdx + 1; omega
        · exact Nat.le_refl _
      · intro g' k; rw [upd_field g']; split
        · next e => subst e; rfl
        · rfl
    simp only [exec]; split <;> exact this
  | e3 v g idx =>
    obtain ⟨_, _, _, hnone⟩ := hJi.e3 v g idx hpc
    simp only [exec]
    exact J_frame_store v g idx hnone (fun v' g' idx' h => hK.1 v g idx v' g' idx' hpc h) hJj
  | e4 v => exact mono _ rfl rfl (fun _ => rfl) (fun _ => Nat.le_refl _) (fun _ _ => rfl)
  | e5 v g =>
    simp only [exec]; split
    · exact same
    · exact mono _ rfl rfl (fun _ => rfl) (fun _ => Nat.le_refl _) (fun _ _ => rfl)
  | e6 v g g' =>
    simp only [exec]; split
    · exact mono _ rfl rfl (fun j => (link_fields s g g' j).2.1) (fun j => by rw [(link_fields s g g' j).1]; exact Nat.le_refl _)
        (fun j k => by rw [(link_fields s g g' j).2.2])
    · exact same
  | e7 v g g' =>
    simp only [exec]; split
    · exact mono _ rfl rfl (fun _ => rfl) (fun _ => Nat.le_refl _) (fun _ _ => rfl)
    · exact same
  | e9 v g g' =>
    simp only [exec]; split
    · exact mono _ rfl rfl (fun _ => rfl) (fun _ => Nat.le_refl _) (fun _ _ => rfl)
    · exact same
  | d5 seg deq v =>
    have hi : i = ct := is_consumer hJi hpc rfl
    have hj : j ≠ ct := by rw [← hi]; exact Ne.symm hij
    simp only [exec]
    refine J_producer hj hJj ?_
    intro v' g idx h
    obtain ⟨a, b, c, d⟩ := hJj.e3 v' g idx h
    rw [upd_field g]
    split
    · next e =>
      subst e
      refine ⟨a, b, c, ?_⟩
      rw [setData_get]; split
      · rfl
      · exact d
    · exact ⟨a, b, c, d⟩
  | d6 seg deq v =>
    have hi : i = ct := is_consumer hJi hpc rfl
    have hj : j ≠ ct := by rw [← hi]; exact Ne.symm hij
    obtain ⟨_, hdq, _, _⟩ := hJi.d6 seg deq v hpc
    simp only [exec]
    refine J_producer hj hJj ?_
    intro v' g idx h
    obtain ⟨a, b, c, d⟩ := hJj.e3 v' g idx h
    rw [upd_field g]
    split
    · next e =>
      subst e
      refine ⟨a, b, ?_, d⟩
      show deq + 1 ≤ idx
      have hne := hK.2.1 g deq v v' g idx hpc h
      have : deq ≠ idx := fun e' => hne ⟨rfl, e'⟩
      omega
    · exact ⟨a, b, c, d⟩
  | d7 v => exact mono _ rfl rfl (fun _ => rfl) (fun _ => Nat.le_refl _) (fun _ _ => rfl)
  | d9 seg nx =>
    have hi : i = ct := is_consumer hJi hpc rfl
    have hj : j ≠ ct := by rw [← hi]; exact Ne.symm hij
    simp only [exec]
    exact J_producer hj hJj (fun v' g idx h => hJj.e3 v' g idx h)
  | d3 seg enq => simp only [exec]; split <;> (try split) <;> exact same
  | d4 seg deq => simp only [exec]; split <;> exact same
  | d8 seg => simp only [exec]; split <;> exact same
  | m3 seg enq => simp only [exec]; split <;> exact same
  | _ => exact same

end GoaktVerif.C04.SegInv

/-
C04 — binary heap correctness, part 2: `down` (sift-down) on the prefix `[0, n)`, its frame
property, and root minimality.  Main file: HeapCorrect.lean.
-/
import GoaktVerif.Lemmas.C04.HeapCorrect1

namespace GoaktVerif.C04.Heap
open GoaktVerif.Model.C04.Heap

variable {α : Type} {lt : α → α → Bool}

/-- heap order restricted to the prefix `[0, n)` -/
def HeapInvN (lt : α → α → Bool) (xs : List α) (n : Nat) : Prop :=
  ∀ j, 0 < j → j < n → lessAt lt xs j ((j - 1) / 2) = false

/-- loop invariant of `down`: heap order within `[0, n)` except between `i` and its children, and
the children of `i` do not outrank `i`'s parent -/
def DownInv (lt : α → α → Bool) (xs : List α) (i n : Nat) : Prop :=
  n ≤ xs.length ∧
  (∀ k, 0 < k → k < n → (k-1)/2 ≠ i → lessAt lt xs k ((k-1)/2) = false) ∧
  (∀ k, 0 < k → k < n → (k-1)/2 = i → 0 < i → lessAt lt xs k ((i-1)/2) = false)

/-- the child chosen by `down` -/
def Chosen (lt : α → α → Bool) (xs : List α) (i n c : Nat) : Prop :=
  (c = 2*i+1 ∧ (2*i+2 < n → lessAt lt xs (2*i+2) (2*i+1) = false)) ∨
  (c = 2*i+2 ∧ 2*i+2 < n ∧ lessAt lt xs (2*i+2) (2*i+1) = true)

theorem getElem?_swap_other (xs : List α) {i j k : Nat} (hi : k ≠ i) (hj : k ≠ j) :
    (swap xs i j)[k]? = xs[k]? := by
  unfold swap
  split
  · rw [List.getElem?_set_ne (Ne.symm hj), List.getElem?_set_ne (Ne.symm hi)]
  · rfl

theorem downInv_leaf {xs : List α} {i n : Nat} (inv : DownInv lt xs i n) (hl : n ≤ 2*i+1) :
    HeapInvN lt xs n := by
  intro k hk0 hkn
  exact inv.2.1 k hk0 hkn (by omega)

theorem downInv_exit (h : SWO lt) {xs : List α} {i n c : Nat} (inv : DownInv lt xs i n)
    (hl : 2*i+1 < n) (hc : Chosen lt xs i n c) (hnl : lessAt lt xs c i = false) :
    HeapInvN lt xs n := by
  obtain ⟨hn, h1, _⟩ := inv
  have hasym := @SWO.asymm _ _ h
  have htr := h.trans
  have hntr := h.ntrans
  intro k hk0 hkn
  by_cases hki : (k-1)/2 = i
  · have hil : i < xs.length := by omega
    have hl1 : 2*i+1 < xs.length := by omega
    rw [hki, lessAt_get (by omega) hil]
    rcases hc with ⟨rfl, hc⟩ | ⟨rfl, hc2, hc⟩
    · rw [lessAt_get hl1 hil] at hnl
      by_cases hk : k = 2*i+1
      · subst hk; exact hnl
      · have hk2 : k = 2*i+2 := by omega
        subst hk2
        have := hc hkn
        rw [lessAt_get (by omega) hl1] at this
        exact hntr _ _ _ this hnl
    · have hl2 : 2*i+2 < xs.length := by omega
      rw [lessAt_get hl2 hil] at hnl
      rw [lessAt_get hl2 hl1] at hc
      by_cases hk : k = 2*i+2
      · subst hk; exact hnl
      · have hk2 : k = 2*i+1 := by omega
        subst hk2
        cases hh : lt xs[2*i+1] xs[i] with
        | false => rfl
        | true => rw [htr _ _ _ hc hh] at hnl; cases hnl
  · exact h1 k hk0 hkn hki

theorem down_step (h : SWO lt) {xs : List α} {i n c : Nat} (inv : DownInv lt xs i n)
    (hl : 2*i+1 < n) (hc : Chosen lt xs i n c) (hlt : lessAt lt xs c i = true) :
    DownInv lt (swap xs i c) c n := by
  obtain ⟨hn, h1, h2⟩ := inv
  have hcn : c < n := by rcases hc with ⟨rfl, _⟩ | ⟨rfl, hc2, _⟩ <;> omega
  have hci : (c-1)/2 = i := by rcases hc with ⟨rfl, _⟩ | ⟨rfl, hc2, _⟩ <;> omega
  have hcl : c < xs.length := by omega
  have hil : i < xs.length := by omega
  have H1 : ∀ k (hk0 : 0 < k) (hkl : k < n), (k-1)/2 ≠ i →
      lt xs[k] (xs[(k-1)/2]'(by omega)) = false := by
    intro k hk0 hkl hkj
    have := h1 k hk0 hkl hkj
    rw [lessAt_get (by omega) (by omega)] at this; exact this
  have H2 : ∀ k (hk0 : 0 < k) (hkl : k < n), (k-1)/2 = i → 0 < i →
      lt xs[k] (xs[(i-1)/2]'(by omega)) = false := by
    intro k hk0 hkl hkj hj0
    have := h2 k hk0 hkl hkj hj0
    rw [lessAt_get (by omega) (by omega)] at this; exact this
  have hlt' : lt xs[c] xs[i] = true := by
    rw [lessAt_get hcl hil] at hlt; exact hlt
  have HC : (c = 2*i+1 ∧ ((h2 : 2*i+2 < n) → lt (xs[2*i+2]'(by omega)) (xs[2*i+1]'(by omega)) = false)) ∨
      (c = 2*i+2 ∧ ∃ (h2 : 2*i+2 < n), lt (xs[2*i+2]'(by omega)) (xs[2*i+1]'(by omega)) = true) := by
    rcases hc with ⟨rfl, hc⟩ | ⟨rfl, hc2, hc⟩
    · left; refine ⟨rfl, fun h2 => ?_⟩
      have := hc h2
      rw [lessAt_get (by omega) (by omega)] at this; exact this
    · right; refine ⟨rfl, hc2, ?_⟩
      rw [lessAt_get (by omega) (by omega)] at hc; exact hc
  have hasym := @SWO.asymm _ _ h
  have htr := h.trans
  have hntr := h.ntrans
  refine ⟨by rw [length_swap]; exact hn, ?_, ?_⟩
  · intro k hk0 hkn hkc
    have hkl : k < xs.length := by omega
    have hp : (k-1)/2 < xs.length := by omega
    rw [lessAt_get (by rw [length_swap]; exact hkl) (by rw [length_swap]; exact hp),
      getElem_swap xs hil hcl k hkl, getElem_swap xs hil hcl _ hp]
    grind
  · intro k hk0 hkn hkc hc0
    have hkl : k < xs.length := by omega
    have hp : (c-1)/2 < xs.length := by omega
    rw [lessAt_get (by rw [length_swap]; exact hkl) (by rw [length_swap]; exact hp),
      getElem_swap xs hil hcl k hkl, getElem_swap xs hil hcl _ hp]
    grind


/-- the child index `down` compares against `i` -/
def child (lt : α → α → Bool) (xs : List α) (i n : Nat) : Nat :=
  if 2*i+1+1 < n && lessAt lt xs (2*i+1+1) (2*i+1) then 2*i+1+1 else 2*i+1

theorem down_zero (xs : List α) (i n : Nat) : down lt 0 xs i n = xs := rfl

theorem down_succ (fuel : Nat) (xs : List α) (i n : Nat) :
    down lt (fuel+1) xs i n =
      if 2*i+1 ≥ n then xs
      else if !lessAt lt xs (child lt xs i n) i then xs
      else down lt fuel (swap xs i (child lt xs i n)) (child lt xs i n) n := rfl

theorem chosen_child (xs : List α) (i n : Nat) : Chosen lt xs i n (child lt xs i n) := by
  unfold child Chosen
  split
  · next c =>
    simp only [Bool.and_eq_true, decide_eq_true_eq] at c
    right; exact ⟨rfl, c.1, c.2⟩
  · next c =>
    simp only [Bool.and_eq_true, decide_eq_true_eq, not_and, Bool.not_eq_true] at c
    left; exact ⟨rfl, c⟩

theorem child_gt (xs : List α) (i n : Nat) : i < child lt xs i n := by
  unfold child; split <;> omega

theorem child_lt (xs : List α) {i n : Nat} (hl : 2*i+1 < n) : child lt xs i n < n := by
  unfold child; split
  · next c =>
    simp only [Bool.and_eq_true, decide_eq_true_eq] at c
    exact c.1
  · exact hl

theorem down_heapInvN (h : SWO lt) : ∀ (fuel : Nat) (xs : List α) (i n : Nat), n ≤ fuel + i →
    DownInv lt xs i n → HeapInvN lt (down lt fuel xs i n) n
  | 0, xs, i, n, hf, inv => by
    rw [down_zero]; exact downInv_leaf inv (by omega)
  | fuel+1, xs, i, n, hf, inv => by
    rw [down_succ]
    split
    · next hl => exact downInv_leaf inv (by omega)
    · next hl =>
      have hl' : 2*i+1 < n := by omega
      have hc := chosen_child (lt := lt) xs i n
      have hgt := child_gt (lt := lt) xs i n
      split
      · next c =>
        simp only [Bool.not_eq_true'] at c
        exact downInv_exit h inv hl' hc c
      · next c =>
        simp only [Bool.not_eq_true', Bool.not_eq_false] at c
        exact down_heapInvN h fuel _ _ n (by omega) (down_step h inv hl' hc c)

theorem down_perm : ∀ (fuel : Nat) (xs : List α) (i n : Nat), (down lt fuel xs i n).Perm xs
  | 0, _, _, _ => List.Perm.refl _
  | fuel+1, xs, i, n => by
    rw [down_succ]
    split
    · exact List.Perm.refl _
    · split
      · exact List.Perm.refl _
      · exact (down_perm fuel _ _ n).trans (swap_perm _ _ _)

/-- `down … n` leaves every position `≥ n` alone -/
theorem down_frame : ∀ (fuel : Nat) (xs : List α) (i n k : Nat), n ≤ k →
    (down lt fuel xs i n)[k]? = xs[k]?
  | 0, _, _, _, _, _ => rfl
  | fuel+1, xs, i, n, k, hk => by
    rw [down_succ]
    split
    · rfl
    · next hl =>
      split
      · rfl
      · have hgt := child_gt (lt := lt) xs i n
        have hlt := child_lt (lt := lt) xs (i := i) (n := n) (by omega)
        rw [down_frame fuel _ _ n k hk]
        exact getElem?_swap_other xs (by omega) (by omega)

theorem root_min_idx (h : SWO lt) {xs : List α} (hx : HeapInv lt xs) :
    ∀ (k : Nat) (hk : k < xs.length), lt xs[k] (xs[0]'(by omega)) = false := by
  intro k
  induction k using Nat.strongRecOn with
  | _ k ih =>
    intro hk
    by_cases hk0 : k = 0
    · subst hk0; exact h.irrefl _
    · have hp : (k-1)/2 < xs.length := by omega
      have h1 := hx k (by omega) hk
      rw [lessAt_get hk hp] at h1
      exact h.ntrans _ _ _ h1 (ih ((k-1)/2) (by omega) hp)

/-- the root of a heap is outranked by no element -/
theorem root_min (h : SWO lt) {xs : List α} (hx : HeapInv lt xs) (hne : 0 < xs.length) :
    ∀ y ∈ xs, lt y xs[0] = false := by
  intro y hy
  obtain ⟨k, hk, rfl⟩ := List.mem_iff_getElem.mp hy
  exact root_min_idx h hx k hk

end GoaktVerif.C04.Heap

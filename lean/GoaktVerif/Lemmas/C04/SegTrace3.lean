/-
C04 — `UnboundedSegmentedMailbox`: the value invariant under store, link and the consumer's steps.
-/
import GoaktVerif.Lemmas.C04.SegTrace2

namespace GoaktVerif.C04.SegInv
open GoaktVerif.Model.C04 GoaktVerif.Model.C04.Segmented

def putData (idx : Nat) (o : Option Nat) (x : Seg) : Seg := setData x idx o

theorem fld_put (s : Sh) (g idx : Nat) (o : Option Nat) (j : Nat) :
    ((s.upd g (putData idx o)).segs j).linked = (s.segs j).linked ∧ ((s.upd g (putData idx o)).segs j).ord = (s.segs j).ord ∧
    ((s.upd g (putData idx o)).segs j).deqIdx = (s.segs j).deqIdx ∧ ((s.upd g (putData idx o)).segs j).writeIdx = (s.segs j).writeIdx ∧
    (∀ k, ((s.upd g (putData idx o)).segs j).data k = if j = g ∧ k = idx then o else (s.segs j).data k) := by
  rw [upd_field j]; split
  · next e =>
    subst e
    refine ⟨rfl, rfl, rfl, rfl, ?_⟩
    intro k; show (if k = idx then o else (s.segs j).data k) = _
    by_cases e' : k = idx <;> simp [e']
  · next e => exact ⟨rfl, rfl, rfl, rfl, fun k => by simp [e]⟩

/-- writing one data slot: everything but that slot is as before -/
theorem tr_put {ct tid : Nat} {c : Cf} {resv : List Nat} {t t' : Th} {g idx : Nat} {o : Option Nat} {clk : Nat}
    (hT : TR ct c resv) (ht : c.threads[tid]? = some t)
    (hslot : o = none ∨ o = resv[pos c.sh g idx]?)
    (h3 : ∀ v g idx, t'.pc ≠ some (.e3 v g idx))
    (hd : deqdT t' = deqdT t) (hi : inflight t'.pc = inflight t.pc) :
    TR ct ({ sh := c.sh.upd g (putData idx o), threads := c.threads.set tid t', clock := clk } : Cf) resv := by
  have fld := fld_put c.sh g idx o
  have hpos : ∀ g' k, pos (c.sh.upd g (putData idx o)) g' k = pos c.sh g' k := by
    intro g' k; unfold pos; rw [(fld g').2.1]; rfl
  have hcons : consumed (c.sh.upd g (putData idx o)) = consumed c.sh := by
    unfold consumed
    show ((c.sh.upd g (putData idx o)).segs c.sh.head).ord * c.sh.segSize + ((c.sh.upd g (putData idx o)).segs c.sh.head).deqIdx = _
    rw [(fld _).2.1, (fld _).2.2.1]
  refine ⟨?_, ?_, ?_, ?_, ?_⟩
  · show resv.length = ((c.sh.upd g (putData idx o)).segs c.sh.last).ord * c.sh.segSize +
      min ((c.sh.upd g (putData idx o)).segs c.sh.last).writeIdx c.sh.segSize
    rw [(fld _).2.1, (fld _).2.2.2.1]; exact hT.len
  · intro g' k a b c1 d
    change ((c.sh.upd g (putData idx o)).segs g').linked = true at a
    change k < c.sh.segSize at b
    rw [hcons, hpos] at c1; rw [hpos] at d; rw [(fld g').1] at a
    show ((c.sh.upd g (putData idx o)).segs g').data k = none ∨ ((c.sh.upd g (putData idx o)).segs g').data k = resv[pos (c.sh.upd g (putData idx o)) g' k]?
    rw [(fld g').2.2.2.2 k, hpos]
    split
    · next e => rw [e.1, e.2]; exact hslot
    · exact hT.data g' k a b c1 d
  · intro i ti v g' k hi' hpc
    change (c.threads.set tid t')[i]? = some ti at hi'
    show resv[pos (c.sh.upd g (putData idx o)) g' k]? = some v
    rw [hpos]
    by_cases e : i = tid
    · subst e; rw [get_self ht] at hi'; injection hi' with hi'; subst hi'; exact absurd hpc (h3 v g' k)
    · rw [get_ne (Ne.symm e)] at hi'; exact hT.store i ti v g' k hi' hpc
  · intro tc hc
    change (c.threads.set tid t')[ct]? = some tc at hc
    show consumed (c.sh.upd g (putData idx o)) + inflight tc.pc ≤ resv.length
    rw [hcons]
    by_cases e : ct = tid
    · subst e; rw [get_self ht] at hc; injection hc with hc; subst hc; rw [hi]; exact hT.bound t ht
    · rw [get_ne (Ne.symm e)] at hc; exact hT.bound tc hc
  · intro tc hc
    change (c.threads.set tid t')[ct]? = some tc at hc
    show deqdT tc = resv.take (consumed (c.sh.upd g (putData idx o)) + inflight tc.pc)
    rw [hcons]
    by_cases e : ct = tid
    · subst e; rw [get_self ht] at hc; injection hc with hc; subst hc; rw [hd, hi]; exact hT.deqd t ht
    · rw [get_ne (Ne.symm e)] at hc; exact hT.deqd tc hc

/-- the linking CAS: the new last segment starts exactly where the reservations stand -/
theorem tr_link {ct tid : Nat} {c : Cf} {resv : List Nat} {t t' : Th} {g g' : Nat} {clk : Nat}
    (h2 : P2 c.sh) (hJ2 : ∀ (i : Nat) (ti : Th), c.threads[i]? = some ti → J2 c.sh ti)
    (hT : TR ct c resv) (ht : c.threads[tid]? = some t)
    (hl : (c.sh.segs g).linked = true) (hfull : c.sh.segSize ≤ (c.sh.segs g).writeIdx)
    (hg : (c.sh.segs g').linked = false) (hnext : (c.sh.segs g).next = none)
    (h3 : ∀ v g idx, t'.pc ≠ some (.e3 v g idx))
    (hd : deqdT t' = deqdT t) (hi : inflight t'.pc = inflight t.pc) :
    TR ct ({ sh := c.sh.link g g', threads := c.threads.set tid t', clock := clk } : Cf) resv := by
  have htg : g ≠ g' := by intro e; rw [e, hg] at hl; cases hl
  have hlast : g = c.sh.last := h2.eq_last hl hnext
  obtain ⟨ug1, _, _⟩ := h2.unl g' hg
  have oldne : ∀ j, (c.sh.segs j).linked = true → j ≠ g' := by intro j hj e; rw [e, hg] at hj; cases hj
  have ordOld : ∀ j, (c.sh.segs j).linked = true → ((c.sh.link g g').segs j).ord = (c.sh.segs j).ord :=
    fun j hj => (link_linked_mono c.sh htg j hj).2 (Ne.symm (oldne j hj))
  have hposOld : ∀ j k, (c.sh.segs j).linked = true → pos (c.sh.link g g') j k = pos c.sh j k := by
    intro j k hj; unfold pos; rw [ordOld j hj, link_segSize]
  have hcons : consumed (c.sh.link g g') = consumed c.sh := by
    unfold consumed; rw [link_head, ordOld _ h2.hd, (link_fields c.sh g g' _).2.1, link_segSize]
  have hlen' : resv.length = ((c.sh.segs g).ord + 1) * c.sh.segSize := by
    rw [hT.len, ← hlast, Nat.succ_mul, Nat.min_eq_right hfull]
  refine ⟨?_, ?_, ?_, ?_, ?_⟩
  · show resv.length = ((c.sh.link g g').segs (c.sh.link g g').last).ord * (c.sh.link g g').segSize +
      min ((c.sh.link g g').segs (c.sh.link g g').last).writeIdx (c.sh.link g g').segSize
    rw [link_last, link_seg_g c.sh htg, link_segSize]
    show resv.length = ((c.sh.segs g).ord + 1) * c.sh.segSize + min (c.sh.segs g').writeIdx c.sh.segSize
    rw [ug1, hlen']; simp
  · intro j k a b c1 d
    change ((c.sh.link g g').segs j).linked = true at a
    change k < c.sh.segSize at b
    show ((c.sh.link g g').segs j).data k = none ∨ ((c.sh.link g g').segs j).data k = resv[pos (c.sh.link g g') j k]?
    by_cases e : j = g'
    · -- the new segment: all its positions lie at or beyond the reservations
      exfalso
      rw [e] at d
      unfold pos at d
      rw [link_seg_g c.sh htg, link_segSize] at d
      change ((c.sh.segs g).ord + 1) * c.sh.segSize + k < resv.length at d
      omega
    · have hjl : (c.sh.segs j).linked = true := by
        by_cases e2 : j = g
        · rw [e2]; exact hl
        · rw [link_seg_other c.sh e2 e] at a; exact a
      rw [hcons, hposOld j k hjl] at c1; rw [hposOld j k hjl] at d
      rw [(link_fields c.sh g g' j).2.2, hposOld j k hjl]
      exact hT.data j k hjl b c1 d
  · intro i ti v j k hi' hpc
    change (c.threads.set tid t')[i]? = some ti at hi'
    show resv[pos (c.sh.link g g') j k]? = some v
    by_cases e : i = tid
    · subst e; rw [get_self ht] at hi'; injection hi' with hi'; subst hi'; exact absurd hpc (h3 v j k)
    · rw [get_ne (Ne.symm e)] at hi'
      rw [hposOld j k ((hJ2 i ti hi').e3 v j k hpc)]
      exact hT.store i ti v j k hi' hpc
  · intro tc hc
    change (c.threads.set tid t')[ct]? = some tc at hc
    show consumed (c.sh.link g g') + inflight tc.pc ≤ resv.length
    rw [hcons]
    by_cases e : ct = tid
    · subst e; rw [get_self ht] at hc; injection hc with hc; subst hc; rw [hi]; exact hT.bound t ht
    · rw [get_ne (Ne.symm e)] at hc; exact hT.bound tc hc
  · intro tc hc
    change (c.threads.set tid t')[ct]? = some tc at hc
    show deqdT tc = resv.take (consumed (c.sh.link g g') + inflight tc.pc)
    rw [hcons]
    by_cases e : ct = tid
    · subst e; rw [get_self ht] at hc; injection hc with hc; subst hc; rw [hd, hi]; exact hT.deqd t ht
    · rw [get_ne (Ne.symm e)] at hc; exact hT.deqd tc hc

end GoaktVerif.C04.SegInv

/-
C04 — Treiber intake: non-interference, ownership of ids, reachability theorem.
-/
import GoaktVerif.Lemmas.C04.IntakeStep

namespace GoaktVerif.C04.IntakeInv
open GoaktVerif.Model.C04 GoaktVerif.Model.C04.Intake

variable {k : Conf}

theorem J_congr {ct j : Nat} {s s' : Sh} {tj : Th} (hJ : J ct j s tj) (h2 : s'.next = s.next) (h3 : s'.stack = s.stack)
    (h4 : s'.batch = s.batch) (h5 : s'.done = s.done) : J ct j s' tj where
  own := by rw [h3, h4]; exact hJ.own
  nodup := hJ.nodup
  p3 := by rw [h2]; exact hJ.p3
  c3 := by rw [h2, h4, h5]; exact hJ.c3
  c4 := by rw [h2, h4, h5]; exact hJ.c4
  c5 := by rw [h2, h4, h5]; exact hJ.c5
  c6 := by rw [h2, h4, h5]; exact hJ.c6
  idle := by rw [h4, h5]; exact hJ.idle
  cons := hJ.cons

/-- a producer (never dequeues) only cares about its ids and its own `next` field -/
theorem J_producer {ct j : Nat} {s s' : Sh} {tj : Th} (hj : j ≠ ct) (hJ : J ct j s tj)
    (hown : ∀ v ∈ fresh tj, v ∉ s'.stack ∧ v ∉ s'.batch)
    (hp3 : ∀ v old, tj.pc = some (.push3 v old) → s'.next v = old) : J ct j s' tj := by
  have nd := (hJ.cons hj).1
  refine ⟨hown, hJ.nodup, hp3, ?_, ?_, ?_, ?_, fun h => absurd h hj, hJ.cons⟩
  · intro a b h; have := nd _ h; cases this
  · intro a b c h; have := nd _ h; cases this
  · intro a h; have := nd _ h; cases this
  · intro a b h; have := nd _ h; cases this

theorem push3_fresh {t : Th} {v : Nat} {old : Option Nat} (h : t.pc = some (.push3 v old)) : v ∈ fresh t := by
  unfold fresh; rw [h]; simp [pcFresh]

theorem seg_hframe (ct : Nat) (s : Sh) (i j : Nat) (ti tj : Th) (pc : PC) (hij : i ≠ j) (hP : P s)
    (hJi : J ct i s ti) (hJj : J ct j s tj) (hK : K ti tj) (hKr : K tj ti) (hpc : ti.pc = some pc) : J ct j (exec k s pc).1 tj := by
  have same : J ct j s tj := hJj
  cases pc with
  | enqU v => exact J_congr hJj rfl rfl rfl rfl
  | enqL v => simp only [exec]; split <;> (try split) <;> exact same
  | enqC v l => simp only [exec]; split
                · exact J_congr hJj rfl rfl rfl rfl
                · exact same
  | push1 v => exact same
  | push2 v old =>
    have hvi : v ∈ fresh ti := by unfold fresh; rw [hpc]; simp [pcFresh]
    have hv := hJi.own v hvi
    have hvj : v ∉ fresh tj := hK v hvi
    simp only [exec]
    have fr : ∀ (L : List Nat) (h : Option Nat), (∀ x ∈ L, x ∈ s.batch) → ChainO s.next h L → ChainO (s.setNext v old).next h L := by
      intro L h hin hc
      exact ChainO.frame L h (fun x hx => setNext_other s old (fun e => hv.2 (e ▸ hin x hx))) hc
    refine ⟨hJj.own, hJj.nodup, ?_, ?_, ?_, ?_, ?_, hJj.idle, hJj.cons⟩
    · intro v' old' h
      have : v' ≠ v := fun e => hvj (e ▸ push3_fresh h)
      rw [setNext_other s old this]; exact hJj.p3 v' old' h
    · intro cur prev h
      obtain ⟨d0, A, B, hAB, hB, hA⟩ := hJj.c3 cur prev h
      have memB : ∀ x ∈ B, x ∈ s.batch := fun x hx => by rw [← List.mem_reverse, hAB]; exact List.mem_append_right _ hx
      have memA : ∀ x ∈ A.reverse, x ∈ s.batch := fun x hx => by
        rw [← List.mem_reverse (as := s.batch), hAB]; exact List.mem_append_left _ (List.mem_reverse.mp hx)
      exact ⟨d0, A, B, hAB, fr B _ memB hB, fr _ _ memA hA⟩
    · intro cur prev nxt h
      obtain ⟨d0, A, B, hAB, hB, hA⟩ := hJj.c4 cur prev nxt h
      have memB : ∀ x ∈ B, x ∈ s.batch := fun x hx => by
        rw [← List.mem_reverse, hAB]; exact List.mem_append_right _ (List.mem_cons_of_mem _ hx)
      have memA : ∀ x ∈ A.reverse, x ∈ s.batch := fun x hx => by
        rw [← List.mem_reverse (as := s.batch), hAB]; exact List.mem_append_left _ (List.mem_reverse.mp hx)
      exact ⟨d0, A, B, hAB, fr B _ memB hB, fr _ _ memA hA⟩
    · intro n h
      exact fr _ _ (fun x hx => List.mem_of_mem_drop hx) (hJj.c5 n h)
    · intro n nxt h
      obtain ⟨a, b⟩ := hJj.c6 n nxt h
      exact ⟨a, fr _ _ (fun x hx => List.mem_of_mem_drop hx) b⟩
  | push3 v old =>
    have hvi : v ∈ fresh ti := push3_fresh hpc
    simp only [exec]
    split
    · refine ⟨?_, hJj.nodup, hJj.p3, hJj.c3, hJj.c4, hJj.c5, hJj.c6, hJj.idle, hJj.cons⟩
      intro x hx
      have := hJj.own x hx
      refine ⟨?_, this.2⟩
      show x ∉ v :: s.stack
      intro hm
      rcases List.mem_cons.mp hm with e | e
      · exact hKr x hx (e ▸ hvi)
      · exact this.1 e
    · exact same
  | deq1 => simp only [exec]; split <;> exact same
  | deq2 =>
    have hi : i = ct := is_consumer hJi hpc rfl
    have hj : j ≠ ct := by rw [← hi]; exact Ne.symm hij
    simp only [exec]
    split
    · obtain ⟨_, f2, f3, f4, f5⟩ := afterDrain_fields (k := k) s
      exact J_congr hJj f2 f3 f4 f5
    · refine J_producer hj hJj ?_ hJj.p3
      intro x hx
      have := hJj.own x hx
      exact ⟨by show x ∉ ([] : List Nat); simp, by show x ∉ s.stack.reverse; rw [List.mem_reverse]; exact this.1⟩
  | deq3 cur prev => exact same
  | deq4 cur prev nxt =>
    have hi : i = ct := is_consumer hJi hpc rfl
    have hj : j ≠ ct := by rw [← hi]; exact Ne.symm hij
    obtain ⟨_, A, B, hAB, _, _⟩ := hJi.c4 cur prev nxt hpc
    have hcb : cur ∈ s.batch := by rw [← List.mem_reverse, hAB]; simp
    have key : J ct j (s.setNext cur prev) tj := by
      refine J_producer hj hJj hJj.own ?_
      intro v' old' h
      have : v' ≠ cur := fun e => (hJj.own v' (push3_fresh h)).2 (e ▸ hcb)
      rw [setNext_other s prev this]; exact hJj.p3 v' old' h
    simp only [exec]; cases nxt <;> exact key
  | deq5 n => exact same
  | deq6 n nxt =>
    have hi : i = ct := is_consumer hJi hpc rfl
    have hj : j ≠ ct := by rw [← hi]; exact Ne.symm hij
    obtain ⟨hget, _⟩ := hJi.c6 n nxt hpc
    have hnb : n ∈ s.batch := List.mem_of_getElem? hget
    have key : J ct j (s.moveToHeap k n) tj := by
      refine J_producer hj hJj hJj.own ?_
      intro v' old' h
      have : v' ≠ n := fun e => (hJj.own v' (push3_fresh h)).2 (e ▸ hnb)
      show (s.setNext n none).next v' = old'
      rw [setNext_other s none this]; exact hJj.p3 v' old' h
    simp only [exec]
    cases nxt with
    | some nx => exact key
    | none =>
      obtain ⟨_, f2, f3, f4, f5⟩ := afterDrain_fields (k := k) (s.moveToHeap k n)
      exact J_congr key f2 f3 f4 f5
  | deq7 v => exact J_congr hJj rfl rfl rfl rfl
  | len1 => exact same
  | emp1 => exact same

end GoaktVerif.C04.IntakeInv

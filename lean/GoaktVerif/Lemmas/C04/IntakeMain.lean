/-
C04 — Treiber intake: ownership is kept; the invariants in every reachable configuration.
-/
import GoaktVerif.Lemmas.C04.IntakeFrame

namespace GoaktVerif.C04.IntakeInv
open GoaktVerif.Model.C04 GoaktVerif.Model.C04.Intake

variable {k : Conf}

theorem K_symm {ti tj : Th} (h : K ti tj) : K tj ti := fun v hv hv' => h v hv' hv

theorem fresh_advance_sub (s : Sh) (t : Th) (pc : PC) (now : Nat) (hpc : t.pc = some pc) :
    ∀ v ∈ fresh (t.advance (algo k) now (exec k s pc).2), v ∈ fresh t := by
  intro v hv
  have hfr : fresh t = pcFresh (some pc) ++ enqIds t.prog := by unfold fresh; rw [hpc]
  have hfin : ∀ r, v ∈ fresh (t.finish (algo k) r now) → v ∈ fresh t := by
    intro r h; rw [fresh_finish] at h; exact enqIds_sub_fresh t v h
  have hgo : ∀ pc', (∀ x ∈ pcFresh (some pc'), x ∈ pcFresh (some pc)) → v ∈ fresh ({ t with pc := some pc' } : Th) → v ∈ fresh t := by
    intro pc' h1 h2
    rw [hfr]
    unfold fresh at h2
    rcases List.mem_append.mp h2 with h | h
    · exact List.mem_append_left _ (h1 v h)
    · exact List.mem_append_right _ h
  cases hnx : (exec k s pc).2 with
  | ret r => rw [hnx] at hv; exact hfin r hv
  | goto pc' =>
    rw [hnx] at hv
    refine hgo pc' ?_ hv
    intro x hx
    cases pc with
    | enqU v0 => simp only [exec, Next.goto.injEq] at hnx; subst hnx; exact hx
    | enqL v0 =>
      simp only [exec] at hnx
      split at hnx
      · split at hnx
        · cases hnx
        · simp only [Next.goto.injEq] at hnx; subst hnx; exact hx
      · simp only [Next.goto.injEq] at hnx; subst hnx; exact hx
    | enqC v0 l =>
      simp only [exec] at hnx
      split at hnx <;> (simp only [Next.goto.injEq] at hnx; subst hnx; exact hx)
    | push1 v0 => simp only [exec, Next.goto.injEq] at hnx; subst hnx; exact hx
    | push2 v0 old => simp only [exec, Next.goto.injEq] at hnx; subst hnx; exact hx
    | push3 v0 old =>
      simp only [exec] at hnx
      split at hnx
      · cases hnx
      · simp only [Next.goto.injEq] at hnx; subst hnx; exact hx
    | deq1 =>
      simp only [exec] at hnx
      split at hnx
      · cases hnx
      · simp only [Next.goto.injEq] at hnx; subst hnx; simp [pcFresh] at hx
    | deq2 =>
      simp only [exec] at hnx
      split at hnx
      · rcases afterDrain_next (k := k) s with ⟨v', h⟩ | h
        · rw [h] at hnx; simp only [Next.goto.injEq] at hnx; subst hnx; simp [pcFresh] at hx
        · rw [h] at hnx; cases hnx
      · simp only [Next.goto.injEq] at hnx; subst hnx; simp [pcFresh] at hx
    | deq3 a b => simp only [exec, Next.goto.injEq] at hnx; subst hnx; simp [pcFresh] at hx
    | deq4 a b c =>
      simp only [exec] at hnx
      cases c <;> (simp only [Next.goto.injEq] at hnx; subst hnx; simp [pcFresh] at hx)
    | deq5 a => simp only [exec, Next.goto.injEq] at hnx; subst hnx; simp [pcFresh] at hx
    | deq6 a b =>
      simp only [exec] at hnx
      cases b with
      | some nx => simp only [Next.goto.injEq] at hnx; subst hnx; simp [pcFresh] at hx
      | none =>
        rcases afterDrain_next (k := k) (s.moveToHeap k a) with ⟨v', h⟩ | h
        · simp only [h, Next.goto.injEq] at hnx; subst hnx; simp [pcFresh] at hx
        · simp only [h] at hnx; cases hnx
    | deq7 a => simp [exec] at hnx
    | len1 => simp [exec] at hnx
    | emp1 => simp [exec] at hnx

/-- usage assumed: every message id is enqueued once over all programs; only thread `ct` dequeues -/
structure IntakeWF (ct : Nat) (progs : List (List Op)) : Prop where
  each : ∀ (i : Nat) (p : List Op), progs[i]? = some p → (enqIds p).Nodup ∧ (i ≠ ct → Op.deq ∉ p)
  disj : ∀ (i j : Nat) (pi pj : List Op), i ≠ j → progs[i]? = some pi → progs[j]? = some pj →
    ∀ v ∈ enqIds pi, v ∉ enqIds pj

theorem mk_pc' (p : List Op) (n : Nat) :
    (mkThread (algo k) p n).pc = none ∨ ∃ op, op ∈ p ∧ (mkThread (algo k) p n).pc = some (start k op) := by
  unfold mkThread
  cases p with
  | nil => exact Or.inl rfl
  | cons op rest => exact Or.inr ⟨op, by simp, rfl⟩

theorem mk_prog_sub' (p : List Op) (n : Nat) : ∀ op ∈ (mkThread (algo k) p n).prog, op ∈ p := by
  unfold mkThread
  cases p with
  | nil => simp
  | cons op rest => intro o ho; exact List.mem_cons_of_mem _ ho

theorem P_init : P Intake.init where
  st := rfl
  nd := List.nodup_nil
  bnd := List.nodup_nil
  dj := by intro x hx; cases hx
  dn := Nat.le_refl _

/-- the intake invariants hold in every reachable configuration: all programs, any number of
producers, all schedules -/
theorem intake_inv (ct : Nat) (progs : List (List Op)) (wf : IntakeWF ct progs) :
    ∀ c, Reach (algo k) (initCfg (algo k) Intake.init progs) c →
      P c.sh ∧ (∀ (i : Nat) (t : Th), c.threads[i]? = some t → J ct i c.sh t) ∧
      (∀ (i j : Nat) (ti tj : Th), i ≠ j → c.threads[i]? = some ti → c.threads[j]? = some tj → K ti tj) := by
  refine reach_og2 (A := algo k) P (J ct) K P_init ?_ ?_ ?_ ?_ ?_
  · intro i p n hp
    obtain ⟨hnd, hd⟩ := wf.each i p hp
    refine J_start p (mk_pc' p n) (mk_prog_sub' p n) ?_ (by rw [fresh_mk]; exact hnd) (fun _ => rfl) hd
    intro v _; exact ⟨by show v ∉ ([] : List Nat); simp, by show v ∉ ([] : List Nat); simp⟩
  · intro i j p q n n' hij hp hq v hv
    rw [fresh_mk] at hv ⊢
    exact wf.disj i j p q hij hp hq v hv
  · intro s i t pc now hP hJ hpc; exact seg_hstep ct s i t pc now hP hJ hpc
  · intro s i j ti tj pc hij hP hJi hJj hK hpc; exact seg_hframe ct s i j ti tj pc hij hP hJi hJj hK (K_symm hK) hpc
  · intro s i j ti tj pc now _ _ _ _ hK hpc
    have sub := fresh_advance_sub (k := k) s ti pc now hpc
    exact ⟨fun v hv => hK v (sub v hv), fun v hv hv' => hK v (sub v hv') hv⟩

end GoaktVerif.C04.IntakeInv

/-
C04 — UnboundedMailbox (Vyukov MPSC list): the abstraction to the reservation queue and the
lemmas about the extended chain.

The abstract queue of a configuration is the list of cells spelled by the chain that starts at
`head`: a node reached through a real `next` link is a `ready` cell, a node reached through the link
a parked producer is about to store (it sits at its publishing `Store:next` with locals
`(v, prev)`, contributing `prev → v`) is a `pending` cell.  The chain ends at `tail`.
-/
import GoaktVerif.Model.C04.All
import GoaktVerif.Lemmas.C04.RQ

namespace GoaktVerif.C04.UB
open GoaktVerif.Model.C04 GoaktVerif.Model.C04.Unbounded GoaktVerif.Spec.C04

abbrev vals (cs : List Cell) : List Nat := cs.map Cell.val

/-- the extended chain from node `a` spells `cs` and ends at `tail` -/
def Chain (s : Sh) (pend : Nat → Nat → Prop) : Nat → List Cell → Prop
  | a, [] => a = s.tail ∧ s.next a = none
  | a, .ready b :: cs => s.next a = some b ∧ Chain s pend b cs
  | a, .pending b :: cs => s.next a = none ∧ pend a b ∧ Chain s pend b cs

/-- in the chain from `a`, `v` is a pending cell whose predecessor node is `p` -/
def PendLink : Nat → List Cell → Nat → Nat → Prop
  | _, [], _, _ => False
  | a, c :: cs, p, v => (c = .pending v ∧ a = p) ∨ PendLink c.val cs p v

theorem pendLink_mem : ∀ (cs : List Cell) (a p v : Nat), PendLink a cs p v → p ∈ a :: vals cs ∧ v ∈ vals cs
  | [], _, _, _, h => by simp [PendLink] at h
  | c :: cs, a, p, v, h => by
    simp only [PendLink] at h
    rcases h with ⟨hc, ha⟩ | h
    · subst hc; subst ha; simp [Cell.val]
    · have := pendLink_mem cs c.val p v h
      simp only [List.mem_cons, List.map_cons] at this ⊢
      rcases this with ⟨h1, h2⟩
      exact ⟨Or.inr h1, Or.inr h2⟩

theorem pendLink_pending : ∀ (cs : List Cell) (a p v : Nat), PendLink a cs p v → Cell.pending v ∈ cs
  | [], _, _, _, h => by simp [PendLink] at h
  | c :: cs, a, p, v, h => by
    simp only [PendLink] at h
    rcases h with ⟨hc, _⟩ | h
    · subst hc; simp
    · exact List.mem_cons_of_mem _ (pendLink_pending cs c.val p v h)

theorem pendLink_append : ∀ (cs ds : List Cell) (a p v : Nat), PendLink a cs p v → PendLink a (cs ++ ds) p v
  | [], _, _, _, _, h => by simp [PendLink] at h
  | c :: cs, ds, a, p, v, h => by
    simp only [PendLink, List.cons_append] at h ⊢
    rcases h with h | h
    · exact Or.inl h
    · exact Or.inr (pendLink_append cs ds c.val p v h)

theorem publish_val (c : Cell) (w : Nat) : (if c = .pending w then Cell.ready w else c).val = c.val := by
  split
  · next h => subst h; rfl
  · rfl

theorem pendLink_publish : ∀ (cs : List Cell) (a p v w : Nat), w ≠ v → PendLink a cs p v → PendLink a (publish cs w) p v
  | [], _, _, _, _, _, h => by simp [PendLink] at h
  | c :: cs, a, p, v, w, hw, h => by
    simp only [PendLink, publish, List.map_cons] at h ⊢
    rcases h with ⟨hc, ha⟩ | h
    · left
      subst hc
      refine ⟨?_, ha⟩
      have : ¬ (Cell.pending v = Cell.pending w) := by
        intro e; injection e with e; exact hw e.symm
      simp [this]
    · right
      rw [publish_val]
      exact pendLink_publish cs c.val p v w hw h

theorem publish_not_mem : ∀ (cs : List Cell) (v : Nat), v ∉ vals cs → publish cs v = cs
  | [], _, _ => rfl
  | c :: cs, v, h => by
    simp only [List.map_cons, List.mem_cons, not_or] at h
    simp only [publish, List.map_cons]
    have hc : ¬ (c = .pending v) := by
      intro e; subst e; exact h.1 rfl
    simp only [hc, ↓reduceIte]
    congr 1
    exact publish_not_mem cs v h.2

/-- frame rule: the chain only reads `next` of its own nodes, `tail`, and the pending links it uses -/
theorem Chain.frame {s s' : Sh} {pend pend' : Nat → Nat → Prop} :
    ∀ (cs : List Cell) (a : Nat), (∀ x ∈ a :: vals cs, s'.next x = s.next x) → s'.tail = s.tail →
      (∀ x y, Cell.pending y ∈ cs → pend x y → pend' x y) → Chain s pend a cs → Chain s' pend' a cs
  | [], a, hn, ht, _, h => by
    simp only [Chain] at h ⊢
    exact ⟨by rw [ht]; exact h.1, by rw [hn a (by simp)]; exact h.2⟩
  | .ready b :: cs, a, hn, ht, hp, h => by
    simp only [Chain] at h ⊢
    refine ⟨by rw [hn a (by simp)]; exact h.1, ?_⟩
    exact Chain.frame cs b (fun x hx => hn x (by simp only [List.map_cons, List.mem_cons] at hx ⊢; exact Or.inr hx)) ht
      (fun x y hy => hp x y (List.mem_cons_of_mem _ hy)) h.2
  | .pending b :: cs, a, hn, ht, hp, h => by
    simp only [Chain] at h ⊢
    refine ⟨by rw [hn a (by simp)]; exact h.1, hp a b (by simp) h.2.1, ?_⟩
    exact Chain.frame cs b (fun x hx => hn x (by simp only [List.map_cons, List.mem_cons] at hx ⊢; exact Or.inr hx)) ht
      (fun x y hy => hp x y (List.mem_cons_of_mem _ hy)) h.2.2

/-- what the first cell is, read off `next head` -/
theorem Chain.head_none {s : Sh} {pend} {a : Nat} {cs : List Cell} (h : Chain s pend a cs) (hn : s.next a = none) :
    cs = [] ∨ ∃ b rest, cs = .pending b :: rest := by
  cases cs with
  | nil => exact Or.inl rfl
  | cons c rest =>
    cases c with
    | pending b => exact Or.inr ⟨b, rest, rfl⟩
    | ready b => simp only [Chain] at h; rw [hn] at h; cases h.1

theorem Chain.head_some {s : Sh} {pend} {a n : Nat} {cs : List Cell} (h : Chain s pend a cs) (hn : s.next a = some n) :
    ∃ rest, cs = .ready n :: rest ∧ Chain s pend n rest := by
  cases cs with
  | nil => simp only [Chain] at h; rw [hn] at h; cases h.2
  | cons c rest =>
    cases c with
    | pending b => simp only [Chain] at h; rw [hn] at h; cases h.1
    | ready b =>
      simp only [Chain] at h
      rw [hn] at h
      injection h.1 with e
      subst e
      exact ⟨rest, rfl, h.2⟩

/-- reserve: `Swap:tail` appends a pending cell -/
theorem Chain.snoc {s : Sh} {pend pend' : Nat → Nat → Prop} (v : Nat) (hv : s.next v = none)
    (hp : ∀ x y, pend x y → pend' x y) (hpv : pend' s.tail v) :
    ∀ (cs : List Cell) (a : Nat), Chain s pend a cs → Chain { s with tail := v } pend' a (cs ++ [.pending v])
  | [], a, h => by
    simp only [Chain] at h
    simp only [List.nil_append, Chain]
    exact ⟨h.2, by rw [h.1]; exact hpv, trivial, hv⟩
  | .ready b :: cs, a, h => by
    simp only [Chain] at h
    simp only [List.cons_append, Chain]
    exact ⟨h.1, Chain.snoc v hv hp hpv cs b h.2⟩
  | .pending b :: cs, a, h => by
    simp only [Chain] at h
    simp only [List.cons_append, Chain]
    exact ⟨h.1, hp a b h.2.1, Chain.snoc v hv hp hpv cs b h.2.2⟩

/-- publish: the `Store:next` of the producer parked at `(v, p)` turns the pending cell `v` ready -/
theorem Chain.publish {s : Sh} {pend pend' : Nat → Nat → Prop} (p v : Nat) :
    ∀ (cs : List Cell) (a : Nat), (a :: vals cs).Nodup → PendLink a cs p v →
      (∀ x y, y ≠ v → Cell.pending y ∈ cs → pend x y → pend' x y) →
      Chain s pend a cs → Chain (s.setNext p (some v)) pend' a (Spec.C04.publish cs v)
  | [], _, _, hl, _, _ => by simp [PendLink] at hl
  | c :: cs, a, hnd, hl, hp, h => by
    have hnd' : (c.val :: vals cs).Nodup := by
      simp only [List.map_cons, List.nodup_cons] at hnd ⊢; exact hnd.2
    have ha : a ∉ c.val :: vals cs := by
      simp only [List.map_cons, List.nodup_cons] at hnd; exact hnd.1
    simp only [PendLink] at hl
    rcases hl with ⟨hc, hap⟩ | hl
    · -- this is the cell
      subst hc; subst hap
      simp only [Chain] at h
      have hv : v ∉ vals cs := by
        simp only [Cell.val, List.nodup_cons] at hnd'; exact hnd'.1
      simp only [Spec.C04.publish, List.map_cons, ↓reduceIte, Chain]
      refine ⟨by simp [Sh.setNext], ?_⟩
      have hpub : cs.map (fun c => if c = Cell.pending v then Cell.ready v else c) = cs := publish_not_mem cs v hv
      rw [hpub]
      refine Chain.frame (s := s) (pend := pend) cs v ?_ rfl ?_ h.2.2
      · intro x hx
        have : x ≠ a := by
          intro e; subst e; exact ha (by simpa [Cell.val] using hx)
        simp [Sh.setNext, this]
      · intro x y hy hxy
        refine hp x y ?_ (List.mem_cons_of_mem _ hy) hxy
        intro e; subst e
        have : (Cell.pending y).val ∈ vals cs := List.mem_map_of_mem hy
        exact hv this
    · -- later in the chain
      have hm := pendLink_mem cs c.val p v hl
      have hap : a ≠ p := by
        intro e; subst e; exact ha hm.1
      have hcv : c.val ≠ v := by
        intro e
        simp only [List.nodup_cons] at hnd'
        exact hnd'.1 (e ▸ hm.2)
      have ih := fun (hp' : ∀ x y, y ≠ v → Cell.pending y ∈ cs → pend x y → pend' x y) (hc : Chain s pend c.val cs) =>
        Chain.publish p v cs c.val hnd' hl hp' hc
      have hp' : ∀ x y, y ≠ v → Cell.pending y ∈ cs → pend x y → pend' x y :=
        fun x y hy hm => hp x y hy (List.mem_cons_of_mem _ hm)
      cases c with
      | ready b =>
        simp only [Chain] at h
        simp only [Spec.C04.publish, List.map_cons, reduceCtorEq, ↓reduceIte, Chain]
        refine ⟨by simp [Sh.setNext, hap]; exact h.1, ?_⟩
        exact ih hp' h.2
      | pending b =>
        simp only [Chain] at h
        have hb : b ≠ v := by simpa [Cell.val] using hcv
        have hne : ¬ (Cell.pending b = Cell.pending v) := by
          intro e; injection e with e; exact hb e
        simp only [Spec.C04.publish, List.map_cons, hne, ↓reduceIte, Chain]
        refine ⟨by simp [Sh.setNext, hap]; exact h.1, hp a b hb (by simp) h.2.1, ?_⟩
        exact ih hp' h.2.2

/-- the predecessor of a pending cell has no real link yet -/
theorem Chain.pendLink_next {s : Sh} {pend : Nat → Nat → Prop} :
    ∀ (cs : List Cell) (a p v : Nat), Chain s pend a cs → PendLink a cs p v → s.next p = none
  | [], _, _, _, _, hl => by simp [PendLink] at hl
  | .ready b :: cs, a, p, v, h, hl => by
    simp only [Chain] at h
    simp only [PendLink, reduceCtorEq, false_and, false_or, Cell.val] at hl
    exact Chain.pendLink_next cs b p v h.2 hl
  | .pending b :: cs, a, p, v, h, hl => by
    simp only [Chain] at h
    simp only [PendLink, Cell.val] at hl
    rcases hl with ⟨_, hap⟩ | hl
    · subst hap; exact h.1
    · exact Chain.pendLink_next cs b p v h.2.2 hl

/-- after `Swap:tail` the new pending cell hangs off the old tail -/
theorem Chain.pendLink_snoc {s : Sh} {pend : Nat → Nat → Prop} (v : Nat) :
    ∀ (cs : List Cell) (a : Nat), Chain s pend a cs → PendLink a (cs ++ [.pending v]) s.tail v
  | [], a, h => by
    simp only [Chain] at h
    simp only [List.nil_append, PendLink]
    exact Or.inl ⟨trivial, h.1⟩
  | .ready b :: cs, a, h => by
    simp only [Chain] at h
    simp only [List.cons_append, PendLink, Cell.val]
    exact Or.inr (Chain.pendLink_snoc v cs b h.2)
  | .pending b :: cs, a, h => by
    simp only [Chain] at h
    simp only [List.cons_append, PendLink, Cell.val]
    exact Or.inr (Chain.pendLink_snoc v cs b h.2.2)

end GoaktVerif.C04.UB

/-
C04 — `NonBlockingBoundedMailbox`: values.  Positions are handed out consecutively by the successful
CAS on `enqueuePos`; the k-th reservation writes its message into the slot of position k, and the
consumer's k-th successful dequeue returns the message of position k.  Hence, for every run:
the values returned by Dequeue = the first `dequeuePos` values of the reservation sequence
(exactly-once and FIFO in reservation order, no assumption on the values being distinct).
-/
import GoaktVerif.Lemmas.C04.RingMain

namespace GoaktVerif.C04.RingInv
open GoaktVerif.Model.C04 GoaktVerif.Model.C04.Ring

abbrev Cf := Cfg Ring.algo

/-- the value reserved by this step, if it is a successful CAS on `enqueuePos` -/
def evR (s : Sh) : PC → List Nat
  | .enq3 v pos => if s.enqPos = pos then [v] else []
  | _ => []

def stepEvR (c : Cf) (tid : Nat) : List Nat :=
  match c.threads[tid]? with
  | some t => match t.pc with
    | some pc => evR c.sh pc
    | none => []
  | none => []

/-- reservation sequence of a schedule -/
def resvTrace (c : Cf) : List Nat → List Nat
  | [] => []
  | t :: ts => stepEvR c t ++ resvTrace (stepCfg c t) ts

def resVal (d : Done) : Option Nat :=
  match d.res with
  | .val v => some v
  | _ => none

def pcDeq : Option PC → List Nat
  | some (.deq4 _ (some v)) => [v]
  | _ => []

/-- what a thread has dequeued so far, oldest first (the last value possibly not yet returned) -/
def deqdT (t : Th) : List Nat := t.hist.reverse.filterMap resVal ++ pcDeq t.pc

def deqd (c : Cf) (ct : Nat) : List Nat :=
  match c.threads[ct]? with
  | some t => deqdT t
  | none => []

/-- how many positions thread `t` has fully claimed: `deqPos`, counted at the thread -/
structure TR (ct : Nat) (c : Cf) (resv : List Nat) : Prop where
  len : resv.length = c.sh.enqPos
  ctx : ∀ p, c.sh.deqPos ≤ p → p < c.sh.enqPos → c.sh.ctx (p % c.sh.size) = resv[p]?
  held : ∀ (i : Nat) (t : Th) (pos : Nat) (msg : Option Nat), c.threads[i]? = some t → t.pc = some (.deq4 pos msg) → msg = resv[pos]?
  deqd : ∀ (t : Th), c.threads[ct]? = some t → deqdT t = resv.take c.sh.deqPos

theorem stepCfg_eq' {c : Cf} {tid : Nat} {t : Th} {pc : PC} (ht : c.threads[tid]? = some t) (hpc : t.pc = some pc) :
    stepCfg c tid = { sh := (exec c.sh pc).1, threads := c.threads.set tid (t.advance algo c.clock (exec c.sh pc).2),
                      clock := tick (A := algo) t c.clock (exec c.sh pc).2 } := by
  unfold stepCfg
  simp only [ht, hpc]

theorem get_self {α} {l : List α} {i : Nat} {t t' : α} (h : l[i]? = some t) : (l.set i t')[i]? = some t' := by
  have hl : i < l.length := by
    rcases Nat.lt_or_ge i l.length with h' | h'
    · exact h'
    · rw [List.getElem?_eq_none h'] at h; cases h
  simp [hl]

theorem get_ne {α} {l : List α} {i j : Nat} {t' : α} (h : i ≠ j) : (l.set i t')[j]? = l[j]? := by
  simp [h]

theorem hist_finish' (t : Th) (r : Res) (now : Nat) :
    (t.finish algo r now).hist = { op := t.cur.getD .len, res := r, inv := t.started, ret := now + 1 } :: t.hist := by
  unfold Thread.finish; cases t.prog <;> rfl

theorem deqdT_finish' (t : Th) (r : Res) (now : Nat) :
    deqdT (t.finish algo r now) = t.hist.reverse.filterMap resVal ++ (match r with | .val v => [v] | _ => []) := by
  have hpc : pcDeq (t.finish algo r now).pc = [] := by
    rcases finish_pc' t r now with h | ⟨op, _, h⟩
    · rw [h]; rfl
    · rw [h]; cases op <;> rfl
  unfold deqdT
  rw [hpc, hist_finish']
  cases r <;> simp [resVal, List.filterMap_append]

/-- a step that neither reserves nor moves the consumer's claim leaves the thread's dequeued list alone -/
theorem deqdT_goto (t : Th) (pc' : PC) (h : pcDeq (some pc') = []) (hold : pcDeq t.pc = []) :
    deqdT ({ t with pc := some pc' } : Th) = deqdT t := by
  unfold deqdT; simp [h, hold]

end GoaktVerif.C04.RingInv

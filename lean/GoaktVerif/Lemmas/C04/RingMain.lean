/-
C04 — `NonBlockingBoundedMailbox`: the invariants in every reachable configuration, and what they
give: capacity, "full" only when full, "nil" only when the head position is unpublished or nothing is
reserved, and no slot is overwritten before its previous position was released.
-/
import GoaktVerif.Lemmas.C04.RingFrame

namespace GoaktVerif.C04.RingInv
open GoaktVerif.Model.C04 GoaktVerif.Model.C04.Ring

theorem go_ge (n : Nat) : ∀ (f p : Nat), p ≤ nextPow2.go n f p
  | 0, p => by simp [nextPow2.go]
  | f + 1, p => by
    simp only [nextPow2.go]
    split
    · exact Nat.le_refl p
    · have := go_ge n f (2 * p); omega

theorem nextPow2_ge (n : Nat) : 2 ≤ nextPow2 n := by
  unfold nextPow2
  split
  · exact Nat.le_refl 2
  · exact go_ge n 64 2

theorem P_init (cap : Nat) : P (Ring.init cap) := by
  have hz := nextPow2_ge cap
  have hr : rel (Ring.init cap) = 0 := by simp [rel, Ring.init]
  refine ⟨hz, Nat.le_refl _, ?_, ?_, ?_⟩
  · rw [hr]; exact Nat.zero_le _
  · intro p _ h2
    rw [hr] at h2
    show p % nextPow2 cap = p
    exact Nat.mod_eq_of_lt (by simpa [Ring.init] using h2)
  · intro p h1 h2
    change 0 ≤ p at h1
    change p < 0 at h2
    omega

/-- usage assumed: only thread `ct` calls Dequeue -/
def RingWF (ct : Nat) (progs : List (List Op)) : Prop :=
  ∀ (i : Nat) (p : List Op), progs[i]? = some p → i ≠ ct → Op.deq ∉ p

/-- the invariants hold in every reachable configuration: all programs, any number of producers, all schedules -/
theorem ring_inv (ct cap : Nat) (progs : List (List Op)) (wf : RingWF ct progs) :
    ∀ c, Reach Ring.algo (initCfg Ring.algo (Ring.init cap) progs) c →
      P c.sh ∧ (∀ (i : Nat) (t : Th), c.threads[i]? = some t → J ct i c.sh t) ∧
      (∀ (i j : Nat) (ti tj : Th), i ≠ j → c.threads[i]? = some ti → c.threads[j]? = some tj → K ti tj) := by
  refine reach_og (A := Ring.algo) P (J ct) K (P_init cap) ?_ ?_ ?_ ?_ ?_
  · intro i p k hp
    refine J_start p (mk_pc' p k) (mk_prog_sub' p k) (fun _ => by simp [rel, Ring.init]) (fun hi => wf i p hp hi)
  · intro p q k k' v pos v' pos' h _
    rcases mk_pc' p k with h' | ⟨op, _, h'⟩
    · rw [h'] at h; cases h
    · rw [h'] at h; cases op <;> simp [start] at h
  · intro s i t pc now hP hJ hpc; exact ring_hstep ct s i t pc now hP hJ hpc
  · intro s i j ti tj pc hij hP hJi hJj hK hpc; exact ring_hframe ct s i j ti tj pc hij hP hJi hJj hK hpc
  · intro s i j ti tj pc now hij hP hJi hJj hK hpc; exact ring_hK ct s i j ti tj pc now hij hP hJi hJj hK hpc

/-! ### consequences -/

/-- the mark of a slot is never below any position it has served or is serving -/
theorem seq_ge {s : Sh} (hP : P s) : ∀ (n p : Nat), rel s + s.size - p = n → p < rel s + s.size → p ≤ s.seq (p % s.size) := by
  have hz : 0 < s.size := by have := hP.size2; omega
  intro n
  induction n using Nat.strongRecOn with
  | _ n ih =>
    intro p hn hp
    by_cases hw : rel s ≤ p
    · -- in the window
      by_cases h1 : s.enqPos ≤ p
      · have := hP.free p h1 hp; omega
      · by_cases h2 : s.deqPos ≤ p
        · rcases hP.win p h2 (by omega) with h | h <;> omega
        · -- p = rel = deqPos - 1, claimed
          have hrd := rel_le s
          have hdr := le_rel s
          have hrel : rel s ≠ s.deqPos := by omega
          have : s.seq ((s.deqPos - 1) % s.size) = s.deqPos := by
            unfold rel at hrel; split at hrel
            · next h' => exact h'.2
            · exact absurd rfl hrel
          have hp' : p = s.deqPos - 1 := by omega
          rw [hp', this]; omega
    · have hq : (p + s.size) % s.size = p % s.size := by simp
      have := ih (rel s + s.size - (p + s.size)) (by omega) (p + s.size) rfl (by omega)
      rw [hq] at this; omega

/-- REJECT ONLY WHEN FULL: if the producer's `Load:seq` sees `dif < 0` (the only way `Enqueue` answers
ErrMailboxFull), then its position is the current `enqPos` and `size` positions are reserved and not
released -/
theorem full_only_when_full {ct : Nat} {s : Sh} {i : Nat} {t : Th} (hP : P s) (hJ : J ct i s t) {v pos : Nat}
    (hpc : t.pc = some (.enq2 v pos)) (hdif : (s.seq (pos % s.size) : Int) - (pos : Int) < 0) :
    pos = s.enqPos ∧ s.enqPos = rel s + s.size := by
  have hle := hJ.enq2 v pos hpc
  have hle2 := hP.le2
  by_cases h : pos < rel s + s.size
  · have := seq_ge hP _ pos rfl h; omega
  · omega

/-- NIL ONLY WHEN NOTHING IS READY AT THE HEAD: if the consumer's `Load:seq` sees `dif < 0`, then either
nothing is reserved (`deqPos = enqPos`) or the head position is reserved but not yet published -/
theorem nil_only_when_head_unpublished {ct : Nat} {s : Sh} {i : Nat} {t : Th} (hP : P s) (hJ : J ct i s t) {pos : Nat}
    (hpc : t.pc = some (.deq2 pos)) (hdif : (s.seq (pos % s.size) : Int) - ((pos : Int) + 1) < 0) :
    pos = s.deqPos ∧ (s.deqPos = s.enqPos ∨ (s.deqPos < s.enqPos ∧ s.seq (s.deqPos % s.size) = s.deqPos)) := by
  have hd := hJ.deq2 pos hpc
  refine ⟨hd, ?_⟩
  rw [hd] at hdif
  have hle := hP.le1
  by_cases h : s.deqPos = s.enqPos
  · exact Or.inl h
  · right
    refine ⟨by omega, ?_⟩
    rcases hP.win s.deqPos (Nat.le_refl _) (by omega) with h' | h'
    · exact h'
    · omega

/-- NO OVERWRITE: a producer's CAS on `enqPos` succeeds only for a position whose slot has been released
by the consumer (the previous position of that slot, `pos - size`, is below `rel`) -/
theorem reserve_only_released {ct : Nat} {s : Sh} {i : Nat} {t : Th} (hP : P s) (hJ : J ct i s t) {v pos : Nat}
    (hpc : t.pc = some (.enq3 v pos)) (hcas : s.enqPos = pos) : pos < rel s + s.size := by
  have := (hJ.enq3 v pos hpc).2 hcas.symm
  have := (P_reserve hP v (by rw [hcas]; exact this)).1
  omega

end GoaktVerif.C04.RingInv

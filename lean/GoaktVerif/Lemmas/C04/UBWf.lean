/-
C04 — the executable well-formedness test of `C04_full` implies the index-form hypothesis of the
UnboundedMailbox theorems (consumer = last thread).
-/
import GoaktVerif.Lemmas.C04.UBTrace3

namespace GoaktVerif.C04.UB
open GoaktVerif.Model.C04 GoaktVerif.Model.C04.Unbounded GoaktVerif.Spec.C04

theorem nodup_of_nodupB : ∀ (l : List Nat), nodupB l = true → l.Nodup
  | [], _ => List.nodup_nil
  | x :: xs, h => by
    simp only [nodupB, Bool.and_eq_true, Bool.not_eq_true', List.contains_eq_mem, decide_eq_false_iff_not] at h
    exact List.nodup_cons.mpr ⟨h.1, nodup_of_nodupB xs h.2⟩

theorem flatMap_nodup_idx {α : Type} (f : α → List Nat) : ∀ (l : List α), (l.flatMap f).Nodup →
    (∀ (i : Nat) (p : α), l[i]? = some p → (f p).Nodup) ∧
    (∀ (i j : Nat) (pi pj : α), i < j → l[i]? = some pi → l[j]? = some pj → ∀ v ∈ f pi, v ∉ f pj)
  | [], _ => by simp
  | p :: ps, h => by
    simp only [List.flatMap_cons, List.nodup_append] at h
    obtain ⟨h1, h2, h3⟩ := h
    obtain ⟨ih1, ih2⟩ := flatMap_nodup_idx f ps h2
    refine ⟨?_, ?_⟩
    · intro i q hq
      cases i with
      | zero => simp only [List.getElem?_cons_zero, Option.some.injEq] at hq; subst hq; exact h1
      | succ i => simp only [List.getElem?_cons_succ] at hq; exact ih1 i q hq
    · intro i j pi pj hij hi hj v hv
      cases j with
      | zero => omega
      | succ j =>
        simp only [List.getElem?_cons_succ] at hj
        cases i with
        | zero =>
          simp only [List.getElem?_cons_zero, Option.some.injEq] at hi; subst hi
          intro hv'
          have : v ∈ ps.flatMap f := List.mem_flatMap.mpr ⟨pj, List.mem_of_getElem? hj, hv'⟩
          exact h3 v hv v this rfl
        | succ i =>
          simp only [List.getElem?_cons_succ] at hi
          exact ih2 i j pi pj (by omega) hi hj v hv

theorem ubWellFormed_of_wellFormed (progs : List (List Op)) (h : WellFormed progs = true) :
    UBWellFormed (progs.length - 1) progs := by
  simp only [WellFormed, Bool.and_eq_true, Bool.not_eq_true', List.contains_eq_mem, decide_eq_false_iff_not,
    List.all_eq_true] at h
  obtain ⟨⟨hnd, h0⟩, hcons⟩ := h
  obtain ⟨f1, f2⟩ := flatMap_nodup_idx enqIds progs (nodup_of_nodupB _ hnd)
  refine ⟨?_, ?_⟩
  · intro i p hp
    refine ⟨f1 i p hp, ?_, ?_⟩
    · intro hm
      exact h0 (List.mem_flatMap.mpr ⟨p, List.mem_of_getElem? hp, hm⟩)
    · intro hi hd
      have hlt : i < progs.length := by
        rcases Nat.lt_or_ge i progs.length with h' | h'
        · exact h'
        · rw [List.getElem?_eq_none h'] at hp; cases hp
      have hmem : p ∈ progs.dropLast := by
        have hi' : i < progs.dropLast.length := by rw [List.length_dropLast]; omega
        have : progs.dropLast[i]? = some p := by
          rw [List.getElem?_dropLast, if_pos (by omega)]; exact hp
        exact List.mem_of_getElem? this
      have := hcons p hmem Op.deq hd
      simp [consumerOnly] at this
  · intro i j pi pj hij hi hj v hv
    rcases Nat.lt_or_gt_of_ne hij with h' | h'
    · exact f2 i j pi pj h' hi hj v hv
    · intro hv'
      exact f2 j i pj pi h' hj hi v hv' hv

end GoaktVerif.C04.UB

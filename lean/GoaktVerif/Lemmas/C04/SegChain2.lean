/-
C04 — `UnboundedSegmentedMailbox`: preservation of the segment-list invariant by each kind of step.
-/
import GoaktVerif.Lemmas.C04.SegChain

namespace GoaktVerif.C04.SegInv
open GoaktVerif.Model.C04 GoaktVerif.Model.C04.Segmented

/-- steps that change none of the fields the list invariant reads -/
theorem P2_congr {s s' : Sh} (h : P2 s) (hS : s'.segSize = s.segSize) (hl : s'.last = s.last) (hn : s'.nseg = s.nseg)
    (hh : s'.head = s.head) (ht : s'.tail = s.tail)
    (hf : ∀ j, (s'.segs j).linked = (s.segs j).linked ∧ (s'.segs j).next = (s.segs j).next ∧ (s'.segs j).ord = (s.segs j).ord ∧
      (s'.segs j).writeIdx = (s.segs j).writeIdx ∧ (s'.segs j).deqIdx = (s.segs j).deqIdx) : P2 s' where
  lastOK := by rw [hl, (hf _).1, (hf _).2.1]; exact h.lastOK
  inner := by
    intro g hg hne
    rw [(hf g).1] at hg; rw [hl] at hne
    obtain ⟨a, nx, b, c, d⟩ := h.inner g hg hne
    exact ⟨by rw [hS, (hf g).2.2.2.1]; exact a, nx, by rw [(hf g).2.1]; exact b, by rw [(hf nx).1]; exact c,
      by rw [(hf nx).2.2.1, (hf g).2.2.1]; exact d⟩
  top := by intro g hg; rw [(hf g).1] at hg; rw [hl, (hf g).2.2.1, (hf _).2.2.1]; exact h.top g hg
  inj := by
    intro g g' a b c
    rw [(hf g).1] at a; rw [(hf g').1] at b; rw [(hf g).2.2.1, (hf g').2.2.1] at c
    exact h.inj g g' a b c
  unl := by
    intro g hg; rw [(hf g).1] at hg
    rw [(hf g).2.2.2.1, (hf g).2.1, (hf g).2.2.2.2]; exact h.unl g hg
  alloc := by intro g hg; rw [(hf g).1] at hg; rw [hn]; exact h.alloc g hg
  hd := by rw [hh, (hf _).1]; exact h.hd
  tl := by rw [ht, (hf _).1]; exact h.tl
  before := by
    intro g hg ho
    rw [(hf g).1] at hg; rw [hh, (hf g).2.2.1, (hf _).2.2.1] at ho
    rw [(hf g).2.2.2.2, hS]; exact h.before g hg ho
  after := by
    intro g hg ho
    rw [(hf g).1] at hg; rw [hh, (hf g).2.2.1, (hf _).2.2.1] at ho
    rw [(hf g).2.2.2.2]; exact h.after g hg ho

/-- `Add:writeIdx` on a linked segment -/
theorem P2_write {s : Sh} (h : P2 s) (t : Nat) (hl : (s.segs t).linked = true) :
    P2 (s.upd t fun x => { x with writeIdx := x.writeIdx + 1 }) := by
  have fld : ∀ j, ((s.upd t fun x => { x with writeIdx := x.writeIdx + 1 }).segs j).linked = (s.segs j).linked ∧
      ((s.upd t fun x => { x with writeIdx := x.writeIdx + 1 }).segs j).next = (s.segs j).next ∧
      ((s.upd t fun x => { x with writeIdx := x.writeIdx + 1 }).segs j).ord = (s.segs j).ord ∧
      ((s.upd t fun x => { x with writeIdx := x.writeIdx + 1 }).segs j).deqIdx = (s.segs j).deqIdx ∧
      (s.segs j).writeIdx ≤ ((s.upd t fun x => { x with writeIdx := x.writeIdx + 1 }).segs j).writeIdx ∧
      (j ≠ t → ((s.upd t fun x => { x with writeIdx := x.writeIdx + 1 }).segs j).writeIdx = (s.segs j).writeIdx) := by
    intro j; rw [upd_field j]; split
    · next e => subst e; exact ⟨rfl, rfl, rfl, rfl, by show (s.segs j).writeIdx ≤ (s.segs j).writeIdx + 1; omega, fun e => absurd rfl e⟩
    · exact ⟨rfl, rfl, rfl, rfl, Nat.le_refl _, fun _ => rfl⟩
  refine ⟨?_, ?_, ?_, ?_, ?_, ?_, ?_, ?_, ?_, ?_⟩
  · show ((s.upd t _).segs s.last).linked = true ∧ ((s.upd t _).segs s.last).next = none
    rw [(fld _).1, (fld _).2.1]; exact h.lastOK
  · intro g hg hne
    rw [(fld g).1] at hg
    obtain ⟨a, nx, b, c, d⟩ := h.inner g hg hne
    exact ⟨Nat.le_trans a (fld g).2.2.2.2.1, nx, by rw [(fld g).2.1]; exact b, by rw [(fld nx).1]; exact c,
      by rw [(fld nx).2.2.1, (fld g).2.2.1]; exact d⟩
  · intro g hg; rw [(fld g).1] at hg
    show ((s.upd t _).segs g).ord ≤ ((s.upd t _).segs s.last).ord
    rw [(fld g).2.2.1, (fld _).2.2.1]; exact h.top g hg
  · intro g g' a b c
    rw [(fld g).1] at a; rw [(fld g').1] at b; rw [(fld g).2.2.1, (fld g').2.2.1] at c
    exact h.inj g g' a b c
  · intro g hg; rw [(fld g).1] at hg
    have hne : g ≠ t := by intro e; rw [e, hl] at hg; cases hg
    rw [(fld g).2.2.2.2.2 hne, (fld g).2.1, (fld g).2.2.2.1]; exact h.unl g hg
  · intro g hg; rw [(fld g).1] at hg; exact h.alloc g hg
  · show ((s.upd t _).segs s.head).linked = true; rw [(fld _).1]; exact h.hd
  · show ((s.upd t _).segs s.tail).linked = true; rw [(fld _).1]; exact h.tl
  · intro g hg ho
    rw [(fld g).1] at hg
    change ((s.upd t _).segs g).ord < ((s.upd t _).segs s.head).ord at ho
    rw [(fld g).2.2.1, (fld _).2.2.1] at ho
    rw [(fld g).2.2.2.1]; exact h.before g hg ho
  · intro g hg ho
    rw [(fld g).1] at hg
    change ((s.upd t _).segs s.head).ord < ((s.upd t _).segs g).ord at ho
    rw [(fld g).2.2.1, (fld _).2.2.1] at ho
    rw [(fld g).2.2.2.1]; exact h.after g hg ho

/-- `newSegment()` only moves the allocation counter -/
theorem P2_alloc {s : Sh} (h : P2 s) : P2 s.alloc.1 where
  lastOK := h.lastOK
  inner := h.inner
  top := h.top
  inj := h.inj
  unl := h.unl
  alloc := by intro g hg; have := h.alloc g hg; show g < s.nseg + 1; omega
  hd := h.hd
  tl := h.tl
  before := h.before
  after := h.after

/-- `CAS:tail` to a linked segment -/
theorem P2_tail {s : Sh} (h : P2 s) (x : Nat) (hx : (s.segs x).linked = true) : P2 { s with tail := x } where
  lastOK := h.lastOK
  inner := h.inner
  top := h.top
  inj := h.inj
  unl := h.unl
  alloc := h.alloc
  hd := h.hd
  tl := hx
  before := h.before
  after := h.after

/-- the consumer's `Store:deqIdx` on the head segment -/
theorem P2_deq {s : Sh} (h : P2 s) (d : Nat) : P2 (s.upd s.head fun x => { x with deqIdx := d }) := by
  have fld : ∀ j, ((s.upd s.head fun x => { x with deqIdx := d }).segs j).linked = (s.segs j).linked ∧
      ((s.upd s.head fun x => { x with deqIdx := d }).segs j).next = (s.segs j).next ∧
      ((s.upd s.head fun x => { x with deqIdx := d }).segs j).ord = (s.segs j).ord ∧
      ((s.upd s.head fun x => { x with deqIdx := d }).segs j).writeIdx = (s.segs j).writeIdx ∧
      (j ≠ s.head → ((s.upd s.head fun x => { x with deqIdx := d }).segs j).deqIdx = (s.segs j).deqIdx) := by
    intro j; rw [upd_field j]; split
    · next e => subst e; exact ⟨rfl, rfl, rfl, rfl, fun e => absurd rfl e⟩
    · exact ⟨rfl, rfl, rfl, rfl, fun _ => rfl⟩
  refine ⟨?_, ?_, ?_, ?_, ?_, ?_, ?_, ?_, ?_, ?_⟩
  · show ((s.upd s.head _).segs s.last).linked = true ∧ ((s.upd s.head _).segs s.last).next = none
    rw [(fld _).1, (fld _).2.1]; exact h.lastOK
  · intro g hg hne
    rw [(fld g).1] at hg
    obtain ⟨a, nx, b, c, e⟩ := h.inner g hg hne
    exact ⟨by rw [(fld g).2.2.2.1]; exact a, nx, by rw [(fld g).2.1]; exact b, by rw [(fld nx).1]; exact c,
      by rw [(fld nx).2.2.1, (fld g).2.2.1]; exact e⟩
  · intro g hg; rw [(fld g).1] at hg
    show ((s.upd s.head _).segs g).ord ≤ ((s.upd s.head _).segs s.last).ord
    rw [(fld g).2.2.1, (fld _).2.2.1]; exact h.top g hg
  · intro g g' a b c
    rw [(fld g).1] at a; rw [(fld g').1] at b; rw [(fld g).2.2.1, (fld g').2.2.1] at c
    exact h.inj g g' a b c
  · intro g hg; rw [(fld g).1] at hg
    have hne : g ≠ s.head := by intro e; rw [e, h.hd] at hg; cases hg
    rw [(fld g).2.2.2.1, (fld g).2.1, (fld g).2.2.2.2 hne]; exact h.unl g hg
  · intro g hg; rw [(fld g).1] at hg; exact h.alloc g hg
  · show ((s.upd s.head _).segs s.head).linked = true; rw [(fld _).1]; exact h.hd
  · show ((s.upd s.head _).segs s.tail).linked = true; rw [(fld _).1]; exact h.tl
  · intro g hg ho
    rw [(fld g).1] at hg
    change ((s.upd s.head _).segs g).ord < ((s.upd s.head _).segs s.head).ord at ho
    rw [(fld g).2.2.1, (fld _).2.2.1] at ho
    have hne : g ≠ s.head := by intro e; rw [e] at ho; omega
    rw [(fld g).2.2.2.2 hne]; exact h.before g hg ho
  · intro g hg ho
    rw [(fld g).1] at hg
    change ((s.upd s.head _).segs s.head).ord < ((s.upd s.head _).segs g).ord at ho
    rw [(fld g).2.2.1, (fld _).2.2.1] at ho
    have hne : g ≠ s.head := by intro e; rw [e] at ho; omega
    rw [(fld g).2.2.2.2 hne]; exact h.after g hg ho

/-- the consumer's `Store:head`: it leaves a fully consumed segment for its successor -/
theorem P2_head {s : Sh} (h : P2 s) (nx : Nat) (hn : (s.segs s.head).next = some nx)
    (hfull : (s.segs s.head).deqIdx = s.segSize) : P2 { s with head := nx } := by
  obtain ⟨hl, ho, _⟩ := h.next_linked h.hd hn
  refine ⟨h.lastOK, h.inner, h.top, h.inj, h.unl, h.alloc, hl, h.tl, ?_, ?_⟩
  · intro g hg hlt
    change (s.segs g).ord < (s.segs nx).ord at hlt
    rw [ho] at hlt
    by_cases e : (s.segs g).ord = (s.segs s.head).ord
    · have := h.inj g s.head hg h.hd e; rw [this]; exact hfull
    · exact h.before g hg (by omega)
  · intro g hg hlt
    change (s.segs nx).ord < (s.segs g).ord at hlt
    rw [ho] at hlt
    exact h.after g hg (by omega)

/-- the successful `CAS(tail.next, nil, g)` -/
theorem P2_link {s : Sh} (h : P2 s) (t g : Nat) (ht : (s.segs t).linked = true) (hfull : s.segSize ≤ (s.segs t).writeIdx)
    (hg : (s.segs g).linked = false) (hgn : g < s.nseg) (hnext : (s.segs t).next = none) : P2 (s.link t g) := by
  have htg : t ≠ g := by intro e; rw [e, hg] at ht; cases ht
  have hlast : t = s.last := h.eq_last ht hnext
  obtain ⟨ug1, ug2, ug3⟩ := h.unl g hg
  have old : ∀ j, (s.segs j).linked = true → j ≠ g := by intro j hj e; rw [e, hg] at hj; cases hj
  -- fields of an old linked segment other than t
  have keep : ∀ j, j ≠ t → j ≠ g → (s.link t g).segs j = s.segs j := fun j a b => link_seg_other s a b
  refine ⟨?_, ?_, ?_, ?_, ?_, ?_, ?_, ?_, ?_, ?_⟩
  · rw [link_last, link_seg_g s htg]; exact ⟨rfl, ug2⟩
  · intro x hx hne
    rw [link_last] at hne
    by_cases e : x = t
    · subst e
      rw [link_seg_t s htg]
      refine ⟨hfull, g, rfl, ?_, ?_⟩
      · rw [link_seg_g s htg]
      · rw [link_seg_g s htg]
    · rw [keep x e hne] at hx ⊢
      obtain ⟨a, nx, b, c, d⟩ := h.inner x hx (by rw [← hlast]; exact e)
      have hnx := old nx c
      refine ⟨a, nx, b, ?_, ?_⟩
      · exact (link_linked_mono s htg nx c).1
      · rw [(link_linked_mono s htg nx c).2 (Ne.symm hnx)]; exact d
  · intro x hx
    rw [link_last, link_seg_g s htg]
    show ((s.link t g).segs x).ord ≤ (s.segs t).ord + 1
    by_cases e : x = g
    · subst e; rw [link_seg_g s htg]; exact Nat.le_refl _
    · have hxl : (s.segs x).linked = true := by
        by_cases e2 : x = t
        · subst e2; exact ht
        · rw [keep x e2 e] at hx; exact hx
      rw [(link_linked_mono s htg x hxl).2 (Ne.symm e)]
      have := h.top x hxl; rw [← hlast] at this; omega
  · intro x y hx hy hxy
    have ordOf : ∀ z, ((s.link t g).segs z).linked = true → z ≠ g →
        (s.segs z).linked = true ∧ ((s.link t g).segs z).ord = (s.segs z).ord ∧ (s.segs z).ord ≤ (s.segs t).ord := by
      intro z hz hzg
      have hzl : (s.segs z).linked = true := by
        by_cases e2 : z = t
        · subst e2; exact ht
        · rw [keep z e2 hzg] at hz; exact hz
      refine ⟨hzl, (link_linked_mono s htg z hzl).2 (Ne.symm hzg), ?_⟩
      have := h.top z hzl; rw [← hlast] at this; exact this
    by_cases ex : x = g <;> by_cases ey : y = g
    · rw [ex, ey]
    · obtain ⟨_, b, c⟩ := ordOf y hy ey
      rw [ex, link_seg_g s htg, b] at hxy
      change (s.segs t).ord + 1 = (s.segs y).ord at hxy; omega
    · obtain ⟨_, b, c⟩ := ordOf x hx ex
      rw [ey, link_seg_g s htg, b] at hxy
      change (s.segs x).ord = (s.segs t).ord + 1 at hxy; omega
    · obtain ⟨a, b, _⟩ := ordOf x hx ex
      obtain ⟨a', b', _⟩ := ordOf y hy ey
      rw [b, b'] at hxy
      exact h.inj x y a a' hxy
  · intro x hx
    have hxg : x ≠ g := by intro e; rw [e, link_seg_g s htg] at hx; cases hx
    have hxt : x ≠ t := by intro e; rw [e, link_seg_t s htg] at hx; rw [ht] at hx; cases hx
    rw [keep x hxt hxg] at hx ⊢
    exact h.unl x hx
  · intro x hx
    rw [link_nseg]
    by_cases e : x = g
    · rw [e]; exact hgn
    · have hxl : (s.segs x).linked = true := by
        by_cases e2 : x = t
        · subst e2; exact ht
        · rw [keep x e2 e] at hx; exact hx
      exact h.alloc x hxl
  · rw [link_head]; exact (link_linked_mono s htg _ h.hd).1
  · rw [link_tail]; exact (link_linked_mono s htg _ h.tl).1
  · intro x hx hlt
    rw [link_head] at hlt
    have hhg := old _ h.hd
    rw [(link_linked_mono s htg _ h.hd).2 (Ne.symm hhg)] at hlt
    by_cases e : x = g
    · subst e
      rw [link_seg_g s htg] at hlt
      change (s.segs t).ord + 1 < (s.segs s.head).ord at hlt
      have := h.top _ h.hd; rw [← hlast] at this; omega
    · have hxl : (s.segs x).linked = true := by
        by_cases e2 : x = t
        · subst e2; exact ht
        · rw [keep x e2 e] at hx; exact hx
      rw [(link_linked_mono s htg x hxl).2 (Ne.symm e)] at hlt
      rw [(link_fields s t g x).2.1, link_segSize]
      exact h.before x hxl hlt
  · intro x hx hlt
    rw [link_head] at hlt
    have hhg := old _ h.hd
    rw [(link_linked_mono s htg _ h.hd).2 (Ne.symm hhg)] at hlt
    rw [(link_fields s t g x).2.1]
    by_cases e : x = g
    · subst e; exact ug3
    · have hxl : (s.segs x).linked = true := by
        by_cases e2 : x = t
        · subst e2; exact ht
        · rw [keep x e2 e] at hx; exact hx
      rw [(link_linked_mono s htg x hxl).2 (Ne.symm e)] at hlt
      exact h.after x hxl hlt

end GoaktVerif.C04.SegInv

/-
C04 — `UnboundedSegmentedMailbox`: the list of segments (ghost `linked` / `ord` / `last`): every linked
segment except the last is full and points to the segment one position later; unlinked segments are
untouched; the consumer has fully consumed the segments before `head` and not touched those after.
-/
import GoaktVerif.Lemmas.C04.SegMain

namespace GoaktVerif.C04.SegInv
open GoaktVerif.Model.C04 GoaktVerif.Model.C04.Segmented

structure P2 (s : Sh) : Prop where
  lastOK : (s.segs s.last).linked = true ∧ (s.segs s.last).next = none
  inner : ∀ g, (s.segs g).linked = true → g ≠ s.last → s.segSize ≤ (s.segs g).writeIdx ∧
    ∃ nx, (s.segs g).next = some nx ∧ (s.segs nx).linked = true ∧ (s.segs nx).ord = (s.segs g).ord + 1
  top : ∀ g, (s.segs g).linked = true → (s.segs g).ord ≤ (s.segs s.last).ord
  inj : ∀ g g', (s.segs g).linked = true → (s.segs g').linked = true → (s.segs g).ord = (s.segs g').ord → g = g'
  unl : ∀ g, (s.segs g).linked = false → (s.segs g).writeIdx = 0 ∧ (s.segs g).next = none ∧ (s.segs g).deqIdx = 0
  alloc : ∀ g, (s.segs g).linked = true → g < s.nseg
  hd : (s.segs s.head).linked = true
  tl : (s.segs s.tail).linked = true
  before : ∀ g, (s.segs g).linked = true → (s.segs g).ord < (s.segs s.head).ord → (s.segs g).deqIdx = s.segSize
  after : ∀ g, (s.segs g).linked = true → (s.segs s.head).ord < (s.segs g).ord → (s.segs g).deqIdx = 0

structure J2 (s : Sh) (t : Th) : Prop where
  e2 : ∀ v g, t.pc = some (.e2 v g) → (s.segs g).linked = true
  e3 : ∀ v g idx, t.pc = some (.e3 v g idx) → (s.segs g).linked = true
  e5 : ∀ v g, t.pc = some (.e5 v g) → (s.segs g).linked = true ∧ s.segSize ≤ (s.segs g).writeIdx
  e6 : ∀ v g g', t.pc = some (.e6 v g g') →
    (s.segs g).linked = true ∧ s.segSize ≤ (s.segs g).writeIdx ∧ (s.segs g').linked = false ∧ g' < s.nseg
  e7 : ∀ v g g', t.pc = some (.e7 v g g') → (s.segs g').linked = true
  e9 : ∀ v g nx, t.pc = some (.e9 v g nx) → (s.segs nx).linked = true
  d9 : ∀ seg nx, t.pc = some (.d9 seg nx) → (s.segs seg).next = some nx

/-- two producers never hold the same freshly allocated segment -/
def K2 (ti tj : Th) : Prop :=
  ∀ v g g' v' h h', ti.pc = some (.e6 v g g') → tj.pc = some (.e6 v' h h') → g' ≠ h'

/-- the non-last linked segment `g` has a successor, which is linked and one position later -/
theorem P2.next_linked {s : Sh} (h2 : P2 s) {g nx : Nat} (hl : (s.segs g).linked = true) (hn : (s.segs g).next = some nx) :
    (s.segs nx).linked = true ∧ (s.segs nx).ord = (s.segs g).ord + 1 ∧ s.segSize ≤ (s.segs g).writeIdx := by
  have hne : g ≠ s.last := by
    intro e; rw [e, h2.lastOK.2] at hn; cases hn
  obtain ⟨hw, nx', h1, h3, h4⟩ := h2.inner g hl hne
  rw [hn] at h1; injection h1 with h1; subst h1
  exact ⟨h3, h4, hw⟩

/-- a linked segment whose `next` is nil is the last one -/
theorem P2.eq_last {s : Sh} (h2 : P2 s) {g : Nat} (hl : (s.segs g).linked = true) (hn : (s.segs g).next = none) : g = s.last := by
  by_cases e : g = s.last
  · exact e
  · obtain ⟨_, nx, h1, _⟩ := h2.inner g hl e
    rw [hn] at h1; cases h1

/-- a linked segment that is not yet full is the last one -/
theorem P2.eq_last_of_room {s : Sh} (h2 : P2 s) {g : Nat} (hl : (s.segs g).linked = true)
    (hw : (s.segs g).writeIdx < s.segSize) : g = s.last := by
  by_cases e : g = s.last
  · exact e
  · have := (h2.inner g hl e).1; omega

/-! ### fields after the linking step (t linked, g unlinked, hence t ≠ g) -/

theorem link_seg_t (s : Sh) {t g : Nat} (h : t ≠ g) : (s.link t g).segs t = { s.segs t with next := some g } := by
  unfold Sh.link Sh.upd; simp [h]

theorem link_seg_g (s : Sh) {t g : Nat} (h : t ≠ g) :
    (s.link t g).segs g = { s.segs g with linked := true, ord := (s.segs t).ord + 1 } := by
  unfold Sh.link Sh.upd; simp [Ne.symm h]

theorem link_seg_other (s : Sh) {t g j : Nat} (h1 : j ≠ t) (h2 : j ≠ g) : (s.link t g).segs j = s.segs j := by
  unfold Sh.link Sh.upd; simp [h1, h2]

theorem link_last (s : Sh) (t g : Nat) : (s.link t g).last = g := rfl
theorem link_nseg (s : Sh) (t g : Nat) : (s.link t g).nseg = s.nseg := rfl
theorem link_tail (s : Sh) (t g : Nat) : (s.link t g).tail = s.tail := rfl

/-- linked flags only grow, positions of linked segments are kept -/
theorem link_linked_mono (s : Sh) {t g : Nat} (h : t ≠ g) (j : Nat) (hl : (s.segs j).linked = true) :
    ((s.link t g).segs j).linked = true ∧ (g ≠ j → ((s.link t g).segs j).ord = (s.segs j).ord) := by
  by_cases e1 : j = g
  · subst e1; rw [link_seg_g s h]; exact ⟨rfl, fun e => absurd rfl e⟩
  · by_cases e2 : j = t
    · subst e2; rw [link_seg_t s h]; exact ⟨hl, fun _ => rfl⟩
    · rw [link_seg_other s e2 e1]; exact ⟨hl, fun _ => rfl⟩

end GoaktVerif.C04.SegInv

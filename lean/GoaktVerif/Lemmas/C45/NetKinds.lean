/-
C45 lemmas, part 12: any per-node attribute that `Node.step` keeps is kept along every run
(used for "which node is the unordered ParallelMap, and with which parameters").
-/
import GoaktVerif.Lemmas.C45.NetInit

namespace GoaktVerif.C45
open GoaktVerif.Model.C45

/-- the parameters of an unordered ParallelMap node -/
def ukind : Node → Option (Int × Option Int × Err)
  | .pmap false _ k bad e _ => some (k, bad, e)
  | _ => none

theorem step_ukind (nd : Node) (ev : Ev) : ukind (nd.step ev).1 = ukind nd := by
  unfold Node.step
  split
  · rfl
  · cases nd with
    | pmap o w k b e s => cases o <;> rfl
    | src s => rfl
    | flow c st s => rfl
    | fused c fs s => rfl
    | batch c n s => rfl
    | sink c s => rfl

theorem isUnord_eq_ukind (nd : Node) : isUnord nd = (ukind nd).isSome := by
  cases nd with
  | pmap o w k b e s => cases o <;> rfl
  | src s => rfl
  | flow c st s => rfl
  | fused c fs s => rfl
  | batch c n s => rfl
  | sink c s => rfl

theorem ukind_some {nd : Node} {k : Int} {bad : Option Int} {e : Err} (h : ukind nd = some (k, bad, e)) :
    ∃ w st, nd = .pmap false w k bad e st := by
  cases nd with
  | pmap o w k' b e' s =>
    cases o with
    | false => simp only [ukind, Option.some.injEq, Prod.mk.injEq] at h; obtain ⟨rfl, rfl, rfl⟩ := h; exact ⟨w, s, rfl⟩
    | true => simp [ukind] at h
  | src s => simp [ukind] at h
  | flow c st s => simp [ukind] at h
  | fused c fs s => simp [ukind] at h
  | batch c n s => simp [ukind] at h
  | sink c s => simp [ukind] at h

def kindsOf (net : Net) : List (Option (Int × Option Int × Err)) := net.nodes.map ukind

theorem kindsOf_deliver (net : Net) (k : Nat) (ev : Ev) : kindsOf (net.deliver k ev) = kindsOf net := by
  unfold Net.deliver kindsOf
  cases hn : net.nodes[k]? with
  | none => rfl
  | some nd =>
    simp only
    apply List.ext_getElem?
    intro j
    simp only [List.getElem?_map, List.getElem?_set]
    by_cases hkj : k = j
    · subst hkj
      have hk := getElem?_lt hn
      have hget : net.nodes[k] = nd := by
        have := List.getElem?_eq_getElem hk; rw [hn] at this; exact (Option.some.inj this).symm
      simp [hk, hget, step_ukind nd ev]
    · simp [hkj]

theorem kindsOf_step {net net' : Net} (p : Pick) (h : net.step p = some net') : kindsOf net' = kindsOf net := by
  cases p with
  | down i =>
    simp only [Net.step] at h
    cases hl : net.links[i]? with
    | none => simp [hl] at h
    | some l =>
      simp only [hl] at h
      cases hd : l.hist[l.pos]? with
      | none => simp [hd] at h
      | some d =>
        simp only [hd] at h
        by_cases ha : net.aliveAt (i + 1) = true
        · simp only [ha, Bool.not_true, Bool.false_eq_true, if_false, Option.some.injEq] at h
          rw [← h, kindsOf_deliver]; rfl
        · simp [ha] at h
  | up i =>
    simp only [Net.step] at h
    cases hl : net.links[i]? with
    | none => simp [hl] at h
    | some l =>
      simp only [hl] at h
      cases hq : l.upq with
      | nil => simp [hq] at h
      | cons u rest =>
        simp only [hq] at h
        by_cases ha : net.aliveAt i = true
        · simp only [ha, Bool.not_true, Bool.false_eq_true, if_false, Option.some.injEq] at h
          rw [← h, kindsOf_deliver]; rfl
        · simp [ha] at h
  | result i q =>
    simp only [Net.step] at h
    split at h
    · rename_i o w k bad e st hn
      by_cases ha : st.alive = true
      · simp only [ha, Bool.not_true, Bool.false_eq_true, if_false] at h
        split at h
        · simp only [Option.some.injEq] at h; rw [← h, kindsOf_deliver]
        · simp at h
      · simp [ha] at h
    · simp at h

theorem kindsOf_run (net : Net) (picks : List Pick) : kindsOf (net.run picks) = kindsOf net := by
  induction picks generalizing net with
  | nil => rfl
  | cons p ps ih =>
    simp only [Net.run]
    cases hs : net.step p with
    | some n => rw [ih n, kindsOf_step p hs]
    | none => exact ih net

theorem kindsOf_wireAll (k : Nat) (net : Net) : kindsOf (wireAll k net) = kindsOf net := by
  induction k with
  | zero => rfl
  | succ k ih => simp only [wireAll]; rw [kindsOf_deliver, ih]

end GoaktVerif.C45

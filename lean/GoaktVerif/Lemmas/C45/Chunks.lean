/-
C45 lemmas, part 13: the spec's `chunks` against windows cut off at the front.
-/
import GoaktVerif.Spec.C45

namespace GoaktVerif.C45
open GoaktVerif.Spec.C45

/-- the size of a full batch: `max maxSize 1` -/
def bsize (n : Nat) : Nat := max n 1

theorem bsize_pos (n : Nat) : 0 < bsize n := by unfold bsize; omega
theorem bsize_ge (n : Nat) : n ≤ bsize n := by unfold bsize; omega

/-- filling the accumulator up to exactly one full batch emits it -/
theorem chunksAux_fill (n : Nat) (acc c b : List Int) (hc : c ≠ [])
    (hlen : acc.length + c.length = bsize n) :
    chunksAux n acc (c ++ b) = (acc ++ c) :: chunksAux n [] b := by
  induction c generalizing acc with
  | nil => exact absurd rfl hc
  | cons x c ih =>
    simp only [List.cons_append, chunksAux]
    by_cases hc' : c = []
    · subst hc'
      have : (acc ++ [x]).length ≥ n := by
        have := bsize_ge n; simp at hlen ⊢; omega
      simp only [this, if_true, List.nil_append]
    · have hlt : ¬ (acc ++ [x]).length ≥ n := by
        have hcl : 0 < c.length := List.length_pos_iff.mpr hc'
        simp only [List.length_cons] at hlen
        simp only [List.length_append, List.length_singleton]
        unfold bsize at hlen
        omega
      simp only [hlt, if_false]
      have := ih (acc ++ [x]) hc' (by simp at hlen ⊢; omega)
      simpa [List.append_assoc] using this

/-- one full batch at the front of the list is the first chunk -/
theorem chunks_full (n : Nat) (c b : List Int) (hlen : c.length = bsize n) :
    chunks n (c ++ b) = c :: chunks n b := by
  have hc : c ≠ [] := by
    intro h; subst h; have := bsize_pos n; simp at hlen; omega
  have := chunksAux_fill n [] c b hc (by simpa using hlen)
  simpa [chunks] using this

/-- fewer elements than a full batch: emitted as the one final, shorter chunk -/
theorem chunksAux_short (n : Nat) (acc w : List Int) (hlen : acc.length + w.length < bsize n) :
    chunksAux n acc w = if (acc ++ w).isEmpty then [] else [acc ++ w] := by
  induction w generalizing acc with
  | nil => simp [chunksAux]
  | cons x w ih =>
    simp only [chunksAux]
    have hlt : ¬ (acc ++ [x]).length ≥ n := by
      simp only [List.length_cons] at hlen
      simp only [List.length_append, List.length_singleton]
      unfold bsize at hlen
      omega
    simp only [hlt, if_false]
    have := ih (acc ++ [x]) (by simp at hlen ⊢; omega)
    simpa [List.append_assoc] using this

theorem chunks_short (n : Nat) (w : List Int) (hlen : w.length < bsize n) (hw : w ≠ []) :
    chunks n w = [w] := by
  have := chunksAux_short n [] w (by simpa using hlen)
  simp only [chunks, this, List.nil_append]
  cases w with
  | nil => exact absurd rfl hw
  | cons a l => rfl

theorem chunks_nil (n : Nat) : chunks n [] = [] := rfl

end GoaktVerif.C45

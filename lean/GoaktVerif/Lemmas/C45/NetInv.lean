/-
C45 lemmas, part 8: the network invariant — every stage satisfies its content specification
against the prefix of its upstream link it has handled — is preserved by every scheduler step.
Covered node kinds: source, flowActor stages, fused stages, sink (`middleOK`).
-/
import GoaktVerif.Lemmas.C45.NetBasics
import GoaktVerif.Lemmas.C45.Nodes
import GoaktVerif.Lemmas.C45.Sink
import GoaktVerif.Lemmas.C45.Batch
import GoaktVerif.Lemmas.C45.PMapStep
import GoaktVerif.Lemmas.C45.PMapU

namespace GoaktVerif.C45
open GoaktVerif.Model.C45

def middleOK : Node → Bool
  | .flow _ _ _ | .fused _ _ _ | .batch _ _ _ | .pmap _ _ _ _ _ _ => true
  | _ => false

def MidInv : Node → List Down → List Down → Prop
  | .flow _ st s, ins, outs => FlowInv st s ins outs
  | .fused _ fs s, ins, outs => FusedInv fs s ins outs
  | .batch _ n s, ins, outs => BatchInv n s ins outs
  | .pmap true _ k bad e s, ins, outs => PInv k bad e s ins outs
  | .pmap false _ k bad e s, ins, outs => PInvU k bad e s ins outs
  | _, _, _ => False

def midF : Node → SemFn
  | .flow _ st _ => xfRun st {}
  | .fused _ fs _ => fusedRun fs
  | .batch _ n _ => GoaktVerif.Spec.C45.stageSem (.batch n)
  | .pmap _ _ k bad e _ => parRun k bad e
  | _ => fun xs => (xs, none)

/-- parallel stages: their error clause needs homogeneous ideal inputs -/
def isPar : Node → Bool
  | .pmap _ _ _ _ _ _ => true
  | _ => false

/-- the unordered ParallelMap: its outputs are specified as a multiset -/
def isUnord : Node → Bool
  | .pmap false _ _ _ _ _ => true
  | _ => false

/-- the content specification of a middle node: `SpecM` (ordered), `SpecU` for the unordered parallel stage -/
def NodeSpec (P : List Val → Prop) : Node → List Down → List Down → Prop
  | .pmap false _ k bad e _, ins, outs => SpecU k bad e P ins outs
  | nd, ins, outs => SpecM P (midF nd) ins outs

theorem NodeSpec.extend {P : List Val → Prop} {nd : Node} {ins outs : List Down} (h : NodeSpec P nd ins outs)
    (t : List Down) : NodeSpec P nd (ins ++ t) outs := by
  cases nd with
  | pmap o w k b e s =>
    cases o with
    | false => exact SpecU.extend k b e h t
    | true => exact SpecM.extend h t
  | src s => exact SpecM.extend h t
  | flow c st s => exact SpecM.extend h t
  | fused c fs s => exact SpecM.extend h t
  | batch c n s => exact SpecM.extend h t
  | sink c s => exact SpecM.extend h t

theorem NodeSpec.wfOut {P : List Val → Prop} {nd : Node} {ins outs : List Down} (h : NodeSpec P nd ins outs) :
    wf outs = true := by
  cases nd with
  | pmap o w k b e s =>
    cases o with
    | false => exact SpecU.wfOut h
    | true => exact SpecM.wfOut h
  | src s => exact SpecM.wfOut h
  | flow c st s => exact SpecM.wfOut h
  | fused c fs s => exact SpecM.wfOut h
  | batch c n s => exact SpecM.wfOut h
  | sink c s => exact SpecM.wfOut h

theorem NodeSpec.specM {P : List Val → Prop} {nd : Node} {ins outs : List Down} (h : NodeSpec P nd ins outs)
    (hu : isUnord nd = false) : SpecM P (midF nd) ins outs := by
  cases nd with
  | pmap o w k b e s =>
    cases o with
    | false => simp [isUnord] at hu
    | true => exact h
  | src s => exact h
  | flow c st s => exact h
  | fused c fs s => exact h
  | batch c n s => exact h
  | sink c s => exact h

theorem MidInv.specM {P : List Val → Prop} {nd : Node} {ins outs : List Down} (h : MidInv nd ins outs)
    (hp : (∀ X, P X → Homog X) ∨ isPar nd = false) : NodeSpec P nd ins outs := by
  cases nd with
  | flow c st s => exact FlowInv.specM h
  | fused c fs s => exact FusedInv.specM h
  | src s => exact h.elim
  | batch c n s => exact BatchInv.specM h
  | pmap o w k b e s =>
    cases o with
    | false =>
      rcases hp with hp | hp
      · exact SpecU.weaken k b e hp (PInvU.specU k b e h)
      · simp [isPar] at hp
    | true =>
      rcases hp with hp | hp
      · exact SpecM.weaken hp (PInv.specM k b e h)
      · simp [isPar] at hp
  | sink c s => exact h.elim

/-- stepping keeps the kind and the semantic function of a node -/
theorem step_midF (nd : Node) (ev : Ev) : midF (nd.step ev).1 = midF nd ∧ middleOK (nd.step ev).1 = middleOK nd := by
  unfold Node.step
  split
  · exact ⟨rfl, rfl⟩
  · cases nd with
    | pmap o w k b e s => cases o <;> exact ⟨rfl, rfl⟩
    | src s => exact ⟨rfl, rfl⟩
    | flow c st s => exact ⟨rfl, rfl⟩
    | fused c fs s => exact ⟨rfl, rfl⟩
    | batch c n s => exact ⟨rfl, rfl⟩
    | sink c s => exact ⟨rfl, rfl⟩

theorem step_isPar (nd : Node) (ev : Ev) : isPar (nd.step ev).1 = isPar nd := by
  unfold Node.step
  split
  · rfl
  · cases nd <;> rfl

theorem maybeReq_no_cancel (cfg : Cfg) (s : FlowSt) : Up.cancel ∉ (s.maybeReq cfg).2 := by
  unfold FlowSt.maybeReq
  dsimp only
  repeat' split
  all_goals simp

theorem flow_cancel_dies (cfg : Cfg) (st : Stage) (s : FlowSt) (ev : Ev)
    (h : Up.cancel ∈ (flowStep cfg st s ev).2.up) : (flowStep cfg st s ev).1.alive = false := by
  cases ev with
  | wire => simp [flowStep] at h
  | flush => simp [flowStep] at h
  | result q r => simp [flowStep] at h
  | up u =>
    cases u with
    | req n => simp only [flowStep] at h; exact absurd h (maybeReq_no_cancel _ _)
    | cancel => simp [flowStep]
  | down d =>
    cases d with
    | elem v =>
      simp only [flowStep] at h ⊢
      cases hx : xfStep st s.ts v with
      | error e => simp
      | ok p => obtain ⟨ts', ys⟩ := p; simp only [hx] at h; exact absurd h (maybeReq_no_cancel _ _)
    | complete => simp only [flowStep] at h; split at h <;> simp at h
    | error e => simp [flowStep]

theorem fused_cancel_dies (cfg : Cfg) (fs : List Stage) (s : FusedSt) (ev : Ev)
    (h : Up.cancel ∈ (fusedStep cfg fs s ev).2.up) : (fusedStep cfg fs s ev).1.alive = false := by
  cases ev with
  | wire => simp [fusedStep] at h
  | flush => simp [fusedStep] at h
  | result q r => simp [fusedStep] at h
  | up u =>
    cases u with
    | req n => simp only [fusedStep] at h; split at h <;> simp at h
    | cancel => simp [fusedStep]
  | down d =>
    cases d with
    | elem v =>
      simp only [fusedStep] at h ⊢
      cases hx : fusedFn fs v with
      | error e => simp
      | ok r => simp only [hx] at h; split at h <;> simp at h
    | complete => simp [fusedStep]
    | error e => simp [fusedStep]

theorem batch_cancel_dies (cfg : Cfg) (n : Nat) (s : BatchSt) (ev : Ev)
    (h : Up.cancel ∈ (batchStep cfg n s ev).2.up) : (batchStep cfg n s ev).1.alive = false := by
  cases ev with
  | wire => simp [batchStep] at h
  | flush => simp [batchStep] at h
  | result q r => simp [batchStep] at h
  | up u =>
    cases u with
    | req k =>
      simp only [batchStep] at h
      split at h
      · simp at h
      · exact absurd h (batch_maybeReq_spec _ _).2.2.2.2
    | cancel => simp [batchStep]
  | down d =>
    cases d with
    | elem v =>
      cases v with
      | int x => simp only [batchStep] at h; exact absurd h (batch_maybeReq_spec _ _).2.2.2.2
      | list l => simp [batchStep]
    | complete => simp only [batchStep] at h; split at h <;> simp at h
    | error e => simp [batchStep]

theorem sink_cancel_dies (cfg : Cfg) (s : SinkSt) (ev : Ev)
    (h : Up.cancel ∈ (sinkStep cfg s ev).2.up) : (sinkStep cfg s ev).1.alive = false := by
  cases ev with
  | wire => simp [sinkStep] at h
  | flush => simp [sinkStep] at h
  | result q r => simp [sinkStep] at h
  | up u => simp [sinkStep] at h
  | down d =>
    cases d with
    | elem v => simp only [sinkStep] at h; split at h <;> simp at h
    | complete => simp [sinkStep] at h
    | error e => simp [sinkStep, SinkSt.shutdown]

/-- the specification of a node does not depend on its (changing) state -/
theorem nodeSpec_step {P : List Val → Prop} (nd : Node) (ev : Ev) (ins outs : List Down) :
    NodeSpec P (nd.step ev).1 ins outs ↔ NodeSpec P nd ins outs := by
  unfold Node.step
  split
  · exact Iff.rfl
  · cases nd with
    | pmap o w k b e s => cases o <;> exact Iff.rfl
    | src s => exact Iff.rfl
    | flow c st s => exact Iff.rfl
    | fused c fs s => exact Iff.rfl
    | batch c n s => exact Iff.rfl
    | sink c s => exact Iff.rfl

/-! ### node-kind independent step lemmas -/

theorem MidInv.alive_of {nd : Node} (hok : middleOK nd = true) : True := trivial

theorem MidInv.step_down {nd : Node} {ins outs : List Down} (d : Down) (h : MidInv nd ins outs)
    (ha : nd.alive = true) (hw : wf (ins ++ [d]) = true) :
    MidInv (nd.step (.down d)).1 (ins ++ [d]) (outs ++ (nd.step (.down d)).2.down) := by
  cases nd with
  | flow c st s =>
    have ha' : s.alive = true := ha
    simp only [Node.step, Node.alive, ha', Bool.not_true, Bool.false_eq_true, if_false]
    exact FlowInv.step c (.down d) h ha' (by simpa [evDown] using hw)
  | fused c fs s =>
    have ha' : s.alive = true := ha
    simp only [Node.step, Node.alive, ha', Bool.not_true, Bool.false_eq_true, if_false]
    exact FusedInv.step_down c d h ha' hw
  | src s => exact h.elim
  | batch c n s =>
    have ha' : s.alive = true := ha
    simp only [Node.step, Node.alive, ha', Bool.not_true, Bool.false_eq_true, if_false]
    exact BatchInv.step_down c d h ha' hw
  | pmap o w k b e s =>
    cases o with
    | false =>
      have ha' : s.alive = true := ha
      simp only [Node.step, Node.alive, ha', Bool.not_true, Bool.false_eq_true, if_false]
      exact PInvU.step_down k b e w d h ha' hw
    | true =>
      have ha' : s.alive = true := ha
      simp only [Node.step, Node.alive, ha', Bool.not_true, Bool.false_eq_true, if_false]
      exact PInv.step_down k b e w d h ha' hw
  | sink c s => exact h.elim

theorem MidInv.step_req {nd : Node} {ins outs : List Down} (n : Int) (h : MidInv nd ins outs)
    (ha : nd.alive = true) :
    MidInv (nd.step (.up (.req n))).1 ins (outs ++ (nd.step (.up (.req n))).2.down) := by
  cases nd with
  | flow c st s =>
    have ha' : s.alive = true := ha
    simp only [Node.step, Node.alive, ha', Bool.not_true, Bool.false_eq_true, if_false]
    exact FlowInv.step_req c n h ha'
  | fused c fs s =>
    have ha' : s.alive = true := ha
    simp only [Node.step, Node.alive, ha', Bool.not_true, Bool.false_eq_true, if_false]
    exact FusedInv.step_other c (.up (.req n)) h (fun d => by simp) (by simp)
  | src s => exact h.elim
  | batch c m s =>
    have ha' : s.alive = true := ha
    simp only [Node.step, Node.alive, ha', Bool.not_true, Bool.false_eq_true, if_false]
    exact BatchInv.step_req c n h ha'
  | pmap o w k b e s =>
    cases o with
    | false =>
      have ha' : s.alive = true := ha
      simp only [Node.step, Node.alive, ha', Bool.not_true, Bool.false_eq_true, if_false]
      exact PInvU.step_req k b e w n h
    | true =>
      have ha' : s.alive = true := ha
      simp only [Node.step, Node.alive, ha', Bool.not_true, Bool.false_eq_true, if_false]
      exact PInv.step_req k b e w n h
  | sink c s => exact h.elim

theorem MidInv.wfOut {nd : Node} {ins outs : List Down} (h : MidInv nd ins outs) : wf outs = true :=
  NodeSpec.wfOut (MidInv.specM (P := Homog) h (Or.inl fun _ hX => hX))

/-- a worker's reply at an ordered parallel stage -/
theorem MidInv.step_result {o : Bool} {w : Nat} {k : Int} {b : Option Int} {e : Err} {s : PMapSt}
    {ins outs : List Down} (t : Nat × Val) (h : MidInv (.pmap o w k b e s) ins outs) (ha : s.alive = true)
    (ht : t ∈ s.outst) :
    MidInv ((Node.pmap o w k b e s).step (.result t.1 (parFn k b e t.2))).1 ins
      (outs ++ ((Node.pmap o w k b e s).step (.result t.1 (parFn k b e t.2))).2.down) := by
  cases o with
  | false =>
    simp only [Node.step, Node.alive, ha, Bool.not_true, Bool.false_eq_true, if_false]
    exact PInvU.step_result k b e w t h ha ht
  | true =>
    simp only [Node.step, Node.alive, ha, Bool.not_true, Bool.false_eq_true, if_false]
    exact PInv.step_result k b e w t h ha ht

theorem pmap_cancel_dies (o : Bool) (w : Nat) (s : PMapSt) (ev : Ev)
    (h : Up.cancel ∈ (pmapStep o w s ev).2.up) : (pmapStep o w s ev).1.alive = false := by
  cases ev with
  | wire => simp [pmapStep] at h
  | flush => simp [pmapStep] at h
  | up u =>
    cases u with
    | req n => simp only [pmapStep] at h; split at h <;> simp at h
    | cancel => simp [pmapStep]
  | down d =>
    cases d with
    | elem v => cases v <;> simp [pmapStep] at h ⊢
    | complete => simp only [pmapStep] at h; split at h <;> simp at h
    | error er => simp [pmapStep]
  | result q r =>
    cases r with
    | error er => simp [pmapStep]
    | ok v =>
      exfalso
      simp only [pmapStep] at h
      split at h <;> (split at h <;> simp at h)

/-- nodes of the covered kinds stop in the step in which they send a cancel upstream -/
theorem covered_step (nd : Node) (ev : Ev)
    (_hk : middleOK nd = true ∨ (∃ s, nd = .src s) ∨ (∃ c s, nd = .sink c s)) :
    Up.cancel ∈ (nd.step ev).2.up → (nd.step ev).1.alive = false := by
  unfold Node.step
  by_cases ha : nd.alive = true
  · simp only [ha, Bool.not_true, Bool.false_eq_true, if_false]
    cases nd with
    | flow c st s => exact flow_cancel_dies c st s ev
    | fused c fs s => exact fused_cancel_dies c fs s ev
    | src s =>
      intro h
      cases ev with
      | up u =>
        cases u with
        | req n => simp only [srcStep] at h; split at h <;> (try split at h) <;> simp at h
        | cancel => simp [srcStep] at h
      | wire => simp [srcStep] at h
      | flush => simp [srcStep] at h
      | result q r => simp [srcStep] at h
      | down d => simp [srcStep] at h
    | sink c s => exact sink_cancel_dies c s ev
    | batch c n s => exact batch_cancel_dies c n s ev
    | pmap o w k b e s => exact pmap_cancel_dies o w s ev
  · simp [ha]

/-! ### the invariant -/

structure GInv (P : List Val → Prop) (input : List Val) (net : Net) : Prop where
  len : net.links.length + 1 = net.nodes.length
  two : 2 ≤ net.nodes.length
  notasks : net.tasks = []
  posle : ∀ j, pos net j ≤ (hist net j).length
  wfh : ∀ j, wf (hist net j) = true
  src : ∃ s, net.nodes[0]? = some (.src s) ∧ Approx (hist net 0) input [] ∧
    (net.aliveAt 1 = true → SrcInv input s (hist net 0))
  mid : ∀ i nd, 0 < i → i + 1 < net.nodes.length → net.nodes[i]? = some nd →
    middleOK nd = true ∧ NodeSpec P nd (insOf net i) (hist net i) ∧
    (net.aliveAt (i + 1) = true → MidInv nd (insOf net i) (hist net i))
  sink : ∃ c s, net.nodes[net.nodes.length - 1]? = some (.sink c s) ∧
    SinkInv s (insOf net (net.nodes.length - 1))
  cancel : ∀ j, Up.cancel ∈ upq net j → net.aliveAt (j + 1) = false
  /-- parallel stages need homogeneous ideal inputs for their error clause -/
  par : (∀ X, P X → Homog X) ∨ ∀ (j : Nat) (nd : Node), net.nodes[j]? = some nd → isPar nd = false

theorem aliveAt_set (net : Net) (i j : Nat) (nd : Node) (hi : i < net.nodes.length) :
    ({ net with nodes := net.nodes.set i nd } : Net).aliveAt j = if j = i then nd.alive else net.aliveAt j := by
  unfold Net.aliveAt
  simp only [List.getElem?_set]
  by_cases h : i = j
  · subst h; simp [hi]
  · have : ¬ j = i := fun hh => h hh.symm
    simp [h, this]

theorem take_succ_of_get {α : Type} (l : List α) (k : Nat) (d : α) (h : l[k]? = some d) :
    l.take (k + 1) = l.take k ++ [d] := by
  rw [List.take_succ, h]; rfl

theorem take_append_of_le {α : Type} (l t : List α) (k : Nat) (h : k ≤ l.length) :
    (l ++ t).take k = l.take k := by
  rw [List.take_append_of_le_length h]

/-- the list of semantic functions of the nodes (static: a step never changes a node's kind or parameters) -/
def semsOf (net : Net) : List SemFn := net.nodes.map midF

/-- the frame of a node step: how the observable components of the net change when node `k` handles `ev`
    after the scheduler has removed the message from its queue (`net1`) -/
structure Frame (net net' : Net) (k : Nat) (nd : Node) (ev : Ev) (dpos : Nat → Nat) : Prop where
  nodes : ∀ j, net'.nodes[j]? = if j = k then some (nd.step ev).1 else net.nodes[j]?
  nlen : net'.nodes.length = net.nodes.length
  llen : net'.links.length = net.links.length
  alive : ∀ j, net'.aliveAt j = if j = k then (nd.step ev).1.alive else net.aliveAt j
  hist : ∀ j, hist net' j =
    if j = k ∧ net.aliveAt (k + 1) = true ∧ k < net.links.length then hist net j ++ (nd.step ev).2.down
    else hist net j
  pos : ∀ j, pos net' j = dpos j
  upq : ∀ j, ∀ x ∈ upq net' j, x ∈ upq net j ∨ (j + 1 = k ∧ x ∈ (nd.step ev).2.up)
  tasks : net'.tasks = net.tasks

/-- a net that differs from `net` only in the `pos`/`upq` of its links -/
structure SameBut (net net1 : Net) (dpos : Nat → Nat) : Prop where
  nodes : net1.nodes = net.nodes
  tasks : net1.tasks = net.tasks
  llen : net1.links.length = net.links.length
  hist : ∀ j, hist net1 j = hist net j
  pos : ∀ j, pos net1 j = dpos j
  upq : ∀ j, ∀ x ∈ upq net1 j, x ∈ upq net j

theorem frame_of_deliver {net net1 : Net} {k : Nat} {nd : Node} {ev : Ev} {dpos : Nat → Nat}
    (hs : SameBut net net1 dpos) (hn : net.nodes[k]? = some nd) :
    Frame net (net1.deliver k ev) k nd ev dpos := by
  have hn1 : net1.nodes[k]? = some nd := by rw [hs.nodes]; exact hn
  have he := deliver_effect net1 k nd ev hn1
  have hk : k < net.nodes.length := by
    apply Classical.byContradiction; intro hge
    rw [List.getElem?_eq_none (by omega)] at hn; simp at hn
  have hal : ∀ j, net1.aliveAt j = net.aliveAt j := by intro j; simp [Net.aliveAt, hs.nodes]
  refine ⟨?_, ?_, ?_, ?_, ?_, ?_, ?_, ?_⟩
  · intro j
    rw [he.nodes, hs.nodes, List.getElem?_set]
    by_cases h : k = j
    · subst h; simp [hk]
    · have : ¬ j = k := fun hh => h hh.symm
      simp [h, this]
  · rw [he.nodes, hs.nodes]; simp
  · rw [he.len, hs.llen]
  · intro j
    have := aliveAt_set net k j (nd.step ev).1 hk
    unfold Net.aliveAt at this ⊢
    rw [he.nodes, hs.nodes]
    simpa using this
  · intro j; rw [he.hist, hs.hist, hal, hs.llen]
  · intro j; rw [he.pos, hs.pos]
  · intro j x hx
    rw [he.upq] at hx
    split at hx
    · rename_i hc
      rcases List.mem_append.mp hx with h | h
      · exact Or.inl (hs.upq j x h)
      · exact Or.inr ⟨hc.1, h⟩
    · exact Or.inl (hs.upq j x hx)
  · rw [he.tasks, hs.tasks]

theorem insOf_frame {net net' : Net} {k : Nat} {nd : Node} {ev : Ev} {dpos : Nat → Nat}
    (hf : Frame net net' k nd ev dpos) (hle : ∀ j, dpos j ≤ (hist net j).length) (j : Nat) (hj : 1 ≤ j) :
    insOf net' j = (hist net (j - 1)).take (dpos (j - 1)) := by
  unfold insOf
  rw [hf.pos, hf.hist]
  split
  · rw [List.take_append_of_le_length (hle _)]
  · rfl

/-- global bookkeeping: the invariant of the stepped net follows from the frame and the stepping node's own obligations -/
theorem GInv.of_frame {P : List Val → Prop} {input : List Val} {net net' : Net} {k : Nat} {nd : Node} {ev : Ev} {dpos : Nat → Nat}
    (h : GInv P input net) (hf : Frame net net' k nd ev dpos) (hn : net.nodes[k]? = some nd)
    (ha : net.aliveAt k = true)
    (hle : ∀ j, dpos j ≤ (hist net j).length)
    (hins : ∀ j, j ≠ k → 1 ≤ j → (hist net (j - 1)).take (dpos (j - 1)) = insOf net j)
    (_hnotask : True)
    (hcancelOut : Up.cancel ∈ (nd.step ev).2.up → (nd.step ev).1.alive = false)
    (hwf : wf (hist net' k) = true)
    (hsrc : k = 0 → ∀ s, nd = .src s → ∃ s', (nd.step ev).1 = .src s' ∧ Approx (hist net' 0) input [] ∧
        (net'.aliveAt 1 = true → SrcInv input s' (hist net' 0)))
    (hmid : 0 < k → k + 1 < net.nodes.length →
        NodeSpec P nd ((hist net (k - 1)).take (dpos (k - 1))) (hist net' k) ∧
        (net'.aliveAt (k + 1) = true → MidInv (nd.step ev).1 ((hist net (k - 1)).take (dpos (k - 1))) (hist net' k)))
    (hsink : k + 1 = net.nodes.length → ∀ c s, nd = .sink c s → ∃ s', (nd.step ev).1 = .sink c s' ∧
        SinkInv s' ((hist net (k - 1)).take (dpos (k - 1)))) :
    GInv P input net' := by
  have hk : k < net.nodes.length := by
    apply Classical.byContradiction; intro hge
    rw [List.getElem?_eq_none (by omega)] at hn; simp at hn
  have hother : ∀ j, j ≠ k → hist net' j = hist net j := by
    intro j hj; rw [hf.hist]; simp [hj]
  refine ⟨by rw [hf.llen, hf.nlen]; exact h.len, by rw [hf.nlen]; exact h.two, ?_, ?_, ?_, ?_, ?_, ?_, ?_, ?_⟩
  · rw [hf.tasks, h.notasks]
  · intro j
    rw [hf.pos, hf.hist]
    split
    · rw [List.length_append]; have := hle j; omega
    · exact hle j
  · intro j
    by_cases hj : j = k
    · subst hj; exact hwf
    · rw [hother j hj]; exact h.wfh j
  · -- source
    obtain ⟨s, hs0, hap, hsi⟩ := h.src
    by_cases hk0 : k = 0
    · subst hk0
      have : nd = .src s := by rw [hs0] at hn; exact (Option.some.inj hn).symm
      obtain ⟨s', h1, h2, h3⟩ := hsrc rfl s this
      exact ⟨s', by rw [hf.nodes]; simp [h1], h2, h3⟩
    · refine ⟨s, by rw [hf.nodes]; simp [hs0]; intro h0; exact absurd h0.symm hk0, by rw [hother 0 (Ne.symm hk0)]; exact hap, ?_⟩
      intro hal
      rw [hother 0 (Ne.symm hk0)]
      apply hsi
      rw [hf.alive] at hal
      by_cases h1 : 1 = k
      · rw [h1]; exact ha
      · simpa [h1] using hal
  · -- middle nodes
    intro i ndi hi0 hi1 hni
    rw [hf.nlen] at hi1
    rw [hf.nodes] at hni
    by_cases hik : i = k
    · subst hik
      simp only [if_true] at hni
      have hnd : ndi = (nd.step ev).1 := (Option.some.inj hni).symm
      obtain ⟨hok, _, _⟩ := h.mid i nd hi0 hi1 hn
      obtain ⟨h1, h2⟩ := hmid hi0 hi1
      rw [insOf_frame hf hle i hi0, hnd, (step_midF nd ev).2]
      exact ⟨hok, (nodeSpec_step nd ev _ _).mpr h1, h2⟩
    · simp only [hik, if_false] at hni
      obtain ⟨hok, hsp, hmi⟩ := h.mid i ndi hi0 hi1 hni
      rw [insOf_frame hf hle i hi0, hins i hik hi0, hother i hik]
      refine ⟨hok, hsp, fun hal => hmi ?_⟩
      rw [hf.alive] at hal
      by_cases h1 : i + 1 = k
      · rw [h1]; exact ha
      · simpa [h1] using hal
  · -- sink
    obtain ⟨c, s, hsn, hsi⟩ := h.sink
    rw [hf.nlen]
    have hlast : 1 ≤ net.nodes.length - 1 := by have := h.two; omega
    by_cases hkl : k = net.nodes.length - 1
    · have hk1 : k + 1 = net.nodes.length := by have := h.two; omega
      have : nd = .sink c s := by rw [← hkl, hn] at hsn; exact Option.some.inj hsn
      obtain ⟨s', h1, h2⟩ := hsink hk1 c s this
      refine ⟨c, s', by rw [hf.nodes]; simp [hkl, ← h1], ?_⟩
      rw [insOf_frame hf hle _ hlast, ← hkl]; exact h2
    · refine ⟨c, s, by rw [hf.nodes]; simp [hsn]; intro hh; exact absurd hh.symm hkl, ?_⟩
      rw [insOf_frame hf hle _ hlast, hins _ (Ne.symm hkl) hlast]; exact hsi
  · -- a pending cancel means the sender has stopped
    intro j hc
    rcases hf.upq j _ hc with h1 | ⟨h1, h2⟩
    · have := h.cancel j h1
      rw [hf.alive]
      by_cases hjk : j + 1 = k
      · rw [hjk] at this; rw [ha] at this; simp at this
      · simp [hjk, this]
    · rw [hf.alive]; simp [h1]; exact hcancelOut h2
  · -- node kinds are static
    rcases h.par with hp | hp
    · exact Or.inl hp
    · refine Or.inr fun j nd' hn' => ?_
      rw [hf.nodes] at hn'
      by_cases hjk : j = k
      · simp only [hjk, if_true] at hn'
        have : nd' = (nd.step ev).1 := (Option.some.inj hn').symm
        rw [this, step_isPar]; exact hp k nd hn
      · simp only [hjk, if_false] at hn'
        exact hp j nd' hn'

/-- the condition `MidInv.specM` needs, for the node at index `k` -/
theorem GInv.par_node {P : List Val → Prop} {input : List Val} {net : Net} (h : GInv P input net) {k : Nat} {nd : Node}
    (hn : net.nodes[k]? = some nd) (ev : Ev) :
    ((∀ X, P X → Homog X) ∨ isPar nd = false) ∧ ((∀ X, P X → Homog X) ∨ isPar (nd.step ev).1 = false) := by
  rcases h.par with hp | hp
  · exact ⟨Or.inl hp, Or.inl hp⟩
  · exact ⟨Or.inr (hp k nd hn), Or.inr (by rw [step_isPar]; exact hp k nd hn)⟩

end GoaktVerif.C45

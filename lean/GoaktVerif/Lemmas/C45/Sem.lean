/-
C45 lemmas, part 1: the per-element transform closures of flow.go, folded over a list
(`xfRun`), compute the list functions of the spec (`stageSem`).
-/
import GoaktVerif.Model.C45.Basic
import GoaktVerif.Spec.C45

namespace GoaktVerif.C45
open GoaktVerif.Model.C45 GoaktVerif.Spec.C45

theorem xfRun_nil (st : Stage) (t : TS) : xfRun st t [] = ([], none) := rfl

theorem xfRun_cons_ok {st : Stage} {t t' : TS} {x : Val} {ys : List Val} (xs : List Val)
    (h : xfStep st t x = .ok (t', ys)) :
    xfRun st t (x :: xs) = (ys ++ (xfRun st t' xs).1, (xfRun st t' xs).2) := by
  simp [xfRun, h]

theorem xfRun_cons_err {st : Stage} {t : TS} {x : Val} {e : Err} (xs : List Val)
    (h : xfStep st t x = .error e) : xfRun st t (x :: xs) = ([], some e) := by
  simp [xfRun, h]

theorem xfRun_map (k : Int) (t : TS) (vs : List Val) : xfRun (.map k) t vs = stageSem (.map k) vs := by
  induction vs with
  | nil => rfl
  | cons v vs ih =>
    cases v with
    | int x => simp [xfRun, xfStep, ih, stageSem, ints]
    | list l => simp [xfRun, xfStep, stageSem, ints, tyErr]

theorem xfRun_filter (m r : Int) (t : TS) (vs : List Val) :
    xfRun (.filter m r) t vs = stageSem (.filter m r) vs := by
  induction vs with
  | nil => rfl
  | cons v vs ih =>
    cases v with
    | int x =>
      by_cases h : x.emod m = r <;> simp [xfRun, xfStep, ih, stageSem, ints, h]
    | list l => simp [xfRun, xfStep, stageSem, ints, tyErr]

theorem xfRun_flatMap (r : Int) (t : TS) (vs : List Val) :
    xfRun (.flatMap r) t vs = stageSem (.flatMap r) vs := by
  induction vs with
  | nil => rfl
  | cons v vs ih =>
    cases v with
    | int x => simp [xfRun, xfStep, ih, stageSem, ints]
    | list l => simp [xfRun, xfStep, stageSem, ints, tyErr]

theorem xfRun_flatten (t : TS) (vs : List Val) : xfRun .flatten t vs = stageSem .flatten vs := by
  induction vs with
  | nil => rfl
  | cons v vs ih =>
    cases v with
    | int x => simp [xfRun, xfStep, stageSem, lists, tyErr]
    | list l => simp [xfRun, xfStep, ih, stageSem, lists]

theorem xfRun_sum (t : TS) (vs : List Val) : xfRun .sum t vs = stageSem .sum vs := by
  induction vs with
  | nil => rfl
  | cons v vs ih =>
    cases v with
    | int x => simp [xfRun, xfStep, stageSem, lists, tyErr]
    | list l => simp [xfRun, xfStep, ih, stageSem, lists]

theorem xfRun_buffer (n : Nat) (t : TS) (vs : List Val) : xfRun (.buffer n) t vs = stageSem (.buffer n) vs := by
  induction vs with
  | nil => rfl
  | cons v vs ih => simp [xfRun, xfStep, ih, stageSem]

theorem xfRun_scan (t : TS) (vs : List Val) :
    xfRun .scan t vs = ((scanSums t.acc (ints vs).1).map .int, tyErr (ints vs).2) := by
  induction vs generalizing t with
  | nil => rfl
  | cons v vs ih =>
    cases v with
    | int x => simp [xfRun, xfStep, ih, ints, scanSums]
    | list l => simp [xfRun, xfStep, ints, tyErr, scanSums]

theorem xfRun_dedup (t : TS) (vs : List Val) :
    xfRun .dedup t vs = ((dedupFrom t.last (ints vs).1).map .int, tyErr (ints vs).2) := by
  induction vs generalizing t with
  | nil => rfl
  | cons v vs ih =>
    cases v with
    | int x =>
      by_cases h : t.last = some x <;> simp [xfRun, xfStep, ih, ints, dedupFrom, h]
    | list l => simp [xfRun, xfStep, ints, tyErr, dedupFrom]

theorem xfRun_tryMap (k bad : Int) (e : Err) (t : TS) (vs : List Val) :
    xfRun (.tryMap k bad e) t vs = stageSem (.tryMap k bad e) vs := by
  induction vs with
  | nil => rfl
  | cons v vs ih =>
    cases v with
    | int x =>
      by_cases h : x = bad
      · subst h; simp [xfRun, xfStep, stageSem, ints, beforeBad]
      · have h' : (bad = x) = False := by
          apply propext; constructor
          · intro hh; exact h hh.symm
          · intro hh; exact hh.elim
        simp [xfRun, xfStep, ih, stageSem, ints, beforeBad, h, h', List.takeWhile_cons]
    | list l => simp [xfRun, xfStep, stageSem, ints, tyErr, beforeBad]

/-- the transform closures compute the list semantics of their stage (the closure starts with
    `acc = 0`, `hasLast = false`) -/
theorem xfRun_eq_stageSem (st : Stage) (h : st.isFlow = true) (vs : List Val) :
    xfRun st {} vs = stageSem st vs := by
  cases st with
  | map k => exact xfRun_map k _ vs
  | tryMap k bad e => exact xfRun_tryMap k bad e _ vs
  | filter m r => exact xfRun_filter m r _ vs
  | flatMap r => exact xfRun_flatMap r _ vs
  | flatten => exact xfRun_flatten _ vs
  | scan => simpa [stageSem] using xfRun_scan {} vs
  | dedup => simpa [stageSem] using xfRun_dedup {} vs
  | buffer n => exact xfRun_buffer n _ vs
  | sum => exact xfRun_sum _ vs
  | batch n => simp [Stage.isFlow] at h
  | opmap w k b e => simp [Stage.isFlow] at h
  | pmap w k b e => simp [Stage.isFlow] at h

end GoaktVerif.C45

/-
C45 lemmas, part 21: parallelMapActor in UNORDERED mode (ParallelMap): results are forwarded in the
order the workers reply, so the stage computes its list semantics as a MULTISET — whatever the reply order.
-/
import GoaktVerif.Lemmas.C45.PMap

namespace GoaktVerif.C45
open GoaktVerif.Model.C45

/-- sub-multiset: `a` plus something is a permutation of `b` -/
def SubPerm {α : Type} (a b : List α) : Prop := ∃ t, List.Perm (a ++ t) b

theorem SubPerm.append_right {α : Type} {a b : List α} (h : SubPerm a b) (r : List α) : SubPerm a (b ++ r) := by
  obtain ⟨t, ht⟩ := h
  exact ⟨t ++ r, by rw [← List.append_assoc]; exact ht.append_right r⟩

theorem SubPerm.filter {α : Type} (p : α → Bool) {a b : List α} (h : SubPerm a b) :
    SubPerm (a.filter p) (b.filter p) := by
  obtain ⟨t, ht⟩ := h
  exact ⟨t.filter p, by rw [← List.filter_append]; exact ht.filter p⟩

theorem SubPerm.map {α β : Type} (f : α → β) {a b : List α} (h : SubPerm a b) : SubPerm (a.map f) (b.map f) := by
  obtain ⟨t, ht⟩ := h
  exact ⟨t.map f, by rw [← List.map_append]; exact ht.map f⟩

section
variable (k : Int) (bad : Option Int) (e : Err)

/-- the worker's result on an element that does not fail -/
def gRes (v : Val) : Val := match parFn k bad e v with | .ok y => y | .error _ => v
def okb (v : Val) : Bool := match parFn k bad e v with | .ok _ => true | .error _ => false

/-- the results of all elements of `X` that do not fail (an unordered stage may emit results of elements
    that FOLLOW a failing one) -/
def okAll (X : List Val) : List Val := (X.filter (okb k bad e)).map (gRes k bad e)

theorem parFn_ok_of_okb {v : Val} (h : okb k bad e v = true) : parFn k bad e v = .ok (gRes k bad e v) := by
  unfold okb at h; unfold gRes
  cases hf : parFn k bad e v with
  | ok y => rfl
  | error er => rw [hf] at h; simp at h

theorem parRun_all_ok {xs : List Val} (h : ∀ v ∈ xs, okb k bad e v = true) :
    parRun k bad e xs = (xs.map (gRes k bad e), none) := by
  induction xs with
  | nil => rfl
  | cons v vs ih =>
    have hv := parFn_ok_of_okb k bad e (h v (by simp))
    have := ih (fun w hw => h w (by simp [hw]))
    simp [parRun, hv, this]

/-- answered inputs (in reply order) ++ outstanding inputs = consumed inputs, as multisets -/
def CoreU (xs : List Val) (outst : List (Nat × Val)) (em : List Val) : Prop :=
  ∃ ds, em = ds.map (gRes k bad e) ∧ (∀ v ∈ ds, okb k bad e v = true) ∧ List.Perm (ds ++ outst.map (·.2)) xs

theorem CoreU.sub {xs : List Val} {outst : List (Nat × Val)} {em : List Val} (h : CoreU k bad e xs outst em)
    (rest : List Val) : SubPerm em (okAll k bad e (xs ++ rest)) := by
  obtain ⟨ds, rfl, hok, hp⟩ := h
  have h1 : SubPerm ds (xs ++ rest) := SubPerm.append_right ⟨_, hp⟩ rest
  have h2 := (h1.filter (okb k bad e)).map (gRes k bad e)
  rw [List.filter_eq_self.mpr hok] at h2
  exact h2

theorem CoreU.done {xs : List Val} {em : List Val} (h : CoreU k bad e xs [] em) :
    (parRun k bad e xs).2 = none ∧ List.Perm em (parRun k bad e xs).1 := by
  obtain ⟨ds, rfl, hok, hp⟩ := h
  simp only [List.map_nil, List.append_nil] at hp
  have hall : ∀ v ∈ xs, okb k bad e v = true := fun v hv => hok v (hp.mem_iff.mpr hv)
  rw [parRun_all_ok k bad e hall]
  exact ⟨rfl, hp.map _⟩

theorem perm_remove {l : List (Nat × Val)} (hn : (l.map (·.1)).Nodup) {t : Nat × Val} (ht : t ∈ l) :
    List.Perm l (t :: l.filter fun u => u.1 != t.1) := by
  induction l with
  | nil => simp at ht
  | cons a l ih =>
    simp only [List.map_cons, List.nodup_cons] at hn
    rcases List.mem_cons.mp ht with rfl | ht
    · have : (l.filter fun u => u.1 != t.1) = l := by
        apply List.filter_eq_self.mpr
        intro u hu
        have : u.1 ≠ t.1 := fun h => hn.1 (by rw [← h]; exact List.mem_map_of_mem hu)
        simpa using this
      simp [List.filter_cons, this]
    · have hat : a.1 ≠ t.1 := fun h => hn.1 (by rw [h]; exact List.mem_map_of_mem ht)
      have := ih hn.2 ht
      simp only [List.filter_cons, bne_iff_ne, ne_eq, hat, not_false_eq_true, decide_true, if_true]
      exact (this.cons a).trans (List.Perm.swap _ _ _)

structure PInvU (s : PMapSt) (ins outs : List Down) : Prop where
  wfOut : wf outs = true
  live : s.alive = true →
    termOf outs = none ∧
    ((termOf ins = none ∧ s.upDone = false) ∨ (termOf ins = some none ∧ s.upDone = true)) ∧
    (s.outst.length : Int) ≤ s.inFlight ∧ (s.outst.map (·.1)).Nodup ∧ (∀ t ∈ s.outst, t.1 ≤ s.inSeq) ∧
    CoreU k bad e (elemsOf ins) s.outst (elemsOf outs)
  dead : s.alive = false →
    (termOf outs = some none ∧ termOf ins = some none ∧ CoreU k bad e (elemsOf ins) [] (elemsOf outs))
    ∨ (∃ er, termOf outs = some (some er) ∧ (∃ os, CoreU k bad e (elemsOf ins) os (elemsOf outs)) ∧
        (termOf ins = some (some er) ∨ ∃ v ∈ elemsOf ins, parFn k bad e v = .error er))

theorem PInvU.init : PInvU k bad e {} [] [] :=
  ⟨rfl, fun _ => ⟨rfl, Or.inl ⟨rfl, rfl⟩, by simp, by simp, fun t ht => by simp at ht,
    ⟨[], rfl, fun v hv => by simp at hv, by simp [elemsOf]⟩⟩, fun h => by simp at h⟩

theorem PInvU.step_req {s : PMapSt} {ins outs : List Down} (w : Nat) (n : Int) (h : PInvU k bad e s ins outs) :
    PInvU k bad e (pmapStep false w s (.up (.req n))).1 ins (outs ++ (pmapStep false w s (.up (.req n))).2.down) := by
  simp only [pmapStep]
  split
  · simpa using h
  · simp only [List.append_nil]
    exact ⟨h.wfOut, fun ha => h.live ha, fun ha => h.dead ha⟩

theorem PInvU.step_wire {s : PMapSt} {ins outs : List Down} (w : Nat) (h : PInvU k bad e s ins outs) :
    PInvU k bad e (pmapStep false w s .wire).1 ins (outs ++ (pmapStep false w s .wire).2.down) := by
  simpa [pmapStep] using h

theorem PInvU.step_down {s : PMapSt} {ins outs : List Down} (w : Nat) (d : Down)
    (h : PInvU k bad e s ins outs) (ha : s.alive = true) (hw : wf (ins ++ [d]) = true) :
    PInvU k bad e (pmapStep false w s (.down d)).1 (ins ++ [d]) (outs ++ (pmapStep false w s (.down d)).2.down) := by
  obtain ⟨hto, hin, hfl, hnd, hbd, hc⟩ := h.live ha
  cases d with
  | elem v =>
    have hio : termOf ins = none := open_of_wf_snoc_elem hw
    have hud : s.upDone = false := by
      rcases hin with ⟨_, h2⟩ | ⟨h1, _⟩
      · exact h2
      · rw [hio] at h1; simp at h1
    cases v with
    | int x =>
      simp only [pmapStep, List.append_nil]
      refine ⟨h.wfOut, fun _ => ⟨hto, Or.inl ⟨termOf_snoc hio _, hud⟩, ?_, ?_, ?_, ?_⟩, fun h1 => by simp [ha] at h1⟩
      · simp only [List.length_append, List.length_singleton]; push_cast; omega
      · simp only [List.map_append, List.map_cons, List.map_nil]
        refine List.nodup_append.mpr ⟨hnd, by simp, fun a ha' b hb => ?_⟩
        simp at hb; subst hb
        obtain ⟨t, ht, rfl⟩ := List.mem_map.mp ha'
        have := hbd t ht; omega
      · intro t ht
        rcases List.mem_append.mp ht with ht | ht
        · have := hbd t ht; simp; omega
        · simp at ht; subst ht; simp
      · obtain ⟨ds, hem, hok, hp⟩ := hc
        refine ⟨ds, hem, hok, ?_⟩
        rw [elemsOf_snoc_elem hio]
        simp only [List.map_append, List.map_cons, List.map_nil, ← List.append_assoc]
        exact hp.append_right _
    | list l =>
      simp only [pmapStep]
      refine ⟨by rw [wf_append_open hto, h.wfOut]; rfl, fun h1 => by simp at h1, fun _ => Or.inr ?_⟩
      refine ⟨typeErr, by rw [termOf_append_open hto]; rfl, ⟨s.outst ++ [(0, .list l)], ?_⟩, Or.inr ⟨.list l, ?_, rfl⟩⟩
      · obtain ⟨ds, hem, hok, hp⟩ := hc
        refine ⟨ds, ?_, hok, ?_⟩
        · rw [elemsOf_append_open hto]; simpa [elemsOf] using hem
        · rw [elemsOf_snoc_elem hio]
          simp only [List.map_append, List.map_cons, List.map_nil, ← List.append_assoc]
          exact hp.append_right _
      · rw [elemsOf_snoc_elem hio]; simp
  | complete =>
    have hti : termOf (ins ++ [.complete]) = some none ∧ elemsOf (ins ++ [.complete]) = elemsOf ins := by
      rcases hin with ⟨h1, _⟩ | ⟨h1, _⟩
      · exact ⟨termOf_snoc h1 _, elemsOf_snoc_term (d := Down.complete) rfl⟩
      · have hne : termOf ins ≠ none := by rw [h1]; simp
        exact ⟨by rw [termOf_append_closed hne, h1], elemsOf_append_closed hne _⟩
    simp only [pmapStep, Bool.false_eq_true, if_false]
    split
    · rename_i hz
      have hz' : s.inFlight = 0 := by simpa using hz
      have hout : s.outst = [] := by
        have : (s.outst.length : Int) ≤ 0 := by rw [← hz']; exact hfl
        exact List.length_eq_zero_iff.mp (by omega)
      simp only [List.nil_append]
      refine ⟨by rw [wf_append_open hto, h.wfOut]; rfl, fun h1 => by simp at h1, fun _ => Or.inl ⟨?_, hti.1, ?_⟩⟩
      · rw [termOf_append_open hto]; rfl
      · rw [hti.2, elemsOf_append_open hto]
        rw [hout] at hc; simpa [elemsOf] using hc
    · simp only [List.append_nil]
      refine ⟨h.wfOut, fun _ => ⟨hto, Or.inr ⟨hti.1, rfl⟩, hfl, hnd, hbd, by rw [hti.2]; exact hc⟩,
        fun h1 => by simp [ha] at h1⟩
  | error er =>
    have hio : termOf ins = none := by
      rcases hin with ⟨h1, _⟩ | ⟨h1, _⟩
      · exact h1
      · have := eq_of_wf_snoc_closed h1 hw; simp [toMsg] at this
    simp only [pmapStep]
    refine ⟨by rw [wf_append_open hto, h.wfOut]; rfl, fun h1 => by simp at h1, fun _ => Or.inr ?_⟩
    refine ⟨er, by rw [termOf_append_open hto]; rfl, ⟨s.outst, ?_⟩, Or.inl (termOf_snoc hio _)⟩
    rw [elemsOf_snoc_term (d := Down.error er) rfl, elemsOf_append_open hto]
    simpa [elemsOf] using hc

theorem PInvU.step_result {s : PMapSt} {ins outs : List Down} (w : Nat) (t : Nat × Val)
    (h : PInvU k bad e s ins outs) (ha : s.alive = true) (ht : t ∈ s.outst) :
    PInvU k bad e (pmapStep false w s (.result t.1 (parFn k bad e t.2))).1 ins
      (outs ++ (pmapStep false w s (.result t.1 (parFn k bad e t.2))).2.down) := by
  obtain ⟨hto, hin, hfl, hnd, hbd, hc⟩ := h.live ha
  obtain ⟨ds, hem, hok, hp⟩ := hc
  have hmem : t.2 ∈ elemsOf ins := hp.mem_iff.mp (List.mem_append_right _ (List.mem_map_of_mem ht))
  cases hf : parFn k bad e t.2 with
  | error er =>
    simp only [pmapStep]
    refine ⟨by rw [wf_append_open hto, h.wfOut]; rfl, fun h1 => by simp at h1, fun _ => Or.inr ?_⟩
    refine ⟨er, by rw [termOf_append_open hto]; rfl, ⟨s.outst, ds, ?_, hok, hp⟩, Or.inr ⟨t.2, hmem, hf⟩⟩
    rw [elemsOf_append_open hto]; simpa [elemsOf] using hem
  | ok y =>
    have hy : y = gRes k bad e t.2 := by simp [gRes, hf]
    have hokt : okb k bad e t.2 = true := by simp [okb, hf]
    -- the answered task leaves the outstanding bag
    have hperm := perm_remove hnd ht
    have hc' : CoreU k bad e (elemsOf ins) (s.outst.filter fun u => u.1 != t.1) (elemsOf outs ++ [y]) := by
      refine ⟨ds ++ [t.2], by simp [hem, hy], ?_, ?_⟩
      · intro v hv
        rcases List.mem_append.mp hv with hv | hv
        · exact hok v hv
        · simp at hv; subst hv; exact hokt
      · have h1 : List.Perm (s.outst.map (·.2)) (t.2 :: (s.outst.filter fun u => u.1 != t.1).map (·.2)) := by
          simpa using hperm.map (·.2)
        have h2 : List.Perm (ds ++ s.outst.map (·.2))
            (ds ++ (t.2 :: (s.outst.filter fun u => u.1 != t.1).map (·.2))) := h1.append_left ds
        refine List.Perm.trans ?_ (h2.symm.trans hp)
        simp [List.append_assoc]
    have hnd' : ((s.outst.filter fun u => u.1 != t.1).map (·.1)).Nodup :=
      (List.filter_sublist.map _).nodup hnd
    have hfl' := filter_length_lt ht
    have t1 : termOf (outs ++ [Down.elem y]) = none := by rw [termOf_append_open hto]; rfl
    have e1 : elemsOf (outs ++ [Down.elem y]) = elemsOf outs ++ [y] := by
      rw [elemsOf_append_open hto]; rfl
    simp only [pmapStep, Bool.false_eq_true, if_false]
    split
    · rename_i hfin
      simp only [Bool.and_eq_true, beq_iff_eq] at hfin
      have hud : s.upDone = true := hfin.1
      have hti : termOf ins = some none := by
        rcases hin with ⟨_, h2⟩ | ⟨h1, _⟩
        · rw [hud] at h2; simp at h2
        · exact h1
      have hout : (s.outst.filter fun u => u.1 != t.1) = [] := by
        apply List.length_eq_zero_iff.mp
        have := hfin.2; omega
      simp only [List.append_nil]
      rw [← List.append_assoc]
      refine ⟨by rw [wf_append_open t1, wf_of_open t1]; rfl, fun h1 => by simp at h1, fun _ => Or.inl ⟨?_, hti, ?_⟩⟩
      · rw [termOf_append_open t1]; rfl
      · rw [elemsOf_append_open t1, e1]
        rw [hout] at hc'; simpa [elemsOf] using hc'
    · refine ⟨wf_of_open t1, fun _ => ⟨t1, hin, ?_, hnd', fun u hu => hbd u (List.mem_filter.mp hu).1, ?_⟩,
        fun h1 => by simp [ha] at h1⟩
      · simp only; omega
      · rw [e1]; exact hc'

/-- the content specification of the unordered stage: a sub-multiset of the results of the non-failing
    elements at every moment; at completion a permutation of the list semantics -/
structure SpecU (P : List Val → Prop) (ins outs : List Down) : Prop where
  wfOut : wf outs = true
  sub : ∀ X, elemsOf ins <+: X → SubPerm (elemsOf outs) (okAll k bad e X)
  compl : termOf outs = some none →
    termOf ins = some none ∧ (parRun k bad e (elemsOf ins)).2 = none ∧
      List.Perm (elemsOf outs) (parRun k bad e (elemsOf ins)).1
  err : ∀ er, termOf outs = some (some er) →
    termOf ins = some (some er) ∨ ∀ X, elemsOf ins <+: X → P X → (parRun k bad e X).2 = some er

theorem SpecU.extend {P : List Val → Prop} {ins outs : List Down} (h : SpecU k bad e P ins outs) (t : List Down) :
    SpecU k bad e P (ins ++ t) outs := by
  cases hc : termOf ins with
  | some c =>
    obtain ⟨h1, h2⟩ := termOf_of_prefix_closed (b := t) hc
    exact ⟨h.wfOut, fun X hX => h.sub X (by rw [h2] at hX; exact hX),
      fun ho => by rw [h1, h2, ← hc]; exact h.compl ho, fun er ho => by rw [h1, h2, ← hc]; exact h.err er ho⟩
  | none =>
    have hpre := elemsOf_prefix ins t
    refine ⟨h.wfOut, fun X hX => h.sub X (hpre.trans hX), ?_, ?_⟩
    · intro ho; have := (h.compl ho).1; rw [hc] at this; simp at this
    · intro er ho
      rcases h.err er ho with h1 | h1
      · rw [hc] at h1; simp at h1
      · exact Or.inr fun X hX hP => h1 X (hpre.trans hX) hP

theorem SpecU.weaken {P Q : List Val → Prop} {ins outs : List Down} (hPQ : ∀ X, P X → Q X)
    (h : SpecU k bad e Q ins outs) : SpecU k bad e P ins outs :=
  ⟨h.wfOut, h.sub, h.compl, fun er he => (h.err er he).imp id fun h1 X hX hP => h1 X hX (hPQ X hP)⟩

theorem PInvU.specU {s : PMapSt} {ins outs : List Down} (h : PInvU k bad e s ins outs) :
    SpecU k bad e Homog ins outs := by
  have hcore : ∃ os, CoreU k bad e (elemsOf ins) os (elemsOf outs) := by
    by_cases ha : s.alive = true
    · exact ⟨_, (h.live ha).2.2.2.2.2⟩
    · rcases h.dead (by simpa using ha) with ⟨_, _, h3⟩ | ⟨_, _, h3, _⟩
      · exact ⟨_, h3⟩
      · exact h3
  obtain ⟨os, hcr⟩ := hcore
  refine ⟨h.wfOut, ?_, ?_, ?_⟩
  · intro X hX
    obtain ⟨rest, rfl⟩ := hX
    exact hcr.sub k bad e rest
  · intro ho
    by_cases ha : s.alive = true
    · have := (h.live ha).1; rw [ho] at this; simp at this
    · rcases h.dead (by simpa using ha) with ⟨_, h2, h3⟩ | ⟨er, h1, _⟩
      · exact ⟨h2, (h3.done k bad e).1, (h3.done k bad e).2⟩
      · rw [ho] at h1; simp at h1
  · intro er ho
    by_cases ha : s.alive = true
    · have := (h.live ha).1; rw [ho] at this; simp at this
    · rcases h.dead (by simpa using ha) with ⟨h1, _⟩ | ⟨er', h1, _, h3⟩
      · rw [ho] at h1; simp at h1
      · rw [ho] at h1
        have : er = er' := by simpa using h1
        subst this
        rcases h3 with h3 | ⟨v, hv, hfv⟩
        · exact Or.inl h3
        · refine Or.inr fun X hX hH => ?_
          obtain ⟨rest, rfl⟩ := hX
          exact parRun_err k bad e hH (List.mem_append_left _ hv) hfv

end

end GoaktVerif.C45

/-
C45 lemmas, part 4: sinkActor — what it records is the content of what it handled, and its
completion hook runs exactly once, when it stops.
-/
import GoaktVerif.Model.C45.Actors
import GoaktVerif.Lemmas.C45.Hist

namespace GoaktVerif.C45
open GoaktVerif.Model.C45

structure SinkInv (s : SinkSt) (ins : List Down) : Prop where
  recv : s.received = elemsOf ins
  live : s.alive = true → termOf ins = none ∧ s.hooks = 0 ∧ s.once = false ∧ s.termErr = none
  dead : s.alive = false → s.hooks = 1 ∧ s.once = true ∧
    ((termOf ins = some none ∧ s.termErr = none) ∨ (∃ e, termOf ins = some (some e) ∧ s.termErr = some e))

theorem SinkInv.init : SinkInv {} [] :=
  ⟨rfl, fun _ => ⟨rfl, rfl, rfl, rfl⟩, fun h => by simp at h⟩

theorem SinkInv.wire {s : SinkSt} {ins : List Down} (cfg : Cfg) (h : SinkInv s ins) :
    SinkInv (sinkStep cfg s .wire).1 ins := by
  simp only [sinkStep]
  exact ⟨h.recv, fun ha => h.live ha, fun ha => h.dead ha⟩

/-- a handled downstream message (the sink is alive, the upstream history well-formed) -/
theorem SinkInv.step_down {s : SinkSt} {ins : List Down} (cfg : Cfg) (d : Down)
    (h : SinkInv s ins) (ha : s.alive = true) (hw : wf (ins ++ [d]) = true) :
    SinkInv (sinkStep cfg s (.down d)).1 (ins ++ [d]) := by
  obtain ⟨hio, hh, ho, he⟩ := h.live ha
  cases d with
  | elem v =>
    simp only [sinkStep]
    split
    · refine ⟨by simp [h.recv, elemsOf_snoc_elem hio], fun _ => ⟨termOf_snoc hio _, hh, ho, he⟩, fun h1 => ?_⟩
      simp [ha] at h1
    · refine ⟨by simp [h.recv, elemsOf_snoc_elem hio], fun _ => ⟨termOf_snoc hio _, hh, ho, he⟩, fun h1 => ?_⟩
      simp [ha] at h1
  | complete =>
    simp only [sinkStep, SinkSt.shutdown, SinkSt.callOnComplete, ho, hh]
    refine ⟨by simp [h.recv, elemsOf_snoc_term (d := Down.complete) rfl], fun h1 => by simp at h1, fun _ => ?_⟩
    exact ⟨by simp, by simp, Or.inl ⟨termOf_snoc hio _, by simp [he]⟩⟩
  | error e =>
    simp only [sinkStep, SinkSt.shutdown, SinkSt.callOnComplete, ho, hh]
    refine ⟨by simp [h.recv, elemsOf_snoc_term (d := Down.error e) rfl], fun h1 => by simp at h1, fun _ => ?_⟩
    exact ⟨by simp, by simp, Or.inr ⟨e, termOf_snoc hio _, by simp⟩⟩

/-- requests / cancels / timers are not handled by a sink -/
theorem SinkInv.step_other {s : SinkSt} {ins : List Down} (cfg : Cfg) (ev : Ev)
    (h : SinkInv s ins) (hev : ∀ d, ev ≠ .down d) :
    SinkInv (sinkStep cfg s ev).1 ins := by
  cases ev with
  | wire => exact h.wire cfg
  | down d => exact absurd rfl (hev d)
  | up u => simpa [sinkStep] using h
  | result q r => simpa [sinkStep] using h
  | flush => simpa [sinkStep] using h

/-- the completion hook never runs twice, whatever messages (duplicates included) arrive -/
theorem sink_hooks_le_one (cfg : Cfg) (s : SinkSt) (ev : Ev) (h : s.hooks ≤ 1 ∧ (s.hooks = 1 → s.once = true)) :
    (sinkStep cfg s ev).1.hooks ≤ 1 ∧ ((sinkStep cfg s ev).1.hooks = 1 → (sinkStep cfg s ev).1.once = true) := by
  obtain ⟨h1, h2⟩ := h
  cases ev with
  | wire => simpa [sinkStep] using ⟨h1, h2⟩
  | up u => simpa [sinkStep] using ⟨h1, h2⟩
  | result q r => simpa [sinkStep] using ⟨h1, h2⟩
  | flush => simpa [sinkStep] using ⟨h1, h2⟩
  | down d =>
    cases d with
    | elem v => simp only [sinkStep]; split <;> exact ⟨h1, h2⟩
    | complete =>
      simp only [sinkStep, SinkSt.shutdown, SinkSt.callOnComplete]
      by_cases ho : s.once = true
      · simp [ho, h1]
      · have : s.hooks = 0 := by
          have : s.hooks ≠ 1 := fun hh => ho (h2 hh)
          omega
        simp [ho, this]
    | error e =>
      simp only [sinkStep, SinkSt.shutdown, SinkSt.callOnComplete]
      by_cases ho : s.once = true
      · simp [ho, h1]
      · have : s.hooks = 0 := by
          have : s.hooks ≠ 1 := fun hh => ho (h2 hh)
          omega
        simp [ho, this]

end GoaktVerif.C45

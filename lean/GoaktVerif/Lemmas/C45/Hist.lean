/-
C45 lemmas, part 2: histories of downstream messages on a link and their abstract content
(the elements before the first terminal, and that terminal).
-/
import GoaktVerif.Model.C45.Basic

namespace GoaktVerif.C45
open GoaktVerif.Model.C45

/-- elements carried before the first terminal message -/
def elemsOf : List Down → List Val
  | [] => []
  | .elem v :: r => v :: elemsOf r
  | _ :: _ => []

/-- the first terminal message: `none` = still open, `some none` = complete, `some (some e)` = failed with e -/
def termOf : List Down → Option (Option Err)
  | [] => none
  | .elem _ :: r => termOf r
  | .complete :: _ => some none
  | .error e :: _ => some (some e)

def isTerm : Down → Bool
  | .elem _ => false
  | _ => true

/-- every message equals `t` -/
def allEq (t : Down) : List Down → Bool
  | [] => true
  | d :: r => decide (d = t) && allEq t r

/-- well-formed: after the first terminal only repetitions of that terminal follow
    (flowActor repeats streamComplete; nobody sends anything else after a terminal) -/
def wf : List Down → Bool
  | [] => true
  | .elem _ :: r => wf r
  | t :: r => allEq t r

/-- the protocol message for a terminal content -/
def toMsg : Option Err → Down
  | none => .complete
  | some e => .error e

def termOfMsg : Down → Option (Option Err)
  | .elem _ => none
  | .complete => some none
  | .error e => some (some e)

theorem allEq_append (t : Down) (a b : List Down) : allEq t (a ++ b) = (allEq t a && allEq t b) := by
  induction a with
  | nil => simp [allEq]
  | cons d r ih => simp [allEq, ih, Bool.and_assoc]

theorem elemsOf_map_elem (zs : List Val) : elemsOf (zs.map Down.elem) = zs := by
  induction zs with
  | nil => rfl
  | cons z zs ih => simp [elemsOf, ih]

theorem termOf_map_elem (zs : List Val) : termOf (zs.map Down.elem) = none := by
  induction zs with
  | nil => rfl
  | cons z zs ih => simp [termOf, ih]

theorem wf_map_elem (zs : List Val) : wf (zs.map Down.elem) = true := by
  induction zs with
  | nil => rfl
  | cons z zs ih => simp [wf, ih]

/-- appending to an open history -/
theorem elemsOf_append_open {h : List Down} (ho : termOf h = none) (t : List Down) :
    elemsOf (h ++ t) = elemsOf h ++ elemsOf t := by
  induction h with
  | nil => simp [elemsOf]
  | cons d r ih =>
    cases d with
    | elem v => simp [elemsOf, termOf] at ho ⊢; exact ih ho
    | complete => simp [termOf] at ho
    | error e => simp [termOf] at ho

theorem termOf_append_open {h : List Down} (ho : termOf h = none) (t : List Down) :
    termOf (h ++ t) = termOf t := by
  induction h with
  | nil => simp
  | cons d r ih =>
    cases d with
    | elem v => simp [termOf] at ho ⊢; exact ih ho
    | complete => simp [termOf] at ho
    | error e => simp [termOf] at ho

/-- appending to a closed history changes nothing -/
theorem elemsOf_append_closed {h : List Down} (hc : termOf h ≠ none) (t : List Down) :
    elemsOf (h ++ t) = elemsOf h := by
  induction h with
  | nil => simp [termOf] at hc
  | cons d r ih =>
    cases d with
    | elem v => simp [elemsOf, termOf] at hc ⊢; exact ih hc
    | complete => simp [elemsOf]
    | error e => simp [elemsOf]

theorem termOf_append_closed {h : List Down} (hc : termOf h ≠ none) (t : List Down) :
    termOf (h ++ t) = termOf h := by
  induction h with
  | nil => simp [termOf] at hc
  | cons d r ih =>
    cases d with
    | elem v => simp [termOf] at hc ⊢; exact ih hc
    | complete => simp [termOf]
    | error e => simp [termOf]

theorem wf_append_open {h : List Down} (ho : termOf h = none) (t : List Down) :
    wf (h ++ t) = (wf h && wf t) := by
  induction h with
  | nil => simp [wf]
  | cons d r ih =>
    cases d with
    | elem v => simp [wf, termOf] at ho ⊢; exact ih ho
    | complete => simp [termOf] at ho
    | error e => simp [termOf] at ho

theorem wf_of_open {h : List Down} (ho : termOf h = none) : wf h = true := by
  induction h with
  | nil => rfl
  | cons d r ih =>
    cases d with
    | elem v => simp [wf, termOf] at ho ⊢; exact ih ho
    | complete => simp [termOf] at ho
    | error e => simp [termOf] at ho

theorem wf_append_closed {h : List Down} {c : Option Err} (hc : termOf h = some c) (t : List Down) :
    wf (h ++ t) = (wf h && allEq (toMsg c) t) := by
  induction h with
  | nil => simp [termOf] at hc
  | cons d r ih =>
    cases d with
    | elem v => simp [wf, termOf] at hc ⊢; exact ih hc
    | complete => simp [termOf] at hc; subst hc; simp [wf, allEq_append, toMsg]
    | error e => simp [termOf] at hc; subst hc; simp [wf, allEq_append, toMsg]

/-- a well-formed history stays well-formed when a prefix is taken -/
theorem wf_append_left {a b : List Down} (h : wf (a ++ b) = true) : wf a = true := by
  cases ho : termOf a with
  | none => exact wf_of_open ho
  | some c => rw [wf_append_closed ho] at h; simp at h; exact h.1

/-- after a terminal, only that same terminal may follow -/
theorem eq_of_wf_snoc_closed {h : List Down} {c : Option Err} {d : Down} (hc : termOf h = some c)
    (hw : wf (h ++ [d]) = true) : d = toMsg c := by
  rw [wf_append_closed hc] at hw; simp [allEq] at hw; exact hw.2

/-- an element can only be appended to an open history -/
theorem open_of_wf_snoc_elem {h : List Down} {v : Val} (hw : wf (h ++ [.elem v]) = true) :
    termOf h = none := by
  cases ho : termOf h with
  | none => rfl
  | some c =>
    have := eq_of_wf_snoc_closed ho hw
    cases c <;> simp [toMsg] at this

theorem elemsOf_snoc_elem {h : List Down} (ho : termOf h = none) (v : Val) :
    elemsOf (h ++ [.elem v]) = elemsOf h ++ [v] := by
  rw [elemsOf_append_open ho]; rfl

theorem termOf_snoc {h : List Down} (ho : termOf h = none) (d : Down) :
    termOf (h ++ [d]) = termOfMsg d := by
  rw [termOf_append_open ho]; cases d <;> rfl

theorem elemsOf_snoc_term {h : List Down} {d : Down} (hd : isTerm d = true) :
    elemsOf (h ++ [d]) = elemsOf h := by
  by_cases ho : termOf h = none
  · rw [elemsOf_append_open ho]; cases d <;> simp_all [elemsOf, isTerm]
  · exact elemsOf_append_closed ho _

end GoaktVerif.C45

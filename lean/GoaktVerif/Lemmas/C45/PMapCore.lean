/-
C45 lemmas, part 17: the resequencing core of OrderedParallelMap.  Every seqNo is exactly one of
emitted / waiting in the heap / still with a worker; `flushOrdered` emits in seqNo order.
-/
import GoaktVerif.Model.C45.Actors
import GoaktVerif.Lemmas.C45.Chain

namespace GoaktVerif.C45
open GoaktVerif.Model.C45

/-- the sequential semantics of a parallel map: results up to the first failing element, and its error -/
def parRun (k : Int) (bad : Option Int) (e : Err) : SemFn
  | [] => ([], none)
  | v :: vs =>
    match parFn k bad e v with
    | .error er => ([], some er)
    | .ok y => (y :: (parRun k bad e vs).1, (parRun k bad e vs).2)

def isInt : Val → Bool
  | .int _ => true
  | _ => false

/-- all elements are ints, or all are lists (what a typed Go stream carries) -/
def Homog (X : List Val) : Prop := (∀ v ∈ X, isInt v = true) ∨ (∀ v ∈ X, isInt v = false)

section
variable (k : Int) (bad : Option Int) (e : Err)

/-- in a homogeneous list every failing element fails with the same error -/
theorem parFn_err_unique {X : List Val} (hX : Homog X) {v w : Val} (hv : v ∈ X) (hw : w ∈ X) {a b : Err}
    (ha : parFn k bad e v = .error a) (hb : parFn k bad e w = .error b) : a = b := by
  cases v with
  | int x =>
    cases w with
    | int y =>
      simp only [parFn] at ha hb
      split at ha <;> split at hb <;> simp_all
    | list l =>
      rcases hX with h | h
      · have := h _ hw; simp [isInt] at this
      · have := h _ hv; simp [isInt] at this
  | list l =>
    cases w with
    | int y =>
      rcases hX with h | h
      · have := h _ hv; simp [isInt] at this
      · have := h _ hw; simp [isInt] at this
    | list l' => simp only [parFn] at ha hb; cases ha; cases hb; rfl

theorem parRun_err {X : List Val} (hX : Homog X) {v : Val} (hv : v ∈ X) {a : Err}
    (ha : parFn k bad e v = .error a) : (parRun k bad e X).2 = some a := by
  induction X with
  | nil => simp at hv
  | cons w ws ih =>
    simp only [parRun]
    cases hw : parFn k bad e w with
    | error b =>
      have := parFn_err_unique k bad e hX hv (List.mem_cons_self) ha hw
      simp [this]
    | ok y =>
      simp only
      have hv' : v ∈ ws := by
        rcases List.mem_cons.mp hv with rfl | h
        · rw [ha] at hw; simp at hw
        · exact h
      have hX' : Homog ws := by
        rcases hX with h | h
        · exact Or.inl fun u hu => h u (List.mem_cons_of_mem _ hu)
        · exact Or.inr fun u hu => h u (List.mem_cons_of_mem _ hu)
      exact ih hX' hv'

/-- `em` are the results of the first elements of `X`, all of which succeed -/
def OkPrefix (X : List Val) (m : Nat) (em : List Val) : Prop :=
  em.length = m ∧ m ≤ X.length ∧ ∀ i (hi : i < m), ∃ v, X[i]? = some v ∧ ∃ y, em[i]? = some y ∧ parFn k bad e v = .ok y

theorem okPrefix_prefix {X : List Val} {m : Nat} {em : List Val} (h : OkPrefix k bad e X m em) :
    em <+: (parRun k bad e X).1 := by
  induction X generalizing m em with
  | nil =>
    obtain ⟨h1, h2, _⟩ := h
    have : m = 0 := by simpa using h2
    subst this
    have : em = [] := List.length_eq_zero_iff.mp h1
    subst this; exact List.nil_prefix
  | cons w ws ih =>
    cases m with
    | zero =>
      have : em = [] := List.length_eq_zero_iff.mp h.1
      subst this; exact List.nil_prefix
    | succ m =>
      obtain ⟨h1, h2, h3⟩ := h
      cases em with
      | nil => simp at h1
      | cons y ys =>
        obtain ⟨v, hv, y', hy', hf⟩ := h3 0 (by omega)
        simp at hv hy'
        subst hv; subst hy'
        simp only [parRun, hf]
        refine (List.prefix_cons_inj _).mpr (ih ⟨by simpa using h1, by simpa using h2, ?_⟩)
        intro i hi
        obtain ⟨v, hv, y'', hy'', hf'⟩ := h3 (i + 1) (by omega)
        exact ⟨v, by simpa using hv, y'', by simpa using hy'', hf'⟩

theorem okPrefix_all {X : List Val} {em : List Val} (h : OkPrefix k bad e X X.length em) :
    parRun k bad e X = (em, none) := by
  induction X generalizing em with
  | nil =>
    have : em = [] := List.length_eq_zero_iff.mp h.1
    subst this; rfl
  | cons w ws ih =>
    obtain ⟨h1, h2, h3⟩ := h
    cases em with
    | nil => simp at h1
    | cons y ys =>
      obtain ⟨v, hv, y', hy', hf⟩ := h3 0 (by simp)
      simp at hv hy'
      subst hv; subst hy'
      have := ih (em := ys) ⟨by simpa using h1, Nat.le_refl _, fun i hi => by
        obtain ⟨v, hv, y'', hy'', hf'⟩ := h3 (i + 1) (by simp; omega)
        exact ⟨v, by simpa using hv, y'', by simpa using hy'', hf'⟩⟩
      simp [parRun, hf, this]

theorem okPrefix_mono {X : List Val} {m : Nat} {em : List Val} (h : OkPrefix k bad e X m em) (t : List Val) :
    OkPrefix k bad e (X ++ t) m em := by
  obtain ⟨h1, h2, h3⟩ := h
  refine ⟨h1, by simp; omega, fun i hi => ?_⟩
  obtain ⟨v, hv, r⟩ := h3 i hi
  exact ⟨v, by rw [List.getElem?_append_left (by omega)]; exact hv, r⟩

/-- emitted / pending / outstanding partition the seqNos `1..|xs|` -/
structure Core (xs : List Val) (ne : Nat) (pend outst : List (Nat × Val)) (em : List Val) : Prop where
  ok : OkPrefix k bad e xs ne em
  hpend : ∀ p ∈ pend, ne < p.1 ∧ p.1 ≤ xs.length ∧ ∃ v, xs[p.1 - 1]? = some v ∧ parFn k bad e v = .ok p.2
  houtst : ∀ t ∈ outst, ne < t.1 ∧ t.1 ≤ xs.length ∧ xs[t.1 - 1]? = some t.2
  disj : ∀ t ∈ outst, ∀ p ∈ pend, t.1 ≠ p.1
  cover : ∀ q, ne < q → q ≤ xs.length → (∃ p ∈ pend, p.1 = q) ∨ (∃ t ∈ outst, t.1 = q)

theorem minEntry_none {p : List (Nat × Val)} (h : minEntry p = none) : p = [] := by
  cases p with
  | nil => rfl
  | cons x xs => simp only [minEntry] at h; split at h <;> (try split at h) <;> simp at h

theorem minEntry_some {p : List (Nat × Val)} {t : Nat × Val} (h : minEntry p = some t) :
    t ∈ p ∧ ∀ x ∈ p, t.1 ≤ x.1 := by
  induction p generalizing t with
  | nil => simp [minEntry] at h
  | cons x xs ih =>
    simp only [minEntry] at h
    cases hm : minEntry xs with
    | none =>
      have := minEntry_none hm
      subst this
      simp only [hm] at h
      cases h
      exact ⟨by simp, fun y hy => by simp at hy; subst hy; exact Nat.le_refl _⟩
    | some y =>
      simp only [hm] at h
      obtain ⟨hy1, hy2⟩ := ih hm
      split at h
      · rename_i hle
        cases h
        refine ⟨by simp, fun z hz => ?_⟩
        rcases List.mem_cons.mp hz with rfl | hz
        · exact Nat.le_refl _
        · exact Nat.le_trans hle (hy2 z hz)
      · rename_i hle
        cases h
        refine ⟨List.mem_cons_of_mem _ hy1, fun z hz => ?_⟩
        rcases List.mem_cons.mp hz with rfl | hz
        · omega
        · exact hy2 z hz

/-- `flushOrdered`: keeps the partition, appends results in seqNo order, and leaves no entry for the next seqNo -/
theorem flushOrd_spec (xs : List Val) (outst : List (Nat × Val)) :
    ∀ (fuel ne : Nat) (p : List (Nat × Val)) (em : List Val), Core k bad e xs ne p outst em → p.length ≤ fuel →
      Core k bad e xs (flushOrd fuel ne p).1 (flushOrd fuel ne p).2.1 outst (em ++ (flushOrd fuel ne p).2.2) ∧
      (∀ x ∈ (flushOrd fuel ne p).2.1, x.1 ≠ (flushOrd fuel ne p).1 + 1) := by
  intro fuel
  induction fuel with
  | zero =>
    intro ne p em hc hl
    have : p = [] := List.length_eq_zero_iff.mp (by omega)
    subst this
    simp only [flushOrd, List.append_nil]
    exact ⟨hc, fun x hx => by simp at hx⟩
  | succ fuel ih =>
    intro ne p em hc hl
    simp only [flushOrd]
    cases hm : minEntry p with
    | none =>
      have := minEntry_none hm
      subst this
      simp only [List.append_nil]
      exact ⟨hc, fun x hx => by simp at hx⟩
    | some top =>
      obtain ⟨htop, hmin⟩ := minEntry_some hm
      simp only
      by_cases hne : top.1 = ne + 1
      · have hne' : ¬ (top.1 ≠ ne + 1) := by simpa using hne
        simp only [hne', if_false]
        obtain ⟨hlt, hle, v, hv, hf⟩ := hc.hpend top htop
        -- the partition after emitting `top`
        have hc' : Core k bad e xs (ne + 1) (p.filter fun x => x.1 != top.1) outst (em ++ [top.2]) := by
          obtain ⟨o1, o2, o3⟩ := hc.ok
          refine ⟨⟨by simp [o1], by omega, fun i hi => ?_⟩, ?_, ?_, ?_, ?_⟩
          · by_cases hi' : i < ne
            · obtain ⟨w, hw, y, hy, hfy⟩ := o3 i hi'
              exact ⟨w, hw, y, by rw [List.getElem?_append_left (by omega)]; exact hy, hfy⟩
            · have : i = ne := by omega
              subst this
              have e1 : top.1 - 1 = i := by omega
              rw [e1] at hv
              exact ⟨v, hv, top.2, by rw [List.getElem?_append_right (by omega)]; simp [o1], hf⟩
          · intro x hx
            obtain ⟨hx1, hx2⟩ := List.mem_filter.mp hx
            obtain ⟨a, b, c⟩ := hc.hpend x hx1
            have : x.1 ≠ top.1 := by simpa using hx2
            exact ⟨by omega, b, c⟩
          · intro t ht
            obtain ⟨a, b, c⟩ := hc.houtst t ht
            have := hc.disj t ht top htop
            exact ⟨by omega, b, c⟩
          · intro t ht x hx
            exact hc.disj t ht x (List.mem_filter.mp hx).1
          · intro q h1 h2
            rcases hc.cover q (by omega) h2 with ⟨x, hx, hxq⟩ | r
            · left
              exact ⟨x, List.mem_filter.mpr ⟨hx, by simp; omega⟩, hxq⟩
            · exact Or.inr r
        have hlen : (p.filter fun x => x.1 != top.1).length ≤ fuel := by
          have : (p.filter fun x => x.1 != top.1).length < p.length :=
            List.length_filter_lt_length_iff_exists.mpr ⟨top, htop, by simp⟩
          omega
        obtain ⟨r1, r2⟩ := ih (ne + 1) _ _ hc' hlen
        refine ⟨?_, r2⟩
        simpa [List.append_assoc] using r1
      · simp only [hne, ne_eq, not_false_eq_true, if_true, List.append_nil]
        refine ⟨hc, fun x hx => ?_⟩
        have h1 := hmin x hx
        have h2 := (hc.hpend top htop).1
        omega

end

end GoaktVerif.C45

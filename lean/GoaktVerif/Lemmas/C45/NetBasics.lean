/-
C45 lemmas, part 7: what one scheduler step does to the components of the network.
-/
import GoaktVerif.Model.C45.Net

namespace GoaktVerif.C45
open GoaktVerif.Model.C45

def hist (net : Net) (i : Nat) : List Down := (net.links[i]?.map (·.hist)).getD []
def pos (net : Net) (i : Nat) : Nat := (net.links[i]?.map (·.pos)).getD 0
def upq (net : Net) (i : Nat) : List Up := (net.links[i]?.map (·.upq)).getD []

/-- the history node `i ≥ 1` has handled: the consumed prefix of the link above it -/
def insOf (net : Net) (i : Nat) : List Down := (hist net (i - 1)).take (pos net (i - 1))

theorem updLink_length (links : List Link) (i : Nat) (f : Link → Link) :
    (updLink links i f).length = links.length := by simp [updLink]

theorem updLink_get (links : List Link) (i j : Nat) (f : Link → Link) :
    (updLink links i f)[j]? = if i = j then links[j]?.map f else links[j]? := by
  simp only [updLink, List.getElem?_modify]
  split <;> simp

/-- components after `deliver` -/
structure DeliverEffect (net : Net) (i : Nat) (nd : Node) (ev : Ev) (net' : Net) : Prop where
  nodes : net'.nodes = net.nodes.set i (nd.step ev).1
  len : net'.links.length = net.links.length
  hist : ∀ j, hist net' j =
    if j = i ∧ net.aliveAt (i + 1) = true ∧ i < net.links.length then hist net j ++ (nd.step ev).2.down
    else hist net j
  pos : ∀ j, pos net' j = pos net j
  upq : ∀ j, upq net' j =
    if j + 1 = i ∧ net.aliveAt (i - 1) = true ∧ j < net.links.length then upq net j ++ (nd.step ev).2.up else upq net j
  tasks : net'.tasks = net.tasks

theorem deliver_effect (net : Net) (i : Nat) (nd : Node) (ev : Ev) (hn : net.nodes[i]? = some nd) :
    DeliverEffect net i nd ev (net.deliver i ev) := by
  unfold Net.deliver
  simp only [hn]
  refine ⟨rfl, ?_, ?_, ?_, ?_, rfl⟩
  · split <;> split <;> simp [updLink_length]
  · intro j
    simp only [hist]
    by_cases ha : net.aliveAt (i + 1) = true
    · simp only [ha, if_true, true_and]
      by_cases h0 : (i = 0 || !net.aliveAt (i - 1)) = true
      · simp only [h0, if_true, updLink_get]
        by_cases hji : j = i
        · subst hji
          cases hl : net.links[j]? with
          | none =>
            have : ¬ j < net.links.length := by
              intro hlt; rw [List.getElem?_eq_getElem hlt] at hl; simp at hl
            simp [this]
          | some l =>
            have : j < net.links.length := by
              apply Classical.byContradiction; intro hge
              rw [List.getElem?_eq_none (by omega)] at hl; simp at hl
            simp [this]
        · have : ¬ i = j := fun h => hji h.symm
          simp [this, hji]
      · simp only [h0, Bool.false_eq_true, if_false, updLink_get]
        have hi0 : i ≠ 0 := by intro h; simp [h] at h0
        by_cases hji : j = i
        · subst hji
          have : ¬ j - 1 = j := by omega
          cases hl : net.links[j]? with
          | none =>
            have hlt : ¬ j < net.links.length := by
              intro hlt; rw [List.getElem?_eq_getElem hlt] at hl; simp at hl
            simp [this, hlt, hl]
          | some l =>
            have hlt : j < net.links.length := by
              apply Classical.byContradiction; intro hge
              rw [List.getElem?_eq_none (by omega)] at hl; simp at hl
            simp [this, hlt, hl]
        · have : ¬ i = j := fun h => hji h.symm
          by_cases hj1 : i - 1 = j
          · simp [hj1, this, hji]; cases net.links[j]? <;> simp
          · simp [hj1, this, hji]
    · simp only [ha, Bool.false_eq_true, if_false, false_and, and_false]
      by_cases h0 : (i = 0 || !net.aliveAt (i - 1)) = true
      · simp [h0]
      · simp only [h0, Bool.false_eq_true, if_false, updLink_get]
        by_cases hj1 : i - 1 = j
        · simp [hj1]; cases net.links[j]? <;> simp
        · simp [hj1]
  · intro j
    simp only [pos]
    by_cases ha : net.aliveAt (i + 1) = true <;> by_cases h0 : (i = 0 || !net.aliveAt (i - 1)) = true
    all_goals simp only [ha, h0, if_true, Bool.false_eq_true, if_false, updLink_get]
    all_goals (repeat' split)
    all_goals (first | rfl | (cases net.links[j]? <;> simp))
  · intro j
    simp only [upq]
    by_cases h0 : (i = 0 || !net.aliveAt (i - 1)) = true
    · have hcond : ¬ (j + 1 = i ∧ net.aliveAt (i - 1) = true ∧ j < net.links.length) := by
        rintro ⟨h1, h2, _⟩
        simp only [Bool.or_eq_true, decide_eq_true_eq, Bool.not_eq_eq_eq_not, Bool.not_true] at h0
        rcases h0 with h0 | h0
        · omega
        · rw [h2] at h0; simp at h0
      simp only [h0, if_true, hcond, if_false]
      by_cases ha : net.aliveAt (i + 1) = true
      · simp only [ha, if_true, updLink_get]
        split
        · cases net.links[j]? <;> simp
        · rfl
      · simp [ha]
    · have hi0 : i ≠ 0 := by intro h; simp [h] at h0
      have hal : net.aliveAt (i - 1) = true := by
        simp only [Bool.or_eq_true, decide_eq_true_eq, Bool.not_eq_eq_eq_not, Bool.not_true, not_or] at h0
        simpa using h0.2
      simp only [h0, Bool.false_eq_true, if_false, updLink_get]
      by_cases hj : j + 1 = i
      · have h1 : i - 1 = j := by omega
        by_cases ha : net.aliveAt (i + 1) = true
        · have : ¬ i = j := by omega
          simp only [ha, if_true, updLink_get, h1, this, if_false]
          cases hl : net.links[j]? with
          | none =>
            have : ¬ j < net.links.length := by
              intro hlt; rw [List.getElem?_eq_getElem hlt] at hl; simp at hl
            simp [this]
          | some l =>
            have : j < net.links.length := by
              apply Classical.byContradiction; intro hge
              rw [List.getElem?_eq_none (by omega)] at hl; simp at hl
            rw [h1] at hal
            simp [hal, this, hj]
        · simp only [ha, Bool.false_eq_true, if_false, h1, if_true]
          cases hl : net.links[j]? with
          | none =>
            have : ¬ j < net.links.length := by
              intro hlt; rw [List.getElem?_eq_getElem hlt] at hl; simp at hl
            simp [this]
          | some l =>
            have : j < net.links.length := by
              apply Classical.byContradiction; intro hge
              rw [List.getElem?_eq_none (by omega)] at hl; simp at hl
            rw [h1] at hal
            simp [hal, this, hj]
      · have h1 : ¬ i - 1 = j := by omega
        have hcond : ¬ (j + 1 = i ∧ net.aliveAt (i - 1) = true ∧ j < net.links.length) := fun h => hj h.1
        simp only [h1, if_false, hcond]
        by_cases ha : net.aliveAt (i + 1) = true
        · simp only [ha, if_true, updLink_get]
          split
          · cases net.links[j]? <;> simp
          · rfl
        · simp [ha]

end GoaktVerif.C45

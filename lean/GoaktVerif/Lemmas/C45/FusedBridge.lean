/-
C45 lemmas, part 16: with stage fusion on, the ideal content of the last link is still the list
semantics of the pipeline (same elements; fails iff `sem` has a candidate error, with one of them).
-/
import GoaktVerif.Lemmas.C45.FusedSem
import GoaktVerif.Lemmas.C45.Bridge

namespace GoaktVerif.C45
open GoaktVerif.Model.C45 GoaktVerif.Spec.C45

/-- the stages behind each node `fuseRuns` builds -/
def accGroup (acc : List Stage) : List (List Stage) :=
  match acc with
  | [] => []
  | _ => [acc.reverse]

def groupRuns : List Stage → List Stage → List (List Stage)
  | [], acc => accGroup acc
  | s :: rest, acc =>
    if s.fusable then groupRuns rest (s :: acc)
    else accGroup acc ++ [s] :: groupRuns rest []

def nodeOfGroup (g : List Stage) : Node :=
  match g with
  | [a] => mkNode a
  | g => .fused defaultCfg g {}

theorem accGroup_nodes (acc : List Stage) :
    (match acc with
      | [] => []
      | [a] => [mkNode a]
      | _ => [Node.fused defaultCfg acc.reverse {}]) = (accGroup acc).map nodeOfGroup := by
  match acc with
  | [] => rfl
  | [a] => rfl
  | a :: b :: r =>
    simp only [accGroup, List.map_cons, List.map_nil, nodeOfGroup]
    -- the reversed list has at least two elements, so it is not a singleton
    have hlen : (a :: b :: r).reverse.length ≥ 2 := by simp
    split
    · rename_i x heq
      have := congrArg List.length heq
      simp at this
    · rfl

theorem fuseRuns_eq (stages acc : List Stage) :
    fuseRuns stages acc = (groupRuns stages acc).map nodeOfGroup := by
  induction stages generalizing acc with
  | nil => simp only [fuseRuns, groupRuns]; exact accGroup_nodes acc
  | cons s rest ih =>
    simp only [fuseRuns, groupRuns]
    split
    · exact ih (s :: acc)
    · rw [List.map_append, List.map_cons, ← accGroup_nodes acc, ih []]
      rfl

theorem accGroup_flatten (acc : List Stage) : (accGroup acc).flatten = acc.reverse := by
  cases acc <;> simp [accGroup]

theorem groupRuns_flatten (stages acc : List Stage) : (groupRuns stages acc).flatten = acc.reverse ++ stages := by
  induction stages generalizing acc with
  | nil => simp [groupRuns, accGroup_flatten]
  | cons s rest ih =>
    simp only [groupRuns]
    split
    · rw [ih (s :: acc)]; simp
    · rw [List.flatten_append, accGroup_flatten, List.flatten_cons, ih []]; simp

/-- a group is a single covered stage or a run of fusable stages -/
def GoodGroup (g : List Stage) : Prop :=
  (∃ a, g = [a] ∧ Stage.covered a = true) ∨ (∀ st ∈ g, st.fusable = true)

theorem fusable_covered (st : Stage) (h : st.fusable = true) : Stage.covered st = true := by
  cases st <;> simp [Stage.fusable] at h <;> rfl

theorem groupRuns_good (stages acc : List Stage) (hs : ∀ st ∈ stages, Stage.covered st = true)
    (ha : ∀ st ∈ acc, st.fusable = true) : ∀ g ∈ groupRuns stages acc, GoodGroup g := by
  induction stages generalizing acc with
  | nil =>
    intro g hg
    cases acc with
    | nil => simp [groupRuns, accGroup] at hg
    | cons a r =>
      simp only [groupRuns, accGroup, List.mem_singleton] at hg
      subst hg
      exact Or.inr fun st hst => ha st (by simp at hst; rcases hst with h | h <;> simp [h])
  | cons s rest ih =>
    intro g hg
    have hs' : ∀ st ∈ rest, Stage.covered st = true := fun st h => hs st (by simp [h])
    simp only [groupRuns] at hg
    split at hg
    · rename_i hf
      exact ih (s :: acc) hs' (fun st h => by
        rcases List.mem_cons.mp h with rfl | h
        · exact hf
        · exact ha st h) g hg
    · rcases List.mem_append.mp hg with h1 | h1
      · cases acc with
        | nil => simp [accGroup] at h1
        | cons a r =>
          simp only [accGroup, List.mem_singleton] at h1
          subst h1
          exact Or.inr fun st hst => ha st (by simp at hst; rcases hst with h | h <;> simp [h])
      · rcases List.mem_cons.mp h1 with rfl | h2
        · exact Or.inl ⟨s, rfl, hs s (by simp)⟩
        · exact ih [] hs' (by simp) g h2

/-- the semantic function of the node built for a group -/
theorem midF_nodeOfGroup (g : List Stage) (h : GoodGroup g) :
    ∀ xs, (midF (nodeOfGroup g) xs).1 = (sem g xs).1 ∧
      ((midF (nodeOfGroup g) xs).2 = none ↔ (sem g xs).2 = []) ∧
      (∀ e, (midF (nodeOfGroup g) xs).2 = some e → e ∈ (sem g xs).2) := by
  intro xs
  have single : ∀ a, Stage.covered a = true →
      (midF (mkNode a) xs).1 = (sem [a] xs).1 ∧ ((midF (mkNode a) xs).2 = none ↔ (sem [a] xs).2 = []) ∧
      (∀ e, (midF (mkNode a) xs).2 = some e → e ∈ (sem [a] xs).2) := by
    intro a ha
    rw [midF_mkNode a ha, stageF_eq_stageSem a ha xs]
    simp only [sem, List.append_nil]
    refine ⟨trivial, ?_, fun e he => by rw [he]; simp⟩
    cases (stageSem a xs).2 <;> simp
  match g, h with
  | [a], h =>
    rcases h with ⟨b, hb, hc⟩ | hf
    · have : a = b := by simpa using hb
      subst this
      exact single a hc
    · exact single a (fusable_covered a (hf a (by simp)))
  | [], h =>
    rcases h with ⟨b, hb, _⟩ | hf
    · simp at hb
    · have := fusedSem [] (by simp) xs
      exact ⟨this.out, this.none_iff, this.mem⟩
  | a :: b :: r, h =>
    rcases h with ⟨c, hc, _⟩ | hf
    · simp at hc
    · have := fusedSem (a :: b :: r) hf xs
      exact ⟨this.out, this.none_iff, this.mem⟩

theorem sem_append (a b : List Stage) (xs : List Val) :
    sem (a ++ b) xs = ((sem b (sem a xs).1).1, (sem a xs).2 ++ (sem b (sem a xs).1).2) := by
  induction a generalizing xs with
  | nil => simp [sem]
  | cons s a ih => simp [sem, ih, List.append_assoc]

/-- same elements; fails iff the list semantics has a candidate error, with one of them -/
def SemRel (p q : List Val × List Err) : Prop :=
  p.1 = q.1 ∧ (p.2 = [] ↔ q.2 = []) ∧ ∀ e ∈ p.2, e ∈ q.2

theorem semF_groups (groups : List (List Stage)) (h : ∀ g ∈ groups, GoodGroup g) (xs : List Val) :
    SemRel (semF (groups.map fun g => midF (nodeOfGroup g)) xs) (sem groups.flatten xs) := by
  induction groups generalizing xs with
  | nil => exact ⟨rfl, by simp [semF, sem], by simp [semF]⟩
  | cons g rest ih =>
    obtain ⟨h1, h2, h3⟩ := midF_nodeOfGroup g (h g (by simp)) xs
    have ihr := ih (fun g' hg' => h g' (by simp [hg'])) (sem g xs).1
    obtain ⟨r1, r2, r3⟩ := ihr
    simp only [List.map_cons, semF, List.flatten_cons, sem_append, h1]
    refine ⟨r1, ?_, ?_⟩
    · simp only [List.append_eq_nil_iff]
      constructor
      · rintro ⟨ha, hb⟩
        refine ⟨h2.mp ?_, r2.mp hb⟩
        cases hm : (midF (nodeOfGroup g) xs).2 with
        | none => rfl
        | some e => rw [hm] at ha; simp at ha
      · rintro ⟨ha, hb⟩
        have := h2.mpr ha
        exact ⟨by rw [this]; rfl, r2.mpr hb⟩
    · intro e he
      rcases List.mem_append.mp he with he | he
      · refine List.mem_append_left _ (h3 e ?_)
        cases hm : (midF (nodeOfGroup g) xs).2 with
        | none => rw [hm] at he; simp at he
        | some e' => rw [hm] at he; simp at he; rw [he]
      · exact List.mem_append_right _ (r3 e he)

end GoaktVerif.C45

/-
C45 lemmas, part 15: a fused run of Map / TryMap / Filter stages (element-wise composition, as
`applyFusion` builds it) delivers the same elements as the stage-by-stage list semantics, and fails
exactly when some stage of the run fails, with one of those stages' errors.
-/
import GoaktVerif.Lemmas.C45.Nodes
import GoaktVerif.Lemmas.C45.Sem
import GoaktVerif.Model.C45.Net

namespace GoaktVerif.C45
open GoaktVerif.Model.C45 GoaktVerif.Spec.C45

/-- a fusable stage's closure keeps no state and yields at most one output -/
theorem fusable_step (st : Stage) (h : st.fusable = true) (t : TS) (v : Val) :
    (∃ e, xfStep st t v = .error e ∧ xfStep st {} v = .error e) ∨
    (xfStep st t v = .ok (t, []) ∧ xfStep st {} v = .ok ({}, [])) ∨
    (∃ w, xfStep st t v = .ok (t, [w]) ∧ xfStep st {} v = .ok ({}, [w])) := by
  cases st <;> simp [Stage.fusable] at h
  · -- map
    cases v with
    | int x => exact Or.inr (Or.inr ⟨_, rfl, rfl⟩)
    | list l => exact Or.inl ⟨_, rfl, rfl⟩
  · -- tryMap
    rename_i k bad e
    cases v with
    | int x =>
      by_cases hx : x = bad
      · exact Or.inl ⟨e, by simp [xfStep, hx], by simp [xfStep, hx]⟩
      · exact Or.inr (Or.inr ⟨.int (x + k), by simp [xfStep, hx], by simp [xfStep, hx]⟩)
    | list l => exact Or.inl ⟨_, rfl, rfl⟩
  · -- filter
    rename_i m r
    cases v with
    | int x =>
      by_cases hx : x.emod m = r
      · exact Or.inr (Or.inl ⟨by simp [xfStep, hx], by simp [xfStep, hx]⟩)
      · exact Or.inr (Or.inr ⟨.int x, by simp [xfStep, hx], by simp [xfStep, hx]⟩)
    | list l => exact Or.inl ⟨_, rfl, rfl⟩

/-- the closure state of a fusable stage never changes, so any starting state gives the same run -/
theorem xfRun_fusable_state (st : Stage) (h : st.fusable = true) (t : TS) (xs : List Val) :
    xfRun st t xs = xfRun st {} xs := by
  induction xs generalizing t with
  | nil => rfl
  | cons v xs ih =>
    rcases fusable_step st h t v with ⟨e, h1, h2⟩ | ⟨h1, h2⟩ | ⟨w, h1, h2⟩
    · simp [xfRun, h1, h2]
    · simp only [xfRun, h1, h2]; rw [ih t, ih {}]
    · simp only [xfRun, h1, h2]; rw [ih t, ih {}]

/-- combining the failure of the rest of the run (seen first, element-wise) with the head stage's own -/
def firstErr (e2 e1 : Option Err) : Option Err := match e2 with | some e => some e | none => e1

/-- element-wise composition = head stage over the list, then the rest of the run over its outputs -/
theorem fusedRun_cons (st : Stage) (rest : List Stage) (h : st.fusable = true) (xs : List Val) :
    fusedRun (st :: rest) xs =
      ((fusedRun rest (xfRun st {} xs).1).1, firstErr (fusedRun rest (xfRun st {} xs).1).2 (xfRun st {} xs).2) := by
  induction xs with
  | nil => simp [fusedRun, xfRun, firstErr]
  | cons v xs ih =>
    rcases fusable_step st h {} v with ⟨e, h1, _⟩ | ⟨h1, _⟩ | ⟨w, h1, _⟩
    · simp [fusedRun, fusedFn, xfRun, h1, firstErr]
    · have hx : xfRun st {} (v :: xs) = xfRun st {} xs := by simp [xfRun, h1]
      simp only [fusedRun, fusedFn, h1, hx, ih, Option.toList, List.nil_append]
    · have hx : xfRun st {} (v :: xs) = (w :: (xfRun st {} xs).1, (xfRun st {} xs).2) := by
        simp [xfRun, h1]
      rw [hx]
      simp only [fusedRun, fusedFn, h1]
      cases hr : fusedFn rest w with
      | error e => simp [firstErr]
      | ok r =>
        simp only [ih]

/-- the three facts relating a fused run to the list semantics -/
structure FusedSem (fs : List Stage) (xs : List Val) : Prop where
  out : (fusedRun fs xs).1 = (sem fs xs).1
  none_iff : (fusedRun fs xs).2 = none ↔ (sem fs xs).2 = []
  mem : ∀ e, (fusedRun fs xs).2 = some e → e ∈ (sem fs xs).2

theorem fusedRun_nil (xs : List Val) : fusedRun [] xs = (xs, none) := by
  induction xs with
  | nil => rfl
  | cons v xs ih => simp [fusedRun, fusedFn, ih]

theorem fusable_isFlow (st : Stage) (h : st.fusable = true) : st.isFlow = true := by
  cases st <;> simp [Stage.fusable] at h <;> rfl

theorem fusedSem (fs : List Stage) (h : ∀ st ∈ fs, st.fusable = true) (xs : List Val) : FusedSem fs xs := by
  induction fs generalizing xs with
  | nil => exact ⟨by simp [fusedRun_nil, sem], by simp [fusedRun_nil, sem], by simp [fusedRun_nil]⟩
  | cons st rest ih =>
    have hst := h st (by simp)
    have hx := xfRun_eq_stageSem st (fusable_isFlow st hst) xs
    have ihr := ih (fun s hs => h s (by simp [hs])) (stageSem st xs).1
    have hfc := fusedRun_cons st rest hst xs
    rw [hx] at hfc
    refine ⟨by rw [hfc]; simp only [sem]; exact ihr.out, ?_, ?_⟩
    all_goals rw [hfc]
    · simp only [sem, firstErr]
      cases h2 : (fusedRun rest (stageSem st xs).1).2 with
      | some e =>
        have := ihr.mem e h2
        simp only [List.append_eq_nil_iff]
        constructor
        · intro hh; simp at hh
        · intro hh; rw [hh.2] at this; simp at this
      | none =>
        have hq := ihr.none_iff.mp h2
        simp only [hq, List.append_nil]
        cases (stageSem st xs).2 <;> simp
    · intro e he
      simp only [sem, firstErr] at he ⊢
      cases h2 : (fusedRun rest (stageSem st xs).1).2 with
      | some e' =>
        rw [h2] at he
        have : e = e' := by simpa using he.symm
        subst this
        exact List.mem_append_right _ (ihr.mem e h2)
      | none =>
        rw [h2] at he
        simp only at he
        exact List.mem_append_left _ (by rw [he]; simp)

end GoaktVerif.C45

/-
C45 lemmas, part 5: the stage specification in "content" form (`SpecM`), closed under further
input, and its composition along a chain of stages connected by FIFO links.
-/
import GoaktVerif.Lemmas.C45.Hist

namespace GoaktVerif.C45
open GoaktVerif.Model.C45

/-! ### prefixes of histories -/

theorem elemsOf_prefix (a b : List Down) : elemsOf a <+: elemsOf (a ++ b) := by
  cases h : termOf a with
  | none => rw [elemsOf_append_open h]; exact List.prefix_append _ _
  | some c => rw [elemsOf_append_closed (by rw [h]; simp)]; exact List.prefix_refl _

theorem termOf_of_prefix_closed {a b : List Down} {c : Option Err} (h : termOf a = some c) :
    termOf (a ++ b) = some c ∧ elemsOf (a ++ b) = elemsOf a := by
  have hne : termOf a ≠ none := by rw [h]; simp
  exact ⟨by rw [termOf_append_closed hne, h], elemsOf_append_closed hne _⟩

/-- the semantic function of a stage: outputs before the first failure, and that failure -/
abbrev SemFn := List Val → List Val × Option Err

/-- what a stage has sent (`outs`) against what it has handled (`ins`), as contents; `P` restricts the ideal
    inputs `X` the error clause speaks about (e.g. homogeneous element types) -/
structure SpecM (P : List Val → Prop) (F : SemFn) (ins outs : List Down) : Prop where
  wfOut : wf outs = true
  pre1 : elemsOf outs <+: (F (elemsOf ins)).1
  pre2 : termOf ins ≠ some none → ∀ X, elemsOf ins <+: X → elemsOf outs <+: (F X).1
  compl : termOf outs = some none →
    termOf ins = some none ∧ (F (elemsOf ins)).2 = none ∧ elemsOf outs = (F (elemsOf ins)).1
  err : ∀ e, termOf outs = some (some e) →
    termOf ins = some (some e) ∨ ∀ X, elemsOf ins <+: X → P X → (F X).2 = some e

/-- the specification survives further input (the stage's output frozen) -/
theorem SpecM.extend {P : List Val → Prop} {F : SemFn} {ins outs : List Down} (h : SpecM P F ins outs) (t : List Down) :
    SpecM P F (ins ++ t) outs := by
  cases hc : termOf ins with
  | some c =>
    obtain ⟨h1, h2⟩ := termOf_of_prefix_closed (b := t) hc
    refine ⟨h.wfOut, by rw [h2]; exact h.pre1, ?_, ?_, ?_⟩
    · intro hn X hX
      rw [h2] at hX
      exact h.pre2 (by rw [hc]; rw [h1] at hn; exact hn) X hX
    · intro ho; rw [h1, h2]; rw [← hc]; exact h.compl ho
    · intro e ho; rw [h1, h2]; rw [← hc]; exact h.err e ho
  | none =>
    have hpre := elemsOf_prefix ins t
    have hopen : termOf ins ≠ some none := by rw [hc]; simp
    refine ⟨h.wfOut, h.pre2 hopen _ hpre, ?_, ?_, ?_⟩
    · intro _ X hX; exact h.pre2 hopen X (hpre.trans hX)
    · intro ho; have := (h.compl ho).1; rw [hc] at this; simp at this
    · intro e ho
      rcases h.err e ho with h1 | h1
      · rw [hc] at h1; simp at h1
      · exact Or.inr fun X hX hP => h1 X (hpre.trans hX) hP

/-- the error clause for a larger class of ideal inputs implies the one for a smaller class -/
theorem SpecM.weaken {P Q : List Val → Prop} {F : SemFn} {ins outs : List Down} (hPQ : ∀ X, P X → Q X)
    (h : SpecM Q F ins outs) : SpecM P F ins outs :=
  ⟨h.wfOut, h.pre1, h.pre2, h.compl, fun e he => (h.err e he).imp id fun h1 X hX hP => h1 X hX (hPQ X hP)⟩

/-! ### composition -/

/-- what is known about a history `up` relative to the ideal list `X` flowing on that link and the
    candidate errors `es` of the stages above it -/
structure Approx (up : List Down) (X : List Val) (es : List Err) : Prop where
  pre : elemsOf up <+: X
  compl : termOf up = some none → elemsOf up = X ∧ es = []
  err : ∀ e, termOf up = some (some e) → e ∈ es

/-- one stage: its input history is a prefix of what the upstream link carries -/
theorem Approx.step {P : List Val → Prop} {up ins rest outs : List Down} {X : List Val} {es : List Err} {F : SemFn}
    (hup : Approx up X es) (hlink : up = ins ++ rest) (hs : SpecM P F ins outs) (hP : P X) :
    Approx outs (F X).1 (es ++ (F X).2.toList) := by
  have hxs : elemsOf ins <+: X := by
    have := elemsOf_prefix ins rest; rw [← hlink] at this; exact this.trans hup.pre
  refine ⟨?_, ?_, ?_⟩
  · by_cases hc : termOf ins = some none
    · obtain ⟨h1, h2⟩ := termOf_of_prefix_closed (b := rest) hc
      rw [← hlink] at h1 h2
      have := (hup.compl h1).1
      rw [h2] at this
      rw [← this]; exact hs.pre1
    · exact hs.pre2 hc X hxs
  · intro ho
    obtain ⟨hti, he, hy⟩ := hs.compl ho
    obtain ⟨h1, h2⟩ := termOf_of_prefix_closed (b := rest) hti
    rw [← hlink] at h1 h2
    obtain ⟨hX, hes⟩ := hup.compl h1
    rw [h2] at hX
    rw [← hX, hy, he, hes]; exact ⟨rfl, rfl⟩
  · intro e ho
    rcases hs.err e ho with hi | hi
    · obtain ⟨h1, _⟩ := termOf_of_prefix_closed (b := rest) hi
      rw [← hlink] at h1
      exact List.mem_append_left _ (hup.err e h1)
    · have := hi X hxs hP
      exact List.mem_append_right _ (by rw [this]; simp)

end GoaktVerif.C45

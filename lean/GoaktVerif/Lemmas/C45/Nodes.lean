/-
C45 lemmas, part 6: every kind of stage node satisfies `SpecM` for its semantic function:
flowActor (from `FlowInv`), fusedFlowActor, batchFlowActor (as long as no flush was starved).
-/
import GoaktVerif.Lemmas.C45.Flow
import GoaktVerif.Lemmas.C45.Chain
import GoaktVerif.Spec.C45

namespace GoaktVerif.C45
open GoaktVerif.Model.C45

/-! ### flowActor -/

theorem FlowInv.specM {P : List Val → Prop} {st : Stage} {s : FlowSt} {ins outs : List Down} (h : FlowInv st s ins outs) :
    SpecM P (xfRun st {}) ins outs := by
  have hp := h.prefix
  refine ⟨h.wfOut, hp, ?_, ?_, ?_⟩
  · intro _ X hX
    obtain ⟨rest, rfl⟩ := hX
    exact hp.trans (xfRun_prefix st {} _ rest)
  · intro ho
    by_cases ha : s.alive = true
    · by_cases hc : s.completing = true
      · have := (h.compl ha hc).2.1; rw [ho] at this; simp at this
      · have := (h.live ha (by simpa using hc)).2.1; rw [ho] at this; simp at this
    · rcases h.dead (by simpa using ha) with ⟨_, h2, h3⟩ | ⟨e, h1, _⟩ | ⟨h1, _⟩
      · exact ⟨h2, by rw [h3], by rw [h3]⟩
      · rw [ho] at h1; simp at h1
      · rw [ho] at h1; simp at h1
  · intro e ho
    by_cases ha : s.alive = true
    · by_cases hc : s.completing = true
      · have := (h.compl ha hc).2.1; rw [ho] at this; simp at this
      · have := (h.live ha (by simpa using hc)).2.1; rw [ho] at this; simp at this
    · rcases h.dead (by simpa using ha) with ⟨h1, _⟩ | ⟨e', h1, _, h3⟩ | ⟨h1, _⟩
      · rw [ho] at h1; simp at h1
      · rw [ho] at h1
        have : e = e' := by simpa using h1
        subst this
        rcases h3 with h3 | h3
        · exact Or.inl h3
        · refine Or.inr fun X hX _ => ?_
          obtain ⟨rest, rfl⟩ := hX
          rw [xfRun_err_stable st {} _ rest e h3]; exact h3
      · rw [ho] at h1; simp at h1

/-! ### fusedFlowActor -/

/-- the composed `fuseFn` folded over a list -/
def fusedRun (fs : List Stage) : SemFn
  | [] => ([], none)
  | x :: xs =>
    match fusedFn fs x with
    | .error e => ([], some e)
    | .ok r => (r.toList ++ (fusedRun fs xs).1, (fusedRun fs xs).2)

theorem fusedRun_append_ok (fs : List Stage) (xs ys : List Val) (h : (fusedRun fs xs).2 = none) :
    fusedRun fs (xs ++ ys) = ((fusedRun fs xs).1 ++ (fusedRun fs ys).1, (fusedRun fs ys).2) := by
  induction xs with
  | nil => simp [fusedRun]
  | cons x xs ih =>
    cases hx : fusedFn fs x with
    | error e => simp [fusedRun, hx] at h
    | ok r =>
      simp only [fusedRun, hx] at h
      simp only [List.cons_append, fusedRun, hx, ih h, List.append_assoc]

theorem fusedRun_prefix (fs : List Stage) (xs rest : List Val) :
    (fusedRun fs xs).1 <+: (fusedRun fs (xs ++ rest)).1 := by
  induction xs with
  | nil => simp [fusedRun]
  | cons x xs ih =>
    cases hx : fusedFn fs x with
    | error e => simp [fusedRun, hx]
    | ok r =>
      simp only [List.cons_append, fusedRun, hx]
      exact (List.prefix_append_right_inj _).mpr ih

theorem fusedRun_err_stable (fs : List Stage) (xs rest : List Val) (e : Err)
    (h : (fusedRun fs xs).2 = some e) : fusedRun fs (xs ++ rest) = fusedRun fs xs := by
  induction xs with
  | nil => simp [fusedRun] at h
  | cons x xs ih =>
    cases hx : fusedFn fs x with
    | error e' => simp [fusedRun, hx]
    | ok r =>
      simp only [fusedRun, hx] at h
      simp only [List.cons_append, fusedRun, hx, ih h]

/-- fused stage: no buffer, so what was sent IS the semantics of what was handled -/
structure FusedInv (fs : List Stage) (s : FusedSt) (ins outs : List Down) : Prop where
  wfOut : wf outs = true
  live : s.alive = true → termOf ins = none ∧ termOf outs = none ∧
    fusedRun fs (elemsOf ins) = (elemsOf outs, none)
  dead : s.alive = false →
    (termOf outs = some none ∧ termOf ins = some none ∧ fusedRun fs (elemsOf ins) = (elemsOf outs, none))
    ∨ (∃ e, termOf outs = some (some e) ∧ elemsOf outs <+: (fusedRun fs (elemsOf ins)).1 ∧
        (termOf ins = some (some e) ∨ (fusedRun fs (elemsOf ins)).2 = some e))

theorem FusedInv.init (fs : List Stage) : FusedInv fs {} [] [] :=
  ⟨rfl, fun _ => ⟨rfl, rfl, rfl⟩, fun h => by simp at h⟩

/-- a message from upstream -/
theorem FusedInv.step_down {fs : List Stage} {s : FusedSt} {ins outs : List Down} (cfg : Cfg) (d : Down)
    (h : FusedInv fs s ins outs) (ha : s.alive = true) (hw : wf (ins ++ [d]) = true) :
    FusedInv fs (fusedStep cfg fs s (.down d)).1 (ins ++ [d]) (outs ++ (fusedStep cfg fs s (.down d)).2.down) := by
  obtain ⟨hio, ho, hr⟩ := h.live ha
  cases d with
  | elem v =>
    simp only [fusedStep]
    have hrun : fusedRun fs (elemsOf ins ++ [v]) =
        ((fusedRun fs (elemsOf ins)).1 ++ (fusedRun fs [v]).1, (fusedRun fs [v]).2) :=
      fusedRun_append_ok fs _ [v] (by rw [hr])
    cases hx : fusedFn fs v with
    | error e =>
      have h1 : fusedRun fs [v] = ([], some e) := by simp [fusedRun, hx]
      simp only
      refine ⟨by rw [wf_append_open ho, h.wfOut]; rfl, fun h1 => by simp at h1, fun _ => ?_⟩
      right
      refine ⟨e, by rw [termOf_append_open ho]; rfl, ?_, Or.inr ?_⟩
      · rw [elemsOf_append_open ho, elemsOf_snoc_elem hio, hrun, hr, h1]; simp [elemsOf]
      · rw [elemsOf_snoc_elem hio, hrun, h1]
    | ok r =>
      have h1 : fusedRun fs [v] = (r.toList, none) := by
        simp [fusedRun, hx]
      have key : ∀ (s' : FusedSt) (up : List Up), s'.alive = true →
          FusedInv fs s' (ins ++ [.elem v]) (outs ++ r.toList.map Down.elem) := by
        intro s' up hs'
        have t1 : termOf (outs ++ r.toList.map Down.elem) = none := by
          rw [termOf_append_open ho, termOf_map_elem]
        refine ⟨wf_of_open t1, fun _ => ⟨termOf_snoc hio _, t1, ?_⟩, fun hh => by rw [hs'] at hh; simp at hh⟩
        rw [elemsOf_snoc_elem hio, hrun, hr, h1, elemsOf_append_open ho, elemsOf_map_elem]
      simp only
      split
      · exact key _ [] ha
      · exact key _ [] ha
  | complete =>
    simp only [fusedStep]
    refine ⟨by rw [wf_append_open ho, h.wfOut]; rfl, fun h1 => by simp at h1, fun _ => Or.inl ?_⟩
    refine ⟨by rw [termOf_append_open ho]; rfl, termOf_snoc hio _, ?_⟩
    rw [elemsOf_snoc_term (d := Down.complete) rfl, elemsOf_append_open ho, hr]; simp [elemsOf]
  | error e =>
    simp only [fusedStep]
    refine ⟨by rw [wf_append_open ho, h.wfOut]; rfl, fun h1 => by simp at h1, fun _ => Or.inr ?_⟩
    refine ⟨e, by rw [termOf_append_open ho]; rfl, ?_, Or.inl (termOf_snoc hio _)⟩
    have e2 := elemsOf_snoc_term (h := ins) (d := Down.error e) rfl
    have e3 := elemsOf_snoc_term (h := outs) (d := Down.error e) rfl
    simp only [e2, hr]
    first | exact List.prefix_refl _ | (rw [e3]; exact List.prefix_refl _)

/-- requests are not handled by a fused stage; the wire only sends a request -/
theorem FusedInv.step_other {fs : List Stage} {s : FusedSt} {ins outs : List Down} (cfg : Cfg) (ev : Ev)
    (h : FusedInv fs s ins outs) (hd : ∀ d, ev ≠ .down d) (hc : ev ≠ .up .cancel) :
    FusedInv fs (fusedStep cfg fs s ev).1 ins (outs ++ (fusedStep cfg fs s ev).2.down) := by
  cases ev with
  | down d => exact absurd rfl (hd d)
  | wire => simpa [fusedStep] using h
  | up u =>
    cases u with
    | req n =>
      simp only [fusedStep]
      split
      · simpa using h
      · simp only [List.append_nil]
        exact ⟨h.wfOut, fun ha => h.live ha, fun ha => h.dead ha⟩
    | cancel => exact absurd rfl hc
  | result q r => simpa [fusedStep] using h
  | flush => simpa [fusedStep] using h

theorem FusedInv.specM {P : List Val → Prop} {fs : List Stage} {s : FusedSt} {ins outs : List Down} (h : FusedInv fs s ins outs) :
    SpecM P (fusedRun fs) ins outs := by
  have hp : elemsOf outs <+: (fusedRun fs (elemsOf ins)).1 := by
    by_cases ha : s.alive = true
    · rw [(h.live ha).2.2]; exact List.prefix_refl _
    · rcases h.dead (by simpa using ha) with ⟨_, _, h3⟩ | ⟨e, _, h2, _⟩
      · rw [h3]; exact List.prefix_refl _
      · exact h2
  refine ⟨h.wfOut, hp, ?_, ?_, ?_⟩
  · intro _ X hX
    obtain ⟨rest, rfl⟩ := hX
    exact hp.trans (fusedRun_prefix fs _ rest)
  · intro ho
    by_cases ha : s.alive = true
    · have := (h.live ha).2.1; rw [ho] at this; simp at this
    · rcases h.dead (by simpa using ha) with ⟨_, h2, h3⟩ | ⟨e, h1, _⟩
      · exact ⟨h2, by rw [h3], by rw [h3]⟩
      · rw [ho] at h1; simp at h1
  · intro e ho
    by_cases ha : s.alive = true
    · have := (h.live ha).2.1; rw [ho] at this; simp at this
    · rcases h.dead (by simpa using ha) with ⟨h1, _⟩ | ⟨e', h1, _, h3⟩
      · rw [ho] at h1; simp at h1
      · rw [ho] at h1
        have : e = e' := by simpa using h1
        subst this
        rcases h3 with h3 | h3
        · exact Or.inl h3
        · refine Or.inr fun X hX _ => ?_
          obtain ⟨rest, rfl⟩ := hX
          rw [fusedRun_err_stable fs _ rest e h3]; exact h3

end GoaktVerif.C45

namespace GoaktVerif.C45
open GoaktVerif.Model.C45

/-! ### pullSourceActor over `Of(input)` -/

structure SrcInv (input : List Val) (s : SrcSt) (outs : List Down) : Prop where
  wfOut : wf outs = true
  live : s.alive = true → termOf outs = none ∧ elemsOf outs ++ s.rest = input
  dead : s.alive = false → termOf outs = some none ∧ elemsOf outs = input

theorem SrcInv.init (input : List Val) : SrcInv input { rest := input } [] :=
  ⟨rfl, fun _ => ⟨rfl, rfl⟩, fun h => by simp at h⟩

theorem SrcInv.step_req {input : List Val} {s : SrcSt} {outs : List Down} (n : Int)
    (h : SrcInv input s outs) (ha : s.alive = true) :
    SrcInv input (srcStep s (.up (.req n))).1 (outs ++ (srcStep s (.up (.req n))).2.down) := by
  obtain ⟨ho, hr⟩ := h.live ha
  simp only [srcStep]
  cases hrest : s.rest with
  | nil =>
    simp only
    refine ⟨by rw [wf_append_open ho, h.wfOut]; rfl, fun h1 => by simp at h1, fun _ => ?_⟩
    refine ⟨by rw [termOf_append_open ho]; rfl, ?_⟩
    rw [elemsOf_snoc_term (d := Down.complete) rfl]; rw [hrest] at hr; simpa using hr
  | cons x xs =>
    simp only
    have hsplit : (x :: xs).take (min n.toNat (x :: xs).length) ++ (x :: xs).drop (min n.toNat (x :: xs).length) = x :: xs :=
      List.take_append_drop _ _
    split
    · rename_i hemp
      have hd : (x :: xs).drop (min n.toNat (x :: xs).length) = [] := List.isEmpty_iff.mp hemp
      rw [hd, List.append_nil] at hsplit
      refine ⟨?_, fun h1 => by simp at h1, fun _ => ⟨?_, ?_⟩⟩
      · rw [wf_append_open ho, h.wfOut, wf_append_open (termOf_map_elem _), wf_map_elem]; rfl
      · rw [termOf_append_open ho, termOf_append_open (termOf_map_elem _)]; rfl
      · rw [elemsOf_append_open ho, elemsOf_append_open (termOf_map_elem _), elemsOf_map_elem, hsplit]
        rw [hrest] at hr; simpa [elemsOf] using hr
    · have t1 : termOf (outs ++ List.map Down.elem ((x :: xs).take (min n.toNat (x :: xs).length))) = none := by
        rw [termOf_append_open ho, termOf_map_elem]
      refine ⟨wf_of_open t1, fun _ => ⟨t1, ?_⟩, fun h1 => by simp [ha] at h1⟩
      rw [elemsOf_append_open ho, elemsOf_map_elem, List.append_assoc, hsplit]
      rw [hrest] at hr; exact hr

/-- what the source's link carries, against the input list -/
theorem SrcInv.approx {input : List Val} {s : SrcSt} {outs : List Down} (h : SrcInv input s outs) :
    Approx outs input [] := by
  by_cases ha : s.alive = true
  · obtain ⟨ho, hr⟩ := h.live ha
    refine ⟨by rw [← hr]; exact List.prefix_append _ _, fun hc => by rw [ho] at hc; simp at hc,
      fun e he => by rw [ho] at he; simp at he⟩
  · obtain ⟨ho, hr⟩ := h.dead (by simpa using ha)
    exact ⟨by rw [hr]; exact List.prefix_refl _, fun _ => ⟨hr, rfl⟩, fun e he => by rw [ho] at he; simp at he⟩

end GoaktVerif.C45

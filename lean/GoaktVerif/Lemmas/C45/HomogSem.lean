/-
C45 lemmas, part 20: every link of a pipeline carries elements of one type (all ints or all lists)
when the input does — the list semantics of every stage preserves homogeneity.
-/
import GoaktVerif.Lemmas.C45.FusedBridge

namespace GoaktVerif.C45
open GoaktVerif.Model.C45 GoaktVerif.Spec.C45

theorem homog_ints {l : List Val} (h : ∀ v ∈ l, isInt v = true) : Homog l := Or.inl h
theorem homog_lists {l : List Val} (h : ∀ v ∈ l, isInt v = false) : Homog l := Or.inr h

theorem stageSem_homog (st : Stage) (X : List Val) (hX : Homog X) : Homog (stageSem st X).1 := by
  cases st with
  | buffer n => exact hX
  | batch n =>
    apply homog_lists; intro v hv; simp only [stageSem, List.mem_map] at hv
    obtain ⟨l, _, rfl⟩ := hv; rfl
  | map k =>
    apply homog_ints; intro v hv; simp only [stageSem, List.mem_map] at hv
    obtain ⟨x, _, rfl⟩ := hv; rfl
  | tryMap k bad e =>
    apply homog_ints; intro v hv; simp only [stageSem, List.mem_map] at hv
    obtain ⟨x, _, rfl⟩ := hv; rfl
  | filter m r =>
    apply homog_ints; intro v hv; simp only [stageSem, List.mem_map] at hv
    obtain ⟨x, _, rfl⟩ := hv; rfl
  | flatMap r =>
    apply homog_ints; intro v hv; simp only [stageSem, List.mem_flatMap, List.mem_replicate] at hv
    obtain ⟨x, _, _, rfl⟩ := hv; rfl
  | flatten =>
    apply homog_ints; intro v hv; simp only [stageSem, List.mem_flatMap, List.mem_map] at hv
    obtain ⟨l, _, x, _, rfl⟩ := hv; rfl
  | scan =>
    apply homog_ints; intro v hv; simp only [stageSem, List.mem_map] at hv
    obtain ⟨x, _, rfl⟩ := hv; rfl
  | dedup =>
    apply homog_ints; intro v hv; simp only [stageSem, List.mem_map] at hv
    obtain ⟨x, _, rfl⟩ := hv; rfl
  | opmap w k bad e =>
    apply homog_ints; intro v hv; simp only [stageSem, List.mem_map] at hv
    obtain ⟨x, _, rfl⟩ := hv; rfl
  | pmap w k bad e =>
    apply homog_ints; intro v hv; simp only [stageSem, List.mem_map] at hv
    obtain ⟨x, _, rfl⟩ := hv; rfl
  | sum =>
    apply homog_ints; intro v hv; simp only [stageSem, List.mem_map] at hv
    obtain ⟨l, _, rfl⟩ := hv; rfl

theorem sem_homog (stages : List Stage) (X : List Val) (hX : Homog X) : Homog (sem stages X).1 := by
  induction stages generalizing X with
  | nil => exact hX
  | cons st rest ih => simp only [sem]; exact ih _ (stageSem_homog st X hX)

/-- the function of a node built for a good group preserves homogeneity -/
theorem group_homog (g : List Stage) (hg : GoodGroup g) (X : List Val) (hX : Homog X) :
    Homog (midF (nodeOfGroup g) X).1 := by
  rw [(midF_nodeOfGroup g hg X).1]; exact sem_homog g X hX

theorem idealAt_homog (Fs : List SemFn) (input : List Val)
    (hF : ∀ F ∈ Fs, ∀ X, Homog X → Homog (F X).1) (hin : Homog input) :
    ∀ j, Homog (idealAt Fs input j).1 := by
  intro j
  induction j with
  | zero => exact hin
  | succ j ih =>
    simp only [idealAt]
    cases hget : Fs[j + 1]? with
    | none => exact ih
    | some F => exact hF F (List.mem_of_getElem? hget) _ ih

end GoaktVerif.C45

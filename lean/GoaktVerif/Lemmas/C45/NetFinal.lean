/-
C45 lemmas, part 10: from the network invariant to what the sink observes.
-/
import GoaktVerif.Lemmas.C45.NetStep

namespace GoaktVerif.C45
open GoaktVerif.Model.C45

/-- the ideal list flowing on link `i` (what the stages above it produce from the whole input before their
    first failure) and the candidate errors of the stages above it; `Fs[0]` belongs to the source and is not used -/
def idealAt (Fs : List SemFn) (input : List Val) : Nat → List Val × List Err
  | 0 => (input, [])
  | i + 1 =>
    match Fs[i + 1]? with
    | some F => ((F (idealAt Fs input i).1).1, (idealAt Fs input i).2 ++ (F (idealAt Fs input i).1).2.toList)
    | none => idealAt Fs input i

theorem hist_split (net : Net) (i : Nat) : hist net i = insOf net (i + 1) ++ (hist net i).drop (pos net i) := by
  simp only [insOf, Nat.add_sub_cancel]; exact (List.take_append_drop _ _).symm

/-- every link carries an approximation of its ideal content -/
theorem GInv.approx_link {P : List Val → Prop} {input : List Val} {net : Net} (h : GInv P input net)
    (hP : ∀ j, P (idealAt (semsOf net) input j).1) (i : Nat)
    (hi : i + 1 < net.nodes.length)
    (hu : ∀ (j : Nat) nd, j ≤ i → net.nodes[j]? = some nd → isUnord nd = false) :
    Approx (hist net i) (idealAt (semsOf net) input i).1 (idealAt (semsOf net) input i).2 := by
  induction i with
  | zero => obtain ⟨s, _, hap, _⟩ := h.src; exact hap
  | succ i ih =>
    have hi' : i + 1 < net.nodes.length := by omega
    have hlt : i + 1 < net.nodes.length := hi'
    obtain ⟨nd, hn⟩ : ∃ nd, net.nodes[i + 1]? = some nd := ⟨net.nodes[i + 1], List.getElem?_eq_getElem hlt⟩
    obtain ⟨_, hsp, _⟩ := h.mid (i + 1) nd (by omega) hi hn
    have hF : (semsOf net)[i + 1]? = some (midF nd) := by simp [semsOf, hn]
    simp only [idealAt, hF]
    exact (ih hi' fun j nd hj => hu j nd (by omega)).step (hist_split net i)
      (hsp.specM (hu (i + 1) nd (Nat.le_refl _) hn)) (hP i)

/-- what the sink may have observed, against an ideal output list and a list of candidate errors -/
def SinkOK' (Y : List Val) (es : List Err) (s : SinkSt) : Prop :=
  s.hooks ≤ 1 ∧ (s.alive = false → s.hooks = 1) ∧
  s.received <+: Y ∧
  (s.alive = false → s.termErr = none → s.received = Y ∧ es = []) ∧
  (∀ e, s.termErr = some e → e ∈ es)

/-- the sink's record, in every state of every run, against the ideal content of the last link -/
theorem GInv.sink_ok {P : List Val → Prop} {input : List Val} {net : Net} (h : GInv P input net)
    (hP : ∀ j, P (idealAt (semsOf net) input j).1) (s : SinkSt)
    (hs : net.sink? = some s)
    (hu : ∀ (j : Nat) nd, net.nodes[j]? = some nd → isUnord nd = false) :
    SinkOK' (idealAt (semsOf net) input (net.nodes.length - 2)).1
            (idealAt (semsOf net) input (net.nodes.length - 2)).2 s := by
  obtain ⟨c, s0, hs0, hsi⟩ := h.sink
  have htwo := h.two
  have hlast : net.nodes.getLast? = some (.sink c s0) := by
    rw [List.getLast?_eq_getElem?]; exact hs0
  have hss : s0 = s := by
    simp only [Net.sink?, hlast] at hs; exact Option.some.inj hs
  subst hss
  have hap := h.approx_link hP (net.nodes.length - 2) (by omega) (fun j nd _ => hu j nd)
  have hsplit := hist_split net (net.nodes.length - 2)
  have hidx : net.nodes.length - 2 + 1 = net.nodes.length - 1 := by omega
  rw [hidx] at hsplit
  have hpre : elemsOf (insOf net (net.nodes.length - 1)) <+: elemsOf (hist net (net.nodes.length - 2)) := by
    have := elemsOf_prefix (insOf net (net.nodes.length - 1)) ((hist net (net.nodes.length - 2)).drop (pos net (net.nodes.length - 2)))
    rw [← hsplit] at this; exact this
  have hclosed : ∀ t, termOf (insOf net (net.nodes.length - 1)) = some t →
      termOf (hist net (net.nodes.length - 2)) = some t ∧
      elemsOf (hist net (net.nodes.length - 2)) = elemsOf (insOf net (net.nodes.length - 1)) := by
    intro t ht
    have := termOf_of_prefix_closed (b := (hist net (net.nodes.length - 2)).drop (pos net (net.nodes.length - 2))) ht
    rw [← hsplit] at this; exact this
  refine ⟨?_, ?_, ?_, ?_, ?_⟩
  · by_cases ha : s0.alive = true
    · rw [(hsi.live ha).2.1]; omega
    · rw [(hsi.dead (by simpa using ha)).1]; omega
  · intro ha; exact (hsi.dead ha).1
  · rw [hsi.recv]; exact hpre.trans hap.pre
  · intro ha he
    rcases (hsi.dead ha).2.2 with ⟨ht, _⟩ | ⟨e, _, hte⟩
    · obtain ⟨h1, h2⟩ := hclosed none ht
      obtain ⟨h3, h4⟩ := hap.compl h1
      exact ⟨by rw [hsi.recv, ← h2, h3], h4⟩
    · rw [he] at hte; simp at hte
  · intro e he
    by_cases ha : s0.alive = true
    · rw [(hsi.live ha).2.2.2] at he; simp at he
    · rcases (hsi.dead (by simpa using ha)).2.2 with ⟨_, hn⟩ | ⟨e', ht, hte⟩
      · rw [hn] at he; simp at he
      · rw [he] at hte
        have : e = e' := by simpa using hte
        subst this
        exact hap.err e (hclosed (some e) ht).1

/-! ### a pipeline that ends in the unordered ParallelMap -/

theorem SubPerm.of_prefix {α : Type} {a b c : List α} (hab : a <+: b) (h : SubPerm b c) : SubPerm a c := by
  obtain ⟨r, rfl⟩ := hab
  obtain ⟨t, ht⟩ := h
  exact ⟨r ++ t, by rw [← List.append_assoc]; exact ht⟩

/-- one unordered stage below an approximated link -/
theorem Approx.stepU {P : List Val → Prop} {up ins rest outs : List Down} {X : List Val} {es : List Err}
    {k : Int} {bad : Option Int} {e : Err}
    (hup : Approx up X es) (hlink : up = ins ++ rest) (hs : SpecU k bad e P ins outs) (hP : P X) :
    SubPerm (elemsOf outs) (okAll k bad e X) ∧
    (termOf outs = some none →
      List.Perm (elemsOf outs) (parRun k bad e X).1 ∧ es = [] ∧ (parRun k bad e X).2 = none) ∧
    (∀ er, termOf outs = some (some er) → er ∈ es ++ (parRun k bad e X).2.toList) := by
  have hxs : elemsOf ins <+: X := by
    have := elemsOf_prefix ins rest; rw [← hlink] at this; exact this.trans hup.pre
  refine ⟨hs.sub X hxs, ?_, ?_⟩
  · intro ho
    obtain ⟨hti, he, hy⟩ := hs.compl ho
    obtain ⟨h1, h2⟩ := termOf_of_prefix_closed (b := rest) hti
    rw [← hlink] at h1 h2
    obtain ⟨hX, hes⟩ := hup.compl h1
    rw [h2] at hX
    rw [← hX]; exact ⟨hy, hes, he⟩
  · intro er ho
    rcases hs.err er ho with hi | hi
    · obtain ⟨h1, _⟩ := termOf_of_prefix_closed (b := rest) hi
      rw [← hlink] at h1
      exact List.mem_append_left _ (hup.err er h1)
    · have := hi X hxs hP
      exact List.mem_append_right _ (by rw [this]; simp)

/-- what the sink may have observed below an unordered last stage: `X`, `es` are the ideal content and the
    candidate errors of the link ABOVE that stage -/
def SinkOKU (k : Int) (bad : Option Int) (e : Err) (X : List Val) (es : List Err) (s : SinkSt) : Prop :=
  s.hooks ≤ 1 ∧ (s.alive = false → s.hooks = 1) ∧
  SubPerm s.received (okAll k bad e X) ∧
  (s.alive = false → s.termErr = none →
    List.Perm s.received (parRun k bad e X).1 ∧ es = [] ∧ (parRun k bad e X).2 = none) ∧
  (∀ er, s.termErr = some er → er ∈ es ++ (parRun k bad e X).2.toList)

theorem GInv.sink_okU {P : List Val → Prop} {input : List Val} {net : Net} (h : GInv P input net)
    (hP : ∀ j, P (idealAt (semsOf net) input j).1) (s : SinkSt)
    (hs : net.sink? = some s)
    (w : Nat) (k : Int) (bad : Option Int) (e : Err) (st : PMapSt)
    (h3 : 3 ≤ net.nodes.length)
    (hlastU : net.nodes[net.nodes.length - 2]? = some (.pmap false w k bad e st))
    (hu : ∀ (j : Nat) nd, j ≤ net.nodes.length - 3 → net.nodes[j]? = some nd → isUnord nd = false) :
    SinkOKU k bad e (idealAt (semsOf net) input (net.nodes.length - 3)).1
            (idealAt (semsOf net) input (net.nodes.length - 3)).2 s := by
  obtain ⟨c, s0, hs0, hsi⟩ := h.sink
  have hlast : net.nodes.getLast? = some (.sink c s0) := by
    rw [List.getLast?_eq_getElem?]; exact hs0
  have hss : s0 = s := by
    simp only [Net.sink?, hlast] at hs; exact Option.some.inj hs
  subst hss
  have hap := h.approx_link hP (net.nodes.length - 3) (by omega) hu
  have hidx3 : net.nodes.length - 3 + 1 = net.nodes.length - 2 := by omega
  obtain ⟨_, hsp, _⟩ := h.mid (net.nodes.length - 2) _ (by omega) (by omega) hlastU
  have hsp' : SpecU k bad e P (insOf net (net.nodes.length - 2)) (hist net (net.nodes.length - 2)) := hsp
  have hsplit3 := hist_split net (net.nodes.length - 3)
  rw [hidx3] at hsplit3
  obtain ⟨u1, u2, u3⟩ := hap.stepU hsplit3 hsp' (hP _)
  have hsplit := hist_split net (net.nodes.length - 2)
  have hidx : net.nodes.length - 2 + 1 = net.nodes.length - 1 := by omega
  rw [hidx] at hsplit
  have hpre : elemsOf (insOf net (net.nodes.length - 1)) <+: elemsOf (hist net (net.nodes.length - 2)) := by
    have := elemsOf_prefix (insOf net (net.nodes.length - 1)) ((hist net (net.nodes.length - 2)).drop (pos net (net.nodes.length - 2)))
    rw [← hsplit] at this; exact this
  have hclosed : ∀ t, termOf (insOf net (net.nodes.length - 1)) = some t →
      termOf (hist net (net.nodes.length - 2)) = some t ∧
      elemsOf (hist net (net.nodes.length - 2)) = elemsOf (insOf net (net.nodes.length - 1)) := by
    intro t ht
    have := termOf_of_prefix_closed (b := (hist net (net.nodes.length - 2)).drop (pos net (net.nodes.length - 2))) ht
    rw [← hsplit] at this; exact this
  refine ⟨?_, ?_, ?_, ?_, ?_⟩
  · by_cases ha : s0.alive = true
    · rw [(hsi.live ha).2.1]; omega
    · rw [(hsi.dead (by simpa using ha)).1]; omega
  · intro ha; exact (hsi.dead ha).1
  · rw [hsi.recv]; exact SubPerm.of_prefix hpre u1
  · intro ha he
    rcases (hsi.dead ha).2.2 with ⟨ht, _⟩ | ⟨e', _, hte⟩
    · obtain ⟨h1, h2⟩ := hclosed none ht
      have := u2 h1
      rw [hsi.recv, ← h2]; exact this
    · rw [he] at hte; simp at hte
  · intro er he
    by_cases ha : s0.alive = true
    · rw [(hsi.live ha).2.2.2] at he; simp at he
    · rcases (hsi.dead (by simpa using ha)).2.2 with ⟨_, hn⟩ | ⟨e', ht, hte⟩
      · rw [hn] at he; simp at he
      · rw [he] at hte
        have : er = e' := by simpa using hte
        subst this
        exact u3 er (hclosed (some er) ht).1

end GoaktVerif.C45

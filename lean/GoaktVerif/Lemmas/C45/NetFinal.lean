/-
C45 lemmas, part 10: from the network invariant to what the sink observes.
-/
import GoaktVerif.Lemmas.C45.NetStep

namespace GoaktVerif.C45
open GoaktVerif.Model.C45

/-- the ideal list flowing on link `i` (what the stages above it produce from the whole input before their
    first failure) and the candidate errors of the stages above it; `Fs[0]` belongs to the source and is not used -/
def idealAt (Fs : List SemFn) (input : List Val) : Nat → List Val × List Err
  | 0 => (input, [])
  | i + 1 =>
    match Fs[i + 1]? with
    | some F => ((F (idealAt Fs input i).1).1, (idealAt Fs input i).2 ++ (F (idealAt Fs input i).1).2.toList)
    | none => idealAt Fs input i

theorem hist_split (net : Net) (i : Nat) : hist net i = insOf net (i + 1) ++ (hist net i).drop (pos net i) := by
  simp only [insOf, Nat.add_sub_cancel]; exact (List.take_append_drop _ _).symm

/-- every link carries an approximation of its ideal content -/
theorem GInv.approx_link {P : List Val → Prop} {input : List Val} {net : Net} (h : GInv P input net)
    (hP : ∀ j, P (idealAt (semsOf net) input j).1) (i : Nat)
    (hi : i + 1 < net.nodes.length) :
    Approx (hist net i) (idealAt (semsOf net) input i).1 (idealAt (semsOf net) input i).2 := by
  induction i with
  | zero => obtain ⟨s, _, hap, _⟩ := h.src; exact hap
  | succ i ih =>
    have hi' : i + 1 < net.nodes.length := by omega
    have hlt : i + 1 < net.nodes.length := hi'
    obtain ⟨nd, hn⟩ : ∃ nd, net.nodes[i + 1]? = some nd := ⟨net.nodes[i + 1], List.getElem?_eq_getElem hlt⟩
    obtain ⟨_, hsp, _⟩ := h.mid (i + 1) nd (by omega) hi hn
    have hF : (semsOf net)[i + 1]? = some (midF nd) := by simp [semsOf, hn]
    simp only [idealAt, hF]
    exact (ih hi').step (hist_split net i) hsp (hP i)

/-- what the sink may have observed, against an ideal output list and a list of candidate errors -/
def SinkOK' (Y : List Val) (es : List Err) (s : SinkSt) : Prop :=
  s.hooks ≤ 1 ∧ (s.alive = false → s.hooks = 1) ∧
  s.received <+: Y ∧
  (s.alive = false → s.termErr = none → s.received = Y ∧ es = []) ∧
  (∀ e, s.termErr = some e → e ∈ es)

/-- the sink's record, in every state of every run, against the ideal content of the last link -/
theorem GInv.sink_ok {P : List Val → Prop} {input : List Val} {net : Net} (h : GInv P input net)
    (hP : ∀ j, P (idealAt (semsOf net) input j).1) (s : SinkSt)
    (hs : net.sink? = some s) :
    SinkOK' (idealAt (semsOf net) input (net.nodes.length - 2)).1
            (idealAt (semsOf net) input (net.nodes.length - 2)).2 s := by
  obtain ⟨c, s0, hs0, hsi⟩ := h.sink
  have htwo := h.two
  have hlast : net.nodes.getLast? = some (.sink c s0) := by
    rw [List.getLast?_eq_getElem?]; exact hs0
  have hss : s0 = s := by
    simp only [Net.sink?, hlast] at hs; exact Option.some.inj hs
  subst hss
  have hap := h.approx_link hP (net.nodes.length - 2) (by omega)
  have hsplit := hist_split net (net.nodes.length - 2)
  have hidx : net.nodes.length - 2 + 1 = net.nodes.length - 1 := by omega
  rw [hidx] at hsplit
  have hpre : elemsOf (insOf net (net.nodes.length - 1)) <+: elemsOf (hist net (net.nodes.length - 2)) := by
    have := elemsOf_prefix (insOf net (net.nodes.length - 1)) ((hist net (net.nodes.length - 2)).drop (pos net (net.nodes.length - 2)))
    rw [← hsplit] at this; exact this
  have hclosed : ∀ t, termOf (insOf net (net.nodes.length - 1)) = some t →
      termOf (hist net (net.nodes.length - 2)) = some t ∧
      elemsOf (hist net (net.nodes.length - 2)) = elemsOf (insOf net (net.nodes.length - 1)) := by
    intro t ht
    have := termOf_of_prefix_closed (b := (hist net (net.nodes.length - 2)).drop (pos net (net.nodes.length - 2))) ht
    rw [← hsplit] at this; exact this
  refine ⟨?_, ?_, ?_, ?_, ?_⟩
  · by_cases ha : s0.alive = true
    · rw [(hsi.live ha).2.1]; omega
    · rw [(hsi.dead (by simpa using ha)).1]; omega
  · intro ha; exact (hsi.dead ha).1
  · rw [hsi.recv]; exact hpre.trans hap.pre
  · intro ha he
    rcases (hsi.dead ha).2.2 with ⟨ht, _⟩ | ⟨e, _, hte⟩
    · obtain ⟨h1, h2⟩ := hclosed none ht
      obtain ⟨h3, h4⟩ := hap.compl h1
      exact ⟨by rw [hsi.recv, ← h2, h3], h4⟩
    · rw [he] at hte; simp at hte
  · intro e he
    by_cases ha : s0.alive = true
    · rw [(hsi.live ha).2.2.2] at he; simp at he
    · rcases (hsi.dead (by simpa using ha)).2.2 with ⟨_, hn⟩ | ⟨e', ht, hte⟩
      · rw [hn] at he; simp at he
      · rw [he] at hte
        have : e = e' := by simpa using hte
        subst this
        exact hap.err e (hclosed (some e) ht).1

end GoaktVerif.C45

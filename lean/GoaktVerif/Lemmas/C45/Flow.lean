/-
C45 lemmas, part 3: flowActor is a FIFO transducer whatever the demand pattern.
`FlowInv` relates the actor's state to the full history of downstream messages it has handled
(`ins`) and sent (`outs`); it is preserved by every handled message.
-/
import GoaktVerif.Model.C45.Actors
import GoaktVerif.Lemmas.C45.Hist

namespace GoaktVerif.C45
open GoaktVerif.Model.C45

/-! ### running a transform over a list is causal -/

theorem xfRun_prefix (st : Stage) (t : TS) (xs rest : List Val) :
    (xfRun st t xs).1 <+: (xfRun st t (xs ++ rest)).1 := by
  induction xs generalizing t with
  | nil => simp [xfRun]
  | cons x xs ih =>
    cases h : xfStep st t x with
    | error e => simp [xfRun, h]
    | ok p =>
      obtain ⟨t', ys⟩ := p
      simp only [List.cons_append, xfRun, h]
      exact (List.prefix_append_right_inj ys).mpr (ih t')

theorem xfRun_err_stable (st : Stage) (t : TS) (xs rest : List Val) (e : Err)
    (h : (xfRun st t xs).2 = some e) : xfRun st t (xs ++ rest) = xfRun st t xs := by
  induction xs generalizing t with
  | nil => simp [xfRun] at h
  | cons x xs ih =>
    cases hx : xfStep st t x with
    | error e' => simp [xfRun, hx]
    | ok p =>
      obtain ⟨t', ys⟩ := p
      simp only [xfRun, hx] at h
      simp only [List.cons_append, xfRun, hx, ih t' h]

/-- `Fut st xs out ts`: after consuming `xs` the closure holds `ts` and has produced `out` -/
def Fut (st : Stage) (xs out : List Val) (ts : TS) : Prop :=
  ∀ rest, xfRun st {} (xs ++ rest) = (out ++ (xfRun st ts rest).1, (xfRun st ts rest).2)

theorem Fut.init (st : Stage) : Fut st [] [] {} := by
  intro rest; simp

theorem Fut.now {st : Stage} {xs out : List Val} {ts : TS} (h : Fut st xs out ts) :
    xfRun st {} xs = (out, none) := by
  have := h []; simpa [xfRun] using this

theorem Fut.step_ok {st : Stage} {xs out : List Val} {ts ts' : TS} {v : Val} {ys : List Val}
    (h : Fut st xs out ts) (hx : xfStep st ts v = .ok (ts', ys)) : Fut st (xs ++ [v]) (out ++ ys) ts' := by
  intro rest
  have := h (v :: rest)
  simp only [List.append_assoc, List.singleton_append, this, xfRun, hx]

theorem Fut.step_err {st : Stage} {xs out : List Val} {ts : TS} {v : Val} {e : Err}
    (h : Fut st xs out ts) (hx : xfStep st ts v = .error e) :
    xfRun st {} (xs ++ [v]) = (out, some e) := by
  have := h [v]
  simpa [xfRun, hx] using this

/-! ### tryFlushOutput / maybeRequestUpstream -/

theorem tryFlush_spec (s : FlowSt) :
    ∃ zs, zs ++ (s.tryFlush).1.buf = s.buf ∧ (s.tryFlush).1.ts = s.ts ∧
      (s.tryFlush).1.completing = s.completing ∧ (s.tryFlush).1.credit = s.credit ∧
      ((s.completing = true ∧ (s.tryFlush).1.buf = [] ∧ (s.tryFlush).1.alive = false ∧
          (s.tryFlush).2 = zs.map Down.elem ++ [.complete]) ∨
       (¬ (s.completing = true ∧ (s.tryFlush).1.buf = []) ∧ (s.tryFlush).1.alive = s.alive ∧
          (s.tryFlush).2 = zs.map Down.elem)) := by
  refine ⟨s.buf.take (min s.demand.toNat s.buf.length), ?_⟩
  unfold FlowSt.tryFlush
  by_cases hc : s.completing = true
  · by_cases hb : (s.buf.drop (min s.demand.toNat s.buf.length)).isEmpty = true
    · have hb' : s.buf.drop (min s.demand.toNat s.buf.length) = [] := List.isEmpty_iff.mp hb
      have ht : s.buf.take (min s.demand.toNat s.buf.length) = s.buf := by
        have := List.take_append_drop (min s.demand.toNat s.buf.length) s.buf
        rw [hb'] at this; simpa using this
      simp [hc, hb', ht]
    · have hb' : s.buf.drop (min s.demand.toNat s.buf.length) ≠ [] := fun h => hb (List.isEmpty_iff.mpr h)
      simp [hc, hb, hb', List.take_append_drop]
  · simp [hc, List.take_append_drop]

theorem maybeReq_spec (cfg : Cfg) (s : FlowSt) :
    (s.maybeReq cfg).1.buf = s.buf ∧ (s.maybeReq cfg).1.ts = s.ts ∧
    (s.maybeReq cfg).1.completing = s.completing ∧ (s.maybeReq cfg).1.alive = s.alive ∧
    (s.maybeReq cfg).1.demand = s.demand := by
  unfold FlowSt.maybeReq
  dsimp only
  repeat' split
  all_goals simp

/-! ### the invariant -/

structure FlowInv (st : Stage) (s : FlowSt) (ins outs : List Down) : Prop where
  wfOut : wf outs = true
  live : s.alive = true → s.completing = false →
    termOf ins = none ∧ termOf outs = none ∧ Fut st (elemsOf ins) (elemsOf outs ++ s.buf) s.ts
  compl : s.alive = true → s.completing = true →
    termOf ins = some none ∧ termOf outs = none ∧
      xfRun st {} (elemsOf ins) = (elemsOf outs ++ s.buf, none)
  dead : s.alive = false →
    (termOf outs = some none ∧ termOf ins = some none ∧ xfRun st {} (elemsOf ins) = (elemsOf outs, none))
    ∨ (∃ e, termOf outs = some (some e) ∧ elemsOf outs <+: (xfRun st {} (elemsOf ins)).1 ∧
        (termOf ins = some (some e) ∨ (xfRun st {} (elemsOf ins)).2 = some e))
    ∨ (termOf outs = none ∧ elemsOf outs <+: (xfRun st {} (elemsOf ins)).1)

theorem FlowInv.init (st : Stage) : FlowInv st {} [] [] where
  wfOut := rfl
  live := fun _ _ => ⟨rfl, rfl, by simpa [elemsOf] using Fut.init st⟩
  compl := fun _ h => by simp at h
  dead := fun h => by simp at h

/-- what the actor has emitted so far is, in every state, a prefix of the list semantics of what it consumed -/
theorem FlowInv.prefix {st : Stage} {s : FlowSt} {ins outs : List Down} (h : FlowInv st s ins outs) :
    elemsOf outs <+: (xfRun st {} (elemsOf ins)).1 := by
  by_cases ha : s.alive = true
  · by_cases hc : s.completing = true
    · have := (h.compl ha hc).2.2; rw [this]; exact List.prefix_append _ _
    · have hc' : s.completing = false := by simpa using hc
      have := (h.live ha hc').2.2.now; rw [this]; exact List.prefix_append _ _
  · have ha' : s.alive = false := by simpa using ha
    rcases h.dead ha' with ⟨_, _, h3⟩ | ⟨e, _, h2, _⟩ | ⟨_, h2⟩
    · rw [h3]; exact List.prefix_refl _
    · exact h2
    · exact h2

/-- flushing (and possibly completing) after the buffer content is accounted for -/
theorem FlowInv.after_flush {st : Stage} {s : FlowSt} {ins outs : List Down} (cfg : Cfg)
    (hw : wf outs = true) (ho : termOf outs = none) (ha : s.alive = true)
    (hlive : s.completing = false → termOf ins = none ∧ Fut st (elemsOf ins) (elemsOf outs ++ s.buf) s.ts)
    (hcompl : s.completing = true → termOf ins = some none ∧
        xfRun st {} (elemsOf ins) = (elemsOf outs ++ s.buf, none)) :
    FlowInv st ((s.tryFlush).1.maybeReq cfg).1 ins (outs ++ (s.tryFlush).2) := by
  obtain ⟨zs, hz, hts, hcp, _, hcase⟩ := tryFlush_spec s
  obtain ⟨mb, mts, mcp, mal, _⟩ := maybeReq_spec cfg (s.tryFlush).1
  rcases hcase with ⟨hc, hb, hal, hout⟩ | ⟨hnc, hal, hout⟩
  · -- completing and drained: streamComplete sent, actor stops
    obtain ⟨hti, hrun⟩ := hcompl hc
    have hzs : zs = s.buf := by simpa [hb] using hz
    refine ⟨?_, ?_, ?_, ?_⟩
    · rw [hout, wf_append_open ho, hw]; simp [wf_append_open (termOf_map_elem zs), wf_map_elem, wf, allEq]
    · intro h1; rw [mal, hal] at h1; simp at h1
    · intro h1; rw [mal, hal] at h1; simp at h1
    · intro _
      left
      refine ⟨?_, hti, ?_⟩
      · rw [hout, termOf_append_open ho, termOf_append_open (termOf_map_elem zs)]; rfl
      · rw [hout, elemsOf_append_open ho, elemsOf_append_open (termOf_map_elem zs), elemsOf_map_elem, hrun, hzs]
        simp [elemsOf]
  · have e1 : elemsOf (outs ++ (s.tryFlush).2) ++ ((s.tryFlush).1.maybeReq cfg).1.buf = elemsOf outs ++ s.buf := by
      rw [hout, elemsOf_append_open ho, elemsOf_map_elem, mb, List.append_assoc, hz]
    have t1 : termOf (outs ++ (s.tryFlush).2) = none := by
      rw [hout, termOf_append_open ho, termOf_map_elem]
    refine ⟨?_, ?_, ?_, ?_⟩
    · exact wf_of_open t1
    · intro _ h2
      rw [mcp, hcp] at h2
      obtain ⟨hti, hf⟩ := hlive h2
      refine ⟨hti, t1, ?_⟩
      rw [e1, mts, hts]; exact hf
    · intro _ h2
      rw [mcp, hcp] at h2
      obtain ⟨hti, hr⟩ := hcompl h2
      refine ⟨hti, t1, ?_⟩
      rw [e1]; exact hr
    · intro h1; rw [mal, hal, ha] at h1; simp at h1

/-- a request from downstream (any `n`, at any time) preserves the invariant -/
theorem FlowInv.step_req {st : Stage} {s : FlowSt} {ins outs : List Down} (cfg : Cfg) (n : Int)
    (h : FlowInv st s ins outs) (ha : s.alive = true) :
    FlowInv st (flowStep cfg st s (.up (.req n))).1 ins (outs ++ (flowStep cfg st s (.up (.req n))).2.down) := by
  have ho : termOf outs = none := by
    by_cases hc : s.completing = true
    · exact (h.compl ha hc).2.1
    · exact (h.live ha (by simpa using hc)).2.1
  simp only [flowStep]
  exact FlowInv.after_flush (s := { s with demand := s.demand + n }) cfg h.wfOut ho ha
    (fun hc => ⟨(h.live ha hc).1, (h.live ha hc).2.2⟩)
    (fun hc => ⟨(h.compl ha hc).1, (h.compl ha hc).2.2⟩)

/-- an element from upstream -/
theorem FlowInv.step_elem {st : Stage} {s : FlowSt} {ins outs : List Down} (cfg : Cfg) (v : Val)
    (h : FlowInv st s ins outs) (ha : s.alive = true) (hw : wf (ins ++ [.elem v]) = true) :
    FlowInv st (flowStep cfg st s (.down (.elem v))).1 (ins ++ [.elem v])
      (outs ++ (flowStep cfg st s (.down (.elem v))).2.down) := by
  have hio : termOf ins = none := open_of_wf_snoc_elem hw
  have hc : s.completing = false := by
    by_cases hc : s.completing = true
    · have := (h.compl ha hc).1; rw [hio] at this; simp at this
    · simpa using hc
  obtain ⟨_, ho, hf⟩ := h.live ha hc
  simp only [flowStep]
  cases hx : xfStep st s.ts v with
  | error e =>
    simp only
    have hr := hf.step_err hx
    refine ⟨?_, ?_, ?_, ?_⟩
    · rw [wf_append_open ho, h.wfOut]; rfl
    · intro h1; simp at h1
    · intro h1; simp at h1
    · intro _
      right; left
      refine ⟨e, ?_, ?_, Or.inr ?_⟩
      · rw [termOf_append_open ho]; rfl
      · rw [elemsOf_append_open ho, elemsOf_snoc_elem hio, hr]; simp [elemsOf]
      · rw [elemsOf_snoc_elem hio, hr]
  | ok p =>
    obtain ⟨ts', ys⟩ := p
    simp only
    have hf' := hf.step_ok hx
    apply FlowInv.after_flush (s := { s with ts := ts', credit := s.credit - 1, buf := s.buf ++ ys }) cfg h.wfOut ho ha
    · intro _
      refine ⟨termOf_snoc hio _, ?_⟩
      rw [elemsOf_snoc_elem hio]
      simpa [List.append_assoc] using hf'
    · intro h2; simp [hc] at h2

/-- `streamComplete` from upstream -/
theorem FlowInv.step_complete {st : Stage} {s : FlowSt} {ins outs : List Down} (cfg : Cfg)
    (h : FlowInv st s ins outs) (ha : s.alive = true) :
    FlowInv st (flowStep cfg st s (.down .complete)).1 (ins ++ [.complete])
      (outs ++ (flowStep cfg st s (.down .complete)).2.down) := by
  have ho : termOf outs = none := by
    by_cases hc : s.completing = true
    · exact (h.compl ha hc).2.1
    · exact (h.live ha (by simpa using hc)).2.1
  -- content of the input after this message
  have hins : termOf (ins ++ [.complete]) = some none ∧
      xfRun st {} (elemsOf (ins ++ [.complete])) = (elemsOf outs ++ s.buf, none) := by
    by_cases hc : s.completing = true
    · obtain ⟨h1, _, h3⟩ := h.compl ha hc
      have hne : termOf ins ≠ none := by rw [h1]; simp
      exact ⟨by rw [termOf_append_closed hne, h1], by rw [elemsOf_append_closed hne]; exact h3⟩
    · obtain ⟨h1, _, h3⟩ := h.live ha (by simpa using hc)
      exact ⟨termOf_snoc h1 _, by rw [elemsOf_snoc_term (by rfl)]; exact h3.now⟩
  simp only [flowStep]
  -- state after `completing = true; tryFlushOutput`
  obtain ⟨zs, hz, _, hcp, _, hcase⟩ := tryFlush_spec { s with completing := true }
  rcases hcase with ⟨_, hb, hal, hout⟩ | ⟨hnc, hal, hout⟩
  · -- drained: tryFlushOutput sent streamComplete and the handler sends it again
    have hzs : zs = s.buf := by simpa [hb] using hz
    simp only [hb, List.isEmpty_nil, if_true]
    refine ⟨?_, ?_, ?_, ?_⟩
    · rw [hout, wf_append_open ho, h.wfOut]
      simp [wf_append_open (termOf_map_elem zs), wf_map_elem, wf, allEq]
    · intro h1; simp at h1
    · intro h1; simp at h1
    · intro _
      left
      refine ⟨?_, hins.1, ?_⟩
      · rw [hout, termOf_append_open ho, List.append_assoc, termOf_append_open (termOf_map_elem zs)]; rfl
      · rw [hout, elemsOf_append_open ho, List.append_assoc, elemsOf_append_open (termOf_map_elem zs),
          elemsOf_map_elem, hins.2, hzs]
        simp [elemsOf]
  · have hbne : ({ s with completing := true } : FlowSt).tryFlush.1.buf ≠ [] := by
      intro hb; exact hnc ⟨rfl, hb⟩
    have hbe : ({ s with completing := true } : FlowSt).tryFlush.1.buf.isEmpty = false := by
      cases hq : ({ s with completing := true } : FlowSt).tryFlush.1.buf with
      | nil => exact absurd hq hbne
      | cons a l => rfl
    simp only [hbe, Bool.false_eq_true, if_false]
    have t1 : termOf (outs ++ ({ s with completing := true } : FlowSt).tryFlush.2) = none := by
      rw [hout, termOf_append_open ho, termOf_map_elem]
    refine ⟨wf_of_open t1, ?_, ?_, ?_⟩
    · intro _ h2; rw [hcp] at h2; simp at h2
    · intro _ _
      refine ⟨hins.1, t1, ?_⟩
      rw [hout, elemsOf_append_open ho, elemsOf_map_elem, List.append_assoc, hz]
      exact hins.2
    · intro h1; rw [hal] at h1; simp [ha] at h1

/-- `streamError` from upstream: forwarded, the buffer is discarded -/
theorem FlowInv.step_error {st : Stage} {s : FlowSt} {ins outs : List Down} (cfg : Cfg) (e : Err)
    (h : FlowInv st s ins outs) (ha : s.alive = true) (hw : wf (ins ++ [.error e]) = true) :
    FlowInv st (flowStep cfg st s (.down (.error e))).1 (ins ++ [.error e])
      (outs ++ (flowStep cfg st s (.down (.error e))).2.down) := by
  have hp := h.prefix
  have ho : termOf outs = none := by
    by_cases hc : s.completing = true
    · exact (h.compl ha hc).2.1
    · exact (h.live ha (by simpa using hc)).2.1
  simp only [flowStep]
  refine ⟨?_, ?_, ?_, ?_⟩
  · rw [wf_append_open ho, h.wfOut]; rfl
  · intro h1; simp at h1
  · intro h1; simp at h1
  · intro _
    by_cases hc : s.completing = true
    · -- the stage had already seen streamComplete: the input content stays "complete"
      obtain ⟨h1, _, h3⟩ := h.compl ha hc
      -- a well-formed upstream never sends an error after complete
      have := eq_of_wf_snoc_closed h1 hw
      simp [toMsg] at this
    · obtain ⟨h1, _, _⟩ := h.live ha (by simpa using hc)
      right; left
      refine ⟨e, by rw [termOf_append_open ho]; rfl, ?_, Or.inl (termOf_snoc h1 _)⟩
      rw [elemsOf_append_open ho, elemsOf_snoc_term (by rfl)]; simpa [elemsOf] using hp

/-- `streamCancel` from downstream: forwarded upstream, the actor stops without a terminal -/
theorem FlowInv.step_cancel {st : Stage} {s : FlowSt} {ins outs : List Down} (cfg : Cfg)
    (h : FlowInv st s ins outs) (ha : s.alive = true) :
    FlowInv st (flowStep cfg st s (.up .cancel)).1 ins (outs ++ (flowStep cfg st s (.up .cancel)).2.down) := by
  have hp := h.prefix
  have ho : termOf outs = none := by
    by_cases hc : s.completing = true
    · exact (h.compl ha hc).2.1
    · exact (h.live ha (by simpa using hc)).2.1
  simp only [flowStep, List.append_nil]
  refine ⟨h.wfOut, ?_, ?_, ?_⟩
  · intro h1; simp at h1
  · intro h1; simp at h1
  · intro _; right; right; exact ⟨ho, hp⟩

/-- the down-stream message an event carries (requests, cancels, timers carry none) -/
def evDown : Ev → List Down
  | .down d => [d]
  | _ => []

/-- one handled message of any kind preserves the invariant, provided the upstream history stays well-formed -/
theorem FlowInv.step {st : Stage} {s : FlowSt} {ins outs : List Down} (cfg : Cfg) (ev : Ev)
    (h : FlowInv st s ins outs) (ha : s.alive = true) (hw : wf (ins ++ evDown ev) = true) :
    FlowInv st (flowStep cfg st s ev).1 (ins ++ evDown ev) (outs ++ (flowStep cfg st s ev).2.down) := by
  cases ev with
  | wire => simpa [flowStep, evDown] using h
  | flush => simpa [flowStep, evDown] using h
  | result q r => simpa [flowStep, evDown] using h
  | up u =>
    cases u with
    | req n => simpa [evDown] using h.step_req cfg n ha
    | cancel => simpa [evDown] using h.step_cancel cfg ha
  | down d =>
    cases d with
    | elem v => exact h.step_elem cfg v ha hw
    | complete => exact h.step_complete cfg ha
    | error e => exact h.step_error cfg e ha hw

/-! ### no stall: a live, not-completing stage with an empty buffer and downstream demand has upstream credit -/

def NoStall (s : FlowSt) : Prop :=
  s.alive = true → s.completing = false → s.buf = [] → s.demand > 0 → s.credit > 0

theorem noStall_maybeReq (cfg : Cfg) (hc : 0 < cfg.init) (hr : 0 ≤ cfg.refill) (s : FlowSt) :
    NoStall (s.maybeReq cfg).1 := by
  intro _ hcp hb _
  obtain ⟨mb, _, mcp, _, _⟩ := maybeReq_spec cfg s
  rw [mcp] at hcp; rw [mb] at hb
  unfold FlowSt.maybeReq
  simp only [hcp, Bool.false_eq_true, if_false, hb, List.length_nil]
  repeat' split
  all_goals (simp only []; omega)

/-- demand only grows in the `streamRequest` handler, which ends with `maybeRequestUpstream` -/
theorem noStall_step (cfg : Cfg) (hc : 0 < cfg.init) (hr : 0 ≤ cfg.refill) (st : Stage) (s : FlowSt) (ev : Ev)
    (h : NoStall s) : NoStall (flowStep cfg st s ev).1 := by
  cases ev with
  | wire => simpa [flowStep] using h
  | flush => simpa [flowStep] using h
  | result q r => simpa [flowStep] using h
  | up u =>
    cases u with
    | req n => simp only [flowStep]; exact noStall_maybeReq cfg hc hr _
    | cancel => intro h1; simp [flowStep] at h1
  | down d =>
    cases d with
    | elem v =>
      simp only [flowStep]
      cases hx : xfStep st s.ts v with
      | error e => intro h1; simp at h1
      | ok p => obtain ⟨ts', ys⟩ := p; exact noStall_maybeReq cfg hc hr _
    | complete =>
      simp only [flowStep]
      obtain ⟨zs, _, _, hcp, _, _⟩ := tryFlush_spec { s with completing := true }
      split
      · intro h1; simp at h1
      · intro _ h2; rw [hcp] at h2; simp at h2
    | error e => intro h1; simp [flowStep] at h1

end GoaktVerif.C45

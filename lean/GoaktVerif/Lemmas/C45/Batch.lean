/-
C45 lemmas, part 14: batchFlowActor (after fix 688097a) is a FIFO transducer computing `chunks`,
whatever the demand pattern: nothing is dropped, batches have exactly `max n 1` elements except the last.
(The maxWait timer is outside this file: `Ev.flush` is never produced by the network scheduler.)
-/
import GoaktVerif.Lemmas.C45.Chunks
import GoaktVerif.Lemmas.C45.Chain
import GoaktVerif.Model.C45.Actors

namespace GoaktVerif.C45
open GoaktVerif.Model.C45 GoaktVerif.Spec.C45

def batchMsgs (cs : List (List Int)) : List Down := cs.map fun c => Down.elem (.list c)

/-- what `flush(partial)` emits and leaves -/
structure FlushSpec (n : Nat) (part : Bool) (s s' : BatchSt) (out : List Down) : Prop where
  cs : ∃ cs : List (List Int), out = batchMsgs cs ∧ s.window = cs.flatten ++ s'.window ∧
    (part = false → ∀ rest, chunks n (s.window ++ rest) = cs ++ chunks n (s'.window ++ rest)) ∧
    (chunks n s.window = cs ++ chunks n s'.window)
  credit : s'.credit = s.credit
  completing : s'.completing = s.completing
  alive : s'.alive = s.alive
  due : part = false → s.flushDue = false → s'.flushDue = false

theorem batchFlush_spec (n : Nat) (part : Bool) (f : Nat) (s : BatchSt) (hf : s.window.length ≤ f) :
    FlushSpec n part s (batchFlush (bsize n) part f s).1 (batchFlush (bsize n) part f s).2 := by
  induction f generalizing s with
  | zero =>
    have hw : s.window = [] := List.length_eq_zero_iff.mp (by omega)
    simp only [batchFlush, hw, List.isEmpty_nil, if_true]
    exact ⟨⟨[], rfl, by simp [hw], fun _ rest => by simp [hw], by simp [hw]⟩, rfl, rfl, rfl, fun _ _ => rfl⟩
  | succ f ih =>
    simp only [batchFlush]
    by_cases hgo : (!s.window.isEmpty && (part || decide (s.window.length ≥ bsize n))) = true
    · simp only [hgo, if_true]
      by_cases hd : s.demand ≤ 0
      · simp only [hd, if_true]
        exact ⟨⟨[], rfl, by simp, fun _ rest => by simp, by simp⟩, rfl, rfl, rfl,
          fun hp hfd => by simp [hp, hfd]⟩
      · simp only [hd, if_false]
        have hne : s.window ≠ [] := by
          intro h; simp [h] at hgo
        have hlenpos : 0 < s.window.length := List.length_pos_iff.mpr hne
        let k := min s.window.length (bsize n)
        have hk : 0 < k := by have := bsize_pos n; simp only [k]; omega
        have hrec := ih { s with window := s.window.drop k, demand := s.demand - 1 }
          (by simp only [List.length_drop]; omega)
        obtain ⟨cs, hout, hwin, hext, hch⟩ := hrec.cs
        have hsplit : s.window = s.window.take k ++ s.window.drop k := (List.take_append_drop _ _).symm
        refine ⟨⟨s.window.take k :: cs, ?_, ?_, ?_, ?_⟩, hrec.credit, hrec.completing, hrec.alive, ?_⟩
        · simp only [batchMsgs, List.map_cons]; rw [← batchMsgs, ← hout]
        · simp only [List.flatten_cons, List.append_assoc]
          rw [← hwin]; exact hsplit
        · intro hp rest
          -- not partial: the window holds at least one full batch
          have hfull : s.window.length ≥ bsize n := by
            simp only [hp, Bool.false_or, Bool.and_eq_true, decide_eq_true_eq] at hgo; exact hgo.2
          have hkk : k = bsize n := by simp only [k]; omega
          have hlen : (s.window.take k).length = bsize n := by simp [hkk]; omega
          have e1 : s.window ++ rest = s.window.take k ++ (s.window.drop k ++ rest) := by
            rw [← List.append_assoc, List.take_append_drop]
          rw [e1, chunks_full n _ _ hlen]
          have := hext hp rest
          simp only at this
          rw [this]; rfl
        · by_cases hfull : s.window.length ≥ bsize n
          · have hkk : k = bsize n := by simp only [k]; omega
            have hlen : (s.window.take k).length = bsize n := by simp [hkk]; omega
            have h1 := chunks_full n (s.window.take k) (s.window.drop k) hlen
            rw [List.take_append_drop] at h1
            have hch' := hch
            simp only at hch'
            rw [h1, hch']; rfl
          · have hkk : k = s.window.length := by simp only [k]; omega
            have hdrop : s.window.drop k = [] := by rw [hkk]; simp
            have htake : s.window.take k = s.window := by rw [hkk]; simp
            have h1 := chunks_short n s.window (by omega) hne
            have hdrop' : List.drop (min s.window.length (bsize n)) s.window = [] := hdrop
            have htake' : List.take (min s.window.length (bsize n)) s.window = s.window := htake
            have hch' := hch
            simp only [k, hdrop', chunks_nil] at hch'
            simp only [hdrop', h1, List.cons_append]
            rw [← hch', htake]
        · intro hp hfd
          exact hrec.due hp hfd
    · simp only [hgo, Bool.false_eq_true, if_false]
      refine ⟨⟨[], rfl, by split <;> simp, fun _ rest => by split <;> simp, by split <;> simp⟩, ?_, ?_, ?_, ?_⟩
      · split <;> rfl
      · split <;> rfl
      · split <;> rfl
      · intro _ hfd; split
        · rfl
        · exact hfd

theorem flush_spec (n : Nat) (part : Bool) (s : BatchSt) :
    FlushSpec n part s (s.flush n part).1 (s.flush n part).2 := by
  unfold BatchSt.flush
  have : max n 1 = bsize n := rfl
  rw [this]
  exact batchFlush_spec n part _ s (Nat.le_refl _)

theorem batch_maybeReq_spec (cfg : Cfg) (s : BatchSt) :
    (s.maybeReq cfg).1.window = s.window ∧ (s.maybeReq cfg).1.completing = s.completing ∧
    (s.maybeReq cfg).1.alive = s.alive ∧ (s.maybeReq cfg).1.flushDue = s.flushDue ∧
    Up.cancel ∉ (s.maybeReq cfg).2 := by
  unfold BatchSt.maybeReq
  dsimp only
  repeat' split
  all_goals simp

end GoaktVerif.C45

namespace GoaktVerif.C45
open GoaktVerif.Model.C45 GoaktVerif.Spec.C45

def intVals (xs : List Int) : List Val := xs.map Val.int
def listVals (ys : List (List Int)) : List Val := ys.map Val.list

theorem elemsOf_batchMsgs (cs : List (List Int)) : elemsOf (batchMsgs cs) = listVals cs := by
  induction cs with
  | nil => rfl
  | cons c cs ih => simp [batchMsgs, elemsOf, listVals] at ih ⊢; exact ih

theorem termOf_batchMsgs (cs : List (List Int)) : termOf (batchMsgs cs) = none := by
  induction cs with
  | nil => rfl
  | cons c cs ih => simp [batchMsgs, termOf] at ih ⊢; exact ih

theorem ints_intVals_append (xs : List Int) (rest : List Val) :
    ints (intVals xs ++ rest) = (xs ++ (ints rest).1, (ints rest).2) := by
  induction xs with
  | nil => simp [intVals]
  | cons x xs ih => simp [intVals, ints] at ih ⊢; rw [ih]; exact ⟨rfl, rfl⟩

theorem ints_intVals (xs : List Int) : ints (intVals xs) = (xs, false) := by
  have := ints_intVals_append xs []; simpa [ints] using this

theorem ints_blocked (xs : List Int) (l : List Int) (rest : List Val) :
    ints (intVals xs ++ Val.list l :: rest) = (xs, true) := by
  rw [ints_intVals_append]; simp [ints]

/-- "extendable": after consuming `xs` and emitting the batches `ys`, the window `w` holds exactly what is left -/
def Ext (n : Nat) (xs : List Int) (ys : List (List Int)) (w : List Int) : Prop :=
  ∀ rest, chunks n (xs ++ rest) = ys ++ chunks n (w ++ rest)

theorem Ext.now {n : Nat} {xs : List Int} {ys : List (List Int)} {w : List Int} (h : Ext n xs ys w) :
    chunks n xs = ys ++ chunks n w := by
  have := h []; simpa using this

structure BatchInv (n : Nat) (s : BatchSt) (ins outs : List Down) : Prop where
  wfOut : wf outs = true
  live : s.alive = true → s.completing = false →
    termOf ins = none ∧ termOf outs = none ∧ s.flushDue = false ∧
    ∃ xs ys, elemsOf ins = intVals xs ∧ elemsOf outs = listVals ys ∧ Ext n xs ys s.window
  compl : s.alive = true → s.completing = true →
    termOf ins = some none ∧ termOf outs = none ∧
    ∃ xs ys, elemsOf ins = intVals xs ∧ elemsOf outs = listVals ys ∧ chunks n xs = ys ++ chunks n s.window
  dead : s.alive = false →
    (termOf outs = some none ∧ termOf ins = some none ∧
      ∃ xs ys, elemsOf ins = intVals xs ∧ elemsOf outs = listVals ys ∧ chunks n xs = ys)
    ∨ (∃ e, termOf outs = some (some e) ∧ ∃ xs ys w, elemsOf outs = listVals ys ∧ Ext n xs ys w ∧
        ((termOf ins = some (some e) ∧ elemsOf ins = intVals xs) ∨
         (e = typeErr ∧ ∃ l, elemsOf ins = intVals xs ++ [Val.list l])))

theorem BatchInv.init (n : Nat) : BatchInv n {} [] [] :=
  ⟨rfl, fun _ _ => ⟨rfl, rfl, rfl, [], [], rfl, rfl, fun rest => by simp⟩, fun _ h => by simp at h,
    fun h => by simp at h⟩

/-- a request from downstream -/
theorem BatchInv.step_req {n : Nat} {s : BatchSt} {ins outs : List Down} (cfg : Cfg) (k : Int)
    (h : BatchInv n s ins outs) (ha : s.alive = true) :
    BatchInv n (batchStep cfg n s (.up (.req k))).1 ins (outs ++ (batchStep cfg n s (.up (.req k))).2.down) := by
  simp only [batchStep]
  by_cases hc : s.completing = true
  · obtain ⟨hti, hto, xs, ys, hxs, hys, hch⟩ := h.compl ha hc
    have hpart : (({ s with demand := s.demand + k } : BatchSt).flushDue ||
        ({ s with demand := s.demand + k } : BatchSt).completing) = true := by simp [hc]
    rw [hpart]
    have hfs := flush_spec n true { s with demand := s.demand + k }
    obtain ⟨cs, hout, hwin, _, hchk⟩ := hfs.cs
    have hcp := hfs.completing
    simp only at hcp hwin hchk
    have hch' : chunks n xs = (ys ++ cs) ++ chunks n (BatchSt.flush n true { s with demand := s.demand + k }).1.window := by
      rw [hch, hchk, List.append_assoc]
    have e1 : elemsOf (outs ++ batchMsgs cs) = listVals (ys ++ cs) := by
      rw [elemsOf_append_open hto, hys, elemsOf_batchMsgs]; simp [listVals]
    have t1 : termOf (outs ++ batchMsgs cs) = none := by rw [termOf_append_open hto, termOf_batchMsgs]
    split
    · rename_i hfin
      simp only [Bool.and_eq_true] at hfin
      have hwe := List.isEmpty_iff.mp hfin.2
      rw [hout]
      refine ⟨?_, fun h1 => by simp at h1, fun h1 => by simp at h1, fun _ => Or.inl ⟨?_, hti, xs, ys ++ cs, hxs, ?_, ?_⟩⟩
      · rw [← List.append_assoc, wf_append_open t1, wf_of_open t1]; rfl
      · rw [← List.append_assoc, termOf_append_open t1]; rfl
      · rw [← List.append_assoc, elemsOf_append_open t1, e1]; simp [elemsOf]
      · rw [hch', hwe]; simp [chunks_nil]
    · rename_i hfin
      obtain ⟨mw, mc, ma, _, _⟩ := batch_maybeReq_spec cfg (BatchSt.flush n true { s with demand := s.demand + k }).1
      rw [hout]
      refine ⟨wf_of_open t1, fun _ h2 => ?_, fun _ _ => ⟨hti, t1, xs, ys ++ cs, hxs, e1, by rw [mw]; exact hch'⟩,
        fun h1 => ?_⟩
      · rw [mc, hcp, hc] at h2; simp at h2
      · rw [ma, hfs.alive] at h1; simp [ha] at h1
  · have hc' : s.completing = false := by simpa using hc
    obtain ⟨hti, hto, hfd, xs, ys, hxs, hys, hext⟩ := h.live ha hc'
    have hpart : (({ s with demand := s.demand + k } : BatchSt).flushDue ||
        ({ s with demand := s.demand + k } : BatchSt).completing) = false := by simp [hc', hfd]
    rw [hpart]
    have hfs := flush_spec n false { s with demand := s.demand + k }
    obtain ⟨cs, hout, hwin, hextf, _⟩ := hfs.cs
    have hcp := hfs.completing
    simp only at hcp hwin hextf
    have hfin : ((BatchSt.flush n false { s with demand := s.demand + k }).1.completing &&
        (BatchSt.flush n false { s with demand := s.demand + k }).1.window.isEmpty) = false := by
      rw [hcp, hc']; rfl
    simp only [hfin, Bool.false_eq_true, if_false]
    obtain ⟨mw, mc, ma, mf, _⟩ := batch_maybeReq_spec cfg (BatchSt.flush n false { s with demand := s.demand + k }).1
    have e1 : elemsOf (outs ++ batchMsgs cs) = listVals (ys ++ cs) := by
      rw [elemsOf_append_open hto, hys, elemsOf_batchMsgs]; simp [listVals]
    have t1 : termOf (outs ++ batchMsgs cs) = none := by rw [termOf_append_open hto, termOf_batchMsgs]
    rw [hout]
    refine ⟨wf_of_open t1, fun _ _ => ⟨hti, t1, ?_, xs, ys ++ cs, hxs, e1, ?_⟩, fun _ h2 => ?_, fun h1 => ?_⟩
    · rw [mf]; exact hfs.due rfl hfd
    · intro rest; rw [mw, hext rest, hextf trivial rest, List.append_assoc]
    · rw [mc, hcp, hc'] at h2; simp at h2
    · rw [ma, hfs.alive] at h1; simp [ha] at h1

end GoaktVerif.C45

namespace GoaktVerif.C45
open GoaktVerif.Model.C45 GoaktVerif.Spec.C45

theorem intVals_snoc (xs : List Int) (x : Int) : intVals xs ++ [Val.int x] = intVals (xs ++ [x]) := by
  simp [intVals]

/-- a message from upstream -/
theorem BatchInv.step_down {n : Nat} {s : BatchSt} {ins outs : List Down} (cfg : Cfg) (d : Down)
    (h : BatchInv n s ins outs) (ha : s.alive = true) (hw : wf (ins ++ [d]) = true) :
    BatchInv n (batchStep cfg n s (.down d)).1 (ins ++ [d]) (outs ++ (batchStep cfg n s (.down d)).2.down) := by
  cases d with
  | elem v =>
    have hio : termOf ins = none := open_of_wf_snoc_elem hw
    have hc' : s.completing = false := by
      by_cases hc : s.completing = true
      · have := (h.compl ha hc).1; rw [hio] at this; simp at this
      · simpa using hc
    obtain ⟨_, hto, hfd, xs, ys, hxs, hys, hext⟩ := h.live ha hc'
    cases v with
    | int x =>
      simp only [batchStep]
      have hgoal : ∀ (p : Bool), p = false →
          BatchInv n ((({ s with credit := s.credit - 1, window := s.window ++ [x] } : BatchSt).flush n p).1.maybeReq cfg).1
            (ins ++ [Down.elem (Val.int x)])
            (outs ++ (({ s with credit := s.credit - 1, window := s.window ++ [x] } : BatchSt).flush n p).2) := by
        intro p hp
        subst hp
        have hfs := flush_spec n false { s with credit := s.credit - 1, window := s.window ++ [x] }
        obtain ⟨cs, hout, hwin, hextf, _⟩ := hfs.cs
        have hcp := hfs.completing
        simp only at hcp hwin hextf
        obtain ⟨mw, mc, ma, mf, _⟩ := batch_maybeReq_spec cfg
          (BatchSt.flush n false { s with credit := s.credit - 1, window := s.window ++ [x] }).1
        have e1 : elemsOf (outs ++ batchMsgs cs) = listVals (ys ++ cs) := by
          rw [elemsOf_append_open hto, hys, elemsOf_batchMsgs]; simp [listVals]
        have t1 : termOf (outs ++ batchMsgs cs) = none := by rw [termOf_append_open hto, termOf_batchMsgs]
        rw [hout]
        refine ⟨wf_of_open t1, fun _ _ => ⟨termOf_snoc hio _, t1, ?_, xs ++ [x], ys ++ cs, ?_, e1, ?_⟩,
          fun _ h2 => ?_, fun h1 => ?_⟩
        · rw [mf]; exact hfs.due rfl hfd
        · rw [elemsOf_snoc_elem hio, hxs, intVals_snoc]
        · intro rest
          rw [mw, List.append_assoc, hext ([x] ++ rest), ← List.append_assoc, hextf trivial rest, List.append_assoc]
        · rw [mc, hcp, hc'] at h2; simp at h2
        · rw [ma, hfs.alive] at h1; simp [ha] at h1
      exact hgoal s.flushDue hfd
    | list l =>
      simp only [batchStep]
      refine ⟨by rw [wf_append_open hto, h.wfOut]; rfl, fun h1 => by simp at h1, fun h1 => by simp at h1,
        fun _ => Or.inr ⟨typeErr, by rw [termOf_append_open hto]; rfl, xs, ys, s.window, ?_, hext, Or.inr ⟨rfl, l, ?_⟩⟩⟩
      · rw [elemsOf_append_open hto, hys]; simp [elemsOf]
      · rw [elemsOf_snoc_elem hio, hxs]
  | complete =>
    simp only [batchStep]
    have hto : termOf outs = none := by
      by_cases hc : s.completing = true
      · exact (h.compl ha hc).2.1
      · exact (h.live ha (by simpa using hc)).2.1
    -- the input content after this message, and the chunk equation
    have hins : termOf (ins ++ [.complete]) = some none ∧
        ∃ xs ys, elemsOf (ins ++ [.complete]) = intVals xs ∧ elemsOf outs = listVals ys ∧
          chunks n xs = ys ++ chunks n s.window := by
      by_cases hc : s.completing = true
      · obtain ⟨h1, _, xs, ys, h3, h4, h5⟩ := h.compl ha hc
        have hne : termOf ins ≠ none := by rw [h1]; simp
        exact ⟨by rw [termOf_append_closed hne, h1], xs, ys, by rw [elemsOf_append_closed hne]; exact h3, h4, h5⟩
      · obtain ⟨h1, _, _, xs, ys, h3, h4, h5⟩ := h.live ha (by simpa using hc)
        exact ⟨termOf_snoc h1 _, xs, ys, by rw [elemsOf_snoc_term (d := Down.complete) rfl]; exact h3, h4, h5.now⟩
    obtain ⟨hti, xs, ys, hxs, hys, hch⟩ := hins
    have hfs := flush_spec n true { s with completing := true }
    obtain ⟨cs, hout, hwin, _, hchk⟩ := hfs.cs
    have hcp := hfs.completing
    simp only at hcp hwin hchk
    have hch' : chunks n xs = (ys ++ cs) ++ chunks n (BatchSt.flush n true { s with completing := true }).1.window := by
      rw [hch, hchk, List.append_assoc]
    have e1 : elemsOf (outs ++ batchMsgs cs) = listVals (ys ++ cs) := by
      rw [elemsOf_append_open hto, hys, elemsOf_batchMsgs]; simp [listVals]
    have t1 : termOf (outs ++ batchMsgs cs) = none := by rw [termOf_append_open hto, termOf_batchMsgs]
    split
    · rename_i hfin
      have hwe := List.isEmpty_iff.mp hfin
      rw [hout]
      refine ⟨?_, fun h1 => by simp at h1, fun h1 => by simp at h1, fun _ => Or.inl ⟨?_, hti, xs, ys ++ cs, hxs, ?_, ?_⟩⟩
      · rw [← List.append_assoc, wf_append_open t1, wf_of_open t1]; rfl
      · rw [← List.append_assoc, termOf_append_open t1]; rfl
      · rw [← List.append_assoc, elemsOf_append_open t1, e1]; simp [elemsOf]
      · rw [hch', hwe]; simp [chunks_nil]
    · rw [hout]
      refine ⟨wf_of_open t1, fun _ h2 => ?_, fun _ _ => ⟨hti, t1, xs, ys ++ cs, hxs, e1, hch'⟩, fun h1 => ?_⟩
      · rw [hcp] at h2; simp at h2
      · rw [hfs.alive] at h1; simp [ha] at h1
  | error e =>
    simp only [batchStep]
    have hc' : s.completing = false := by
      by_cases hc : s.completing = true
      · have h1 := (h.compl ha hc).1
        have := eq_of_wf_snoc_closed h1 hw
        simp [toMsg] at this
      · simpa using hc
    obtain ⟨hio, hto, _, xs, ys, hxs, hys, hext⟩ := h.live ha hc'
    refine ⟨by rw [wf_append_open hto, h.wfOut]; rfl, fun h1 => by simp at h1, fun h1 => by simp at h1,
      fun _ => Or.inr ⟨e, by rw [termOf_append_open hto]; rfl, xs, ys, s.window, ?_, hext, Or.inl ⟨termOf_snoc hio _, ?_⟩⟩⟩
    · rw [elemsOf_append_open hto, hys]; simp [elemsOf]
    · rw [elemsOf_snoc_term (d := Down.error e) rfl, hxs]

theorem listVals_prefix {a b : List (List Int)} (h : a <+: b) : listVals a <+: listVals b := by
  obtain ⟨t, rfl⟩ := h
  simp [listVals]

/-- the batch stage satisfies the content specification for `stageSem (.batch n)` -/
theorem BatchInv.specM {P : List Val → Prop} {n : Nat} {s : BatchSt} {ins outs : List Down} (h : BatchInv n s ins outs) :
    SpecM P (stageSem (.batch n)) ins outs := by
  -- the facts every state provides
  have key : (∃ xs ys, elemsOf ins = intVals xs ∧ elemsOf outs = listVals ys ∧ chunks n xs = ys ++ chunks n []
        ∧ termOf ins = some none ∧ (termOf outs = none ∨ termOf outs = some none)) ∨
      (∃ xs ys w tail, elemsOf outs = listVals ys ∧ Ext n xs ys w ∧ elemsOf ins = intVals xs ++ tail ∧
        (tail = [] ∨ ∃ l, tail = [Val.list l])) ∨
      (∃ xs ys w, elemsOf ins = intVals xs ∧ elemsOf outs = listVals ys ∧ chunks n xs = ys ++ chunks n w ∧
        termOf ins = some none ∧ termOf outs = none) := by
    by_cases ha : s.alive = true
    · by_cases hc : s.completing = true
      · obtain ⟨h1, h2, xs, ys, h3, h4, h5⟩ := h.compl ha hc
        exact Or.inr (Or.inr ⟨xs, ys, s.window, h3, h4, h5, h1, h2⟩)
      · obtain ⟨_, _, _, xs, ys, h3, h4, h5⟩ := h.live ha (by simpa using hc)
        exact Or.inr (Or.inl ⟨xs, ys, s.window, [], h4, h5, by simpa using h3, Or.inl rfl⟩)
    · rcases h.dead (by simpa using ha) with ⟨h1, h2, xs, ys, h3, h4, h5⟩ | ⟨e, _, xs, ys, w, h4, h5, h6⟩
      · exact Or.inl ⟨xs, ys, h3, h4, by simpa [chunks_nil] using h5, h2, Or.inr h1⟩
      · rcases h6 with ⟨_, h7⟩ | ⟨_, l, h7⟩
        · exact Or.inr (Or.inl ⟨xs, ys, w, [], h4, h5, by simpa using h7, Or.inl rfl⟩)
        · exact Or.inr (Or.inl ⟨xs, ys, w, [Val.list l], h4, h5, h7, Or.inr ⟨l, rfl⟩⟩)
  -- prefix against the semantics of the consumed elements, and against every extension unless input is complete
  have pre1 : elemsOf outs <+: (stageSem (.batch n) (elemsOf ins)).1 := by
    rcases key with ⟨xs, ys, h3, h4, h5, _, _⟩ | ⟨xs, ys, w, tail, h4, h5, h3, ht⟩ | ⟨xs, ys, w, h3, h4, h5, _, _⟩
    · rw [h3, h4]; simp only [stageSem, ints_intVals]; rw [h5]; exact listVals_prefix (List.prefix_append _ _)
    · rw [h3, h4]
      have : (ints (intVals xs ++ tail)).1 = xs := by
        rcases ht with rfl | ⟨l, rfl⟩
        · simp [ints_intVals]
        · rw [ints_blocked]
      simp only [stageSem, this]
      rw [h5.now]; exact listVals_prefix (List.prefix_append _ _)
    · rw [h3, h4]; simp only [stageSem, ints_intVals]; rw [h5]; exact listVals_prefix (List.prefix_append _ _)
  refine ⟨h.wfOut, pre1, ?_, ?_, ?_⟩
  · intro hnc X hX
    rcases key with ⟨_, _, _, _, _, h6, _⟩ | ⟨xs, ys, w, tail, h4, h5, h3, ht⟩ | ⟨_, _, _, _, _, _, h6, _⟩
    · exact absurd h6 hnc
    · obtain ⟨rest, rfl⟩ := hX
      rw [h4, h3]
      rcases ht with rfl | ⟨l, rfl⟩
      · simp only [List.append_nil, stageSem, ints_intVals_append]
        rw [h5 (ints rest).1]; exact listVals_prefix (List.prefix_append _ _)
      · simp only [List.append_assoc, List.singleton_append, stageSem, ints_blocked]
        rw [h5.now]; exact listVals_prefix (List.prefix_append _ _)
    · exact absurd h6 hnc
  · intro ho
    by_cases ha : s.alive = true
    · by_cases hc : s.completing = true
      · have := (h.compl ha hc).2.1; rw [ho] at this; simp at this
      · have := (h.live ha (by simpa using hc)).2.1; rw [ho] at this; simp at this
    · rcases h.dead (by simpa using ha) with ⟨_, h2, xs, ys, h3, h4, h5⟩ | ⟨e, h1, _⟩
      · refine ⟨h2, ?_, ?_⟩
        · rw [h3]; simp [stageSem, ints_intVals, tyErr]
        · rw [h3, h4]; simp only [stageSem, ints_intVals]; rw [h5]; rfl
      · rw [ho] at h1; simp at h1
  · intro e ho
    by_cases ha : s.alive = true
    · by_cases hc : s.completing = true
      · have := (h.compl ha hc).2.1; rw [ho] at this; simp at this
      · have := (h.live ha (by simpa using hc)).2.1; rw [ho] at this; simp at this
    · rcases h.dead (by simpa using ha) with ⟨h1, _⟩ | ⟨e', h1, xs, ys, w, _, _, h6⟩
      · rw [ho] at h1; simp at h1
      · rw [ho] at h1
        have : e = e' := by simpa using h1
        subst this
        rcases h6 with ⟨h7, _⟩ | ⟨he, l, h7⟩
        · exact Or.inl h7
        · refine Or.inr fun X hX _ => ?_
          obtain ⟨rest, rfl⟩ := hX
          rw [h7, he]
          simp [stageSem, ints_blocked, tyErr]

end GoaktVerif.C45

/-
C45 lemmas, part 19: every message handled by an OrderedParallelMap stage preserves `PInv`;
the stage satisfies the content specification for `parRun` on homogeneous inputs.
-/
import GoaktVerif.Lemmas.C45.PMap

namespace GoaktVerif.C45
open GoaktVerif.Model.C45

section
variable (k : Int) (bad : Option Int) (e : Err)

theorem PInv.step_req {s : PMapSt} {ins outs : List Down} (w : Nat) (n : Int) (h : PInv k bad e s ins outs) :
    PInv k bad e (pmapStep true w s (.up (.req n))).1 ins (outs ++ (pmapStep true w s (.up (.req n))).2.down) := by
  simp only [pmapStep]
  split
  · simpa using h
  · simp only [List.append_nil]
    exact ⟨h.wfOut, fun ha => h.live ha, fun ha => h.dead ha⟩

theorem PInv.step_wire {s : PMapSt} {ins outs : List Down} (w : Nat) (h : PInv k bad e s ins outs) :
    PInv k bad e (pmapStep true w s .wire).1 ins (outs ++ (pmapStep true w s .wire).2.down) := by
  simpa [pmapStep] using h

/-- the actor completes: everything outstanding has been answered and flushed -/
theorem PInv.finish {s : PMapSt} {ins outs : List Down} (pre : List Down) (zs1 : List Val)
    (hwf : wf outs = true) (hto : termOf outs = none) (hti : termOf ins = some none)
    (hpre : pre = zs1.map Down.elem)
    (hc : Core k bad e (elemsOf ins) s.nextEmit s.pending s.outst (elemsOf outs ++ zs1))
    (hout : s.outst = []) :
    PInv k bad e { (s.flushOrdered).1 with alive := false } ins
      (outs ++ (pre ++ (s.flushOrdered).2 ++ [Down.complete])) := by
  obtain ⟨zs, hz, hc', hpost, ho, _, _, _, _⟩ := flushOrdered_spec k bad e hc
  rw [hout] at hc'
  have hall := Core.all_emitted k bad e hc' hpost
  have t1 : termOf (outs ++ (zs1 ++ zs).map Down.elem) = none := by
    rw [termOf_append_open hto, termOf_map_elem]
  have e0 : outs ++ (pre ++ (s.flushOrdered).2 ++ [Down.complete]) =
      (outs ++ (zs1 ++ zs).map Down.elem) ++ [Down.complete] := by
    rw [hpre, hz]; simp [List.append_assoc]
  rw [e0]
  refine ⟨?_, fun h1 => by simp at h1, fun _ => Or.inl ⟨?_, hti, ?_⟩⟩
  · rw [wf_append_open t1, wf_of_open t1]; rfl
  · rw [termOf_append_open t1]; rfl
  · rw [elemsOf_append_open t1, elemsOf_append_open hto, elemsOf_map_elem]
    simp only [elemsOf, List.append_nil]
    have := hc'.ok
    rw [hall] at this
    simpa [List.append_assoc] using this

/-- a message from upstream -/
theorem PInv.step_down {s : PMapSt} {ins outs : List Down} (w : Nat) (d : Down)
    (h : PInv k bad e s ins outs) (ha : s.alive = true) (hw : wf (ins ++ [d]) = true) :
    PInv k bad e (pmapStep true w s (.down d)).1 (ins ++ [d]) (outs ++ (pmapStep true w s (.down d)).2.down) := by
  obtain ⟨hto, hin, hseq, hfl, hc⟩ := h.live ha
  cases d with
  | elem v =>
    have hio : termOf ins = none := open_of_wf_snoc_elem hw
    have hud : s.upDone = false := by
      rcases hin with ⟨_, h2⟩ | ⟨h1, _⟩
      · exact h2
      · rw [hio] at h1; simp at h1
    cases v with
    | int x =>
      simp only [pmapStep, List.append_nil]
      refine ⟨h.wfOut, fun _ => ⟨hto, Or.inl ⟨termOf_snoc hio _, hud⟩, ?_, ?_, ?_⟩, fun h1 => by simp [ha] at h1⟩
      · rw [elemsOf_snoc_elem hio]; simp [hseq]
      · simp only [List.length_append, List.length_singleton]; push_cast; omega
      · rw [elemsOf_snoc_elem hio, hseq]
        exact Core.push k bad e hc (.int x)
    | list l =>
      simp only [pmapStep]
      refine ⟨by rw [wf_append_open hto, h.wfOut]; rfl, fun h1 => by simp at h1, fun _ => Or.inr ?_⟩
      refine ⟨typeErr, by rw [termOf_append_open hto]; rfl, ⟨s.nextEmit, ?_⟩, Or.inr ⟨.list l, ?_, rfl⟩⟩
      · rw [elemsOf_snoc_elem hio, elemsOf_append_open hto]
        simpa [elemsOf] using okPrefix_mono k bad e hc.ok [.list l]
      · rw [elemsOf_snoc_elem hio]; simp
  | complete =>
    have hti : termOf (ins ++ [.complete]) = some none ∧ elemsOf (ins ++ [.complete]) = elemsOf ins := by
      rcases hin with ⟨h1, _⟩ | ⟨h1, _⟩
      · exact ⟨termOf_snoc h1 _, elemsOf_snoc_term (d := Down.complete) rfl⟩
      · have hne : termOf ins ≠ none := by rw [h1]; simp
        exact ⟨by rw [termOf_append_closed hne, h1], elemsOf_append_closed hne _⟩
    simp only [pmapStep, if_true]
    split
    · rename_i hz
      have hz' : s.inFlight = 0 := by simpa using hz
      have hout : s.outst = [] := by
        have : (s.outst.length : Int) ≤ 0 := by rw [← hz']; exact hfl
        exact List.length_eq_zero_iff.mp (by omega)
      have hc0 : Core k bad e (elemsOf (ins ++ [.complete])) ({ s with upDone := true } : PMapSt).nextEmit
          ({ s with upDone := true } : PMapSt).pending ({ s with upDone := true } : PMapSt).outst (elemsOf outs ++ []) := by
        rw [hti.2]; simpa using hc
      have := PInv.finish k bad e (s := { s with upDone := true }) (ins := ins ++ [.complete]) (outs := outs) [] []
        h.wfOut hto hti.1 rfl hc0 hout
      simpa using this
    · rename_i hz
      simp only [List.append_nil]
      refine ⟨h.wfOut, fun _ => ⟨hto, Or.inr ⟨hti.1, rfl⟩, by rw [hti.2]; exact hseq, hfl, by rw [hti.2]; exact hc⟩,
        fun h1 => by simp [ha] at h1⟩
  | error er =>
    have hio : termOf ins = none := by
      rcases hin with ⟨h1, _⟩ | ⟨h1, _⟩
      · exact h1
      · have := eq_of_wf_snoc_closed h1 hw; simp [toMsg] at this
    simp only [pmapStep]
    refine ⟨by rw [wf_append_open hto, h.wfOut]; rfl, fun h1 => by simp at h1, fun _ => Or.inr ?_⟩
    refine ⟨er, by rw [termOf_append_open hto]; rfl, ⟨s.nextEmit, ?_⟩, Or.inl (termOf_snoc hio _)⟩
    rw [elemsOf_snoc_term (d := Down.error er) rfl, elemsOf_append_open hto]
    simpa [elemsOf] using hc.ok

/-- the worker holding task `t` replies -/
theorem PInv.step_result {s : PMapSt} {ins outs : List Down} (w : Nat) (t : Nat × Val)
    (h : PInv k bad e s ins outs) (ha : s.alive = true) (ht : t ∈ s.outst) :
    PInv k bad e (pmapStep true w s (.result t.1 (parFn k bad e t.2))).1 ins
      (outs ++ (pmapStep true w s (.result t.1 (parFn k bad e t.2))).2.down) := by
  obtain ⟨hto, hin, hseq, hfl, hc⟩ := h.live ha
  cases hf : parFn k bad e t.2 with
  | error er =>
    simp only [pmapStep]
    refine ⟨by rw [wf_append_open hto, h.wfOut]; rfl, fun h1 => by simp at h1, fun _ => Or.inr ?_⟩
    refine ⟨er, by rw [termOf_append_open hto]; rfl, ⟨s.nextEmit, ?_⟩,
      Or.inr ⟨t.2, Core.mem_of_outst k bad e hc ht, hf⟩⟩
    rw [elemsOf_append_open hto]; simpa [elemsOf] using hc.ok
  | ok y =>
    simp only [pmapStep, if_true]
    have hc1 := Core.reply k bad e hc ht hf
    have hfl1 := filter_length_lt ht
    -- first flush
    obtain ⟨zs, hz, hc2, hpost, ho2, hif2, hud2, hsq2, hal2⟩ := flushOrdered_spec k bad e
      (s := { s with inFlight := s.inFlight - 1, outst := s.outst.filter (fun u => u.1 != t.1),
                     pending := (t.1, y) :: s.pending }) (em := elemsOf outs) hc1
    have t1 : termOf (outs ++ zs.map Down.elem) = none := by rw [termOf_append_open hto, termOf_map_elem]
    have e1 : elemsOf (outs ++ zs.map Down.elem) = elemsOf outs ++ zs := by
      rw [elemsOf_append_open hto, elemsOf_map_elem]
    split
    · rename_i hfin
      simp only [Bool.and_eq_true, beq_iff_eq] at hfin
      rw [hud2] at hfin
      have hud : s.upDone = true := hfin.1
      have hti : termOf ins = some none := by
        rcases hin with ⟨_, h2⟩ | ⟨h1, _⟩
        · rw [hud] at h2; simp at h2
        · exact h1
      have hz0 : s.inFlight - 1 = 0 := by have := hfin.2; rw [hif2] at this; exact this
      have hout : (s.outst.filter fun u => u.1 != t.1) = [] := by
        apply List.length_eq_zero_iff.mp; omega
      have := PInv.finish k bad e (ins := ins) (outs := outs) _ zs h.wfOut hto hti hz
        (s := ({ s with inFlight := s.inFlight - 1, outst := s.outst.filter (fun u => u.1 != t.1),
                        pending := (t.1, y) :: s.pending } : PMapSt).flushOrdered.1)
        (by rw [ho2]; exact hc2) (by rw [ho2]; exact hout)
      exact this
    · rw [hz]
      refine ⟨wf_of_open t1, fun _ => ⟨t1, ?_, ?_, ?_, ?_⟩, fun h1 => ?_⟩
      · rw [hud2]; exact hin
      · rw [hsq2]; exact hseq
      · rw [ho2, hif2]; simp only; omega
      · rw [e1, ho2]; exact hc2
      · rw [hal2] at h1; simp [ha] at h1

/-- the content specification for `parRun`, the error clause for homogeneous ideal inputs -/
theorem PInv.specM {s : PMapSt} {ins outs : List Down} (h : PInv k bad e s ins outs) :
    SpecM Homog (parRun k bad e) ins outs := by
  have hok : ∃ m, OkPrefix k bad e (elemsOf ins) m (elemsOf outs) := by
    by_cases ha : s.alive = true
    · exact ⟨_, (h.live ha).2.2.2.2.ok⟩
    · rcases h.dead (by simpa using ha) with ⟨_, _, h3⟩ | ⟨_, _, h3, _⟩
      · exact ⟨_, h3⟩
      · exact h3
  obtain ⟨m, hm⟩ := hok
  refine ⟨h.wfOut, okPrefix_prefix k bad e hm, ?_, ?_, ?_⟩
  · intro _ X hX
    obtain ⟨rest, rfl⟩ := hX
    exact okPrefix_prefix k bad e (okPrefix_mono k bad e hm rest)
  · intro ho
    by_cases ha : s.alive = true
    · have := (h.live ha).1; rw [ho] at this; simp at this
    · rcases h.dead (by simpa using ha) with ⟨_, h2, h3⟩ | ⟨er, h1, _⟩
      · have := okPrefix_all k bad e h3
        exact ⟨h2, by rw [this], by rw [this]⟩
      · rw [ho] at h1; simp at h1
  · intro er ho
    by_cases ha : s.alive = true
    · have := (h.live ha).1; rw [ho] at this; simp at this
    · rcases h.dead (by simpa using ha) with ⟨h1, _⟩ | ⟨er', h1, _, h3⟩
      · rw [ho] at h1; simp at h1
      · rw [ho] at h1
        have : er = er' := by simpa using h1
        subst this
        rcases h3 with h3 | ⟨v, hv, hfv⟩
        · exact Or.inl h3
        · refine Or.inr fun X hX hH => ?_
          obtain ⟨rest, rfl⟩ := hX
          exact parRun_err k bad e hH (List.mem_append_left _ hv) hfv

end

end GoaktVerif.C45

/-
C45 lemmas, part 18: parallelMapActor in ordered mode (OrderedParallelMap) is a FIFO transducer for
`parRun`, whatever the order in which the workers reply.
-/
import GoaktVerif.Lemmas.C45.PMapCore

namespace GoaktVerif.C45
open GoaktVerif.Model.C45

section
variable (k : Int) (bad : Option Int) (e : Err)

structure PInv (s : PMapSt) (ins outs : List Down) : Prop where
  wfOut : wf outs = true
  live : s.alive = true →
    termOf outs = none ∧
    ((termOf ins = none ∧ s.upDone = false) ∨ (termOf ins = some none ∧ s.upDone = true)) ∧
    s.inSeq = (elemsOf ins).length ∧ (s.outst.length : Int) ≤ s.inFlight ∧
    Core k bad e (elemsOf ins) s.nextEmit s.pending s.outst (elemsOf outs)
  dead : s.alive = false →
    (termOf outs = some none ∧ termOf ins = some none ∧
      OkPrefix k bad e (elemsOf ins) (elemsOf ins).length (elemsOf outs))
    ∨ (∃ er, termOf outs = some (some er) ∧ (∃ m, OkPrefix k bad e (elemsOf ins) m (elemsOf outs)) ∧
        (termOf ins = some (some er) ∨ ∃ v ∈ elemsOf ins, parFn k bad e v = .error er))

theorem PInv.init : PInv k bad e {} [] [] :=
  ⟨rfl, fun _ => ⟨rfl, Or.inl ⟨rfl, rfl⟩, rfl, by simp,
    ⟨⟨rfl, Nat.le_refl _, fun i hi => absurd hi (Nat.not_lt_zero i)⟩, fun p hp => by simp at hp, fun t ht => by simp at ht,
      fun t ht => by simp at ht, fun q h1 h2 => by simp [elemsOf] at h2; omega⟩⟩,
   fun h => by simp at h⟩

/-- `flushOrdered` on the actor state -/
theorem flushOrdered_spec {xs : List Val} {s : PMapSt} {em : List Val}
    (hc : Core k bad e xs s.nextEmit s.pending s.outst em) :
    ∃ zs, (s.flushOrdered).2 = zs.map Down.elem ∧
      Core k bad e xs (s.flushOrdered).1.nextEmit (s.flushOrdered).1.pending s.outst (em ++ zs) ∧
      (∀ x ∈ (s.flushOrdered).1.pending, x.1 ≠ (s.flushOrdered).1.nextEmit + 1) ∧
      (s.flushOrdered).1.outst = s.outst ∧ (s.flushOrdered).1.inFlight = s.inFlight ∧
      (s.flushOrdered).1.upDone = s.upDone ∧ (s.flushOrdered).1.inSeq = s.inSeq ∧
      (s.flushOrdered).1.alive = s.alive := by
  obtain ⟨h1, h2⟩ := flushOrd_spec k bad e xs s.outst s.pending.length s.nextEmit s.pending em hc (Nat.le_refl _)
  exact ⟨_, rfl, h1, h2, rfl, rfl, rfl, rfl, rfl⟩

/-- nothing outstanding and nothing flushable left: everything has been emitted -/
theorem Core.all_emitted {xs : List Val} {ne : Nat} {pend : List (Nat × Val)} {em : List Val}
    (hc : Core k bad e xs ne pend [] em) (hp : ∀ x ∈ pend, x.1 ≠ ne + 1) : ne = xs.length := by
  have hle := hc.ok.2.1
  apply Classical.byContradiction
  intro hne
  rcases hc.cover (ne + 1) (by omega) (by omega) with ⟨p, hp1, hp2⟩ | ⟨t, ht, _⟩
  · exact hp p hp1 hp2
  · simp at ht

/-- a new element is dispatched to a worker -/
theorem Core.push {xs : List Val} {ne : Nat} {pend outst : List (Nat × Val)} {em : List Val}
    (hc : Core k bad e xs ne pend outst em) (v : Val) :
    Core k bad e (xs ++ [v]) ne pend (outst ++ [(xs.length + 1, v)]) em := by
  refine ⟨okPrefix_mono k bad e hc.ok [v], ?_, ?_, ?_, ?_⟩
  · intro p hp
    obtain ⟨a, b, w, hw, hf⟩ := hc.hpend p hp
    exact ⟨a, by simp; omega, w, by rw [List.getElem?_append_left (by omega)]; exact hw, hf⟩
  · intro t ht
    rcases List.mem_append.mp ht with ht | ht
    · obtain ⟨a, b, c⟩ := hc.houtst t ht
      exact ⟨a, by simp; omega, by rw [List.getElem?_append_left (by omega)]; exact c⟩
    · simp at ht; subst ht
      have := hc.ok.2.1
      exact ⟨by simp; omega, by simp, by simp⟩
  · intro t ht p hp
    rcases List.mem_append.mp ht with ht | ht
    · exact hc.disj t ht p hp
    · simp at ht; subst ht
      have := (hc.hpend p hp).2.1
      simp; omega
  · intro q h1 h2
    simp at h2
    by_cases hq : q ≤ xs.length
    · rcases hc.cover q h1 hq with r | ⟨t, ht, htq⟩
      · exact Or.inl r
      · exact Or.inr ⟨t, List.mem_append_left _ ht, htq⟩
    · exact Or.inr ⟨(xs.length + 1, v), by simp, by simp; omega⟩

/-- a worker's successful reply moves its seqNo from outstanding to the heap -/
theorem Core.reply {xs : List Val} {ne : Nat} {pend outst : List (Nat × Val)} {em : List Val}
    (hc : Core k bad e xs ne pend outst em) {t : Nat × Val} (ht : t ∈ outst) {y : Val}
    (hf : parFn k bad e t.2 = .ok y) :
    Core k bad e xs ne ((t.1, y) :: pend) (outst.filter fun u => u.1 != t.1) em := by
  obtain ⟨a, b, c⟩ := hc.houtst t ht
  refine ⟨hc.ok, ?_, ?_, ?_, ?_⟩
  · intro p hp
    rcases List.mem_cons.mp hp with rfl | hp
    · exact ⟨a, b, t.2, c, hf⟩
    · exact hc.hpend p hp
  · intro u hu; exact hc.houtst u (List.mem_filter.mp hu).1
  · intro u hu p hp
    obtain ⟨hu1, hu2⟩ := List.mem_filter.mp hu
    rcases List.mem_cons.mp hp with rfl | hp
    · simpa using hu2
    · exact hc.disj u hu1 p hp
  · intro q h1 h2
    rcases hc.cover q h1 h2 with ⟨p, hp, hpq⟩ | ⟨u, hu, huq⟩
    · exact Or.inl ⟨p, List.mem_cons_of_mem _ hp, hpq⟩
    · by_cases hqt : u.1 = t.1
      · exact Or.inl ⟨(t.1, y), by simp, by simp; omega⟩
      · exact Or.inr ⟨u, List.mem_filter.mpr ⟨hu, by simpa using hqt⟩, huq⟩

theorem Core.mem_of_outst {xs : List Val} {ne : Nat} {pend outst : List (Nat × Val)} {em : List Val}
    (hc : Core k bad e xs ne pend outst em) {t : Nat × Val} (ht : t ∈ outst) : t.2 ∈ xs :=
  List.mem_of_getElem? (hc.houtst t ht).2.2

theorem filter_length_lt {outst : List (Nat × Val)} {t : Nat × Val} (ht : t ∈ outst) :
    ((outst.filter fun u => u.1 != t.1).length : Int) ≤ (outst.length : Int) - 1 := by
  have : (outst.filter fun u => u.1 != t.1).length < outst.length :=
    List.length_filter_lt_length_iff_exists.mpr ⟨t, ht, by simp⟩
  omega

end

end GoaktVerif.C45

/-
C45 lemmas, part 11: the network built by `mkNet` (what `applyFusion` + `materialize` build for a
pipeline of flowActor-backed stages) satisfies the invariant once every stage has handled its stageWire.
-/
import GoaktVerif.Lemmas.C45.NetFinal

namespace GoaktVerif.C45
open GoaktVerif.Model.C45

/-- a freshly constructed flow / fused stage actor -/
def FreshMid (nd : Node) : Prop :=
  (∃ c st, nd = .flow c st {}) ∨ (∃ c fs, nd = .fused c fs {}) ∨ (∃ c n, nd = .batch c n {}) ∨
  (∃ o w k b e, nd = .pmap o w k b e {})

theorem FreshMid.ok {nd : Node} (h : FreshMid nd) : middleOK nd = true ∧ MidInv nd [] [] ∧ nd.alive = true := by
  rcases h with ⟨c, st, rfl⟩ | ⟨c, fs, rfl⟩ | ⟨c, n, rfl⟩ | ⟨o, w, k, b, e, rfl⟩
  · exact ⟨rfl, FlowInv.init st, rfl⟩
  · exact ⟨rfl, FusedInv.init fs, rfl⟩
  · exact ⟨rfl, BatchInv.init n, rfl⟩
  · cases o with
    | true => exact ⟨rfl, PInv.init k b e, rfl⟩
    | false => exact ⟨rfl, PInvU.init k b e, rfl⟩

/-- stages inside the composition theorem: flowActor-backed ones and Batch -/
def Stage.covered : Stage → Bool
  | .pmap _ _ _ _ => false
  | _ => true

/-- every stage's fresh actor (also the unordered ParallelMap's) -/
theorem freshMid_mkNode' (st : Stage) : FreshMid (mkNode st) := by
  cases st
  all_goals first
    | exact Or.inl ⟨_, _, rfl⟩
    | exact Or.inr (Or.inr (Or.inl ⟨_, _, rfl⟩))
    | exact Or.inr (Or.inr (Or.inr ⟨_, _, _, _, _, rfl⟩))

theorem freshMid_mkNode (st : Stage) (_h : Stage.covered st = true) : FreshMid (mkNode st) := freshMid_mkNode' st

theorem freshMid_fuseRuns' (stages acc : List Stage) : ∀ nd ∈ fuseRuns stages acc, FreshMid nd := by
  induction stages generalizing acc with
  | nil =>
    intro nd hnd
    simp only [fuseRuns] at hnd
    match acc with
    | [] => simp at hnd
    | [a] => simp at hnd; subst hnd; exact freshMid_mkNode' a
    | a :: b :: r => simp at hnd; subst hnd; exact Or.inr (Or.inl ⟨_, _, rfl⟩)
  | cons s rest ih =>
    intro nd hnd
    simp only [fuseRuns] at hnd
    split at hnd
    · exact ih (s :: acc) nd hnd
    · rcases List.mem_append.mp hnd with h1 | h1
      · match acc, h1 with
        | [], h1 => simp at h1
        | [a], h1 => simp at h1; subst h1; exact freshMid_mkNode' a
        | a :: b :: r, h1 => simp at h1; subst h1; exact Or.inr (Or.inl ⟨_, _, rfl⟩)
      · rcases List.mem_cons.mp h1 with rfl | h2
        · exact freshMid_mkNode' s
        · exact ih [] nd h2

theorem freshMid_fuseRuns (stages acc : List Stage) (_hs : ∀ st ∈ stages, Stage.covered st = true)
    (_ha : ∀ st ∈ acc, Stage.covered st = true) : ∀ nd ∈ fuseRuns stages acc, FreshMid nd :=
  freshMid_fuseRuns' stages acc

/-- the un-wired network -/
def rawNet (mids : List Node) (input : List Val) : Net :=
  { nodes := .src { rest := input } :: (mids ++ [.sink defaultCfg {}]),
    links := List.replicate (mids.length + 1) {} }

theorem rawNet_hist (mids : List Node) (input : List Val) (j : Nat) : hist (rawNet mids input) j = [] := by
  simp only [hist, rawNet, List.getElem?_replicate]
  split <;> rfl

theorem rawNet_pos (mids : List Node) (input : List Val) (j : Nat) : pos (rawNet mids input) j = 0 := by
  simp only [pos, rawNet, List.getElem?_replicate]
  split <;> rfl

theorem rawNet_upq (mids : List Node) (input : List Val) (j : Nat) : upq (rawNet mids input) j = [] := by
  simp only [upq, rawNet, List.getElem?_replicate]
  split <;> rfl

theorem approx_nil (input : List Val) : Approx [] input [] :=
  ⟨List.nil_prefix, fun h => by simp [termOf] at h, fun e h => by simp [termOf] at h⟩

theorem specM_nil (P : List Val → Prop) (F : SemFn) : SpecM P F [] [] :=
  ⟨rfl, List.nil_prefix, fun _ _ _ => List.nil_prefix, fun h => by simp [termOf] at h,
    fun e h => by simp [termOf] at h⟩

theorem specU_nil (P : List Val → Prop) (k : Int) (bad : Option Int) (e : Err) : SpecU k bad e P [] [] :=
  ⟨rfl, fun X _ => ⟨okAll k bad e X, by simp [elemsOf]⟩, fun h => by simp [termOf] at h, fun er h => by simp [termOf] at h⟩

theorem nodeSpec_nil (P : List Val → Prop) (nd : Node) : NodeSpec P nd [] [] := by
  cases nd with
  | pmap o w k b e s =>
    cases o with
    | false => exact specU_nil P k b e
    | true => exact specM_nil _ _
  | src s => exact specM_nil _ _
  | flow c st s => exact specM_nil _ _
  | fused c fs s => exact specM_nil _ _
  | batch c n s => exact specM_nil _ _
  | sink c s => exact specM_nil _ _

theorem GInv.raw (mids : List Node) (input : List Val) (hm : ∀ nd ∈ mids, FreshMid nd)
    (hpar : (∀ X, P X → Homog X) ∨ ∀ nd ∈ mids, isPar nd = false) :
    GInv P input (rawNet mids input) := by
  have hlen : (rawNet mids input).nodes.length = mids.length + 2 := by simp [rawNet]
  refine ⟨by simp [rawNet], by rw [hlen]; omega, rfl, ?_, ?_, ?_, ?_, ?_, ?_, ?_⟩
  · intro j; rw [rawNet_pos]; omega
  · intro j; rw [rawNet_hist]; rfl
  · refine ⟨{ rest := input }, by simp [rawNet], by rw [rawNet_hist]; exact approx_nil input, fun _ => ?_⟩
    rw [rawNet_hist]; exact SrcInv.init input
  · intro i nd hi0 hi1 hn
    rw [hlen] at hi1
    have hmem : nd ∈ mids := by
      obtain ⟨k, rfl⟩ : ∃ k, i = k + 1 := ⟨i - 1, by omega⟩
      simp only [rawNet, List.getElem?_cons_succ] at hn
      rw [List.getElem?_append_left (by omega)] at hn
      exact List.mem_of_getElem? hn
    obtain ⟨hok, hmi, _⟩ := (hm nd hmem).ok
    have hins : insOf (rawNet mids input) i = [] := by simp [insOf, rawNet_hist]
    rw [hins, rawNet_hist]
    exact ⟨hok, nodeSpec_nil _ _, fun _ => hmi⟩
  · refine ⟨defaultCfg, {}, ?_, ?_⟩
    · rw [hlen]
      have e1 : mids.length + 2 - 1 = mids.length + 1 := by omega
      rw [e1]
      simp only [rawNet, List.getElem?_cons_succ]
      rw [List.getElem?_append_right (Nat.le_refl _)]; simp
    · have : insOf (rawNet mids input) ((rawNet mids input).nodes.length - 1) = [] := by simp [insOf, rawNet_hist]
      rw [this]; exact SinkInv.init
  · intro j hc; rw [rawNet_upq] at hc; simp at hc
  · rcases hpar with hp | hp
    · exact Or.inl hp
    · refine Or.inr fun j nd hn => ?_
      cases j with
      | zero => simp [rawNet] at hn; subst hn; rfl
      | succ j =>
        simp only [rawNet, List.getElem?_cons_succ] at hn
        have hm := List.mem_of_getElem? hn
        rcases List.mem_append.mp hm with h1 | h1
        · exact hp nd h1
        · simp at h1; subst h1; rfl

/-- every node still runs -/
def AllAlive (net : Net) : Prop := ∀ j, j < net.nodes.length → net.aliveAt j = true

theorem rawNet_allAlive (mids : List Node) (input : List Val) (hm : ∀ nd ∈ mids, FreshMid nd) :
    AllAlive (rawNet mids input) := by
  intro j hj
  simp only [rawNet, List.length_cons, List.length_append, List.length_singleton] at hj
  unfold Net.aliveAt
  cases j with
  | zero => simp [rawNet, Node.alive]
  | succ k =>
    simp only [rawNet, List.getElem?_cons_succ]
    by_cases hk : k < mids.length
    · rw [List.getElem?_append_left hk]
      have hget := List.getElem?_eq_getElem hk
      rw [hget]
      exact (hm _ (List.getElem_mem hk)).ok.2.2
    · have : k = mids.length := by simp at hj; omega
      subst this
      rw [List.getElem?_append_right (Nat.le_refl _)]; simp [Node.alive]

/-- handling the stageWire: covered nodes send nothing downstream, stay alive and keep their invariant -/
theorem wire_step (nd : Node) (ha : nd.alive = true)
    (hk : middleOK nd = true ∨ (∃ s, nd = .src s) ∨ (∃ c s, nd = .sink c s)) :
    (nd.step .wire).2.down = [] ∧ (nd.step .wire).1.alive = true := by
  unfold Node.step
  simp only [ha, Bool.not_true, Bool.false_eq_true, if_false]
  cases nd with
  | flow c st s => exact ⟨rfl, ha⟩
  | fused c fs s => exact ⟨rfl, ha⟩
  | src s => exact ⟨rfl, ha⟩
  | sink c s => exact ⟨rfl, ha⟩
  | batch c n s => exact ⟨rfl, ha⟩
  | pmap o w k b e s => exact ⟨rfl, ha⟩

theorem MidInv.step_wire {nd : Node} {ins outs : List Down} (h : MidInv nd ins outs) (ha : nd.alive = true) :
    MidInv (nd.step .wire).1 ins outs := by
  cases nd with
  | flow c st s =>
    have ha' : s.alive = true := ha
    simpa [Node.step, Node.alive, ha', flowStep] using h
  | fused c fs s =>
    have ha' : s.alive = true := ha
    simp only [Node.step, Node.alive, ha', Bool.not_true, Bool.false_eq_true, if_false]
    have := FusedInv.step_other c .wire h (fun d => by simp) (by simp)
    simp only [fusedStep, List.append_nil] at this
    exact this
  | src s => exact h.elim
  | batch c n s =>
    have ha' : s.alive = true := ha
    simpa [Node.step, Node.alive, ha', batchStep] using h
  | pmap o w k b e s =>
    cases o with
    | false =>
      have ha' : s.alive = true := ha
      simpa [Node.step, Node.alive, ha', pmapStep] using h
    | true =>
      have ha' : s.alive = true := ha
      simpa [Node.step, Node.alive, ha', pmapStep] using h
  | sink c s => exact h.elim

theorem GInv.step_wire {P : List Val → Prop} {input : List Val} {net : Net} (h : GInv P input net) (hal : AllAlive net) (k : Nat)
    (hk : k < net.nodes.length) :
    GInv P input (net.deliver k .wire) ∧ AllAlive (net.deliver k .wire) := by
  have ha := hal k hk
  obtain ⟨nd, hn, hnda⟩ := aliveAt_some ha
  have hsb : SameBut net net (pos net) := ⟨rfl, rfl, rfl, fun _ => rfl, fun _ => rfl, fun _ _ hx => hx⟩
  have hf := frame_of_deliver (ev := .wire) hsb hn
  have hkind := h.kind hn
  have hcovk : middleOK nd = true ∨ (∃ s, nd = .src s) ∨ (∃ c s, nd = .sink c s) := by
    rcases hkind with ⟨_, s, hs⟩ | ⟨_, _, hok⟩ | ⟨_, c, s, hs⟩
    · exact Or.inr (Or.inl ⟨s, hs⟩)
    · exact Or.inl hok
    · exact Or.inr (Or.inr ⟨c, s, hs⟩)
  have hcov := covered_step nd .wire hcovk
  obtain ⟨hwd, hwa⟩ := wire_step nd hnda hcovk
  have hhist : ∀ j, hist (net.deliver k .wire) j = hist net j := by
    intro j; rw [hf.hist, hwd]; split <;> simp
  constructor
  · apply h.of_frame hf hn ha h.posle (fun j _ _ => rfl) trivial hcov
    · rw [hhist]; exact h.wfh k
    · intro hk0 s hs
      subst hk0; subst hs
      obtain ⟨s0, hs0, hap, hsi⟩ := h.src
      have hss : s0 = s := by rw [hn] at hs0; cases hs0; rfl
      subst hss
      rw [src_step_alive _ _ hnda, hhist]
      refine ⟨_, rfl, hap, fun hal1 => ?_⟩
      have : (srcStep s0 .wire).1 = s0 := rfl
      rw [this]
      apply hsi
      rw [hf.alive] at hal1
      by_cases h1 : 1 = 0
      · omega
      · simpa [h1] using hal1
    · intro hk0 hk1
      obtain ⟨_, hsp, hmi⟩ := h.mid k nd hk0 hk1 hn
      rw [hhist]
      refine ⟨hsp, fun hal1 => MidInv.step_wire (hmi ?_) hnda⟩
      rw [hf.alive] at hal1
      simpa using hal1
    · intro hk1 c s hs
      subst hs
      obtain ⟨c0, s0, hs0, hsi⟩ := h.sink
      have hidx : net.nodes.length - 1 = k := by omega
      rw [hidx] at hs0 hsi
      have hcs : c0 = c ∧ s0 = s := by rw [hn] at hs0; cases hs0; exact ⟨rfl, rfl⟩
      obtain ⟨rfl, rfl⟩ := hcs
      rw [sink_step_alive _ _ _ hnda]
      exact ⟨_, rfl, hsi.wire c0⟩
  · intro j hj
    rw [hf.nlen] at hj
    rw [hf.alive]
    split
    · exact hwa
    · exact hal j hj

theorem wireAll_inv {P : List Val → Prop} {input : List Val} (net : Net) (h : GInv P input net) (hal : AllAlive net) (k : Nat)
    (hk : k ≤ net.nodes.length) :
    GInv P input (wireAll k net) ∧ AllAlive (wireAll k net) ∧ (wireAll k net).nodes.length = net.nodes.length := by
  induction k with
  | zero => exact ⟨h, hal, rfl⟩
  | succ k ih =>
    obtain ⟨h1, h2, h3⟩ := ih (by omega)
    simp only [wireAll]
    obtain ⟨h4, h5⟩ := h1.step_wire h2 k (by omega)
    refine ⟨h4, h5, ?_⟩
    have hn : ∃ nd, (wireAll k net).nodes[k]? = some nd := ⟨_, List.getElem?_eq_getElem (by omega)⟩
    obtain ⟨nd, hn⟩ := hn
    rw [(deliver_effect _ k nd .wire hn).nodes]; simp [h3]

end GoaktVerif.C45

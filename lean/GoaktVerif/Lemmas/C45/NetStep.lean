/-
C45 lemmas, part 9: `GInv` is preserved by every enabled scheduler pick.
-/
import GoaktVerif.Lemmas.C45.NetInv

namespace GoaktVerif.C45
open GoaktVerif.Model.C45

theorem getElem?_lt {α : Type} {l : List α} {i : Nat} {x : α} (h : l[i]? = some x) : i < l.length := by
  apply Classical.byContradiction; intro hge
  rw [List.getElem?_eq_none (by omega)] at h; simp at h

theorem aliveAt_some {net : Net} {k : Nat} (h : net.aliveAt k = true) :
    ∃ nd, net.nodes[k]? = some nd ∧ nd.alive = true := by
  unfold Net.aliveAt at h
  cases hn : net.nodes[k]? with
  | none => simp [hn] at h
  | some nd => exact ⟨nd, rfl, by simpa [hn] using h⟩

/-- which kind of node sits at index `k` -/
theorem GInv.kind {P : List Val → Prop} {input : List Val} {net : Net} (h : GInv P input net) {k : Nat} {nd : Node}
    (hn : net.nodes[k]? = some nd) :
    (k = 0 ∧ ∃ s, nd = .src s) ∨ (0 < k ∧ k + 1 < net.nodes.length ∧ middleOK nd = true) ∨
    (k + 1 = net.nodes.length ∧ ∃ c s, nd = .sink c s) := by
  have hk := getElem?_lt hn
  by_cases h0 : k = 0
  · subst h0
    obtain ⟨s, hs, _⟩ := h.src
    rw [hs] at hn
    exact Or.inl ⟨rfl, s, (Option.some.inj hn).symm⟩
  · by_cases hl : k + 1 = net.nodes.length
    · obtain ⟨c, s, hs, _⟩ := h.sink
      have : net.nodes.length - 1 = k := by omega
      rw [this, hn] at hs
      exact Or.inr (Or.inr ⟨hl, c, s, Option.some.inj hs⟩)
    · have h1 : 0 < k := by omega
      have h2 : k + 1 < net.nodes.length := by omega
      exact Or.inr (Or.inl ⟨h1, h2, (h.mid k nd h1 h2 hn).1⟩)

theorem src_step_alive (s : SrcSt) (ev : Ev) (ha : s.alive = true) :
    (Node.src s).step ev = (.src (srcStep s ev).1, (srcStep s ev).2) := by
  simp [Node.step, Node.alive, ha]

theorem sink_step_alive (c : Cfg) (s : SinkSt) (ev : Ev) (ha : s.alive = true) :
    (Node.sink c s).step ev = (.sink c (sinkStep c s ev).1, (sinkStep c s ev).2) := by
  simp [Node.step, Node.alive, ha]

/-- node `i` handles the oldest request / cancel of link `i` -/
theorem GInv.step_up {P : List Val → Prop} {input : List Val} {net net' : Net} (h : GInv P input net) (i : Nat)
    (hstep : net.step (.up i) = some net') : GInv P input net' := by
  unfold Net.step at hstep
  cases hl : net.links[i]? with
  | none => simp [hl] at hstep
  | some l =>
    simp only [hl] at hstep
    cases hq : l.upq with
    | nil => simp [hq] at hstep
    | cons u rest =>
      simp only [hq] at hstep
      by_cases ha : net.aliveAt i = true
      · simp only [ha, Bool.not_true, Bool.false_eq_true, if_false, Option.some.injEq] at hstep
        obtain ⟨nd, hn, hnda⟩ := aliveAt_some ha
        have hil : i < net.links.length := getElem?_lt hl
        have hupq : upq net i = u :: rest := by simp [upq, hl, hq]
        -- the net after the scheduler removed the message
        have hsb : SameBut net { net with links := updLink net.links i (fun l => { l with upq := rest }) } (pos net) := by
          refine ⟨rfl, rfl, by simp [updLink_length], ?_, ?_, ?_⟩
          · intro j; simp only [hist, updLink_get]; split <;> (cases net.links[j]? <;> simp)
          · intro j; simp only [pos, updLink_get]; split <;> (cases net.links[j]? <;> simp)
          · intro j x hx
            simp only [upq, updLink_get] at hx ⊢
            by_cases hij : i = j
            · subst hij
              simp only [if_true, hl, Option.map_some, Option.getD_some] at hx ⊢
              rw [hq]; exact List.mem_cons_of_mem _ hx
            · simpa [hij] using hx
        have hf := frame_of_deliver (ev := .up u) hsb hn
        rw [hstep] at hf
        have hkind := h.kind hn
        have hcov := covered_step nd (.up u) (by
          rcases hkind with ⟨_, s, hs⟩ | ⟨_, _, hok⟩ | ⟨_, c, s, hs⟩
          · exact Or.inr (Or.inl ⟨s, hs⟩)
          · exact Or.inl hok
          · exact Or.inr (Or.inr ⟨c, s, hs⟩))
        -- when the message is a cancel, the downstream neighbour has stopped: nothing is enqueued
        have hfrozen : u = .cancel → hist net' i = hist net i := by
          intro hu
          have := h.cancel i (by rw [hupq, hu]; simp)
          rw [hf.hist]; simp [this]
        have hnext : net'.aliveAt (i + 1) = net.aliveAt (i + 1) := by rw [hf.alive]; simp
        apply h.of_frame hf hn ha h.posle (fun j _ _ => rfl) trivial hcov
        · -- wf of the stepping node's link
          rcases hkind with ⟨hk0, s, hs⟩ | ⟨hk0, hk1, hok⟩ | ⟨hk1, _⟩
          · subst hk0; subst hs
            obtain ⟨s0, hs0, _, hsi⟩ := h.src
            have hs : s0 = s := by rw [hn] at hs0; cases hs0; rfl
            subst hs
            rw [hf.hist]
            split
            · rename_i hc
              cases u with
              | req n =>
                have := (hsi hc.2.1).step_req n hnda
                rw [src_step_alive _ _ hnda]; exact this.wfOut
              | cancel => have := h.cancel 0 (by rw [hupq]; simp); rw [hc.2.1] at this; simp at this
            · exact h.wfh 0
          · obtain ⟨_, _, hmi⟩ := h.mid i nd hk0 hk1 hn
            rw [hf.hist]
            split
            · rename_i hc
              cases u with
              | req n => exact (MidInv.step_req n (hmi hc.2.1) hnda).wfOut
              | cancel => have := h.cancel i (by rw [hupq]; simp); rw [hc.2.1] at this; simp at this
            · exact h.wfh i
          · have := h.len; omega
        · -- source
          intro hk0 s hs
          subst hk0; subst hs
          obtain ⟨s0, hs0, hap, hsi⟩ := h.src
          have hs : s0 = s := by rw [hn] at hs0; cases hs0; rfl
          subst hs
          rw [src_step_alive _ _ hnda]
          refine ⟨_, rfl, ?_⟩
          by_cases hal1 : net.aliveAt 1 = true
          · cases u with
            | req n =>
              have hst := (hsi hal1).step_req n hnda
              have hh : hist net' 0 = hist net 0 ++ (srcStep s0 (.up (.req n))).2.down := by
                rw [hf.hist, src_step_alive _ _ hnda]; simp [hal1, hil]
              rw [hh]
              exact ⟨hst.approx, fun _ => hst⟩
            | cancel => have := h.cancel 0 (by rw [hupq]; simp); rw [hal1] at this; simp at this
          · have hh : hist net' 0 = hist net 0 := by rw [hf.hist]; simp [hal1]
            rw [hh]
            refine ⟨hap, fun hal => ?_⟩
            rw [hnext] at hal; exact absurd hal hal1
        · -- middle
          intro hk0 hk1
          obtain ⟨_, hsp, hmi⟩ := h.mid i nd hk0 hk1 hn
          by_cases hal1 : net.aliveAt (i + 1) = true
          · cases u with
            | req n =>
              have hst := MidInv.step_req n (hmi hal1) hnda
              have hh : hist net' i = hist net i ++ (nd.step (.up (.req n))).2.down := by
                rw [hf.hist]; simp [hal1, hil]
              rw [hh]
              have e1 : midF nd = midF (nd.step (.up (.req n))).1 := (step_midF nd _).1.symm
              exact ⟨(nodeSpec_step _ _ _ _).mp (hst.specM (h.par_node hn _).2), fun _ => hst⟩
            | cancel => have := h.cancel i (by rw [hupq]; simp); rw [hal1] at this; simp at this
          · have hh : hist net' i = hist net i := by rw [hf.hist]; simp [hal1]
            rw [hh]
            refine ⟨hsp, fun hal => ?_⟩
            rw [hnext] at hal; exact absurd hal hal1
        · -- the sink has no link below it
          intro hk1; have := h.len; omega
      · simp [ha] at hstep

/-- node `i+1` handles the oldest unhandled message of link `i` -/
theorem GInv.step_down {P : List Val → Prop} {input : List Val} {net net' : Net} (h : GInv P input net) (i : Nat)
    (hstep : net.step (.down i) = some net') : GInv P input net' := by
  unfold Net.step at hstep
  cases hl : net.links[i]? with
  | none => simp [hl] at hstep
  | some l =>
    simp only [hl] at hstep
    cases hd : l.hist[l.pos]? with
    | none => simp [hd] at hstep
    | some d =>
      simp only [hd] at hstep
      by_cases ha : net.aliveAt (i + 1) = true
      · simp only [ha, Bool.not_true, Bool.false_eq_true, if_false, Option.some.injEq] at hstep
        obtain ⟨nd, hn, hnda⟩ := aliveAt_some ha
        have hil : i < net.links.length := getElem?_lt hl
        have hhist : hist net i = l.hist := by simp [hist, hl]
        have hpos : pos net i = l.pos := by simp [pos, hl]
        have hget : (hist net i)[pos net i]? = some d := by rw [hhist, hpos]; exact hd
        have hposlt : pos net i < (hist net i).length := getElem?_lt hget
        let dpos : Nat → Nat := fun j => if j = i then pos net j + 1 else pos net j
        have hsb : SameBut net { net with links := updLink net.links i (fun l => { l with pos := l.pos + 1 }) } dpos := by
          refine ⟨rfl, rfl, by simp [updLink_length], ?_, ?_, ?_⟩
          · intro j; simp only [hist, updLink_get]; split <;> (cases net.links[j]? <;> simp)
          · intro j
            simp only [pos, updLink_get, dpos]
            by_cases hij : i = j
            · subst hij; simp [hl]
            · have : ¬ j = i := fun hh => hij hh.symm
              simp [hij, this]
          · intro j x hx
            simp only [upq, updLink_get] at hx ⊢
            split at hx
            · cases hlj : net.links[j]? <;> simp_all
            · exact hx
        have hf := frame_of_deliver (ev := .down d) hsb hn
        rw [hstep] at hf
        have hkind := h.kind hn
        have hcov := covered_step nd (.down d) (by
          rcases hkind with ⟨_, s, hs⟩ | ⟨_, _, hok⟩ | ⟨_, c, s, hs⟩
          · exact Or.inr (Or.inl ⟨s, hs⟩)
          · exact Or.inl hok
          · exact Or.inr (Or.inr ⟨c, s, hs⟩))
        -- the consumed history of the stepping node grows by `d`
        have hins' : (hist net (i + 1 - 1)).take (dpos (i + 1 - 1)) = insOf net (i + 1) ++ [d] := by
          simp only [Nat.add_sub_cancel, dpos, if_true, insOf]
          exact take_succ_of_get _ _ _ hget
        have hwfins : wf (insOf net (i + 1) ++ [d]) = true := by
          have h1 : hist net i = (hist net i).take (pos net i + 1) ++ (hist net i).drop (pos net i + 1) :=
            (List.take_append_drop _ _).symm
          have h2 := h.wfh i
          rw [h1, take_succ_of_get _ _ _ hget] at h2
          exact wf_append_left h2
        have hle : ∀ j, dpos j ≤ (hist net j).length := by
          intro j; simp only [dpos]; split
          · rename_i hj; subst hj; omega
          · exact h.posle j
        apply h.of_frame hf hn ha hle ?_ trivial hcov
        · -- wf of the stepping node's own link
          rcases hkind with ⟨hk0, _⟩ | ⟨hk0, hk1, hok⟩ | ⟨hk1, _⟩
          · omega
          · obtain ⟨_, _, hmi⟩ := h.mid (i + 1) nd hk0 hk1 hn
            rw [hf.hist]
            split
            · rename_i hc
              exact (MidInv.step_down d (hmi hc.2.1) hnda hwfins).wfOut
            · exact h.wfh (i + 1)
          · rw [hf.hist]
            have : ¬ (i + 1 < net.links.length) := by have := h.len; omega
            simp [this]; exact h.wfh (i + 1)
        · intro hk0; omega
        · -- middle
          intro hk0 hk1
          obtain ⟨_, hsp, hmi⟩ := h.mid (i + 1) nd hk0 hk1 hn
          rw [hins']
          have hnext : net'.aliveAt (i + 1 + 1) = net.aliveAt (i + 1 + 1) := by rw [hf.alive]; simp
          by_cases hal1 : net.aliveAt (i + 1 + 1) = true
          · have hst := MidInv.step_down d (hmi hal1) hnda hwfins
            have hlen : i + 1 < net.links.length := by have := h.len; omega
            have hh : hist net' (i + 1) = hist net (i + 1) ++ (nd.step (.down d)).2.down := by
              rw [hf.hist]; simp [hal1, hlen]
            rw [hh]
            have e1 : midF nd = midF (nd.step (.down d)).1 := (step_midF nd _).1.symm
            exact ⟨(nodeSpec_step _ _ _ _).mp (hst.specM (h.par_node hn _).2), fun _ => hst⟩
          · have hh : hist net' (i + 1) = hist net (i + 1) := by rw [hf.hist]; simp [hal1]
            rw [hh]
            refine ⟨hsp.extend [d], fun hal => ?_⟩
            rw [hnext] at hal; exact absurd hal hal1
        · -- sink
          intro hk1 c s hs
          subst hs
          obtain ⟨c0, s0, hs0, hsi⟩ := h.sink
          have hidx : net.nodes.length - 1 = i + 1 := by omega
          rw [hidx] at hs0 hsi
          have hcs : c0 = c ∧ s0 = s := by rw [hn] at hs0; cases hs0; exact ⟨rfl, rfl⟩
          obtain ⟨rfl, rfl⟩ := hcs
          have hsa : s0.alive = true := hnda
          rw [sink_step_alive _ _ _ hsa, hins']
          exact ⟨_, rfl, hsi.step_down c0 d hsa hwfins⟩
        · -- the other nodes' consumed histories are untouched
          intro j hjk hj1
          simp only [dpos, insOf]
          have : ¬ (j - 1 = i) := by omega
          simp [this]
      · simp [ha] at hstep

/-- `deliver` keeps the semantic function of every node -/
theorem semsOf_deliver (net : Net) (k : Nat) (ev : Ev) : semsOf (net.deliver k ev) = semsOf net := by
  unfold Net.deliver semsOf
  cases hn : net.nodes[k]? with
  | none => rfl
  | some nd =>
    simp only
    apply List.ext_getElem?
    intro j
    simp only [List.getElem?_map, List.getElem?_set]
    by_cases hkj : k = j
    · subst hkj
      have hk := getElem?_lt hn
      have hget : net.nodes[k] = nd := by
        have := List.getElem?_eq_getElem hk; rw [hn] at this; exact (Option.some.inj this).symm
      simp [hk, hget, (step_midF nd ev).1]
    · simp [hkj]

theorem semsOf_step {net net' : Net} (p : Pick) (h : net.step p = some net') : semsOf net' = semsOf net := by
  cases p with
  | down i =>
    simp only [Net.step] at h
    cases hl : net.links[i]? with
    | none => simp [hl] at h
    | some l =>
      simp only [hl] at h
      cases hd : l.hist[l.pos]? with
      | none => simp [hd] at h
      | some d =>
        simp only [hd] at h
        by_cases ha : net.aliveAt (i + 1) = true
        · simp only [ha, Bool.not_true, Bool.false_eq_true, if_false, Option.some.injEq] at h
          rw [← h, semsOf_deliver]; rfl
        · simp [ha] at h
  | up i =>
    simp only [Net.step] at h
    cases hl : net.links[i]? with
    | none => simp [hl] at h
    | some l =>
      simp only [hl] at h
      cases hq : l.upq with
      | nil => simp [hq] at h
      | cons u rest =>
        simp only [hq] at h
        by_cases ha : net.aliveAt i = true
        · simp only [ha, Bool.not_true, Bool.false_eq_true, if_false, Option.some.injEq] at h
          rw [← h, semsOf_deliver]; rfl
        · simp [ha] at h
  | result i q =>
    simp only [Net.step] at h
    split at h
    · rename_i o w k bad e st hn
      by_cases ha : st.alive = true
      · simp only [ha, Bool.not_true, Bool.false_eq_true, if_false] at h
        split at h
        · simp only [Option.some.injEq] at h; rw [← h, semsOf_deliver]
        · simp at h
      · simp [ha] at h
    · simp at h

theorem semsOf_run (net : Net) (picks : List Pick) : semsOf (net.run picks) = semsOf net := by
  induction picks generalizing net with
  | nil => rfl
  | cons p ps ih =>
    simp only [Net.run]
    cases hs : net.step p with
    | some n => rw [ih n, semsOf_step p hs]
    | none => exact ih net

/-- a worker of the parallel stage at node `i` replies -/
theorem GInv.step_result {P : List Val → Prop} {input : List Val} {net net' : Net} (h : GInv P input net) (i q : Nat)
    (hstep : net.step (.result i q) = some net') : GInv P input net' := by
  simp only [Net.step] at hstep
  split at hstep
  · rename_i o w k bad e st hn
    by_cases hsa : st.alive = true
    · simp only [hsa, Bool.not_true, Bool.false_eq_true, if_false] at hstep
      split at hstep
      · rename_i t hfind
        simp only [Option.some.injEq] at hstep
        have htm : t ∈ st.outst := List.mem_of_find?_eq_some hfind
        have htq : t.1 = q := by have := List.find?_some hfind; simpa using this
        subst htq
        have ha : net.aliveAt i = true := by simp [Net.aliveAt, hn, Node.alive, hsa]
        have hsb : SameBut net net (pos net) := ⟨rfl, rfl, rfl, fun _ => rfl, fun _ => rfl, fun _ _ hx => hx⟩
        have hf := frame_of_deliver (ev := .result t.1 (parFn k bad e t.2)) hsb hn
        rw [hstep] at hf
        have hkind := h.kind hn
        have hmidk : 0 < i ∧ i + 1 < net.nodes.length := by
          rcases hkind with ⟨_, s, hs⟩ | ⟨h0, h1, _⟩ | ⟨_, c, s, hs⟩
          · cases hs
          · exact ⟨h0, h1⟩
          · cases hs
        have hcov := covered_step (.pmap o w k bad e st) (.result t.1 (parFn k bad e t.2))
          (Or.inl (h.mid i _ hmidk.1 hmidk.2 hn).1)
        have hil : i < net.links.length := by have := h.len; omega
        obtain ⟨_, hsp, hmi⟩ := h.mid i _ hmidk.1 hmidk.2 hn
        have hnext : net'.aliveAt (i + 1) = net.aliveAt (i + 1) := by rw [hf.alive]; simp
        apply h.of_frame hf hn ha h.posle (fun j _ _ => rfl) trivial hcov
        · rw [hf.hist]
          split
          · rename_i hc
            exact (MidInv.step_result t (hmi hc.2.1) hsa htm).wfOut
          · exact h.wfh i
        · intro hk0 s hs; cases hs
        · intro hk0 hk1
          by_cases hal1 : net.aliveAt (i + 1) = true
          · have hst := MidInv.step_result t (hmi hal1) hsa htm
            have hh : hist net' i = hist net i ++
                ((Node.pmap o w k bad e st).step (.result t.1 (parFn k bad e t.2))).2.down := by
              rw [hf.hist]; simp [hal1, hil]
            rw [hh]
            have e1 : midF (Node.pmap o w k bad e st) =
                midF ((Node.pmap o w k bad e st).step (.result t.1 (parFn k bad e t.2))).1 := (step_midF _ _).1.symm
            exact ⟨(nodeSpec_step _ _ _ _).mp (hst.specM (h.par_node hn _).2), fun _ => hst⟩
          · have hh : hist net' i = hist net i := by rw [hf.hist]; simp [hal1]
            rw [hh]
            refine ⟨hsp, fun hal => ?_⟩
            rw [hnext] at hal; exact absurd hal hal1
        · intro hk1 c s hs; cases hs
      · simp at hstep
    · simp [hsa] at hstep
  · simp at hstep

theorem GInv.step {P : List Val → Prop} {input : List Val} {net net' : Net} (h : GInv P input net) (p : Pick)
    (hstep : net.step p = some net') : GInv P input net' := by
  cases p with
  | down i => exact h.step_down i hstep
  | up i => exact h.step_up i hstep
  | result i q => exact h.step_result i q hstep

/-- the invariant holds after any list of scheduler picks -/
theorem GInv.run {P : List Val → Prop} {input : List Val} {net : Net} (h : GInv P input net) (picks : List Pick) :
    GInv P input (net.run picks) := by
  induction picks generalizing net with
  | nil => exact h
  | cons p ps ih =>
    simp only [Net.run]
    cases hs : net.step p with
    | some n => exact ih (h.step p hs)
    | none => exact ih h

end GoaktVerif.C45

/-
C45 lemmas, part 12: the ideal content of the last link of an un-fused pipeline of flowActor-backed
stages is the list semantics `sem` of the pipeline.
-/
import GoaktVerif.Lemmas.C45.NetInit
import GoaktVerif.Lemmas.C45.Sem

namespace GoaktVerif.C45
open GoaktVerif.Model.C45 GoaktVerif.Spec.C45

/-- `sem` over arbitrary stage functions -/
def semF : List SemFn → List Val → List Val × List Err
  | [], xs => (xs, [])
  | F :: rest, xs => ((semF rest (F xs).1).1, (F xs).2.toList ++ (semF rest (F xs).1).2)

theorem semF_snoc (Fs : List SemFn) (F : SemFn) (xs : List Val) :
    semF (Fs ++ [F]) xs = ((F (semF Fs xs).1).1, (semF Fs xs).2 ++ (F (semF Fs xs).1).2.toList) := by
  induction Fs generalizing xs with
  | nil => simp [semF]
  | cons G Fs ih => simp [semF, ih, List.append_assoc]

/-- walking the links from the source = composing the stage functions -/
theorem idealAt_take (F0 : SemFn) (Fs tl : List SemFn) (input : List Val) (k : Nat) (hk : k ≤ Fs.length) :
    idealAt (F0 :: (Fs ++ tl)) input k = semF (Fs.take k) input := by
  induction k with
  | zero => simp [idealAt, semF]
  | succ k ih =>
    have hlt : k < Fs.length := by omega
    have hget : (F0 :: (Fs ++ tl))[k + 1]? = some Fs[k] := by
      simp only [List.getElem?_cons_succ]
      rw [List.getElem?_append_left hlt, List.getElem?_eq_getElem hlt]
    have htake : Fs.take (k + 1) = Fs.take k ++ [Fs[k]] := by
      rw [List.take_succ, List.getElem?_eq_getElem hlt]; rfl
    simp only [idealAt, hget]
    rw [ih (by omega), htake, semF_snoc]

theorem idealAt_eq_semF (F0 : SemFn) (Fs tl : List SemFn) (input : List Val) :
    idealAt (F0 :: (Fs ++ tl)) input Fs.length = semF Fs input := by
  rw [idealAt_take F0 Fs tl input Fs.length (Nat.le_refl _), List.take_length]

/-- the semantic function of the node `mkNode` builds for a stage -/
def stageF : Stage → SemFn
  | .batch n => stageSem (.batch n)
  | .opmap _ k bad e => parRun k bad e
  | st => xfRun st {}

/-- the sequential semantics of the ordered parallel map is the spec's list function -/
theorem parRun_eq_stageSem (w : Nat) (k : Int) (bad : Option Int) (e : Err) (vs : List Val) :
    parRun k bad e vs = stageSem (.opmap w k bad e) vs := by
  induction vs with
  | nil => rfl
  | cons v vs ih =>
    cases v with
    | int x =>
      by_cases hx : bad = some x
      · simp [parRun, parFn, hx, stageSem, ints, beforeBad]
      · have hx' : (bad = some x) = False := by simp [hx]
        simp only [stageSem] at ih
        simp [parRun, parFn, hx, ih, stageSem, ints, beforeBad, List.takeWhile_cons, hx']
    | list l => simp [parRun, parFn, stageSem, ints, tyErr, beforeBad]

theorem stageF_eq_stageSem (st : Stage) (h : Stage.covered st = true) (xs : List Val) :
    stageF st xs = stageSem st xs := by
  cases st <;> simp [Stage.covered] at h
  all_goals first
    | rfl
    | exact xfRun_eq_stageSem _ rfl xs
    | exact parRun_eq_stageSem _ _ _ _ xs

theorem semF_eq_sem (stages : List Stage) (h : ∀ st ∈ stages, Stage.covered st = true) (xs : List Val) :
    semF (stages.map stageF) xs = sem stages xs := by
  induction stages generalizing xs with
  | nil => rfl
  | cons st rest ih =>
    have h1 := stageF_eq_stageSem st (h st (by simp)) xs
    have ih' := ih (fun s hs => h s (by simp [hs]))
    simp only [List.map_cons, semF, sem, h1, ih']

theorem midF_mkNode (st : Stage) (h : Stage.covered st = true) : midF (mkNode st) = stageF st := by
  cases st <;> simp [Stage.covered] at h <;> rfl

end GoaktVerif.C45

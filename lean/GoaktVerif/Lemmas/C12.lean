/-
C12 helper lemmas: frame facts (what each model function leaves untouched) and the
invariant "every logged event is locally sound".
-/
import GoaktVerif.Model.C12

namespace GoaktVerif.C12
open GoaktVerif.Model.C12 GoaktVerif.Model.C12.State

/-- two states agree on everything but the heap array, the index fields and the halt flag -/
structure SameCore (s t : State) : Prop where
  now : t.now = s.now
  nA : t.nA = s.nA
  actors : t.actors = s.actors
  nE : t.nE = s.nE
  objs : t.objs = s.objs
  entries : t.entries = s.entries
  chan : t.chan = s.chan
  sysStopping : t.sysStopping = s.sysStopping
  log : t.log = s.log

theorem SameCore.refl (s : State) : SameCore s s := ⟨rfl, rfl, rfl, rfl, rfl, rfl, rfl, rfl, rfl⟩

theorem SameCore.trans {s t u : State} (h1 : SameCore s t) (h2 : SameCore t u) : SameCore s u :=
  ⟨h2.now.trans h1.now, h2.nA.trans h1.nA, h2.actors.trans h1.actors, h2.nE.trans h1.nE, h2.objs.trans h1.objs,
   h2.entries.trans h1.entries, h2.chan.trans h1.chan, h2.sysStopping.trans h1.sysStopping, h2.log.trans h1.log⟩

theorem sameCore_setIdx (s : State) (g : Nat) (v : Int) : SameCore s (s.setIdx g v) := ⟨rfl, rfl, rfl, rfl, rfl, rfl, rfl, rfl, rfl⟩

theorem sameCore_swap (s : State) (i j : Nat) : SameCore s (s.swap i j) := by
  unfold swap
  split
  · exact ⟨rfl, rfl, rfl, rfl, rfl, rfl, rfl, rfl, rfl⟩
  · exact SameCore.refl s

theorem sameCore_up (f : Nat) (s : State) (j : Nat) : SameCore s (up f s j) := by
  fun_induction up f s j with
  | case1 => exact SameCore.refl _
  | case2 => exact SameCore.refl _
  | case3 f s j i h ih => exact (sameCore_swap s _ _).trans ih

theorem sameCore_down (f : Nat) (s : State) (i n : Nat) : SameCore s (down f s i n).1 := by
  fun_induction down f s i n with
  | case1 => exact SameCore.refl _
  | case2 => exact SameCore.refl _
  | case3 => exact SameCore.refl _
  | case4 f s i n j1 h1 j h2 ih => exact (sameCore_swap s _ _).trans ih

theorem sameCore_popLast (s : State) : SameCore s s.popLast := by
  unfold popLast
  split
  · exact SameCore.refl s
  · exact ⟨rfl, rfl, rfl, rfl, rfl, rfl, rfl, rfl, rfl⟩

theorem sameCore_hpush (s : State) (g : Nat) : SameCore s (s.hpush g) := by
  unfold hpush
  dsimp only
  refine SameCore.trans ?_ (sameCore_up _ _ _)
  exact ⟨rfl, rfl, rfl, rfl, rfl, rfl, rfl, rfl, rfl⟩

theorem sameCore_hpop (s : State) : SameCore s s.hpop := by
  unfold hpop
  dsimp only
  exact ((sameCore_swap s _ _).trans (sameCore_down _ _ _ _)).trans (sameCore_popLast _)

theorem sameCore_hremove (s : State) (i : Int) : SameCore s (s.hremove i) := by
  unfold hremove
  split
  · exact ⟨rfl, rfl, rfl, rfl, rfl, rfl, rfl, rfl, rfl⟩
  · dsimp only
    refine SameCore.trans ?_ (sameCore_popLast _)
    split
    · split
      · exact (sameCore_swap s _ _).trans (sameCore_down _ _ _ _)
      · exact ((sameCore_swap s _ _).trans (sameCore_down _ _ _ _)).trans (sameCore_up _ _ _)
    · exact SameCore.refl s

theorem sameCore_hfix (s : State) (i : Int) : SameCore s (s.hfix i) := by
  unfold hfix
  split
  · exact ⟨rfl, rfl, rfl, rfl, rfl, rfl, rfl, rfl, rfl⟩
  · dsimp only
    split
    · exact sameCore_down _ _ _ _
    · exact (sameCore_down _ _ _ _).trans (sameCore_up _ _ _)

theorem sameCore_dropFromHeap (s : State) (g : Nat) : SameCore s (s.dropFromHeap g) := by
  unfold dropFromHeap
  split
  · exact (sameCore_hremove s _).trans (sameCore_setIdx _ _ _)
  · exact SameCore.refl s


/-! ### every logged event is locally sound -/

/-- what each event certifies by itself: a timer decision happens at or after the entry's
    deadline, and — when it concerns the actor's current, unpaused, time-based entry — less than
    `touchIv` + timeout after the actor's latest activity... i.e. `latest + T < deadline + touchIv`; a successful `tryPassivation` saw none of the blocking flags; a message-count
    trigger is raised only at or above the threshold -/
def evOK : Ev → Bool
  | .decide _ _ now deadline T latest ep _ cur isT =>
    decide (deadline ≤ now) &&
      (!(cur && !ep && isT) || (match latest with
        | some l => decide (l + T < deadline + touchIv)
        | none => true))
  | .tried _ _ ok ll ss sk st su pf rn _ _ _ => !ok || (!ll && !ss && !sk && !st && !su && !pf && rn)
  | .crossed _ _ p b m => decide (b + m ≤ p)
  | .postStop _ wasRunning => wasRunning
  | _ => true

/-- the actor of a successful `tryPassivation` event -/
def triedOk : Ev → Option Nat
  | .tried a _ true _ _ _ _ _ _ _ _ _ _ => some a
  | _ => none

/-- does the list start with a `postStop` event of actor `a` -/
def stopOnTop (a : Nat) : List Ev → Bool
  | .postStop b _ :: _ => a == b
  | _ => false

/-- a successful `tryPassivation` is logged directly on top of the `postStop` event of the stop it
    performed (the log is newest first) -/
def adjOK : List Ev → Bool
  | [] => true
  | e :: rest => (match triedOk e with
      | some a => stopOnTop a rest
      | none => true) && adjOK rest

/-- what a chunk of freshly logged events certifies -/
def Good (l : List Ev) : Prop := (∀ e ∈ l, evOK e = true) ∧ adjOK l = true

theorem stopOnTop_append (a : Nat) (l l1 : List Ev) (h : stopOnTop a l = true) : stopOnTop a (l ++ l1) = true := by
  cases l with
  | nil => cases h
  | cons e rest => cases e <;> first | exact h | cases h

theorem adjOK_append (l2 l1 : List Ev) (h2 : adjOK l2 = true) (h1 : adjOK l1 = true) : adjOK (l2 ++ l1) = true := by
  induction l2 with
  | nil => simpa using h1
  | cons e rest ih =>
    simp only [adjOK, Bool.and_eq_true, List.cons_append] at h2 ⊢
    refine ⟨?_, ih h2.2⟩
    cases ht : triedOk e with
    | none => rfl
    | some a =>
      have := h2.1
      rw [ht] at this
      exact stopOnTop_append a rest l1 this

/-- `t`'s log is `s`'s log plus a good chunk of events -/
def LogExt (s t : State) : Prop := ∃ l, t.log = l ++ s.log ∧ Good l

theorem LogExt.refl (s : State) : LogExt s s := ⟨[], rfl, by simp [Good, adjOK]⟩

theorem LogExt.trans {s t u : State} (h1 : LogExt s t) (h2 : LogExt t u) : LogExt s u := by
  obtain ⟨l1, e1, p1, q1⟩ := h1
  obtain ⟨l2, e2, p2, q2⟩ := h2
  refine ⟨l2 ++ l1, by rw [e2, e1, List.append_assoc], ?_, adjOK_append l2 l1 q2 q1⟩
  intro e he
  rcases List.mem_append.mp he with h | h
  · exact p2 e h
  · exact p1 e h

theorem LogExt.of_log_eq {s t : State} (h : t.log = s.log) : LogExt s t := ⟨[], by simpa using h, by simp [Good, adjOK]⟩

theorem SameCore.logExt {s t : State} (h : SameCore s t) : LogExt s t := LogExt.of_log_eq h.log

/-- a single event that is not a successful attempt -/
def plain : Ev → Bool
  | .tried _ _ true _ _ _ _ _ _ _ _ _ _ => false
  | _ => true

theorem adjOK_single (e : Ev) (h : plain e = true) : adjOK [e] = true := by
  have : triedOk e = none := by
    cases e <;> first | rfl | skip
    case tried a src ok ll ss sk st su pf rn now latest pr =>
      cases ok
      · rfl
      · cases h
  simp [adjOK, this]

theorem logExt_emit (s : State) (e : Ev) (h : evOK e = true) (hp : plain e = true := by rfl) : LogExt s (s.emit e) :=
  ⟨[e], rfl, by simpa using h, adjOK_single e hp⟩

theorem logExt_setA (s : State) (a : Nat) (f : Actor → Actor) : LogExt s (s.setA a f) := LogExt.of_log_eq rfl
theorem logExt_setE (s : State) (g : Nat) (f : Entry → Entry) : LogExt s (s.setE g f) := LogExt.of_log_eq rfl
theorem logExt_signal (s : State) (g : Nat) : LogExt s (s.signal g) := LogExt.of_log_eq rfl
theorem logExt_refresh (s : State) (g : Nat) : LogExt s (s.refresh g) := LogExt.of_log_eq rfl
theorem logExt_hpush (s : State) (g : Nat) : LogExt s (s.hpush g) := (sameCore_hpush s g).logExt
theorem logExt_dropFromHeap (s : State) (g : Nat) : LogExt s (s.dropFromHeap g) := (sameCore_dropFromHeap s g).logExt

theorem logExt_hfix (s : State) (i : Int) : LogExt s (s.hfix i) := (sameCore_hfix s i).logExt
theorem logExt_hpop (s : State) : LogExt s s.hpop := (sameCore_hpop s).logExt
theorem logExt_hremove (s : State) (i : Int) : LogExt s (s.hremove i) := (sameCore_hremove s i).logExt
theorem logExt_setIdx (s : State) (g : Nat) (v : Int) : LogExt s (s.setIdx g v) := LogExt.of_log_eq rfl
theorem logExt_delEntry (s : State) (a : Nat) : LogExt s (s.delEntry a) := LogExt.of_log_eq rfl

theorem logExt_regTarget (s : State) (a : Nat) : LogExt s (s.regTarget a).1 := by
  unfold regTarget
  split
  · exact LogExt.of_log_eq rfl
  · exact logExt_dropFromHeap _ _

theorem logExt_regFinish (s : State) (a g : Nat) (st : Strat) : LogExt s (s.regFinish a g st) := by
  unfold regFinish
  cases st with
  | time T => exact (((logExt_setE _ _ _).trans (logExt_setE _ _ _)).trans (logExt_refresh _ _)).trans (logExt_hpush _ _)
  | count n => exact (logExt_setE _ _ _).trans (logExt_setE _ _ _)
  | longLived => exact (logExt_setE _ _ _).trans (logExt_delEntry _ _)

theorem logExt_register (s : State) (a : Nat) (st : Strat) : LogExt s (s.register a st) :=
  (logExt_regTarget s a).trans (logExt_regFinish _ _ _ _)

theorem sameActors_dropFromHeap (s : State) (g : Nat) : (s.dropFromHeap g).actors = s.actors :=
  (sameCore_dropFromHeap s g).actors

theorem sameActors_unregister (s : State) (a : Nat) : (s.unregister a).actors = s.actors := by
  unfold unregister
  split
  · rfl
  · exact sameActors_dropFromHeap _ _

theorem logExt_unregister (s : State) (a : Nat) : LogExt s (s.unregister a) := by
  unfold unregister
  split
  · exact LogExt.refl s
  · exact (logExt_dropFromHeap _ _).trans (logExt_delEntry _ _)

theorem logExt_mpause (s : State) (a : Nat) : LogExt s (s.mpause a) := by
  unfold mpause
  split
  · exact LogExt.refl s
  · split
    · exact LogExt.refl s
    · exact (logExt_setE _ _ _).trans (logExt_dropFromHeap _ _)

theorem logExt_resumeEntry (s : State) (g : Nat) : LogExt s (s.resumeEntry g) := by
  unfold resumeEntry
  dsimp only
  split
  · exact ((logExt_setE _ _ _).trans (logExt_refresh _ _)).trans (logExt_hpush _ _)
  · split
    · exact ((logExt_setE _ _ _).trans (logExt_setE _ _ _)).trans (logExt_signal _ _)
    · exact logExt_setE _ _ _

theorem logExt_mresumeS (s : State) (a : Nat) : LogExt s (s.mresumeS a) := by
  unfold mresumeS
  split
  · exact LogExt.refl s
  · split
    · exact LogExt.refl s
    · exact logExt_resumeEntry _ _

theorem logExt_mtouch (s : State) (a : Nat) : LogExt s (s.mtouch a) := by
  unfold mtouch
  split
  · exact LogExt.refl s
  · split
    · exact LogExt.refl s
    · split
      · exact LogExt.refl s
      · exact (logExt_refresh _ _).trans (logExt_hfix _ _)

theorem logExt_mproc (s : State) (a : Nat) : LogExt s (s.mproc a) := by
  unfold mproc
  cases hE : s.entries a with
  | none => exact LogExt.refl s
  | some g =>
    dsimp only
    split
    · exact LogExt.refl s
    · split
      · exact LogExt.refl s
      · rename_i h
        have he : LogExt s ((s.setE g fun e => { e with pending := true }).emit
            (.crossed a g (s.actors a).processed (s.objs g).baseline (s.objs g).maxMessages)) :=
          (logExt_setE _ _ _).trans (logExt_emit _ _ (by simp only [evOK, decide_eq_true_eq]; omega))
        split
        · exact he
        · exact (he.trans (logExt_setE _ _ _)).trans (logExt_signal _ _)

theorem logExt_doStopS (s : State) (a : Nat) (h : (s.actors a).running = true) : LogExt s (s.doStopS a) :=
  (logExt_emit _ _ (by simpa [evOK] using h) rfl).trans (logExt_setA _ _ _)

theorem evOK_tried_false (s : State) (a : Nat) (src : Src) : evOK (s.triedEv a src false) = true := rfl

theorem adjOK_pair (a : Nat) (src : Src) (ok ll ss sk st su pf rn : Bool) (now : Nat) (latest : Option Nat) (pr : Int)
    (w : Bool) : adjOK [Ev.tried a src ok ll ss sk st su pf rn now latest pr, .postStop a w] = true := by
  cases ok <;> simp [adjOK, triedOk, stopOnTop]

theorem logExt_tryS (s : State) (a : Nat) (src : Src) : LogExt s (s.tryS a src) := by
  unfold tryS
  dsimp only
  split
  · split
    · exact (logExt_setA _ _ _).trans (logExt_emit _ _ rfl rfl)
    · exact logExt_emit _ _ rfl rfl
  · rename_i h
    simp only [tryBlocked, Bool.or_eq_true, not_or, Bool.not_eq_true, Bool.not_eq_false'] at h
    have hrun : (s.actors a).running = true := by simpa using h.2
    refine (logExt_unregister s a).trans ?_
    have hru : ((s.unregister a).actors a).running = true := by
      rw [(sameActors_unregister s a)]; exact hrun
    -- the stop and the attempt's event are logged together
    refine ⟨[s.triedEv a src (s.tryB a), .postStop a ((s.unregister a).actors a).running], rfl, ?_, ?_⟩
    · intro e he
      simp only [List.mem_cons, List.not_mem_nil, or_false] at he
      rcases he with rfl | rfl
      · simp only [triedEv, evOK, h]
        simp
      · simpa [evOK] using hru
    · exact adjOK_pair _ _ _ _ _ _ _ _ _ _ _ _ _ _

theorem logExt_shutdown (s : State) (a : Nat) : LogExt s (s.shutdown a) := by
  unfold shutdown
  split
  · exact LogExt.refl s
  · rename_i hr
    refine ((logExt_setA _ _ _).trans (logExt_unregister _ _)).trans (logExt_doStopS _ _ ?_)
    rw [sameActors_unregister]
    simpa [setA, upd] using hr

theorem logExt_markActivity (s : State) (a : Nat) : LogExt s (s.markActivity a) := by
  unfold markActivity
  dsimp only
  split
  · exact ((logExt_setA _ _ _).trans (logExt_setA _ _ _)).trans (logExt_mtouch _ _)
  · exact logExt_setA _ _ _

theorem logExt_recordProcessed (s : State) (a : Nat) : LogExt s (s.recordProcessed a) := by
  unfold recordProcessed
  dsimp only
  split
  · exact (logExt_setA _ _ _).trans (logExt_mproc _ _)
  · exact logExt_setA _ _ _

theorem logExt_startPassivation (s : State) (a : Nat) : LogExt s (s.startPassivation a) := by
  unfold startPassivation
  split
  · exact LogExt.refl s
  · exact logExt_register _ _ _

theorem logExt_pausePassivation (s : State) (a : Nat) : LogExt s (s.pausePassivation a) :=
  (logExt_mpause _ _).trans (logExt_setA _ _ _)

theorem logExt_resumePassivation (s : State) (a : Nat) : LogExt s (s.resumePassivation a) := by
  unfold resumePassivation
  split
  · dsimp only
    split
    · exact (logExt_setA _ _ _).trans (logExt_mresumeS _ _)
    · exact ((logExt_setA _ _ _).trans (logExt_mresumeS _ _)).trans (logExt_startPassivation _ _)
  · exact logExt_startPassivation _ _

theorem logExt_suspend (s : State) (a : Nat) : LogExt s (s.suspend a) :=
  (logExt_setA _ _ _).trans (logExt_pausePassivation _ _)

theorem logExt_reinstate (s : State) (a : Nat) : LogExt s (s.reinstate a) := by
  unfold reinstate
  split
  · exact LogExt.refl s
  · exact ((logExt_setA _ _ _).trans (logExt_markActivity _ _)).trans (logExt_resumePassivation _ _)

theorem logExt_sstep (s : State) (o : SOp) : LogExt s (sstep s o).1 := by
  cases o <;> simp only [sstep]
  case act a => exact logExt_markActivity _ _
  case recd a => exact logExt_recordProcessed _ _
  case pause a => exact logExt_pausePassivation _ _
  case resume a => exact logExt_resumePassivation _ _
  case susp a => exact logExt_suspend _ _
  case reinst a => exact logExt_reinstate _ _
  case stop a => exact logExt_shutdown _ _
  case mreg a => exact logExt_register _ _ _
  case munreg a => exact logExt_unregister _ _
  case mpause a => exact logExt_mpause _ _
  case mresume a => exact logExt_mresumeS _ _
  case mtouch a => exact logExt_mtouch _ _
  case mproc a => exact logExt_mproc _ _
  case try_ a => exact logExt_tryS _ _ _
  case sysstop b => exact LogExt.of_log_eq rfl
  case flagstop a b => exact logExt_setA _ _ _
  case deliver a => split; exact (logExt_markActivity _ _).trans (logExt_recordProcessed _ _); exact LogExt.refl s
  case pauseMsg a => split; exact logExt_pausePassivation _ _; exact LogExt.refl s
  case resumeMsg a => split; exact logExt_resumePassivation _ _; exact LogExt.refl s
  case fail a => split; exact logExt_suspend _ _; exact LogExt.refl s
  case reinstateApi a => split; exact logExt_reinstate _ _; exact LogExt.refl s

theorem logExt_srun (s : State) (os : List SOp) : LogExt s (srun s os) := by
  induction os generalizing s with
  | nil => exact LogExt.refl s
  | cons o os ih => exact (logExt_sstep s o).trans (ih _)

theorem logExt_passivateS (s : State) (g : Nat) (src : Src) (pre post : List SOp) :
    LogExt s (passivateS s g src pre post) :=
  ((logExt_srun _ _).trans (logExt_tryS _ _ _)).trans (logExt_srun _ _)

theorem logExt_nextEntry (f : Nat) (s : State) : LogExt s (nextEntry f s).1 := by
  fun_induction nextEntry f s with
  | case1 => exact LogExt.refl _
  | case2 => exact LogExt.refl _
  | case3 => exact (logExt_hremove _ _).trans (logExt_setIdx _ _ _)
  | case4 f s g _ hq hp hh ih => exact ((logExt_hremove _ _).trans (logExt_setIdx _ _ _)).trans ih
  | case5 => exact LogExt.refl _
  | case6 => exact LogExt.refl _

theorem logExt_processMessageEntry (s : State) (g : Nat) (pre post : List SOp) :
    LogExt s (processMessageEntry s g pre post) := by
  unfold processMessageEntry
  dsimp only
  have ht : LogExt s ((passivateS (s.emit (.countFire (s.objs g).actor g)) g .count pre post).setE g
      fun e => { e with enqueued := false }) :=
    ((logExt_emit _ _ rfl).trans (logExt_passivateS _ _ _ _ _)).trans (logExt_setE _ _ _)
  split
  · exact LogExt.refl s
  · split
    · exact logExt_setE _ _ _
    · split
      · exact ht
      · split
        · exact (ht.trans (logExt_delEntry _ _)).trans (logExt_setE _ _ _)
        · split
          · exact ht
          · split
            · exact (ht.trans (logExt_setE _ _ _)).trans (logExt_signal _ _)
            · exact ht

theorem logExt_spawnAll (s : State) (cfg : List (Strat × Bool)) : LogExt s (spawnAll s cfg) := by
  induction cfg generalizing s with
  | nil => exact LogExt.refl s
  | cons c cfg ih =>
    obtain ⟨st, fail⟩ := c
    unfold spawnAll
    refine LogExt.trans ?_ (ih _)
    refine LogExt.trans ?_ (logExt_startPassivation _ _)
    exact LogExt.of_log_eq rfl

/-- a successful attempt sits directly on top of the PostStop it caused -/
theorem adjOK_mem (l : List Ev) (h : adjOK l = true) (a : Nat) (src : Src) (ll ss sk st su pf rn : Bool) (now : Nat)
    (latest : Option Nat) (pr : Int) (hm : Ev.tried a src true ll ss sk st su pf rn now latest pr ∈ l) :
    ∃ w, Ev.postStop a w ∈ l := by
  induction l with
  | nil => cases hm
  | cons e rest ih =>
    simp only [adjOK, Bool.and_eq_true] at h
    rcases List.mem_cons.mp hm with heq | hin
    · subst heq
      have h1 := h.1
      simp only [triedOk] at h1
      cases rest with
      | nil => cases h1
      | cons e2 rest2 =>
        cases e2 <;> first | cases h1 | skip
        case postStop b w =>
          simp only [stopOnTop, beq_iff_eq] at h1
          exact ⟨w, by rw [h1]; simp⟩
    · obtain ⟨w, hw⟩ := ih h.2 hin
      exact ⟨w, List.mem_cons_of_mem _ hw⟩

end GoaktVerif.C12
